import CalicoVerif.Util.Proto
import CalicoVerif.Model.C05
/-! Driver for C05.  Ops:
  `new`
  `ep <id> <p1,p2|-|DEL> <valid 0|1> [extra…]`    raw WorkloadEndpoint/HostEndpoint update (before the ValidationFilter)
  `prof <name> <rulesId|DEL> <valid 0|1> [extra…]` raw ProfileRules update
Output: the rule scanner's view (active profiles with dummy-drop `D` or real rules `R:<id>`)
and the sorted OnProfileActive/Inactive calls of this op.
-/
open CalicoVerif CalicoVerif.C05 CalicoVerif.Proto

def sortStrs (l : List String) : List String := l.mergeSort (fun a b => !(decide (b < a)))

def showList (l : List String) : String :=
  if l.isEmpty then "-" else joinWith "," (sortStrs l)

def showOut : OutRules String → String
  | .dummyDrop => "D"
  | .real r => "R:" ++ r

def showEvent : Event String → String
  | .active p r => s!"+{p}={showOut r}"
  | .inactive p => s!"-{p}"

def render (before : Nat) (st : Arc String) : String :=
  let v := showList ((view st.out).map (fun (p : String × OutRules String) => s!"{p.1}={showOut p.2}"))
  let e := showList ((st.out.drop before).map showEvent)
  s!"V={v} E={e}"

def applyRaw (st : Arc String) (u : RawUpd String) : Arc String × String :=
  let st' := C05.step st (C05.filter u)
  (st', render st.out.length st')

def parseValid (s : String) : Option Bool :=
  if s == "1" then some true else if s == "0" then some false else none

def step (st : Arc String) (line : String) : Arc String × String :=
  match words line with
  | ["new"] => (Arc.new String, "ok")
  | ["insync"] => (st, render st.out.length st)
  | "ep" :: id :: ids :: valid :: _ =>
    match parseValid valid with
    | some b =>
      if ids == "DEL" then applyRaw st (.endpoint id none)
      else applyRaw st (.endpoint id (some ((if ids == "-" then [] else ids.splitOn ","), b)))
    | none => (st, "bad-op")
  | "prof" :: name :: r :: valid :: _ =>
    match parseValid valid with
    | some b =>
      if r == "DEL" then applyRaw st (.profileRules name none)
      else applyRaw st (.profileRules name (some (r, b)))
    | none => (st, "bad-op")
  | _ => (st, "bad-op")

def main : IO Unit := run step (Arc.new String)
