import CalicoVerif.Util.Proto
import CalicoVerif.Model.C05
import CalicoVerif.Model.C05Pol
/-! Driver for C05.  Ops:
  `new`
  `ep <id> <p1,p2|-|DEL> <valid 0|1> [extra…]`    raw WorkloadEndpoint/HostEndpoint update (before the ValidationFilter)
  `prof <name> <rulesId|DEL> <valid 0|1> [extra…]` raw ProfileRules update
Policy / tier stream (`newp` starts a case): raw updates carry the validators' verdict as `<valid>`:
  `rtier name order|~ action|~ valid` | `rtier-del name`
  | `rpol kind|ns|name tier|~ order|~ flags types valid [x=…]` | `rpol-del key`
  | `rep w:id|h:id tag profiles valid [x=…]` | `rep-del ep`
  | `match key ep` | `unmatch key ep` (issued by the real ARC) | `status insync` | `flush`
  output `ok`, for `flush` the emitted endpoint tier data sorted by endpoint
  (`ep tag profs T:name=order=action=policies+…`, `ep nil`; `skip` when not in sync, `panic`).
  `pflush`: the EventSequencer flushes to the dataplane; output `P=` the profile rules CONTENT the
  dataplane then holds (`D` deny-all stand-in / `R:<id>`), which must be the rule scanner's view.
Output: the rule scanner's view (active profiles with dummy-drop `D` or real rules `R:<id>`)
and the sorted OnProfileActive/Inactive calls of this op.
-/
open CalicoVerif CalicoVerif.C05 CalicoVerif.Proto

def sortStrs (l : List String) : List String := l.mergeSort (fun a b => !(decide (b < a)))

def showList (l : List String) : String :=
  if l.isEmpty then "-" else joinWith "," (sortStrs l)

def showOut : OutRules String → String
  | .dummyDrop => "D"
  | .real r => "R:" ++ r

def showEvent : Event String → String
  | .active p r => s!"+{p}={showOut r}"
  | .inactive p => s!"-{p}"

def render (before : Nat) (st : Arc String) : String :=
  let v := showList ((view st.out).map (fun (p : String × OutRules String) => s!"{p.1}={showOut p.2}"))
  let e := showList ((st.out.drop before).map showEvent)
  s!"V={v} E={e}"

def applyRaw (st : Arc String) (u : RawUpd String) : Arc String × String :=
  let st' := C05.step st (C05.filter u)
  (st', render st.out.length st')

def parseValid (s : String) : Option Bool :=
  if s == "1" then some true else if s == "0" then some false else none

def stepProf (st : Arc String) (line : String) : Option (Arc String × String) :=
  match words line with
  | ["new"] => some (Arc.new String, "ok")
  | ["insync"] => some (st, render st.out.length st)
  | ["pflush"] =>
    -- end of a flush window: what the dataplane holds afterwards = the rule scanner's view
    some (st, "P=" ++ showList ((view st.out).map (fun (p : String × OutRules String) => s!"{p.1}={showOut p.2}")))
  | "ep" :: id :: ids :: valid :: _ =>
    match parseValid valid with
    | some b =>
      if ids == "DEL" then some (applyRaw st (.endpoint id none))
      else some (applyRaw st (.endpoint id (some ((if ids == "-" then [] else ids.splitOn ","), b))))
    | none => none
  | "prof" :: name :: r :: valid :: _ =>
    match parseValid valid with
    | some b =>
      if r == "DEL" then some (applyRaw st (.profileRules name none))
      else some (applyRaw st (.profileRules name (some (r, b))))
    | none => none
  | _ => none

/-! ### policy / tier stream -/
open CalicoVerif.C02 in
def tok (s : String) : String := if s == "~" then "" else s
def untok (s : String) : String := if s == "" then "~" else s
def csv (s : String) : List String := if s == "-" then [] else (s.splitOn ",").map tok
def uncsv (l : List String) : String := if l.isEmpty then "-" else ",".intercalate (l.map untok)

def parseKey (s : String) : Option C02.PolicyKey :=
  match s.splitOn "|" with
  | [k, ns, n] => some ⟨tok n, tok ns, tok k⟩
  | _ => none
def showKey (k : C02.PolicyKey) : String := s!"{untok k.kind}|{untok k.ns}|{untok k.name}"

def parseEpKey (s : String) : Option C02.EpKey :=
  if s.startsWith "w:" then some (.wep (s.drop 2).toString)
  else if s.startsWith "h:" then some (.hep (s.drop 2).toString) else none
def showEpKey : C02.EpKey → String
  | .wep id => "w:" ++ id
  | .hep id => "h:" ++ id

def parseOrder (s : String) : Option (Option Int) :=
  if s == "~" then some none else s.toInt?.map some
def showOrder : Option Int → String
  | none => "~"
  | some i => toString i

def flagStr (m : C02.PolMeta) : String :=
  (if m.doNotTrack then "u" else "") ++ (if m.preDNAT then "d" else "") ++ (if m.applyOnForward then "f" else "")
  ++ (if m.ingress then "i" else "") ++ (if m.egress then "e" else "")

def showPol (p : C02.PolKV) : String := s!"{showKey p.key}:{showOrder p.val.order}:{flagStr p.val}:{untok p.val.tier}"
def showTier (t : C02.TierInfo) : String :=
  let ps := if t.policies.isEmpty then "-" else ";".intercalate (t.policies.map showPol)
  s!"{untok t.name}={showOrder t.order}={untok t.defaultAction}={ps}"
def showTiers (l : List C02.TierInfo) : String := if l.isEmpty then "-" else "+".intercalate (l.map showTier)

def showCall : C02.Call → String × String
  | .endpointUpdate k none => (showEpKey k, s!"{showEpKey k} nil")
  | .endpointUpdate k (some u) =>
    (showEpKey k, s!"{showEpKey k} {untok u.ep.tag} {uncsv u.ep.profiles} T:{showTiers u.tiers}")
  | _ => ("", "?")

def showCalls (cs : List C02.Call) : String :=
  let l := (cs.map showCall).mergeSort (fun a b => decide (a.1 ≤ b.1))
  if l.isEmpty then "none" else " ; ".intercalate (l.map (·.2))

def dropX (ws : List String) : List String := ws.filter (fun w => !w.startsWith "x=")

def parseRaw (ws : List String) : Option RawEvent :=
  match ws with
  | ["rtier", n, o, a, v] => do
      let o ← parseOrder o
      let b ← parseValid v
      pure (.tier n (some ((o, tok a), b)))
  | ["rtier-del", n] => some (.tier n none)
  | ["rpol", k, t, o, fl, ty, v] => do
      let k ← parseKey k
      let o ← parseOrder o
      let b ← parseValid v
      pure (.policy k (some (⟨tok t, o, fl.contains 'u', fl.contains 'd', fl.contains 'f', csv ty⟩, b)))
  | ["rpol-del", k] => (parseKey k).map fun k => .policy k none
  | ["rep", k, tag, profs, v] => do
      let k ← parseEpKey k
      let b ← parseValid v
      pure (.endpoint k (some (⟨tok tag, csv profs⟩, b)))
  | ["rep-del", k] => (parseEpKey k).map fun k => .endpoint k none
  | ["match", p, e] => do pure (.matchStarted (← parseKey p) (← parseEpKey e))
  | ["unmatch", p, e] => do pure (.matchStopped (← parseKey p) (← parseEpKey e))
  | ["status", "insync"] => some (.status true)
  | _ => none

def stepPol (r : C03.Resolver) (line : String) : Option (C03.Resolver × String) :=
  match dropX (words line) with
  | ["newp"] => some ({}, "ok")
  | ["flush"] =>
    if !r.inSync then some (r, "skip") else
    match r.flush with
    | none => some (r, "panic")
    | some (r', cs) => some (r', showCalls cs)
  | ws => (parseRaw ws).map fun e => (stepRaw r e, "ok")

def step (st : Arc String × C03.Resolver) (line : String) : (Arc String × C03.Resolver) × String :=
  match stepProf st.1 line with
  | some (a, o) => ((a, st.2), o)
  | none =>
    match stepPol st.2 line with
    | some (r, o) => ((st.1, r), o)
    | none => (st, "bad-op")

def main : IO Unit := run step (Arc.new String, {})
