import CalicoVerif.Util.Proto
import CalicoVerif.Model.C17
/-! Driver for C17.
  `new <removeNonCalico01>` | `iface <name> <idx> <up|down|gone>` (link change + monitor callbacks; down/gone also drops the kernel's routes on it) | `link <name> <idx> <up|down|gone>` (the same link change, callbacks delayed) | `flush` (the delayed callbacks arrive) | `kroute <cidr> <ifindex> <gw|-> <proto> <kind>` | `kdel <cidr>`
  `set <cls> <iface> <cidr~gw~kind,...|->` | `upd <cls> <iface> <cidr> <gw|-> <kind>` | `rem <cls> <iface> <cidr>` | `resync`
  `apply <letters>`   letters ⊆ {l (LinkList fails), r (RouteList fails), n (LinkByName fails), p (RouteReplace fails once), d (RouteDel fails once)}, `-` = none
-/
open CalicoVerif CalicoVerif.C17 CalicoVerif.Proto

def splitList (sep : String) (s : String) : List String :=
  if s == "-" || s == "" then [] else (s.splitOn sep).filter (fun x => !x.isEmpty)
def gwOf (s : String) : String := if s == "-" then "" else s
def sortMap {α : Type} (m : Map α) : Map α := m.mergeSort (fun a b => a.1 ≤ b.1)
def showK (K : Kernel) : String :=
  "K{" ++ ";".intercalate ((sortMap K).map (fun p =>
    s!"{p.1}={p.2.ifindex}/{if p.2.gw == "" then "-" else p.2.gw}/{p.2.proto}/{p.2.kind}")) ++ "}"

def stripPrio (k : String) : String := (k.splitOn "@").headD k
def showR (m : Map KRoute) : String :=
  "{" ++ ";".intercalate ((sortMap (m.map (fun p => (stripPrio p.1, p.2)))).map (fun p =>
    s!"{p.1}={p.2.ifindex}/{if p.2.gw == "" then "-" else p.2.gw}/{p.2.proto}/{p.2.kind}")) ++ "}"

def showAll (w : W) : String :=
  let des : Map KRoute := w.t.des
  showK w.K ++ " D" ++ showR des ++ " P" ++ showR w.t.dp ++ " R{" ++ ",".intercalate (sortS w.t.rescan) ++ "} f" ++
    (if w.t.fullResync then "1" else "0")

def mkPolicy (rm : Bool) : Policy :=
  { workloadPrefixes := ["cali"], removeNonCalico := rm, special := ["vxlan.calico", "bpfin.cali"],
    allProtos := [80], exclusiveProtos := [80] }

def parseOp (line : String) : Option Op :=
  match words line with
  | ["iface", n, i, st] =>
    i.toNat?.map (fun i => Op.iface n i (if st == "gone" then none else some (st == "up")))
  | ["link", n, i, st] =>
    i.toNat?.map (fun i => Op.link n i (if st == "gone" then none else some (st == "up")))
  | ["flush"] => some Op.flush
  | ["kroute", c, i, g, p, k] =>
    match i.toNat?, p.toNat? with
    | some i, some p => some (Op.kroute c ⟨i, gwOf g, p, k⟩)
    | _, _ => none
  | ["kdel", c] => some (Op.kdel c)
  | ["set", cls, ifc, ws] =>
    cls.toNat?.map (fun cls =>
      Op.set cls ifc ((splitList "," ws).filterMap (fun s => match s.splitOn "~" with
        | [c, g, k] => some (⟨cls, ifc, c, gwOf g, k, c⟩ : Want)
        | _ => none)))
  | ["upd", cls, ifc, c, g, k] => cls.toNat?.map (fun cls => Op.upd ⟨cls, ifc, c, gwOf g, k, c⟩)
  | ["rem", cls, ifc, c] => cls.toNat?.map (fun cls => Op.rem cls ifc c)
  | ["resync"] => some Op.resync
  | ["apply", fs] =>
    let has := fun (c : Char) => fs.toList.contains c
    some (Op.apply { linkList := has 'l', routeList := has 'r', replace := has 'p', del := has 'd', linkByName := has 'n' })
  | _ => none

def step (w : W) (line : String) : W × String :=
  match words line with
  | ["new", rm] => ({ t := { pol := mkPolicy (rm == "1"), defProto := 80 }, kif := [("lo", ⟨1, true⟩)] }, "ok")
  | ["new", rm, v] => ({ t := { pol := mkPolicy (rm == "1"), defProto := 80, v6 := v == "6" }, kif := [("lo", ⟨1, true⟩)] }, "ok")
  | _ =>
    match parseOp line with
    | none => (w, "bad-op")
    | some op =>
      match w.stepOp op with
      | (w, none) => (w, "ok")
      | (w, some e) => (w, (if e then "err " else "ok ") ++ showAll w)

def main : IO Unit := run step { t := { pol := mkPolicy true, defProto := 80 } }
