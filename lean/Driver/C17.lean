import CalicoVerif.Util.Proto
import CalicoVerif.Model.C17
/-! Driver for C17.
  `new <removeNonCalico01>` | `iface <name> <idx> <up|down|gone>` | `kroute <cidr> <ifindex> <gw|-> <proto> <kind>` | `kdel <cidr>`
  `set <cls> <iface> <cidr~gw~kind,...|->` | `upd <cls> <iface> <cidr> <gw|-> <kind>` | `rem <cls> <iface> <cidr>` | `resync`
  `apply <letters>`   letters ⊆ {l (LinkList fails), r (RouteList fails), p (RouteReplace fails once), d (RouteDel fails once)}, `-` = none
-/
open CalicoVerif CalicoVerif.C17 CalicoVerif.Proto

def splitList (sep : String) (s : String) : List String :=
  if s == "-" || s == "" then [] else (s.splitOn sep).filter (fun x => !x.isEmpty)
def gwOf (s : String) : String := if s == "-" then "" else s
def sortMap {α : Type} (m : Map α) : Map α := m.mergeSort (fun a b => a.1 ≤ b.1)
def showK (K : Kernel) : String :=
  "K{" ++ ";".intercalate ((sortMap K).map (fun p =>
    s!"{p.1}={p.2.ifindex}/{if p.2.gw == "" then "-" else p.2.gw}/{p.2.proto}/{p.2.kind}")) ++ "}"

def mkPolicy (rm : Bool) : Policy :=
  { workloadPrefixes := ["cali"], removeNonCalico := rm, special := ["vxlan.calico", "bpfin.cali"],
    allProtos := [80], exclusiveProtos := [80] }

def step (w : W) (line : String) : W × String :=
  match words line with
  | ["new", rm] => ({ t := { pol := mkPolicy (rm == "1"), defProto := 80 } }, "ok")
  | ["iface", n, i, st] =>
    match i.toNat? with
    | some i =>
      let v : Option Iface := if st == "gone" then none else some ⟨i, st == "up"⟩
      let kif := match v with | some x => w.kif.set n x | none => w.kif.erase n
      ({ w with kif := kif, t := { (w.t.setIface n v) with fullResync := true } }, "ok")
    | none => (w, "bad-op")
  | ["kroute", c, i, g, p, k] =>
    match i.toNat?, p.toNat? with
    | some i, some p => ({ w with K := w.K.set c ⟨i, gwOf g, p, k⟩ }, "ok")
    | _, _ => (w, "bad-op")
  | ["kdel", c] => ({ w with K := w.K.erase c }, "ok")
  | ["set", cls, ifc, ws] =>
    match cls.toNat? with
    | some cls =>
      let ws := (splitList "," ws).filterMap (fun s => match s.splitOn "~" with
        | [c, g, k] => some (⟨cls, ifc, c, gwOf g, k⟩ : Want)
        | _ => none)
      ({ w with t := w.t.setRoutes cls ifc ws }, "ok")
    | none => (w, "bad-op")
  | ["upd", cls, ifc, c, g, k] =>
    match cls.toNat? with
    | some cls => ({ w with t := w.t.routeUpdate ⟨cls, ifc, c, gwOf g, k⟩ }, "ok")
    | none => (w, "bad-op")
  | ["rem", cls, ifc, c] =>
    match cls.toNat? with
    | some cls => ({ w with t := w.t.routeRemove cls ifc c }, "ok")
    | none => (w, "bad-op")
  | ["resync"] => ({ w with t := { w.t with fullResync := true } }, "ok")
  | ["apply", fs] =>
    let has := fun (c : Char) => fs.toList.contains c
    let w := { w with f := { linkList := has 'l', routeList := has 'r', replace := has 'p', del := has 'd' } }
    let (w, e) := w.apply
    ({ w with f := {} }, (if e then "err " else "ok ") ++ showK w.K)
  | _ => (w, "bad-op")

def main : IO Unit := run step { t := { pol := mkPolicy true, defProto := 80 } }
