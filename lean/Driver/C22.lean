import CalicoVerif.Util.Proto
import CalicoVerif.Model.CasIO
import CalicoVerif.Model.C19
/-! Driver for C22: same replay of the real client's backend-call log through
`Cas.step` as C19 (claims, confirms, releases are writes of affinity and block
cells); the ownership check of allocating writes (`own=`) is part of `step`. -/
open CalicoVerif CalicoVerif.Cas CalicoVerif.Proto

def main : IO Unit := run (driverStep C19.chk) (St.init 0 0)
