import CalicoVerif.Util.Proto
import CalicoVerif.Model.C22
/-! Driver for C22: the replay of the real client's backend-call log through `Cas.step`
(as C19) plus the claim-path call-sequence model `C22.licStep`: a confirm of a
BlockAffinity without the block create / read-after-lost-create / block rewrite that
must precede it in the same thread is reported (`NOLICENCE`). -/
open CalicoVerif CalicoVerif.Proto

def main : IO Unit := run C22.stepLine { cas := Cas.St.init 0 0, l := C22.Lic.init }
