import CalicoVerif.Util.Proto
import CalicoVerif.Model.C35
/-! Driver for C35: ops
  `new <mask>` | `single` | `block <size (Go int, may be negative)>` | `n2m <int>` | `m2n <mark>` | `free` | `avail`
-/
open CalicoVerif CalicoVerif.C35 CalicoVerif.Proto

def step (m : Mgr) (line : String) : Mgr × String :=
  match words line with
  | ["new", a] => match a.toNat? with
    | some k => (Mgr.new k, "ok")
    | none => (m, "bad-op")
  | ["single"] => let (m', r) := m.nextSingle; (m', showOptNat r)
  | ["block", a] => match a.toInt? with
    | some k => let (m', mark, n) := m.nextBlockInt k; (m', s!"{mark} {n}")
    | none => (m, "bad-op")
  | ["n2m", a] => match a.toInt? with
    | some k => (m, showOptNat (mapNumberToMark m.mask k))
    | none => (m, "bad-op")
  | ["m2n", a] => match a.toNat? with
    | some k => (m, showOptNat (mapMarkToNumber m.mask k))
    | none => (m, "bad-op")
  | ["free"] => (m, toString m.currentFreeNumber)
  | ["avail"] => (m, toString m.numFreeBits)
  | _ => (m, "bad-op")

def main : IO Unit := run step (Mgr.new 0)
