import CalicoVerif.Util.Proto
import CalicoVerif.Model.C43
/-! Driver for C43.  One case = one L3RouteResolver + one route manager (vxlan | ipip | no-encap).
Ops
  `new <me> <pt> <eth0Addr>`
  `node <n> <addr> <len> <ipip> <vxlan> <wg> <addr6> <len6> <vxlan6> <wg6>` | `nodedel <n>`
  (addresses are decimal numbers; an IPv6 CIDR address token is written `v<number>`; a node with
  neither address is no node at all)
  `pool <addr> <len> <ipipMode> <vxlanMode> <nat> <lbOnly>` | `pooldel <addr> <len>`
  `block <addr> <len> <aff|-> <ord:host,ord:-,…|->` | `blockdel <addr> <len>`
  `wep <host> <id> <ip,ip,…|->`
  `vtep <n> <addr> <parentIp>` | `vtepdel <n>` | `hostmeta <n> <addr>` | `hostmetadel <n>` | `parent` | `apply`
  `sent`
Resolver ops answer the (sorted) route events of the flush; the events are also fed to the manager.
-/
open CalicoVerif CalicoVerif.C43 CalicoVerif.Proto

structure DS where
  s : St
  m : RM
  sent : List (Cidr × RouteUpdate)

def b01 (b : Bool) : String := if b then "1" else "0"

def showCidr (c : Cidr) : String := (if c.v6 then "v" else "") ++ s!"{c.addr}/{c.len}"

def showEvent : Event → String
  | .remove d => s!"R:{showCidr d}"
  | .update r =>
    let n := match r.dstNode with | some n => toString n | none => "-"
    let t := match r.tunnel with
      | some (i, v, w) => b01 i ++ b01 v ++ b01 w
      | none => "-"
    s!"U:{showCidr r.dst}:{r.types}:{r.poolType}:{n}:{r.dstNodeIp}:{b01 r.sameSubnet}{b01 r.natOutgoing}{b01 r.localWorkload}{b01 r.borrowed}:{t}"

def showEvents (evs : List Event) : String :=
  if evs.isEmpty then "-" else joinWith ";" (evs.map showEvent)

def showTT : TargetType → String
  | .noEncap => "ne" | .vxlan => "vx" | .onLink => "ol" | .direct => "di" | .blackhole => "bh"

def insertBy {α} (le : α → α → Bool) (x : α) : List α → List α
  | [] => [x]
  | y :: ys => if le x y then x :: y :: ys else y :: insertBy le x ys

def sortBy {α} (le : α → α → Bool) (l : List α) : List α := l.foldr (insertBy le) []

def showTarget (t : Target) : String := s!"{showCidr t.cidr}|{showTT t.typ}|{t.gw}"

def showTable (m : RM) : String :=
  let rows := sortBy (fun (a b : (Nat × Nat) × List Target) =>
    a.1.1 < b.1.1 || (a.1.1 == b.1.1 && a.1.2 ≤ b.1.2)) m.table
  if rows.isEmpty then "-" else
  joinWith ";" (rows.map (fun r =>
    let ts := sortBy (fun (a b : Target) => cidrLe a.cidr b.cidr) r.2
    s!"{r.1.1}/{r.1.2}=[" ++ joinWith "," (ts.map showTarget) ++ "]"))

def showSent (sent : List (Cidr × RouteUpdate)) : String :=
  let rows := sortBy (fun (a b : Cidr × RouteUpdate) => cidrLe a.1 b.1) sent
  if rows.isEmpty then "-" else joinWith ";" (rows.map (fun r => showEvent (.update r.2)))

def nats (ws : List String) : Option (List Nat) := ws.mapM String.toNat?

def parseList (w : String) : Option (List Nat) :=
  if w == "-" then some [] else nats (w.splitOn ",")

def parseOptNat (w : String) : Option (Option Nat) :=
  if w == "-" then some none else w.toNat?.map some

def parseAllocs (w : String) : Option (List (Nat × Option Nat)) :=
  if w == "-" then some [] else
  (w.splitOn ",").mapM (fun p =>
    match p.splitOn ":" with
    | [o, h] => do
      let o ← o.toNat?
      let h ← parseOptNat h
      pure (o, h)
    | _ => none)

def maskCidr (v6 : Bool) (a l : Nat) : Cidr :=
  let w := if v6 then 128 else 32
  ⟨(a / 2 ^ (w - l)) * 2 ^ (w - l), l, v6⟩

/-- a CIDR from its address token (`v…` = IPv6) and length. -/
def parseCidr (a l : String) : Option Cidr :=
  match l.toNat? with
  | none => none
  | some l =>
    if a.startsWith "v" then
      match (a.drop 1).toString.toNat? with
      | some x => if l ≤ 128 then some ⟨x, l, true⟩ else none
      | none => none
    else
      match a.toNat? with
      | some x => if l ≤ 32 then some ⟨x, l, false⟩ else none
      | none => none

def resolverOp (d : DS) (op : Op) : DS × String :=
  let (s', evs) := d.s.step op
  -- the managers of the harness are IPv4 managers: they skip IPv6 route messages (route_mgr.go OnUpdate)
  let m' := (evs.filter (fun e => !e.dst.v6)).foldl RM.onEvent d.m
  ({ s := s', m := m', sent := applyEvents d.sent evs }, showEvents evs)

def stepDS (d : DS) (line : String) : DS × String :=
  match words line with
  | ["new", me, pt, eth] =>
    match nats [me, pt, eth] with
    | some [me, pt, eth] =>
      if pt == 1 || pt == 2 || pt == 3 then
        ({ s := { me := me }, m := { pt := pt, me := me, eth0Addr := eth }, sent := [] }, "ok")
      else (d, "bad-op")
    | _ => (d, "bad-op")
  | ["node", n, a, l, ipip, vx, wg, a6, l6, vx6, wg6] =>
    match nats [n, a, l, ipip, vx, wg, a6, l6, vx6, wg6] with
    | some [n, a, l, ipip, vx, wg, a6, l6, vx6, wg6] =>
      if l > 32 || l6 > 128 then (d, "bad-op") else
      if a == 0 && a6 == 0 then resolverOp d (.node n none) else
      let cidr : Cidr := if a == 0 then Cidr.zero false else maskCidr false a l
      let cidr6 : Cidr := if a6 == 0 then Cidr.zero true else maskCidr true a6 l6
      resolverOp d (.node n (some { v4Addr := a, cidr := cidr, ipip := ipip, vxlan := vx, wg := wg,
                                    v6Addr := a6, cidr6 := cidr6, vxlan6 := vx6, wg6 := wg6 }))
    | _ => (d, "bad-op")
  | ["nodedel", n] =>
    match n.toNat? with
    | some n => resolverOp d (.node n none)
    | none => (d, "bad-op")
  | ["pool", a, l, im, vm, nat, lb] =>
    match parseCidr a l, nats [im, vm, nat, lb] with
    | some c, some [im, vm, nat, lb] =>
      if im > 2 || vm > 2 || nat > 1 || lb > 1 then (d, "bad-op") else
      resolverOp d (.pool c (some (poolOf im vm (nat == 1) (lb == 1))))
    | _, _ => (d, "bad-op")
  | ["pooldel", a, l] =>
    match parseCidr a l with
    | some c => resolverOp d (.pool c none)
    | _ => (d, "bad-op")
  | ["block", a, l, aff, allocs] =>
    match parseCidr a l, parseOptNat aff, parseAllocs allocs with
    | some c, some aff, some allocs => resolverOp d (.block c aff allocs)
    | _, _, _ => (d, "bad-op")
  | ["blockdel", a, l] =>
    match parseCidr a l with
    | some c => resolverOp d (.blockDel c)
    | _ => (d, "bad-op")
  | ["wep", h, i, ips] =>
    match nats [h, i], parseList ips with
    | some [h, i], some ips => resolverOp d (.wep h i ips)
    | _, _ => (d, "bad-op")
  | ["vtep", n, a, p] =>
    match nats [n, a, p] with
    | some [n, a, p] => ({ d with m := d.m.onVtep n (some (a, p)) }, "ok")
    | _ => (d, "bad-op")
  | ["vtepdel", n] =>
    match n.toNat? with
    | some n => ({ d with m := d.m.onVtep n none }, "ok")
    | none => (d, "bad-op")
  | ["hostmeta", n, a] =>
    match nats [n, a] with
    | some [n, a] => ({ d with m := d.m.onHostMeta n (some a) }, "ok")
    | _ => (d, "bad-op")
  | ["hostmetadel", n] =>
    match n.toNat? with
    | some n => ({ d with m := d.m.onHostMeta n none }, "ok")
    | none => (d, "bad-op")
  | ["parent"] => ({ d with m := d.m.onParent }, "ok")
  | ["apply"] =>
    let m := d.m.complete
    ({ d with m := m }, showTable m)
  | ["sent"] => (d, showSent d.sent)
  | _ => (d, "bad-op")

def emptyDS : DS := { s := { me := 0 }, m := { pt := 1, me := 0, eth0Addr := 0 }, sent := [] }

/-- before the first `new` of a case every op answers `bad-state` (as the harness does). -/
def step (d : Option DS) (line : String) : Option DS × String :=
  if line.startsWith "new " then
    let (d', o) := stepDS (d.getD emptyDS) line
    if o == "ok" then (some d', o) else (d, o)
  else match d with
    | none => (none, "bad-state")
    | some d => let (d', o) := stepDS d line; (some d', o)

def main : IO Unit := run step none
