import CalicoVerif.Util.Proto
import CalicoVerif.Model.C04
/-! Driver for C04.  Ops (one per line, see harness/cmd/c04):
  `new <0|1>`                                   fresh index, overlap suppression off/on
  `ipset <sid> <selId> <table27> <proto> <port|->`   UpdateIPSet
  `delipset <sid>`                              DeleteIPSet (+ consumer's OnIPSetRemoved)
  `rule <name> <src> <notSrc> <dst> <notDst>` / `delrule <name>`   a policy rule fed to the REAL RuleScanner
        (no effect here); the RuleScanner's OnIPSetActive / OnIPSetInactive calls follow as
  `dipset …` (= `ipset`) / `ddelipset <sid>` (= `delipset`) lines
  `ep <w|h|n> <id> <labels|-> <nets|-> <ports|-> <parents|->`   OnUpdate(WEP/HEP/NetworkSet)
  `delep <id>` | `parent <pid> <labels|->` | `delparent <pid>`
Selectors arrive as (id, truth table over the 27 assignments of labels a,b,c to
{absent,x,y}) computed by the REAL parser/evaluator in the harness.
Output: the consumer's accumulated IP sets (strict replay of all callbacks), the
refcount maps, the per-endpoint match caches, the suppressor's stored CIDRs, and (without
suppression, where it is deterministic) the sorted callbacks of this op.
-/
open CalicoVerif CalicoVerif.C04 CalicoVerif.Proto

structure DSel where
  id : String
  table : String
deriving DecidableEq

def labState (l : Labels) (k : String) : Nat :=
  match alGet k l with
  | some "x" => 1
  | some "y" => 2
  | _ => 0

def dMatch (s : DSel) (l : Labels) : Bool :=
  let i := labState l "a" + 3 * labState l "b" + 9 * labState l "c"
  s.table.toList[i]? == some '1'

def splitList (s : String) : List String :=
  if s == "-" then [] else s.splitOn ","

def parseLabels (s : String) : Option Labels :=
  (splitList s).mapM (fun kv => match kv.splitOn "=" with
    | [k, v] => some (k, v)
    | _ => none)

def parseCidr (s : String) : Option Cidr :=
  match s.splitOn "/" with
  | [f, a, l] => do
    let a ← a.toNat?
    let l ← l.toNat?
    if f == "4" then some { v6 := false, addr := a, len := l }
    else if f == "6" then some { v6 := true, addr := a, len := l }
    else none
  | _ => none

def parsePort (s : String) : Option Port :=
  match s.splitOn "/" with
  | [n, p, po] => do
    let po ← po.toNat?
    let pr ← (if p.startsWith "n" then (p.drop 1).toString.toNat?.map PortProto.num
              else if p.startsWith "s" then some (PortProto.str (p.drop 1).toString)
              else none)
    some { name := n, proto := pr, port := po }
  | _ => none

def showCidr (c : Cidr) : String := s!"{if c.v6 then "6" else "4"}/{c.addr}/{c.len}"

def showMember : Member → String
  | .cidr c => "c" ++ showCidr c
  | .ipp v6 a po pr => s!"p{if v6 then "6" else "4"}/{a}/{pr}/{po}"

def sortStrs (l : List String) : List String := l.mergeSort (fun a b => !(decide (b < a)))

def showList (l : List String) : String :=
  if l.isEmpty then "-" else joinWith "," (sortStrs l)

def showEvent : Event → String
  | .added s m => s!"+{s}:{showMember m}"
  | .removed s m => s!"-{s}:{showMember m}"
  | .cleared s => s!"x{s}"

/-- Net callbacks of an op: a member added and removed again (or vice versa) inside the op cancels.
Used for ops that rescan SEVERAL endpoints (`parent`, `delparent`): there the real code visits the
endpoints in Go map order, and whether a member shared by two endpoints is transiently removed and
re-added depends on that order; only the net effect is determined. -/
def netEvents (es : List Event) : List Event :=
  let keyOf : Event → Option (String × Member)
    | .added s m => some (s, m)
    | .removed s m => some (s, m)
    | .cleared _ => none
  es.filter (fun e => match keyOf e with
    | none => true
    | some k =>
      let adds := (es.filter (fun x => match x with | .added s m => (s, m) == k | _ => false)).length
      let rems := (es.filter (fun x => match x with | .removed s m => (s, m) == k | _ => false)).length
      match e with
      | .added .. => adds > rems
      | .removed .. => rems > adds
      | .cleared _ => true) |>.eraseDups

def render (net : Bool) (before : Nat) (st : Idx DSel) : String :=
  let d := match replay st.out with
    | some d => showList (d.map (fun (p : String × Member) => s!"{p.1}:{showMember p.2}"))
    | none => "ALTERNATION-ERROR"
  let r := showList (st.ipsets.flatMap (fun p => p.2.refc.map (fun q => s!"{p.1}:{showMember q.1}={q.2}")))
  let c := showList (st.eps.flatMap (fun p => p.2.cached.map (fun s => s!"{p.1}:{s}")))
  let t := showList (st.tries.flatMap (fun p => p.2.map (fun c => s!"{p.1}:{showCidr c}")))
  let evs := st.out.drop before
  let e := if st.suppress then "-" else showList ((if net then netEvents evs else evs).map showEvent)
  if st.panicked then "PANIC" else s!"D={d} R={r} C={c} T={t} E={e}" ++ (if st.underflow then " UNDERFLOW" else "")

def applyOp (st : Idx DSel) (op : Op DSel) : Idx DSel × String :=
  if st.panicked then (st, "dead") else
  let st' := C04.step dMatch st op
  let net := match op with
    | .updateParentLabels .. => true
    | .deleteParentLabels .. => true
    | _ => false
  (st', render net st.out.length st')

def step (st : Idx DSel) (line : String) : Idx DSel × String :=
  match words line with
  | ["new", a] =>
    if a == "0" then (Idx.new DSel false, "ok") else if a == "1" then (Idx.new DSel true, "ok") else (st, "bad-op")
  | "rule" :: _ => (st, "ok")      -- RuleScanner input: its effect arrives as `dipset` / `ddelipset` lines
  | "delrule" :: _ => (st, "ok")
  | ["ddelipset", sid] => applyOp st (.deleteIPSet sid)
  | ["dipset", sid, selId, table, proto, port, _rawExpr] =>
    match proto.toNat? with
    | some p =>
      if table.length == 27 then
        applyOp st (.updateIPSet sid { id := selId, table := table } p (if port == "-" then "" else port))
      else (st, "bad-op")
    | none => (st, "bad-op")
  | ["ipset", sid, selId, table, proto, port, _rawExpr] =>
    match proto.toNat? with
    | some p =>
      if table.length == 27 then
        applyOp st (.updateIPSet sid { id := selId, table := table } p (if port == "-" then "" else port))
      else (st, "bad-op")
    | none => (st, "bad-op")
  | ["delipset", sid] => applyOp st (.deleteIPSet sid)
  | ["ep", kind, id, labels, nets, ports, parents] =>
    match parseLabels labels, (splitList nets).mapM parseCidr, (splitList ports).mapM parsePort with
    | some ls, some ns, some ps =>
      if kind == "w" || kind == "h" then
        applyOp st (.updateEndpoint id ls (extractIPs ns) ps (splitList parents))
      else if kind == "n" then
        -- extractCIDRsFromNetworkSet passes `nil` for the ports
        applyOp st (.updateEndpoint id ls (extractNetSet ns) [] (splitList parents))
      else (st, "bad-op")
    | _, _, _ => (st, "bad-op")
  | ["delep", id] => applyOp st (.deleteEndpoint id)
  | ["parent", pid, labels] =>
    match parseLabels labels with
    | some ls => applyOp st (.updateParentLabels pid ls)
    | none => (st, "bad-op")
  | ["delparent", pid] => applyOp st (.deleteParentLabels pid)
  | _ => (st, "bad-op")

def main : IO Unit := run step (Idx.new DSel false)
