import CalicoVerif.Util.Proto
import CalicoVerif.Model.C01
import CalicoVerif.Proofs.C01Acc
/-! Driver for C01 (see harness/cmd/c01).  Ops:
  `new <vxlan> <ipip> <bpf> <routeSource> <suppress> <idtable>`   fresh graph; idtable = `selhex/proto/porthex=id,…`
  `kv <name> <variant> <kind …>`   one validated datastore update, kinds:
      `wep|hep <nid> <id> <local> (del | <tag> <labels> <profiles> <nets> <ports>)`
      `ns <id> (del | <labels> <profiles> <nets>)`      `pl <pid> (del | <labels>)`
      `pr <pid> (del | <tag> <in> <out>)`              `tier <name> (del | <order|none> <action|->)`
      `pol <nid> <name> <ns|-> <kind> (del | <tag> <tier|-> <order|none> <selhex> <flags> <types> <in> <out>)`
      `other`
  `insync` | `flush` | `check`
Output of flush / check: the modelled projection of the accumulated dataplane state.
-/
open CalicoVerif CalicoVerif.C01 CalicoVerif.Proto

def hexVal (c : Char) : Option Nat :=
  if '0' ≤ c ∧ c ≤ '9' then some (c.toNat - 48)
  else if 'a' ≤ c ∧ c ≤ 'f' then some (c.toNat - 87)
  else none

def unhexList : List Char → Option (List Char)
  | [] => some []
  | a :: b :: rest => do
    let x ← hexVal a
    let y ← hexVal b
    let r ← unhexList rest
    pure (Char.ofNat (16 * x + y) :: r)
  | _ => none

def unhex (s : String) : Option (List Char) :=
  if s = "-" then some [] else unhexList s.toList

def splitList (s : String) : List String := if s == "-" then [] else s.splitOn ","

def parseLabels (s : String) : Option C04.Labels :=
  (splitList s).mapM (fun kv => match kv.splitOn "=" with
    | [k, v] => some (k, v)
    | _ => none)

def parseCidr (s : String) : Option C04.Cidr :=
  match s.splitOn "/" with
  | [f, a, l] => do
    let a ← a.toNat?
    let l ← l.toNat?
    if f == "4" then some { v6 := false, addr := a, len := l }
    else if f == "6" then some { v6 := true, addr := a, len := l }
    else none
  | _ => none

def parseProto (p : String) : Option (Option C04.PortProto) :=
  if p == "-" then some none
  else if p.startsWith "n" then (p.drop 1).toString.toNat?.map (fun n => some (C04.PortProto.num n))
  else if p.startsWith "s" then some (some (C04.PortProto.str (p.drop 1).toString))
  else none

def parsePort (s : String) : Option C04.Port :=
  match s.splitOn "/" with
  | [n, p, po] => do
    let po ← po.toNat?
    let pr ← parseProto p
    let pr ← pr
    some { name := n, proto := pr, port := po }
  | _ => none

def parseRule (s : String) : Option RuleIn :=
  match s.splitOn "~" with
  | [_act, pr, ss, ns, ds, nd, sn, snn, dn, dnn, nsn, nsnn, ndn, ndnn] => do
    let pr ← parseProto pr
    let ss ← unhex ss
    let ns ← unhex ns
    let ds ← unhex ds
    let nd ← unhex nd
    some { proto := pr, srcSel := ss, notSrcSel := ns, dstSel := ds, notDstSel := nd,
           srcNamed := splitList sn, srcNumeric := snn == "1", dstNamed := splitList dn, dstNumeric := dnn == "1",
           notSrcNamed := splitList nsn, notSrcNumeric := nsnn == "1",
           notDstNamed := splitList ndn, notDstNumeric := ndnn == "1" }
  | _ => none

def parseRules (s : String) : Option (List RuleIn) :=
  if s == "-" then some [] else (s.splitOn "+").mapM parseRule

def parseOrder (s : String) : Option (Option Int) :=
  if s == "none" then some none else s.toInt?.map some

def dash (s : String) : String := if s == "-" then "" else s

structure DState where
  g : Graph := Graph.new true
  table : List (IpSetDef × String) := []
  /-- everything emitted so far, accumulated (`Acc.toDP_applyAll`: this IS `DP.applyAll` of the theorems) -/
  acc : Acc := {}
  inSync : Bool := false
  ds : DS := {}
  suppress : Bool := true

def DState.H (d : DState) : IdFn := fun k =>
  match d.table.find? (fun p => p.1 = k) with
  | some p => p.2
  | none => "?no-id"

def parseTableEntry (s : String) : Option (IpSetDef × String) :=
  match s.splitOn "=" with
  | [k, id] => match k.splitOn "/" with
    | [sel, pr, po] => do
      let sel ← unhex sel
      let pr ← pr.toNat?
      let po ← unhex po
      some (⟨sel, pr, String.ofList po⟩, id)
    | _ => none
  | _ => none

def sortStrs (l : List String) : List String := l.mergeSort (fun a b => !(decide (b < a)))
def joinOr (l : List String) (sep : String) : String := if l.isEmpty then "-" else joinWith sep l

def polIdStr (k : C02.PolicyKey) : String := k.name ++ "/" ++ (if k.ns == "" then "-" else k.ns) ++ "/" ++ k.kind

def tiersStr (ts : List C02.ProtoTier) : String :=
  joinOr (ts.map (fun t => t.name ++ ":" ++ (if t.defaultAction == "" then "-" else t.defaultAction) ++ ":" ++
    joinOr (t.ingress.map polIdStr) "," ++ ":" ++ joinOr (t.egress.map polIdStr) ",")) ";"

def catStr : C02.GenCat → String
  | .sa => "sa" | .ns => "ns" | .host => "host" | .pool => "pool" | .svc => "svc"

def parseCat : String → Option C02.GenCat
  | "sa" => some .sa | "ns" => some .ns | "host" => some .host | "pool" => some .pool | "svc" => some .svc
  | _ => none

def genLines (l : List ((C02.GenCat × String) × String)) : List String :=
  l.map (fun p => s!"gen {catStr p.1.1} {p.1.2} {p.2}")

def render (d : DState) : String :=
  let pols := d.acc.pols.map (fun p => s!"pol {polIdStr p.1} {p.2.tag} [{joinWith "," p.2.refs}]")
  let profs := d.acc.profs.map (fun p => s!"prof {p.1} {p.2.tag} [{joinWith "," p.2.refs}]")
  let eps := d.acc.eps.map (fun p =>
    let e := p.2
    match p.1 with
    | .wep id => s!"wep {id} {e.data.tag} [{joinWith "," e.data.profiles}] {tiersStr e.tiers.normal}"
    | .hep id => s!"hep {id} {e.data.tag} [{joinWith "," e.data.profiles}] {tiersStr e.tiers.normal} | {tiersStr e.tiers.untracked} | {tiersStr e.tiers.preDNAT} | {tiersStr e.tiers.forward}")
  let sets := d.acc.ipsets.map (fun p => s!"ipset {p.1} {p.2.1} [{joinWith "," (sortStrs p.2.2.eraseDups)}]")
  joinOr (sortStrs (pols ++ profs ++ eps ++ sets ++ genLines d.acc.gens)) " ;; "

/-- the same rendering for the SPEC: what a fresh Felix would have emitted for the datastore state -/
def renderFresh (d : DState) : String :=
  let f := fresh d.H d.suppress d.ds
  let pols := f.pols.map (fun p => s!"pol {polIdStr p.1} {p.2.tag} [{joinWith "," p.2.refs}]")
  let profs := f.profs.map (fun p => s!"prof {p.1} {p.2.tag} [{joinWith "," p.2.refs}]")
  let eps := f.eps.map (fun p =>
    let e := C02.epDown p.1 p.2
    match p.1 with
    | .wep id => s!"wep {id} {e.data.tag} [{joinWith "," e.data.profiles}] {tiersStr e.tiers.normal}"
    | .hep id => s!"hep {id} {e.data.tag} [{joinWith "," e.data.profiles}] {tiersStr e.tiers.normal} | {tiersStr e.tiers.untracked} | {tiersStr e.tiers.preDNAT} | {tiersStr e.tiers.forward}")
  let sets := f.ipsets.map (fun p => s!"ipset {p.1} {p.2.1} [{joinWith "," (sortStrs p.2.2)}]")
  joinOr (sortStrs (pols ++ profs ++ eps ++ sets ++ genLines f.gen)) " ;; "

def doFlush (d : DState) : DState :=
  let (g, ms) := d.g.flush
  { d with g := g, acc := d.acc.applyAll ms }

def parseEpVal (tag labels profiles nets ports : String) : Option EpVal := do
  let ls ← parseLabels labels
  let ns ← (splitList nets).mapM parseCidr
  let ps ← (splitList ports).mapM parsePort
  some { tag := tag, labels := ls, profiles := splitList profiles, nets := ns, ports := ps }

def parseKV : List String → Option Upd
  | [kind, nid, id, loc, "del"] =>
    if kind == "wep" || kind == "hep" then do
      let nid ← nid.toNat?
      some (.endpoint nid (if kind == "wep" then .wep id else .hep id) (loc == "1") none)
    else none
  | [kind, nid, id, loc, tag, labels, profiles, nets, ports] =>
    if kind == "wep" || kind == "hep" then do
      let nid ← nid.toNat?
      let v ← parseEpVal tag labels profiles nets ports
      some (.endpoint nid (if kind == "wep" then .wep id else .hep id) (loc == "1") (some v))
    else none
  | ["ns", id, "del"] => some (.netset id none)
  | ["ns", id, labels, profiles, nets] => do
    let ls ← parseLabels labels
    let ns ← (splitList nets).mapM parseCidr
    some (.netset id (some { labels := ls, profiles := splitList profiles, nets := ns }))
  | ["pl", pid, "del"] => some (.profLabels pid none)
  | ["pl", pid, labels] => do
    let ls ← parseLabels labels
    some (.profLabels pid (some ls))
  | ["pr", pid, "del"] => some (.profRules pid none)
  | ["pr", pid, tag, i, o] => do
    let i ← parseRules i
    let o ← parseRules o
    some (.profRules pid (some ⟨tag, i, o⟩))
  | ["tier", name, "del"] => some (.tier name none)
  | ["tier", name, order, act] => do
    let o ← parseOrder order
    some (.tier name (some (o, dash act)))
  | ["pol", nid, name, ns, kind, "del"] => do
    let nid ← nid.toNat?
    some (.policy nid ⟨name, dash ns, kind⟩ none)
  | ["pol", nid, name, ns, kind, tag, tier, order, sel, flags, types, i, o] => do
    let nid ← nid.toNat?
    let o' ← parseOrder order
    let sel ← unhex sel
    let i ← parseRules i
    let o ← parseRules o
    let fl := flags.toList
    some (.policy nid ⟨name, dash ns, kind⟩ (some
      { pmeta := { tier := dash tier, order := o', doNotTrack := fl[0]? == some '1', preDNAT := fl[1]? == some '1',
                   applyOnForward := fl[2]? == some '1', types := splitList types },
        sel := sel, rules := ⟨tag, i, o⟩ }))
  | ["pt", cat, key, "del"] => do
    let c ← parseCat cat
    some (.passthru c key none)
  | ["pt", cat, key, tag] => do
    let c ← parseCat cat
    some (.passthru c key (some tag))
  | ["other"] => some .other
  | _ => none

def step (d : DState) (line : String) : DState × String :=
  match words line with
  | ["new", _, _, _, _, sup, tbl] =>
    match (splitList tbl).mapM parseTableEntry with
    | some t => ({ g := Graph.new (sup == "1"), table := t, suppress := sup == "1" }, "ok")
    | none => (d, "bad-op")
  | "kv" :: _ :: _ :: rest =>
    match parseKV rest with
    | some u => ({ d with g := d.g.step d.H u, ds := d.ds.apply u }, if d.g.panicked then "panicked" else "ok")
    | none => (d, "bad-op")
  | ["insync"] => ({ d with g := d.g.inSync, inSync := true }, "ok")
  | ["flush"] =>
    let d := doFlush d
    (d, (if d.g.panicked then "panicked " else "ok ") ++ render d)
  | ["check"] =>
    if !d.inSync then (d, "skip")
    else
      let d := doFlush d
      let acc := render d
      let spec := renderFresh d
      if d.g.panicked then (d, "panicked " ++ acc)
      else if acc == spec then (d, "same " ++ acc)
      else (d, "SPEC-DIFFERS accumulated: " ++ acc ++ " |||| fresh-spec: " ++ spec)
  | _ => (d, "bad-op")

def main : IO Unit := run step {}
