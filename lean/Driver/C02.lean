import CalicoVerif.Util.Proto
import CalicoVerif.Model.C02
import CalicoVerif.Model.C03
/-! Driver for C02 (EventSequencer + AsyncCalcGraph flush logic).

Tokens: `~` = empty string; lists are comma separated, `-` = empty list.
PolicyKey token: `kind|ns|name`.  Tier list token (input): tiers joined by `+`,
tier = `name=action=pol;pol…`, pol = `kind|ns|name:flags`, flags ⊆ "udfie"
(u=doNotTrack d=preDNAT f=applyOnForward i=ingress e=egress).

Ops: `new` | `ipset-add id typ` | `ipset-rm id` | `mem-add id m` | `mem-rm id m` | `notready`
 | `pol-act key tag refs` | `pol-inact key` | `prof-act name tag refs` | `prof-inact name`
 | `ep-upd w:id|h:id tag profiles tiers` | `ep-del w:id|h:id`
 | `gen-upd cat k tag` | `gen-rm cat k` | `route-upd dst tag ref` | `route-rm dst`
 | `vtep-upd node tag` | `vtep-rm node` | `wg-upd node pub4 addr4 pub6 addr6` | `wg-rm node`
 | `encap tag` | `bgp tag` | `flush`
 | `acg-new` | `acg-status wait|resync|insync` | `acg-upd` | `acg-upd wg node key` | `acg-del wg node`
 | `acg-tick` | `acg-end`
 graph mode (real ARC+RuleScanner+PolicyResolver in front of the sequencer; resolver = Model.C03):
 `g-new` | `g-tier n order act` | `g-tier-del n` | `g-pol key tier order flags types x=sel` | `g-pol-del key`
 | `g-ep w:id tag profs x=labels` | `g-ep-del k` | `g-match key ep` | `g-unmatch key ep` | `g-status wait|resync|insync`
 | `g-flush` (resolver flush, its calls applied to the sequencer, sequencer flush) | `noop …`
Output: `ok` / `panic` for calls; for `flush` the canonical message list.  The `acg-*` ops
print the messages emitted while the PREVIOUS acg op was processed (see harness).
-/
open CalicoVerif CalicoVerif.C02 CalicoVerif.C03 CalicoVerif.Proto

def tok (s : String) : String := if s == "~" then "" else s
def untok (s : String) : String := if s == "" then "~" else s
def csv (s : String) : List String := if s == "-" then [] else (s.splitOn ",").map tok
def uncsv (l : List String) : String := if l.isEmpty then "-" else ",".intercalate (l.map untok)
def sortS (l : List String) : List String := l.mergeSort (fun a b => decide (a ≤ b))

def parseKey (s : String) : Option PolicyKey :=
  match s.splitOn "|" with
  | [k, ns, n] => some ⟨tok n, tok ns, tok k⟩
  | _ => none
def showKey (k : PolicyKey) : String := s!"{untok k.kind}|{untok k.ns}|{untok k.name}"

def parsePol (s : String) : Option PolKV :=
  match s.splitOn ":" with
  | [k, fl] => (parseKey k).map fun key =>
      ⟨key, { order := none, doNotTrack := fl.contains 'u', preDNAT := fl.contains 'd',
              applyOnForward := fl.contains 'f', ingress := fl.contains 'i', egress := fl.contains 'e', tier := "" }⟩
  | _ => none

def parseTier (s : String) : Option TierInfo :=
  match s.splitOn "=" with
  | [n, act, pols] =>
    let ps := if pols == "-" then [] else pols.splitOn ";"
    (ps.mapM parsePol).map fun l => ⟨tok n, none, tok act, true, l⟩
  | _ => none

def parseTiers (s : String) : Option (List TierInfo) :=
  if s == "-" then some [] else (s.splitOn "+").mapM parseTier

def parseEpKey (s : String) : Option EpKey :=
  if s.startsWith "w:" then some (.wep (s.drop 2).toString)
  else if s.startsWith "h:" then some (.hep (s.drop 2).toString) else none

def parseCat : String → Option GenCat
  | "sa" => some .sa | "ns" => some .ns | "host" => some .host | "pool" => some .pool | "svc" => some .svc
  | _ => none
def showCat : GenCat → String
  | .sa => "sa" | .ns => "ns" | .host => "host" | .pool => "pool" | .svc => "svc"

def showKeys (l : List PolicyKey) : String := if l.isEmpty then "-" else ",".intercalate (l.map showKey)
def showPT (t : ProtoTier) : String := s!"{untok t.name}={untok t.defaultAction}=in:{showKeys t.ingress}=out:{showKeys t.egress}"
def showPTs (l : List ProtoTier) : String := if l.isEmpty then "-" else "+".intercalate (l.map showPT)

/-- (class, key, rest) of a message. -/
def render : Msg → String × String × String
  | .notReady => ("notready", "-", "")
  | .ipsetUpdate id t ms => ("ipset-upd", id, s!"{t} {uncsv (sortS ms)}")
  | .ipsetDelta id a r => ("ipset-delta", id, s!"+{uncsv (sortS a)} -{uncsv (sortS r)}")
  | .ipsetRemove id => ("ipset-rm", id, "")
  | .policyUpdate k r => ("pol-upd", showKey k, s!"{untok r.tag} {uncsv (sortS r.refs)}")
  | .policyRemove k => ("pol-rm", showKey k, "")
  | .profileUpdate k r => ("prof-upd", k, s!"{untok r.tag} {uncsv (sortS r.refs)}")
  | .profileRemove k => ("prof-rm", k, "")
  | .wepUpdate id d t => ("ep-upd", "w:" ++ id, s!"{untok d.tag} {uncsv d.profiles} {showPTs t}")
  | .hepUpdate id d t u p f => ("ep-upd", "h:" ++ id, s!"{untok d.tag} {uncsv d.profiles} N:{showPTs t} U:{showPTs u} P:{showPTs p} F:{showPTs f}")
  | .wepRemove id => ("ep-rm", "w:" ++ id, "")
  | .hepRemove id => ("ep-rm", "h:" ++ id, "")
  | .genUpdate c k t => (showCat c ++ "-upd", k, untok t)
  | .genRemove c k => (showCat c ++ "-rm", k, "")
  | .routeUpdate d r => ("route-upd", d, s!"{untok r.tag} {untok (r.vtep.getD "")}")
  | .routeRemove d => ("route-rm", d, "")
  | .vtepUpdate n t => ("vtep-upd", n, untok t)
  | .vtepRemove n => ("vtep-rm", n, "")
  | .wgUpdate n p a => ("wg", n, s!"upd4 {untok p} {untok a}")
  | .wgRemove n => ("wg", n, "rm4")
  | .wg6Update n p a => ("wg", n, s!"upd6 {untok p} {untok a}")
  | .wg6Remove n => ("wg", n, "rm6")
  | .encap t => ("encap", "-", untok t)
  | .bgp t => ("bgp", "-", untok t)
  | .inSync => ("insync", "-", "")

/-- Split into maximal runs of equal class. -/
def runs : List (String × String × String) → List (List (String × String × String))
  | [] => []
  | x :: xs =>
    match runs xs with
    | (y :: ys) :: rest => if y.1 == x.1 then (x :: y :: ys) :: rest else [x] :: (y :: ys) :: rest
    | r => [x] :: r

/-- Canonical text of a message list: stable sort by key inside every run of one class. -/
def canon (ms : List Msg) : String :=
  let rs := runs (ms.map render)
  let sorted := rs.map (fun r => r.mergeSort (fun a b => decide (a.2.1 ≤ b.2.1)))
  let strs := sorted.flatten.map (fun (c, k, r) => if r == "" then s!"{c} {k}" else s!"{c} {k} {r}")
  if strs.isEmpty then "none" else ";".intercalate strs

def parseOrderG (s : String) : Option (Option Int) :=
  if s == "~" then some none else s.toInt?.map some

/-- graph-mode resolver inputs (`g-…` lines; a trailing `x=…` token is real-side-only data) -/
def parseGEvent (ws : List String) : Option Event :=
  match ws.filter (fun w => !w.startsWith "x=") with
  | ["g-tier", n, o, a] => (parseOrderG o).map fun o => .tier n (some (o, tok a))
  | ["g-tier-del", n] => some (.tier n none)
  | ["g-pol", k, t, o, fl, ty] => do
      let k ← parseKey k
      let o ← parseOrderG o
      pure (.policy k (some ⟨tok t, o, fl.contains 'u', fl.contains 'd', fl.contains 'f', csv ty⟩))
  | ["g-pol-del", k] => (parseKey k).map fun k => .policy k none
  | ["g-ep", k, tag, profs] => (parseEpKey k).map fun k => .endpoint k (some ⟨tok tag, csv profs⟩)
  | ["g-ep-del", k] => (parseEpKey k).map fun k => .endpoint k none
  | ["g-match", p, e] => do pure (.matchStarted (← parseKey p) (← parseEpKey e))
  | ["g-unmatch", p, e] => do pure (.matchStopped (← parseKey p) (← parseEpKey e))
  | ["g-status", "insync"] => some (.status true)
  | ["g-status", "wait"] => some (.status false)
  | ["g-status", "resync"] => some (.status false)
  | _ => none

structure DState where
  /-- graph mode: the PolicyResolver model in front of the sequencer -/
  res : Resolver := {}
  seq : State := {}
  acg : Acg := {}
  /-- output of the previous acg op, printed by the next one -/
  held : String := "none"
  dead : Bool := false

def parseCall (ws : List String) : Option Call :=
  match ws with
  | ["ipset-add", id, t] => t.toNat?.map (Call.ipsetAdded id)
  | ["ipset-rm", id] => some (.ipsetRemoved id)
  | ["mem-add", id, m] => some (.memberAdded id m)
  | ["mem-rm", id, m] => some (.memberRemoved id m)
  | ["notready"] => some .notReady
  | ["pol-act", k, tag, refs] => (parseKey k).map fun k => .policyActive k ⟨tok tag, csv refs⟩
  | ["pol-inact", k] => (parseKey k).map .policyInactive
  | ["prof-act", k, tag, refs] => some (.profileActive k ⟨tok tag, csv refs⟩)
  | ["prof-inact", k] => some (.profileInactive k)
  | ["ep-upd", k, tag, profs, tiers] => do
      let k ← parseEpKey k
      let ts ← parseTiers tiers
      pure (.endpointUpdate k (some ⟨⟨tok tag, csv profs⟩, ts⟩))
  | ["ep-del", k] => (parseEpKey k).map fun k => .endpointUpdate k none
  | ["gen-upd", c, k, tag] => (parseCat c).map fun c => .genUpdate c k (tok tag)
  | ["gen-rm", c, k] => (parseCat c).map fun c => .genRemove c k
  | ["route-upd", d, tag, ref] => some (.routeUpdate d ⟨tok tag, if ref == "~" then none else some ref⟩)
  | ["route-rm", d] => some (.routeRemove d)
  | ["vtep-upd", n, tag] => some (.vtepUpdate n (tok tag))
  | ["vtep-rm", n] => some (.vtepRemove n)
  | ["wg-upd", n, p4, a4, p6, a6] => some (.wgUpdate n ⟨tok p4, tok a4, tok p6, tok a6⟩)
  | ["wg-rm", n] => some (.wgRemove n)
  | ["encap", t] => some (.encap (tok t))
  | ["bgp", t] => some (.bgp (tok t))
  | _ => none

def acgEvent (d : DState) (e : AcgEvent) : DState × String :=
  if d.dead then (d, "dead") else
  match d.acg.step e with
  | none => ({ d with dead := true, held := "panic" }, d.held)
  | some (a, ms) => ({ d with acg := a, held := canon ms }, d.held)

def step (d : DState) (line : String) : DState × String :=
  match words line with
  | ["new"] => ({}, "ok")
  | ["g-new"] => ({}, "ok")
  | "noop" :: _ => (d, "ok")
  | ["g-flush"] =>
    -- CalcGraph.Flush() (= PolicyResolver.Flush) then EventSequencer.Flush()
    match d.res.flush with
    | none => (d, "panic")
    | some (r', calls) =>
      match applyCalls d.seq calls with
      | none => (d, "panic")
      | some s1 => let (s2, ms) := s1.flush; ({ d with res := r', seq := s2 }, canon ms)
  | ["flush"] => let (s, ms) := d.seq.flush; ({ d with seq := s }, canon ms)
  | ["acg-new"] => ({}, "ok")
  | ["acg-status", "wait"] => acgEvent d (.status .waitForDatastore [])
  | ["acg-status", "resync"] => acgEvent d (.status .resyncInProgress [])
  | ["acg-status", "insync"] => acgEvent d (.status .inSync [])
  | ["acg-upd"] => acgEvent d (.updates [])
  | ["acg-upd", "wg", n, k] => acgEvent d (.updates [.wgUpdate n ⟨tok k, "", "", ""⟩])
  | ["acg-del", "wg", n] => acgEvent d (.updates [.wgRemove n])
  | ["acg-tick"] => acgEvent d .tick
  | ["acg-end"] => (d, d.held)
  | ws =>
    match parseCall ws with
    | none =>
      match parseGEvent ws with
      | some e => ({ d with res := d.res.step e }, "ok")
      | none => (d, "bad-op")
    | some c =>
      match d.seq.call c with
      | none => (d, "panic")
      | some s => ({ d with seq := s }, "ok")

def main : IO Unit := run step {}
