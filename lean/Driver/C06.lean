import CalicoVerif.Util.Proto
import CalicoVerif.Model.C06Parser
/-! Driver for C06.  Strings travel hex-encoded (`-` = empty string).  Ops:
  `parse <hex>`      → `ok <ast> <hex canonical text>` | `err:<kind>`   (sets the current selector)
  `validate <hex>`   → `ok` | `err:<kind>`
  `tok <hex>`        → `ok <tokens>` | `err:<kind>`
  `eval <k:v,k:v..>` → `1` | `0` | `nosel`   (current selector on that label map; `-` = empty map)
  `reparse`          → parse of the current selector's canonical text, same format as `parse`
-/
open CalicoVerif CalicoVerif.C06 CalicoVerif.Proto

def hexVal (c : Char) : Option Nat :=
  if '0' ≤ c ∧ c ≤ '9' then some (c.toNat - 48)
  else if 'a' ≤ c ∧ c ≤ 'f' then some (c.toNat - 87)
  else none

def unhexList : List Char → Option Str
  | [] => some []
  | a :: b :: rest => do
    let x ← hexVal a
    let y ← hexVal b
    let r ← unhexList rest
    pure (Char.ofNat (16 * x + y) :: r)
  | _ => none

def unhex (s : String) : Option Str :=
  if s = "-" then some [] else unhexList s.toList

def hexDigit (n : Nat) : Char :=
  if n < 10 then Char.ofNat (48 + n) else Char.ofNat (87 + n)

def hexRaw (s : Str) : String :=
  String.ofList (s.flatMap (fun c => [hexDigit (c.toNat / 16 % 16), hexDigit (c.toNat % 16)]))

def hex (s : Str) : String := if s.isEmpty then "-" else hexRaw s

mutual
def showNode : Node → String
  | .eq l v => s!"eq({hexRaw l},{hexRaw v})"
  | .ne l v => s!"ne({hexRaw l},{hexRaw v})"
  | .contains l v => s!"contains({hexRaw l},{hexRaw v})"
  | .startsWith l v => s!"starts({hexRaw l},{hexRaw v})"
  | .endsWith l v => s!"ends({hexRaw l},{hexRaw v})"
  | .inSet l vs => s!"in({hexRaw l}{String.join (vs.map (fun v => ";" ++ hexRaw v))})"
  | .notInSet l vs => s!"notin({hexRaw l}{String.join (vs.map (fun v => ";" ++ hexRaw v))})"
  | .has l => s!"has({hexRaw l})"
  | .all => "all"
  | .global => "global"
  | .not n => s!"not({showNode n})"
  | .and ns => s!"and({showNodes ns})"
  | .or ns => s!"or({showNodes ns})"
def showNodes : List Node → String
  | [] => ""
  | [n] => showNode n
  | n :: ns => showNode n ++ "," ++ showNodes ns
end

def showTok : Token → String
  | .label s => s!"label({hexRaw s})" | .str s => s!"str({hexRaw s})" | .has s => s!"has({hexRaw s})"
  | .lBrace => "lbrace" | .rBrace => "rbrace" | .comma => "comma" | .eq => "eq" | .ne => "ne"
  | .in => "in" | .not => "not" | .notIn => "notin" | .contains => "contains"
  | .startsWith => "starts" | .endsWith => "ends" | .all => "all" | .lParen => "lparen"
  | .rParen => "rparen" | .and => "and" | .or => "or" | .global => "global" | .eof => "eof"

def showParse : Except Err Node → String
  | .ok n => s!"ok {showNode n} {hex n.text}"
  | .error e => "err:" ++ e.name

def parseKV (s : String) : Option (Str × Str) :=
  match s.splitOn ":" with
  | [k, v] => do
    let k ← unhex k
    let v ← unhex v
    pure (k, v)
  | _ => none

def parseMap (s : String) : Option (List (Str × Str)) :=
  if s = "-" then some [] else (s.splitOn ",").mapM parseKV

def step (cur : Option Node) (line : String) : Option Node × String :=
  match words line with
  | ["parse", h] =>
    match unhex h with
    | some s =>
      let r := parse s
      ((match r with | .ok n => some n | .error _ => none), showParse r)
    | none => (cur, "bad-op")
  | ["validate", h] =>
    match unhex h with
    | some s => (cur, match validate s with | .ok _ => "ok" | .error e => "err:" ++ e.name)
    | none => (cur, "bad-op")
  | ["tok", h] =>
    match unhex h with
    | some s => (cur, match tokenize s with
        | .ok ts => "ok " ++ joinWith "," (ts.map showTok)
        | .error e => "err:" ++ e.name)
    | none => (cur, "bad-op")
  | ["eval", m] =>
    match parseMap m with
    | some kvs => (cur, match cur with
        | some n => showBool (n.eval (Labels.ofList kvs))
        | none => "nosel")
    | none => (cur, "bad-op")
  | ["reparse"] =>
    match cur with
    | some n => (cur, showParse (parse n.text))
    | none => (cur, "nosel")
  | _ => (cur, "bad-op")

def main : IO Unit := run step none
