import CalicoVerif.Util.Proto
import CalicoVerif.Model.C08
/-! Driver for C08.  Ops:
  `cfg <ipt|nft> <4|6> <flowlogs 0|1> <reject 0|1> <owner P|R> <dir I|E> <idx> <name> <untracked 0|1> <id>` → ok
  `rule <k=v;k=v;…>`   → the rendered rules of the proto rule (text), and it becomes the current rule
  `pkt <proto> <src> <dst> <sport> <dport> <icmpType> <icmpCode> <srcSets> <dstSets> <srcPortSets> <dstPortSets>`
        → evaluation of the current rendered rules from mark 0 + reference `ruleMatches`
  (set lists: comma separated dataplane set names containing the packet's src / dst / (src,proto,sport) / (dst,proto,dport); `-` = none)
-/
open CalicoVerif CalicoVerif.Netfilter CalicoVerif.Policy CalicoVerif.C08 CalicoVerif.Proto

structure St where
  dp : Dataplane := .ipt
  v6 : Bool := false
  cfg : Cfg := {}
  ctx : Ctx := {}
  rule : Policy.Rule := {}
  rendered : Option (List Netfilter.Rule) := some []

def parseList (s : String) : List String := if s = "-" ∨ s = "" then [] else s.splitOn ","

def parsePortRange (s : String) : Option PortRange :=
  match s.splitOn "-" with
  | [a] => a.toNat?.map fun n => ⟨n, n⟩
  | [a, b] => match a.toNat?, b.toNat? with
    | some x, some y => some ⟨x, y⟩
    | _, _ => none
  | _ => none

def parseProto (s : String) : Option Proto :=
  match s.splitOn ":" with
  | ["n", name] => some (.name name)
  | ["u", n] => n.toNat?.map .num
  | _ => none

def parseIcmp (s : String) : Option IcmpMatch :=
  match s.splitOn "/" with
  | [t] => t.toNat?.map .type
  | [t, c] => match t.toNat?, c.toNat? with
    | some x, some y => some (.typeCode x y)
    | _, _ => none
  | _ => none

def setField (r : Policy.Rule) (k v : String) : Option Policy.Rule :=
  let l := parseList v
  let ports := l.mapM parsePortRange
  match k with
  | "act" => some { r with action := if v = "-" then "" else v }
  | "ipv" => v.toNat?.map fun n => { r with ipVersion := n }
  | "p" => (parseProto v).map fun p => { r with protocol := some p }
  | "np" => (parseProto v).map fun p => { r with notProtocol := some p }
  | "sn" => some { r with srcNet := l }
  | "nsn" => some { r with notSrcNet := l }
  | "dn" => some { r with dstNet := l }
  | "ndn" => some { r with notDstNet := l }
  | "sp" => ports.map fun p => { r with srcPorts := p }
  | "nsp" => ports.map fun p => { r with notSrcPorts := p }
  | "dp" => ports.map fun p => { r with dstPorts := p }
  | "ndp" => ports.map fun p => { r with notDstPorts := p }
  | "snp" => some { r with srcNamedPortIpSetIds := l }
  | "dnp" => some { r with dstNamedPortIpSetIds := l }
  | "nsnp" => some { r with notSrcNamedPortIpSetIds := l }
  | "ndnp" => some { r with notDstNamedPortIpSetIds := l }
  | "ss" => some { r with srcIpSetIds := l }
  | "ds" => some { r with dstIpSetIds := l }
  | "dips" => some { r with dstIpPortSetIds := l }
  | "nss" => some { r with notSrcIpSetIds := l }
  | "nds" => some { r with notDstIpSetIds := l }
  | "icmp" => (parseIcmp v).map fun i => { r with icmp := i }
  | "nicmp" => (parseIcmp v).map fun i => { r with notIcmp := i }
  | _ => none

def parseRule (s : String) : Option Policy.Rule :=
  (s.splitOn ";").foldlM (fun r kv =>
    match kv.splitOn "=" with
    | [k, v] => setField r k v
    | _ => none) ({} : Policy.Rule)

/-! CIDR text → (v6, address, prefix length) -/

def hexNat (s : String) : Option Nat :=
  s.toList.foldlM (fun acc c =>
    if '0' ≤ c ∧ c ≤ '9' then some (acc * 16 + (c.toNat - 48))
    else if 'a' ≤ c ∧ c ≤ 'f' then some (acc * 16 + (c.toNat - 87))
    else if 'A' ≤ c ∧ c ≤ 'F' then some (acc * 16 + (c.toNat - 55))
    else none) 0

def groupsVal (gs : List Nat) : Nat := gs.foldl (fun acc g => acc * 65536 + g) 0

def parseV6 (s : String) : Option Nat :=
  let grp (t : String) : Option (List Nat) := if t = "" then some [] else (t.splitOn ":").mapM hexNat
  match s.splitOn "::" with
  | [a] => (grp a).bind fun g => if g.length = 8 then some (groupsVal g) else none
  | [a, b] => match grp a, grp b with
    | some x, some y =>
      if x.length + y.length ≤ 8 then some (groupsVal (x ++ List.replicate (8 - x.length - y.length) 0 ++ y)) else none
    | _, _ => none
  | _ => none

def parseV4 (s : String) : Option Nat :=
  match (s.splitOn ".").mapM String.toNat? with
  | some [a, b, c, d] => if a < 256 ∧ b < 256 ∧ c < 256 ∧ d < 256 then some (((a * 256 + b) * 256 + c) * 256 + d) else none
  | _ => none

def parseCidr (s : String) : Option (Bool × Nat × Nat) :=
  let (a, len?) : String × Option Nat := match s.splitOn "/" with
    | [a] => (a, none)
    | [a, l] => (a, l.toNat?)
    | _ => ("", none)
  if cidrIsV6 a then (parseV6 a).map fun n => (true, n, len?.getD 128)
  else (parseV4 a).map fun n => (false, n, len?.getD 32)

def cidrContains (c : String) (a : Nat) : Bool :=
  match parseCidr c with
  | some (v6, n, len) =>
    let bits := if v6 then 128 else 32
    len ≤ bits && (n >>> (bits - len)) == (a >>> (bits - len))
  | none => false

def protoNumOf : String → Option Nat
  | "tcp" => some 6 | "udp" => some 17 | "icmp" => some 1 | "icmpv6" => some 58
  | "ipv6-icmp" => some 58 | "sctp" => some 132 | "udplite" => some 136
  | _ => none

def markOut (m : Mark) : String := if m = 0 then "0" else markHex m

def showRes : Result → String
  | .verdict .accept m => s!"accept mark={markOut m}"
  | .verdict .drop m => s!"drop mark={markOut m}"
  | .verdict .reject m => s!"reject mark={markOut m}"
  | .returned m => s!"return mark={markOut m}"
  | .missing c => "to:" ++ c
  | .outOfFuel => "out-of-fuel"

def step (st : St) (line : String) : St × String :=
  match words line with
  | ["cfg", dp, v, fl, rej, owner, dir, idx, _name, untr, id] =>
    match (if dp = "ipt" then some Dataplane.ipt else if dp = "nft" then some .nft else none), idx.toNat?,
          owner.toList, dir.toList with
    | some dp, some idx, [o], [d] =>
      ({ st with dp := dp, v6 := v = "6",
                 cfg := { flowLogs := fl = "1", reject := rej = "1" },
                 ctx := { owner := o, dir := d, idx := idx, id := id, untracked := untr = "1" },
                 rendered := some [] }, "ok")
    | _, _, _, _ => (st, "bad-op")
  | ["rule", enc] =>
    match parseRule enc with
    | none => (st, "bad-op")
    | some r =>
      let out := protoRuleToRules st.cfg st.ctx (setNameFor st.v6) st.v6 r
      -- a clause the real match builder panics on aborts the whole rendering
      let texts := out.map fun rs => rs.map (Rule.render st.dp st.v6 "c")
      let out := match texts with
        | some ts => if ts.contains "panic" then none else out
        | none => none
      ({ st with rule := r, rendered := out },
       match out, texts with
       | some _, some ts => " ;; ".intercalate ts
       | _, _ => "panic")
  | ["pkt", proto, src, dst, sport, dport, it, ic, ss, ds, sps, dps] =>
    match proto.toNat?, src.toNat?, dst.toNat?, sport.toNat?, dport.toNat?, it.toNat?, ic.toNat? with
    | some proto, some src, some dst, some sport, some dport, some it, some ic =>
      let pkt : Packet := { v6 := st.v6, proto := proto, src := src, dst := dst, sport := sport, dport := dport,
                            icmpType := it, icmpCode := ic }
      let ss := parseList ss; let ds := parseList ds; let sps := parseList sps; let dps := parseList dps
      let env : Env := {
        dp := st.dp
        netContains := cidrContains
        inIPSet := fun n a => (a == src && ss.contains n) || (a == dst && ds.contains n)
        inIPPortSet := fun n a p port =>
          (a == src && p == proto && port == sport && sps.contains n) ||
          (a == dst && p == proto && port == dport && dps.contains n)
        protoNum := protoNumOf }
      let m := ruleMatches env (setNameFor st.v6) st.rule pkt
      match st.rendered with
      | none => (st, s!"panic match={showBool m}")
      | some rs =>
        (st, showRes (runRules env (fun t _ => .missing t) pkt rs 0) ++ s!" match={showBool m}")
    | _, _, _, _, _, _, _ => (st, "bad-op")
  | _ => (st, "bad-op")

def main : IO Unit := run step {}
