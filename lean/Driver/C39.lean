import CalicoVerif.Util.Proto
import CalicoVerif.Model.C39
/-! Driver for C39.  Pool names are `pNN`; a CIDR token is `4:<hex>/<len>`, `6:<hex>/<len>` or `bad`.  Ops:
  `new` | `create pNN CIDR T` | `disable pNN 0|1` | `delete pNN` | `addblock CIDR` | `delblock CIDR` |
  `setcond pNN T|F|N` | `setfin pNN 0|1` | `reconcile` | `reconcilef <status-fail names> <finalizer-fail names>` | `verdicts` | `sort`
Every op except `verdicts`/`sort` answers with the whole state (pools by name). -/
open CalicoVerif CalicoVerif.C36 CalicoVerif.C39 CalicoVerif.Proto

def hexVal (c : Char) : Option Nat :=
  if '0' ≤ c ∧ c ≤ '9' then some (c.toNat - '0'.toNat)
  else if 'a' ≤ c ∧ c ≤ 'f' then some (c.toNat - 'a'.toNat + 10)
  else none

def parseHex (s : String) : Option Nat :=
  if s.isEmpty then none
  else s.toList.foldl (fun acc c => match acc, hexVal c with
    | some a, some d => some (a * 16 + d)
    | _, _ => none) (some 0)

/-- `some none` = the token `bad` (unparsable Spec.CIDR). -/
def parseCidr (s : String) : Option (Option (Bool × Pfx)) :=
  if s = "bad" then some none
  else match s.splitOn ":" with
    | [f, r] =>
      let v6? := if f = "4" then some false else if f = "6" then some true else none
      match v6?, r.splitOn "/" with
      | some v6, [a, l] => match parseHex a, l.toNat? with
        | some a, some l =>
          let p : Pfx := { addr := a, len := l }
          if decide (p.WF (width v6)) then some (some (v6, p)) else none
        | _, _ => none
      | _, _ => none
    | _ => none

def parseName (s : String) : Option Nat :=
  match s.toList with
  | ['p', a, b] => if a.isDigit ∧ b.isDigit then some ((a.toNat - 48) * 10 + (b.toNat - 48)) else none
  | _ => none

/-- `-` or a `+`-separated list of pool names. -/
def parseNames (s : String) : Option (List Nat) :=
  if s = "-" then some []
  else (s.splitOn "+").foldr (fun w acc => match parseName w, acc with
    | some n, some l => some (n :: l)
    | _, _ => none) (some [])

def showName (n : Nat) : String := "p" ++ (if n < 10 then "0" else "") ++ toString n

def showPool (p : Pool) : String :=
  showName p.name ++ ":" ++ (match p.cond with
    | none => "-"
    | some c => (if c.status then "T/" else "F/") ++ c.reason) ++ ":" ++ showBool p.fin ++ ":" ++
    showBool p.deleting ++ ":" ++ showBool p.disabled

def insertByName (p : Pool) : List Pool → List Pool
  | [] => [p]
  | q :: qs => if p.name ≤ q.name then p :: q :: qs else q :: insertByName p qs

def showState (s : State) : String :=
  let ps := s.pools.foldr insertByName []
  (if ps.isEmpty then "-" else joinWith "," (ps.map showPool)) ++ "|blocks=" ++ toString s.blocks.length

def showVerdict : Verdict → String
  | .skipped => "skipped" | .disabled => "disabled" | .terminating => "terminating"
  | .overlap => "overlap" | .active => "active"

def ev (s : State) (e : Event) : State × String := let s' := s.step e; (s', showState s')

def step (s : State) (line : String) : State × String :=
  match words line with
  | ["new"] => (⟨[], []⟩, "ok")
  | ["create", n, c, t] => match parseName n, parseCidr c, t.toNat? with
    | some n, some c, some t => ev s (.create n c t)
    | _, _, _ => (s, "bad-op")
  | ["disable", n, b] => match parseName n with
    | some n => if b = "0" then ev s (.setDisabled n false) else if b = "1" then ev s (.setDisabled n true) else (s, "bad-op")
    | none => (s, "bad-op")
  | ["delete", n] => match parseName n with
    | some n => ev s (.delete n)
    | none => (s, "bad-op")
  | ["addblock", c] => match parseCidr c with
    | some (some b) => ev s (.addBlock b)
    | _ => (s, "bad-op")
  | ["delblock", c] => match parseCidr c with
    | some (some b) => ev s (.delBlock b)
    | _ => (s, "bad-op")
  | ["setcond", n, c] => match parseName n with
    | some n =>
      if c = "T" then ev s (.setCond n (some ⟨true, "Preset"⟩))
      else if c = "F" then ev s (.setCond n (some ⟨false, "Preset"⟩))
      else if c = "N" then ev s (.setCond n none) else (s, "bad-op")
    | none => (s, "bad-op")
  | ["setfin", n, b] => match parseName n with
    | some n => if b = "0" then ev s (.setFin n false) else if b = "1" then ev s (.setFin n true) else (s, "bad-op")
    | none => (s, "bad-op")
  | ["reconcile"] => ev s .reconcile
  | ["reconcilef", a, b] => match parseNames a, parseNames b with
    | some fs, some ff => ev s (.reconcileF fs ff)
    | _, _ => (s, "bad-op")
  | ["verdicts"] =>
    let vs := verdicts s.pools
    (s, if vs.isEmpty then "-" else joinWith "," (vs.map fun pv => showName pv.1.name ++ "=" ++ showVerdict pv.2))
  | ["sort"] =>
    let ps := sortPools s.pools
    (s, if ps.isEmpty then "-" else joinWith "," (ps.map fun p => showName p.name))
  | _ => (s, "bad-op")

def main : IO Unit := run step ⟨[], []⟩
