import CalicoVerif.Util.Proto
import CalicoVerif.Model.C34
/-! Driver for C34 (stateless).
  `authz <hasAuthorizer 0|1> <attrsOK 0|1> <name> <tier> <A0> <A1> <A2> <order>`
     A = decision letter `a|d|n` followed by `e` when the authorizer also returns an error;
     order = the order in which the harness RELEASES the three checks, e.g. `201`
  → `allow` | `forbidden` | `forbidden-noget` | `attr-err`
-/
open CalicoVerif CalicoVerif.C34 CalicoVerif.Proto

def answerOf (s : String) : Option Answer :=
  match s.toList with
  | ['a'] => some ⟨.allow, false⟩
  | ['d'] => some ⟨.deny, false⟩
  | ['n'] => some ⟨.noOpinion, false⟩
  | ['a', 'e'] => some ⟨.allow, true⟩
  | ['d', 'e'] => some ⟨.deny, true⟩
  | ['n', 'e'] => some ⟨.noOpinion, true⟩
  | _ => none

def orderOf (s : String) : Option (List Nat) :=
  let l := s.toList.map (fun c => c.toNat - '0'.toNat)
  if l.length = 3 ∧ l.contains 0 ∧ l.contains 1 ∧ l.contains 2 then some l else none

def bit : String → Option Bool
  | "0" => some false
  | "1" => some true
  | _ => none

def step (_ : Unit) (line : String) : Unit × String :=
  ((), match words line with
  | ["authz", ha, ok, name, tier, a0, a1, a2, ord] =>
    match bit ha, bit ok, answerOf a0, answerOf a1, answerOf a2, orderOf ord with
    | some ha, some ok, some a0, some a1, some a2, some ord =>
      match authorizeTierOp ha ok (routeAnswers name tier a0 a1 a2) ord with
      | .allow => "allow"
      | .forbidden => "forbidden"
      | .forbiddenNoGet => "forbidden-noget"
      | .attrErr => "attr-err"
    | _, _, _, _, _, _ => "bad-op"
  | _ => "bad-op")

def main : IO Unit := run step ()
