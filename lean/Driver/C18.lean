import CalicoVerif.Util.Proto
import CalicoVerif.Model.C18
import CalicoVerif.Model.C18CM
/-! Driver for C18 (keys = Nat, values = payload.id).  Ops:
  `new p|d|s` (valuesEqual: payload only | payload and id | always true)
  `dset k p id` `ddel k` `ddelall` `dget k` `dsetr lo n p id0`
  `pset k p id` `pdel k` `pdelall` `pget k` `psetr lo n p id0` `uget k` `xget k`
  `repl <fail 0|1> k:p:id ...`
  `uiter <default act> k:a ...` `xiter <default act> k:a ...`   (acts 0 noop 1 update 2 stop)
  `ubatch <chunk> k ...` `xbatch <chunk> k ...`                  (failing keys)
  `dump`
  cachingmap over a mock dataplane map (valuesEqual = `==`):
  `cmnew <batched 0|1>` `cmdset k p id` `cmddel k` `cmddelall` `cmload <fail 0|1>`
  `cmau <loadFails> k …` `cmad <loadFails> k …` `cmaa <loadFails> d:k … u:k …` (keys whose write fails) → `ok`|`err`
  `cmoob k` (delete k from the backing map behind CachingMap's back)
  `cmdump` → `D[…] P[…] R[…] loaded=<0|1>`
-/
open CalicoVerif CalicoVerif.C18 CalicoVerif.Proto

abbrev Val := Nat × Nat
abbrev T := Tracker Nat Val

structure St where
  mode : String
  t : T
  cm : CM Nat Val := CM.new false

def eqvOf (mode : String) : Val → Val → Bool :=
  if mode = "p" then fun a b => a.1 == b.1
  else if mode = "s" then fun _ _ => true
  else fun a b => a.1 == b.1 && a.2 == b.2

def showVal (v : Val) : String := s!"{v.1}.{v.2}"
def showOptVal : Option Val → String
  | some v => showVal v
  | none => "-"

def sortKV (m : List (Nat × Val)) : List (Nat × Val) := m.mergeSort (fun a b => a.1 ≤ b.1)
def showKVs (m : List (Nat × Val)) : String :=
  if m.isEmpty then "-" else joinWith "," ((sortKV m).map (fun p => s!"{p.1}={showVal p.2}"))
def showKs (m : List Nat) : String :=
  if m.isEmpty then "-" else joinWith "," ((m.mergeSort (fun a b => a ≤ b)).map toString)

/-- `DesiredView.Iter` order: pending updates, then in-dataplane-and-desired without update. -/
def desiredKVs (t : T) : List (Nat × Val) :=
  t.du ++ t.dd.filter (fun p => (get t.du p.1).isNone)
def dataplaneKVs (t : T) : List (Nat × Val) := t.dd ++ t.dn

def dump (t : T) : String :=
  let sync := t.inSync
  s!"D[{showKVs (desiredKVs t)}] P[{showKVs (dataplaneKVs t)}] U[{showKVs t.du}] X[{showKVs t.dn}] " ++
  s!"dl={t.desiredLen} pl={t.dataplaneLen} ul={t.pendingUpdatesLen} xl={t.pendingDeletionsLen} sync={showBool sync}"

def parseNats (ws : List String) : Option (List Nat) := ws.mapM String.toNat?

def parseTriple (w : String) : Option (Nat × Val) :=
  match (w.splitOn ":").mapM String.toNat? with
  | some [k, p, i] => some (k, (p, i))
  | _ => none

def parseAct : Nat → Option Act
  | 0 => some .noop
  | 1 => some .update
  | 2 => some .stop
  | _ => none

def parseActs (ws : List String) : Option (List (Nat × Act)) :=
  ws.mapM (fun w => match (w.splitOn ":").mapM String.toNat? with
    | some [k, a] => (parseAct a).map (fun x => (k, x))
    | _ => none)

def actFn (dflt : Act) (ov : List (Nat × Act)) (k : Nat) : Act :=
  match ov.find? (fun p => p.1 == k) with
  | some p => p.2
  | none => dflt

def range (lo n : Nat) : List Nat := (List.range n).map (· + lo)

def cmEqv : Val → Val → Bool := fun a b => a.1 == b.1 && a.2 == b.2
def showErr (e : Bool) : String := if e then "err" else "ok"

/-- `d:k` / `u:k` tokens → (keys failing on delete, keys failing on update). -/
def parseTagged (ws : List String) : Option (List Nat × List Nat) :=
  ws.foldlM (fun (acc : List Nat × List Nat) w => match w.splitOn ":" with
    | ["d", k] => k.toNat?.map (fun k => (k :: acc.1, acc.2))
    | ["u", k] => k.toNat?.map (fun k => (acc.1, k :: acc.2))
    | _ => none) ([], [])

/-- mode s (SetDeltaTracker) has no values: they are normalised to 0.0. -/
def mk (mode : String) (p i : Nat) : Val := if mode = "s" then (0, 0) else (p, i)

def step (s : St) (line : String) : St × String :=
  let eqv := eqvOf s.mode
  let mk := mk s.mode
  let t := s.t
  let ok (t' : T) : St × String := ({ s with t := t' }, "ok")
  match words line with
  | ["new", m] => if m = "p" || m = "d" || m = "s" then ({ mode := m, t := Tracker.new }, "ok") else (s, "bad-op")
  | "dset" :: a => match parseNats a with
    | some [k, p, i] => ok (dSet eqv t k (mk p i))
    | _ => (s, "bad-op")
  | "pset" :: a => match parseNats a with
    | some [k, p, i] => ok (pSet eqv t k (mk p i))
    | _ => (s, "bad-op")
  | "dsetr" :: a => match parseNats a with
    | some [lo, n, p, i] => ok ((range 0 n).foldl (fun t j => dSet eqv t (lo + j) (mk p (i + j))) t)
    | _ => (s, "bad-op")
  | "psetr" :: a => match parseNats a with
    | some [lo, n, p, i] => ok ((range 0 n).foldl (fun t j => pSet eqv t (lo + j) (mk p (i + j))) t)
    | _ => (s, "bad-op")
  | ["ddel", a] => match a.toNat? with
    | some k => ok (dDel t k)
    | none => (s, "bad-op")
  | ["pdel", a] => match a.toNat? with
    | some k => ok (pDel t k)
    | none => (s, "bad-op")
  | ["ddelall"] => ok (dDelAll t)
  | ["pdelall"] => ok (replaceAllIter eqv t [] false).1
  | ["dget", a] => match a.toNat? with
    | some k => (s, showOptVal (desiredGet t k))
    | none => (s, "bad-op")
  | ["pget", a] => match a.toNat? with
    | some k => (s, showOptVal (dataplaneGet t k))
    | none => (s, "bad-op")
  | ["uget", a] => match a.toNat? with
    | some k => (s, showOptVal (get t.du k))
    | none => (s, "bad-op")
  | ["xget", a] => match a.toNat? with
    | some k => (s, showOptVal (get t.dn k))
    | none => (s, "bad-op")
  | "repl" :: f :: items => match f.toNat?, items.mapM parseTriple with
    | some f, some items =>
      if f > 1 then (s, "bad-op") else
      let items := items.map (fun kv => (kv.1, mk kv.2.1 kv.2.2))
      let (t', err) := replaceAllIter eqv t items (f == 1)
      ({ s with t := t' }, if err then "err" else "ok")
    | _, _ => (s, "bad-op")
  | "uiter" :: d :: ov => match d.toNat?.bind parseAct, parseActs ov with
    | some d, some ov => ({ s with t := uIter t t.du (actFn d ov) }, showKVs t.du)
    | _, _ => (s, "bad-op")
  | "xiter" :: d :: ov => match d.toNat?.bind parseAct, parseActs ov with
    | some d, some ov => ({ s with t := xIter t (keys t.dn) (actFn d ov) }, showKs (keys t.dn))
    | _, _ => (s, "bad-op")
  | "ubatch" :: c :: fk => match c.toNat?, parseNats fk with
    | some c, some fk =>
      let F := fun k => fk.contains k
      let ap := batchedApplied (fun p : Nat × Val => p.1) batchSize F c t.du
      ({ s with t := uBatched t batchSize F c t.du }, s!"applied={ap.length}")
    | _, _ => (s, "bad-op")
  | "xbatch" :: c :: fk => match c.toNat?, parseNats fk with
    | some c, some fk =>
      let F := fun k => fk.contains k
      let ap := batchedApplied (fun k : Nat => k) batchSize F c (keys t.dn)
      ({ s with t := xBatched t batchSize F c (keys t.dn) }, s!"applied={ap.length}")
    | _, _ => (s, "bad-op")
  | ["dump"] => (s, dump t)
  | ["cmnew", b] => match b.toNat? with
    | some b => ({ s with cm := CM.new (b != 0) }, "ok")
    | none => (s, "bad-op")
  | "cmdset" :: a => match parseNats a with
    | some [k, p, i] => ({ s with cm := (s.cm.step cmEqv (.dSet k (p, i))).1 }, "ok")
    | _ => (s, "bad-op")
  | ["cmddel", a] => match a.toNat? with
    | some k => ({ s with cm := (s.cm.step cmEqv (.dDel k)).1 }, "ok")
    | none => (s, "bad-op")
  | ["cmoob", a] => match a.toNat? with
    -- out-of-band deletion from the backing map (not through CachingMap): the cache goes stale until the next load
    | some k => ({ s with cm := { s.cm with real := del s.cm.real k } }, "ok")
    | none => (s, "bad-op")
  | ["cmddelall"] => ({ s with cm := (s.cm.step cmEqv .dDelAll).1 }, "ok")
  | ["cmload", f] => match f.toNat? with
    | some f => let r := s.cm.step cmEqv (.load (f != 0)); ({ s with cm := r.1 }, showErr r.2)
    | none => (s, "bad-op")
  | "cmau" :: lf :: fk => match lf.toNat?, parseNats fk with
    | some lf, some fk =>
      let r := s.cm.step cmEqv (.applyUpdates (lf != 0) (fun k => fk.contains k)); ({ s with cm := r.1 }, showErr r.2)
    | _, _ => (s, "bad-op")
  | "cmad" :: lf :: fk => match lf.toNat?, parseNats fk with
    | some lf, some fk =>
      let r := s.cm.step cmEqv (.applyDeletions (lf != 0) (fun k => fk.contains k)); ({ s with cm := r.1 }, showErr r.2)
    | _, _ => (s, "bad-op")
  | "cmaa" :: lf :: fk => match lf.toNat?, parseTagged fk with
    | some lf, some (fd, fu) =>
      let r := s.cm.step cmEqv (.applyAll (lf != 0) (fun k => fd.contains k) (fun k => fu.contains k))
      ({ s with cm := r.1 }, showErr r.2)
    | _, _ => (s, "bad-op")
  | ["cmdump"] =>
    (s, s!"D[{showKVs (desiredKVs s.cm.t)}] P[{showKVs (dataplaneKVs s.cm.t)}] R[{showKVs s.cm.real}] loaded={showBool s.cm.loaded}")
  | _ => (s, "bad-op")

def main : IO Unit := run step { mode := "d", t := Tracker.new }
