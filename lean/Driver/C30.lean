import CalicoVerif.Util.Proto
import CalicoVerif.Model.C30Flat
/-! Driver for C30.  Ops:
  `new`                                   → ok
  `ipset <id> <members>`                  → ok     members := `_` | m+m   m := <dotted>[/len] | r<dotted>#<count> | <v6 text>
  `ipport <id> <members>`                 → ok     m := <dotted>[/len],<proto>:<port>
  `pol <id> <rules-in> <rules-out>`       → ok     (AddOrReplacePolicySet; HNS rules computed NOW)
  `del <id>`                              → ok     (RemovePolicySet)
  `upd <ipsetid>`                         → ProcessIpSetUpdate: recomputed policy ids, sorted
  `rules <in|out> <0|1> <ids>`            → GetPolicySetRules rendering
  `pkt <in|out> <0|1> <ids> <proto> <src> <sport> <dst> <dport>` → `<hns actions> <reference verdict>`
  `rule <n> <in|out> <policyId> <rule>`   → protoRuleToHnsRules with chunk size n
  `flat <in|out> <tiers>`                 → flattenTiers + rewritePriorities rendering, or `panic`
  `fpkt <in|out> <tiers> <proto> <src> <sport> <dst> <dport>` → `<hns actions|panic> <multi-tier reference verdict>`
  tiers := tier/tier/…    tier := <0|1>:<ids>     (end-of-tier drop flag : policy set ids)
  rules := `_` | rule|rule
  rule  := action;ipver;proto;srcNet;dstNet;notSrcNet;notDstNet;srcPorts;dstPorts;srcSets;dstSets;ipportSets;flags;ruleId
  proto := `~` | n<name> | #<num>     nets/sets := `_` | x+x     ports := `_` | a-b+a-b    flags ⊆ "NIP" | `_`
-/
open CalicoVerif CalicoVerif.C30 CalicoVerif.Proto

def splitL (sep : String) (s : String) : List String :=
  if s = "_" then [] else s.splitOn sep

def allSome {α : Type} : List (Option α) → Option (List α)
  | [] => some []
  | none :: _ => none
  | some a :: rest => (allSome rest).map (a :: ·)

def parseDotted (s : String) : Option Nat :=
  match (s.splitOn ".").map String.toNat? with
  | [some a, some b, some c, some d] =>
    if a < 256 ∧ b < 256 ∧ c < 256 ∧ d < 256 then some (((a * 256 + b) * 256 + c) * 256 + d) else none
  | _ => none

def parseAddr (s : String) : Option Addr :=
  if s.toList.contains ':' then some { text := s, v6 := true, addr := 0, len := 0 }
  else match s.splitOn "/" with
    | [a] => (parseDotted a).map fun n => { text := s, v6 := false, addr := n, len := 32 }
    | [a, l] =>
      match parseDotted a, l.toNat? with
      | some n, some l => if l ≤ 32 then some { text := s, v6 := false, addr := n, len := l } else none
      | _, _ => none
    | _ => none

def parseMember (s : String) : Option (List Addr) :=
  if s.startsWith "r" then
    match ((s.drop 1).toString).splitOn "#" with
    | [a, c] =>
      match parseDotted a, c.toNat? with
      | some n, some c => some ((List.range c).map fun i => { text := dotted (n + i), v6 := false, addr := n + i, len := 32 })
      | _, _ => none
    | _ => none
  else (parseAddr s).map fun a => [a]

def parseMembers (s : String) : Option (List Addr) :=
  (allSome ((splitL "+" s).map parseMember)).map List.flatten

def parseIPPort (s : String) : Option IPPort :=
  match s.splitOn "," with
  | [a, pp] =>
    match parseAddr a, pp.splitOn ":" with
    | some a, [pr, po] => (po.toNat?).map fun po => { addr := a, proto := pr, port := po }
    | _, _ => none
  | _ => none

def parsePortRange (s : String) : Option PortRange :=
  match (s.splitOn "-").map String.toNat? with
  | [some a, some b] => some ⟨a, b⟩
  | _ => none

def parseProto (s : String) : Option (Option ProtoSpec) :=
  if s = "~" then some none
  else if s.startsWith "n" then some (some (.name (s.drop 1).toString))
  else if s.startsWith "#" then ((s.drop 1).toString.toNat?).map fun n => some (.num n)
  else none

def parseRule (s : String) : Option Rule :=
  match s.splitOn ";" with
  | [act, ipv, pr, sn, dn, nsn, ndn, sp, dp, ss, ds, ips, fl, rid] =>
    match ipv.toNat?, parseProto pr, allSome ((splitL "+" sn).map parseAddr), allSome ((splitL "+" dn).map parseAddr),
      allSome ((splitL "+" nsn).map parseAddr), allSome ((splitL "+" ndn).map parseAddr),
      allSome ((splitL "+" sp).map parsePortRange), allSome ((splitL "+" dp).map parsePortRange) with
    | some ipv, some pr, some sn, some dn, some nsn, some ndn, some sp, some dp =>
      some { action := if act = "EMPTY" then "" else act, ipVersion := ipv, proto := pr, srcNet := sn, dstNet := dn, notSrcNet := nsn,
             notDstNet := ndn, srcPorts := sp, dstPorts := dp, srcSets := splitL "+" ss, dstSets := splitL "+" ds,
             dstIpPortSets := splitL "+" ips, otherNeg := fl.toList.contains 'N', icmp := fl.toList.contains 'I',
             namedPortSets := fl.toList.contains 'P', ruleId := rid }
    | _, _, _, _, _, _, _, _ => none
  | _ => none

def parseRules (s : String) : Option (List Rule) := allSome ((splitL "|" s).map parseRule)

structure St where
  init : Bool := false
  ipsets : IPSets := ⟨[], []⟩
  sets : List (String × PolicySet × List HRule) := []

def lookupSet (st : St) (id : String) : Option (PolicySet × List HRule) := List.lookup id st.sets

def refs (p : PolicySet) : List String :=
  (p.inRules ++ p.outRules).flatMap fun r => r.srcSets ++ r.dstSets ++ r.dstIpPortSets

def insertSorted (x : String) : List String → List String
  | [] => [x]
  | y :: ys => if x ≤ y then x :: y :: ys else y :: insertSorted x ys

def parseIds (s : String) : List String := splitL "," s

def dirOf (s : String) : Option Bool := if s = "in" then some true else if s = "out" then some false else none
def boolOf (s : String) : Option Bool := if s = "1" then some true else if s = "0" then some false else none

def actionSet (as : List Action) : String :=
  let names := (as.map Action.render).eraseDups
  let sorted := names.foldr insertSorted []
  if sorted.isEmpty then "-" else ",".intercalate sorted

def parseTier (s : String) : Option (Bool × List String) :=
  match s.splitOn ":" with
  | [e, ids] => (boolOf e).map fun e => (e, parseIds ids)
  | _ => none

def parseTiers (s : String) : Option (List (Bool × List String)) := allSome ((s.splitOn "/").map parseTier)

def tierRules (st : St) (d : Bool) (t : Bool × List String) : List HRule :=
  getPolicySetRules (t.2.map fun id => (lookupSet st id).map (·.2)) d t.1

def flatRules (st : St) (d : Bool) (ts : List (Bool × List String)) : Option (List HRule) :=
  (flattenTiers (ts.map (tierRules st d))).map fun l => rewritePriorities l policyRuleMaxPriority

def step (st : St) (line : String) : St × String :=
  if !st.init && words line != ["new"] then (st, "bad-op") else
  match words line with
  | ["new"] => ({ init := true }, "ok")
  | ["ipset", id, ms] =>
    match parseMembers ms with
    | some m =>
      -- the real cache returns nil for an empty set
      let rest := st.ipsets.addrs.filter (fun x => x.1 != id)
      ({ st with ipsets := { st.ipsets with addrs := if m.isEmpty then rest else (id, m) :: rest } }, "ok")
    | none => (st, "bad-op")
  | ["ipport", id, ms] =>
    match allSome ((splitL "+" ms).map parseIPPort) with
    | some m =>
      let rest := st.ipsets.ipports.filter (fun x => x.1 != id)
      ({ st with ipsets := { st.ipsets with ipports := if m.isEmpty then rest else (id, m) :: rest } }, "ok")
    | none => (st, "bad-op")
  | ["pol", id, ri, ro] =>
    match parseRules ri, parseRules ro with
    | some ri, some ro =>
      let p : PolicySet := ⟨ri, ro⟩
      ({ st with sets := (id, p, p.members st.ipsets id ipPortsPerRule) :: st.sets.filter (fun x => x.1 != id) }, "ok")
    | _, _ => (st, "bad-op")
  | ["del", id] => ({ st with sets := st.sets.filter (fun x => x.1 != id) }, "ok")
  | ["upd", ipsetId] =>
    let stale := (st.sets.filter fun x => (refs x.2.1).contains ipsetId).map (·.1)
    let sets := st.sets.map fun x =>
      if (refs x.2.1).contains ipsetId then (x.1, x.2.1, x.2.1.members st.ipsets x.1 ipPortsPerRule) else x
    ({ st with sets := sets }, if stale.isEmpty then "-" else ",".intercalate (stale.foldr insertSorted []))
  | ["rules", d, e, ids] =>
    match dirOf d, boolOf e with
    | some d, some e =>
      let ms := (parseIds ids).map fun id => (lookupSet st id).map (·.2)
      (st, " ; ".intercalate ((getPolicySetRules ms d e).map HRule.render))
    | _, _ => (st, "bad-op")
  | ["pkt", d, e, ids, pr, s, sp, t, dp] =>
    match dirOf d, boolOf e, pr.toNat?, parseDotted s, sp.toNat?, parseDotted t, dp.toNat? with
    | some d, some e, some pr, some s, some sp, some t, some dp =>
      let ids := parseIds ids
      let ms := ids.map fun id => (lookupSet st id).map (·.2)
      let pkt : Pkt := ⟨pr, s, sp, t, dp⟩
      let hv := actionSet (hnsActions (getPolicySetRules ms d e) pkt)
      let sets := ids.filterMap fun id => (lookupSet st id).map (·.1)
      let rv := (tierVerdict st.ipsets sets d e pkt).render
      (st, hv ++ " " ++ rv)
    | _, _, _, _, _, _, _ => (st, "bad-op")
  | ["flat", d, ts] =>
    match dirOf d, parseTiers ts with
    | some d, some ts =>
      match flatRules st d ts with
      | some l => (st, if l.isEmpty then "-" else " ; ".intercalate (l.map HRule.render))
      | none => (st, "panic")
    | _, _ => (st, "bad-op")
  | ["fpkt", d, ts, pr, s, sp, t, dp] =>
    match dirOf d, parseTiers ts, pr.toNat?, parseDotted s, sp.toNat?, parseDotted t, dp.toNat? with
    | some d, some ts, some pr, some s, some sp, some t, some dp =>
      let pkt : Pkt := ⟨pr, s, sp, t, dp⟩
      let hv := match flatRules st d ts with
        | some l => actionSet (hnsActions l pkt)
        | none => "panic"
      let ref := multiVerdict st.ipsets d pkt (ts.map fun t => (t.2.filterMap fun id => (lookupSet st id).map (·.1), t.1))
      (st, hv ++ " " ++ ref.render)
    | _, _, _, _, _, _, _ => (st, "bad-op")
  | ["rule", n, d, pid, r] =>
    match n.toNat?, dirOf d, parseRule r with
    | some n, some d, some r =>
      if n = 0 then (st, "bad-op") else
      match protoRuleToHnsRules st.ipsets pid r d n with
      | .ok hs => (st, if hs.isEmpty then "-" else " ; ".intercalate (hs.map HRule.render))
      | .error e => (st, e.render)
    | _, _, _ => (st, "bad-op")
  | _ => (st, "bad-op")

def main : IO Unit := run step {}
