import CalicoVerif.Util.Proto
import CalicoVerif.Model.C11Ref
/-! Driver for C11.  Ops:
  `prog <o:…> <f:…> <sections…>`  build with the MODEL builder → `ok <insns>` | `panic` | `err`
  `real <insns>`                   load the REAL builder's instructions (from the harness) → `ok <n>`
  `pkt <fields…>`                  run the interpreter on the loaded REAL instructions (model
                                   instructions if none loaded) and print outcome + reference verdict
-/
open CalicoVerif CalicoVerif.C11 CalicoVerif.Proto

structure DState where
  cfg : Cfg := {}
  rules : Rules := {}
  progs : Option (List (List Insn)) := none

def natList (s : String) : Option (List Nat) :=
  if s == "-" || s == "" then some [] else (s.splitOn ",").mapM String.toNat?

def parseNet (s : String) : Option Net :=
  match s.splitOn ":" with
  | [f, rest] =>
    match rest.splitOn "/" with
    | [a, p] => do
      let a ← a.toNat?
      let p ← p.toNat?
      some { v6 := f == "6", addr := a, pfx := p }
    | _ => none
  | _ => none

def parseNets (s : String) : Option (List Net) := (s.splitOn ",").mapM parseNet

def parsePorts (s : String) : Option (List PortRange) :=
  (s.splitOn ",").mapM (fun t =>
    match t.splitOn ".." with
    | [a, b] => do
      let a ← a.toInt?
      let b ← b.toInt?
      some { first := a, last := b }
    | _ => none)

def parseProto (s : String) : Option Proto :=
  if s.startsWith "N" then (s.drop 1).toString.toInt?.map Proto.num
  else if s.startsWith "S" then some (.name (s.drop 1).toString)
  else none

def parseIcmp (s : String) : Option Icmp :=
  match s.splitOn "/" with
  | [t] => t.toInt?.map Icmp.type
  | [t, c] => do
    let t ← t.toInt?
    let c ← c.toInt?
    some (.typeCode t c)
  | _ => none

def applyMatch (r : Rule) (k v : String) : Option Rule :=
  match k with
  | "pr" => (parseProto v).map (fun p => { r with protocol := some p })
  | "npr" => (parseProto v).map (fun p => { r with notProtocol := some p })
  | "sn" => (parseNets v).map (fun n => { r with srcNet := n })
  | "nsn" => (parseNets v).map (fun n => { r with notSrcNet := n })
  | "dn" => (parseNets v).map (fun n => { r with dstNet := n })
  | "ndn" => (parseNets v).map (fun n => { r with notDstNet := n })
  | "ss" => (natList v).map (fun n => { r with srcIpSetIds := n })
  | "nss" => (natList v).map (fun n => { r with notSrcIpSetIds := n })
  | "ds" => (natList v).map (fun n => { r with dstIpSetIds := n })
  | "nds" => (natList v).map (fun n => { r with notDstIpSetIds := n })
  | "dps" => (natList v).map (fun n => { r with dstIpPortSetIds := n })
  | "sp" => (parsePorts v).map (fun n => { r with srcPorts := n })
  | "spn" => (natList v).map (fun n => { r with srcNamedPortIpSetIds := n })
  | "nsp" => (parsePorts v).map (fun n => { r with notSrcPorts := n })
  | "nspn" => (natList v).map (fun n => { r with notSrcNamedPortIpSetIds := n })
  | "dp" => (parsePorts v).map (fun n => { r with dstPorts := n })
  | "dpn" => (natList v).map (fun n => { r with dstNamedPortIpSetIds := n })
  | "ndp" => (parsePorts v).map (fun n => { r with notDstPorts := n })
  | "ndpn" => (natList v).map (fun n => { r with notDstNamedPortIpSetIds := n })
  | "ic" => (parseIcmp v).map (fun n => { r with icmp := n })
  | "nic" => (parseIcmp v).map (fun n => { r with notIcmp := n })
  | _ => none

/-- Parser state while reading the sections: everything is accumulated in
reverse and fixed up at the end. -/
structure PSt where
  sect : String := ""
  tiers : List (String × List Tier) := []       -- per section, tiers reversed; policies/rules reversed inside
  profs : List (String × List Policy) := []

def PSt.addTier (p : PSt) (t : Tier) : PSt :=
  { p with tiers := p.tiers.map (fun (s, ts) => if s == p.sect then (s, t :: ts) else (s, ts)) }

def isProfSect (s : String) : Bool := s == "P" || s == "HPR"

def PSt.addPolicy (p : PSt) : Option PSt :=
  if isProfSect p.sect then
    some { p with profs := p.profs.map (fun (s, ps) => if s == p.sect then (s, ⟨[]⟩ :: ps) else (s, ps)) }
  else
    some { p with tiers := p.tiers.map (fun (s, ts) =>
      if s == p.sect then
        match ts with
        | t :: r => (s, { t with policies := ⟨[]⟩ :: t.policies } :: r)
        | [] => (s, ts)
      else (s, ts)) }

def modHeadPolicy (ps : List Policy) (f : List Rule → List Rule) : List Policy :=
  match ps with
  | p :: r => ⟨f p.rules⟩ :: r
  | [] => []

def PSt.modRules (p : PSt) (f : List Rule → List Rule) : PSt :=
  if isProfSect p.sect then
    { p with profs := p.profs.map (fun (s, ps) => if s == p.sect then (s, modHeadPolicy ps f) else (s, ps)) }
  else
    { p with tiers := p.tiers.map (fun (s, ts) =>
      if s == p.sect then
        match ts with
        | t :: r => (s, { t with policies := modHeadPolicy t.policies f } :: r)
        | [] => (s, ts)
      else (s, ts)) }

def parseSections : List String → PSt → Option PSt
  | [], p => some p
  | tok :: rest, p =>
    if tok == "T" || tok == "HP" || tok == "HF" || tok == "HN" then
      parseSections rest { p with sect := tok, tiers := (tok, []) :: p.tiers }
    else if tok == "P" || tok == "HPR" then
      parseSections rest { p with sect := tok, profs := (tok, []) :: p.profs }
    else if tok == "p" then (p.addPolicy).bind (parseSections rest)
    else
      match tok.splitOn ":" with
      | ["t", e, id] =>
        match id.toNat? with
        | some id =>
          let ea := if e == "d" then EndAction.deny else if e == "p" then .pass else .undef
          parseSections rest (p.addTier { endAction := ea, endRuleID := id, policies := [] })
        | none => none
      | ["r", act, mid, ver] =>
        match mid.toNat?, ver.toNat? with
        | some mid, some ver =>
          parseSections rest (p.modRules (fun rs => { action := act, matchID := mid, ipVersion := ver } :: rs))
        | _, _ => none
      | _ =>
        match tok.splitOn "=" with
        | [k, v] =>
          -- apply to the most recent rule
          let ok := (applyMatch {} k v).isSome
          if !ok then none
          else parseSections rest (p.modRules (fun rs =>
            match rs with
            | r :: more => ((applyMatch r k v).getD r) :: more
            | [] => []))
        | _ => none

def fixPolicy (p : Policy) : Policy := ⟨p.rules.reverse⟩
def fixTiers (ts : List Tier) : List Tier :=
  ts.reverse.map (fun t => { t with policies := t.policies.reverse.map fixPolicy })

def effTrampolineStride (raw : Nat) : Nat := if raw > 0 ∧ raw < 16384 then raw else 32667

def parseBool (s : String) : Bool := s == "1"

def parseProg (ws : List String) : Option (Cfg × Rules) :=
  match ws with
  | o :: f :: rest =>
    match o.splitOn ":", f.splitOn ":" with
    | ["o", v6, rec, uj, aj, dj, pi, ps, mj, ts, f1, f2, f3, f4], ["f", hi, sup, xdp, np] => do
      let aj ← aj.toInt?
      let dj ← dj.toInt?
      let pi ← pi.toInt?
      let ps ← ps.toInt?
      let mj ← mj.toNat?
      let ts ← ts.toNat?
      let f1 ← f1.toInt?
      let f2 ← f2.toInt?
      let f3 ← f3.toInt?
      let f4 ← f4.toInt?
      let np ← np.toNat?
      let p ← parseSections rest {}
      let tiersOf (s : String) : List Tier := fixTiers ((p.tiers.lookup s).getD [])
      let profsOf (s : String) : List Policy := ((p.profs.lookup s).getD []).reverse.map fixPolicy
      let cfg : Cfg := { v6 := parseBool v6, record := rec != "0", useJmps := parseBool uj, allowJmp := aj,
                         denyJmp := dj, policyMapIndex := pi, policyMapStride := ps, maxJumps := mj,
                         trampolineStride := effTrampolineStride ts, ipSetMapFD := f1, stateMapFD := f2,
                         staticJumpMapFD := f3, policyJumpMapFD := f4 }
      let rules : Rules := { forHostInterface := parseBool hi, suppressNormalHostPolicy := parseBool sup,
                             forXDP := parseBool xdp, noProfileMatchID := np, tiers := tiersOf "T",
                             profiles := profsOf "P", hostPreDnatTiers := tiersOf "HP",
                             hostForwardTiers := tiersOf "HF", hostNormalTiers := tiersOf "HN",
                             hostProfiles := profsOf "HPR" }
      some (cfg, rules)
    | _, _ => none
  | _ => none

def showInsn (i : Insn) : String := s!"{i.op}.{i.dst}.{i.src}.{i.off}.{i.imm}"
def showProgs (ps : List (List Insn)) : String :=
  "|".intercalate (ps.map (fun p => ",".intercalate (p.map showInsn)))

def parseInsn (s : String) : Option Insn :=
  match s.splitOn "." with
  | [a, b, c, d, e] => do
    let a ← a.toNat?
    let b ← b.toNat?
    let c ← c.toNat?
    let d ← d.toInt?
    let e ← e.toInt?
    some ⟨a, b, c, d, e⟩
  | _ => none

def parseProgs (s : String) : Option (List (List Insn)) :=
  (s.splitOn "|").mapM (fun p => if p == "" then some [] else (p.splitOn ",").mapM parseInsn)

/-- 16 bytes big-endian of a 128-bit number. -/
def be16 (a : Nat) : List Byte := (toLE a 16).reverse

/-- Address words (as loaded little-endian) of `n` bytes big-endian of `a`. -/
def addrWords (a : Nat) (nbytes : Nat) : List (BitVec 32) :=
  let bs := (toLE a nbytes).reverse
  (List.range (nbytes / 4)).map (fun j => BitVec.ofNat 32 (leNat ((bs.drop (4 * j)).take 4)))

def parseMembers (v6 : Bool) (s : String) : Option (List (Nat × List (BitVec 32) × Nat × Nat)) :=
  if s == "-" then some [] else
  (s.splitOn ",").mapM (fun t =>
    match t.splitOn ":" with
    | [id, a, p, pr] => do
      let id ← id.toNat?
      let a ← a.toNat?
      let p ← p.toNat?
      let pr ← pr.toNat?
      some (id, addrWords a (if v6 then 16 else 4), p, pr)
    | _ => none)

def mkState (src pre post sport dport pdp qdp proto flags rc hits : Nat) : List Byte :=
  let z : List Byte := List.replicate 512 0
  let z := writeAt z 8 (be16 src)
  let z := writeAt z 40 (be16 pre)
  let z := writeAt z 56 (be16 post)
  let z := writeAt z 92 (toLE rc 4)
  let z := writeAt z 96 (toLE sport 2)
  let z := writeAt z 98 (toLE dport 2)
  let z := writeAt z 100 (toLE pdp 2)
  let z := writeAt z 102 (toLE qdp 2)
  let z := writeAt z 104 (toLE proto 1)
  let z := writeAt z 108 (toLE hits 1)
  writeAt z 368 (toLE flags 8)

def showVerdict : Verdict → String
  | .allow => "allow" | .deny => "deny" | .xdpPass => "xdp_pass"

def obsOf (o : Outcome) : Option (Obs × List Byte) :=
  match o with
  | .exit r0 m => some (⟨"exit", r0.toNat, (getBytes m.st 92 4).map leNat⟩, m.st)
  | .tail _ idx m => some (⟨"tail", idx.toNat, (getBytes m.st 92 4).map leNat⟩, m.st)
  | .fault => none

def showPkt (s : DState) (ws : List String) : String :=
  match ws with
  | [src, pre, post, sport, dport, pdp, qdp, proto, flags, rc, hits, cb0, cb1, envs, mem] =>
    match [src, pre, post, sport, dport, pdp, qdp, proto, flags, rc, hits, cb0, cb1].mapM String.toNat?,
          parseMembers s.cfg.v6 mem, s.progs with
    | some [src, pre, post, sport, dport, pdp, qdp, proto, flags, rc, hits, cb0, cb1], some members, some progs =>
      let fl := envs.toList
      let env : Env := {
        c := s.cfg, stateOK := fl.getD 0 '1' == '1', tailOK := fl.getD 1 '1' == '1', polTailOK := fl.getD 2 '1' == '1',
        member := fun id a p pr => members.any (fun (i, a', p', pr') => i == id && a' == a && p' == p.toNat && pr' == pr.toNat),
        cb0 := BitVec.ofNat 32 cb0, cb1 := BitVec.ofNat 32 cb1 }
      let st := mkState src pre post sport dport pdp qdp proto flags rc hits
      let out := runChain env progs 0 st
      let refv := (pktOf st).map (verdict env s.rules)
      let refS := match refv with | some v => showVerdict v | none => "?"
      match obsOf out with
      | none => s!"fault ref={refS} exp=BAD"
      | some (o, st') =>
        let flagsOut := ((getBytes st' 368 8).map leNat).getD 0
        let nh := ((getBytes st' 108 1).map leNat).getD 0
        let ids := (List.range (min nh 32)).map (fun j => ((getBytes st' (112 + 8 * j) 8).map leNat).getD 0)
        let idS := ",".intercalate (ids.map toString)
        let rcS := match o.rc with | some r => toString r | none => "?"
        let ok : Bool :=
          if !env.stateOK then o.kind == "exit" && o.target == (if s.rules.forXDP then 1 else 2)
          else match refv with
            | some v =>
              let e := expectedObs env s.rules.forXDP v
              (o.kind == e.kind && o.target == e.target && (e.rc.isNone || e.rc == o.rc)) ||
              -- a failing tail call into the NEXT sub-program of a split build drops the packet
              (!env.polTailOK && progs.length > 1 && o.kind == "exit" && o.target == (if s.rules.forXDP then 1 else 2))
            | none => false
        s!"{o.kind} {o.target} rc={rcS} fl={flagsOut} h={nh}:{idS} ref={refS} exp={if ok then "ok" else "BAD"}"
    | _, _, _ => "bad-op"
  | _ => "bad-op"

def step (s : DState) (line : String) : DState × String :=
  match words line with
  | "prog" :: rest =>
    match parseProg rest with
    | none => (s, "bad-op")
    | some (cfg, rules) =>
      match instructions cfg rules with
      | none => ({ cfg := cfg, rules := rules, progs := none }, "panic")
      | some none => ({ cfg := cfg, rules := rules, progs := none }, "err")
      | some (some ps) => ({ cfg := cfg, rules := rules, progs := some ps }, "ok " ++ showProgs ps)
  | ["real", txt] =>
    match parseProgs txt with
    | some ps => ({ s with progs := some ps }, s!"ok {ps.length}")
    | none => (s, "bad-op")
  | "pkt" :: rest => (s, showPkt s rest)
  | _ => (s, "bad-op")

def main : IO Unit := run step {}
