import CalicoVerif.Util.Proto
import CalicoVerif.Model.C15
/-! Driver for C15.  Spaces inside rule text are written `^` on op lines; rule lists are separated by `|`.
  `new <insert|append>` | `restart <insert|append>`
  `kchain <name> <krules>`   krule = `h;<hash>;<spec>` | `o;<spec>` | `f;<spec>`   (`-` = empty list)
  `kdelchain <name>`
  `chain <name> <force01> <toks> <drules>`   drule = `<hash>;<ref|->;<spec>` (toks: vocabulary tokens for the harness, ignored here)
  `rmchain <name>` | `ins <kchain> <toks> <drules>` | `app <kchain> <toks> <drules>` | `invalidate` | `state`
  `apply s=<0|1,..> r=<0|1,..> pre=<chain>@<idx>`
-/
open CalicoVerif CalicoVerif.C15 CalicoVerif.Proto

def prefixes : List String :=
  ["cali-", "califw-", "calitw-", "califh-", "calith-", "calipi-", "calipo-", "felix-"]

def unesc (s : String) : String := s.map (fun c => if c == '^' then ' ' else c)

def splitList (sep : String) (s : String) : List String :=
  if s == "-" || s == "" then [] else (s.splitOn sep).filter (fun x => !x.isEmpty)

def parseK (s : String) : Option KRule :=
  match s.splitOn ";" with
  | ["h", h, spec] => some (.felix h (unesc spec))
  | ["o", spec] => some (.old (unesc spec))
  | ["f", spec] => some (.foreign (unesc spec))
  | _ => none

def parseD (s : String) : Option DRule :=
  match s.splitOn ";" with
  | [h, r, spec] => some ⟨h, unesc spec, if r == "-" then none else some r⟩
  | _ => none

def b01 (b : Bool) : String := if b then "1" else "0"
def sortMap {α : Type} (m : Map α) : Map α := m.mergeSort (fun a b => a.1 ≤ b.1)
def showMap {α : Type} (f : α → String) (m : Map α) : String :=
  "{" ++ ";".intercalate ((sortMap m).map (fun p => p.1 ++ "=" ++ f p.2)) ++ "}"
def showNames (l : List String) : String := "{" ++ ",".intercalate (sortS l) ++ "}"
def esc (s : String) : String := s.map (fun c => if c == ' ' then '^' else c)

def showState (w : W) : String :=
  let t := w.t
  "K" ++ showMap (fun (rs : List KRule) => "[" ++ "|".intercalate (rs.map (fun r => esc r.text)) ++ "]") w.K ++
  " H" ++ showMap (fun (hs : List String) => "[" ++ ",".intercalate (hs.map esc) ++ "]") t.dpHashes ++
  " F" ++ showMap (fun (fs : List FR) => "[" ++ "|".intercalate (fs.map (fun f => esc f.text)) ++ "]") t.fullRules ++
  " R" ++ showMap (fun (n : Int) => toString n) t.refc ++
  " C" ++ showNames t.chains.keys ++
  " Y" ++ showNames t.dirty ++ " Z" ++ showNames t.dirtyIA ++ s!" s{b01 t.inSync} S{w.sleeps}"

def parseKV (pfx : String) (ws : List String) : String :=
  match ws.find? (·.startsWith pfx) with
  | some w => (w.drop pfx.length).toString
  | none => ""

def parseOp (ws : List String) : Option Op :=
  match ws with
  | ["restart", m] => some (Op.restart (m == "insert"))
  | ["kchain", n, rs] => ((splitList "|" rs).mapM parseK).map (Op.kchain n)
  | ["kdelchain", n] => some (Op.kdelchain n)
  | ["chain", n, f, _toks, rs] => ((splitList "|" rs).mapM parseD).map (fun rs => Op.chain n ⟨rs, f == "1"⟩)
  | ["rmchain", n] => some (Op.rmchain n)
  | ["ins", c, _toks, rs] => ((splitList "|" rs).mapM parseD).map (Op.ins c)
  | ["app", c, _toks, rs] => ((splitList "|" rs).mapM parseD).map (Op.app c)
  | ["invalidate"] => some Op.invalidate
  | "apply" :: rest =>
    let sf := (splitList "," (parseKV "s=" rest)).map (· == "1")
    let rf := (splitList "," (parseKV "r=" rest)).map (· == "1")
    let pre := match (parseKV "pre=" rest).splitOn "@" with
      | [c, i] => i.toNat?.map (fun i => (c, i))
      | _ => none
    some (Op.apply sf rf pre)
  | _ => none

def step (w : W) (line : String) : W × String :=
  let ws := words line
  match ws with
  | ["new", m] => ({ t := T.new prefixes (m == "insert"), K := kernelChains.map (fun c => (c, [])) }, "ok")
  | _ =>
  if w.dead then (w, "dead") else
  match ws with
  | ["state"] => (w, showState w)
  | _ =>
    match parseOp ws with
    | none => (w, "bad-op")
    | some op =>
      match w.stepOp op with
      | (w, none) => (w, "ok")
      | (w, some false) => (w, "panic")
      | (w, some true) => (w, "ok T=" ++ " ".intercalate (w.trace.reverse.map esc) ++ " " ++ showState w)

def main : IO Unit := run step { t := T.new prefixes true, K := [] }
