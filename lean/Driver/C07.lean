import CalicoVerif.Util.Proto
import CalicoVerif.Model.C07
/-! Driver for C07.  Strings hex-encoded (`-` = empty string / empty list / empty map).  Ops:
  `new`                                   → `ok`      (reset)
  `item <id> <k:v,..> <p,p,..>`           → events    UpdateLabels
  `delitem <id>`                          → events    DeleteLabels
  `parent <pid> <k:v,..>`                 → events    UpdateParentLabels
  `delparent <pid>`                       → events    DeleteParentLabels
  `sel <id> <selector>`                   → events | `err`   UpdateSelector
  `delsel <id>`                           → events    DeleteSelector
  `restr <selector>`                      → the selector's LabelRestrictions, canonical
  `radd <id> <selector>` / `rdel <id>`    → `ok`      LabelRestrictionIndex.AddSelector / DeleteSelector
  `cand <k:v,..>`                         → sorted candidate selector ids
events = sorted `+sel:item` / `-sel:item`, comma separated, `-` if none.
-/
open CalicoVerif CalicoVerif.C06 CalicoVerif.C07 CalicoVerif.Proto

def hexVal (c : Char) : Option Nat :=
  if '0' ≤ c ∧ c ≤ '9' then some (c.toNat - 48)
  else if 'a' ≤ c ∧ c ≤ 'f' then some (c.toNat - 87)
  else none

def unhexList : List Char → Option Str
  | [] => some []
  | a :: b :: rest => do
    let x ← hexVal a
    let y ← hexVal b
    let r ← unhexList rest
    pure (Char.ofNat (16 * x + y) :: r)
  | _ => none

def unhex (s : String) : Option Str :=
  if s = "-" then some [] else unhexList s.toList

def hexDigit (n : Nat) : Char :=
  if n < 10 then Char.ofNat (48 + n) else Char.ofNat (87 + n)

def hexRaw (s : Str) : String :=
  String.ofList (s.flatMap (fun c => [hexDigit (c.toNat / 16 % 16), hexDigit (c.toNat % 16)]))

def parseKV (s : String) : Option (Str × Str) :=
  match s.splitOn ":" with
  | [k, v] => do
    let k ← unhex k
    let v ← unhex v
    pure (k, v)
  | _ => none

def parseMap (s : String) : Option (List (Str × Str)) :=
  if s = "-" then some [] else (s.splitOn ",").mapM parseKV

def parseList (s : String) : Option (List Str) :=
  if s = "-" then some [] else (s.splitOn ",").mapM unhex

/-- insertion sort of strings (output canonicalisation only). -/
def insertStr (x : String) : List String → List String
  | [] => [x]
  | y :: ys => if x < y then x :: y :: ys else y :: insertStr x ys

def sortStrings (l : List String) : List String := l.foldr insertStr []

def dedupStrings : List String → List String
  | [] => []
  | [x] => [x]
  | x :: y :: rest => if x = y then dedupStrings (y :: rest) else x :: dedupStrings (y :: rest)

def pad (n : Nat) : String :=
  let s := toString n
  String.ofList (List.replicate (6 - s.length) '0') ++ s

def showEvent : Event → String
  | .started s i => s!"{pad s}:{pad i}+"
  | .stopped s i => s!"{pad s}:{pad i}-"

def showEvents (ev : List Event) : String :=
  if ev.isEmpty then "-" else joinWith "," (sortStrings (ev.map showEvent))

def showRestriction (lr : Str × Restriction) : String :=
  let r := lr.2
  let vals := match r.values with
    | none => "nil"
    | some vs => "[" ++ joinWith ";" (dedupStrings (sortStrings (vs.map hexRaw))) ++ "]"
  s!"{hexRaw lr.1}={showBool r.mustBePresent}{showBool r.mustBeAbsent}{vals}"

def showRestrictions (lrs : Restrictions) : String :=
  if lrs.isEmpty then "-" else joinWith "," (sortStrings (lrs.map showRestriction))

structure St where
  idx : Idx := {}
  ridx : RIdxS := {}

def withSel (h : String) (f : Node → St × String) (st : St) : St × String :=
  match unhex h with
  | none => (st, "bad-op")
  | some s => match parse s with
    | .ok n => f n
    | .error _ => (st, "err")

def step (st : St) (line : String) : St × String :=
  let ev (r : Idx × List Event) : St × String := ({ st with idx := r.1 }, showEvents r.2)
  match words line with
  | ["new"] => ({}, "ok")
  | ["item", id, m, ps] =>
    match id.toNat?, parseMap m, parseList ps with
    | some id, some m, some ps => ev (updateLabels st.idx id m ps)
    | _, _, _ => (st, "bad-op")
  | ["delitem", id] =>
    match id.toNat? with
    | some id => ev (deleteLabels st.idx id)
    | none => (st, "bad-op")
  | ["parent", p, m] =>
    match unhex p, parseMap m with
    | some p, some m => ev (updateParentLabels st.idx p m)
    | _, _ => (st, "bad-op")
  | ["delparent", p] =>
    match unhex p with
    | some p => ev (deleteParentLabels st.idx p)
    | none => (st, "bad-op")
  | ["sel", id, h] =>
    match id.toNat? with
    | some id => withSel h (fun n => ev (updateSelector st.idx id n)) st
    | none => (st, "bad-op")
  | ["delsel", id] =>
    match id.toNat? with
    | some id => ev (deleteSelector st.idx id)
    | none => (st, "bad-op")
  | ["restr", h] => withSel h (fun n => (st, showRestrictions (restrictions n))) st
  | ["radd", id, h] =>
    match id.toNat? with
    | some id => withSel h (fun n => ({ st with ridx := st.ridx.addSelector id n }, "ok")) st
    | none => (st, "bad-op")
  | ["rdel", id] =>
    match id.toNat? with
    | some id => ({ st with ridx := st.ridx.deleteSelector id }, "ok")
    | none => (st, "bad-op")
  | ["cand", m] =>
    match parseMap m with
    | some m =>
      let ids := dedupStrings (sortStrings ((st.ridx.potentialMatches m).map pad))
      (st, if ids.isEmpty then "-" else joinWith "," ids)
    | none => (st, "bad-op")
  | _ => (st, "bad-op")

def main : IO Unit := run step {}
