import CalicoVerif.Util.Proto
import CalicoVerif.Model.C37
import CalicoVerif.Model.C37Ident
import CalicoVerif.Gen.C37
/-! Driver for C37 (byte strings are `x<hex>` tokens):
  `new`                                   -> `ok`   (clears the hash table)
  `h <xbytes> <xhash>`                    -> `ok`   (one point of base64url(sha256(·)))
  `gll <xprefix> <xsuffix> <max>`         -> `<xname>` | `panic` | `nohash`
  `pol <in|out> <xid> <nft 0|1> …`        -> same (prefix and limits from Gen/C37.lean; extra tokens ignored)
  `prof <in|out> <xname> <nft 0|1>`       -> same
  `ep <tw|fw|sm|th|fh|thfw|fhfw|arp> <xiface> <max>` -> same
  `grp <in|out> <xuid> …`                 -> `<xname>`
  `ipset <4|6> <xnameprefix> <xid>`       -> `<xname>`
  `h3 <xbytes> <xhash>`                   -> `ok`   (one point of base64url(sha3-224(·)))
  `pid <xkind> <xns> <xname>`             -> `<x PolicyID.ID()> <x PolicyID.String()>`
  `pol2 <in|out> <nft 0|1> <xkind> <xns> <xname>` -> policy chain name, ID() computed by the model
  `tempset <4|6> <xnameprefix> <n>`       -> `<xname>`  (NameForTempIPSet)
  `grp2 <in|out> <xselector> (<xkind> <xns> <xname>)*` -> group chain name, pre-hash string computed by the model
-/
open CalicoVerif CalicoVerif.C37 CalicoVerif.Proto

abbrev Table := List (Str × Str)

def hexVal (c : Char) : Option Nat :=
  if '0' ≤ c ∧ c ≤ '9' then some (c.toNat - '0'.toNat)
  else if 'a' ≤ c ∧ c ≤ 'f' then some (c.toNat - 'a'.toNat + 10)
  else none

def parseHexList : List Char → Option (List Nat)
  | [] => some []
  | [_] => none
  | a :: b :: rest => do
    let x ← hexVal a
    let y ← hexVal b
    let r ← parseHexList rest
    pure ((x * 16 + y) :: r)

def parseX (s : String) : Option (List Nat) :=
  match s.toList with
  | 'x' :: rest => parseHexList rest
  | _ => none

def hexDigit (n : Nat) : Char :=
  if n < 10 then Char.ofNat (n + '0'.toNat) else Char.ofNat (n - 10 + 'a'.toNat)

def showX (bs : List Nat) : String :=
  "x" ++ String.ofList (bs.flatMap (fun b => [hexDigit (b / 16), hexDigit (b % 16)]))

def tlookup (t : Table) (b : Str) : Option Str :=
  match t with
  | [] => none
  | (k, v) :: rest => if k = b then some v else tlookup rest b

def hashOf (t : Table) : Str → Str := fun b => (tlookup t b).getD []

/-- Run `GetLengthLimitedID` on the table-backed hash; `nohash` if the model
needs a hash value the harness did not supply. -/
def runGLL (t : Table) (p s : Str) (m : Int) : String :=
  let eff := if s.length = 0 then [us] else s
  if shortens p s m && (tlookup t eff).isNone then "nohash"
  else match getLengthLimitedID (hashOf t) p s m with
    | some n => showX n
    | none => "panic"

def epPrefix : String → Option Str
  | "tw" => some Gen.pfx_WorkloadToEndpointPfx
  | "fw" => some Gen.pfx_WorkloadFromEndpointPfx
  | "sm" => some Gen.pfx_SetEndPointMarkPfx
  | "th" => some Gen.pfx_HostToEndpointPfx
  | "fh" => some Gen.pfx_HostFromEndpointPfx
  | "thfw" => some Gen.pfx_HostToEndpointForwardPfx
  | "fhfw" => some Gen.pfx_HostFromEndpointForwardPfx
  | "arp" => some Gen.pfx_WorkloadARPPfx
  | _ => none

def maxFor (nft : String) : Option Int :=
  if nft = "1" then some Gen.maxChainNameLengthNftables
  else if nft = "0" then some Gen.maxChainNameLengthIptables else none

def parsePols : List String → Option (List PolicyID)
  | [] => some []
  | k :: ns :: n :: rest => do
    let k ← parseX k
    let ns ← parseX ns
    let n ← parseX n
    let r ← parsePols rest
    pure ({ name := n, namespace_ := ns, kind := k } :: r)
  | _ => none

/-- Ops on the identity strings; `t3` is the table of base64url(sha3-224(·)). -/
def stepIdent (t t3 : Table) (ws : List String) : Option String :=
  match ws with
  | ["pid", k, ns, n] =>
    match parseX k, parseX ns, parseX n with
    | some k, some ns, some n =>
      let p : PolicyID := { name := n, namespace_ := ns, kind := k }
      some (showX p.id ++ " " ++ showX p.string)
    | _, _, _ => some "bad-op"
  | ["pol2", dir, nft, k, ns, n] =>
    match (if dir = "in" then some Gen.pfx_PolicyInboundPfx else if dir = "out" then some Gen.pfx_PolicyOutboundPfx else none),
        maxFor nft, parseX k, parseX ns, parseX n with
    | some p, some m, some k, some ns, some n =>
      some (runGLL t p ({ name := n, namespace_ := ns, kind := k } : PolicyID).id m)
    | _, _, _, _, _ => some "bad-op"
  | ["tempset", fam, np, n] =>
    match (if fam = "4" then some false else if fam = "6" then some true else none), parseX np, n.toNat? with
    | some v6, some np, some n => some (showX (nameForTempIPSet np v6 Gen.tempIpsetToken n))
    | _, _, _ => some "bad-op"
  | "grp2" :: dir :: sel :: pols =>
    match (if dir = "in" then some false else if dir = "out" then some true else none), parseX sel, parsePols pols with
    | some ob, some sel, some ps =>
      let g : Group := { outbound := ob, selector := sel, policies := ps }
      if (tlookup t3 g.preHash).isNone then some "nohash"
      else some (showX (g.chainName (hashOf t3)))
    | _, _, _ => some "bad-op"
  | _ => none

structure St where
  t : Table
  t3 : Table

def step0 (t : Table) (line : String) : Table × String :=
  match words line with
  | ["new"] => ([], "ok")
  | ["h", a, b] =>
    match parseX a, parseX b with
    | some k, some v => ((k, v) :: t, "ok")
    | _, _ => (t, "bad-op")
  | ["gll", p, s, m] =>
    match parseX p, parseX s, m.toInt? with
    | some p, some s, some m => (t, runGLL t p s m)
    | _, _, _ => (t, "bad-op")
  | "pol" :: dir :: id :: nft :: _ =>
    match (if dir = "in" then some Gen.pfx_PolicyInboundPfx else if dir = "out" then some Gen.pfx_PolicyOutboundPfx else none),
        parseX id, maxFor nft with
    | some p, some id, some m => (t, runGLL t p id m)
    | _, _, _ => (t, "bad-op")
  | ["prof", dir, name, nft] =>
    match (if dir = "in" then some Gen.pfx_ProfileInboundPfx else if dir = "out" then some Gen.pfx_ProfileOutboundPfx else none),
        parseX name, maxFor nft with
    | some p, some name, some m => (t, runGLL t p name m)
    | _, _, _ => (t, "bad-op")
  | ["ep", kind, iface, m] =>
    match epPrefix kind, parseX iface, m.toInt? with
    | some p, some iface, some m => (t, runGLL t p iface m)
    | _, _, _ => (t, "bad-op")
  | "grp" :: dir :: uid :: _ =>
    match (if dir = "in" then some Gen.pfx_PolicyGroupInboundPrefix else if dir = "out" then some Gen.pfx_PolicyGroupOutboundPrefix else none),
        parseX uid with
    | some p, some uid => (t, showX (groupChainName p uid))
    | _, _ => (t, "bad-op")
  | ["ipset", fam, np, id] =>
    match (if fam = "4" then some false else if fam = "6" then some true else none), parseX np, parseX id with
    | some v6, some np, some id =>
      (t, showX (nameForMainIPSet np v6 Gen.mainIpsetToken Gen.maxIPSetNameLength id))
    | _, _, _ => (t, "bad-op")
  | _ => (t, "bad-op")

def step (s : St) (line : String) : St × String :=
  match words line with
  | ["new"] => ({ t := [], t3 := [] }, "ok")
  | ["h3", a, b] =>
    match parseX a, parseX b with
    | some k, some v => ({ s with t3 := (k, v) :: s.t3 }, "ok")
    | _, _ => (s, "bad-op")
  | ws =>
    match stepIdent s.t s.t3 ws with
    | some out => (s, out)
    | none => let (t', out) := step0 s.t line; ({ s with t := t' }, out)

def main : IO Unit := run step { t := [], t3 := [] }
