import CalicoVerif.Util.Proto
import CalicoVerif.Model.C29V1
/-! Driver for C29.  Ops (tokens never contain spaces):

  `np <ns> <sel> <types> <rules-ingress> <rules-egress>`   → rendering of the converted policy
  `ns <name> <labels>`                                      → ok
  `pod <id> <ns> <labels> <sa|~> <ip> <ports>`              → ok
  `oth <id> <labels> <ip>`                                  → ok
  `conn <in|out> <party> <party> <proto> <dport>`           → `<calico verdict> <k8s verdict> <calico verdict via the v1 selector TEXT and the C06 parser>`
  `v1`                                                      → the v1 (updateprocessors) selectors of the converted policy
  `simp <ports>`                                            → SimplifyPorts output

  sel    := `~` | <ml>;<me>          ml := `_` | k=v,k=v      me := `_` | key:op:vals,…   vals := `_` | v+v
  types  := `_` | t,t
  rules  := `_` | rule|rule          rule := peers@ports
  peers  := `_` | peer&peer          peer := P<sel>^<sel> | I<cidr>!<cidr>!…
  ports  := `_` | port&port          port := proto/pv/end   proto := `~`|str  pv := `~`|i<int>|s<str>  end := `~`|<int>
  cidr   := 4-<addr>-<len> | 6-<addr>-<len>        ip := 4-<addr> | 6-<addr>
  party  := e:<id> | x:<ip>
  simp ports := `_` | p,p   p := <min>:<max> | n<name>
-/
open CalicoVerif CalicoVerif.C29 CalicoVerif.Proto

def splitL (sep : String) (s : String) : List String :=
  if s = "_" then [] else s.splitOn sep

def allSome {α : Type} : List (Option α) → Option (List α)
  | [] => some []
  | none :: _ => none
  | some a :: rest => (allSome rest).map (a :: ·)

def parseKV (s : String) : Option (String × String) :=
  match s.splitOn "=" with
  | [k, v] => some (k, v)
  | _ => none

def parseLabels (s : String) : Option Labels := allSome ((splitL "," s).map parseKV)

def parseOp (s : String) : SelOp :=
  if s = "In" then .opIn else if s = "NotIn" then .opNotIn else if s = "Exists" then .opExists
  else if s = "DoesNotExist" then .opDoesNotExist else .opOther

def parseExpr (s : String) : Option Expr :=
  match s.splitOn ":" with
  | [k, op, vals] => some { key := k, op := parseOp op, values := splitL "+" vals }
  | _ => none

def parseSel (s : String) : Option (Option LSel) :=
  if s = "~" then some none
  else match s.splitOn ";" with
    | [ml, me] =>
      match parseLabels ml, allSome ((splitL "," me).map parseExpr) with
      | some ml, some me => some (some { ml := ml, me := me })
      | _, _ => none
    | _ => none

def parseCidr (s : String) : Option Cidr :=
  match s.splitOn "-" with
  | [f, a, l] =>
    match a.toNat?, l.toNat? with
    | some a, some l =>
      if f = "4" then some { v6 := false, addr := a, len := l }
      else if f = "6" then some { v6 := true, addr := a, len := l } else none
    | _, _ => none
  | _ => none

def parseIP (s : String) : Option IP :=
  match s.splitOn "-" with
  | [f, a] =>
    match a.toNat? with
    | some a =>
      if f = "4" then some { v6 := false, addr := a }
      else if f = "6" then some { v6 := true, addr := a } else none
    | none => none
  | _ => none

def parsePeer (s : String) : Option Peer :=
  if s.startsWith "P" then
    match ((s.drop 1).toString).splitOn "^" with
    | [a, b] =>
      match parseSel a, parseSel b with
      | some a, some b => some { podSel := a, nsSel := b, ipBlock := none }
      | _, _ => none
    | _ => none
  else if s.startsWith "I" then
    match allSome ((((s.drop 1).toString).splitOn "!").map parseCidr) with
    | some (c :: ex) => some { podSel := none, nsSel := none, ipBlock := some { cidr := c, excepts := ex } }
    | _ => none
  else none

def parsePort (s : String) : Option KPort :=
  match s.splitOn "/" with
  | [pr, pv, en] =>
    let proto : Option String := if pr = "~" then none else if pr = "EMPTY" then some "" else some pr
    let port : Option (Option PortVal) :=
      if pv = "~" then some none
      else if pv.startsWith "i" then ((pv.drop 1).toString.toInt?).map (fun n => some (PortVal.int n))
      else if pv.startsWith "s" then some (some (PortVal.str (pv.drop 1).toString))
      else none
    let endp : Option (Option Int) :=
      if en = "~" then some none else (en.toInt?).map some
    match port, endp with
    | some port, some endp => some { proto := proto, port := port, endPort := endp }
    | _, _ => none
  | _ => none

def parseRule (s : String) : Option KRule :=
  match s.splitOn "@" with
  | [pe, po] =>
    match allSome ((splitL "&" pe).map parsePeer), allSome ((splitL "&" po).map parsePort) with
    | some pe, some po => some { peers := pe, ports := po }
    | _, _ => none
  | _ => none

def parseRules (s : String) : Option (List KRule) := allSome ((splitL "|" s).map parseRule)

def parsePodPort (s : String) : Option (String × Nat × Nat) :=
  match s.splitOn ":" with
  | [n, pr, po] =>
    match pr.toNat?, po.toNat? with
    | some pr, some po => some (n, pr, po)
    | _, _ => none
  | _ => none

def parseSimpPort (s : String) : Option CPort :=
  if s.startsWith "n" then some { min := 0, max := 0, name := (s.drop 1).toString }
  else match s.splitOn ":" with
    | [a, b] =>
      match a.toNat?, b.toNat? with
      | some a, some b => some { min := a, max := b, name := "" }
      | _, _ => none
    | _ => none

structure St where
  np : Option NP := none
  cluster : Cluster := []
  eps : List (String × Party) := []

def parseParty (st : St) (s : String) : Option Party :=
  if s.startsWith "e:" then List.lookup (s.drop 2).toString st.eps
  else if s.startsWith "x:" then (parseIP (s.drop 2).toString).map fun ip => { ip := ip, ep := .none }
  else none

def step (st : St) (line : String) : St × String :=
  let w := words line
  -- like the harness: before the first `np` of a case only `np` and `simp` are meaningful
  if st.np.isNone && w.head? != some "np" && w.head? != some "simp" then (st, "bad-op") else
  match w with
  | ["np", ns, sel, types, ing, eg] =>
    match parseSel sel, parseRules ing, parseRules eg with
    | some (some sel), some ing, some eg =>
      let np : NP := { ns := ns, podSel := sel, ingress := ing, egress := eg, types := splitL "," types }
      ({ np := some np }, (convert np).render)
    | _, _, _ => (st, "bad-op")
  | ["ns", name, labels] =>
    match parseLabels labels with
    | some l => ({ st with cluster := (name, l) :: st.cluster }, "ok")
    | none => (st, "bad-op")
  | ["pod", id, ns, labels, sa, ip, ports] =>
    match parseLabels labels, parseIP ip, allSome ((splitL "," ports).map parsePodPort) with
    | some l, some ip, some ports =>
      let p : Pod := { ns := ns, labels := l, sa := if sa = "~" then "" else sa, ports := ports }
      ({ st with eps := (id, { ip := ip, ep := .pod p }) :: st.eps }, "ok")
    | _, _, _ => (st, "bad-op")
  | ["oth", id, labels, ip] =>
    match parseLabels labels, parseIP ip with
    | some l, some ip => ({ st with eps := (id, { ip := ip, ep := .other l }) :: st.eps }, "ok")
    | _, _ => (st, "bad-op")
  | ["conn", d, a, b, pr, po] =>
    let dir : Option Dir := if d = "in" then some .ingress else if d = "out" then some .egress else none
    match st.np, dir, parseParty st a, parseParty st b, pr.toNat?, po.toNat? with
    | some np, some dir, some a, some b, some pr, some po =>
      let conn : Conn := { src := a, dst := b, proto := pr, dport := po }
      let cv := calicoVerdict st.cluster (convert np).pol dir conn
      let kv := k8sVerdict st.cluster np dir conn
      let cv1 := calicoVerdictV1 st.cluster (convert np).pol dir conn
      (st, cv.render ++ " " ++ kv.render ++ " " ++ cv1.render)
    | _, _, _, _, _, _ => (st, "bad-op")
  | ["v1"] =>
    match st.np with
    | some np => (st, (convert np).pol.renderV1)
    | none => (st, "bad-op")
  | ["simp", ports] =>
    match allSome ((splitL "," ports).map parseSimpPort) with
    | some ps => (st, ",".intercalate ((simplifyPorts ps).map CPort.render))
    | none => (st, "bad-op")
  | _ => (st, "bad-op")

def main : IO Unit := run step {}
