import CalicoVerif.Util.Proto
import CalicoVerif.Model.C28
import CalicoVerif.Gen.C28
/-! Driver for C28 (stateless except for the `dnew`/`dset` history ops:
  `dnew <felix> <bgp|nil> <classes e.g. iivn>` starts Felix with these pools and confd with that BGPConfiguration;
  `dset <pool> <i|v|n>` changes a pool's class; `bset <setting>` / `bdel` = syncer events for BGPConfiguration default;
  `fset <setting>` = Felix restarts with a new setting; `dsub <0|1>` = node's network_v4 key absent/present). Settings: `-` absent, `nil` no BGPConfiguration, `e` empty string, else hex.
  `felix <setting>`                         → `ipip noencap <stored value>`
  `fenv <setting> <ipip 0|1> <vxlan 0|1> <noencap 0|1>` → `progIPIP progNoEncap noEncapNeeded ipipEnabled vxlanEnabled`
  `bgp <setting>`                           → `ipip noencap`
  `pool <bgp> <ipipMode> <vxlanMode> <4|6>` → `usesIPIP usesVXLAN programsPool accept|reject`
  `pair <felix> <bgp> <ipipMode> <vxlanMode>` → `felixPrograms birdPrograms`
-/
open CalicoVerif CalicoVerif.C28 CalicoVerif.Proto

def hexVal (c : Char) : Option Nat :=
  if '0' ≤ c ∧ c ≤ '9' then some (c.toNat - '0'.toNat)
  else if 'a' ≤ c ∧ c ≤ 'f' then some (c.toNat - 'a'.toNat + 10)
  else none

def unhexAux : List Char → Option (List Nat)
  | [] => some []
  | a :: b :: rest =>
    match hexVal a, hexVal b, unhexAux rest with
    | some x, some y, some r => some ((16 * x + y) :: r)
    | _, _, _ => none
  | _ => none

def hexDigit (n : Nat) : Char :=
  if n < 10 then Char.ofNat ('0'.toNat + n) else Char.ofNat ('a'.toNat + n - 10)

def enc (bs : List Nat) : String :=
  if bs.isEmpty then "e" else String.ofList (bs.flatMap (fun b => [hexDigit (b / 16), hexDigit (b % 16)]))

/-- outer none = unparsable token -/
def setting (allowNil : Bool) (s : String) : Option (Option Str) :=
  if s == "-" then some none
  else if s == "nil" then (if allowNil then some none else none)
  else if s == "e" then some (some [])
  else (unhexAux s.toList).map some

def modeOf : String → Option Mode
  | "never" => some .never
  | "always" => some .always
  | "cross" => some .crossSubnet
  | "other" => some .other
  | _ => none

def bit : String → Option Bool
  | "0" => some false
  | "1" => some true
  | _ => none

structure DState where
  fv : Option Str := none
  bv : Option Str := none
  dyn : Option Dyn := none
  bres : Option (Option Str) := none   -- confd's cached BGPConfiguration
  sub : Bool := true                   -- node's network_v4 known
  dis : List Bool := []                -- per pool: disabled flag (echoed only; ownership ignores it)

/-- lower case = enabled pool, upper case = DISABLED pool of that class -/
def specOf : Char → Option PoolSpec
  | 'i' => some ⟨.ipip, false⟩
  | 'v' => some ⟨.vxlan, false⟩
  | 'n' => some ⟨.noEncap, false⟩
  | 'I' => some ⟨.ipip, true⟩
  | 'V' => some ⟨.vxlan, true⟩
  | 'N' => some ⟨.noEncap, true⟩
  | _ => none

def classesOf (s : String) : Option (List PoolSpec) :=
  s.toList.foldr (fun c acc => match specOf c, acc with
    | some x, some l => some (x :: l)
    | _, _ => none) (some [])

def classChar (c : PoolClass) (disabled : Bool) : String :=
  match c, disabled with
  | .ipip, false => "i"
  | .vxlan, false => "v"
  | .noEncap, false => "n"
  | .ipip, true => "I"
  | .vxlan, true => "V"
  | .noEncap, true => "N"

/-- `flags=<ipipEnabled><vxlanEnabled><noEncapNeeded> p0=<class><felix remote block><felix local block><bird> …` -/
def showDyn (bres : Option (Option Str)) (sub : Bool) (dis : List Bool) (d : Dyn) : String :=
  let bv := confdSetting bres
  let fl := encapFlags d.env
  let pools := d.classes.zipIdx.map (fun x =>
    let bird := birdKernelV4 sub (bgpPolicy Gen.bgpTable bv) x.1.modes.1 x.1.modes.2
    s!"p{x.2}={classChar x.1 (dis.getD x.2 false)}{showBool (d.programs (2 * x.2))}{showBool (d.programs (2 * x.2 + 1))}{showBool bird}")
  s!"flags={showBool fl.1}{showBool fl.2.1}{showBool fl.2.2} " ++ joinWith " " pools

def dynStep (st : DState) (line : String) : Option (DState × String) :=
  match words line with
  | ["dnew", f, b0, cs] =>
    match setting false f, setting true b0, classesOf cs with
    | some f, some b, some cs =>
      let d := Dyn.startSpecs Gen.felixTable Gen.guards (felixValue Gen.felixTable f) cs
      let dis := cs.map (·.disabled)
      -- `nil` = no BGPConfiguration resource; anything else = a KVNew event carrying that setting
      let bres := if b0 == "nil" then none else confdRun none [.set b]
      some ({ fv := f, dyn := some d, bres := bres, sub := true, dis := dis }, showDyn bres true dis d)
    | _, _, _ => some (st, "bad-op")
  | ["bset", b] =>
    match st.dyn, setting false b with
    | some d, some b =>
      let bres := confdRun st.bres [.set b]
      some ({ st with bres := bres }, showDyn bres st.sub st.dis d)
    | _, _ => some (st, "bad-op")
  | ["bdel"] =>
    match st.dyn with
    | some d =>
      let bres := confdRun st.bres [.del]
      some ({ st with bres := bres }, showDyn bres st.sub st.dis d)
    | none => some (st, "bad-op")
  | ["fset", f] =>
    match st.dyn, setting false f with
    | some d, some f =>
      let d' := Dyn.start Gen.felixTable Gen.guards (felixValue Gen.felixTable f) d.classes
      some ({ st with fv := f, dyn := some d' }, "restart " ++ showDyn st.bres st.sub st.dis d')
    | _, _ => some (st, "bad-op")
  | ["dsub", x] =>
    match st.dyn, bit x with
    | some d, some x => some ({ st with sub := x }, showDyn st.bres x st.dis d)
    | _, _ => some (st, "bad-op")
  | ["dset", p, c] =>
    match st.dyn, p.toNat?, c.toList with
    | some d, some p, [ch] =>
      match specOf ch with
      | some c =>
        if p < d.classes.length then
          let r := Dyn.setSpec Gen.felixTable Gen.guards (felixValue Gen.felixTable st.fv) d p c
          let dis := st.dis.set p c.disabled
          some ({ st with dyn := some r.1, dis := dis }, (if r.2 then "restart " else "") ++ showDyn st.bres st.sub dis r.1)
        else some (st, "bad-op")
      | none => some (st, "bad-op")
    | _, _, _ => some (st, "bad-op")
  | _ => none

def step (st : DState) (line : String) : DState × String :=
  match dynStep st line with
  | some r => r
  | none =>
  (st, match words line with
  | ["felix", f] =>
    match setting false f with
    | some f =>
      let v := felixValue Gen.felixTable f
      s!"{showBool (felixIPIP Gen.felixTable v)} {showBool (felixNoEncap Gen.felixTable v)} {enc v}"
    | none => "bad-op"
  | ["fenv", f, i, v, n] =>
    match setting false f, bit i, bit v, bit n with
    | some f, some i, some v, some n =>
      let e := felixEnv Gen.felixTable (felixValue Gen.felixTable f) ⟨i, v, n⟩ false false false false
      s!"{showBool e.progIPIP} {showBool e.progNoEncap} {showBool e.noEncapNeeded} {showBool e.ipipEnabled} {showBool e.vxlanEnabled}"
    | _, _, _, _ => "bad-op"
  | ["bgp", b] =>
    match setting true b with
    | some b => let p := bgpPolicy Gen.bgpTable b; s!"{showBool p.ipip} {showBool p.noEncap}"
    | none => "bad-op"
  | ["pool", b, i, v, ver] =>
    match setting true b, modeOf i, modeOf v, (ver == "4" || ver == "6") with
    | some b, some i, some v, true =>
      let p := bgpPolicy Gen.bgpTable b
      s!"{showBool (modeOn i)} {showBool (modeOn v)} {showBool (programsPool p i v)} {if birdPrograms p i v then "accept" else "reject"}"
    | _, _, _, _ => "bad-op"
  | ["pair", f, b, i, v] =>
    match setting false f, setting true b, modeOf i, modeOf v with
    | some f, some b, some i, some v =>
      s!"{showBool (felixPrograms Gen.felixTable (felixValue Gen.felixTable f) i v)} {showBool (birdPrograms (bgpPolicy Gen.bgpTable b) i v)}"
    | _, _, _, _ => "bad-op"
  | _ => "bad-op")

def main : IO Unit := run step {}
