import CalicoVerif.Util.Proto
import CalicoVerif.Model.C38
/-! Driver for C38: the backend-call log of the real cmdAdd / cmdDel replayed through
`Cas.step`; at the end of every DEL the sequential program model `delSeq` is run from
the state the command started in (same visiting order, same fault positions) and must
reach the same store and the same verdict; every ADD verdict and rollback is compared
with `addDecision`. -/
open CalicoVerif CalicoVerif.Proto

def main : IO Unit := run C38.stepLine { cas := Cas.St.init 0 0, snap := Cas.St.init 0 0, imm := true }
