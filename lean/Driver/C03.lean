import CalicoVerif.Util.Proto
import CalicoVerif.Model.C03
/-! Driver for C03 (PolicySorter + PolicyResolver, output through C02's tierInfoToProto).

Tokens: `~` = empty / unset; lists comma separated, `-` = empty.  PolicyKey = `kind|ns|name`.
Ops (a trailing `x=…` token carries real-side-only data — labels, selectors — and is ignored here):
  `new` | `tier name order|~ action` | `tier-del name`
  | `pol key tier order|~ flags types [x=…]` (flags ⊆ "udf") | `pol-del key`
  | `ep w:id|h:id tag profiles [x=…]` | `ep-del w:id|h:id`
  | `match key ep` | `unmatch key ep` | `status wait|resync|insync` | `noop …` | `flush`
Output: `ok`, or for `flush` the OnEndpointTierUpdate calls sorted by endpoint:
  `ep tag profs T:<tiers> N:<proto> U:<proto> P:<proto> F:<proto>` or `ep nil`, joined by ` ; `
  followed by ` A:<policies with a match>` (compared with the real ARC's active set)
  (`skip` when not in sync, `panic` for the Sorted() panic).
-/
open CalicoVerif CalicoVerif.C02 CalicoVerif.C03 CalicoVerif.Proto

def tok (s : String) : String := if s == "~" then "" else s
def untok (s : String) : String := if s == "" then "~" else s
def csv (s : String) : List String := if s == "-" then [] else (s.splitOn ",").map tok
def uncsv (l : List String) : String := if l.isEmpty then "-" else ",".intercalate (l.map untok)

def parseKey (s : String) : Option PolicyKey :=
  match s.splitOn "|" with
  | [k, ns, n] => some ⟨tok n, tok ns, tok k⟩
  | _ => none
def showKey (k : PolicyKey) : String := s!"{untok k.kind}|{untok k.ns}|{untok k.name}"

def parseEpKey (s : String) : Option EpKey :=
  if s.startsWith "w:" then some (.wep (s.drop 2).toString)
  else if s.startsWith "h:" then some (.hep (s.drop 2).toString) else none
def showEpKey : EpKey → String
  | .wep id => "w:" ++ id
  | .hep id => "h:" ++ id

def parseOrder (s : String) : Option (Option Int) :=
  if s == "~" then some none else s.toInt?.map some
def showOrder : Option Int → String
  | none => "~"
  | some i => toString i

def showKeys (l : List PolicyKey) : String := if l.isEmpty then "-" else ",".intercalate (l.map showKey)
def showPT (t : ProtoTier) : String := s!"{untok t.name}={untok t.defaultAction}=in:{showKeys t.ingress}=out:{showKeys t.egress}"
def showPTs (l : List ProtoTier) : String := if l.isEmpty then "-" else "+".intercalate (l.map showPT)

def flagStr (m : PolMeta) : String :=
  (if m.doNotTrack then "u" else "") ++ (if m.preDNAT then "d" else "") ++ (if m.applyOnForward then "f" else "")
  ++ (if m.ingress then "i" else "") ++ (if m.egress then "e" else "")

def showPol (p : PolKV) : String := s!"{showKey p.key}:{showOrder p.val.order}:{flagStr p.val}:{untok p.val.tier}"
def showTier (t : TierInfo) : String :=
  let ps := if t.policies.isEmpty then "-" else ";".intercalate (t.policies.map showPol)
  s!"{untok t.name}={showOrder t.order}={untok t.defaultAction}={ps}"
def showTiers (l : List TierInfo) : String := if l.isEmpty then "-" else "+".intercalate (l.map showTier)

def showCall : Call → String × String
  | .endpointUpdate k none => (showEpKey k, s!"{showEpKey k} nil")
  | .endpointUpdate k (some u) =>
    let p := tierInfoToProto u.tiers
    (showEpKey k, s!"{showEpKey k} {untok u.ep.tag} {uncsv u.ep.profiles} T:{showTiers u.tiers} N:{showPTs p.normal} U:{showPTs p.untracked} P:{showPTs p.preDNAT} F:{showPTs p.forward}")
  | _ => ("", "?")

def showCalls (cs : List Call) : String :=
  let l := (cs.map showCall).mergeSort (fun a b => decide (a.1 ≤ b.1))
  if l.isEmpty then "none" else " ; ".intercalate (l.map (·.2))

def dropX (ws : List String) : List String := ws.filter (fun w => !w.startsWith "x=")

def parseEvent (ws : List String) : Option Event :=
  match ws with
  | ["tier", n, o, a] => (parseOrder o).map fun o => .tier n (some (o, tok a))
  | ["tier-del", n] => some (.tier n none)
  | ["pol", k, t, o, fl, ty] => do
      let k ← parseKey k
      let o ← parseOrder o
      pure (.policy k (some ⟨tok t, o, fl.contains 'u', fl.contains 'd', fl.contains 'f', csv ty⟩))
  | ["pol-del", k] => (parseKey k).map fun k => .policy k none
  | ["ep", k, tag, profs] => (parseEpKey k).map fun k => .endpoint k (some ⟨tok tag, csv profs⟩)
  | ["ep-del", k] => (parseEpKey k).map fun k => .endpoint k none
  | ["match", p, e] => do pure (.matchStarted (← parseKey p) (← parseEpKey e))
  | ["unmatch", p, e] => do pure (.matchStopped (← parseKey p) (← parseEpKey e))
  | ["status", "insync"] => some (.status true)
  | ["status", "wait"] => some (.status false)
  | ["status", "resync"] => some (.status false)
  | _ => none

def step (r : Resolver) (line : String) : Resolver × String :=
  match dropX (words line) with
  | ["new"] => ({}, "ok")
  | "noop" :: _ => (r, "ok")
  | ["flush"] =>
    if !r.inSync then (r, "skip") else
    match r.flush with
    | none => (r, "panic")
    | some (r', cs) =>
      -- A: the policies that have a match (what the ARC must declare active)
      let act := ((r.matched.map (fun x => showKey x.1)).eraseDups).mergeSort (fun a b => decide (a ≤ b))
      (r', showCalls cs ++ " A:" ++ (if act.isEmpty then "-" else ",".intercalate act))
  | ws =>
    match parseEvent ws with
    | none => (r, "bad-op")
    | some e => (r.step e, "ok")

def main : IO Unit := run step {}
