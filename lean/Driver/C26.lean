import CalicoVerif.Util.Proto
import CalicoVerif.Model.C26
/-! Driver for C26 (watcherCache / watcherSyncer): ops
  `new n procMode sendDeletes` | `call i tok…` | `stop i` | `dump i`
  tokens: `L:nf` `L:ex` `L:ot0` `L:ot1` `L:ok:<rev>:<kvs>` | `W:ex` `W:cr0` `W:cr1` `W:ns` `W:ot` |
          `F:<rev>:<kvs>` | `E:up:k.r.d` `E:del:k.r.d` `E:bm:<rev>` `E:ex` `E:ot` `E:un`   (kvs = k.r.d/k.r.d…)
-/
open CalicoVerif CalicoVerif.C26 CalicoVerif.Proto

structure DState where
  caches : List WC
  ws : WS

def parseKV (w : String) : Option KV :=
  match w.splitOn "." with
  | [k, r, d] => match k.toNat?, r.toNat?, d.toNat? with
    | some k, some r, some d => some { key := k, rev := r, del := d != 0 }
    | _, _, _ => none
  | _ => none

def parseKVs (w : String) : Option (List KV) :=
  if w.isEmpty then some []
  else (w.splitOn "/").foldr (fun x acc => match parseKV x, acc with
    | some kv, some l => some (kv :: l)
    | _, _ => none) (some [])

structure Script where
  lists : List ListOut := []
  watches : List WatchOut := []
  fin : Option (List KV × Nat) := none
  evs : List Ev := []

def parseTok (s : Script) (w : String) : Option Script :=
  match w.splitOn ":" with
  | ["L", "nf"] => some { s with lists := s.lists ++ [.notFound] }
  | ["L", "ex"] => some { s with lists := s.lists ++ [.expired] }
  | ["L", "ot0"] => some { s with lists := s.lists ++ [.other false] }
  | ["L", "ot1"] => some { s with lists := s.lists ++ [.other true] }
  | ["L", "poll"] => some { s with lists := s.lists ++ [.pollStop] }
  | ["L", "pollE"] => some { s with lists := s.lists ++ [.pollStop] }
  | ["L", "ok", r, kvs] => match r.toNat?, parseKVs kvs with
    | some r, some kvs => if r = 0 && !kvs.isEmpty then none else some { s with lists := s.lists ++ [.ok kvs r] }
    | _, _ => none
  | ["W", "ex"] => some { s with watches := s.watches ++ [.expired] }
  | ["W", "cr0"] => some { s with watches := s.watches ++ [.connRefused false] }
  | ["W", "cr1"] => some { s with watches := s.watches ++ [.connRefused true] }
  | ["W", "ns"] => some { s with watches := s.watches ++ [.notSupported] }
  | ["W", "ot"] => some { s with watches := s.watches ++ [.other] }
  | ["F", r, kvs] => match r.toNat?, parseKVs kvs with
    | some r, some kvs => if r = 0 then none else some { s with fin := some (kvs, r) }
    | _, _ => none
  | ["E", "up", kv] => (parseKV kv).map (fun kv => { s with evs := s.evs ++ [.upsert kv] })
  | ["E", "del", kv] => (parseKV kv).map (fun kv => { s with evs := s.evs ++ [.delete kv] })
  | ["E", "bm", r] => r.toNat?.map (fun r => { s with evs := s.evs ++ [.bookmark r] })
  | ["E", "ex"] => some { s with evs := s.evs ++ [.errExpired] }
  | ["E", "ot"] => some { s with evs := s.evs ++ [.errOther] }
  | ["E", "un"] => some { s with evs := s.evs ++ [.unknown] }
  | _ => none

def parseScript (ws : List String) : Option Script :=
  ws.foldl (fun acc w => acc.bind (fun s => parseTok s w)) (some {})

structure Tok where
  isDel : Bool
  key : Nat
  s : String

def updTok (u : Upd) : Tok := { isDel := u.ut == utDeleted, key := u.key, s := s!"{u.key}.{u.rev}.{u.ut}" }

def insertTok (t : Tok) : List Tok → List Tok
  | [] => [t]
  | x :: xs => if t.key ≤ x.key then t :: x :: xs else x :: insertTok t xs

/-- Sort every maximal run of consecutive deletions by key (map-iteration order is not determined). -/
def canon : List Tok → List Tok → List Tok
  | [], run => run
  | t :: ts, run =>
    if t.isDel then canon ts (insertTok t run)
    else run ++ t :: canon ts []

def resToks : Res → List Tok
  | .status s => [{ isDel := false, key := 0, s := s!"S{s}" }]
  | .updates us => us.map updTok
  | .convErr => [{ isDel := false, key := 0, s := "CE" }]
  | .backendErr => [{ isDel := false, key := 0, s := "BE" }]

def cbToks : Cb → List Tok
  | .status s => [{ isDel := false, key := 0, s := s!"s{s}" }]
  | .updates us => us.map updTok
  | .syncFailed => [{ isDel := false, key := 0, s := "F" }]

def showToks (l : List Tok) : String := joinWith " " ((canon l []).map (·.s))

def sortPairs (m : List (Nat × Nat)) : List (Nat × Nat) :=
  (sortKeys (m.map (·.1))).filterMap (fun k => (lookup m k).map (fun r => (k, r)))

def showMap (m : List (Nat × Nat)) : String := joinWith "," ((sortPairs m).map (fun p => s!"{p.1}:{p.2}"))

def finish (d : DState) (i : Nat) (wc : WC) : DState × String :=
  let ws0 := { d.ws with cbs := [] }
  let ws := ws0.processBatch i wc.out
  ({ caches := d.caches.set i wc, ws := ws },
   s!"R: {showToks (wc.out.flatMap resToks)} C: {showToks (ws.cbs.flatMap cbToks)} N={wc.resets}")

def step (d : DState) (line : String) : DState × String :=
  match words line with
  | ["new", n, p, sd] => match n.toNat?, p.toNat?, sd.toNat? with
    | some n, some p, some sd =>
      ({ caches := List.replicate n (WC.new (procOf p) (sd != 0)), ws := WS.new n }, "ok")
    | _, _, _ => (d, "bad-op")
  | "call" :: i :: toks => match i.toNat?, parseScript toks with
    | some i, some sc => match d.caches[i]?, sc.fin with
      | some wc, some fin =>
        if sc.lists.any ListOut.isPollStop && !sc.evs.isEmpty then (d, "bad-op")
        else finish d i (runCall wc sc.lists sc.watches fin sc.evs)
      | _, _ => (d, "bad-op")
    | _, _ => (d, "bad-op")
  | ["stop", i] => match i.toNat? with
    | some i => match d.caches[i]? with
      | some wc => finish d i ({ wc with out := [], resets := 0 }).sendDeletionsForAll
      | none => (d, "bad-op")
    | none => (d, "bad-op")
  | ["dump", i] => match i.toNat? with
    | some i => match d.caches[i]? with
      | some wc =>
        let old := match wc.old with | some o => showMap o | none => "nil"
        (d, s!"res={showMap wc.res} old={old} rev={wc.rev} err={wc.errCount} st={wc.status} crd={showBool wc.crdInstalled} lp={showBool wc.listPolling} wp={showBool wc.watchPolling} conn={showBool wc.connected} ws={d.ws.status} cs={joinWith "," (d.ws.cacheStatuses.map toString)}")
      | none => (d, "bad-op")
    | none => (d, "bad-op")
  | _ => (d, "bad-op")

def main : IO Unit := run step { caches := [], ws := WS.new 0 }
