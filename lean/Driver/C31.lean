import CalicoVerif.Util.Proto
import CalicoVerif.Model.C31
/-! Driver for C31.  Ops (all ids are decimal naturals):
  `new` | `insync` | `ep w ver TIERS PROFS` | `eprm w` | `pol id IN OUT` | `polrm id` |
  `prof id IN OUT` | `profrm id` | `sa id ver` | `sarm id` | `ns id ver` | `nsrm id` |
  `ipset id MEMBERS` | `ipdelta id ADDS DELS` | `iprm id` | `join w uid` | `leave w uid` | `dump`
  TIERS = `-` | tier(`;`tier)*, tier = `name/IDS/IDS` (ingress/egress), IDS = `-` | n(`.`n)*
  PROFS = IDS;  IN/OUT = `-` | rule(`;`rule)*, rule = `tag=PAIRS`, PAIRS = `-` | f`.`id(`,`f`.`id)* with f < 9
  MEMBERS/ADDS/DELS = `-` | n(`,`n)*
Output: `ok` (nothing sent) or, per touched channel in ascending order,
  `c<k>[m|m|…]` followed by `x` if the channel was closed; every maximal run of same-kind messages sorted;
  `panic` when the real code panics, after which every op answers `dead`.
-/
open CalicoVerif CalicoVerif.C31 CalicoVerif.Proto

def parseList (sep : String) (s : String) : Option (List Nat) :=
  if s == "-" then some [] else (s.splitOn sep).mapM (fun w => w.toNat?)

def parseTier (s : String) : Option Tier :=
  match s.splitOn "/" with
  | [n, i, e] => do
    let n ← n.toNat?
    let i ← parseList "." i
    let e ← parseList "." e
    pure { name := n, ing := i, eg := e }
  | _ => none

def parseTiers (s : String) : Option (List Tier) :=
  if s == "-" then some [] else (s.splitOn ";").mapM parseTier

def parsePair (s : String) : Option (Nat × Nat) :=
  match s.splitOn "." with
  | [f, i] => do
    let f ← f.toNat?
    let i ← i.toNat?
    if f < 9 then pure (f, i) else none
  | _ => none

def parseRule (s : String) : Option Rule :=
  match s.splitOn "=" with
  | [t, ps] => do
    let t ← t.toNat?
    let ps ← if ps == "-" then some [] else (ps.splitOn ",").mapM parsePair
    pure { tag := t, refs := ps }
  | _ => none

def parseRules (s : String) : Option (List Rule) :=
  if s == "-" then some [] else (s.splitOn ";").mapM parseRule

def showList (sep : String) (xs : List Nat) : String :=
  if xs.isEmpty then "-" else sep.intercalate (xs.map toString)

def showTiers (ts : List Tier) : String :=
  if ts.isEmpty then "-" else
    ";".intercalate (ts.map (fun t => s!"{t.name}/{showList "." t.ing}/{showList "." t.eg}"))

def showRules (rs : List Rule) : String :=
  if rs.isEmpty then "-" else
    ";".intercalate (rs.map (fun r =>
      let ps := if r.refs.isEmpty then "-" else ",".intercalate (r.refs.map (fun p => s!"{p.1}.{p.2}"))
      s!"{r.tag}={ps}"))

def sortNat (xs : List Nat) : List Nat := xs.mergeSort (fun a b => decide (a ≤ b))
def sortStr (xs : List String) : List String := xs.mergeSort (fun a b => !decide (b < a))

/-- (kind, rendering) -/
def showMsg : Msg → String × String
  | .inSync => ("sync", "sync")
  | .epUpd w e => ("ep", s!"ep:{w}:{e.ver}:{showTiers e.tiers}:{showList "." e.profs}")
  | .epRm w => ("eprm", s!"eprm:{w}")
  | .polUpd id r => ("pol", s!"pol:{id}:{showRules r.inb}:{showRules r.outb}")
  | .polRm id => ("polrm", s!"polrm:{id}")
  | .profUpd id r => ("prof", s!"prof:{id}:{showRules r.inb}:{showRules r.outb}")
  | .profRm id => ("profrm", s!"profrm:{id}")
  | .saUpd id v => ("sa", s!"sa:{id}:{v}")
  | .saRm id => ("sarm", s!"sarm:{id}")
  | .nsUpd id v => ("ns", s!"ns:{id}:{v}")
  | .nsRm id => ("nsrm", s!"nsrm:{id}")
  | .ipUpd id ms => ("ip", s!"ip:{id}:{id % 3}:{showList "," (sortNat (dedup ms))}")
  | .ipDelta id a d => ("ipd", s!"ipd:{id}:{showList "," a}:{showList "," d}")
  | .ipRm id => ("iprm", s!"iprm:{id}")

/-- sort every maximal run of same-kind messages -/
def sortRunsAux : String → List String → List (String × String) → List String
  | _, acc, [] => sortStr acc
  | k, acc, (k', s) :: rest =>
    if k' == k then sortRunsAux k (s :: acc) rest else sortStr acc ++ sortRunsAux k' [s] rest

def sortRuns : List (String × String) → List String
  | [] => []
  | (k, s) :: rest => sortRunsAux k [s] rest

def showEvents (evs : List Ev) : String :=
  let chans := sortNat (dedup (evs.map (·.1)))
  if chans.isEmpty then "ok" else
  " ".intercalate (chans.map (fun c =>
    let mine := evs.filter (fun e => e.1 == c)
    let msgs := mine.filterMap (fun e => e.2)
    let closed := mine.any (fun e => e.2.isNone)
    s!"c{c}[{"|".intercalate (sortRuns (msgs.map showMsg))}]" ++ (if closed then "x" else "")))

def sortKV {α : Type} (m : AMap α) : AMap α := m.mergeSort (fun a b => decide (a.1 ≤ b.1))

def showOptB {α : Type} (o : Option α) : String := if o.isSome then "1" else "0"

def dump (p : Proc) : String :=
  let eps := (sortKV p.eps).map (fun kv =>
    let ei := kv.2
    s!"{kv.1}:{showOptB ei.output}:{ei.joinUID}:{showOptB ei.ep}:{showList "." (sortNat ei.syncedPol)}:{showList "." (sortNat ei.syncedProf)}:{showList "." (sortNat ei.syncedIP)}")
  let ips := (sortKV p.ipsets).map (fun kv => s!"{kv.1}={showList "," (sortNat kv.2)}")
  s!"eps={",".intercalate eps} pols={showList "." (sortNat p.pols.keys)} profs={showList "." (sortNat p.profs.keys)} " ++
  s!"sas={showList "." (sortNat p.sas.keys)} nss={showList "." (sortNat p.nss.keys)} ipsets={";".intercalate ips} sync={showBool p.inSync}"

def parseOp (ws : List String) : Option Op :=
  match ws with
  | ["insync"] => some .inSync
  | ["ep", w, v, ts, ps] => do
    pure (.ep (← w.toNat?) { ver := ← v.toNat?, tiers := ← parseTiers ts, profs := ← parseList "." ps })
  | ["eprm", w] => do pure (.epRm (← w.toNat?))
  | ["pol", i, a, b] => do pure (.pol (← i.toNat?) { inb := ← parseRules a, outb := ← parseRules b })
  | ["polrm", i] => do pure (.polRm (← i.toNat?))
  | ["prof", i, a, b] => do pure (.prof (← i.toNat?) { inb := ← parseRules a, outb := ← parseRules b })
  | ["profrm", i] => do pure (.profRm (← i.toNat?))
  | ["sa", i, v] => do pure (.sa (← i.toNat?) (← v.toNat?))
  | ["sarm", i] => do pure (.saRm (← i.toNat?))
  | ["ns", i, v] => do pure (.ns (← i.toNat?) (← v.toNat?))
  | ["nsrm", i] => do pure (.nsRm (← i.toNat?))
  | ["ipset", i, ms] => do pure (.ipset (← i.toNat?) (← parseList "," ms))
  | ["ipdelta", i, a, d] => do pure (.ipDelta (← i.toNat?) (← parseList "," a) (← parseList "," d))
  | ["iprm", i] => do pure (.ipRm (← i.toNat?))
  | ["join", w, u] => do pure (.join (← w.toNat?) (← u.toNat?))
  | ["leave", w, u] => do pure (.leave (← w.toNat?) (← u.toNat?))
  | _ => none

/-- `none` = the modelled process has panicked. -/
def stepLine (s : Option Proc) (line : String) : Option Proc × String :=
  match words line with
  | ["new"] => (some Proc.init, "ok")
  | ["dump"] => match s with
    | none => (none, "dead")
    | some p => (s, dump p)
  | ws =>
    match parseOp ws with
    | none => (s, "bad-op")
    | some op =>
      match s with
      | none => (none, "dead")
      | some p =>
        match step p op with
        | none => (none, "panic")
        | some (p', evs) => (some p', showEvents evs)

def main : IO Unit := run stepLine (some Proc.init)
