import CalicoVerif.Util.Proto
import CalicoVerif.Model.C33
import CalicoVerif.Gen.C33
/-! Driver for C33 (stateless). Ops (names/seeds are hex strings, `-` = empty):
  `lut <le|be> <f|a|s> <m> <name>*`   New(m,h,h); AddBackend in order; Generate → `nil` | `panic` | `ok <names by first appearance> <slot indices>`
  `perm <le|be> <f|a|s> <m> <name>`   permutation(name) → `ok p0,p1,…` | `err` | `panic`
  `hash <le|be> <f|a|s> <seed> <name>` hashFromString → number | `err`
  `nextprime <int>`                   NextPrimeUint16 → p | `panic`
  `cfg <int>`                         BPFMaglevMaxEndpointsPerService=<int> through the config parser → `<value> <BPFLUTSizeMaglev>`
`le`/`be` = byte order of the CPU the code runs on; the byte order named in the
source (`Gen.hashByteOrder`, regenerated from hashFromString) decides what that means.
-/
open CalicoVerif CalicoVerif.C33 CalicoVerif.Proto

def hexVal (c : Char) : Option Nat :=
  if '0' ≤ c ∧ c ≤ '9' then some (c.toNat - '0'.toNat)
  else if 'a' ≤ c ∧ c ≤ 'f' then some (c.toNat - 'a'.toNat + 10)
  else none

def unhexAux : List Char → Option (List Nat)
  | [] => some []
  | a :: b :: rest =>
    match hexVal a, hexVal b, unhexAux rest with
    | some x, some y, some r => some ((16 * x + y) :: r)
    | _, _, _ => none
  | _ => none

def unhex (s : String) : Option (List Nat) :=
  if s == "-" then some [] else unhexAux s.toList

def hexDigit (n : Nat) : Char :=
  if n < 10 then Char.ofNat ('0'.toNat + n) else Char.ofNat ('a'.toNat + n - 10)

def hex (bs : List Nat) : String :=
  if bs.isEmpty then "-" else String.ofList (bs.flatMap (fun b => [hexDigit (b / 16), hexDigit (b % 16)]))

def unhexAll : List String → Option (List (List Nat))
  | [] => some []
  | w :: ws => match unhex w, unhexAll ws with
    | some b, some r => some (b :: r)
    | _, _ => none

def cpuOf : String → Option Endian
  | "le" => some .little
  | "be" => some .big
  | _ => none

def hashOf : String → Option HashFn
  | "f" => some fnvSum
  | "a" => some fnvaSum
  | "s" => some shortSum
  | _ => none

/-- canonical form of a table of names: distinct names by first appearance + index per slot -/
def canonTable (t : List (List Nat)) : String :=
  let (seen, idxs) := t.foldl (fun (acc : List (List Nat) × List Nat) n =>
    match acc.1.idxOf? n with
    | some i => (acc.1, i :: acc.2)
    | none => (acc.1 ++ [n], acc.1.length :: acc.2)) ([], [])
  "ok " ++ joinWith "," (seen.map hex) ++ " " ++ joinWith "," (idxs.reverse.map toString)

def step (_ : Unit) (line : String) : Unit × String :=
  ((), match words line with
  | "lut" :: cpu :: hk :: m :: names =>
    match cpuOf cpu, hashOf hk, m.toNat?, unhexAll names with
    | some cpu, some h, some m, some names =>
      match table (Gen.hashByteOrder.on cpu) ⟨h, h⟩ m names with
      | none => "panic"
      | some [] => "nil"
      | some t => canonTable t
    | _, _, _, _ => "bad-op"
  | ["perm", cpu, hk, m, name] =>
    match cpuOf cpu, hashOf hk, m.toNat?, unhex name with
    | some cpu, some h, some m, some name =>
      match permutation (Gen.hashByteOrder.on cpu) ⟨h, h⟩ m name with
      | .ok p => "ok " ++ joinWith "," (p.map toString)
      | .err => "err"
      | .panic => "panic"
    | _, _, _, _ => "bad-op"
  | ["hash", cpu, hk, seed, name] =>
    match cpuOf cpu, hashOf hk, unhex seed, unhex name with
    | some cpu, some h, some seed, some name =>
      showOptNat (hashFromString (Gen.hashByteOrder.on cpu) h seed name)
    | _, _, _, _ => "bad-op"
  | ["nextprime", a] =>
    match a.toInt? with
    | some i => match nextPrimeUint16 Gen.pr Gen.primeLimit i with
      | some p => toString p
      | none => "panic"
    | none => "bad-op"
  | ["cfg", a] =>
    match a.toInt? with
    | some i =>
      let v := if (Gen.cfgMin : Int) ≤ i ∧ i ≤ (Gen.cfgMax : Int) then i.toNat else Gen.cfgDefault
      match bpfLUTSizeMaglev Gen.pr Gen.primeLimit Gen.lutFactor v with
      | some p => s!"{v} {p}"
      | none => s!"{v} panic"
    | none => "bad-op"
  | _ => "bad-op")

def main : IO Unit := run step ()
