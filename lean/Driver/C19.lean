import CalicoVerif.Util.Proto
import CalicoVerif.Model.CasIO
import CalicoVerif.Model.C19
/-! Driver for C19: replays the real client's backend-call log through the model
(`Cas.step`), printing per line the outcome and abstract value the model
computes, and re-checking the C19 invariants on every model state. -/
open CalicoVerif CalicoVerif.Cas CalicoVerif.Proto

def main : IO Unit := run (driverStep C19.chk) (St.init 0 0)
