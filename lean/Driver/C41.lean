import CalicoVerif.Util.Proto
import CalicoVerif.Model.C41
/-! Driver for C41. Ops:
  `new <ipv>`
  `wup <id> <present 0|1> <nqos> <ctl: -|imc:emc:ipr:epr:bw> <v4 nets csv|-> <v6 nets csv|->`
  `wrm <id>` | `hup <id> <nqos> <v4 csv|-> <v6 csv|->` | `hrm <id>`
  `complete`  → `set=<sorted distinct members>` or `noop`
  `needs <present> <nqos> <ctl>` → 0|1
  `rule <ipv> <offload 0|1> <nft 0|1>` → `idx=0 n=1 <rendered rule>` or `none`
  `ftnew <overlay devs of target 0, csv|-> …` | `ftif <name> <up 0|1>` | `ftcomplete` → `ov=<t0 csv|->;… ext=<csv|->` or `noop`
  (flowtableManager with external device pattern `^eth`)
-/
open CalicoVerif CalicoVerif.C41 CalicoVerif.Proto

def csv (w : String) : List String := if w = "-" then [] else w.splitOn ","

def parseCtl (w : String) : Option (Option QosControls) :=
  if w = "-" then some none else
  match (w.splitOn ":").mapM String.toInt? with
  | some [a, b, c, d, e] => some (some { imc := a, emc := b, ipr := c, epr := d, bw := e })
  | _ => none

def dedupSorted : List String → List String
  | [] => []
  | [x] => [x]
  | x :: y :: r => if x = y then dedupSorted (y :: r) else x :: dedupSorted (y :: r)

def showSet (ms : List String) : String :=
  let s := dedupSorted (ms.mergeSort (fun a b => a ≤ b))
  if s.isEmpty then "set=-" else "set=" ++ joinWith "," s

def stepM (m : Mgr) (line : String) : Mgr × String :=
  match words line with
  | ["new", v] => match v.toNat? with
    | some v => (Mgr.new v, "ok")
    | none => (m, "bad-op")
  | ["wup", id, pr, nq, ctl, n4, n6] => match id.toNat?, pr.toNat?, nq.toNat?, parseCtl ctl with
    | some id, some pr, some nq, some ctl =>
      (m.step (.wepUpdate id { present := pr != 0, nQos := nq, controls := ctl, nets4 := csv n4, nets6 := csv n6 }), "ok")
    | _, _, _, _ => (m, "bad-op")
  | ["wrm", id] => match id.toNat? with
    | some id => (m.step (.wepRemove id), "ok")
    | none => (m, "bad-op")
  | ["hup", id, nq, n4, n6] => match id.toNat?, nq.toNat? with
    | some id, some nq => (m.step (.hepUpdate id { nQos := nq, ips4 := csv n4, ips6 := csv n6 }), "ok")
    | _, _ => (m, "bad-op")
  | ["hrm", id] => match id.toNat? with
    | some id => (m.step (.hepRemove id), "ok")
    | none => (m, "bad-op")
  | ["complete"] =>
    if m.dirty then
      let m' := m.step .complete
      (m', match m'.last with
        | some ms => showSet ms
        | none => "set=?")
    else (m, "noop")
  | ["needs", pr, nq, ctl] => match pr.toNat?, nq.toNat?, parseCtl ctl with
    | some pr, some nq, some ctl =>
      (m, showBool (workloadNeedsForwardHooks { present := pr != 0, nQos := nq, controls := ctl, nets4 := [], nets6 := [] }))
    | _, _, _ => (m, "bad-op")
  | ["rule", v, off, nft] => match v.toNat?, off.toNat?, nft.toNat? with
    | some v, some off, some nft =>
      if off != 0 && nft != 0 then (m, s!"idx=0 n=1 {(offloadRule v).render v}") else (m, "none")
    | _, _, _ => (m, "bad-op")
  | _ => (m, "bad-op")

structure St where
  m : Mgr
  ft : FtMgr

def ethPattern (n : String) : Bool := n.startsWith "eth"

def showCsv (l : List String) : String := if l.isEmpty then "-" else joinWith "," l

def step (s : St) (line : String) : St × String :=
  match words line with
  | "ftnew" :: ts => ({ s with ft := FtMgr.new (ts.map csv) }, "ok")
  | ["ftif", n, u] => match u.toNat? with
    | some u => ({ s with ft := s.ft.onIface ethPattern n (u != 0) }, "ok")
    | none => (s, "bad-op")
  | ["ftcomplete"] =>
    if s.ft.dirty then
      let ft := s.ft.complete
      ({ s with ft := ft }, match ft.last with
        | some (ov, ext) => s!"ov={joinWith ";" (ov.map showCsv)} ext={showCsv ext}"
        | none => "?")
    else (s, "noop")
  | _ => let (m', o) := stepM s.m line; ({ s with m := m' }, o)

def main : IO Unit := run step { m := Mgr.new 4, ft := FtMgr.new [] }
