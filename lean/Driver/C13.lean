import CalicoVerif.Util.Proto
import CalicoVerif.Model.C13Table
import CalicoVerif.Gen.C13
/-! Driver for C13: answers from the C layout computed by the layout algorithm on the translated headers.
  `size <ver> <struct>`                          → sizeof
  `sizeatmost <ver> <struct> <n>`                → `ok` | `too-big:<sizeof>`
  `off <ver> <struct> <path>`                    → `<bit offset> <bit size>`
  `within <ver> <struct> <path> <bitoff> <bits>` → `ok` | `no:<bit offset> <bit size>`
  `inside <ver> <struct> <path> <bitoff> <bits>` → `ok` | `no:<bit offset> <bit size>`
  `match <ver> <kind> <field> <prefix>`          → the `off:bits,…` loads (from the state pointer) a single-match
                                                    rule must make, from the C layout (kind: cidr|ipset|port|proto)
  `enc <ver> <struct> <path>=le:<n>|num:<n>|raw:<hex> …` → hex of the structure with the values at the C
                                                    offsets (`num`: byte order from the C declared type,
                                                    big-endian for `__be16/32/64`, else little-endian)
-/
open CalicoVerif CalicoVerif.C13 CalicoVerif.Proto

def beOf (v : String) : List (String × String) :=
  if v == "4" then Gen.V4.beFields else if v == "6" then Gen.V6.beFields else []

def structsOf (v : String) : Option Structs :=
  if v == "4" then some Gen.V4.structs else if v == "6" then some Gen.V6.structs else none

def hexVal (c : Char) : Option Nat :=
  if '0' ≤ c ∧ c ≤ '9' then some (c.toNat - '0'.toNat)
  else if 'a' ≤ c ∧ c ≤ 'f' then some (c.toNat - 'a'.toNat + 10)
  else none

def unhex : List Char → Option (List Nat)
  | [] => some []
  | [_] => none
  | a :: b :: rest => do
    let x ← hexVal a
    let y ← hexVal b
    let r ← unhex rest
    pure ((x * 16 + y) :: r)

def hexDigit (n : Nat) : Char :=
  if n < 10 then Char.ofNat ('0'.toNat + n) else Char.ofNat ('a'.toNat + n - 10)

def hexOf (bs : List Nat) : String :=
  String.ofList (bs.flatMap (fun b => [hexDigit (b / 16), hexDigit (b % 16)]))

def leBytes : Nat → Nat → List Nat
  | 0, _ => []
  | k + 1, n => (n % 256) :: leBytes k (n / 256)

/-- Overwrite `bs` from byte `off` with `vals`. -/
def writeAt (bs : List Nat) (off : Nat) (vals : List Nat) : List Nat :=
  bs.take off ++ vals ++ bs.drop (off + vals.length)

def encField (be : List (String × String)) (ss : Structs) (st : String) (buf : List Nat) (w : String) : Option (List Nat) :=
  match w.splitOn "=" with
  | [path, v] =>
    match findPath ss st path, v.splitOn ":" with
    | some (o, n), ["le", num] =>
      if o % 8 != 0 || n % 8 != 0 then none
      else num.toNat?.map (fun k => writeAt buf (o / 8) (leBytes (n / 8) k))
    | some (o, n), ["num", num] =>
      if o % 8 != 0 || n % 8 != 0 then none
      else num.toNat?.map (fun k =>
        let bs := leBytes (n / 8) k
        writeAt buf (o / 8) (if be.contains (st, path) then bs.reverse else bs))
    | some (o, n), ["raw", h] =>
      match unhex h.toList with
      | some bytes => if o % 8 == 0 && bytes.length * 8 == n then some (writeAt buf (o / 8) bytes) else none
      | none => none
    | _, _ => none
  | _ => none

def step (u : Unit) (line : String) : Unit × String :=
  match words line with
  | ["size", v, st] =>
    match (structsOf v).bind (fun ss => sizeOfStruct ss st) with
    | some n => (u, toString n)
    | none => (u, "bad-op")
  | ["sizeatmost", v, st, n] =>
    match (structsOf v).bind (fun ss => sizeOfStruct ss st), n.toNat? with
    | some sz, some k => (u, if sz ≤ k then "ok" else s!"too-big:{sz}")
    | _, _ => (u, "bad-op")
  | ["off", v, st, path] =>
    match (structsOf v).bind (fun ss => findPath ss st path) with
    | some (o, n) => (u, s!"{o} {n}")
    | none => (u, "bad-op")
  | ["within", v, st, path, o', n'] =>
    match (structsOf v).bind (fun ss => findPath ss st path), o'.toNat?, n'.toNat? with
    | some (o, n), some a, some b => (u, if o == a && b ≤ n then "ok" else s!"no:{o} {n}")
    | _, _, _ => (u, "bad-op")
  | ["inside", v, st, path, o', n'] =>
    match (structsOf v).bind (fun ss => findPath ss st path), o'.toNat?, n'.toNat? with
    | some (o, n), some a, some b => (u, if o ≤ a && a + b ≤ o + n then "ok" else s!"no:{o} {n}")
    | _, _, _ => (u, "bad-op")
  | ["match", v, kind, field, pfx] =>
    match structsOf v, pfx.toNat? with
    | some ss, some p =>
      match expectedMatch (v == "6") ss ⟨kind, field, p, []⟩ with
      | some e => (u, if e.isEmpty then "-" else joinWith "," (e.map (fun a => s!"{a.1}:{a.2}")))
      | none => (u, "bad-op")
    | _, _ => (u, "bad-op")
  | "enc" :: v :: st :: fields =>
    match structsOf v with
    | none => (u, "bad-op")
    | some ss =>
      match sizeOfStruct ss st with
      | none => (u, "bad-op")
      | some sz =>
        match fields.foldlM (encField (beOf v) ss st) (List.replicate sz 0) with
        | some buf => (u, hexOf buf)
        | none => (u, "bad-op")
  | _ => (u, "bad-op")

def main : IO Unit := run step ()
