import CalicoVerif.Util.Proto
import CalicoVerif.Model.C27
import CalicoVerif.Gen.C27
/-! Driver for C27. Ops (values are hex, tokens are renderings supplied by the harness):
  `new`
  `srcs`                                        → descending source numbers, `L` suffix if local
  `decl <lname> <initTok> <dfltTok> <zeroTok>`  → `<Name> <local><die><nonzero>` | `unknown`
  `upd <src> <key>=<hexraw>:<tok> …`            → `changed=0|1` | `err` | `undeclared`   (UpdateFrom)
  `all s<src> <kv> … s<src> <kv> …`             → `changed:<names>` | `err` | `undeclared`
                                                   (UpdateFromConfigUpdate)
  `get`                                         → `err=<b> f:<Name=tok,…> r:<key=hexraw,…>`
`tok` is `!` when the real `Parse` fails, `-` for unknown keys.
-/
open CalicoVerif CalicoVerif.C27 CalicoVerif.Proto

structure Decl where
  name : String
  init : String
  dflt : String
  zero : String

structure DS where
  decls : List (String × Decl)
  graph : List ((String × String) × Option String)
  cfg : Cfg

def DS.init : DS := ⟨[], [], Cfg.new⟩

/-- `knownParams`, keyed by lower-case field name (built once from the generated table). -/
def lowered : List (String × Meta) := Gen.table.map (fun r => (r.1.name.toLower, r.1))

def DS.ctx (d : DS) : Ctx :=
  { lower := String.toLower
    known := fun l => lowered.lookup l
    parse := fun m raw => (d.graph.lookup (m.name, raw)).join
    keyLe := fun a b => decide (a ≤ b) }

def DS.render (d : DS) (l : String) (v : Option Val) : String :=
  match d.decls.lookup l with
  | none => "?"
  | some dc =>
    match v with
    | none => dc.init
    | some .dflt => dc.dflt
    | some .zero => dc.zero
    | some (.parsed t) => t

def hexVal (c : Char) : Option Nat :=
  if '0' ≤ c ∧ c ≤ '9' then some (c.toNat - '0'.toNat)
  else if 'a' ≤ c ∧ c ≤ 'f' then some (c.toNat - 'a'.toNat + 10)
  else none

def unhexAux : List Char → List UInt8 → Option (List UInt8)
  | [], acc => some acc.reverse
  | [_], _ => none
  | a :: b :: rest, acc =>
    match hexVal a, hexVal b with
    | some x, some y => unhexAux rest (UInt8.ofNat (x * 16 + y) :: acc)
    | _, _ => none

def unhex (s : String) : Option String :=
  match unhexAux s.toList [] with
  | none => none
  | some bs => String.fromUTF8? (ByteArray.mk bs.toArray)

def hexDigit (n : Nat) : Char :=
  if n < 10 then Char.ofNat ('0'.toNat + n) else Char.ofNat ('a'.toNat + n - 10)

def hex (s : String) : String :=
  String.ofList (s.toUTF8.toList.flatMap (fun b => [hexDigit (b.toNat / 16), hexDigit (b.toNat % 16)]))

/-- Parse `<key>=<hexraw>:<tok>`. -/
def parseKV (w : String) : Option (String × String × String) :=
  match w.splitOn "=" with
  | [k, rest] =>
    match rest.splitOn ":" with
    | [h, tok] =>
      if k.isEmpty || tok.isEmpty then none
      else (unhex h).map (fun raw => (k, raw, tok))
    | _ => none
  | _ => none

def parseKVs : List String → Option (List (String × String × String))
  | [] => some []
  | w :: ws => do
    let kv ← parseKV w
    let rest ← parseKVs ws
    pure (kv :: rest)

/-- A Go map cannot hold one exact key twice: such a list is not an input. -/
def keysNodup (kvs : List (String × String × String)) : Bool := (kvs.map (·.1)).eraseDups.length == kvs.length

def tokToParse (tok : String) : Option String := if tok == "!" || tok == "-" then none else some tok

/-- Record the parse graph carried by the key-values; `none` if a known parameter is undeclared. -/
def DS.learn (d : DS) (kvs : List (String × String × String)) : Option DS :=
  kvs.foldlM (fun d kv =>
    let l := kv.1.toLower
    match lowered.lookup l with
    | none => some d
    | some m =>
      match d.decls.lookup l with
      | none => none
      | some _ => some { d with graph := ((m.name, kv.2.1), tokToParse kv.2.2) :: d.graph }) d

def insertSorted (x : String × String) : List (String × String) → List (String × String)
  | [] => [x]
  | y :: ys => if x.1 < y.1 then x :: y :: ys else y :: insertSorted x ys

def sortKV (xs : List (String × String)) : List (String × String) := xs.foldr insertSorted []

def insertSortedS (x : String) : List String → List String
  | [] => [x]
  | y :: ys => if x < y then x :: y :: ys else y :: insertSortedS x ys

def showChanged : Changed → String
  | .yes => "changed=1" | .no => "changed=0" | .failed => "err"

/-- Split the words of an `all` op into per-source groups. -/
def groupAll : List String → Option Src → List (String × String × String) →
    List (Src × List (String × String × String)) → Option (List (Src × List (String × String × String)))
  | [], cur, acc, out =>
    match cur with
    | none => if acc.isEmpty then some out.reverse else none
    | some s => some ((s, acc.reverse) :: out).reverse
  | w :: ws, cur, acc, out =>
    if w.startsWith "s" && !(w.contains '=') then
      match (w.drop 1).toString.toNat?.bind Src.ofNat? with
      | none => none
      | some s =>
        match cur with
        | none => if acc.isEmpty then groupAll ws (some s) [] out else none
        | some s0 => groupAll ws (some s) [] ((s0, acc.reverse) :: out)
    else
      match parseKV w, cur with
      | some kv, some _ => if kv.2.1.isEmpty then none else groupAll ws cur (kv :: acc) out
      | _, _ => none

def step (d : DS) (line : String) : DS × String :=
  match words line with
  | ["new"] => (DS.init, "ok")
  | ["srcs"] =>
    (d, joinWith " " (descending.map (fun s => toString s.prio ++ (if s.isLocal then "L" else ""))))
  | ["decl", l, i, df, z] =>
    match lowered.lookup l with
    | none => (d, "unknown")
    | some m =>
      let d' := { d with decls := (d.decls.filter (fun p => p.1 != l)) ++ [(l, ⟨m.name, i, df, z⟩)] }
      (d', s!"{m.name} {showBool m.local_}{showBool m.die}{showBool m.nonZero}")
  | "upd" :: sn :: ws =>
    match sn.toNat?.bind Src.ofNat?, parseKVs ws with
    | some s, some kvs =>
      if !keysNodup kvs then (d, "bad-op") else
      match d.learn kvs with
      | none => (d, "undeclared")
      | some d1 =>
        let (cfg', ch, _) := d1.cfg.updateFrom d1.ctx d1.render s (kvs.map (fun kv => (kv.1, kv.2.1)))
        ({ d1 with cfg := cfg' }, showChanged ch)
    | _, _ => (d, "bad-op")
  | "all" :: ws =>
    match groupAll ws none [] [] with
    | none => (d, "bad-op")
    | some groups =>
      if (groups.map (·.1)).eraseDups.length != groups.length || groups.any (fun g => !keysNodup g.2) then (d, "bad-op") else
      match d.learn (groups.flatMap (·.2)) with
      | none => (d, "undeclared")
      | some d1 =>
        let all := groups.map (fun g => (g.1, g.2.map (fun kv => (kv.1, kv.2.1))))
        let (cfg', ch, names) := d1.cfg.updateAll d1.ctx d1.render all
        let out := match ch with
          | .failed => "err"
          | _ =>
            let disp := names.map (fun l => ((d1.decls.lookup l).map (·.name)).getD l)
            "changed:" ++ joinWith "," (disp.foldr insertSortedS [])
        ({ d1 with cfg := cfg' }, out)
  | ["get"] =>
    let e := showBool d.cfg.err
    let fs := d.decls.map (fun p => p.2.name ++ "=" ++ d.render p.1 (d.cfg.fields.lookup p.1))
    let rs := (sortKV d.cfg.rawValues).map (fun p => p.1 ++ "=" ++ hex p.2)
    (d, s!"err={e} f:{joinWith "," fs} r:{joinWith "," rs}")
  | _ => (d, "bad-op")

def main : IO Unit := run step DS.init
