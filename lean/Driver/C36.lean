import CalicoVerif.Util.Proto
import CalicoVerif.Model.C36
/-! Driver for C36.  A prefix token is `<hex addr>/<len>`.  Ops:
  `new <32|128>` | `upd P V` | `del P` | `get P` | `path P` | `lpm P` | `cov P` | `int P` |
  `cby P` | `desc P` | `cp P P` | `has P P` (Contains addr-of-second) | `bit P N` | `slice` | `dump`
-/
open CalicoVerif CalicoVerif.C36 CalicoVerif.Proto

structure St where
  w : Nat
  t : Node Nat

def hexVal (c : Char) : Option Nat :=
  if '0' ≤ c ∧ c ≤ '9' then some (c.toNat - '0'.toNat)
  else if 'a' ≤ c ∧ c ≤ 'f' then some (c.toNat - 'a'.toNat + 10)
  else none

def parseHex (s : String) : Option Nat :=
  if s.isEmpty then none
  else s.toList.foldl (fun acc c => match acc, hexVal c with
    | some a, some d => some (a * 16 + d)
    | _, _ => none) (some 0)

def showHex (n : Nat) : String := String.ofList (Nat.toDigits 16 n)

/-- Parse `<hex>/<len>`; rejects anything that is not a masked CIDR of width `w`
(the Go type cannot represent those). -/
def parsePfx (w : Nat) (s : String) : Option Pfx :=
  match s.splitOn "/" with
  | [a, l] => match parseHex a, l.toNat? with
    | some a, some l =>
      let p : Pfx := { addr := a, len := l }
      if decide (p.WF w) then some p else none
    | _, _ => none
  | _ => none

def showPfx (p : Pfx) : String := showHex p.addr ++ "/" ++ toString p.len

def showEntries (es : List (Pfx × Nat)) : String :=
  if es.isEmpty then "-" else joinWith "," (es.map fun e => showPfx e.1 ++ "=" ++ toString e.2)

def showPfxs (ps : List Pfx) : String :=
  if ps.isEmpty then "-" else joinWith "," (ps.map showPfx)

def step (s : St) (line : String) : St × String :=
  let w := s.w
  match words line with
  | ["new", a] =>
    if a = "32" then ({ w := 32, t := .nil }, "ok")
    else if a = "128" then ({ w := 128, t := .nil }, "ok")
    else (s, "bad-op")
  | ["upd", p, v] => match parsePfx w p, v.toNat? with
    | some p, some v => if v = 0 then (s, "bad-op") else ({ s with t := s.t.update w p v }, "ok")
    | _, _ => (s, "bad-op")
  | ["del", p] => match parsePfx w p with
    | some p => ({ s with t := s.t.delete w p }, "ok")
    | none => (s, "bad-op")
  | ["get", p] => match parsePfx w p with
    | some p => (s, match s.t.get w p with | some v => toString v | none => "nil")
    | none => (s, "bad-op")
  | ["path", p] => match parsePfx w p with
    | some p => (s, showEntries (s.t.lookupPath w p))
    | none => (s, "bad-op")
  | ["lpm", p] => match parsePfx w p with
    | some p => (s, match s.t.lpm w p with | some (c, v) => showPfx c ++ "=" ++ toString v | none => "nil")
    | none => (s, "bad-op")
  | ["cov", p] => match parsePfx w p with
    | some p => (s, showBool (s.t.covers w p))
    | none => (s, "bad-op")
  | ["int", p] => match parsePfx w p with
    | some p => (s, showBool (s.t.intersects w p))
    | none => (s, "bad-op")
  | ["cby", p] => match parsePfx w p with
    | some p => (s, match s.t.coveredBy w p with | some b => showBool b | none => "panic")
    | none => (s, "bad-op")
  | ["desc", p] => match parsePfx w p with
    | some p => (s, showPfxs (s.t.closestDescendants w p))
    | none => (s, "bad-op")
  | ["cp", a, b] => match parsePfx w a, parsePfx w b with
    | some a, some b => (s, showPfx (if w = 128 then v6CommonPrefix a b else commonPrefix w a b))
    | _, _ => (s, "bad-op")
  | ["has", a, b] => match parsePfx w a, parsePfx w b with
    | some a, some b => (s, showBool (if w = 128 then v6Contains a b.addr else a.contains w b.addr))
    | _, _ => (s, "bad-op")
  | ["bit", a, n] => match parsePfx w a, n.toNat? with
    | some a, some n => (s, toString (if w = 128 then v6NthBit a.addr n else nthBit w a.addr n))
    | _, _ => (s, "bad-op")
  | ["slice"] => (s, showEntries s.t.toList)
  | ["dump"] => (s, s.t.dump showPfx toString)
  | _ => (s, "bad-op")

def main : IO Unit := run step { w := 32, t := .nil }
