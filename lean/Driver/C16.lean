import CalicoVerif.Util.Proto
import CalicoVerif.Model.C16
/-! Driver for C16.  Ops (lists: names separated by `,`, members by `+`, `-` = empty):
  `new <prefixes> <mainPfx> <tempPfx>`
  `kset <name> <type> <maxSize> <rmin> <rmax> <members> <listFails> <busy>` | `kdel <name>` | `kdrop <name> <k>`
  `add <id> <type> <maxSize> <rmin> <rmax> <members>` | `rm <id>` | `addm <id> <members>` | `delm <id> <members>`
  `filter <names|nil>` | `qresync` | `restart` | `state`
  `apply r=<ok|s|k,...> n=<0|1,...> l=<name:j,...> d=<0|1,...> ~ hr=<g|g..> hd=<names>`   (g = names separated by `,`)
  `applydel d=<..> ~ hd=<names>`
-/
open CalicoVerif CalicoVerif.C16 CalicoVerif.Proto

def splitList (sep : String) (s : String) : List String :=
  if s == "-" || s == "" then [] else (s.splitOn sep).filter (fun x => !x.isEmpty)

def b01 (b : Bool) : String := if b then "1" else "0"

def showMeta (m : Meta) : String :=
  s!"{m.type}/{m.maxSize}/{m.rangeMin}-{m.rangeMax}/{b01 m.deleteFailed}{b01 m.listFailed}"

def showMembers (l : List String) : String := "[" ++ "+".intercalate (sortS l.eraseDups) ++ "]"

def sortMap {α : Type} (m : Map α) : Map α := m.mergeSort (fun a b => a.1 ≤ b.1)

def showMap {α : Type} (f : α → String) (m : Map α) : String :=
  "{" ++ ";".intercalate ((sortMap m).map (fun p => p.1 ++ "=" ++ f p.2)) ++ "}"

def showK (k : KSet) : String :=
  s!"{k.type}/{k.maxSize}/{k.rangeMin}-{k.rangeMax}/{showMembers k.members}/{b01 k.listFails}{b01 k.busy}"

def showNames (l : List String) : String := "{" ++ ",".intercalate (sortS l) ++ "}"

def showState (w : W) : String :=
  let F := w.F
  "K" ++ showMap showK w.K ++ " A" ++ showMap showMeta F.allMeta ++ " D" ++ showMap showMeta F.desired ++
  " P" ++ showMap showMeta F.dp ++
  " M" ++ showMap (fun (t : MT) => showMembers t.des ++ "|" ++ showMembers t.dp) F.members ++
  s!" T{F.nextTemp} Y" ++ showNames F.dirty ++ " Qm" ++ showNames F.qMust ++ " Qb" ++ showNames F.qBg ++
  s!" b{b01 F.bgReq} f{b01 F.fullReq} X" ++ (match F.filter with | none => "nil" | some l => showNames l) ++
  s!" S{w.sleeps}"

/-- Canonical trace: consecutive `L:` items are sorted (their order is Go map order). -/
def canonTrace (tr : List String) : String :=
  let rec go : List String → List String → List String → List String
    | [], run, acc => acc ++ sortS run
    | x :: xs, run, acc =>
      if x.startsWith "L:" then go xs (x :: run) acc else go xs [] (acc ++ sortS run ++ [x])
  " ".intercalate (go tr [] [])

def parseKV (pfx : String) (ws : List String) : String :=
  match ws.find? (·.startsWith pfx) with
  | some w => (w.drop pfx.length).toString
  | none => ""

def parseRPlan (s : String) : Option RPlan :=
  if s == "ok" then some .ok else if s == "s" then some .startFail else s.toNat?.map .failAt

def parsePlan (ws : List String) : Option Plan := do
  let rs ← (splitList "," (parseKV "r=" ws)).mapM parseRPlan
  let ns := (splitList "," (parseKV "n=" ws)).map (· == "1")
  let ls ← (splitList "," (parseKV "l=" ws)).mapM (fun s =>
    match s.splitOn "@" with
    | [n, j] => j.toInt?.map (fun j => (n, j))
    | _ => none)
  let ds := (splitList "," (parseKV "d=" ws)).map (· == "1")
  pure { restores := rs, names := ns, lists := ls, destroys := ds }

def fin (w : W) (res : String) : W × String :=
  if w.badHint then ({ w with badHint := false }, "bad-hint " ++ res) else (w, res)

def step (w : W) (line : String) : W × String :=
  let ws := words line
  match ws with
  | ["new", ps, mp, tp] =>
    ({ cfg := ⟨splitList "," ps, mp, tp⟩, F := {}, K := [] }, "ok")
  | _ =>
  if w.dead then (w, "dead") else
  match ws with
  | ["kset", n, t, ms, a, b, mem, lf, bz] =>
    match ms.toNat?, a.toNat?, b.toNat? with
    | some ms, some a, some b =>
      ({ w with K := w.K.set n ⟨t, ms, a, b, (splitList "+" mem).eraseDups, lf == "1", bz == "1"⟩ }, "ok")
    | _, _, _ => (w, "bad-op")
  | ["kdel", n] => ({ w with K := w.K.erase n }, "ok")
  | ["kdrop", n, k] =>
    match w.K.get n, k.toNat? with
    | some ks, some k =>
      let ms := sortS ks.members.eraseDups
      if ms.isEmpty then (w, "ok")
      else ({ w with K := w.K.set n { ks with members := sErase ks.members (ms.getD (k % ms.length) "") } }, "ok")
    | none, some _ => (w, "ok")
    | _, none => (w, "bad-op")
  | ["add", id, t, ms, a, b, mem] =>
    match ms.toNat?, a.toNat?, b.toNat? with
    | some ms, some a, some b =>
      ({ w with F := w.F.addOrReplace w.cfg id ⟨t, ms, a, b, false, false⟩ (splitList "+" mem) }, "ok")
    | _, _, _ => (w, "bad-op")
  | ["rm", id] =>
    match w.F.remove w.cfg id with
    | some F => ({ w with F := F }, "ok")
    | none => ({ w with dead := true }, "panic")
  | ["addm", id, mem] =>
    match w.F.addMembers w.cfg id (splitList "+" mem) with
    | some F => ({ w with F := F }, "ok")
    | none => ({ w with dead := true }, "panic")
  | ["delm", id, mem] =>
    match w.F.removeMembers w.cfg id (splitList "+" mem) with
    | some F => ({ w with F := F }, "ok")
    | none => ({ w with dead := true }, "panic")
  | ["filter", ns] =>
    ({ w with F := w.F.setFilter (if ns == "nil" then none else some (splitList "," ns)) }, "ok")
  | ["qresync"] => ({ w with F := { w.F with bgReq := true } }, "ok")
  | ["restart"] => ({ w with F := {}, sleeps := 0 }, "ok")
  | ["state"] => (w, showState w)
  | "apply" :: rest =>
    match parsePlan rest with
    | none => (w, "bad-op")
    | some plan =>
      let hr := (splitList "|" (parseKV "hr=" rest)).map (splitList ",")
      let hd := splitList "," (parseKV "hd=" rest)
      let w := { w with plan := plan, hintR := hr, hintD := hd, trace := [] }
      let (w, ok) := w.applyUpdates
      if !ok then ({ w with dead := true }, "panic")
      else fin w ("ok T=" ++ canonTrace w.trace.reverse ++ " " ++ showState w)
  | "applydel" :: rest =>
    match parsePlan rest with
    | none => (w, "bad-op")
    | some plan =>
      let hd := splitList "," (parseKV "hd=" rest)
      let w := { w with plan := plan, hintR := [], hintD := hd, trace := [] }
      let (w, r) := w.applyDeletions
      fin w (b01 r ++ " T=" ++ canonTrace w.trace.reverse ++ " " ++ showState w)
  | _ => (w, "bad-op")

def main : IO Unit := run step { cfg := ⟨[], "", ""⟩, F := {}, K := [] }
