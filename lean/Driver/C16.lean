import CalicoVerif.Util.Proto
import CalicoVerif.Model.C16
/-! Driver for C16.  Ops (lists: names separated by `,`, members by `+`, `-` = empty):
  `new <prefixes> <mainPfx> <tempPfx>`
  `kset <name> <type> <maxSize> <rmin> <rmax> <members> <listFails> <busy>` | `kdel <name>` | `kdrop <name> <k>`
  `add <id> <type> <maxSize> <rmin> <rmax> <members>` | `rm <id>` | `addm <id> <members>` | `delm <id> <members>`
  `filter <names|nil>` | `qresync` | `restart` | `state`
  `apply r=<ok|s|k,...> n=<0|1,...> l=<name:j,...> d=<0|1,...> ~ hr=<g|g..> hd=<names>`   (g = names separated by `,`)
  `applydel d=<..> ~ hd=<names>`
-/
open CalicoVerif CalicoVerif.C16 CalicoVerif.Proto

def splitList (sep : String) (s : String) : List String :=
  if s == "-" || s == "" then [] else (s.splitOn sep).filter (fun x => !x.isEmpty)

def b01 (b : Bool) : String := if b then "1" else "0"

def showMeta (m : Meta) : String :=
  s!"{m.type}/{m.maxSize}/{m.rangeMin}-{m.rangeMax}/{b01 m.deleteFailed}{b01 m.listFailed}"

def showMembers (l : List String) : String := "[" ++ "+".intercalate (sortS l.eraseDups) ++ "]"

def sortMap {α : Type} (m : Map α) : Map α := m.mergeSort (fun a b => a.1 ≤ b.1)

def showMap {α : Type} (f : α → String) (m : Map α) : String :=
  "{" ++ ";".intercalate ((sortMap m).map (fun p => p.1 ++ "=" ++ f p.2)) ++ "}"

def showK (k : KSet) : String :=
  s!"{k.type}/{k.maxSize}/{k.rangeMin}-{k.rangeMax}/{showMembers k.members}/{b01 k.listFails}{b01 k.busy}"

def showNames (l : List String) : String := "{" ++ ",".intercalate (sortS l) ++ "}"

def showState (w : W) : String :=
  let F := w.F
  "K" ++ showMap showK w.K ++ " A" ++ showMap showMeta F.allMeta ++ " D" ++ showMap showMeta F.desired ++
  " P" ++ showMap showMeta F.dp ++
  " M" ++ showMap (fun (t : MT) => showMembers t.des ++ "|" ++ showMembers t.dp) F.members ++
  s!" T{F.nextTemp} Y" ++ showNames F.dirty ++ " Qm" ++ showNames F.qMust ++ " Qb" ++ showNames F.qBg ++
  s!" b{b01 F.bgReq} f{b01 F.fullReq} X" ++ (match F.filter with | none => "nil" | some l => showNames l) ++
  s!" S{w.sleeps}"

/-- Canonical trace: consecutive `L:` items are sorted (their order is Go map order). -/
def canonTrace (tr : List String) : String :=
  let rec go : List String → List String → List String → List String
    | [], run, acc => acc ++ sortS run
    | x :: xs, run, acc =>
      if x.startsWith "L:" then go xs (x :: run) acc else go xs [] (acc ++ sortS run ++ [x])
  " ".intercalate (go tr [] [])

def parseKV (pfx : String) (ws : List String) : String :=
  match ws.find? (·.startsWith pfx) with
  | some w => (w.drop pfx.length).toString
  | none => ""

def parseRPlan (s : String) : Option RPlan :=
  if s == "ok" then some .ok else if s == "s" then some .startFail else s.toNat?.map .failAt

def parsePlan (ws : List String) : Option Plan := do
  let rs ← (splitList "," (parseKV "r=" ws)).mapM parseRPlan
  let ns := (splitList "," (parseKV "n=" ws)).map (· == "1")
  let ls ← (splitList "," (parseKV "l=" ws)).mapM (fun s =>
    match s.splitOn "@" with
    | [n, j] => j.toInt?.map (fun j => (n, j))
    | _ => none)
  let ds := (splitList "," (parseKV "d=" ws)).map (· == "1")
  pure { restores := rs, names := ns, lists := ls, destroys := ds }

def fin (w : W) (res : String) : W × String :=
  if w.badHint then ({ w with badHint := false }, "bad-hint " ++ res) else (w, res)

def parseOp (ws : List String) : Option Op :=
  match ws with
  | ["kset", n, t, ms, a, b, mem, lf, bz] =>
    match ms.toNat?, a.toNat?, b.toNat? with
    | some ms, some a, some b => some (.kset n ⟨t, ms, a, b, splitList "+" mem, lf == "1", bz == "1"⟩)
    | _, _, _ => none
  | ["kdel", n] => some (.kdel n)
  | ["kdrop", n, k] => k.toNat?.map (.kdrop n)
  | ["add", id, t, ms, a, b, mem] =>
    match ms.toNat?, a.toNat?, b.toNat? with
    | some ms, some a, some b => some (.add id t ms a b (splitList "+" mem))
    | _, _, _ => none
  | ["rm", id] => some (.rm id)
  | ["addm", id, mem] => some (.addm id (splitList "+" mem))
  | ["delm", id, mem] => some (.delm id (splitList "+" mem))
  | ["filter", ns] => some (.filter (if ns == "nil" then none else some (splitList "," ns)))
  | ["qresync"] => some .qresync
  | ["restart"] => some .restart
  | "apply" :: rest =>
    (parsePlan rest).map (fun plan =>
      .apply plan ((splitList "|" (parseKV "hr=" rest)).map (splitList ",")) (splitList "," (parseKV "hd=" rest)))
  | "applydel" :: rest =>
    (parsePlan rest).map (fun plan => .applydel plan (splitList "," (parseKV "hd=" rest)))
  | _ => none

def step (w : W) (line : String) : W × String :=
  let ws := words line
  match ws with
  | ["new", ps, mp, tp] =>
    ({ cfg := ⟨splitList "," ps, mp, tp⟩, F := {}, K := [] }, "ok")
  | ["state"] => if w.dead then (w, "dead") else (w, showState w)
  | _ =>
  if w.dead then (w, "dead") else
  match parseOp ws with
  | none => (w, "bad-op")
  | some op =>
    let (w', r) := w.stepOp op
    if w'.dead then (w', "panic")
    else
      match op with
      | .apply .. => fin w' ("ok T=" ++ canonTrace w'.trace.reverse ++ " " ++ showState w')
      | .applydel .. => fin w' (b01 r ++ " T=" ++ canonTrace w'.trace.reverse ++ " " ++ showState w')
      | _ => (w', "ok")

def main : IO Unit := run step { cfg := ⟨[], "", ""⟩, F := {}, K := [] }
