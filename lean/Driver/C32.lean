import CalicoVerif.Util.Proto
import CalicoVerif.Model.C32
/-! Driver for C32. Ops:
  `new <n> <interval> <now> <pushAfter> <agg>` | `add <key> <t> <cnt>` | `roll <0|1>` | `emit`
  `list <gte> <lt>` | `find <t>` | `stats <type 0|1|2> <groupByRule 0|1> <gte> <lt>`
Output: `<result> | <canonical ring dump>`.
-/
open CalicoVerif CalicoVerif.C32 CalicoVerif.Proto

def showWin (w : Win) : String := s!"{w.start}-{w.stop}:{w.cnt}"
def showBucket (b : Bucket) : String :=
  s!"{b.start}-{b.stop}:{showBool b.pushed}:[" ++ joinWith "," (b.keys.map toString) ++ "]"
def dump (r : Ring) : String :=
  s!"H={r.head} B=" ++ joinWith ";" (r.buckets.map showBucket) ++
  " D=" ++ joinWith ";" (r.dia.map (fun p => s!"{p.1}=" ++ joinWith "," (p.2.map showWin)))
def showColl (c : Coll) : String :=
  s!"{c.start}-{c.stop}[" ++ joinWith "," (c.flows.map (fun p => s!"{p.1}:{p.2}")) ++ "]"
def showColls (cs : List Coll) : String := "sink=" ++ joinWith ";" (cs.map showColl)

def step (r : Ring) (line : String) : Ring × String :=
  let bad := (r, "bad-op")
  match words line with
  | ["new", n, i, now, pa, ag] =>
    match n.toNat?, i.toInt?, now.toInt?, pa.toNat?, ag.toNat? with
    | some n, some i, some now, some pa, some ag =>
      let r' := newRing n i now pa ag; (r', "ok | " ++ dump r')
    | _, _, _, _, _ => bad
  | ["add", k, t, c] =>
    match k.toNat?, t.toInt?, c.toInt? with
    | some k, some t, some c => let p := r.addFlow k t c; (p.1, showBool p.2 ++ " | " ++ dump p.1)
    | _, _, _ => bad
  | ["roll", s] =>
    match s.toNat? with
    | some s => let p := r.rollover (s != 0); (p.1, s!"{p.2.1} " ++ showColls p.2.2 ++ " | " ++ dump p.1)
    | none => bad
  | ["emit"] => let p := r.emit; (p.1, showColls p.2 ++ " | " ++ dump p.1)
  | ["list", a, b] =>
    match a.toInt?, b.toInt? with
    | some a, some b =>
      (r, joinWith "," ((r.list a b).map (fun q => s!"{q.1}:{q.2.1}:{q.2.2.1}:{q.2.2.2}")) ++ " | " ++ dump r)
    | _, _ => bad
  | ["stats", typ, gb, a, b] =>
    match typ.toNat?, gb.toNat?, a.toInt?, b.toInt? with
    | some typ, some gb, some a, some b =>
      let res := match r.stats typ (gb != 0) a b with
        | none => "err"
        | some rows => joinWith ";" (rows.map (fun (x : SKey × Counts) =>
            s!"{x.1.1}/{x.1.2.1}/{x.1.2.2.1}/{x.1.2.2.2}:{x.2.ain},{x.2.aout},{x.2.din},{x.2.dout},{x.2.pin},{x.2.pout}"))
      (r, res ++ " | " ++ dump r)
    | _, _, _, _ => bad
  | ["find", t] =>
    match t.toInt? with
    | some t => (r, (match r.findBucket t with | some i => toString i | none => "-1") ++ " | " ++ dump r)
    | none => bad
  | _ => bad

def main : IO Unit := run step (newRing 1 1 0 0 1)
