import CalicoVerif.Util.Proto
import CalicoVerif.Model.C10
/-! Driver for C10.  Ops (names are `x<hex>` tokens, lists comma separated, `-` = empty list):
  `wl <ipt|nft> <drop|reject> <names>`                                   → rendered chains
  `host <ipt|nft> <both|from|to> <0|1> <default|-> <wlprefixes> <names>` → rendered chains
  `maps <names>`                                                         → DispatchMappings
  `probe <chain> <in-iface> <out-iface>`                                 → evaluation of the current chains
-/
open CalicoVerif CalicoVerif.Netfilter CalicoVerif.C10 CalicoVerif.Proto

structure St where
  dp : Dataplane := .ipt
  names : List Bytes := []
  chains : List Chain := []
  maps : MapsState := {}
  nftChains : List Chain := []
  epm : EpmState := {}

def hexVal (c : Char) : Option Nat :=
  if '0' ≤ c ∧ c ≤ '9' then some (c.toNat - 48)
  else if 'a' ≤ c ∧ c ≤ 'f' then some (c.toNat - 87) else none

def parseHexBytes : List Char → Option Bytes
  | [] => some []
  | a :: b :: rest => match hexVal a, hexVal b, parseHexBytes rest with
    | some x, some y, some bs => some (UInt8.ofNat (x * 16 + y) :: bs)
    | _, _, _ => none
  | _ => none

def parseName (s : String) : Option Bytes :=
  match s.toList with
  | 'x' :: rest => parseHexBytes rest
  | _ => none

def parseNames (s : String) : Option (List Bytes) :=
  if s = "-" then some [] else (s.splitOn ",").mapM parseName

def parseDp : String → Option Dataplane
  | "ipt" => some .ipt
  | "nft" => some .nft
  | _ => none

def showChains (dp : Dataplane) (cs : List Chain) : String :=
  " || ".intercalate (cs.map fun c =>
    s!"[{c.name}] " ++ " ;; ".intercalate (c.rules.map (Rule.render dp false c.name)))

def showMap (m : List (Bytes × String)) : String :=
  ",".intercalate (m.map fun kv => s!"{escBytes kv.1}=goto {kv.2}")

/-- which interfaces carry host endpoint chains: the claimed existing interfaces, plus `*` -/
def epmOut (st : St) : St × String :=
  let l := (st.epm.names.map escBytes ++ (if st.epm.wild then ["*"] else [])).mergeSort (fun a b => decide (a ≤ b))
  (st, if l.isEmpty then "heps=-" else "heps=" ++ ",".intercalate l)

def step (st : St) (line : String) : St × String :=
  match words line with
  | ["wl", dp, deny, names] =>
    match parseDp dp, parseNames names, (if deny = "drop" then some false else if deny = "reject" then some true else none) with
    | some dp, some ns, some rej =>
      match workloadDispatchChains dp rej ns with
      | some cs =>
        let ok := chainNamesOK cs (ns.map (endpointChainName pfxFromWl) ++ ns.map (endpointChainName pfxToWl))
        ({ dp := dp, names := ns, chains := cs }, showChains dp cs ++ s!" ## names-ok={showBool ok}")
      | none => ({ dp := dp, names := ns, chains := [] }, "panic")
    | _, _, _ => (st, "bad-op")
  | ["host", dp, dirs, aof, dflt, wlp, names] =>
    let dirs? : Option Directions := match dirs with
      | "both" => some .both | "from" => some .from | "to" => some .to | _ => none
    let aof? : Option Bool := match aof with | "0" => some false | "1" => some true | _ => none
    let dflt? : Option Bytes := if dflt = "-" then some [] else parseName dflt
    match parseDp dp, dirs?, aof?, dflt?, parseNames wlp, parseNames names with
    | some dp, some dirs, some aof, some dflt, some wlp, some ns =>
      match hostDispatchChains dp ns dflt wlp dirs aof with
      | some cs =>
        let pf := ["cali-fh-", "cali-th-", "cali-fhfw-", "cali-thfw-"]
        let ok := chainNamesOK cs (pf.flatMap fun p => (dflt :: ns).map (endpointChainName p))
        ({ dp := dp, names := ns, chains := cs }, showChains dp cs ++ s!" ## names-ok={showBool ok}")
      | none => ({ dp := dp, names := ns, chains := [] }, "panic")
    | _, _, _, _, _, _ => (st, "bad-op")
  | ["maps", names] =>
    match parseNames names with
    | some ns => let (f, t) := dispatchMappings ns; (st, showMap f ++ " | " ++ showMap t)
    | none => (st, "bad-op")
  | ["nft-new"] =>
    ({ st with maps := {}, nftChains := (workloadDispatchChains .nft false []).getD [] }, "ok")
  | ["nft-set", names] =>
    match parseNames names with
    | none => (st, "bad-op")
    | some ns =>
      match workloadDispatchChains .nft false ns with
      | none => (st, "panic")
      | some cs =>
        let m := st.maps.setWorkloads ns
        let dump (l : List Member) : String :=
          ",".intercalate ((l.map fun kv => s!"{escBytes kv.1}=goto {kv.2}").mergeSort (fun a b => decide (a ≤ b)))
        ({ st with maps := m, nftChains := cs }, dump m.fromWl.dataplane ++ " | " ++ dump m.toWl.dataplane)
  | ["nft-probe", i] =>
    match parseName i with
    | none => (st, "bad-op")
    | some i =>
      let pkt : Packet := { inIface := i, outIface := i }
      let f := evalChain st.maps.env st.nftChains pkt 8 chainFromWl 0
      let t := evalChain st.maps.env st.nftChains pkt 8 chainToWl 0
      (st, s!"from={showResult f} to={showResult t}")
  | ["epm-new"] => ({ st with epm := {} }, "ok")
  | ["epm-hep", id, name, _pols] =>
    let nm? : Option (Option Bytes) := if name = "*" then some none else (parseName name).map some
    match nm? with
    | some nm => epmOut { st with epm := st.epm.setHep id nm }
    | none => (st, "bad-op")
  | ["epm-hep-rm", id] => epmOut { st with epm := st.epm.rmHep id }
  | ["epm-iface", n, p] =>
    match parseName n with
    | some n => epmOut { st with epm := st.epm.setIface n (p = "1") }
    | none => (st, "bad-op")
  | ["epm-pol", _, _] => epmOut st
  | ["epm-pol-rm", _] => epmOut st
  | ["epm-probe", n] =>
    match parseName n with
    | none => (st, "bad-op")
    | some n =>
      let pkt : Packet := { inIface := n, outIface := n }
      let ev (cs : Option (List Chain)) (root : String) : String :=
        showResult (evalChain { dp := .ipt } (cs.getD []) pkt 8 root 0)
      let f := st.epm.filterDispatch
      (st, s!"f={ev f "cali-from-host-endpoint"} t={ev f "cali-to-host-endpoint"} ff={ev f "cali-from-hep-forward"} tf={ev f "cali-to-hep-forward"} mt={ev st.epm.mangleDispatch "cali-to-host-endpoint"}")
  | ["probe", chain, i, o] =>
    match parseName i, parseName o with
    | some i, some o =>
      let pkt : Packet := { inIface := i, outIface := o }
      (st, showResult (evalChain (mkEnv st.dp st.names) st.chains pkt 8 chain 0))
    | _, _ => (st, "bad-op")
  | _ => (st, "bad-op")

def main : IO Unit := run step {}
