import CalicoVerif.Util.Proto
import CalicoVerif.Model.C45
/-! Driver for C45: ops (keys / hashed byte strings are `x<hex>` tokens, values are tokens)
  `cfg <hasher spec>`            -> `ok`                      (harness-side configuration, ignored by the model)
  `new <replicas> <probes>`      -> `ok` | `panic`            (also clears the hash table)
  `h <xbytes> <uint64>`          -> `ok`                      (one point of the byte-slice hasher)
  `ins <xkey> <value>`           -> `ok` | `nohash`
  `rem <xkey>`                   -> `ok`
  `len`                          -> Go `Len()`
  `look <xkey>`                  -> `none` | `owner <value>` | `zero` | `panic` | `nohash`
  `dump`                         -> `<sorted 0/1> d=<deleted keys sorted> e=<hash:key,...>` (needs the export hook)
-/
open CalicoVerif CalicoVerif.C45 CalicoVerif.Proto

structure St where
  ring : Option (Ring String)
  table : List (List Nat × Nat)

def hexVal (c : Char) : Option Nat :=
  if '0' ≤ c ∧ c ≤ '9' then some (c.toNat - '0'.toNat)
  else if 'a' ≤ c ∧ c ≤ 'f' then some (c.toNat - 'a'.toNat + 10)
  else none

def parseHexList : List Char → Option (List Nat)
  | [] => some []
  | [_] => none
  | a :: b :: rest => do
    let x ← hexVal a
    let y ← hexVal b
    let r ← parseHexList rest
    pure ((x * 16 + y) :: r)

def parseX (s : String) : Option (List Nat) :=
  match s.toList with
  | 'x' :: rest => parseHexList rest
  | _ => none

def hexDigit (n : Nat) : Char :=
  if n < 10 then Char.ofNat (n + '0'.toNat) else Char.ofNat (n - 10 + 'a'.toNat)

def showX (bs : List Nat) : String :=
  "x" ++ String.ofList (bs.flatMap (fun b => [hexDigit (b / 16), hexDigit (b % 16)]))

def tlookup (t : List (List Nat × Nat)) (b : List Nat) : Option Nat :=
  match t with
  | [] => none
  | (k, v) :: rest => if k = b then some v else tlookup rest b

def hashOf (t : List (List Nat × Nat)) : List Nat → Nat := fun b => (tlookup t b).getD 0

/-- Are all salted inputs `key,0..n-1` present in the table? -/
def haveAll (t : List (List Nat × Nat)) (key : Key) (n : Nat) : Bool :=
  (List.range n).all (fun i => (tlookup t (key ++ [0] ++ le32 i)).isSome)

def step (s : St) (line : String) : St × String :=
  match words line with
  | ["new", a, b] =>
    match a.toInt?, b.toInt? with
    | some r, some p =>
      match (Ring.new r p : Option (Ring String)) with
      | some ring => ({ ring := some ring, table := [] }, "ok")
      | none => ({ ring := none, table := [] }, "panic")
    | _, _ => (s, "bad-op")
  | ["cfg", _] => (s, "ok")
  | ["h", a, b] =>
    match parseX a, b.toNat? with
    | some bytes, some v => ({ s with table := (bytes, v) :: s.table }, "ok")
    | _, _ => (s, "bad-op")
  | ["ins", a, v] =>
    match s.ring, parseX a with
    | some r, some k =>
      let needs := !(r.deleted.contains k) && (mget r.members k).isNone
      if needs && !(haveAll s.table k r.replicas) then (s, "nohash")
      else ({ s with ring := some (r.insert (hashOf s.table) k v) }, "ok")
    | _, _ => (s, "bad-op")
  | ["rem", a] =>
    match s.ring, parseX a with
    | some r, some k => ({ s with ring := some (r.remove k) }, "ok")
    | _, _ => (s, "bad-op")
  | ["len"] =>
    match s.ring with
    | some r => (s, toString r.len)
    | none => (s, "bad-op")
  | ["look", a] =>
    match s.ring, parseX a with
    | some r, some k =>
      if r.len != 0 && !(haveAll s.table k r.probes) then (s, "nohash")
      else
        let (r', res) := r.lookup (hashOf s.table) k
        ({ s with ring := some r' },
          match res with
          | .absent => "none"
          | .owner (some v) => "owner " ++ v
          | .owner none => "zero"
          | .panic => "panic")
    | _, _ => (s, "bad-op")
  | ["dump"] =>
    match s.ring with
    | some r =>
      let del := (r.deleted.mergeSort (fun a b => decide (a ≤ b))).map showX
      let mem := ((r.members.map (·.1)).mergeSort (fun a b => decide (a ≤ b))).map showX
      let es := r.entries.map (fun e => toString e.hash ++ ":" ++ showX e.key)
      (s, s!"{showBool r.sorted} m={joinWith "," mem} d={joinWith "," del} e={joinWith "," es}")
    | none => (s, "bad-op")
  | _ => (s, "bad-op")

def main : IO Unit := run step { ring := none, table := [] }
