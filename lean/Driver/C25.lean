import CalicoVerif.Util.Proto
import CalicoVerif.Model.C25
/-! Driver for C25 (DedupeBuffer): ops
  `new` | `upd k:v:r:t …` (v = `-` for nil) | `status s k…` (k… = map-iteration order observed on the
  real code) | `restart` | `pull` | `drain` | `dump`
-/
open CalicoVerif CalicoVerif.C25 CalicoVerif.Proto

def parseUpd (w : String) : Option Upd :=
  match w.splitOn ":" with
  | [k, v, r, t] =>
    match k.toNat?, r.toNat?, t.toNat? with
    | some k, some r, some t =>
      if v == "-" then some { key := k, val := none, rev := r, ut := t }
      else match v.toNat? with
        | some v => some { key := k, val := some v, rev := r, ut := t }
        | none => none
    | _, _, _ => none
  | _ => none

def parseAll {α} (f : String → Option α) : List String → Option (List α)
  | [] => some []
  | w :: ws => match f w, parseAll f ws with
    | some a, some as => some (a :: as)
    | _, _ => none

def showUpd (u : Upd) : String :=
  let v := match u.val with | some v => toString v | none => "-"
  s!"{u.key}.{v}.{u.rev}.{u.ut}"

/-- The sink calls `dropLockAndSendBatch` makes for one batch. -/
def showCalls : List Item → List Upd → List String
  | [], [] => []
  | [], acc => ["U:" ++ joinWith "," (acc.reverse.map showUpd)]
  | Item.up u :: is, acc => showCalls is (u :: acc)
  | Item.st s :: is, [] => s!"S:{s}" :: showCalls is []
  | Item.st s :: is, acc => ("U:" ++ joinWith "," (acc.reverse.map showUpd)) :: s!"S:{s}" :: showCalls is []

def insertSorted (k : Nat) : List Nat → List Nat
  | [] => [k]
  | x :: xs => if k ≤ x then k :: x :: xs else x :: insertSorted k xs

def sortNat (l : List Nat) : List Nat := l.foldr insertSorted []

def showNats (l : List Nat) : String := joinWith "," ((sortNat l).map toString)

def showItem : Item → String
  | .st s => s!"S{s}"
  | .up u => showUpd u

def pendingKeys (p : List Item) : List Nat :=
  p.filterMap (fun | .up u => some u.key | .st _ => none)

def showDump (b : Buf) : String :=
  let n := match b.notSeen with | some n => showNats n | none => "nil"
  s!"P={joinWith "," (b.pending.map showItem)} K={showNats (pendingKeys b.pending)} L={showNats b.live} N={n} M={b.mostRecent}"

def step (b : Buf) (line : String) : Buf × String :=
  match words line with
  | ["new"] => (Buf.new, "ok")
  | "upd" :: ws => match parseAll parseUpd ws with
    | some us => (onUpdates b us, "ok")
    | none => (b, "bad-op")
  | "status" :: s :: ws => match s.toNat?, parseAll String.toNat? ws with
    | some s, some order =>
      let synth : Option (List Key) := if s == inSync then b.notSeen else none
      let okOrder := match synth with
        | some n => order.isPerm n
        | none => order.isEmpty
      (onStatus b s order, if okOrder then "ok" else "bad-order")
    | _, _ => (b, "bad-op")
  | ["restart"] => (onRestart b, "ok")
  | ["pull"] =>
    if b.pending.isEmpty then (b, "empty")
    else let (b', batch) := pullNextBatch b batchSize; (b', joinWith ";" (showCalls batch []))
  | ["drain"] =>
    if b.pending.isEmpty then (b, "empty")
    else
      let (b', batches) := drain b b.pending.length
      (b', joinWith ";" (batches.flatMap (fun batch => showCalls batch [])))
  | ["dump"] => (b, showDump b)
  | _ => (b, "bad-op")

def main : IO Unit := run step Buf.new
