import CalicoVerif.Util.Proto
import CalicoVerif.Model.C12
/-! Driver for C12.  Op: `chk p=<proto> [s=<hex8> d=<hex8>] t=<tiers> f=<profiles>` → `alp=<v> bpf=<v> ipt=<v>`
(tiers `|`-separated `<D|P>:<policy>/<policy>`; policy (`~` prefix = staged) / profile = `,`-separated rules
`<a|d|p|n|l>.<proto|x>.<notproto|x>[.<src>.<notsrc>.<dst>.<notdst>[.<ipVersion>]]`, CIDR lists `+`-separated
`<hex8>_<len>` (IPv4) / `<hex32>_<len>` (IPv6) or `x`;
`_` = no rules, `-` = none; default flow 10.0.0.1 → 10.0.0.2). -/
open CalicoVerif CalicoVerif.C11 CalicoVerif.C12 CalicoVerif.Proto

def parsePr (s : String) : Option (Option Proto) :=
  if s == "x" then some none
  else match s.toInt? with
    | some n => some (some (.num n))
    | none => some (some (.name s))

def hexVal (c : Char) : Option Nat :=
  if '0' ≤ c ∧ c ≤ '9' then some (c.toNat - '0'.toNat)
  else if 'a' ≤ c ∧ c ≤ 'f' then some (c.toNat - 'a'.toNat + 10) else none

def parseHex (s : String) : Option Nat :=
  if s.isEmpty then none else s.toList.foldlM (fun acc c => (hexVal c).map (fun v => acc * 16 + v)) 0

def parseNet (s : String) : Option Net :=
  match s.splitOn "_" with
  | [a, l] => do
    let v ← parseHex a
    let l ← l.toNat?
    some { v6 := a.length == 32, addr := v, pfx := l }
  | _ => none

def parseNets (s : String) : Option (List Net) :=
  if s == "x" then some [] else (s.splitOn "+").mapM parseNet

def parseAct (a : String) : Option String :=
  if a == "a" then some "allow" else if a == "d" then some "deny" else if a == "p" then some "pass"
  else if a == "n" then some "next-tier" else if a == "l" then some "log" else none

def parseRule (s : String) : Option Rule :=
  match s.splitOn "." with
  | [a, pr, np] => do
    let act ← parseAct a
    let pr ← parsePr pr
    let np ← parsePr np
    some { action := act, protocol := pr, notProtocol := np }
  | [a, pr, np, sn, nsn, dn, ndn] => do
    let act ← parseAct a
    let pr ← parsePr pr
    let np ← parsePr np
    let sn ← parseNets sn
    let nsn ← parseNets nsn
    let dn ← parseNets dn
    let ndn ← parseNets ndn
    some { action := act, protocol := pr, notProtocol := np, srcNet := sn, notSrcNet := nsn, dstNet := dn, notDstNet := ndn }
  | [a, pr, np, sn, nsn, dn, ndn, ver] => do
    let act ← parseAct a
    let pr ← parsePr pr
    let np ← parsePr np
    let sn ← parseNets sn
    let nsn ← parseNets nsn
    let dn ← parseNets dn
    let ndn ← parseNets ndn
    let ver ← ver.toNat?
    some { action := act, ipVersion := ver, protocol := pr, notProtocol := np, srcNet := sn, notSrcNet := nsn,
           dstNet := dn, notDstNet := ndn }
  | _ => none

def parseRules (s : String) : Option Policy :=
  if s == "_" then some ⟨[]⟩ else ((s.splitOn ",").mapM parseRule).map Policy.mk

def parsePolS (s : String) : Option PolS :=
  if s.startsWith "~" then (parseRules (s.drop 1).toString).map (fun p => ⟨true, p.rules⟩)
  else (parseRules s).map (fun p => ⟨false, p.rules⟩)

def parseTier (s : String) : Option Tier :=
  match s.splitOn ":" with
  | [e, pols] => do
    let ps ← (pols.splitOn "/").mapM parsePolS
    some (enforcedTier { endAction := if e == "P" then .pass else .deny, policies := ps })
  | _ => none

def showV : Verdict → String
  | .allow => "allow" | .deny => "deny" | .xdpPass => "xdp_pass"

def evalChk (p sa da t f : String) : String :=
    match ((p.drop 2).toString.toNat?), parseHex sa, parseHex da, (t.drop 2).toString, (f.drop 2).toString with
    | some n, some src, some dst, ts, fs =>
      let tiers := if ts == "-" then some [] else (ts.splitOn "|").mapM parseTier
      let profs := if fs == "-" then some [] else (fs.splitOn "|").mapM parseRules
      match tiers, profs with
      | some tiers, some profs =>
        let r : Rules := { tiers := tiers, profiles := profs, suppressNormalHostPolicy := true }
        let env : Env := { c := {} }
        -- the state holds addresses in network byte order: the words as loaded are byte-swapped
        let sw := rev32bv (BitVec.ofNat 32 src)
        let dw := rev32bv (BitVec.ofNat 32 dst)
        let pk : Pkt := { src := [sw, 0, 0, 0], preDst := [dw, 0, 0, 0], postDst := [dw, 0, 0, 0], sport := 0, icmpW := 0,
                          preDport := 0, postDport := 0, proto := BitVec.ofNat 8 n, flags := 0 }
        let alp := match checkTiersN (n : Int) src dst profs tiers with
          | some true => "allow" | some false => "deny" | none => "invalid"
        s!"alp={alp} bpf={showV (bpfVerdict env r pk)} ipt={showV (iptVerdict env r pk)}"
      | _, _ => "bad-op"
    | _, _, _, _, _ => "bad-op"

def step (_ : Unit) (line : String) : Unit × String :=
  match words line with
  | ["chk", p, t, f] => ((), evalChk p "0a000001" "0a000002" t f)
  | ["chk", p, s, d, t, f] => ((), evalChk p (s.drop 2).toString (d.drop 2).toString t f)
  | _ => ((), "bad-op")

def main : IO Unit := run step ()
