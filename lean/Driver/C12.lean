import CalicoVerif.Util.Proto
import CalicoVerif.Model.C12
/-! Driver for C12.  Op: `chk p=<proto> t=<tiers> f=<profiles>` → `alp=<v> bpf=<v> ipt=<v>`
(tiers `|`-separated `<D|P>:<policy>/<policy>`; policy (`~` prefix = staged) / profile = `,`-separated rules
`<a|d|p|n|l>.<proto|x>.<notproto|x>`, `_` = no rules, `-` = none). -/
open CalicoVerif CalicoVerif.C11 CalicoVerif.C12 CalicoVerif.Proto

def parsePr (s : String) : Option (Option Proto) :=
  if s == "x" then some none
  else match s.toInt? with
    | some n => some (some (.num n))
    | none => some (some (.name s))

def parseRule (s : String) : Option Rule :=
  match s.splitOn "." with
  | [a, pr, np] => do
    let act ← (if a == "a" then some "allow" else if a == "d" then some "deny" else if a == "p" then some "pass"
      else if a == "n" then some "next-tier" else if a == "l" then some "log" else none)
    let pr ← parsePr pr
    let np ← parsePr np
    some { action := act, protocol := pr, notProtocol := np }
  | _ => none

def parseRules (s : String) : Option Policy :=
  if s == "_" then some ⟨[]⟩ else ((s.splitOn ",").mapM parseRule).map Policy.mk

def parsePolS (s : String) : Option PolS :=
  if s.startsWith "~" then (parseRules (s.drop 1).toString).map (fun p => ⟨true, p.rules⟩)
  else (parseRules s).map (fun p => ⟨false, p.rules⟩)

def parseTier (s : String) : Option Tier :=
  match s.splitOn ":" with
  | [e, pols] => do
    let ps ← (pols.splitOn "/").mapM parsePolS
    some (enforcedTier { endAction := if e == "P" then .pass else .deny, policies := ps })
  | _ => none

def showV : Verdict → String
  | .allow => "allow" | .deny => "deny" | .xdpPass => "xdp_pass"

def step (_ : Unit) (line : String) : Unit × String :=
  match words line with
  | ["chk", p, t, f] =>
    match ((p.drop 2).toString.toNat?), (t.drop 2).toString, (f.drop 2).toString with
    | some n, ts, fs =>
      let tiers := if ts == "-" then some [] else (ts.splitOn "|").mapM parseTier
      let profs := if fs == "-" then some [] else (fs.splitOn "|").mapM parseRules
      match tiers, profs with
      | some tiers, some profs =>
        let r : Rules := { tiers := tiers, profiles := profs, suppressNormalHostPolicy := true }
        let env : Env := { c := {} }
        let pk : Pkt := { src := [0, 0, 0, 0], preDst := [0, 0, 0, 0], postDst := [0, 0, 0, 0], sport := 0, icmpW := 0,
                          preDport := 0, postDport := 0, proto := BitVec.ofNat 8 n, flags := 0 }
        let alp := match checkTiers (n : Int) profs tiers with
          | some true => "allow" | some false => "deny" | none => "invalid"
        ((), s!"alp={alp} bpf={showV (bpfVerdict env r pk)} ipt={showV (iptVerdict env r pk)}")
      | _, _ => ((), "bad-op")
    | _, _, _ => ((), "bad-op")
  | _ => ((), "bad-op")

def main : IO Unit := run step ()
