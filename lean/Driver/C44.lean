import CalicoVerif.Util.Proto
import CalicoVerif.Model.C44
/-! Driver for C44. Ops: `new` | `up <id> <iface> <adminUp 0|1> <data>` | `rm <id>` |
`batch u:<id>:<iface>:<up>:<data> r:<id> …` (several updates, ONE CompleteDeferredWork; answers `ok` and keeps
every outcome any processing order can give) | `observe <dump with _ for space>` (answers `member` iff the
observed real state is one of those outcomes, and continues from it); every other op answers the dump
`A[id=iface.up.data,…] I[iface=id,…] S[id=iface.up.data,…] C[iface=id.data|iface=down,…] R[iface=id.data,…]`. -/
open CalicoVerif CalicoVerif.C44 CalicoVerif.Proto

def sortK {α : Type} (m : List (Nat × α)) : List (Nat × α) := m.mergeSort (fun a b => a.1 ≤ b.1)
def showMap {α : Type} (m : List (Nat × α)) (f : α → String) : String :=
  if m.isEmpty then "-" else joinWith "," ((sortK m).map (fun p => s!"{p.1}={f p.2}"))
def showEp (e : Ep) : String := s!"{e.name}.{showBool e.up}.{e.data}"

def dump (m : Mgr) : String :=
  s!"A[{showMap m.active showEp}] I[{showMap m.ifaceToID toString}] S[{showMap m.shadowed showEp}] " ++
  s!"C[{showMap m.chains (fun c => if c.up then s!"{c.id}.{c.data}" else "down")}] " ++
  s!"R[{showMap m.routes (fun r => s!"{r.1}.{r.2}")}]"

structure St where
  m : Mgr
  cands : List Mgr   -- possible states after a `batch`, until the `observe`

def parseEntry (w : String) : Option (Nat × Option Ep) :=
  match w.splitOn ":" with
  | ["u", a, b, c, d] => match a.toNat?, b.toNat?, c.toNat?, d.toNat? with
    | some id, some n, some u, some dt => some (id, some { name := n, up := u != 0, data := dt })
    | _, _, _, _ => none
  | ["r", a] => a.toNat?.map (fun id => (id, none))
  | _ => none

def dedupStr : List String → List String
  | [] => []
  | x :: r => if r.contains x then dedupStr r else x :: dedupStr r

def stepM (m : Mgr) (line : String) : Mgr × String :=
  match words line with
  | ["new"] => (Mgr.new, dump Mgr.new)
  | ["up", a, b, c, d] => match a.toNat?, b.toNat?, c.toNat?, d.toNat? with
    | some id, some n, some u, some dt =>
      let m' := m.step (.update id { name := n, up := u != 0, data := dt })
      (m', dump m')
    | _, _, _, _ => (m, "bad-op")
  | ["rm", a] => match a.toNat? with
    | some id => let m' := m.step (.remove id); (m', dump m')
    | none => (m, "bad-op")
  | _ => (m, "bad-op")

def step (s : St) (line : String) : St × String :=
  match words line with
  | "batch" :: es => match es.mapM parseEntry with
    | some us => ({ s with cands := s.m.batch us }, "ok")
    | none => (s, "bad-op")
  | ["observe", d] =>
    let want := d.replace "_" " "
    match s.cands.find? (fun c => dump c == want) with
    | some c => ({ m := c, cands := [] }, "member")
    | none => (s, "not-member:" ++ joinWith "|" (dedupStr (s.cands.map dump)))
  | _ => let (m', o) := stepM s.m line; ({ m := m', cands := [] }, o)

def main : IO Unit := run step { m := Mgr.new, cands := [] }
