import CalicoVerif.Util.Proto
import CalicoVerif.Model.C20
/-! Driver for C20: pool-selection queries (`allowed`, `cap`) answered by the model's
decision logic, and the backend-call log of single-threaded AutoAssign histories
replayed through `Cas.step` (the reservation filter of `autoAssign` included). -/
open CalicoVerif CalicoVerif.Proto

def main : IO Unit := run C20.step { cas := Cas.St.init 0 0, pools := [] }
