import CalicoVerif.Util.Proto
import CalicoVerif.Model.C24
/-! Driver for C24 (Typha snapshot cache + per-connection sender): ops
  `new B` | `upd k:v:r:t …` | `status s` | `loop t` | `snap id maxMsg` |
  `deltas id maxMsg minAge maxBehind grace lag…`
-/
open CalicoVerif CalicoVerif.C24 CalicoVerif.Proto

structure DState where
  cache : Cache
  conns : List (Nat × Nat)   -- connection id ↦ chain index of its snapshot crumb

def parseSU (w : String) : Option SU :=
  match w.splitOn ":" with
  | [k, v, r, t] =>
    match k.toNat?, r.toNat?, t.toNat? with
    | some k, some r, some t =>
      if v == "-" then some { key := k, val := none, rev := r, ut := t }
      else match v.toNat? with
        | some v => some { key := k, val := some v, rev := r, ut := t }
        | none => none
    | _, _, _ => none
  | _ => none

def parseAll {α} (f : String → Option α) : List String → Option (List α)
  | [] => some []
  | w :: ws => match f w, parseAll f ws with
    | some a, some as => some (a :: as)
    | _, _ => none

def showSU (u : SU) : String :=
  let v := match u.val with | some v => toString v | none => "-"
  s!"{u.key}.{v}.{u.rev}.{u.ut}"

def showSUs (l : List SU) : String := joinWith "," (l.map showSU)

def showCrumb (c : Crumb) : String :=
  s!"C{c.seq}@{c.ts}:S{c.status}:D[{showSUs c.deltas}]:K[{showSUs c.kvs}]"

def showMsg : Msg → String
  | .kvs l => s!"K[{showSUs l}]"
  | .status s => s!"S{s}"

def showMsgs (l : List Msg) : String := if l.isEmpty then "none" else joinWith ";" (l.map showMsg)

def step (d : DState) (line : String) : DState × String :=
  let c := d.cache
  match words line with
  | ["new", b] => match b.toNat? with
    | some b => ({ cache := Cache.new b, conns := [] }, "ok")
    | none => (d, "bad-op")
  | "upd" :: ws => match parseAll parseSU ws with
    | some us =>
      if us.isEmpty then (d, "ok")
      else if c.inputQ.length ≥ 2 * c.maxBatch then (d, "full")
      else ({ d with cache := push c (.ups us) }, "ok")
    | none => (d, "bad-op")
  | ["status", s] => match s.toNat? with
    | some s =>
      if c.inputQ.length ≥ 2 * c.maxBatch then (d, "full")
      else ({ d with cache := push c (.st s) }, "ok")
    | none => (d, "bad-op")
  | ["loop", t] => match t.toNat? with
    | some t =>
      if c.inputQ.isEmpty then (d, "idle")
      else
        let c' := loopOnce c t
        let newCrumbs := c'.chain.drop c.chain.length
        ({ d with cache := c' }, if newCrumbs.isEmpty then "nocrumb" else joinWith " " (newCrumbs.map showCrumb))
    | none => (d, "bad-op")
  | ["snap", id, m] => match id.toNat?, m.toNat? with
    | some id, some m =>
      if m = 0 then (d, "bad-op")
      else
        ({ d with conns := (id, c.chain.length - 1) :: d.conns.filter (fun p => p.1 != id) },
         showMsgs (snapshotMsgs c.cur m))
    | _, _ => (d, "bad-op")
  | "deltas" :: id :: m :: a :: f :: g :: ws =>
    match id.toNat?, m.toNat?, a.toNat?, f.toNat?, g.toNat?, parseAll String.toNat? ws with
    | some id, some m, some a, some f, some g, some lags =>
      match d.conns.find? (fun p => p.1 == id) with
      | none => (d, "noconn")
      | some (_, start) =>
        if m = 0 || a = 0 || c.cur.deltas.isEmpty || start + 1 ≥ c.chain.length then (d, "skip")
        else
          let r := sendDeltas c.chain { maxMsg := m, minBatchAge := a, maxFallBehind := f, graceExpired := g != 0 } start lags
          let seq := ((c.chain[r.pos]?).map (·.seq)).getD 0
          (d, s!"{showMsgs r.msgs}|pos={seq}|disc={showBool r.disconnected}|held={r.held.length}")
    | _, _, _, _, _, _ => (d, "bad-op")
  | _ => (d, "bad-op")

def main : IO Unit := run step { cache := Cache.new 100, conns := [] }
