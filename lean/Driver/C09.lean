import CalicoVerif.Util.Proto
import CalicoVerif.Model.C09
/-! Driver for C09.  Ops (chain names are tokens computed by the real code):
  `cfg <ipt|nft> <flowlogs> <reject> <allowRet> <noCtInvalid> <dropVXLAN> <dropIPIP>` → ok (resets the chain set)
  `pol <s|e> <inChain> <outChain> <action> <proto> <id> <commentInHex> <commentOutHex>` → the two policy chains (nothing for staged)
  `prof <inChain> <outChain> <action> <proto> <name> <commentInHex> <commentOutHex>`  → the two profile chains
  `group <chain> <pol:staged,…>`  → the policy-group chain
  `wep <adminUp> <twChain> <fwChain> <tiersIn> <tiersOut> <profIn> <profOut>` → the two workload endpoint chains
  `eval <chain> <proto> <ctstate>` → evaluation of the accumulated chain set + reference verdict
  tiers: `name!defaultPass!group&group|…`, group: `chain~pol:staged,…`; `-` = empty
-/
open CalicoVerif CalicoVerif.Netfilter CalicoVerif.Policy CalicoVerif.C08 CalicoVerif.C09 CalicoVerif.Proto

structure PolInfo where
  inChain : String
  outChain : String
  staged : Bool
  action : String
  proto : String

structure St where
  dp : Dataplane := .ipt
  cfg : Cfg := {}
  allowRet : Bool := false
  noCtInvalid : Bool := false
  dropVXLAN : Bool := false
  dropIPIP : Bool := false
  chains : List Chain := []
  pols : List PolInfo := []
  profs : List PolInfo := []
  /-- endpoint chain → (tiers, profiles chains) for the reference verdict -/
  eps : List (String × List Tier × List String) := []

def b (s : String) : Bool := s = "1"

def hexToString (s : String) : String :=
  let rec go : List Char → List Char
    | a :: c :: rest =>
      let v (x : Char) : Nat := if x.isDigit then x.toNat - 48 else x.toNat - 87
      Char.ofNat (v a * 16 + v c) :: go rest
    | _ => []
  String.ofList (go s.toList)

def parsePols (s : String) : List Pol :=
  if s = "-" ∨ s = "" then [] else (s.splitOn ",").filterMap fun t =>
    match t.splitOn ":" with
    | [c, st] => some { chain := c, staged := st = "1" }
    | _ => none

def parseGroup (s : String) : Option Group :=
  match s.splitOn "~" with
  | [c, ps] => some { chain := c, pols := parsePols ps }
  | _ => none

def parseTiers (s : String) : Option (List Tier) :=
  if s = "-" then some [] else (s.splitOn "|").mapM fun t =>
    match t.splitOn "!" with
    | [n, dp, gs] =>
      (if gs = "-" then some [] else (gs.splitOn "&").mapM parseGroup).map fun g =>
        { name := n, defaultPass := dp = "1", groups := g }
    | _ => none

def showChain (dp : Dataplane) (c : Chain) : String :=
  s!"[{c.name}] " ++ " ;; ".intercalate (c.rules.map (Rule.render dp false c.name))

def mkRule (action proto : String) : Policy.Rule :=
  { action := if action = "-" then "" else action, protocol := if proto = "-" then none else some (.name proto) }

/-- `action` / `proto` are `+`-joined lists, one entry per rule -/
def mkRules (action proto : String) : List Policy.Rule :=
  List.zipWith mkRule (action.splitOn "+") (proto.splitOn "+")

def protoNumOf : String → Option Nat
  | "tcp" => some 6 | "udp" => some 17 | "icmp" => some 1 | "sctp" => some 132
  | _ => none

def outcomeOf (pi : PolInfo) (proto : Nat) : PolOutcome :=
  let rec go : List (String × String) → PolOutcome
    | [] => .noMatch
    | (a, p) :: rest =>
      if p = "-" ∨ protoNumOf p = some proto then
        match parseAction (if a = "-" then "" else a) with
        | some .allow => .allow | some .deny => .deny | some .pass => .pass | _ => go rest
      else go rest
  go (List.zip (pi.action.splitOn "+") (pi.proto.splitOn "+"))

/-- the (empty) failsafe chains, added once -/
def failsafes (st : St) : List Chain :=
  if st.chains.any (·.name == "cali-failsafe-in") then []
  else [{ name := "cali-failsafe-in", rules := [] }, { name := "cali-failsafe-out", rules := [] }]

def showRes : Result → String
  | .verdict .accept m => s!"accept mark={markHex m}"
  | .verdict .drop m => s!"drop mark={markHex m}"
  | .verdict .reject m => s!"reject mark={markHex m}"
  | .returned m => s!"return mark={markHex m}"
  | .missing c => "to:" ++ c
  | .outOfFuel => "out-of-fuel"

def step (st : St) (line : String) : St × String :=
  match words line with
  | ["cfg", dp, fl, rej, ar, nci, dv, di] =>
    ({ dp := if dp = "nft" then .nft else .ipt, cfg := { flowLogs := b fl, reject := b rej },
       allowRet := b ar, noCtInvalid := b nci, dropVXLAN := b dv, dropIPIP := b di }, "ok")
  | ["pol", kind, inC, outC, action, proto, id, cIn, cOut] =>
    let staged := kind = "s"
    let pi : PolInfo := { inChain := inC, outChain := outC, staged := staged, action := action, proto := proto }
    if staged then ({ st with pols := pi :: st.pols }, "staged") else
    let r := mkRules action proto
    match protoRulesToRules st.cfg { owner := 'P', dir := 'I', id := id } false r (hexToString cIn),
          protoRulesToRules st.cfg { owner := 'P', dir := 'E', id := id } false r (hexToString cOut) with
    | some a, some o =>
      let ci : Chain := { name := inC, rules := a }
      let co : Chain := { name := outC, rules := o }
      ({ st with pols := pi :: st.pols, chains := st.chains ++ [ci, co] }, showChain st.dp ci ++ " || " ++ showChain st.dp co)
    | _, _ => (st, "panic")
  | ["prof", inC, outC, action, proto, name, cIn, cOut] =>
    let pi : PolInfo := { inChain := inC, outChain := outC, staged := false, action := action, proto := proto }
    let r := mkRules action proto
    match protoRulesToRules st.cfg { owner := 'R', dir := 'I', id := name } false r (hexToString cIn),
          protoRulesToRules st.cfg { owner := 'R', dir := 'E', id := name } false r (hexToString cOut) with
    | some a, some o =>
      let ci : Chain := { name := inC, rules := a }
      let co : Chain := { name := outC, rules := o }
      ({ st with profs := pi :: st.profs, chains := st.chains ++ [ci, co] }, showChain st.dp ci ++ " || " ++ showChain st.dp co)
    | _, _ => (st, "panic")
  | ["group", chain, pols] =>
    let c := policyGroupChain st.cfg { chain := chain, pols := parsePols pols }
    ({ st with chains := st.chains ++ [c] }, showChain st.dp c)
  | ["wep", up, tw, fw, tIn, tOut, pIn, pOut] =>
    match parseTiers tIn, parseTiers tOut with
    | some ti, some to =>
      let pin := if pIn = "-" then [] else pIn.splitOn ","
      let pout := if pOut = "-" then [] else pOut.splitOn ","
      let e : EpCfg := { adminUp := b up, allowIsReturn := st.allowRet, disableCtInvalid := st.noCtInvalid }
      let cTo := endpointChain st.cfg { e with dir := 'I' } tw ti pin
      let cFrom := endpointChain st.cfg { e with dir := 'E', dropVXLAN := st.dropVXLAN, dropIPIP := st.dropIPIP } fw to pout
      ({ st with chains := st.chains ++ [cTo, cFrom], eps := (tw, ti, pin) :: (fw, to, pout) :: st.eps },
       showChain st.dp cTo ++ " || " ++ showChain st.dp cFrom)
    | _, _ => (st, "bad-op")
  | ["hep", th, fh, thfw, fhfw, tIn, tOut, fIn, fOut, pIn, pOut] =>
    match parseTiers tIn, parseTiers tOut, parseTiers fIn, parseTiers fOut with
    | some ti, some to, some fi, some fo =>
      let pin := if pIn = "-" then [] else pIn.splitOn ","
      let pout := if pOut = "-" then [] else pOut.splitOn ","
      let e : EpCfg := { allowIsReturn := st.allowRet, disableCtInvalid := st.noCtInvalid }
      let cs := [
        endpointChain st.cfg { e with dir := 'E', failsafe := "cali-failsafe-out" } th to pout,
        endpointChain st.cfg { e with dir := 'I', failsafe := "cali-failsafe-in" } fh ti pin,
        endpointChain st.cfg { e with dir := 'E', chainType := .forward } thfw fo pout,
        endpointChain st.cfg { e with dir := 'I', chainType := .forward } fhfw fi pin ]
      ({ st with chains := st.chains ++ failsafes st ++ cs, eps := (th, to, pout) :: (fh, ti, pin) :: st.eps },
       " || ".intercalate (cs.map (showChain st.dp)))
    | _, _, _, _ => (st, "bad-op")
  | ["hepraw", th, fh, tIn, tOut] =>
    match parseTiers tIn, parseTiers tOut with
    | some ti, some to =>
      let e : EpCfg := { chainType := .untracked, disableCtInvalid := st.noCtInvalid }
      let cs := [
        endpointChain st.cfg { e with dir := 'E', failsafe := "cali-failsafe-out" } th to [],
        endpointChain st.cfg { e with dir := 'I', failsafe := "cali-failsafe-in" } fh ti [] ]
      ({ st with chains := st.chains ++ failsafes st ++ cs }, " || ".intercalate (cs.map (showChain st.dp)))
    | _, _ => (st, "bad-op")
  | ["hepmangle", fh, tIn, _tOut] =>
    match parseTiers tIn with
    | some ti =>
      let e : EpCfg := { chainType := .preDNAT, disableCtInvalid := st.noCtInvalid, dir := 'I', failsafe := "cali-failsafe-in" }
      let c := endpointChain st.cfg e fh ti []
      ({ st with chains := st.chains ++ failsafes st ++ [c] }, showChain st.dp c)
    | none => (st, "bad-op")
  | ["eval", chain, proto, ct] =>
    match proto.toNat? with
    | none => (st, "bad-op")
    | some proto =>
      let pkt : Packet := { proto := proto, ctState := ct, dport := 1 }
      let env : Env := { dp := st.dp, protoNum := protoNumOf }
      let res := evalChain env st.chains pkt 8 chain 0
      let ref : String := match st.eps.find? (·.1 == chain) with
        | none => "?"
        | some (_, tiers, profs) =>
          let polOut (c : String) : Option PolInfo := st.pols.find? fun p => p.inChain == c || p.outChain == c
          let tierOuts := tiers.filter (fun t => !t.groups.isEmpty) |>.map fun t =>
            ((t.groups.flatMap (·.nonStaged)).map (fun p => match polOut p.chain with
                | some pi => outcomeOf pi proto | none => .noMatch), t.defaultPass)
          let profOuts := profs.map fun c => match st.profs.find? (fun p => p.inChain == c || p.outChain == c) with
            | some pi => outcomeOf pi proto | none => .noMatch
          match endpointVerdict tierOuts profOuts with
          | .allow => "allow" | .deny => "deny"
      (st, showRes res ++ " ref=" ++ ref)
  | _ => (st, "bad-op")

def main : IO Unit := run step {}
