import CalicoVerif.Util.Proto
import CalicoVerif.Model.C40
/-! Driver for C40: prints the model's static chains as iptables text.  Ops
  `cfg <ipt|nft> <ipip> <vxlan> <vxport> <toHost> <filterAllow> <mangleAllow> <deny> <noInvalid> <prefixes> <failsafeIn> <failsafeOut>`
  `static <filter|raw|mangle> <chain>` | `hep <filter-in|filter-out|raw-in|raw-out|mangle-in> <iface> <tiers|->`
  `wldispatch <from|to> <iface|->` | `hepdispatch <iface|->`
  `bpf <INPUT|FORWARD|OUTPUT> <4|6> <bpfIPv6 0|1> <known ifaces|->` (BPF-mode rules of setUpIptablesBPF) | `wlallow <iface|->`
-/
open CalicoVerif CalicoVerif.C40 CalicoVerif.Proto

def parseAction (s : String) : Option Action :=
  match s with
  | "DROP" => some .drop
  | "ACCEPT" => some .accept
  | "RETURN" => some .ret
  | _ => none

def protoNumOf (s : String) : Option Nat :=
  match s with
  | "tcp" => some 6
  | "udp" => some 17
  | "sctp" => some 132
  | _ => none

def parseCidr (s : String) : Option (String × Nat × Nat) :=
  match s.splitOn "/" with
  | [ip, l] =>
    match (ip.splitOn ".").mapM String.toNat?, l.toNat? with
    | some [a, b, c, d], some l =>
      if a < 256 && b < 256 && c < 256 && d < 256 && l ≤ 32 then some (s, ((a * 256 + b) * 256 + c) * 256 + d, l) else none
    | _, _ => none
  | _ => none

def parsePorts (s : String) : Option (List ProtoPort) :=
  if s == "-" then some [] else
  (s.splitOn ",").mapM (fun p =>
    match p.splitOn ":" with
    | [pr, port] => do
      let n ← protoNumOf pr
      let port ← port.toNat?
      pure { protoName := pr, protoNum := n, port := port }
    | [pr, port, net] => do
      let n ← protoNumOf pr
      let port ← port.toNat?
      if net.startsWith "v6-" then
        -- an IPv6 net (written v6-<hex groups joined by '-'>/len in the op): skipped by the IPv4 chains
        pure { protoName := pr, protoNum := n, port := port, otherFamily := true }
      else
        let net ← parseCidr net
        pure { protoName := pr, protoNum := n, port := port, net := some net }
    | _ => none)

def parseTiers (s : String) : Option (List Tier) :=
  if s == "-" then some [] else
  (s.splitOn ",").mapM (fun t =>
    match t.splitOn ":" with
    | [name, da, pols] =>
      some { name := name, defaultPass := da == "Pass",
             pols := (pols.splitOn "+").map (fun p => (p, p.startsWith "staged")) }
    | _ => none)

def parseKind (s : String) : Option HepKind :=
  match s with
  | "filter-in" => some .filterIn
  | "filter-out" => some .filterOut
  | "raw-in" => some .rawIn
  | "raw-out" => some .rawOut
  | "mangle-in" => some .mangleIn
  | _ => none

def ifaceList (s : String) : List String := if s == "-" then [] else s.splitOn ","

structure DC where
  cfg : Config
  nft : Bool

def rc (d : DC) (name : String) (rs : List Rule) : String :=
  if d.nft then renderChainNft name rs else renderChain name rs

def stepC (d : DC) (line : String) : DC × String :=
  let c := d.cfg
  match words line with
  | ["cfg", mode, ipip, vx, vxport, toHost, fa, ma, deny, noInv, pfx, fin, fout] =>
    match vxport.toNat?, parseAction toHost, parseAction fa, parseAction ma, parsePorts fin, parsePorts fout with
    | some vxport, some toHost, some fa, some ma, some fin, some fout =>
      if deny != "DROP" || (mode != "ipt" && mode != "nft") then (d, "bad-op") else
      let cfg : Config :=
        { ipip := ipip == "1", vxlan := vx == "1", vxlanPort := vxport, toHost := toHost, filterAllow := fa,
          mangleAllow := ma, disableCtInvalid := noInv == "1", prefixes := pfx.splitOn ",",
          failsafeIn := fin, failsafeOut := fout }
      ({ cfg := cfg, nft := mode == "nft" }, "ok")
    | _, _, _, _, _, _ => (d, "bad-op")
  | ["static", table, chain] =>
    if chain == chFailsafeIn then (d, rc d chain (failsafeInChain c (table == "raw")))
    else if chain == chFailsafeOut then (d, rc d chain (failsafeOutChain c (table == "raw")))
    else if table == "filter" && chain == chInput then (d, rc d chain (filterInputChain c))
    else if table == "filter" && chain == chWlToHost then (d, rc d chain (wlToHostChain c))
    else if table == "filter" && chain == chForward then (d, rc d chain (filterForwardChain c))
    else if table == "filter" && chain == chOutput then (d, rc d chain (filterOutputChain c))
    else if table == "raw" && chain == chRawPrerouting then (d, rc d chain (rawPreroutingChain c))
    else if table == "raw" && chain == chRawOutput then (d, rc d chain (rawOutputChain c))
    else if table == "mangle" && chain == chRawPrerouting then (d, rc d chain (manglePreroutingChain c))
    else (d, "bad-op")
  | ["hep", kind, iface, tiers] =>
    match parseKind kind, parseTiers tiers with
    | some k, some ts => (d, rc d (hepChainName k iface) (hepChain c k ts))
    | _, _ => (d, "bad-op")
  | ["wldispatch", dir, ifs] =>
    if dir != "from" && dir != "to" then (d, "bad-op") else
    let name := if dir == "from" then chFromWlDispatch else chToWlDispatch
    if d.nft then
      -- nftables: the per-interface rules live in a verdict map, not in the rule text
      (d, name ++ ": " ++ (if dir == "from" then "iifname" else "oifname") ++ " vmap @-" ++ name ++ " ;; " ++
          name ++ ": counter drop #Unknown interface")
    else (d, renderChain name (wlDispatchChain (dir == "from") (ifaceList ifs)))
  | ["bpf", hook, ver, bpf6, _known] =>
    if (ver != "4" && ver != "6") || (bpf6 != "0" && bpf6 != "1") then (d, "bad-op") else
    if hook == "INPUT" then (d, rc d hook (bpfInputRules c))
    else if hook == "FORWARD" then (d, rc d hook (bpfForwardRules c (ver == "6") (bpf6 == "1")))
    else if hook == "OUTPUT" then (d, rc d hook bpfOutputRules)
    else (d, "bad-op")
  | ["wlallow", ifs] => (d, rc d chToWlDispatch (wlAllowChain (ifaceList ifs)))
  | ["hepdispatch", ifs] =>
    (d, rc d chFromHep (hepDispatchChain true (ifaceList ifs)) ++ " @@ " ++
        rc d chToHep (hepDispatchChain false (ifaceList ifs)))
  | _ => (d, "bad-op")

def emptyCfg : Config :=
  { ipip := false, vxlan := false, vxlanPort := 0, toHost := .drop, filterAllow := .accept, mangleAllow := .accept,
    disableCtInvalid := false, prefixes := [], failsafeIn := [], failsafeOut := [] }

def step (c : Option DC) (line : String) : Option DC × String :=
  if line.startsWith "cfg " then
    let (c', o) := stepC (c.getD { cfg := emptyCfg, nft := false }) line
    if o == "ok" then (some c', o) else (c, o)
  else match c with
    | none => (none, "bad-state")
    | some c => let (c', o) := stepC c line; (some c', o)

def main : IO Unit := run step none
