import CalicoVerif.Util.Proto
import CalicoVerif.Model.C40
/-! Driver for C40: prints the model's static chains as iptables text.  Ops
  `cfg <ipip> <vxlan> <vxport> <toHost> <filterAllow> <mangleAllow> <deny> <noInvalid> <prefixes> <failsafeIn> <failsafeOut>`
  `static <filter|raw|mangle> <chain>` | `hep <filter-in|filter-out|raw-in|raw-out|mangle-in> <iface> <tiers|->`
  `wldispatch <from|to> <iface|->` | `hepdispatch <iface|->`
-/
open CalicoVerif CalicoVerif.C40 CalicoVerif.Proto

def parseAction (s : String) : Option Action :=
  match s with
  | "DROP" => some .drop
  | "ACCEPT" => some .accept
  | "RETURN" => some .ret
  | _ => none

def protoNumOf (s : String) : Option Nat :=
  match s with
  | "tcp" => some 6
  | "udp" => some 17
  | "sctp" => some 132
  | _ => none

def parseCidr (s : String) : Option (String × Nat × Nat) :=
  match s.splitOn "/" with
  | [ip, l] =>
    match (ip.splitOn ".").mapM String.toNat?, l.toNat? with
    | some [a, b, c, d], some l =>
      if a < 256 && b < 256 && c < 256 && d < 256 && l ≤ 32 then some (s, ((a * 256 + b) * 256 + c) * 256 + d, l) else none
    | _, _ => none
  | _ => none

def parsePorts (s : String) : Option (List ProtoPort) :=
  if s == "-" then some [] else
  (s.splitOn ",").mapM (fun p =>
    match p.splitOn ":" with
    | [pr, port] => do
      let n ← protoNumOf pr
      let port ← port.toNat?
      pure { protoName := pr, protoNum := n, port := port }
    | [pr, port, net] => do
      let n ← protoNumOf pr
      let port ← port.toNat?
      let net ← parseCidr net
      pure { protoName := pr, protoNum := n, port := port, net := some net }
    | _ => none)

def parseTiers (s : String) : Option (List Tier) :=
  if s == "-" then some [] else
  (s.splitOn ",").mapM (fun t =>
    match t.splitOn ":" with
    | [name, da, pols] =>
      some { name := name, defaultPass := da == "Pass",
             pols := (pols.splitOn "+").map (fun p => (p, p.startsWith "staged")) }
    | _ => none)

def parseKind (s : String) : Option HepKind :=
  match s with
  | "filter-in" => some .filterIn
  | "filter-out" => some .filterOut
  | "raw-in" => some .rawIn
  | "raw-out" => some .rawOut
  | "mangle-in" => some .mangleIn
  | _ => none

def ifaceList (s : String) : List String := if s == "-" then [] else s.splitOn ","

def stepC (c : Config) (line : String) : Config × String :=
  match words line with
  | ["cfg", ipip, vx, vxport, toHost, fa, ma, deny, noInv, pfx, fin, fout] =>
    match vxport.toNat?, parseAction toHost, parseAction fa, parseAction ma, parsePorts fin, parsePorts fout with
    | some vxport, some toHost, some fa, some ma, some fin, some fout =>
      if deny != "DROP" then (c, "bad-op") else
      ({ ipip := ipip == "1", vxlan := vx == "1", vxlanPort := vxport, toHost := toHost, filterAllow := fa,
         mangleAllow := ma, disableCtInvalid := noInv == "1", prefixes := pfx.splitOn ",",
         failsafeIn := fin, failsafeOut := fout }, "ok")
    | _, _, _, _, _, _ => (c, "bad-op")
  | ["static", table, chain] =>
    if chain == chFailsafeIn then (c, renderChain chain (failsafeInChain c (table == "raw")))
    else if chain == chFailsafeOut then (c, renderChain chain (failsafeOutChain c (table == "raw")))
    else if table == "filter" && chain == chInput then (c, renderChain chain (filterInputChain c))
    else if table == "filter" && chain == chWlToHost then (c, renderChain chain (wlToHostChain c))
    else if table == "filter" && chain == chForward then (c, renderChain chain (filterForwardChain c))
    else (c, "bad-op")
  | ["hep", kind, iface, tiers] =>
    match parseKind kind, parseTiers tiers with
    | some k, some ts => (c, renderChain (hepChainName k iface) (hepChain c k ts))
    | _, _ => (c, "bad-op")
  | ["wldispatch", dir, ifs] =>
    if dir == "from" then (c, renderChain chFromWlDispatch (wlDispatchChain true (ifaceList ifs)))
    else if dir == "to" then (c, renderChain chToWlDispatch (wlDispatchChain false (ifaceList ifs)))
    else (c, "bad-op")
  | ["hepdispatch", ifs] =>
    (c, renderChain chFromHep (hepDispatchChain true (ifaceList ifs)) ++ " @@ " ++
        renderChain chToHep (hepDispatchChain false (ifaceList ifs)))
  | _ => (c, "bad-op")

def emptyCfg : Config :=
  { ipip := false, vxlan := false, vxlanPort := 0, toHost := .drop, filterAllow := .accept, mangleAllow := .accept,
    disableCtInvalid := false, prefixes := [], failsafeIn := [], failsafeOut := [] }

def step (c : Option Config) (line : String) : Option Config × String :=
  if line.startsWith "cfg " then
    let (c', o) := stepC (c.getD emptyCfg) line
    if o == "ok" then (some c', o) else (c, o)
  else match c with
    | none => (none, "bad-state")
    | some c => let (c', o) := stepC c line; (some c', o)

def main : IO Unit := run step none
