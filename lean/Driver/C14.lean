import CalicoVerif.Util.Proto
import CalicoVerif.Model.C14
/-! Driver for C14.  Ops (decimal numbers):
  `reset SYNSENT EST FINS RST UDP GENERIC ICMP`   timeouts in ns; empties the conntrack map
  `put P A PA B PB TYP LS RSTTS BITS RP RA RPA RB RPB`  TYP 0 normal 1 fwd 2 rev;
        BITS 1 established 2 finsSeen 4 finsSeenDSR 8 rstSeen 16 dsr; R* = nat_rev_key
  `del P A PA B PB`
  `exp NOW P A PA B PB`      EntryExpired of the entry under its own key's protocol
  `scan NOW (h:P:A:PA:B:PB:T | n:P:A:PA:B:PB:T:RB)*`  one Scan at NOW (entries visited in key order), then the listed packets
        (refreshing last_seen to T; a forward-entry hit also refreshes its reverse entry), then the BPF cleaner
        (queue walked in key order; the kernel's hash-map order is arbitrary, the theorems hold for every order).
        Output: the clean-up queue the scan built and the surviving conntrack entries. -/
open CalicoVerif CalicoVerif.C14 CalicoVerif.Proto

structure St where
  t : Timeouts
  ct : AMap Key Entry
deriving Inhabited

def allSome {α : Type} : List (Option α) → Option (List α)
  | [] => some []
  | none :: _ => none
  | some a :: r => (allSome r).map (a :: ·)

def nats (ws : List String) : Option (List Nat) := allSome (ws.map String.toNat?)

def keyLe (x y : Key) : Bool :=
  let a := [x.proto, x.a, x.pa, x.b, x.pb]
  let b := [y.proto, y.a, y.pa, y.b, y.pb]
  decide (a ≤ b)

def showKey (k : Key) : String := s!"{k.proto}:{k.a}:{k.pa}:{k.b}:{k.pb}"

def bit (f i : Nat) : Bool := (f / 2 ^ i) % 2 == 1

/-- a packet on entry `k` at time `tm`. -/
def hit (ct : AMap Key Entry) (k : Key) (tm : Nat) : AMap Key Entry :=
  match ct.get k with
  | none => ct
  | some e =>
    match e.typ with
    | .fwd => match ct.get e.revKey with
      | none => ct.del k
      | some r => (ct.set k { e with lastSeen := tm }).set e.revKey { r with lastSeen := tm }
    | _ => ct.set k { e with lastSeen := tm }

/-- a NEW connection re-using the forward tuple `k`, NATted to another backend `rb`: the forward entry is
replaced (pointing at a fresh reverse entry), the old reverse entry is left alone. -/
def renew (ct : AMap Key Entry) (k : Key) (tm rb : Nat) : AMap Key Entry :=
  let rk : Key := ⟨k.proto, k.a, k.pa, rb, 8080⟩
  let blank : Entry := { typ := .fwd, lastSeen := tm, rstTs := 0, revKey := rk, established := false, finsSeen := false,
                         finsSeenDSR := false, rstSeen := false, dsr := false }
  (ct.set k blank).set rk { blank with typ := .rev, revKey := dummyKey }

/-- `h:key:T` packet, `n:key:T:RB` new connection on a forward tuple. -/
def parseHit (w : String) : Option (Key × Nat × Option Nat) :=
  match w.splitOn ":" with
  | ["h", p, a, pa, b, pb, t] => do
    let p ← p.toNat?; let a ← a.toNat?; let pa ← pa.toNat?; let b ← b.toNat?; let pb ← pb.toNat?; let t ← t.toNat?
    pure (⟨p, a, pa, b, pb⟩, t, none)
  | ["n", p, a, pa, b, pb, t, rb] => do
    let p ← p.toNat?; let a ← a.toNat?; let pa ← pa.toNat?; let b ← b.toNat?; let pb ← pb.toNat?; let t ← t.toNat?
    let rb ← rb.toNat?
    pure (⟨p, a, pa, b, pb⟩, t, some rb)
  | _ => none

def sortStr (xs : List String) : List String := xs.mergeSort (fun a b => decide (a ≤ b))

def step (s : St) (line : String) : St × String :=
  match words line with
  | "reset" :: rest => match nats rest with
    | some [a, b, c, d, e, f, g] => ({ t := ⟨a, b, c, d, e, f, g⟩, ct := [] }, "ok")
    | _ => (s, "bad-op")
  | "put" :: rest => match nats rest with
    | some [p, a, pa, b, pb, typ, ls, rts, bits, rp, ra, rpa, rb, rpb] =>
      if typ > 2 then (s, "bad-op") else
      let e : Entry := { typ := if typ = 0 then .normal else if typ = 1 then .fwd else .rev, lastSeen := ls, rstTs := rts,
                         revKey := ⟨rp, ra, rpa, rb, rpb⟩, established := bit bits 0, finsSeen := bit bits 1,
                         finsSeenDSR := bit bits 2, rstSeen := bit bits 3, dsr := bit bits 4 }
      ({ s with ct := s.ct.set ⟨p, a, pa, b, pb⟩ e }, "ok")
    | _ => (s, "bad-op")
  | "del" :: rest => match nats rest with
    | some [p, a, pa, b, pb] => ({ s with ct := s.ct.del ⟨p, a, pa, b, pb⟩ }, "ok")
    | _ => (s, "bad-op")
  | "exp" :: rest => match nats rest with
    | some [now, p, a, pa, b, pb] => match s.ct.get ⟨p, a, pa, b, pb⟩ with
      | some e => (s, showBool (expired s.t now p e))
      | none => (s, "none")
    | _ => (s, "bad-op")
  | "scan" :: now :: hits => match now.toNat?, allSome (hits.map parseHit) with
    | some now, some hits =>
      let items := s.ct.mergeSort (fun x y => keyLe x.1 y.1)
      let q := scan s.t now s.ct items
      let ct1 := hits.foldl (fun ct h => match h.2.2 with
        | none => hit ct h.1 h.2.1
        | some rb => renew ct h.1 h.2.1 rb) s.ct
      let ct2 := clean ct1 (q.mergeSort (fun x y => keyLe x.1 y.1))
      let qs := sortStr (q.map (fun kq => s!"{showKey kq.1}={showKey kq.2.other},{kq.2.ts},{kq.2.revTs}"))
      let cs := sortStr (ct2.map (fun ke => s!"{showKey ke.1}={ke.2.lastSeen}"))
      ({ s with ct := ct2 }, "Q[" ++ ";".intercalate qs ++ "]|CT[" ++ ";".intercalate cs ++ "]")
    | _, _ => (s, "bad-op")
  | _ => (s, "bad-op")

def main : IO Unit := run step default
