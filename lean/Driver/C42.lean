import CalicoVerif.Util.Proto
import CalicoVerif.Model.C42
/-! Driver for C42.  Ops (all numbers decimal, lists comma separated, `-` = empty):
  `new NPIPS ROUTES` | `restart NPIPS ROUTES`   (ROUTES items `ip:flags:nexthop`, flags 1=workload 2=local)
  `pokeF ip port proto sip slen id count lcl aff flags` | `unpokeF ip port proto sip slen`
  `pokeB id idx ip port` | `unpokeB id idx`
  `apply HOST ZONE FAILPHASE (S name cip port proto np EXT LB SRC aff flags hc topo n (E ip port flags ZH NH){n})*`
     SRC items `ip/len/v6`; aff `-` or seconds; S flags 1=extLocal 2=intLocal 4=exclude 8=reapUDP;
     E flags 1=local 2=ready 4=serving 8=terminating.
     followed by one word `ids=name@P=id,name@R<node>=id,…` (or `ids=-`): the service IDs of the real run,
     which resolve the arbitrary Go map iteration order (checked by the model: `bad-hint`).
Output of `apply`: `ok|err`, the executed non-empty phases (writes sorted inside a phase) and the final maps. -/
open CalicoVerif CalicoVerif.C42 CalicoVerif.Proto

def parseList (s : String) : List String := if s == "-" then [] else s.splitOn ","

def allSome {α : Type} : List (Option α) → Option (List α)
  | [] => some []
  | none :: _ => none
  | some a :: r => (allSome r).map (a :: ·)

def parseNats (s : String) : Option (List Nat) := allSome ((parseList s).map String.toNat?)

def parseRoute (s : String) : Option (Nat × Route) :=
  match s.splitOn ":" with
  | [a, f, n] => do
    let a ← a.toNat?; let f ← f.toNat?; let n ← n.toNat?
    pure (a, { workload := f % 2 == 1, isLocal := (f / 2) % 2 == 1, nextHop := n })
  | _ => none

def parseRoutes (s : String) : Option (AMap Nat Route) := allSome ((parseList s).map parseRoute)

def parseSrc (s : String) : Option (Nat × Nat × Bool) :=
  match s.splitOn "/" with
  | [a, l, v] => do
    let a ← a.toNat?; let l ← l.toNat?; let v ← v.toNat?
    pure (a, l, v == 1)
  | _ => none

def bit (f i : Nat) : Bool := (f / 2 ^ i) % 2 == 1

def parseEps : Nat → List String → Option (List Ep × List String)
  | 0, rest => some ([], rest)
  | n + 1, "E" :: ip :: port :: fl :: zh :: nh :: rest => do
    let ip ← ip.toNat?; let port ← port.toNat?; let fl ← fl.toNat?
    let (eps, rest) ← parseEps n rest
    pure ({ ip, port, isLocal := bit fl 0, ready := bit fl 1, serving := bit fl 2, terminating := bit fl 3,
            zoneHints := parseList zh, nodeHints := parseList nh } :: eps, rest)
  | _, _ => none

def parseSvcs : Nat → List String → Option (List (String × Svc × List Ep))
  | _, [] => some []
  | 0, _ => none
  | fuel + 1, "S" :: name :: cip :: port :: proto :: np :: ext :: lb :: src :: aff :: fl :: hc :: topo :: n :: rest => do
    let cip ← cip.toNat?; let port ← port.toNat?; let proto ← proto.toNat?; let np ← np.toNat?
    let ext ← parseNats ext; let lb ← parseNats lb
    let src ← allSome ((parseList src).map parseSrc)
    let aff ← if aff == "-" then some none else aff.toNat?.map some
    let fl ← fl.toNat?; let hc ← hc.toNat?; let n ← n.toNat?
    let (eps, rest) ← parseEps n rest
    let svc : Svc := { clusterIP := cip, port, proto, nodePort := np, extIPs := ext, lbVIPs := lb, srcRanges := src,
                       affinity := aff, extLocal := bit fl 0, intLocal := bit fl 1, hcNodePort := hc,
                       exclude := bit fl 2, reapUDP := bit fl 3, topoMode := if topo == "-" then "" else topo }
    let more ← parseSvcs fuel rest
    pure ((name, svc, eps) :: more)
  | _, _ => none

def sortStr (xs : List String) : List String := xs.mergeSort (fun a b => decide (a ≤ b))

def showFKey (k : FKey) : String := s!"{k.ip}:{k.port}:{k.proto}:{k.srcIp}/{k.srcLen}"
def showBVal (v : BVal) : String := s!"{v.ip}:{v.port}"

def showFVal (v : FVal) : String := s!"{v.id},{v.count},{v.lcl},{v.aff},{v.flags}"

def showWrite : Write → String
  | .delF k => showFKey k
  | .setB k v => s!"{k.id}.{k.idx}={showBVal v}"
  | .setF k v => s!"{showFKey k}={showFVal v}"
  | .delB k => s!"{k.id}.{k.idx}"

def phaseTag : List Write → String
  | .delF _ :: _ => "dF"
  | .setB _ _ :: _ => "sB"
  | .setF _ _ :: _ => "sF"
  | .delB _ :: _ => "dB"
  | [] => ""

def showDP (d : DP) : String :=
  "F[" ++ ";".intercalate (sortStr (d.F.map (fun kv => s!"{showFKey kv.1}={showFVal kv.2}"))) ++ "]|B[" ++
  ";".intercalate (sortStr (d.B.map (fun kv => s!"{kv.1.id}.{kv.1.idx}={showBVal kv.2}"))) ++ "]"

def showApply (post : DP) (ok : Bool) (phases : List (List Write)) : String :=
  let ps := (phases.filter (fun p => !p.isEmpty)).map (fun p =>
    phaseTag p ++ "[" ++ ";".intercalate (sortStr (p.map showWrite)) ++ "]")
  "|".intercalate ([if ok then "ok" else "err"] ++ ps ++ [showDP post])

/-- `ids=name@P=3,name@R<node>=4,…` : the service IDs observed on the real run. -/
def parseHintEntry (e : String) : Option (SvcKey × Nat) :=
  match e.splitOn "@" with
  | [name, r] => match r.splitOn "=" with
    | [k, id] => do
      let id ← id.toNat?
      if k == "P" then pure (⟨name, .prim⟩, id)
      else if k.startsWith "R" then do
        let ip ← (k.drop 1).toString.toNat?
        pure (⟨name, .npRemote ip⟩, id)
      else none
    | _ => none
  | _ => none

def parseHint (w : String) : Option (AMap SvcKey Nat) :=
  if !w.startsWith "ids=" then none
  else allSome ((parseList (w.drop 4).toString).map parseHintEntry)

def nats (ws : List String) : Option (List Nat) := allSome (ws.map String.toNat?)

def step (s : Syncer) (line : String) : Syncer × String :=
  match words line with
  | ["new", a, r] => match parseNats a, parseRoutes r with
    | some a, some r => (Syncer.new a r ⟨[], []⟩, "ok")
    | _, _ => (s, "bad-op")
  | ["restart", a, r] => match parseNats a, parseRoutes r with
    | some a, some r => (Syncer.new a r s.dp, "ok")
    | _, _ => (s, "bad-op")
  | "pokeF" :: rest => match nats rest with
    | some [ip, port, proto, sip, slen, id, count, lcl, aff, flags] =>
      ({ s with dp := { s.dp with F := s.dp.F.set ⟨ip, port, proto, sip, slen⟩ ⟨id, count, lcl, aff, flags⟩ } }, "ok")
    | _ => (s, "bad-op")
  | "unpokeF" :: rest => match nats rest with
    | some [ip, port, proto, sip, slen] =>
      ({ s with dp := { s.dp with F := s.dp.F.del ⟨ip, port, proto, sip, slen⟩ } }, "ok")
    | _ => (s, "bad-op")
  | "pokeB" :: rest => match nats rest with
    | some [id, idx, ip, port] => ({ s with dp := { s.dp with B := s.dp.B.set ⟨id, idx⟩ ⟨ip, port⟩ } }, "ok")
    | _ => (s, "bad-op")
  | "unpokeB" :: rest => match nats rest with
    | some [id, idx] => ({ s with dp := { s.dp with B := s.dp.B.del ⟨id, idx⟩ } }, "ok")
    | _ => (s, "bad-op")
  | "apply" :: host :: zone :: fp :: rest0 =>
    let rest := rest0.dropLast
    match fp.toNat?, parseSvcs (rest.length + 1) rest, rest0.getLast?.bind parseHint with
    | some fp, some svcs, some hint =>
      let st : KState := { svcs := svcs.map (fun x => (x.1, x.2.1)),
                           eps := svcs.foldl (fun m x => if x.2.2.isEmpty then m else m.set x.1 x.2.2) [],
                           host := if host == "-" then "" else host, zone := if zone == "-" then "" else zone }
      let r := s.apply st hint fp
      if r.hintOk then (r.syncer, showApply r.syncer.dp r.ok r.phases) else (r.syncer, "bad-hint")
    | _, _, _ => (s, "bad-op")
  | _ => (s, "bad-op")

def main : IO Unit := run step (Syncer.new [] [] ⟨[], []⟩)
