import CalicoVerif.Util.Proto
import CalicoVerif.Model.C21
/-! Driver for C21. Ops (one per line; `<h>` = `nil` | `s:<chars>` with `R` = '\r'):
  `new <n> <seq0>` | `empty` | `newr <n> <seq0> <start> <end> <h> <note>` | `bump` | `tick <d>` | `gc <cd>`
  `auto <num> <h> <owner> <reserved:-|o,o,..>` | `assign <ord> <h> <owner>`
  `rel <cd> <ord>/<seq|->/<h>...` | `relh <cd> <h> <seq|->`
Output: `<result> | <canonical block dump>`.
-/
open CalicoVerif CalicoVerif.C21 CalicoVerif.Proto

def splitC (sep : Char) (cs : List Char) : List (List Char) :=
  let r := cs.foldr (fun c (acc : List Char × List (List Char)) =>
    if c == sep then ([], acc.1 :: acc.2) else (c :: acc.1, acc.2)) ([], [])
  r.1 :: r.2

def natOf (cs : List Char) : Option Nat := (String.ofList cs).toNat?

def chCode (c : Char) : Nat := if c == 'R' then 13 else c.toNat
def codeCh (n : Nat) : Char := if n == 13 then 'R' else Char.ofNat n

/-- `nil` → `some none`; `s:abc` → `some (some codes)`. -/
def parseH (cs : List Char) : Option (Option Handle) :=
  match cs with
  | ['n', 'i', 'l'] => some none
  | 's' :: ':' :: rest => some (some (rest.map chCode))
  | _ => none

def showHs (h : Handle) : String := "s:" ++ String.ofList (h.map codeCh)
def showH : Option Handle → String
  | none => "nil"
  | some h => showHs h

def parseOptNat (cs : List Char) : Option (Option Nat) :=
  if cs == ['-'] then some none else (natOf cs).map some

def parseList (cs : List Char) : Option (List Nat) :=
  if cs == ['-'] then some [] else (splitC ',' cs).mapM natOf

/-- Addresses below the block are sent as negative ordinals; any out-of-range ordinal behaves
the same (`IPToOrdinal` error), so they are mapped above the block, keeping them distinct. -/
def parseOrd (cs : List Char) : Option Nat :=
  match (String.ofList cs).toInt? with
  | some (Int.ofNat k) => some k
  | some (Int.negSucc k) => some (1000000 + k)
  | none => none

def parseROpt (w : String) : Option ROpt :=
  match splitC '/' w.toList with
  | [o, s, h] =>
    match parseOrd o, parseOptNat s, parseH h with
    | some o, some s, some (some h) => some { ord := o, seq := s, handle := h }
    | _, _, _ => none
  | _ => none

def showOptIdx : Option Nat → String
  | none => "-"
  | some i => toString i

def showAttr (a : Attr) : String :=
  s!"{showH a.handle}/{a.owner}/{showOptIdx a.releasedAt}"

def showSeqFor (l : List (Option Nat)) : String :=
  joinWith "," ((l.zipIdx.filterMap (fun (p : Option Nat × Nat) => p.1.map (fun s => s!"{p.2}:{s}"))))

def dump (b : Block) : String :=
  "A=" ++ joinWith "," (b.allocs.map showOptIdx) ++
  " U=" ++ joinWith "," (b.unalloc.map toString) ++
  " T=" ++ joinWith ";" (b.attrs.map showAttr) ++
  s!" S={b.seq}" ++
  " Q=" ++ showSeqFor b.seqFor

def insertSorted (x : Nat) : List Nat → List Nat
  | [] => [x]
  | y :: ys => if x ≤ y then x :: y :: ys else y :: insertSorted x ys
def sortNat (l : List Nat) : List Nat := l.foldr insertSorted []

def lexLe : List Nat → List Nat → Bool
  | [], _ => true
  | _ :: _, [] => false
  | a :: as, b :: bs => a < b || (a == b && lexLe as bs)

def insertH (x : Handle × Nat) : List (Handle × Nat) → List (Handle × Nat)
  | [] => [x]
  | y :: ys => if x.1 == y.1 then (y.1, y.2 + x.2) :: ys
               else if lexLe x.1 y.1 then x :: y :: ys else y :: insertH x ys

/-- `countByHandle`, sorted by handle bytes; the empty handle is not counted. -/
def counts (rels : List (Nat × Handle)) : String :=
  let m := rels.foldl (fun acc p => if p.2 == [] then acc else insertH (p.2, 1) acc) []
  joinWith "," (m.map (fun p => s!"{showHs p.1}={p.2}"))

def showRelErr : Option RelErr → String
  | none => "err"
  | some .range => "err:range"
  | some .seq => "err:seq"
  | some .handle => "err:handle"

def out (b : Block) (r : String) : St → St × String := fun s => ({ s with blk := b }, r ++ " | " ++ dump b)

def step' (s : St) (line : String) : St × String :=
  let bad := (s, "bad-op")
  match words line with
  | ["new", n, q] =>
    match n.toNat?, q.toNat? with
    | some n, some q => out (newBlock n q none) "ok" { s with now := 0 }
    | _, _ => bad
  | ["newr", n, q, a, e, h, note] =>
    match n.toNat?, q.toNat?, a.toNat?, e.toNat?, parseH h.toList, note.toNat? with
    | some n, some q, some a, some e, some (some h), some note =>
      out (newBlock n q (some (a, e, h, note))) "ok" { s with now := 0 }
    | _, _, _, _, _, _ => bad
  | ["empty"] => (s, showBool s.blk.isEmpty ++ " | " ++ dump s.blk)
  | ["bump"] => let s' := step s .bump; (s', "ok | " ++ dump s'.blk)
  | ["tick", d] =>
    match d.toNat? with
    | some d => let s' := step s (.tick d); (s', "ok | " ++ dump s'.blk)
    | none => bad
  | ["gc", cd] =>
    match cd.toInt? with
    | some cd => let r := s.blk.gc cd s.now; out r.1 (showBool r.2) s
    | none => bad
  | ["auto", num, h, owner, rsv] =>
    match num.toInt?, parseH h.toList, owner.toNat?, parseList rsv.toList with
    | some num, some h, some owner, some rsv =>
      let r := s.blk.autoAssign num.toNat h owner rsv
      out r.1 ("ips=" ++ joinWith "," (r.2.map toString)) s
    | _, _, _, _ => bad
  | ["assign", o, h, owner] =>
    match parseOrd o.toList, parseH h.toList, owner.toNat? with
    | some o, some h, some owner =>
      let r := s.blk.assign o h owner
      out r.1 (match r.2 with | .ok => "ok" | .range => "err:range" | .exists => "err:exists") s
    | _, _, _ => bad
  | "rel" :: cd :: optws =>
    match cd.toInt?, optws.mapM parseROpt with
    | some cd, some opts =>
      let r := s.blk.release cd s.now opts
      let txt := match r.2 with
        | .err e => showRelErr e
        | .ok skipped rels => "ok skipped=" ++ joinWith "," ((sortNat skipped).map toString) ++ " counts=" ++ counts rels
      out r.1 txt s
    | _, _ => bad
  | ["relh", cd, h, q] =>
    match cd.toInt?, parseH h.toList, parseOptNat q.toList with
    | some cd, some (some h), some q =>
      let r := s.blk.releaseByHandle cd s.now h q
      out r.1 (toString r.2) s
    | _, _, _ => bad
  | _ => bad

/-! Client-level lines (see harness/cmd/c21/client.go): `c*` ops are executed by the real ipamClient only
(answer `client`); every block write they cause is replayed here as
`xload <n> <now> A=.. U=.. T=.. S=.. Q=..` ; `xgc` ; `x<op>` ; `xbump` ; `xstate`. -/

def parseOptIdx (cs : List Char) : Option (Option Nat) :=
  if cs == ['-'] then some none else (natOf cs).map some

def parseCommaList {α : Type} (f : List Char → Option α) (cs : List Char) (sep : Char) : Option (List α) :=
  if cs.isEmpty then some [] else (splitC sep cs).mapM f

def parseAttr (cs : List Char) : Option Attr :=
  match splitC '/' cs with
  | [h, o, r] =>
    match parseH h, natOf o, parseOptIdx r with
    | some h, some o, some r => some { handle := h, owner := o, releasedAt := r }
    | _, _, _ => none
  | _ => none

def parseQ (n : Nat) (cs : List Char) : Option (List (Option Nat)) :=
  match parseCommaList (fun p => match splitC ':' p with
      | [o, s] => (match natOf o, natOf s with | some o, some s => some (o, s) | _, _ => none)
      | _ => none) cs ',' with
  | some ps => some (ps.foldl (fun l (p : Nat × Nat) => l.set p.1 (some p.2)) (List.replicate n none))
  | none => none

def field (pre : String) (w : String) : Option (List Char) :=
  if w.startsWith pre then some (w.toList.drop pre.length) else none

def parseLoad (ws : List String) : Option St :=
  match ws with
  | [n, now, a, u, t, q, qq] =>
    match n.toNat?, now.toNat?, field "A=" a, field "U=" u, field "T=" t, field "S=" q, field "Q=" qq with
    | some n, some now, some a, some u, some t, some q, some qq =>
      match parseCommaList parseOptIdx a ',', parseCommaList natOf u ',', parseCommaList parseAttr t ';', natOf q, parseQ n qq with
      | some a, some u, some t, some q, some qq =>
        some { blk := { n := n, allocs := a, unalloc := u, attrs := t, seq := q, seqFor := qq }, now := now }
      | _, _, _, _, _ => none
    | _, _, _, _, _, _, _ => none
  | _ => none

def step'' (s : St) (line : String) : St × String :=
  match words line with
  | "xload" :: rest => match parseLoad rest with
    | some s' => (s', "-")
    | none => (s, "bad-op")
  | ["xstate"] => (s, dump s.blk)
  | "xrelres" :: cd :: optws =>
    match cd.toInt?, optws.mapM parseROpt with
    | some cd, some opts =>
      match (s.blk.release cd s.now opts).2 with
      | .err _ => (s, "err")
      | .ok skipped _ => (s, "ok " ++ joinWith "," ((sortNat skipped).map toString))
    | _, _ => (s, "bad-op")
  | w :: rest =>
    if w.startsWith "c" then (s, "client")
    else if w.startsWith "x" then
      let r := step' s (" ".intercalate ((String.ofList (w.toList.drop 1)) :: rest))
      (r.1, if r.2 == "bad-op" then "bad-op" else "-")
    else step' s line
  | [] => (s, "bad-op")

def main : IO Unit := run step'' { blk := newBlock 0 0 none, now := 0 }
