import CalicoVerif.Util.Proto
import CalicoVerif.Model.C23
/-! Driver for C23.  Ops (decimal naturals; `-` = none / empty):
  `new GRACE` | `insync` | `block b AFF ENTRIES` (AFF = node | `-` | `v` = a non-host, e.g. virtual, affinity) | `blockdel b` | `cnode n K` | `cnodedel n` | `knode n 0|1` |
  `pod id inCache inApi node evicted IPS` | `poddel id fromCache fromApi` | `dirty n` | `failrel` (the next ReleaseIPs call fails) | `tick minutes` | `sync 0|1` | `dump`
  ENTRIES = `-` | entry(`;`entry)*, entry = `ord:HANDLE:kind:node:pod:seq`, kind ∈ p t u w;  IPS = `-` | b`.`o(`,`b`.`o)*
Output of `sync`: `rel=… rba=… rha=… ok|work`; of `dump`: the collector's bookkeeping; otherwise `ok`.
-/
open CalicoVerif CalicoVerif.C23 CalicoVerif.Proto

def optNat (s : String) : Option (Option Nat) := if s == "-" then some none else s.toNat?.map some

def parseKind : String → Option Kind
  | "p" => some .pod | "t" => some .tunnel | "u" => some .unknown | "w" => some .winres | _ => none

def parseEntry (s : String) : Option Entry :=
  match s.splitOn ":" with
  | [o, h, k, n, p, q] => do
    pure { ord := ← o.toNat?, handle := ← optNat h, kind := ← parseKind k, node := ← n.toNat?, pod := ← p.toNat?, seq := ← q.toNat? }
  | _ => none

def parseEntries (s : String) : Option (List Entry) :=
  if s == "-" then some [] else (s.splitOn ";").mapM parseEntry

def parseIP (s : String) : Option (Nat × Nat) :=
  match s.splitOn "." with
  | [b, o] => do pure (← b.toNat?, ← o.toNat?)
  | _ => none

def parseIPs (s : String) : Option (List (Nat × Nat)) :=
  if s == "-" then some [] else (s.splitOn ",").mapM parseIP

def parseBool : String → Option Bool
  | "0" => some false | "1" => some true | _ => none

def parseOp : List String → Option Op
  | ["insync"] => some .inSync
  | ["failrel"] => some .failRel
  | ["block", b, a, es] => do
    let aff ← if a == "v" then some Aff.other else (optNat a).map (fun o => match o with | some n => Aff.host n | none => Aff.none)
    pure (.block (← b.toNat?) aff (← parseEntries es))
  | ["blockdel", b] => do pure (.blockDel (← b.toNat?))
  | ["cnode", n, k] => do pure (.cnode (← n.toNat?) (← optNat k))
  | ["cnodedel", n] => do pure (.cnodeDel (← n.toNat?))
  | ["knode", n, p] => do pure (.knode (← n.toNat?) (← parseBool p))
  | ["pod", i, c, a, n, e, ips] => do
    pure (.pod (← i.toNat?) (← parseBool c) (← parseBool a) { node := ← n.toNat?, evicted := ← parseBool e, ips := ← parseIPs ips })
  | ["poddel", i, c, a] => do pure (.podDel (← i.toNat?) (← parseBool c) (← parseBool a))
  | ["dirty", n] => do pure (.dirty (← n.toNat?))
  | ["tick", d] => do pure (.tick (← d.toNat?))
  | ["sync", f] => do pure (.sync (← parseBool f))
  | _ => none

def sortBy {α : Type} (key : α → Nat) (xs : List α) : List α := xs.mergeSort (fun a b => decide (key a ≤ key b))
def sortNat (xs : List Nat) : List Nat := sortBy id xs

def join (sep : String) (xs : List String) : String := if xs.isEmpty then "-" else sep.intercalate xs

def idKey (h b o : Nat) : Nat := h * 1000000 + b * 1000 + o

def showCalls (cs : List Call) (work : Bool) : String :=
  let rel := cs.flatMap (fun c => match c with | .releaseIPs l => l | _ => [])
  let rba := cs.filterMap (fun c => match c with | .releaseBlockAffinity b n => some (b, n) | _ => none)
  let rha := cs.filterMap (fun c => match c with | .releaseHostAffinities n => some n | _ => none)
  let relS := (sortBy (fun (x : Nat × Nat × Nat × Nat) => idKey x.2.2.1 x.1 x.2.1) rel).map
    (fun x => s!"{x.1}.{x.2.1}/{x.2.2.1}/{x.2.2.2}")
  let rbaS := (sortBy (fun (x : Nat × Nat) => x.1) rba).map (fun x => s!"{x.1}/{x.2}")
  let rhaS := (sortNat rha).map toString
  s!"rel={join "," relS} rba={join "," rbaS} rha={join "," rhaS} " ++ (if work then "work" else "ok")

def showOpt : Option Nat → String
  | some n => toString n
  | none => "-"

def dump (s : St) : String :=
  let allocs := (sortBy (fun (a : Alloc) => idKey a.handle a.block a.ord) s.allocs).map (fun a =>
    s!"{a.handle}/{a.block}.{a.ord}:{a.node}:{showOpt a.knode}:{a.seq}:{showBool (a.leakedAt.isSome && !a.confirmed)}:{showBool a.confirmed}")
  let leaks := (sortBy (fun (i : Id) => idKey i.1 i.2.1 i.2.2) s.leaks).map (fun i => s!"{i.1}/{i.2.1}.{i.2.2}")
  let kv (m : AMap Nat) := (sortBy (fun (x : Nat × Nat) => x.1) m).map (fun x => s!"{x.1}>{x.2}")
  let bbn := (sortBy (fun (x : Nat × List Nat) => x.1) s.blocksByNode).map (fun x => s!"{x.1}>{".".intercalate ((sortNat x.2).map toString)}")
  let cn := (sortBy (fun (x : Nat × Option Nat) => x.1) s.cnodes).map (fun x => s!"{x.1}>{showOpt x.2}")
  s!"allocs={join "," allocs} leaks={join "," leaks} dirty={join "," ((sortNat s.dirty).map toString)} nbb={join "," (kv s.nodesByBlock)} " ++
  s!"bbn={join "," bbn} empty={join "," (kv s.emptyBlocks)} trk={join "," ((sortNat (s.tracker.map (·.1))).map toString)} " ++
  s!"blocks={join "," ((sortNat s.allBlocks).map toString)} cn={join "," cn} full={showBool s.fullSync}"

def stepLine (s : St) (line : String) : St × String :=
  match words line with
  | ["new", g] => match optNat g with
    | some g => ({ grace := g }, "ok")
    | none => (s, "bad-op")
  | ["dump"] => (s, dump s)
  | ["probe", _] => (s, "ok")   -- order-parametric probe run by the harness on the real code only
  | ws =>
    match parseOp ws with
    | none => (s, "bad-op")
    | some op =>
      let r := step s op
      match op with
      | .sync _ => (r.1, showCalls r.2.1 r.2.2)
      | _ => (r.1, "ok")

def main : IO Unit := run stepLine {}
