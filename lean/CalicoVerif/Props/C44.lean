import CalicoVerif.Model.C44
import CalicoVerif.Proofs.C44
/-!
C44 — Each workload interface carries exactly the state of its preferred endpoint.

The model follows resolveWorkloadEndpoints after the four repairs made in /repo (D2/D4: commit 8ff5c1a;
D1/D3: promote the endpoint shadowed on the OLD interface name when the active one renames away, and
release the old interface of an endpoint that gets shadowed on its new name).  With them the
full-strength property holds and is proved for ALL histories, renames included:

* `iface_state_eq_spec_batches`, `order_independent_batches`: histories of batches (any number of
  updates/removals per CompleteDeferredWork, processed in ANY order): every interface name carries
  exactly the policy chains of the smallest live endpoint id claiming it, its routes iff that endpoint
  is admin up, nothing at all if no live endpoint claims it; the name→endpoint dispatch map is exactly
  "the preferred live endpoint of each name"; hence the programmed state depends only on the live endpoints;
* `iface_state_eq_spec`, `order_independent`: the same for one update per CompleteDeferredWork
  (`IfaceStateEqSpec`, `OrderIndependent` — the statements that were refuted for the old code);
* `d1_…`/`d2_…`/`d3_…`/`d4_…_now_correct`: the four histories that failed before the repairs
  (replayed on the real code by corpus/C44/d1…d4).
-/
namespace CalicoVerif.C44
open CalicoVerif.C18 (GoMap get set del get_set get_del)

/-- The full-strength property (one update per CompleteDeferredWork). -/
def IfaceStateEqSpec : Prop :=
  ∀ (ops : List Op) (name : Nat),
    get (run ops).chains name = specChains (live ops) name ∧
    get (run ops).routes name = specRoutes (live ops) name

/-- Order independence: the programmed state is a function of the live endpoints only. -/
def OrderIndependent : Prop :=
  ∀ (ops₁ ops₂ : List Op), (∀ id, get (live ops₁) id = get (live ops₂) id) →
    ∀ name, get (run ops₁).chains name = get (run ops₂).chains name

/-- **The property, for all histories of batches** — any number of updates and removals per
CompleteDeferredWork, processed in ANY order, renames of live endpoints included. -/
theorem iface_state_eq_spec_batches (bs : List Batch) (m : Mgr) (hr : ReachFrom Mgr.new bs m) (name : Nat) :
    get m.chains name = specChains (liveBs bs) name ∧
    get m.routes name = specRoutes (liveBs bs) name ∧
    get m.ifaceToID name = (preferred (liveBs bs) name).map (·.1) := by
  obtain ⟨g, hl⟩ := good_reach bs Mgr.new [] good_new C18.nodupKeys_nil m hr
  have g' : Good m (get (liveBs bs)) [] := g
  have hl' : C18.NodupKeys (liveBs bs) := hl
  refine ⟨(chains_of_good _ _ g' hl' name).1, (chains_of_good _ _ g' hl' name).2, ?_⟩
  unfold preferred
  rw [best_of_good _ _ g' hl' name]
  cases hi : get m.ifaceToID name with
  | none => rfl
  | some i =>
    obtain ⟨e, hact, _⟩ := g'.b1 name i hi
    simp [g'.a1 i e hact]

/-- **Order independence for batch histories**: two histories (whatever the order inside the batches
and however the updates are grouped into batches) that leave the same live endpoints leave the same
chains and routes on every interface. -/
theorem order_independent_batches (bs₁ bs₂ : List Batch) (m₁ m₂ : Mgr)
    (r₁ : ReachFrom Mgr.new bs₁ m₁) (r₂ : ReachFrom Mgr.new bs₂ m₂)
    (hl : ∀ id, get (liveBs bs₁) id = get (liveBs bs₂) id) (name : Nat) :
    get m₁.chains name = get m₂.chains name ∧ get m₁.routes name = get m₂.routes name := by
  obtain ⟨_, n1⟩ := good_reach bs₁ Mgr.new [] good_new C18.nodupKeys_nil m₁ r₁
  obtain ⟨_, n2⟩ := good_reach bs₂ Mgr.new [] good_new C18.nodupKeys_nil m₂ r₂
  have e1 := iface_state_eq_spec_batches bs₁ m₁ r₁ name
  have e2 := iface_state_eq_spec_batches bs₂ m₂ r₂ name
  rw [e1.1, e2.1, e1.2.1, e2.2.1]
  unfold specChains specRoutes preferred
  have hb : bestShadowed (liveBs bs₁) name = bestShadowed (liveBs bs₂) name :=
    bestShadowed_congr _ _ n1 n2 hl name
  rw [hb]
  cases bestShadowed (liveBs bs₂) name with
  | none => exact ⟨rfl, rfl⟩
  | some i => simp [hl i]

/-! #### one update per CompleteDeferredWork -/

theorem ra_single (fuel : Nat) : ∀ (m : Mgr) (P : Pending), P.length ≤ 1 →
    Mgr.resolveAll fuel m P = [Mgr.resolveLoop fuel m P] := by
  induction fuel with
  | zero => intro m P _; rfl
  | succ fuel ih =>
    intro m P hP
    cases P with
    | nil => rfl
    | cons q ps =>
      have hps : ps = [] := by
        cases ps with
        | nil => rfl
        | cons _ _ => simp at hP
      subst hps
      simp only [Mgr.resolveAll, Mgr.resolveLoop, List.flatMap_cons, List.flatMap_nil, List.append_nil]
      apply ih
      have hd : C18.del [q] q.1 = [] := by simp [C18.del]
      rw [hd]
      cases (m.process [] q.1 q.2).2 with
      | none => simp
      | some be => simp [C18.set, C18.del]

/-- With ONE pending update the all-orders semantics is the single-update `resolve`. -/
theorem batch_single (m : Mgr) (id : Nat) (w : Option Ep) : m.batch [(id, w)] = [m.resolve id w] := by
  have hp : mkPending [(id, w)] = [(id, w)] := by simp [mkPending, C18.set, C18.del]
  unfold Mgr.batch Mgr.resolve
  simp only [hp, List.length_cons, List.length_nil]
  exact ra_single _ m _ (by simp)

theorem reach_run (ops : List Op) (m : Mgr) : ReachFrom m (ops.map Op.toBatch) (ops.foldl Mgr.step m) := by
  induction ops generalizing m with
  | nil => rfl
  | cons op r ih =>
    simp only [List.map_cons, List.foldl_cons, ReachFrom]
    refine ⟨m.step op, ?_, ih _⟩
    cases op with
    | update id w => simp [Op.toBatch, Mgr.step, batch_single]
    | remove id => simp [Op.toBatch, Mgr.step, batch_single]

theorem liveB_toBatch (l : GoMap Nat Ep) (op : Op) : liveB l op.toBatch = liveStep l op := by
  cases op <;> simp [Op.toBatch, liveB, mkPending, applyEntry, liveStep, C18.set, C18.del]

theorem live_eq_liveBs (ops : List Op) : liveBs (ops.map Op.toBatch) = live ops := by
  unfold liveBs live
  generalize ([] : GoMap Nat Ep) = l
  induction ops generalizing l with
  | nil => rfl
  | cons op r ih => simp only [List.map_cons, List.foldl_cons, liveB_toBatch, ih]

/-- **The full-strength property holds** (every history, renames included). -/
theorem iface_state_eq_spec : IfaceStateEqSpec := by
  intro ops name
  have := iface_state_eq_spec_batches (ops.map Op.toBatch) (run ops) (reach_run ops Mgr.new) name
  rw [live_eq_liveBs] at this
  exact ⟨this.1, this.2.1⟩

theorem dispatch_eq_spec (ops : List Op) (name : Nat) :
    get (run ops).ifaceToID name = (preferred (live ops) name).map (·.1) := by
  have := iface_state_eq_spec_batches (ops.map Op.toBatch) (run ops) (reach_run ops Mgr.new) name
  rw [live_eq_liveBs] at this
  exact this.2.2

/-- **Order independence holds.** -/
theorem order_independent : OrderIndependent := by
  intro ops₁ ops₂ hl name
  exact (order_independent_batches (ops₁.map Op.toBatch) (ops₂.map Op.toBatch) _ _
    (reach_run ops₁ Mgr.new) (reach_run ops₂ Mgr.new)
    (by intro id; rw [live_eq_liveBs, live_eq_liveBs]; exact hl id) name).1

/-- The name→id map only points at an ACTIVE endpoint that carries that interface name. -/
def Consistent (m : Mgr) : Prop :=
  ∀ name id, get m.ifaceToID name = some id → ∃ e, get m.active id = some e ∧ e.name = name

theorem ifaceToID_consistent (ops : List Op) : Consistent (run ops) := by
  obtain ⟨g, _⟩ := good_reach (ops.map Op.toBatch) Mgr.new [] good_new C18.nodupKeys_nil (run ops) (reach_run ops Mgr.new)
  exact g.b1

/-! ### The histories that failed before the repairs, and non-vacuity -/

/-- D1 history: 0<1 both claim iface 0; 0 moves to iface 1: endpoint 1 is promoted on iface 0. -/
theorem d1_history_now_correct :
    let ops := [Op.update 0 ⟨0, true, 1⟩, .update 1 ⟨0, true, 2⟩, .update 0 ⟨1, true, 3⟩]
    get (run ops).chains 0 = some ⟨1, true, 2⟩ ∧ get (run ops).chains 1 = some ⟨0, true, 3⟩ ∧
    get (run ops).routes 0 = some (1, 2) ∧ (run ops).shadowed = [] := by decide

/-- D2 history: 1 shadowed on iface 0, updated onto free iface 1, then 0 removed: 1 stays on iface 1. -/
theorem d2_history_now_correct :
    let ops := [Op.update 0 ⟨0, true, 1⟩, .update 1 ⟨0, true, 2⟩, .update 1 ⟨1, true, 3⟩, .remove 0]
    get (run ops).chains 1 = some ⟨1, true, 3⟩ ∧ get (run ops).chains 0 = none ∧
    get (run ops).routes 0 = none ∧ get (run ops).shadowed 1 = none := by decide

/-- D3 history: active endpoint 1 (iface 1) is renamed onto iface 0 held by 0: it is shadowed AND iface 1
is released. -/
theorem d3_history_now_correct :
    let ops := [Op.update 0 ⟨0, true, 1⟩, .update 1 ⟨1, true, 2⟩, .update 1 ⟨0, true, 3⟩]
    get (run ops).chains 1 = none ∧ get (run ops).routes 1 = none ∧
    get (run ops).shadowed 1 = some ⟨0, true, 3⟩ ∧ get (run ops).active 1 = none := by decide

/-- D4 history: endpoints 0<1 share iface 0; both removed before ONE CompleteDeferredWork: whatever the
processing order nothing stays programmed. -/
theorem d4_batch_now_correct :
    let m := run [Op.update 0 ⟨0, true, 1⟩, .update 1 ⟨0, true, 2⟩]
    let outs := m.batch [(0, none), (1, none)]
    outs.length = 2 ∧ (outs.map (fun o => get o.chains 0)) = [none, none] ∧
    (outs.map (fun o => get o.active 1)) = [none, none] ∧ (outs.map (fun o => o.shadowed)) = [[], []] := by decide

/-- A history with shadowing, an admin-down endpoint, promotion on removal, a rename that promotes and a
rename onto a held interface. -/
example :
    let ops := [Op.update 2 ⟨0, true, 1⟩, .update 0 ⟨0, true, 2⟩, .update 1 ⟨0, false, 3⟩, .remove 0,
      .update 1 ⟨1, true, 4⟩, .update 2 ⟨1, true, 5⟩]
    get (run ops).chains 0 = specChains (live ops) 0 ∧ get (run ops).chains 1 = some ⟨1, true, 4⟩ ∧
    get (run ops).chains 0 = none ∧ get (run ops).shadowed 2 = some ⟨1, true, 5⟩ := by decide

end CalicoVerif.C44
