import CalicoVerif.Model.C44
import CalicoVerif.Proofs.C44
/-!
C44 — Each workload interface carries exactly the state of its preferred endpoint.

The full-strength statement (`IfaceStateEqSpec`: after every history every interface name carries
exactly the chains and routes of the smallest live endpoint id claiming it, and nothing otherwise;
hence the result depends only on the live endpoints, not on the update order) is FALSE of the
current code: two failing shapes remain, both need a LIVE endpoint to change its interface name
(D1 `rename_does_not_promote`, D3 `rename_onto_held_iface_keeps_old_state`; replays corpus/C44/d1…, d3…).
D2 (stale shadow entry re-promoted) and D4 (a promotion overwrote a pending update/removal in the
same batch) were fixed in /repo (commit "fix: endpoint manager must not resurrect or re-promote stale
shadowed workload endpoints"); their histories are kept as regression examples
(`d2_history_now_correct`, `d4_batch_now_correct`; corpus/C44/d2…, d4…).

Proved for ALL histories of BATCHES (any number of updates/removals per CompleteDeferredWork, processed
in any order) in which no endpoint that is live at the start of a batch changes its interface name:
`iface_state_eq_spec_batches_partial`, `order_independent_batches_partial` — every interface name
carries exactly the chains of the minimum live endpoint id claiming it, routes iff that endpoint is
admin up, nothing when no live endpoint claims it; `iface_state_eq_spec_partial` etc. are the
single-update corollaries.  Proved for all histories whatsoever: `ifaceToID_consistent`.
-/
namespace CalicoVerif.C44
open CalicoVerif.C18 (GoMap get set del get_set get_del)

/-- The full-strength property. -/
def IfaceStateEqSpec : Prop :=
  ∀ (ops : List Op) (name : Nat),
    get (run ops).chains name = specChains (live ops) name ∧
    get (run ops).routes name = specRoutes (live ops) name

/-- Order independence: the programmed state is a function of the live endpoints only. -/
def OrderIndependent : Prop :=
  ∀ (ops₁ ops₂ : List Op), (∀ id, get (live ops₁) id = get (live ops₂) id) →
    ∀ name, get (run ops₁).chains name = get (run ops₂).chains name

/-- D1. Rename does not promote: endpoints 0<1 both claim iface 0 (1 is shadowed); 0 moves to iface 1;
endpoint 1 is now the only claimant of iface 0 but nothing is programmed there (and 1 stays in the
shadowed map for ever). -/
theorem rename_does_not_promote :
    let ops := [Op.update 0 ⟨0, true, 1⟩, .update 1 ⟨0, true, 2⟩, .update 0 ⟨1, true, 3⟩]
    specChains (live ops) 0 = some ⟨1, true, 2⟩ ∧ get (run ops).chains 0 = none ∧
    get (run ops).routes 0 = none ∧ get (run ops).shadowed 1 = some ⟨0, true, 2⟩ := by decide

/-- D2 (fixed): 1 is shadowed on iface 0, then updated onto free iface 1; activating it now drops its
shadow copy, so removing 0 no longer drags 1 back to iface 0 with stale data. -/
theorem d2_history_now_correct :
    let ops := [Op.update 0 ⟨0, true, 1⟩, .update 1 ⟨0, true, 2⟩, .update 1 ⟨1, true, 3⟩, .remove 0]
    get (run ops).chains 1 = specChains (live ops) 1 ∧ get (run ops).chains 1 = some ⟨1, true, 3⟩ ∧
    get (run ops).chains 0 = none ∧ get (run ops).routes 0 = none ∧ get (run ops).shadowed 1 = none := by decide

/-- D3. Rename onto a held interface keeps the old state: active endpoint 1 (iface 1) is updated to
claim iface 0, held by the preferred endpoint 0: 1 is shadowed, but iface 1 — which no live
endpoint uses any more — keeps 1's old chains and routes. -/
theorem rename_onto_held_iface_keeps_old_state :
    let ops := [Op.update 0 ⟨0, true, 1⟩, .update 1 ⟨1, true, 2⟩, .update 1 ⟨0, true, 3⟩]
    specChains (live ops) 1 = none ∧ get (run ops).chains 1 = some ⟨1, true, 2⟩ ∧
    get (run ops).routes 1 = some (1, 2) := by decide

/-- The full-strength statement is false of the current code. -/
theorem iface_state_eq_spec_false : ¬ IfaceStateEqSpec := by
  intro h
  have := (h [Op.update 0 ⟨0, true, 1⟩, .update 1 ⟨0, true, 2⟩, .update 0 ⟨1, true, 3⟩] 0).1
  revert this
  decide

/-- …and so is order independence: the D1 history and the two plain updates leave the same live
endpoints but different dataplane state. -/
theorem order_independent_false : ¬ OrderIndependent := by
  intro h
  have hl : ∀ id, get (live [Op.update 0 ⟨0, true, 1⟩, .update 1 ⟨0, true, 2⟩, .update 0 ⟨1, true, 3⟩]) id =
      get (live [Op.update 1 ⟨0, true, 2⟩, .update 0 ⟨1, true, 3⟩]) id := by
    intro id
    have e1 : live [Op.update 0 ⟨0, true, 1⟩, .update 1 ⟨0, true, 2⟩, .update 0 ⟨1, true, 3⟩] =
        [(0, ⟨1, true, 3⟩), (1, ⟨0, true, 2⟩)] := by decide
    have e2 : live [Op.update 1 ⟨0, true, 2⟩, .update 0 ⟨1, true, 3⟩] = [(0, ⟨1, true, 3⟩), (1, ⟨0, true, 2⟩)] := by
      decide
    rw [e1, e2]
  have := h _ _ hl 0
  revert this
  decide

/-- The name→id map only points at active endpoints that carry that name. -/
def Consistent (m : Mgr) : Prop :=
  ∀ name id, get m.ifaceToID name = some id → ∃ e, get m.active id = some e ∧ e.name = name

theorem removeChainsOf_fields (m : Mgr) (id : Nat) :
    (m.removeChainsOf id).ifaceToID = m.ifaceToID ∧ (m.removeChainsOf id).active = m.active := by
  unfold Mgr.removeChainsOf; split <;> exact ⟨rfl, rfl⟩

theorem consistent_remove (m : Mgr) (id : Nat) (h : Consistent m) :
    Consistent (m.removeActiveWorkload (get m.active id) id) := by
  intro name id' hg
  unfold Mgr.removeActiveWorkload at hg ⊢
  have hf := removeChainsOf_fields m id
  cases ho : get m.active id with
  | none =>
    simp only [ho, hf.1, hf.2] at hg ⊢
    obtain ⟨e, he, hn⟩ := h name id' hg
    refine ⟨e, ?_, hn⟩
    rw [get_del]; split
    · rename_i heq; subst heq; rw [ho] at he; cases he
    · exact he
  | some o =>
    simp only [ho, hf.1, hf.2] at hg ⊢
    rw [get_del] at hg
    split at hg
    · cases hg
    · rename_i hne
      obtain ⟨e, he, hn⟩ := h name id' hg
      refine ⟨e, ?_, hn⟩
      rw [get_del]; split
      · rename_i heq; subst heq; rw [ho] at he; cases he; exact absurd hn hne
      · exact he

theorem consistent_activate (m : Mgr) (id : Nat) (w : Ep) (h : Consistent m) :
    Consistent (m.activate id (get m.active id) w) := by
  intro name id' hg
  unfold Mgr.activate at hg ⊢
  cases ho : get m.active id with
  | none =>
    simp only [ho] at hg ⊢
    rw [get_set] at hg ⊢
    split at hg
    · rename_i hn; cases hg; exact ⟨w, by simp, hn⟩
    · obtain ⟨e, he, hn⟩ := h name id' hg
      refine ⟨e, ?_, hn⟩
      split
      · rename_i heq; subst heq; rw [ho] at he; cases he
      · exact he
  | some o =>
    have hf := removeChainsOf_fields m id
    by_cases hne : o.name ≠ w.name
    · simp only [ho, hne, if_true, hf.1, hf.2, ne_eq, not_false_eq_true] at hg ⊢
      rw [get_set] at hg
      split at hg
      · rename_i hn; cases hg; exact ⟨w, by simp [get_set], hn⟩
      · rw [get_del] at hg
        split at hg
        · cases hg
        · rename_i hne2 hne3
          obtain ⟨e, he, hn⟩ := h name id' hg
          refine ⟨e, ?_, hn⟩
          rw [get_set]; split
          · rename_i heq; subst heq; rw [ho] at he; cases he; exact absurd hn hne3
          · exact he
    · have heq : o.name = w.name := by simpa using hne
      simp only [ho, heq, ne_eq, not_true_eq_false, if_false] at hg ⊢
      rw [get_set] at hg
      split at hg
      · rename_i hn; cases hg; exact ⟨w, by simp [get_set], hn⟩
      · rename_i hne2
        obtain ⟨e, he, hn⟩ := h name id' hg
        refine ⟨e, ?_, hn⟩
        rw [get_set]; split
        · rename_i heq2; subst heq2; rw [ho] at he; cases he; exact absurd (heq ▸ hn) hne2
        · exact he

theorem consistent_shadowed (m : Mgr) (sh : GoMap Nat Ep) (h : Consistent m) :
    Consistent { m with shadowed := sh } := h

theorem consistent_process (m : Mgr) (pd : Pending) (id : Nat) (w : Option Ep) (h : Consistent m) :
    Consistent (m.process pd id w).1 := by
  unfold Mgr.process
  cases w with
  | none =>
    simp only
    have h1 := consistent_remove m id h
    split
    · split
      · split
        · exact consistent_shadowed _ _ (consistent_shadowed _ _ h1)
        · exact consistent_shadowed _ _ h1
      · exact consistent_shadowed _ _ h1
    · exact consistent_shadowed _ _ h1
  | some w =>
    simp only
    split
    · rename_i existing hex
      split
      · exact consistent_shadowed _ _ h
      · -- new endpoint takes preference
        have hne : existing ≠ id := by
          revert hex
          cases get m.ifaceToID w.name with
          | none => simp
          | some e =>
            simp only
            by_cases hc : e = id
            · simp [hc]
            · simp only [ne_eq, hc, not_false_eq_true, if_true, Option.some.injEq]
              intro he; exact he ▸ hc
        have key : ∀ sh, Consistent ((({ m with shadowed := sh } : Mgr).removeActiveWorkload
            (get m.active existing) existing).activate id (get m.active id) w) := by
          intro sh
          have h1 : Consistent ({ m with shadowed := sh } : Mgr) := consistent_shadowed m sh h
          have h2 := consistent_remove ({ m with shadowed := sh } : Mgr) existing h1
          have hold : get (({ m with shadowed := sh } : Mgr).removeActiveWorkload
              (get m.active existing) existing).active id = get m.active id := by
            unfold Mgr.removeActiveWorkload
            simp only
            rw [get_del]
            simp only [hne, if_false]
            have := removeChainsOf_fields ({ m with shadowed := sh } : Mgr) existing
            split <;> simp [this.2]
          have h3 := consistent_activate _ id w h2
          rw [hold] at h3
          exact h3
        exact key _
    · exact consistent_activate m id w h

/-- **Structural invariant, all histories**: the interface-name → endpoint map only ever points at an
ACTIVE endpoint that carries that interface name (so an interface never has the dispatch entry of
two endpoints, of a shadowed endpoint or of a removed one). -/
theorem ifaceToID_consistent (ops : List Op) : Consistent (run ops) := by
  unfold run
  suffices h : ∀ m, Consistent m → Consistent (ops.foldl Mgr.step m) by
    apply h
    intro name id hg
    simp [Mgr.new] at hg
  induction ops with
  | nil => intro m h; exact h
  | cons op rest ih =>
    intro m h
    apply ih
    have hres : ∀ id w, Consistent (m.resolve id w) := by
      intro id w
      unfold Mgr.resolve
      have h1 := consistent_process m [] id w h
      split
      · rename_i m' b e heq
        have : m' = (m.process [] id w).1 := by rw [heq]
        subst this
        exact consistent_process _ [] b (some e) h1
      · rename_i m' heq
        have : m' = (m.process [] id w).1 := by rw [heq]
        subst this
        exact h1
    cases op with
    | update id w => exact hres id (some w)
    | remove id => exact hres id none



/-- **The property, for all histories of batches in which no live endpoint changes its interface
name** — any number of updates and removals per CompleteDeferredWork, processed in ANY order: every
interface name carries exactly the policy chains of the smallest live endpoint id claiming it, its
routes iff that endpoint is admin up, and nothing at all if no live endpoint claims it; and the
name→endpoint dispatch map is exactly "the preferred live endpoint of each name". -/
theorem iface_state_eq_spec_batches_partial (bs : List Batch) (m : Mgr) (hr : ReachFrom Mgr.new bs m)
    (h : NoRenameBsFrom [] bs) (name : Nat) :
    get m.chains name = specChains (liveBs bs) name ∧
    get m.routes name = specRoutes (liveBs bs) name ∧
    get m.ifaceToID name = (preferred (liveBs bs) name).map (·.1) := by
  obtain ⟨g, hl⟩ := good_reach bs Mgr.new [] good_new C18.nodupKeys_nil h m hr
  have g' : Good m (get (liveBs bs)) [] := g
  have hl' : C18.NodupKeys (liveBs bs) := hl
  refine ⟨(chains_of_good _ _ g' hl' name).1, (chains_of_good _ _ g' hl' name).2, ?_⟩
  unfold preferred
  rw [best_of_good _ _ g' hl' name]
  cases hi : get m.ifaceToID name with
  | none => rfl
  | some i =>
    obtain ⟨e, hact, _⟩ := g'.b1 name i hi
    simp [g'.a1 i e hact]

/-- **Order independence, same domain**: two rename-free batch histories (whatever the order inside the
batches and however the updates are grouped into batches) that leave the same live endpoints leave
the same chains and routes on every interface. -/
theorem order_independent_batches_partial (bs₁ bs₂ : List Batch) (m₁ m₂ : Mgr)
    (r₁ : ReachFrom Mgr.new bs₁ m₁) (r₂ : ReachFrom Mgr.new bs₂ m₂)
    (h₁ : NoRenameBsFrom [] bs₁) (h₂ : NoRenameBsFrom [] bs₂)
    (hl : ∀ id, get (liveBs bs₁) id = get (liveBs bs₂) id) (name : Nat) :
    get m₁.chains name = get m₂.chains name ∧ get m₁.routes name = get m₂.routes name := by
  obtain ⟨_, n1⟩ := good_reach bs₁ Mgr.new [] good_new C18.nodupKeys_nil h₁ m₁ r₁
  obtain ⟨_, n2⟩ := good_reach bs₂ Mgr.new [] good_new C18.nodupKeys_nil h₂ m₂ r₂
  have e1 := iface_state_eq_spec_batches_partial bs₁ m₁ r₁ h₁ name
  have e2 := iface_state_eq_spec_batches_partial bs₂ m₂ r₂ h₂ name
  rw [e1.1, e2.1, e1.2.1, e2.2.1]
  unfold specChains specRoutes preferred
  have hb : bestShadowed (liveBs bs₁) name = bestShadowed (liveBs bs₂) name :=
    bestShadowed_congr _ _ n1 n2 hl name
  rw [hb]
  cases bestShadowed (liveBs bs₂) name with
  | none => exact ⟨rfl, rfl⟩
  | some i => simp [hl i]

/-! #### single-update corollaries -/

theorem ra_nil (f : Nat) (m : Mgr) : Mgr.resolveAll f m [] = [m] := by cases f <;> rfl

theorem process_update_queues_nothing (m : Mgr) (pd : Pending) (id : Nat) (w : Ep) :
    (m.process pd id (some w)).2 = none := by
  unfold Mgr.process
  simp only
  split
  · split <;> rfl
  · rfl

theorem ra_one (f : Nat) (m : Mgr) (id : Nat) (w : Option Ep) :
    Mgr.resolveAll (f + 1) m [(id, w)] = Mgr.resolveAll f (m.process [] id w).1
      (match (m.process [] id w).2 with
       | some (b, e) => [(b, some e)]
       | none => []) := by
  simp only [Mgr.resolveAll, List.flatMap_cons, List.flatMap_nil, List.append_nil]
  have hd : C18.del [(id, w)] id = [] := by simp [C18.del]
  rw [hd]
  first
    | rfl
    | (congr 1
       cases (m.process [] id w).2 with
       | none => rfl
       | some be => simp [C18.set, C18.del])

/-- With ONE pending update the all-orders semantics is the single-update `resolve`. -/
theorem batch_single (m : Mgr) (id : Nat) (w : Option Ep) : m.batch [(id, w)] = [m.resolve id w] := by
  have hp : mkPending [(id, w)] = [(id, w)] := by simp [mkPending, C18.set, C18.del]
  unfold Mgr.batch
  simp only [hp, List.length_cons, List.length_nil]
  rw [show 2 * (0 + 1) + 2 = 3 + 1 from rfl, ra_one]
  unfold Mgr.resolve
  cases h : (m.process [] id w).2 with
  | none =>
    have : m.process [] id w = ((m.process [] id w).1, none) := by rw [← h]
    rw [this]; simp only [ra_nil]
  | some be =>
    obtain ⟨b, e⟩ := be
    have : m.process [] id w = ((m.process [] id w).1, some (b, e)) := by rw [← h]
    rw [this]; simp only
    rw [ra_one, process_update_queues_nothing]
    simp only [ra_nil]

theorem reach_run (ops : List Op) (m : Mgr) : ReachFrom m (ops.map Op.toBatch) (ops.foldl Mgr.step m) := by
  induction ops generalizing m with
  | nil => rfl
  | cons op r ih =>
    simp only [List.map_cons, List.foldl_cons, ReachFrom]
    refine ⟨m.step op, ?_, ih _⟩
    cases op with
    | update id w => simp [Op.toBatch, Mgr.step, batch_single]
    | remove id => simp [Op.toBatch, Mgr.step, batch_single]

theorem liveB_toBatch (l : GoMap Nat Ep) (op : Op) : liveB l op.toBatch = liveStep l op := by
  cases op <;> simp [Op.toBatch, liveB, mkPending, applyEntry, liveStep, C18.set, C18.del]

theorem live_eq_liveBs (ops : List Op) : liveBs (ops.map Op.toBatch) = live ops := by
  unfold liveBs live
  generalize ([] : GoMap Nat Ep) = l
  induction ops generalizing l with
  | nil => rfl
  | cons op r ih => simp only [List.map_cons, List.foldl_cons, liveB_toBatch, ih]

theorem noRename_toBatches (ops : List Op) (l : GoMap Nat Ep) (h : NoRenameFrom l ops) :
    NoRenameBsFrom l (ops.map Op.toBatch) := by
  induction ops generalizing l with
  | nil => trivial
  | cons op r ih =>
    cases op with
    | update id w =>
      refine ⟨?_, ?_⟩
      · intro id' w' hg e he
        simp only [Op.toBatch, mkPending, List.foldl_cons, List.foldl_nil, C18.set, C18.del, List.filter_nil,
          C18.get] at hg
        split at hg
        · rename_i hid; subst hid; cases hg; exact h.1 e he
        · cases hg
      · rw [liveB_toBatch]; exact ih _ h.2
    | remove id =>
      refine ⟨?_, ?_⟩
      · intro id' w' hg e he
        simp only [Op.toBatch, mkPending, List.foldl_cons, List.foldl_nil, C18.set, C18.del, List.filter_nil,
          C18.get] at hg
        split at hg <;> cases hg
      · rw [liveB_toBatch]; exact ih _ h

/-- The single-update form: histories with one endpoint update per CompleteDeferredWork. -/
theorem iface_state_eq_spec_partial (ops : List Op) (h : NoRename ops) (name : Nat) :
    get (run ops).chains name = specChains (live ops) name ∧
    get (run ops).routes name = specRoutes (live ops) name := by
  have := iface_state_eq_spec_batches_partial (ops.map Op.toBatch) (run ops) (reach_run ops Mgr.new)
    (noRename_toBatches ops [] h) name
  rw [live_eq_liveBs] at this
  exact ⟨this.1, this.2.1⟩

theorem dispatch_eq_spec_partial (ops : List Op) (h : NoRename ops) (name : Nat) :
    get (run ops).ifaceToID name = (preferred (live ops) name).map (·.1) := by
  have := iface_state_eq_spec_batches_partial (ops.map Op.toBatch) (run ops) (reach_run ops Mgr.new)
    (noRename_toBatches ops [] h) name
  rw [live_eq_liveBs] at this
  exact this.2.2

theorem order_independent_partial (ops₁ ops₂ : List Op) (h₁ : NoRename ops₁) (h₂ : NoRename ops₂)
    (hl : ∀ id, get (live ops₁) id = get (live ops₂) id) (name : Nat) :
    get (run ops₁).chains name = get (run ops₂).chains name ∧
    get (run ops₁).routes name = get (run ops₂).routes name := by
  apply order_independent_batches_partial (ops₁.map Op.toBatch) (ops₂.map Op.toBatch) _ _
    (reach_run ops₁ Mgr.new) (reach_run ops₂ Mgr.new) (noRename_toBatches ops₁ [] h₁) (noRename_toBatches ops₂ [] h₂)
  intro id; rw [live_eq_liveBs, live_eq_liveBs]; exact hl id

/-- Non-vacuity of the no-rename domain: a history with shadowing, an admin-down update, a removal that
promotes, and a removal + re-creation under another interface name. -/
example : NoRename [Op.update 2 ⟨0, true, 1⟩, .update 0 ⟨0, true, 2⟩, .update 1 ⟨0, false, 3⟩, .remove 0,
    .remove 2, .update 2 ⟨1, true, 4⟩] := by
  simp [NoRename, NoRenameFrom, C18.get, C18.set, C18.del]

/-! ### Several updates pending at once -/

/-- D4 (fixed): endpoints 0<1 share iface 0 (1 shadowed); both are removed before ONE
CompleteDeferredWork.  The promotion scan now skips endpoint 1 (it has its own removal pending), so
whatever the processing order nothing stays programmed. -/
theorem d4_batch_now_correct :
    let m := run [Op.update 0 ⟨0, true, 1⟩, .update 1 ⟨0, true, 2⟩]
    let outs := m.batch [(0, none), (1, none)]
    outs.length = 2 ∧ (outs.map (fun o => get o.chains 0)) = [none, none] ∧
    (outs.map (fun o => get o.active 1)) = [none, none] ∧ (outs.map (fun o => o.shadowed)) = [[], []] := by decide

/-- Non-vacuity of the batch domain: a rename-free batch history with a multi-update batch that removes
the holder and updates the endpoint shadowed behind it. -/
example : NoRenameBsFrom [] [[(0, some ⟨0, true, 1⟩), (1, some ⟨0, true, 2⟩), (2, some ⟨0, true, 3⟩)],
    [(0, none), (1, some ⟨0, false, 4⟩)]] := by
  refine ⟨?_, ?_, trivial⟩
  · intro id w h e he; simp [C18.get] at he
  · intro id w h e he
    simp [mkPending, C18.get, C18.set, C18.del] at h
    simp [liveB, mkPending, applyEntry, C18.get, C18.set, C18.del] at he
    by_cases h1 : 1 = id
    · subst h1; simp at h he; subst h; subst he; rfl
    · simp [h1] at h

/-- Where shadowing works (no renames): 0<1<2 all claim iface 0; removing the active one promotes the
smallest waiting id; an admin-down endpoint gets chains but no routes. -/
example :
    let ops := [Op.update 2 ⟨0, true, 1⟩, .update 0 ⟨0, true, 2⟩, .update 1 ⟨0, false, 3⟩, .remove 0]
    get (run ops).chains 0 = specChains (live ops) 0 ∧ get (run ops).chains 0 = some ⟨1, false, 3⟩ ∧
    get (run ops).routes 0 = none ∧ get (run ops).shadowed 2 = some ⟨0, true, 1⟩ := by decide

end CalicoVerif.C44
