import CalicoVerif.Model.C44
import CalicoVerif.Proofs.C18
/-!
C44 — Each workload interface carries exactly the state of its preferred endpoint.

The full-strength statement (`IfaceStateEqSpec`: after every history every interface name carries
exactly the chains and routes of the smallest live endpoint id claiming it, and nothing otherwise;
hence the result depends only on the live endpoints, not on the update order) is FALSE of the
current code.  Three distinct failing shapes are proved below by concrete histories (each is also a
replay on the real endpointManager: corpus/C44/d1…, d2…, d3…), all of them involve a live endpoint
changing its interface name.  What is proved for all histories is the structural part
(`ifaceToID_consistent`): the name→id map only ever points at active endpoints that carry that
name, i.e. an interface never has the dispatch entry of two endpoints or of a non-active one.
-/
namespace CalicoVerif.C44
open CalicoVerif.C18 (GoMap get set del get_set get_del)

/-- The full-strength property. -/
def IfaceStateEqSpec : Prop :=
  ∀ (ops : List Op) (name : Nat),
    get (run ops).chains name = specChains (live ops) name ∧
    get (run ops).routes name = specRoutes (live ops) name

/-- Order independence: the programmed state is a function of the live endpoints only. -/
def OrderIndependent : Prop :=
  ∀ (ops₁ ops₂ : List Op), (∀ id, get (live ops₁) id = get (live ops₂) id) →
    ∀ name, get (run ops₁).chains name = get (run ops₂).chains name

/-- D1. Rename does not promote: endpoints 0<1 both claim iface 0 (1 is shadowed); 0 moves to iface 1;
endpoint 1 is now the only claimant of iface 0 but nothing is programmed there (and 1 stays in the
shadowed map for ever). -/
theorem rename_does_not_promote :
    let ops := [Op.update 0 ⟨0, true, 1⟩, .update 1 ⟨0, true, 2⟩, .update 0 ⟨1, true, 3⟩]
    specChains (live ops) 0 = some ⟨1, true, 2⟩ ∧ get (run ops).chains 0 = none ∧
    get (run ops).routes 0 = none ∧ get (run ops).shadowed 1 = some ⟨0, true, 2⟩ := by decide

/-- D2. Stale shadow entry re-promoted: 1 is shadowed on iface 0, then updated onto free iface 1 (it
becomes active there but its old shadow entry stays); removing 0 re-promotes the STALE entry:
1 is moved back to iface 0 with its old data 2 and iface 1 — the only interface a live endpoint
claims — is left with nothing. -/
theorem stale_shadow_repromoted :
    let ops := [Op.update 0 ⟨0, true, 1⟩, .update 1 ⟨0, true, 2⟩, .update 1 ⟨1, true, 3⟩, .remove 0]
    get (live ops) 1 = some ⟨1, true, 3⟩ ∧ get (live ops) 0 = none ∧
    specChains (live ops) 1 = some ⟨1, true, 3⟩ ∧ get (run ops).chains 1 = none ∧
    specChains (live ops) 0 = none ∧ get (run ops).chains 0 = some ⟨1, true, 2⟩ ∧
    get (run ops).routes 0 = some (1, 2) := by decide

/-- D3. Rename onto a held interface keeps the old state: active endpoint 1 (iface 1) is updated to
claim iface 0, held by the preferred endpoint 0: 1 is shadowed, but iface 1 — which no live
endpoint uses any more — keeps 1's old chains and routes. -/
theorem rename_onto_held_iface_keeps_old_state :
    let ops := [Op.update 0 ⟨0, true, 1⟩, .update 1 ⟨1, true, 2⟩, .update 1 ⟨0, true, 3⟩]
    specChains (live ops) 1 = none ∧ get (run ops).chains 1 = some ⟨1, true, 2⟩ ∧
    get (run ops).routes 1 = some (1, 2) := by decide

/-- The full-strength statement is false of the current code. -/
theorem iface_state_eq_spec_false : ¬ IfaceStateEqSpec := by
  intro h
  have := (h [Op.update 0 ⟨0, true, 1⟩, .update 1 ⟨0, true, 2⟩, .update 0 ⟨1, true, 3⟩] 0).1
  revert this
  decide

/-- …and so is order independence: the D2 history and the single update `1 ↦ iface 1` leave the same
live endpoints but different dataplane state. -/
theorem order_independent_false : ¬ OrderIndependent := by
  intro h
  have hl : live [Op.update 0 ⟨0, true, 1⟩, .update 1 ⟨0, true, 2⟩, .update 1 ⟨1, true, 3⟩, .remove 0] =
      live [Op.update 1 ⟨1, true, 3⟩] := by decide
  have := h [Op.update 0 ⟨0, true, 1⟩, .update 1 ⟨0, true, 2⟩, .update 1 ⟨1, true, 3⟩, .remove 0]
    [Op.update 1 ⟨1, true, 3⟩] (by intro id; rw [hl]) 1
  revert this
  decide

/-- The name→id map only points at active endpoints that carry that name. -/
def Consistent (m : Mgr) : Prop :=
  ∀ name id, get m.ifaceToID name = some id → ∃ e, get m.active id = some e ∧ e.name = name

theorem removeChainsOf_fields (m : Mgr) (id : Nat) :
    (m.removeChainsOf id).ifaceToID = m.ifaceToID ∧ (m.removeChainsOf id).active = m.active := by
  unfold Mgr.removeChainsOf; split <;> exact ⟨rfl, rfl⟩

theorem consistent_remove (m : Mgr) (id : Nat) (h : Consistent m) :
    Consistent (m.removeActiveWorkload (get m.active id) id) := by
  intro name id' hg
  unfold Mgr.removeActiveWorkload at hg ⊢
  have hf := removeChainsOf_fields m id
  cases ho : get m.active id with
  | none =>
    simp only [ho, hf.1, hf.2] at hg ⊢
    obtain ⟨e, he, hn⟩ := h name id' hg
    refine ⟨e, ?_, hn⟩
    rw [get_del]; split
    · rename_i heq; subst heq; rw [ho] at he; cases he
    · exact he
  | some o =>
    simp only [ho, hf.1, hf.2] at hg ⊢
    rw [get_del] at hg
    split at hg
    · cases hg
    · rename_i hne
      obtain ⟨e, he, hn⟩ := h name id' hg
      refine ⟨e, ?_, hn⟩
      rw [get_del]; split
      · rename_i heq; subst heq; rw [ho] at he; cases he; exact absurd hn hne
      · exact he

theorem consistent_activate (m : Mgr) (id : Nat) (w : Ep) (h : Consistent m) :
    Consistent (m.activate id (get m.active id) w) := by
  intro name id' hg
  unfold Mgr.activate at hg ⊢
  cases ho : get m.active id with
  | none =>
    simp only [ho] at hg ⊢
    rw [get_set] at hg ⊢
    split at hg
    · rename_i hn; cases hg; exact ⟨w, by simp, hn⟩
    · obtain ⟨e, he, hn⟩ := h name id' hg
      refine ⟨e, ?_, hn⟩
      split
      · rename_i heq; subst heq; rw [ho] at he; cases he
      · exact he
  | some o =>
    have hf := removeChainsOf_fields m id
    by_cases hne : o.name ≠ w.name
    · simp only [ho, hne, if_true, hf.1, hf.2, ne_eq, not_false_eq_true] at hg ⊢
      rw [get_set] at hg
      split at hg
      · rename_i hn; cases hg; exact ⟨w, by simp [get_set], hn⟩
      · rw [get_del] at hg
        split at hg
        · cases hg
        · rename_i hne2 hne3
          obtain ⟨e, he, hn⟩ := h name id' hg
          refine ⟨e, ?_, hn⟩
          rw [get_set]; split
          · rename_i heq; subst heq; rw [ho] at he; cases he; exact absurd hn hne3
          · exact he
    · have heq : o.name = w.name := by simpa using hne
      simp only [ho, heq, ne_eq, not_true_eq_false, if_false] at hg ⊢
      rw [get_set] at hg
      split at hg
      · rename_i hn; cases hg; exact ⟨w, by simp [get_set], hn⟩
      · rename_i hne2
        obtain ⟨e, he, hn⟩ := h name id' hg
        refine ⟨e, ?_, hn⟩
        rw [get_set]; split
        · rename_i heq2; subst heq2; rw [ho] at he; cases he; exact absurd (heq ▸ hn) hne2
        · exact he

theorem consistent_shadowed (m : Mgr) (sh : GoMap Nat Ep) (h : Consistent m) :
    Consistent { m with shadowed := sh } := h

theorem consistent_process (m : Mgr) (id : Nat) (w : Option Ep) (h : Consistent m) :
    Consistent (m.process id w).1 := by
  unfold Mgr.process
  cases w with
  | none =>
    simp only
    have h1 := consistent_remove m id h
    split
    · split
      · split
        · exact consistent_shadowed _ _ (consistent_shadowed _ _ h1)
        · exact consistent_shadowed _ _ h1
      · exact consistent_shadowed _ _ h1
    · exact consistent_shadowed _ _ h1
  | some w =>
    simp only
    split
    · rename_i existing hex
      split
      · exact consistent_shadowed _ _ h
      · -- new endpoint takes preference
        have hne : existing ≠ id := by
          revert hex
          cases get m.ifaceToID w.name with
          | none => simp
          | some e =>
            simp only
            by_cases hc : e = id
            · simp [hc]
            · simp only [ne_eq, hc, not_false_eq_true, if_true, Option.some.injEq]
              intro he; exact he ▸ hc
        have key : ∀ sh, Consistent ((({ m with shadowed := sh } : Mgr).removeActiveWorkload
            (get m.active existing) existing).activate id (get m.active id) w) := by
          intro sh
          have h1 : Consistent ({ m with shadowed := sh } : Mgr) := consistent_shadowed m sh h
          have h2 := consistent_remove ({ m with shadowed := sh } : Mgr) existing h1
          have hold : get (({ m with shadowed := sh } : Mgr).removeActiveWorkload
              (get m.active existing) existing).active id = get m.active id := by
            unfold Mgr.removeActiveWorkload
            simp only
            rw [get_del]
            simp only [hne, if_false]
            have := removeChainsOf_fields ({ m with shadowed := sh } : Mgr) existing
            split <;> simp [this.2]
          have h3 := consistent_activate _ id w h2
          rw [hold] at h3
          exact h3
        exact key _
    · exact consistent_activate m id w h

/-- **Structural invariant, all histories**: the interface-name → endpoint map only ever points at an
ACTIVE endpoint that carries that interface name (so an interface never has the dispatch entry of
two endpoints, of a shadowed endpoint or of a removed one). -/
theorem ifaceToID_consistent (ops : List Op) : Consistent (run ops) := by
  unfold run
  suffices h : ∀ m, Consistent m → Consistent (ops.foldl Mgr.step m) by
    apply h
    intro name id hg
    simp [Mgr.new] at hg
  induction ops with
  | nil => intro m h; exact h
  | cons op rest ih =>
    intro m h
    apply ih
    have hres : ∀ id w, Consistent (m.resolve id w) := by
      intro id w
      unfold Mgr.resolve
      have h1 := consistent_process m id w h
      split
      · rename_i m' b e heq
        have : m' = (m.process id w).1 := by rw [heq]
        subst this
        exact consistent_process _ b (some e) h1
      · rename_i m' heq
        have : m' = (m.process id w).1 := by rw [heq]
        subst this
        exact h1
    cases op with
    | update id w => exact hres id (some w)
    | remove id => exact hres id none


/-- Where shadowing works (no renames): 0<1<2 all claim iface 0; removing the active one promotes the
smallest waiting id; an admin-down endpoint gets chains but no routes. -/
example :
    let ops := [Op.update 2 ⟨0, true, 1⟩, .update 0 ⟨0, true, 2⟩, .update 1 ⟨0, false, 3⟩, .remove 0]
    get (run ops).chains 0 = specChains (live ops) 0 ∧ get (run ops).chains 0 = some ⟨1, false, 3⟩ ∧
    get (run ops).routes 0 = none ∧ get (run ops).shadowed 2 = some ⟨0, true, 1⟩ := by decide

end CalicoVerif.C44
