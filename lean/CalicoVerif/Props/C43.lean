import CalicoVerif.Model.C43
import CalicoVerif.Proofs.C43
import CalicoVerif.Proofs.C43Canon
/-!
C43 — Cluster routes take the path their pool's encapsulation requires.

Property theorems only (helper lemmas: `CalicoVerif.Proofs.C43`).

(Both IP families: a CIDR carries its family; the resolver's two tries are one family-tagged map.)

* `route_kind_correct`        — resolver ∘ routeManager: for the route of a remote block (or a
  borrowed address recorded in a block), whatever pools/blocks lie above it and whatever the node
  table is, the manager of the pool's type keeps the route and programs it directly via the owning
  node's address  ⇔  the pool is unencapsulated ∨ (some covering pool is cross-subnet ∧ the owner
  is in the local node's subnet); otherwise the target is the pool's tunnel function.
* `blackhole_never_covers_local_wep` — over ALL histories of the manager, a blackhole route never
  has a /32 destination, and the route the resolver emits for a local workload's own address is
  never classified as a local block.
* `dirty_marking_complete_partial` — inductive invariant over the whole resolver state machine: after any
  history of node/pool/block updates every block / borrowed-address route downstream is the route
  computed from the CURRENT state (every change was re-sent).
* `arrival_order_independent_partial` — two histories with the same final datastore (non-overlapping blocks)
  send the same RouteUpdate for every such CIDR; `manager_order_independent` — the routeManager's
  stored routes are a function of the last message per destination.
* `arrival_order_v4cidr_zero_fixed` — regression witness of a defect the oracle found (repaired);
  `stale_v4_vtep_fixed` — regression witness of a manager-level defect the oracle found (repaired).
-/
namespace CalicoVerif.C43

/-! ## route kinds -/

/-- `updateRoutes`' choice for one route, spelled out: direct (no-encap target via `DstNodeIp`)
exactly when the parent device is known, the manager is the no-encap one or the route says
same-subnet, and the owner's address is known; otherwise whatever the tunnel function says. -/
theorem targetOf_spec (m : RM) (r : RouteUpdate) :
    (m.targetOf r = some (true, { cidr := r.dst, typ := .noEncap, gw := r.dstNodeIp }) ↔
      (m.parent = true ∧ (m.pt = ptNoEncap ∨ r.sameSubnet = true) ∧ r.dstNodeIp ≠ 0)) ∧
    (¬ (m.parent = true ∧ (m.pt = ptNoEncap ∨ r.sameSubnet = true) ∧ r.dstNodeIp ≠ 0) →
      m.targetOf r = (m.tunnelRoute r).map (fun t => (false, t))) := by
  unfold RM.targetOf RM.noEncapRoute
  by_cases hp : m.parent = true
  · by_cases hk : (m.pt != ptNoEncap && !r.sameSubnet) = true
    · have hk' : ¬ (m.pt = ptNoEncap ∨ r.sameSubnet = true) := by
        simp at hk; intro h; rcases h with h | h
        · exact hk.1 h
        · simp [hk.2] at h
      simp only [hp, hk, Bool.not_true, Bool.false_eq_true, if_false, if_true]
      constructor
      · constructor
        · intro h; cases hm : m.tunnelRoute r <;> simp [hm] at h
        · intro h; exact absurd h.2.1 hk'
      · intro _; first | rfl | trivial
    · have hk' : (m.pt = ptNoEncap ∨ r.sameSubnet = true) := by
        simp at hk
        by_cases h1 : m.pt = ptNoEncap
        · exact Or.inl h1
        · exact Or.inr (hk h1)
      by_cases hip : r.dstNodeIp = 0
      · simp only [hp, hk, Bool.not_true, Bool.false_eq_true, if_false, hip, beq_self_eq_true, if_true]
        constructor
        · constructor
          · intro h; cases hm : m.tunnelRoute r <;> simp [hm] at h
          · intro h; exact absurd rfl h.2.2
        · intro _; first | rfl | trivial
      · have hip' : (r.dstNodeIp == 0) = false := by simp [hip]
        simp only [hp, hk, Bool.not_true, Bool.false_eq_true, if_false, hip']
        constructor
        · constructor
          · intro _; exact ⟨trivial, hk', hip⟩
          · intro _; first | rfl | trivial
        · intro h; exact absurd ⟨trivial, hk', hip⟩ h
  · have hp' : m.parent = false := by simpa using hp
    simp only [hp', Bool.not_false, if_true]
    constructor
    · constructor
      · intro h; cases hm : m.tunnelRoute r <;> simp [hm] at h
      · intro h; simp at h
    · intro _; first | rfl | trivial

/-- **route_kind_correct.**  `c` is a block (or borrowed address) recorded for the remote node `n`;
`pre` are the trie entries above it (pools and blocks only — hosts, workloads and tunnel addresses
are /32s and cannot be proper ancestors); `ni` is what the resolver knows about `n`.  The manager is
the one of the pool type the resolver attributes to the route and knows its parent device.  Then
(1) the manager keeps the route, (2) it is programmed as a no-encap route via the owner's address
iff the pool is unencapsulated or (a covering pool is cross-subnet and the owner's address lies in
the local node's subnet), and (3) otherwise the target is the manager's tunnel function applied to
the owner: a VXLAN route via the owner's VTEP / an on-link IPIP route via the owner's host address
(none for the no-encap manager), and never a direct route. -/
theorem route_kind_correct (m : RM) (me : Nat) (nodes : List (Nat × NodeInfo)) (c : Cidr)
    (pre : List (Cidr × RouteInfo)) (ri : RouteInfo) (n : Nat) (ni : NodeInfo)
    (hpre : PlainAncestors pre) (hb : ri.block = some n) (hh : ri.hosts = []) (hr : ri.refs = [])
    (hn : n ≠ me) (hnode : aget nodes n = some ni) (hip : ni.addrOf c.v6 ≠ 0)
    (hparent : m.parent = true)
    (hpt : (routeOfPath me nodes c (pre ++ [(c, ri)])).poolType = m.pt) :
    let r := routeOfPath me nodes c (pre ++ [(c, ri)])
    let direct := m.pt = ptNoEncap ∨ (pathCross (pre ++ [(c, ri)]) = true ∧ nodeInOurSubnet c.v6 me nodes n = true)
    aget (m.onRouteUpdate r).routes c = some r ∧
    (m.targetOf r = some (true, { cidr := c, typ := .noEncap, gw := ni.addrOf c.v6 }) ↔ direct) ∧
    (¬ direct → m.targetOf r = (m.tunnelRoute r).map (fun t => (false, t)) ∧
      m.tunnelRoute r =
        (if m.pt = ptVXLAN then (aget m.vteps n).map (fun a => { cidr := c, typ := .vxlan, gw := a })
         else if m.pt = ptIPIP then (aget m.hostIPs n).map (fun a => { cidr := c, typ := .onLink, gw := a })
         else none)) := by
  intro r direct
  obtain ⟨h1, h2, h3, _h4, h5, h6⟩ := routeOfPath_block me nodes c pre ri n hpre hb hh hr hn
  simp only [hnode] at h5 h6
  have hrw : isType r tRemoteWorkload = true := by
    show (r.types &&& 1 == 1) = true
    rcases h3 with h | h <;> (simp only [r]; rw [h]; decide)
  have hnt : isType r tRemoteTunnel = false := by
    show (r.types &&& 16 == 16) = false
    rcases h3 with h | h <;> (simp only [r]; rw [h]; decide)
  have hstores : stores m.pt r = true := by
    simp [stores, hrw, show r.poolType = m.pt from hpt]
  have hspec := targetOf_spec m r
  have hss : r.sameSubnet = (pathCross (pre ++ [(c, ri)]) && nodeInOurSubnet c.v6 me nodes n) := by
    simpa using h6
  have hdir : (m.parent = true ∧ (m.pt = ptNoEncap ∨ r.sameSubnet = true) ∧ r.dstNodeIp ≠ 0) ↔ direct := by
    simp only [direct, hss, hparent, true_and, Bool.and_eq_true]
    constructor
    · intro h; exact h.1
    · intro h; exact ⟨h, by rw [show r.dstNodeIp = ni.addrOf c.v6 from h5]; exact hip⟩
  refine ⟨?_, ?_, ?_⟩
  · have := (onRouteUpdate_spec m r c).2.1
    rw [this, show r.dst = c from h1]
    simp [storedOf, hstores]
  · have e : ({ cidr := r.dst, typ := .noEncap, gw := r.dstNodeIp } : Target)
        = { cidr := c, typ := .noEncap, gw := ni.addrOf c.v6 } := by
      rw [show r.dst = c from h1, show r.dstNodeIp = ni.addrOf c.v6 from h5]
    rw [← e]
    exact hspec.1.trans hdir
  · intro hnd
    have hnd' := (not_congr hdir).2 hnd
    refine ⟨hspec.2 hnd', ?_⟩
    unfold RM.tunnelRoute
    simp only [isRemoteTunnelRoute, isBorrowedRoute, hnt, Bool.and_false, Bool.false_and, Bool.or_self,
      Bool.false_eq_true, if_false, show r.dstNode = some n from h2, show r.dst = c from h1]
    by_cases hv : m.pt = ptVXLAN
    · simp [hv]
    · by_cases hi : m.pt = ptIPIP
      · simp [hi, ptIPIP, ptVXLAN]
      · simp [hv, hi]

/-- non-vacuity: a remote /26 block of node 3 under a cross-subnet IPIP pool, owner 10.0.1.13 in the
local node's 10.0.1.0/24: the IPIP manager programs it directly via 10.0.1.13. -/
example :
    let nodes : List (Nat × NodeInfo) :=
      [(1, { v4Addr := 167772427, cidr := ⟨167772416, 24, false⟩, ipip := 0, vxlan := 0, wg := 0 }),
       (3, { v4Addr := 167772429, cidr := ⟨167772416, 24, false⟩, ipip := 0, vxlan := 0, wg := 0 })]
    let pre : List (Cidr × RouteInfo) := [(⟨3232235776, 24, false⟩, { pool := some ⟨ptIPIP, false, true⟩ })]
    let m : RM := { pt := ptIPIP, me := 1, eth0Addr := 167772427, parent := true }
    m.targetOf (routeOfPath 1 nodes ⟨3232235840, 26, false⟩ (pre ++ [(⟨3232235840, 26, false⟩, { block := some 3 })]))
      = some (true, { cidr := ⟨3232235840, 26, false⟩, typ := .noEncap, gw := 167772429 }) := by decide

/-- the pool type the resolver attributes to a route is that of the innermost pool on the path whose
type is not NONE (and NONE when there is none). -/
theorem routeOfPath_poolType (me : Nat) (nodes : List (Nat × NodeInfo)) (c : Cidr)
    (path : List (Cidr × RouteInfo)) :
    (routeOfPath me nodes c path).poolType =
      (path.foldl (fun t e => match e.2.pool with
        | some p => if p.typ != ptNone then p.typ else t
        | none => t) ptNone) := by
  unfold routeOfPath
  simp only []
  suffices ∀ a : Acc, (path.foldl (accStep me c) a).poolType =
      path.foldl (fun t e => match e.2.pool with
        | some p => if p.typ != ptNone then p.typ else t
        | none => t) a.poolType from this {}
  induction path with
  | nil => intro a; rfl
  | cons e path ih =>
    intro a
    simp only [List.foldl_cons]
    rw [ih]
    congr 1
    have h4 : ∀ (a : Acc) (ri : RouteInfo), (accRefs me a ri).poolType = a.poolType := by
      intro a ri; unfold accRefs
      cases ri.refs with
      | nil => rfl
      | cons r0 rs =>
        simp only []
        split
        · split <;> rfl
        · rfl
    have h3 : ∀ (a : Acc) (ri : RouteInfo), (accHost me a ri).poolType = a.poolType := by
      intro a ri; unfold accHost
      cases ri.hosts <;> rfl
    have h2 := (accBlock_fields me c (accPool a e.2) e).2.2.2.2.1
    simp only [accStep]
    rw [h4, h3, h2]
    unfold accPool
    cases e.2.pool <;> rfl

/-! ## blackholes -/

/-- inputs of a manager over its lifetime. -/
inductive MOp where
  | ev (e : Event)
  | vtep (n : Nat) (v : Option (Nat × Nat))
  | hostMeta (n : Nat) (a : Option Nat)
  | parent
  | complete

def RM.applyOp (m : RM) : MOp → RM
  | .ev e => m.onEvent e
  | .vtep n v => m.onVtep n v
  | .hostMeta n a => m.onHostMeta n a
  | .parent => m.onParent
  | .complete => m.complete

/-- no local block / blackhole target is an exact (/32) route, and none is a route flagged as a live
local workload. -/
def BHInv (m : RM) : Prop :=
  (∀ e ∈ m.localBlocks, e.1.len ≠ e.1.width ∧ e.2.localWorkload = false) ∧
  (∀ row ∈ m.table, ∀ t ∈ row.2, t.typ = .blackhole → t.cidr.len ≠ t.cidr.width)

theorem mem_aset {κ α} [BEq κ] (m : List (κ × α)) (k : κ) (v : α) (e : κ × α) (h : e ∈ aset m k v) :
    e = (k, v) ∨ e ∈ m := by
  induction m with
  | nil => simp [aset] at h; exact Or.inl h
  | cons p m ih =>
    obtain ⟨k0, v0⟩ := p
    simp only [aset] at h
    split at h
    · rcases List.mem_cons.1 h with h | h
      · exact Or.inl h
      · exact Or.inr (List.mem_cons_of_mem _ h)
    · rcases List.mem_cons.1 h with h | h
      · exact Or.inr (h ▸ List.mem_cons_self)
      · rcases ih h with h | h
        · exact Or.inl h
        · exact Or.inr (List.mem_cons_of_mem _ h)

theorem mem_adel {κ α} [BEq κ] (m : List (κ × α)) (k : κ) (e : κ × α) (h : e ∈ adel m k) : e ∈ m :=
  (List.mem_filter.1 h).1

theorem bh_deleteRoute (m : RM) (d : Cidr) (h : BHInv m) : BHInv (m.deleteRoute d) := by
  unfold RM.deleteRoute
  simp only []
  refine ⟨?_, ?_⟩
  · intro e he
    apply h.1
    split at he <;> split at he <;> first | exact mem_adel _ _ _ he | exact he
  · split <;> split <;> exact h.2

theorem bh_onRouteUpdate (m : RM) (r : RouteUpdate) (h : BHInv m) : BHInv (m.onRouteUpdate r) := by
  have h1 := bh_deleteRoute m r.dst h
  unfold RM.onRouteUpdate
  simp only []
  generalize m.deleteRoute r.dst = m1 at h1
  have h2 : BHInv (if ((isType r tRemoteWorkload && r.poolType == m1.pt) || isRemoteTunnelRoute r m1.pt
      || isBorrowedRoute r m1.pt) = true then { m1 with routes := aset m1.routes r.dst r, dirty := true } else m1) := by
    split
    · exact ⟨h1.1, h1.2⟩
    · exact h1
  generalize (if ((isType r tRemoteWorkload && r.poolType == m1.pt) || isRemoteTunnelRoute r m1.pt
      || isBorrowedRoute r m1.pt) = true then { m1 with routes := aset m1.routes r.dst r, dirty := true } else m1) = m2 at h2
  split
  · rename_i hlb
    refine ⟨?_, h2.2⟩
    intro e he
    rcases mem_aset _ _ _ _ he with he | he
    · subst he
      simp only [routeIsLocalBlock, Bool.and_eq_true, bne_iff_ne, ne_eq, Bool.not_eq_true'] at hlb
      exact ⟨hlb.2, hlb.1.2⟩
    · exact h2.1 e he
  · split
    · refine ⟨?_, h2.2⟩
      intro e he
      exact h2.1 e (mem_adel _ _ _ he)
    · exact h2

theorem targetOf_not_blackhole (m : RM) (r : RouteUpdate) (b : Bool) (t : Target)
    (h : m.targetOf r = some (b, t)) : t.typ ≠ .blackhole := by
  unfold RM.targetOf at h
  cases hn : m.noEncapRoute r with
  | some t' =>
    simp only [hn] at h
    unfold RM.noEncapRoute at hn
    split at hn; · simp at hn
    split at hn; · simp at hn
    split at hn; · simp at hn
    simp at hn h
    rw [← h.2, ← hn]; simp
  | none =>
    simp only [hn] at h
    cases ht : m.tunnelRoute r with
    | none => simp [ht] at h
    | some t' =>
      simp only [ht, Option.map] at h
      have : t' = t := by simpa using (Option.some.inj h ▸ rfl : (false, t').2 = (b, t).2)
      subst this
      unfold RM.tunnelRoute at ht
      split at ht
      · split at ht
        · simp at ht; rw [← ht]; simp
        · split at ht
          · simp at ht
          · simp at ht
            obtain ⟨a, _, rfl⟩ := ht
            simp
      · split at ht
        · split at ht
          · simp at ht
          · simp at ht
            obtain ⟨a, _, rfl⟩ := ht
            simp
        · simp at ht

theorem bh_setRoutes (m : RM) (cls ifc : Nat) (ts : List Target) (h : BHInv m)
    (hts : ∀ t ∈ ts, t.typ = .blackhole → t.cidr.len ≠ t.cidr.width) : BHInv (m.setRoutes cls ifc ts) := by
  refine ⟨h.1, ?_⟩
  intro row hrow
  rcases mem_aset _ _ _ _ hrow with hr | hr
  · subst hr; exact hts
  · exact h.2 row hr

theorem bh_updateRoutes (m : RM) (h : BHInv m) : BHInv m.updateRoutes := by
  unfold RM.updateRoutes
  simp only []
  have hnb : ∀ (p : Bool → Bool) (t : Target),
      t ∈ ((m.routes.filterMap (fun e => m.targetOf e.2)).filter (fun t => p t.1)).map (·.2) →
      t.typ = .blackhole → t.cidr.len ≠ t.cidr.width := by
    intro p t ht hbh
    obtain ⟨bt, hbt, rfl⟩ := List.mem_map.1 ht
    have hbt' := (List.mem_filter.1 hbt).1
    obtain ⟨e, _, he⟩ := List.mem_filterMap.1 hbt'
    exact absurd hbh (targetOf_not_blackhole m e.2 bt.1 bt.2 he)
  have hbhl : ∀ t ∈ m.localBlocks.map (fun e => ({ cidr := e.1, typ := .blackhole } : Target)),
      t.typ = .blackhole → t.cidr.len ≠ t.cidr.width := by
    intro t ht _
    obtain ⟨e, he, rfl⟩ := List.mem_map.1 ht
    exact (h.1 e he).1
  have s1 := bh_setRoutes m m.classTunnel m.tunnelIface _ h (hnb (fun b => !b))
  have s2 := bh_setRoutes _ (m.setRoutes m.classTunnel m.tunnelIface
      (((m.routes.filterMap (fun e => m.targetOf e.2)).filter (fun t => !t.1)).map (·.2))).classBlackhole ifNone
      (m.localBlocks.map (fun e => ({ cidr := e.1, typ := .blackhole } : Target))) s1 hbhl
  split
  · exact bh_setRoutes _ _ ifParent _ s2 (hnb (fun b => b))
  · exact s2

theorem bh_complete (m : RM) (h : BHInv m) : BHInv m.complete := by
  unfold RM.complete
  simp only []
  have h1 : BHInv (if (!m.parent && m.parentAddr != 0 && m.parentAddr == m.eth0Addr) = true
      then { m with parent := true, dirty := true } else m) := by
    split
    · exact ⟨h.1, h.2⟩
    · exact h
  generalize (if (!m.parent && m.parentAddr != 0 && m.parentAddr == m.eth0Addr) = true
      then { m with parent := true, dirty := true } else m) = m1 at h1
  split
  · have := bh_updateRoutes m1 h1
    exact ⟨this.1, this.2⟩
  · exact h1

theorem bh_applyOp (m : RM) (op : MOp) (h : BHInv m) : BHInv (m.applyOp op) := by
  cases op with
  | ev e =>
    cases e with
    | update r => exact bh_onRouteUpdate m r h
    | remove d => exact bh_deleteRoute m d h
  | vtep n v =>
    simp only [RM.applyOp, RM.onVtep]
    repeat' split
    all_goals first | exact h | exact ⟨h.1, h.2⟩
  | hostMeta n a =>
    simp only [RM.applyOp, RM.onHostMeta]
    split
    · split
      · split <;> split <;> exact ⟨h.1, h.2⟩
      · split <;> exact ⟨h.1, h.2⟩
    · split
      · split
        · split <;> exact ⟨h.1, h.2⟩
        · exact h
      · exact h
  | parent =>
    simp only [RM.applyOp, RM.onParent]
    split
    · exact h
    · exact ⟨h.1, h.2⟩
  | complete => exact bh_complete m h

/-- **blackhole_never_covers_local_wep (manager side).**  After ANY history of route updates /
removals, VTEP and host-metadata updates, parent-device changes and applies, starting from a
freshly created manager, no blackhole route in the route table (and no entry of
`localIPAMBlocks`) has a /32 destination — so a blackhole can never take the place of (or win the
longest-prefix match against) the /32 route of a local workload's own address — and no entry of
`localIPAMBlocks` is a route flagged `LocalWorkload`. -/
theorem blackhole_never_covers_local_wep (pt me eth : Nat) (ops : List MOp) :
    BHInv (ops.foldl RM.applyOp { pt := pt, me := me, eth0Addr := eth }) := by
  suffices ∀ m, BHInv m → BHInv (ops.foldl RM.applyOp m) from
    this _ ⟨by intro e he; simp at he, by intro r hr; simp at hr⟩
  induction ops with
  | nil => intro m h; exact h
  | cons op ops ih => intro m h; exact ih _ (bh_applyOp m op h)

/-- **blackhole_never_covers_local_wep (resolver side).**  The route the resolver emits for an
address that carries a live local workload (first ref at the CIDR is a WEP ref of the local node)
has `LocalWorkload` set, whatever lies above it, so the manager never classifies it as a local
block (no blackhole), for any pool type. -/
theorem local_wep_route_not_local_block (me : Nat) (nodes : List (Nat × NodeInfo)) (c : Cidr)
    (pre : List (Cidr × RouteInfo)) (ri : RouteInfo) (r0 : Ref) (rest : List Ref) (pt : Nat)
    (hrefs : ri.refs = r0 :: rest) (hw : r0.typ = refWEP) (hme : r0.node = me) :
    (routeOfPath me nodes c (pre ++ [(c, ri)])).localWorkload = true ∧
    routeIsLocalBlock pt (routeOfPath me nodes c (pre ++ [(c, ri)])) = false := by
  have hlw : (routeOfPath me nodes c (pre ++ [(c, ri)])).localWorkload = true := by
    unfold routeOfPath
    simp only [List.foldl_append, List.foldl_cons, List.foldl_nil]
    simp [accStep, accRefs, hrefs, hw, hme]
  exact ⟨hlw, by simp [routeIsLocalBlock, hlw]⟩

/-- non-vacuity: a local /26 block is blackholed, the /32 of a local workload inside it is not. -/
example :
    let m0 : RM := { pt := ptIPIP, me := 1, eth0Addr := 167772427 }
    let blk : RouteUpdate := { dst := ⟨3232235840, 26, false⟩, types := tLocalWorkload, poolType := ptIPIP, dstNode := some 1 }
    let wep : RouteUpdate := { dst := ⟨3232235843, 32, false⟩, types := tLocalWorkload, poolType := ptIPIP, dstNode := some 1, localWorkload := true }
    ([MOp.ev (.update blk), MOp.ev (.update wep), MOp.complete].foldl RM.applyOp m0).table
      = [((6, 2), []), ((9, 3), [{ cidr := ⟨3232235840, 26, false⟩, typ := .blackhole }])] := by decide

/-! ### the positive half: local blocks DO get a blackhole -/

/-- what `updateRoutes` programs in the blackhole class: exactly one blackhole target per entry of
`localIPAMBlocks`. -/
theorem updateRoutes_blackholes (m : RM) :
    aget m.updateRoutes.table (m.classBlackhole, ifNone) =
      some (m.localBlocks.map (fun e => ({ cidr := e.1, typ := .blackhole } : Target))) := by
  unfold RM.updateRoutes
  simp only []
  split
  · simp only [RM.setRoutes, aget_aset_beq]
    simp [RM.classBlackhole, RM.classSameSubnet, ifParent, ifNone]
  · simp only [RM.setRoutes, aget_aset_beq]
    simp [RM.classBlackhole]

/-- **local blocks get blackhole routes.**  A RouteUpdate that `routeIsLocalBlock` classifies as a
local block is kept in `localIPAMBlocks` and, at the next `updateRoutes`, has a blackhole target for
its destination in the manager's blackhole route class. -/
theorem local_block_gets_blackhole (m : RM) (r : RouteUpdate) (h : routeIsLocalBlock m.pt r = true) :
    ∃ ts, aget ((m.onRouteUpdate r).updateRoutes).table ((m.onRouteUpdate r).classBlackhole, ifNone) = some ts ∧
      ({ cidr := r.dst, typ := .blackhole } : Target) ∈ ts := by
  refine ⟨_, updateRoutes_blackholes _, ?_⟩
  have hs := (onRouteUpdate_spec m r r.dst).2.2
  simp only [if_true, blockOf, h] at hs
  exact List.mem_map.2 ⟨(r.dst, r), aget_some_mem _ _ _ hs, rfl⟩

/-- resolver ∘ manager: the route the resolver emits for a block of the LOCAL node (nothing else at
its CIDR, not a single address) in a pool of the manager's type gets a blackhole. -/
theorem local_block_blackholed (m : RM) (me : Nat) (nodes : List (Nat × NodeInfo)) (c : Cidr)
    (pre : List (Cidr × RouteInfo)) (ri : RouteInfo)
    (hpre : PlainAncestors pre) (hb : ri.block = some me) (hh : ri.hosts = []) (hr : ri.refs = [])
    (hlen : c.len ≠ c.width) (hpt : (routeOfPath me nodes c (pre ++ [(c, ri)])).poolType = m.pt) :
    let r := routeOfPath me nodes c (pre ++ [(c, ri)])
    ∃ ts, aget ((m.onRouteUpdate r).updateRoutes).table ((m.onRouteUpdate r).classBlackhole, ifNone) = some ts ∧
      ({ cidr := c, typ := .blackhole } : Target) ∈ ts := by
  intro r
  obtain ⟨h1, h3, h4⟩ := routeOfPath_local_block me nodes c pre ri hpre hb hh hr
  have hlb : routeIsLocalBlock m.pt r = true := by
    have hty : isType r tLocalWorkload = true := by
      show (r.types &&& 4 == 4) = true
      rcases h3 with h | h <;> (simp only [r]; rw [h]; decide)
    simp only [routeIsLocalBlock, hty, Bool.true_and, show r.poolType = m.pt from hpt, beq_self_eq_true,
      show r.localWorkload = false from h4, Bool.not_false, show r.dst = c from h1]
    simpa using hlen
  have := local_block_gets_blackhole m r hlb
  rw [show r.dst = c from h1] at this
  exact this

/-! ## arrival order -/

theorem agree_onEvent (m : RM) (sent : List (Cidr × RouteUpdate)) (e : Event) (h : Agree m sent) :
    Agree (m.onEvent e) (applyEvents sent [e]) := by
  intro d
  cases e with
  | update r =>
    have hs := onRouteUpdate_spec m r d
    simp only [RM.onEvent, applyEvents, List.foldl_cons, List.foldl_nil]
    rw [hs.1, hs.2.1, hs.2.2, aget_aset]
    by_cases hd : r.dst = d
    · simp [hd]
    · simp only [hd, if_false]; exact h d
  | remove d0 =>
    have hs := deleteRoute_spec m d0 d
    simp only [RM.onEvent, applyEvents, List.foldl_cons, List.foldl_nil]
    rw [hs.1, hs.2.1, hs.2.2, aget_adel]
    by_cases hd : d0 = d
    · simp [hd]
    · simp only [hd, if_false]; exact h d

theorem applyEvents_cons (sent : List (Cidr × RouteUpdate)) (e : Event) (evs : List Event) :
    applyEvents sent (e :: evs) = applyEvents (applyEvents sent [e]) evs := by
  simp [applyEvents]

theorem agree_fold (evs : List Event) (m : RM) (sent : List (Cidr × RouteUpdate)) (h : Agree m sent) :
    Agree (evs.foldl RM.onEvent m) (applyEvents sent evs) := by
  induction evs generalizing m sent with
  | nil => exact h
  | cons e evs ih =>
    rw [applyEvents_cons]
    exact ih _ _ (agree_onEvent m sent e h)

/-- **manager_order_independent.**  After ANY two sequences of route updates/removals that leave the
downstream map (dst ↦ last RouteUpdate) the same, a fresh routeManager holds the same
`routesByDest` and `localIPAMBlocks` entry for every destination — namely the last update for that
destination, kept iff `stores` / `routeIsLocalBlock` says so — and `updateRoutes` maps each stored
route through the pure function `targetOf`; so the programmed kinds do not depend on the order in
which the resolver's messages arrived.  On its own this is a small lemma (its hypothesis is "same
last message per destination"); it is composed with `arrival_order_independent_partial` in
`programmed_routes_order_independent_partial`. -/
theorem manager_order_independent (pt me eth : Nat) (evs1 evs2 : List Event)
    (hsame : ∀ d, aget (applyEvents [] evs1) d = aget (applyEvents [] evs2) d) (d : Cidr) :
    let m1 := evs1.foldl RM.onEvent { pt := pt, me := me, eth0Addr := eth }
    let m2 := evs2.foldl RM.onEvent { pt := pt, me := me, eth0Addr := eth }
    aget m1.routes d = aget m2.routes d ∧ aget m1.localBlocks d = aget m2.localBlocks d ∧
    aget m1.routes d = (aget (applyEvents [] evs1) d).bind (storedOf pt) ∧
    aget m1.localBlocks d = (aget (applyEvents [] evs1) d).bind (blockOf pt) := by
  intro m1 m2
  have h0 : Agree ({ pt := pt, me := me, eth0Addr := eth } : RM) [] := by
    intro d; simp [aget]
  have a1 := agree_fold evs1 _ _ h0 d
  have a2 := agree_fold evs2 _ _ h0 d
  have hpt : ∀ evs : List Event, (evs.foldl RM.onEvent ({ pt := pt, me := me, eth0Addr := eth } : RM)).pt = pt := by
    intro evs
    suffices ∀ m : RM, (evs.foldl RM.onEvent m).pt = m.pt from this _
    induction evs with
    | nil => intro m; rfl
    | cons e evs ih =>
      intro m
      simp only [List.foldl_cons]
      rw [ih]
      cases e with
      | update r => exact (onRouteUpdate_spec m r d).1
      | remove d0 => exact (deleteRoute_spec m d0 d).1
  simp only [hpt] at a1 a2
  refine ⟨?_, ?_, a1.1, a1.2⟩
  · show aget m1.routes d = aget m2.routes d
    rw [a1.1, a2.1, hsame d]
  · show aget m1.localBlocks d = aget m2.localBlocks d
    rw [a1.2, a2.2, hsame d]

/-! ### the resolver: dirty-marking completeness and order independence -/

/-- **dirty_marking_complete (partial).**  After ANY history of node, pool and block updates (each followed
by the deferred `flush`), for every CIDR that carries a block / borrowed-address route and nothing
else at its own CIDR (`Tracked`), the RouteUpdate the dataplane last received for it IS the route
`flush` would compute from the resolver's CURRENT trie and node table: every change of a computed
route has been re-sent.  (Inductive invariant `Inv` over the whole modelled state machine:
`RouteTrie.updateCIDR`, pool "mark children dirty", block "mark descendants dirty", the local-CIDR
same-subnet re-evaluation, tunnel refs, host entries, `nodeRoutes`, `flush`.)
`_partial`, what is missing for the full statement: (i) CIDRs that carry a block route AND a node's
own address / a tunnel address / a workload ref at the very same CIDR (e.g. a borrowed tunnel IP)
are not `Tracked`; (ii) histories that contain workload endpoint updates (`Op.ok` excludes them; the
property's quantifier — pools, node addresses and subnets, blocks and borrowed IPs — does not list
them, but they interleave in a real Felix).  Both are exercised by the fresh-instance oracle on the
real code only.
The hypothesis `zeroHost c = false` excludes the two CIDRs 0.0.0.0/32 and ::/128: `flush` never sends a
route for `emptyV4Addr.AsCIDR()` / `emptyV6Addr.AsCIDR()` ("Skip sending a route for an empty CIDR"),
so nothing is claimed about them. -/
theorem dirty_marking_complete_partial (me : Nat) (ops : List Op) (hok : ∀ op ∈ ops, op.ok) :
    let r := St.run { me := me } [] ops
    ∀ c n, Tracked r.1 c n → zeroHost c = false → aget r.2 c = some (r.1.route c) :=
  fun c n ht h0 => (run_inv ops _ _ hok (inv_init me)).cur c n ht h0

/-- **route kind after any history (partial).**  `route_kind_correct` composed with
`dirty_marking_complete_partial`: after ANY history of node, pool and block updates, for every CIDR
`c` that carries a block / borrowed-address route of a REMOTE node `n` whose address is known, the
RouteUpdate `u` the dataplane holds for `c` is such that the manager of `u`'s pool type (parent
device known) keeps it and programs it directly via `n`'s address iff the pool is unencapsulated or
(a covering pool is cross-subnet and `n` is in the local node's subnet) — evaluated on the resolver's
CURRENT trie and node table, i.e. on the current datastore state (`Canon`).  `_partial` for the same
two reasons as `dirty_marking_complete_partial`. -/
theorem route_kind_after_history_partial (me : Nat) (ops : List Op) (hok : ∀ op ∈ ops, op.ok) (m : RM) :
    let r := St.run { me := me } [] ops
    ∀ c n ni, Tracked r.1 c n → zeroHost c = false → n ≠ r.1.me → aget r.1.nodes n = some ni →
      ni.addrOf c.v6 ≠ 0 → m.parent = true → (r.1.route c).poolType = m.pt →
      aget r.2 c = some (r.1.route c) ∧
      aget (m.onRouteUpdate (r.1.route c)).routes c = some (r.1.route c) ∧
      (m.targetOf (r.1.route c) = some (true, { cidr := c, typ := .noEncap, gw := ni.addrOf c.v6 }) ↔
        (m.pt = ptNoEncap ∨ (pathCross (fullPath r.1.view c) = true ∧ nodeInOurSubnet c.v6 r.1.me r.1.nodes n = true))) := by
  intro r c n ni ht h0 hn hnode hip hparent hpt
  have inv := run_inv ops _ _ hok (inv_init me)
  have hl : c.len ≤ c.width := inv.aux.l32 c (view_block_ne_empty _ n ht.1)
  have hk := route_kind_correct m r.1.me r.1.nodes c
    ((List.range c.len).map (fun l => (ancKey c l, r.1.view (ancKey c l)))) (r.1.view c) n ni
    (plain_fullPath r.1 inv.aux c hl) ht.1 ht.2.1 ht.2.2 hn hnode hip hparent hpt
  exact ⟨inv.cur c n ht h0, hk.1, hk.2.1⟩

theorem view_wasSent (s : St) (k : Cidr) : (s.view k).wasSent = false := rfl

theorem routeInfo_ext (a b : RouteInfo) (h1 : a.pool = b.pool) (h2 : a.block = b.block) (h3 : a.hosts = b.hosts)
    (h4 : a.refs = b.refs) (h5 : a.wasSent = b.wasSent) : a = b := by
  cases a; cases b; simp_all

theorem option_eq_of_iff {α} (a b : Option α) (h : ∀ x, a = some x ↔ b = some x) : a = b := by
  cases a with
  | none =>
    cases b with
    | none => rfl
    | some y => exact absurd ((h y).2 rfl) (by simp)
  | some x => exact ((h x).1 rfl).symm

theorem nodeInOurSubnet_congr (v6 : Bool) (me : Nat) (nodes nodes' : List (Nat × NodeInfo)) (n : Nat)
    (h : ∀ m, aget nodes' m = aget nodes m) : nodeInOurSubnet v6 me nodes' n = nodeInOurSubnet v6 me nodes n := by
  unfold nodeInOurSubnet; rw [h n, h me]

/-- **arrival_order_independent (partial).**  Take ANY two histories of node, pool and block updates
(creations, changes, deletions, in any order and any number) during which IPAM blocks never overlap
(`DisjAlong`: no CIDR is routed by two blocks), and which end in the same datastore state — the same
last value per node, per pool and per block (`dsOf`).  Then for every CIDR that carries a block /
borrowed-address route (and no host / workload / tunnel entry at that very CIDR) the dataplane has
received the SAME RouteUpdate in both — pool type, owner, owner's address, same-subnet flag,
borrowed flag and all — hence (by `manager_order_independent` and `route_kind_correct`) the same kind
of route is programmed (`programmed_routes_order_independent_partial`).  `_partial`, not covered:
a CIDR that also is a node's own or tunnel address (e.g. a borrowed tunnel IP) and histories
containing workload endpoint updates; those are checked by the fresh-instance oracle on the real
code only. -/
theorem arrival_order_independent_partial (me : Nat) (ops1 ops2 : List Op)
    (ok1 : ∀ op ∈ ops1, op.ok) (ok2 : ∀ op ∈ ops2, op.ok)
    (hd1 : DisjAlong DS.empty ops1) (hd2 : DisjAlong DS.empty ops2)
    (hn : ∀ m, (dsOf ops1).nodes m = (dsOf ops2).nodes m)
    (hp : ∀ k, (dsOf ops1).pools k = (dsOf ops2).pools k)
    (hb : ∀ k, (dsOf ops1).blocks k = (dsOf ops2).blocks k) :
    let r1 := St.run { me := me } [] ops1
    let r2 := St.run { me := me } [] ops2
    ∀ c n, Tracked r1.1 c n → Tracked r2.1 c n → zeroHost c = false → aget r1.2 c = aget r2.2 c := by
  intro r1 r2 c n t1 t2 h0
  have i1 := run_inv ops1 _ _ ok1 (inv_init me)
  have i2 := run_inv ops2 _ _ ok2 (inv_init me)
  have c1 : Canon _ (dsOf ops1) := canon_run ops1 _ [] _ ok1 (canon_init me) disj_empty hd1
  have c2 : Canon _ (dsOf ops2) := canon_run ops2 _ [] _ ok2 (canon_init me) disj_empty hd2
  rw [i1.cur c n t1 h0, i2.cur c n t2 h0]
  congr 1
  have hme1 : r1.1.me = me := run_me ops1 _ _ ok1
  have hme2 : r2.1.me = me := run_me ops2 _ _ ok2
  have hnodes : ∀ m, aget r1.1.nodes m = aget r2.1.nodes m := by
    intro m; rw [c1.nodes m, c2.nodes m]; exact hn m
  have hroute : ∀ b k, (dsOf ops1).routeAt b k = (dsOf ops2).routeAt b k := by
    intro b k; unfold DS.routeAt; rw [hb b]
  have hblock : ∀ k, (r1.1.view k).block = (r2.1.view k).block := by
    intro k
    apply option_eq_of_iff
    intro x
    rw [c1.c2 k x, c2.c2 k x]
    constructor
    · rintro ⟨b, h⟩; exact ⟨b, (hroute b k).symm.trans h⟩
    · rintro ⟨b, h⟩; exact ⟨b, (hroute b k).trans h⟩
  have hpool : ∀ k, (r1.1.view k).pool = (r2.1.view k).pool := by
    intro k; rw [c1.poolv k, c2.poolv k]; exact hp k
  have hl : c.len ≤ c.width := i1.aux.l32 c (view_block_ne_empty _ n t1.1)
  have hpath : fullPath r1.1.view c = fullPath r2.1.view c := by
    apply fullPath_congr
    · exact routeInfo_ext _ _ (hpool c) (hblock c) (t1.2.1.trans t2.2.1.symm) (t1.2.2.trans t2.2.2.symm) rfl
    · intro l hlt
      have p1 := plain_fullPath r1.1 i1.aux c hl (ancKey c l, r1.1.view (ancKey c l))
        (List.mem_map.2 ⟨l, List.mem_range.2 hlt, rfl⟩)
      have p2 := plain_fullPath r2.1 i2.aux c hl (ancKey c l, r2.1.view (ancKey c l))
        (List.mem_map.2 ⟨l, List.mem_range.2 hlt, rfl⟩)
      exact routeInfo_ext _ _ (hpool _) (hblock _) (p1.1.trans p2.1.symm) (p1.2.trans p2.2.symm) rfl
  unfold St.route
  rw [hpath, hme1, hme2]
  apply routeOfPath_nodes_congr
  intro n' _
  exact ⟨hnodes n', nodeInOurSubnet_congr c.v6 me _ _ n' hnodes⟩

/-! ### regression witness of a repaired defect -/

/-- node 3 = 10.0.1.13/24, local node 1 = 10.0.1.11/24 (or v6-only: no IPv4 address/CIDR). -/
def wNode3 : Op := .node 3 (some { v4Addr := 167772429, cidr := ⟨167772416, 24, false⟩, ipip := 0, vxlan := 0, wg := 0 })
def wNode1v6 : Op := .node 1 (some { v4Addr := 0, cidr := ⟨0, 0, false⟩, ipip := 0, vxlan := 0, wg := 0 })
def wNode1v4 : Op := .node 1 (some { v4Addr := 167772427, cidr := ⟨167772416, 24, false⟩, ipip := 0, vxlan := 0, wg := 0 })
/-- 192.168.1.0/24, IPIP cross-subnet. -/
def wPool : Op := .pool ⟨3232235776, 24, false⟩ (some (poolOf 2 0 false false))
/-- 192.168.1.64/26 affine to node 3. -/
def wBlock : Op := .block ⟨3232235840, 26, false⟩ (some 3) []

/-- the two histories end in the same datastore state (the v6-only version of the local node is
overwritten by the dual-stack one). -/
def wHistory : List Op := [wPool, wBlock, wNode3, wNode1v6, wNode1v4]
def wFresh : List Op := [wPool, wBlock, wNode3, wNode1v4]

/-- non-vacuity of `arrival_order_independent`: two different histories (the second one creates the
pool last, re-homes the block and flaps the local node) with the same final datastore, a tracked
CIDR in both, and non-overlapping blocks throughout. -/
example :
    let h1 : List Op := [wPool, wBlock, wNode3, wNode1v4]
    let h2 : List Op := [.block ⟨3232235840, 26, false⟩ (some 5) [], wNode1v6, wNode3, wBlock, wNode1v4, wPool]
    Tracked (St.run { me := 1 } [] h1).1 ⟨3232235840, 26, false⟩ 3 ∧ Tracked (St.run { me := 1 } [] h2).1 ⟨3232235840, 26, false⟩ 3 ∧
    aget (St.run { me := 1 } [] h1).2 ⟨3232235840, 26, false⟩ = aget (St.run { me := 1 } [] h2).2 ⟨3232235840, 26, false⟩ ∧
    ((aget (St.run { me := 1 } [] h2).2 ⟨3232235840, 26, false⟩).map (·.sameSubnet) = some true) := by
  unfold Tracked
  decide

/-- all the messages the resolver sends over a history, in order. -/
def St.runEvents (s : St) : List Op → St × List Event
  | [] => (s, [])
  | op :: ops =>
    let r := s.step op
    let r2 := St.runEvents r.1 ops
    (r2.1, r.2 ++ r2.2)

theorem run_eq_runEvents (ops : List Op) (s : St) (sent : List (Cidr × RouteUpdate)) :
    St.run s sent ops = ((s.runEvents ops).1, applyEvents sent (s.runEvents ops).2) := by
  induction ops generalizing s sent with
  | nil => rfl
  | cons op ops ih =>
    simp only [St.run, St.runEvents]
    rw [ih, applyEvents_append]

theorem fold_onEvent_pt (evs : List Event) (m : RM) : (evs.foldl RM.onEvent m).pt = m.pt := by
  induction evs generalizing m with
  | nil => rfl
  | cons e evs ih =>
    simp only [List.foldl_cons]
    rw [ih]
    cases e with
    | update r => exact (onRouteUpdate_spec m r r.dst).1
    | remove d0 => exact (deleteRoute_spec m d0 d0).1

/-- **resolver ∘ routeManager, order independence (partial).**  Feed a fresh routeManager (of any
pool type) every message the resolver emits over a history.  For two histories as in
`arrival_order_independent_partial` (same final datastore, blocks never overlapping), the manager
ends up holding the same `routesByDest` / `localIPAMBlocks` entry for every tracked CIDR, so
`updateRoutes` programs the same kind of route (direct / tunnel / blackhole / none) for it, whatever
the order in which the node, pool and block updates arrived.  `_partial` for the same two reasons as
`arrival_order_independent_partial`. -/
theorem programmed_routes_order_independent_partial (me pt eth : Nat) (ops1 ops2 : List Op)
    (ok1 : ∀ op ∈ ops1, op.ok) (ok2 : ∀ op ∈ ops2, op.ok)
    (hd1 : DisjAlong DS.empty ops1) (hd2 : DisjAlong DS.empty ops2)
    (hn : ∀ m, (dsOf ops1).nodes m = (dsOf ops2).nodes m)
    (hp : ∀ k, (dsOf ops1).pools k = (dsOf ops2).pools k)
    (hb : ∀ k, (dsOf ops1).blocks k = (dsOf ops2).blocks k) :
    let e1 := (St.runEvents { me := me } ops1)
    let e2 := (St.runEvents { me := me } ops2)
    let m1 := e1.2.foldl RM.onEvent { pt := pt, me := me, eth0Addr := eth }
    let m2 := e2.2.foldl RM.onEvent { pt := pt, me := me, eth0Addr := eth }
    ∀ c n, Tracked e1.1 c n → Tracked e2.1 c n → zeroHost c = false →
      aget m1.routes c = aget m2.routes c ∧ aget m1.localBlocks c = aget m2.localBlocks c := by
  intro e1 e2 m1 m2 c n t1 t2 h0
  have r1 := run_eq_runEvents ops1 { me := me } []
  have r2 := run_eq_runEvents ops2 { me := me } []
  have hs1 : (St.run { me := me } [] ops1).1 = e1.1 := by rw [r1]
  have hs2 : (St.run { me := me } [] ops2).1 = e2.1 := by rw [r2]
  have hsent := arrival_order_independent_partial me ops1 ops2 ok1 ok2 hd1 hd2 hn hp hb c n
    (by rw [hs1]; exact t1) (by rw [hs2]; exact t2) h0
  rw [r1, r2] at hsent
  have h0' : Agree ({ pt := pt, me := me, eth0Addr := eth } : RM) [] := by intro d; simp [aget]
  have a1 := agree_fold e1.2 _ _ h0' c
  have a2 := agree_fold e2.2 _ _ h0' c
  rw [fold_onEvent_pt] at a1 a2
  have hsent' : aget (applyEvents [] e1.2) c = aget (applyEvents [] e2.2) c := hsent
  exact ⟨by show aget m1.routes c = aget m2.routes c; rw [a1.1, a2.1, hsent'],
         by show aget m1.localBlocks c = aget m2.localBlocks c; rw [a1.2, a2.2, hsent']⟩

/-- Regression witness for the defect repaired by repo commit 7bc5b47 (oracle signature
`order-dep-local-v4cidr-zero`, replay corpus/C43/local-v4cidr-zero.ops): the local node is first
known without an IPv4 CIDR and then gains 10.0.1.11/24.  Before the repair `onNodeUpdate` compared
"was/is same subnet" with `ContainsV4` on the zero CIDR (which contains every address), saw no flip
and left the remote block's route with `SameSubnet = false`; with the zero-CIDR guard both the
history and the fresh resolver send `SameSubnet = true`. -/
theorem arrival_order_v4cidr_zero_fixed :
    let blk : Cidr := ⟨3232235840, 26, false⟩
    ((aget ((St.run { me := 1 } [] wHistory).2) blk).map (·.sameSubnet) = some true) ∧
    ((aget ((St.run { me := 1 } [] wFresh).2) blk).map (·.sameSubnet) = some true) := by
  decide


/-! ### a stale IPv4 VTEP (regression witness, vxlan manager) -/

/-- a remote block of node 2 in a VXLAN pool, as the resolver sends it. -/
def wVxRoute : RouteUpdate :=
  { dst := ⟨3232235584, 26, false⟩, types := tRemoteWorkload, poolType := ptVXLAN, dstNode := some 2, dstNodeIp := 167772172 }

/-- Regression witness for the defect repaired by repo commit f51d894 (oracle signature
`order-dep-stale-v4-vtep`, replay corpus/C43/stale-v4-vtep.ops): the IPv4 vxlan manager used to
ignore a VTEP update without an IPv4 address while keeping the IPv4 VTEP it already held for that
node (the EventSequencer coalesces the VXLANResolver's remove+update into that single update), so
the node's blocks stayed routed via the stale VTEP whereas a manager that only saw the final message
programmed nothing.  With the repair the history and the fresh manager agree. -/
theorem stale_v4_vtep_fixed :
    let m0 : RM := { pt := ptVXLAN, me := 0, eth0Addr := 167772170, parent := true }
    let hist := (((m0.onVtep 2 (some (3232235522, 167772172))).onVtep 2 (some (0, 167772172))).onRouteUpdate wVxRoute)
    let fresh := ((m0.onVtep 2 (some (0, 167772172))).onRouteUpdate wVxRoute)
    hist.targetOf wVxRoute = none ∧ fresh.targetOf wVxRoute = none ∧
    ((m0.onVtep 2 (some (3232235522, 167772172))).onRouteUpdate wVxRoute).targetOf wVxRoute
      = some (false, { cidr := ⟨3232235584, 26, false⟩, typ := .vxlan, gw := 3232235522 }) := by
  decide

/-! ### dual-stack: the IPv6 same-subnet re-evaluation is independent of the IPv4 one -/

/-- fd00:100::/48, VXLAN cross-subnet; block fd00:100::/122 of node 3; node 3 = 10.0.1.13/24 +
fd00:a:1::13/64; local node 1 = 10.0.1.11/24 + fd00:a:1::11/64. -/
def w6Pool : Op := .pool ⟨336294703215993319496333610198178463744, 48, true⟩ (some (poolOf 0 2 false false))
def w6Block : Op := .block ⟨336294703215993319496333610198178463744, 122, true⟩ (some 3) []
def w6Info (a4 a6 : Nat) : NodeInfo :=
  { v4Addr := a4, cidr := ⟨167772416, 24, false⟩, ipip := 0, vxlan := 0, wg := 0,
    v6Addr := a6, cidr6 := ⟨336294683725866549913126176815541387264, 64, true⟩ }
def w6Node3 : Op := .node 3 (some (w6Info 167772429 336294683725866549913126176815541387283))
def w6Node1 : Op := .node 1 (some (w6Info 167772427 336294683725866549913126176815541387281))

/-- Witness for seeded defect C43-2 (replay corpus/C43/local-dualstack-arrives-last.ops): ONE update
of the local node that changes both its IPv4 and its IPv6 subnet (here: its first appearance, after
the pool, the remote block and the remote node) must re-evaluate the IPv6 routes as well as the IPv4
ones — the two passes of `onNodeUpdate` are independent `if`s, not `if … else if`.  In the model (and
in the unchanged code) the IPv6 block ends up SameSubnet, as it does when the local node comes first;
both are instances of `arrival_order_independent_partial`, which is proved for both families. -/
theorem dualstack_local_node_last_same_subnet :
    let blk : Cidr := ⟨336294703215993319496333610198178463744, 122, true⟩
    ((aget ((St.run { me := 1 } [] [w6Pool, w6Block, w6Node3, w6Node1]).2) blk).map (·.sameSubnet) = some true) ∧
    ((aget ((St.run { me := 1 } [] [w6Node1, w6Pool, w6Block, w6Node3]).2) blk).map (·.sameSubnet) = some true) ∧
    ((aget ((St.run { me := 1 } [] [w6Pool, w6Block, w6Node3, w6Node1]).2) blk).map (·.dstNodeIp)
      = some 336294683725866549913126176815541387283) := by
  decide

end CalicoVerif.C43
