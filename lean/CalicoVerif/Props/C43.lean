import CalicoVerif.Model.C43
/-!
C43 — Cluster routes take the path their pool's encapsulation requires.
-/
namespace CalicoVerif.C43

end CalicoVerif.C43
