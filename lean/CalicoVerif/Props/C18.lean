import CalicoVerif.Proofs.C18
/-!
C18 — Desired-versus-actual tracking always reports the exact difference.

Specification: two plain maps `des dp : K → Option V` (`Spec`), updated per operation by
`specAt` (one key at a time — every operation of the tracker is key-local).  For a general
`valuesEqual` (`eqv`, only assumed reflexive and symmetric) the specification says which of
two `eqv`-equal objects the desired view returns (the tracker aliases them on purpose);
`specAt_plain_*` show that for a `valuesEqual` that is equality (cachingmap's `==`, the default
`reflect.DeepEqual` on plain data) the specification is literally "assign / delete in two maps".

Precondition made explicit (`Op.WF`): the iterator given to `ReplaceAllIter` yields distinct
keys.  `repl_duplicate_keys_break_it` is the excluded point (also executed on the real code).
-/
namespace CalicoVerif.C18
variable {K V : Type} [DecidableEq K]

/-- The two maps of the specification. -/
structure Spec (K V : Type) where
  des : K → Option V
  dp : K → Option V

def Spec.empty : Spec K V := ⟨fun _ => none, fun _ => none⟩

/-- Abstraction: the tracker's `Desired().Get` and `Dataplane().Get`. -/
def abs (t : Tracker K V) : Spec K V := ⟨desiredGet t, dataplaneGet t⟩

def Op.WF : Op K V → Prop
  | .repl items _ => NodupKeys items
  | _ => True

/-- What an operation does to (desired[k'], dataplane[k']). -/
def specAt (eqv : V → V → Bool) : Op K V → K → S1 V → S1 V
  | .dSet k v, k', x => if k = k' then sDSet eqv x v else x
  | .dDel k, k', x => if k = k' then sDDel x else x
  | .dDelAll, _, x => sDDel x
  | .pSet k v, k', x => if k = k' then sPSet eqv x v else x
  | .pDel k, k', x => if k = k' then sPDel x else x
  | .repl items fail, k', x => sRepl eqv fail x (get items k')
  | .uIter act, k', x => sUIter eqv (decide (act k' = .update)) x
  | .xIter act, k', x => sXIter (decide (act k' = .update)) x
  | .uBatched F _, k', x => sUIter eqv (!F k') x
  | .xBatched F _, k', x => sXIter (!F k') x

def specStep (eqv : V → V → Bool) (s : Spec K V) (op : Op K V) : Spec K V :=
  ⟨fun k => (specAt eqv op k (s.des k, s.dp k)).1, fun k => (specAt eqv op k (s.des k, s.dp k)).2⟩

def specRun (eqv : V → V → Bool) (ops : List (Op K V)) : Spec K V := ops.foldl (specStep eqv) Spec.empty

/-- The partition invariant of the three maps (see `P.Inv`) at every key. -/
def Inv (eqv : V → V → Bool) (t : Tracker K V) : Prop := ∀ k, (proj t k).Inv eqv

/-! ### `desiredUpdates` keeps one entry per key (needed: `Iter` visits each pending update once) -/

theorem foldl_preserves {S α : Type} (Pr : S → Prop) (f : S → α → S) (h : ∀ s x, Pr s → Pr (f s x))
    (xs : List α) (s : S) (hs : Pr s) : Pr (xs.foldl f s) := by
  induction xs generalizing s with
  | nil => exact hs
  | cons x r ih => exact ih _ (h s x hs)

theorem nodup_dSet (eqv : V → V → Bool) (t : Tracker K V) (k : K) (v : V) (h : NodupKeys t.du) :
    NodupKeys (dSet eqv t k v).du := by
  have s1 := nodupKeys_set t.du k v h
  have s2 := nodupKeys_del t.du k h
  unfold dSet
  split
  · dsimp only; split <;> assumption
  · split
    · split <;> assumption
    · dsimp only; split <;> assumption

theorem nodup_dDel (t : Tracker K V) (k : K) (h : NodupKeys t.du) : NodupKeys (dDel t k).du := by
  have s2 := nodupKeys_del t.du k h
  cases h1 : get t.du k <;> cases h2 : get t.dd k <;> simp [dDel, h1, h2] <;> assumption

theorem nodup_pSet (eqv : V → V → Bool) (t : Tracker K V) (k : K) (v : V) (h : NodupKeys t.du) :
    NodupKeys (pSet eqv t k v).du := by
  have s2 := nodupKeys_del t.du k h
  unfold pSet
  split
  · rename_i dv _
    have s1 := nodupKeys_set t.du k dv h
    dsimp only; split <;> assumption
  · exact h

theorem nodup_pDel (t : Tracker K V) (k : K) (h : NodupKeys t.du) : NodupKeys (pDel t k).du := by
  unfold pDel
  dsimp only
  split
  · exact nodupKeys_set t.du k _ h
  · exact h

theorem nodup_repl (eqv : V → V → Bool) (t : Tracker K V) (items : List (K × V)) (fail : Bool)
    (h : NodupKeys t.du) : NodupKeys (replaceAllIter eqv t items fail).1.du := by
  have hr : NodupKeys (items.foldl (replVisit eqv)
      { du := t.du, oldD := t.dd, oldN := t.dn, newD := [], newN := [] }).du := by
    apply foldl_preserves (fun r : RState K V => NodupKeys r.du) _ _ _ _ h
    intro s x hs
    have s1 := nodupKeys_del s.du x.1 hs
    unfold replVisit
    dsimp only
    split
    · rename_i dv _
      have s3 := nodupKeys_set s.du x.1 dv hs
      split <;> assumption
    · exact hs
  unfold replaceAllIter
  dsimp only
  split
  · exact hr
  · apply foldl_preserves NodupKeys _ _ _ _ hr
    intro s x hs
    unfold replMissing
    split <;> exact nodupKeys_set _ _ _ hs

theorem nodup_uIter (t : Tracker K V) (ord : List (K × V)) (act : K → Act) (h : NodupKeys t.du) :
    NodupKeys (uIter t ord act).du := by
  unfold uIter
  apply foldl_preserves (fun s : Tracker K V => NodupKeys s.du) _ _ _ _ h
  intro s x hs
  split
  · exact nodupKeys_del s.du x.1 hs
  · exact hs
  · exact hs

theorem nodup_xIter (t : Tracker K V) (ord : List K) (act : K → Act) (h : NodupKeys t.du) :
    NodupKeys (xIter t ord act).du := by
  unfold xIter
  apply foldl_preserves (fun s : Tracker K V => NodupKeys s.du) _ _ _ _ h
  intro s x hs
  split <;> exact hs

theorem nodup_step (eqv : V → V → Bool) (t : Tracker K V) (op : Op K V) (h : NodupKeys t.du) :
    NodupKeys (step eqv t op).du := by
  cases op with
  | dSet k v => exact nodup_dSet eqv t k v h
  | dDel k => exact nodup_dDel t k h
  | dDelAll =>
    show NodupKeys (dDelAll t).du
    unfold dDelAll
    exact foldl_preserves (fun s : Tracker K V => NodupKeys s.du) _ (fun s x hs => nodup_dDel s x hs) _ _
      (foldl_preserves (fun s : Tracker K V => NodupKeys s.du) _ (fun s x hs => nodup_dDel s x hs) _ _ h)
  | pSet k v => exact nodup_pSet eqv t k v h
  | pDel k => exact nodup_pDel t k h
  | repl items fail => exact nodup_repl eqv t items fail h
  | uIter act => exact nodup_uIter t t.du act h
  | xIter act => exact nodup_xIter t (keys t.dn) act h
  | uBatched F c =>
    show NodupKeys (uBatched t batchSize F c t.du).du
    rw [uBatched_eq_uIter]; exact nodup_uIter t t.du _ h
  | xBatched F c =>
    show NodupKeys (xBatched t batchSize F c (keys t.dn)).du
    rw [xBatched_eq_xIter]; exact nodup_xIter t (keys t.dn) _ h

/-! ### One step: invariant preserved and the two views move exactly as the specification says -/

theorem batchAct_update (F : K → Bool) (k : K) : decide (batchAct F k = Act.update) = !F k := by
  unfold batchAct; cases F k <;> simp

/-- Every operation, seen at any key `k'`, preserves the partition invariant and changes
(desired[k'], dataplane[k']) exactly as `specAt` prescribes. -/
theorem step_at (eqv : V → V → Bool) (hs : Sym eqv) (hr : Refl eqv) (t : Tracker K V) (op : Op K V)
    (hi : Inv eqv t) (hn : NodupKeys t.du) (hop : op.WF) (k' : K) :
    (proj (step eqv t op) k').Inv eqv ∧
    (proj (step eqv t op) k').abs = specAt eqv op k' (proj t k').abs := by
  have hk := hi k'
  cases op with
  | dSet k v =>
    simp only [step, specAt, proj_dSet]
    split
    · exact dSetAt_ok eqv hs _ v hk
    · exact ⟨hk, rfl⟩
  | dDel k =>
    simp only [step, specAt, proj_dDel]
    split
    · exact dDelAt_ok eqv _ hk
    · exact ⟨hk, rfl⟩
  | dDelAll =>
    simp only [step, specAt, proj_dDelAll]
    exact dDelAt_ok eqv _ hk
  | pSet k v =>
    simp only [step, specAt, proj_pSet]
    split
    · exact pSetAt_ok eqv _ v hk
    · exact ⟨hk, rfl⟩
  | pDel k =>
    simp only [step, specAt, proj_pDel]
    split
    · exact pDelAt_ok eqv _ hk
    · exact ⟨hk, rfl⟩
  | repl items fail =>
    simp only [step, specAt, proj_repl eqv t items fail hop]
    exact replAt_ok eqv fail _ _ hk
  | uIter act =>
    simp only [step, specAt, proj_uIter t t.du act (List.Perm.refl _) hn]
    exact uIterAt_ok eqv hr _ _ hk
  | xIter act =>
    simp only [step, specAt, proj_xIter t (keys t.dn) act (fun _ => Iff.rfl)]
    exact xIterAt_ok eqv _ _ hk
  | uBatched F c =>
    simp only [step, specAt, uBatched_eq_uIter, proj_uIter t t.du _ (List.Perm.refl _) hn, batchAct_update]
    exact uIterAt_ok eqv hr _ _ hk
  | xBatched F c =>
    simp only [step, specAt, xBatched_eq_xIter, proj_xIter t (keys t.dn) _ (fun _ => Iff.rfl), batchAct_update]
    exact xIterAt_ok eqv _ _ hk

/-- **Refinement, all histories.**  After ANY sequence of operations (whose `ReplaceAllIter`
iterators yield distinct keys) the partition invariant holds and the tracker's desired and
dataplane views equal the two maps of the specification. -/
theorem tracker_refines (eqv : V → V → Bool) (hs : Sym eqv) (hr : Refl eqv) (ops : List (Op K V))
    (hw : ∀ op ∈ ops, op.WF) :
    Inv eqv (run eqv ops) ∧ NodupKeys (run eqv ops).du ∧ abs (run eqv ops) = specRun eqv ops := by
  unfold run specRun
  suffices h : ∀ (t : Tracker K V) (s : Spec K V), Inv eqv t → NodupKeys t.du → abs t = s →
      Inv eqv (ops.foldl (step eqv) t) ∧ NodupKeys (ops.foldl (step eqv) t).du ∧
      abs (ops.foldl (step eqv) t) = ops.foldl (specStep eqv) s by
    apply h
    · intro k; simp [proj, Tracker.new, P.Inv]
    · exact nodupKeys_nil
    · rfl
  induction ops with
  | nil => intro t s hi hn ha; exact ⟨hi, hn, ha⟩
  | cons op r ih =>
    intro t s hi hn ha
    simp only [List.foldl_cons]
    have hop := hw op (by simp)
    apply ih (fun o ho => hw o (by simp [ho]))
    · intro k; exact (step_at eqv hs hr t op hi hn hop k).1
    · exact nodup_step eqv t op hn
    · subst ha
      unfold abs specStep
      congr 1 <;> funext k
      · have := (step_at eqv hs hr t op hi hn hop k).2
        rw [desiredGet_eq]
        exact congrArg Prod.fst this
      · have := (step_at eqv hs hr t op hi hn hop k).2
        rw [dataplaneGet_eq]
        exact congrArg Prod.snd this

/-- **Pending updates are the exact difference**: `k` has a pending update iff it is desired and
the dataplane lacks it or has a different (per `valuesEqual`) value; the update carries the desired value. -/
theorem pending_updates_exact (eqv : V → V → Bool) (hr : Refl eqv) (t : Tracker K V) (hi : Inv eqv t) (k : K) :
    get t.du k = if pendU eqv (desiredGet t k, dataplaneGet t k) then desiredGet t k else none :=
  P.pendU_exact eqv hr (proj t k) (hi k)

/-- **Pending deletions are the exact difference**: in the dataplane and not desired. -/
theorem pending_deletions_exact (eqv : V → V → Bool) (t : Tracker K V) (hi : Inv eqv t) (k : K) :
    get t.dn k = if pendX (desiredGet t k, dataplaneGet t k) then dataplaneGet t k else none :=
  P.pendX_exact eqv (proj t k) (hi k)

/-- Both exact-difference statements after any history, in terms of the specification maps. -/
theorem pending_exact_after_history (eqv : V → V → Bool) (hs : Sym eqv) (hr : Refl eqv) (ops : List (Op K V))
    (hw : ∀ op ∈ ops, op.WF) (k : K) :
    let s := specRun eqv ops
    get (run eqv ops).du k = (if pendU eqv (s.des k, s.dp k) then s.des k else none) ∧
    get (run eqv ops).dn k = (if pendX (s.des k, s.dp k) then s.dp k else none) := by
  obtain ⟨hi, _, ha⟩ := tracker_refines eqv hs hr ops hw
  have h1 := pending_updates_exact eqv hr _ hi k
  have h2 := pending_deletions_exact eqv _ hi k
  have hd : desiredGet (run eqv ops) k = (specRun eqv ops).des k := congrFun (congrArg Spec.des ha) k
  have hp : dataplaneGet (run eqv ops) k = (specRun eqv ops).dp k := congrFun (congrArg Spec.dp ha) k
  rw [hd, hp] at h1 h2
  exact ⟨h1, h2⟩

/-- **Iteration-time mutation, any visiting order**: `PendingUpdates().Iter` visiting the pending
updates in ANY order `ord` (a permutation of the map) with ANY per-key action leaves the same
three maps (as maps) as visiting them in list order. -/
theorem uIter_order_independent (t : Tracker K V) (ord : List (K × V)) (act : K → Act)
    (hp : ord.Perm t.du) (hn : NodupKeys t.du) (k : K) :
    proj (uIter t ord act) k = proj (uIter t t.du act) k := by
  rw [proj_uIter t ord act hp hn, proj_uIter t t.du act (List.Perm.refl _) hn]

theorem xIter_order_independent (t : Tracker K V) (ord : List K) (act : K → Act)
    (hp : ord.Perm (keys t.dn)) (k : K) :
    proj (xIter t ord act) k = proj (xIter t (keys t.dn) act) k := by
  rw [proj_xIter t ord act (fun x => hp.mem_iff), proj_xIter t (keys t.dn) act (fun _ => Iff.rfl)]

/-- `IterBatched` (any batch size, any per-call limit, any failing keys, any visiting order):
exactly the offered items whose key does not fail are applied — it IS `Iter` with the action
"update unless the key fails". -/
theorem iterBatched_is_iter (t : Tracker K V) (B c : Nat) (F : K → Bool) (ord : List (K × V)) (ordx : List K) :
    uBatched t B F c ord = uIter t ord (batchAct F) ∧ xBatched t B F c ordx = xIter t ordx (batchAct F) :=
  ⟨uBatched_eq_uIter t B F c ord, xBatched_eq_xIter t B F c ordx⟩

/-! ### When `valuesEqual` is equality the specification is two plain maps -/

def Lawful (eqv : V → V → Bool) : Prop := ∀ a b, eqv a b = true ↔ a = b

theorem specAt_plain_set (eqv : V → V → Bool) (hl : Lawful eqv) (x : S1 V) (v : V) :
    sDSet eqv x v = (some v, x.2) ∧ sPSet eqv x v = (x.1, some v) := by
  obtain ⟨d, q⟩ := x
  unfold sDSet sPSet
  constructor
  · cases q with
    | none => rfl
    | some w =>
      by_cases h : eqv w v = true
      · simp [h, (hl w v).1 h]
      · simp [h]
  · cases d with
    | none => rfl
    | some dv =>
      by_cases h : eqv dv v = true
      · simp [h, (hl dv v).1 h]
      · simp [h]

theorem specAt_plain_repl (eqv : V → V → Bool) (hl : Lawful eqv) (fail : Bool) (x : S1 V) (item : Option V) :
    sRepl eqv fail x item = (x.1, match item with
      | some v => some v
      | none => if fail then x.2 else none) := by
  obtain ⟨d, q⟩ := x
  unfold sRepl
  cases d with
  | none => cases item <;> rfl
  | some dv =>
    cases item with
    | none => rfl
    | some v =>
      by_cases h : eqv dv v = true
      · simp [h, (hl dv v).1 h]
      · simp [h]

/-- No stale aliasing: the value the desired view returns is always `valuesEqual` to … itself
being the last value set, i.e. the aliasing rules of `sDSet`/`sPSet`/`sRepl` only ever swap a
value for a `valuesEqual` one. -/
theorem alias_only_equal (eqv : V → V → Bool) (hr : Refl eqv) (x : S1 V) (v : V) (fail : Bool) (item : Option V) :
    (∃ w, (sDSet eqv x v).1 = some w ∧ eqv w v = true) ∧
    (∀ dv, x.1 = some dv → ∃ w, (sPSet eqv x v).1 = some w ∧ eqv dv w = true) ∧
    (∀ dv, x.1 = some dv → ∃ w, (sRepl eqv fail x item).1 = some w ∧ eqv dv w = true) := by
  obtain ⟨d, q⟩ := x
  have := hr
  unfold Refl at this
  unfold sDSet sPSet sRepl
  refine ⟨?_, ?_, ?_⟩
  · cases q with
    | none => exact ⟨v, rfl, this v⟩
    | some w => by_cases h : eqv w v = true <;> simp [h, this]
  · intro dv hd
    simp only at hd; subst hd
    by_cases h : eqv dv v = true <;> simp [h, this]
  · intro dv hd
    simp only at hd; subst hd
    cases item with
    | none => simp [this]
    | some v' => by_cases h : eqv dv v' = true <;> simp [h, this]

/-! ### `desiredLen` -/

/-- `desiredLen` moves by exactly the change in membership of `k` in the desired view
(so `Desired().Len()` counts the desired keys; the other operations do not touch it). -/
theorem desiredLen_tracks (eqv : V → V → Bool) (t : Tracker K V) (hi : Inv eqv t) (k : K) (v : V) :
    (dSet eqv t k v).dlen = t.dlen + (if (desiredGet t k).isSome then 0 else 1) ∧
    (dDel t k).dlen = t.dlen - (if (desiredGet t k).isSome then 1 else 0) := by
  have h := hi k
  unfold P.Inv proj at h
  simp only at h
  unfold desiredGet
  constructor
  · cases h1 : get t.dn k <;> cases h2 : get t.dd k <;> cases h3 : get t.du k <;>
      simp_all [dSet] <;> split <;> simp
  · cases h2 : get t.dd k <;> cases h3 : get t.du k <;> simp [dDel, h2, h3]

theorem desiredLen_unchanged (eqv : V → V → Bool) (t : Tracker K V) (k : K) (v : V)
    (items : List (K × V)) (fail : Bool) (ord : List (K × V)) (ordx : List K) (act : K → Act) :
    (pSet eqv t k v).dlen = t.dlen ∧ (pDel t k).dlen = t.dlen ∧
    (replaceAllIter eqv t items fail).1.dlen = t.dlen ∧
    (uIter t ord act).dlen = t.dlen ∧ (xIter t ordx act).dlen = t.dlen := by
  refine ⟨?_, ?_, ?_, ?_, ?_⟩
  · unfold pSet; split
    · dsimp only; split <;> rfl
    · rfl
  · unfold pDel; dsimp only; split <;> rfl
  · unfold replaceAllIter; dsimp only; split <;> rfl
  · unfold uIter
    apply foldl_preserves (fun s : Tracker K V => s.dlen = t.dlen) _ _ _ _ rfl
    intro s x hs; split <;> simp_all [applyUpd]
  · unfold xIter
    apply foldl_preserves (fun s : Tracker K V => s.dlen = t.dlen) _ _ _ _ rfl
    intro s x hs; split <;> simp_all [applyDel]

/-! ### Non-vacuity and the excluded point -/

def natEq : Nat → Nat → Bool := fun a b => a == b

example : Sym natEq ∧ Refl natEq ∧ Lawful natEq := by
  refine ⟨fun a b => ?_, fun a => ?_, fun a b => ?_⟩
  · show (a == b) = (b == a)
    exact Bool.beq_comm ..
  · simp [natEq]
  · simp [natEq]

/-- A non-trivial reachable state: key 1 desired with another value in the dataplane (pending
update), key 2 only in the dataplane (pending deletion), key 3 in sync. -/
def exOps : List (Op Nat Nat) :=
  [.dSet 1 5, .pSet 1 6, .pSet 2 7, .dSet 3 9, .repl [(3, 9), (2, 7), (1, 6)] false]

example : (∀ op ∈ exOps, op.WF) := by
  intro op h
  simp only [exOps, List.mem_cons, List.not_mem_nil, or_false] at h
  rcases h with rfl | rfl | rfl | rfl | rfl <;> simp [Op.WF, NodupKeys, keys]

example : get (run natEq exOps).du 1 = some 5 ∧ get (run natEq exOps).dn 2 = some 7 ∧
    get (run natEq exOps).du 3 = none ∧ desiredGet (run natEq exOps) 3 = some 9 := by decide

/-- The excluded point: an iterator that yields key 1 twice leaves key 1 in BOTH in-dataplane maps
(the invariant fails and `Dataplane().Get(1)` reports 5 although the last value yielded was 6). -/
theorem repl_duplicate_keys_break_it :
    let t := run natEq [.dSet 1 5, .repl [(1, 5), (1, 6)] false]
    get t.dd 1 = some 5 ∧ get t.dn 1 = some 6 ∧ ¬ Inv natEq t := by
  refine ⟨by decide, by decide, ?_⟩
  intro h
  have := (h 1).1
  revert this
  decide

end CalicoVerif.C18
