import CalicoVerif.Proofs.C07Ops
import CalicoVerif.Proofs.C07Restr
import CalicoVerif.Proofs.C07RIdx
import CalicoVerif.Proofs.C06Roundtrip
/-!
C07 — Indexed selector matching equals direct selector evaluation.

Property theorems only; helper lemmas in `CalicoVerif.Proofs.C07*`, model in
`CalicoVerif.Model.C07` (selectors: the shared model `CalicoVerif.Model.C06*`).

Proved here, for ALL histories of InheritIndex operations (any ids, labels,
parent chains, selectors):
* `index_eq_eval` — after any history a (selector, item) pair is in the match set
  exactly when both exist and the selector evaluates to true on the item's
  effective labels (own labels first, then the parents in order, first wins);
* `callbacks_alternate` — the callbacks of a history form a legal trace: a start
  only for a pair that is not matching, a stop only for one that is, and the
  trace reconstructs the final match set from the empty one.
* `restrictions_sound` — for every selector and every label map: if the selector
  matches the map, the map satisfies the selector's `LabelRestrictions()`;
* `candidates_complete` — hence the restriction index's pruning
  (`AllPotentialMatches`, modelled by its specification `isCandidate`) never drops
  a selector that matches the item.
* `ridx_refines_spec`, `ridx_complete` — the STRUCTURAL model of the restriction
  index (label → value → ids / wildcard ids / unoptimised ids, with the Go code's
  clean-up of empty sets and sub-indexes) satisfies, after any history of
  AddSelector/DeleteSelector, "emitted ids = specified candidates of the stored
  selectors", hence never misses a matching selector;
* `selector_equal_iff` — comparing canonical texts (what `Selector.Equal` does via
  the hash) is comparing selectors, for parser-built selectors.
-/
namespace CalicoVerif.C07
open CalicoVerif.C06

/-- The operations of `InheritIndex`. -/
inductive Op
  | updateLabels (id : Nat) (labels : List (Str × Str)) (parents : List Str)
  | deleteLabels (id : Nat)
  | updateParentLabels (pid : Str) (labels : List (Str × Str))
  | deleteParentLabels (pid : Str)
  | updateSelector (id : Nat) (sel : Node)
  | deleteSelector (id : Nat)

def Op.apply (st : Idx) : Op → Idx × List Event
  | .updateLabels id l ps => C07.updateLabels st id l ps
  | .deleteLabels id => C07.deleteLabels st id
  | .updateParentLabels p l => C07.updateParentLabels st p l
  | .deleteParentLabels p => C07.deleteParentLabels st p
  | .updateSelector id n => C07.updateSelector st id n
  | .deleteSelector id => C07.deleteSelector st id

/-- Run a history from a state; returns the final state and all callbacks in order. -/
def runFrom : Idx → List Op → Idx × List Event
  | st, [] => (st, [])
  | st, op :: ops =>
    let (st1, e1) := op.apply st
    let (st2, e2) := runFrom st1 ops
    (st2, e1 ++ e2)

/-- Run a history on a fresh index (`NewInheritIndex`). -/
def run (ops : List Op) : Idx × List Event := runFrom {} ops

theorem apply_inv {st : Idx} (h : Inv st) (op : Op) : Inv (op.apply st).1 := by
  cases op with
  | updateLabels id l ps => exact updateLabels_inv h id l ps
  | deleteLabels id => exact deleteLabels_inv h id
  | updateParentLabels p l => exact updateParentLabels_inv h p l
  | deleteParentLabels p => exact deleteParentLabels_inv h p
  | updateSelector id n => exact updateSelector_inv h id n
  | deleteSelector id => exact deleteSelector_inv h id

theorem runFrom_inv : ∀ (ops : List Op) {st : Idx}, Inv st → Inv (runFrom st ops).1
  | [], _, h => h
  | op :: ops, st, h => by
    simp only [runFrom]
    exact runFrom_inv ops (apply_inv h op)

/-- FULL (histories): after ANY sequence of operations on a fresh index, a
(selector id, item id) pair is reported as matching iff the selector and the item
currently exist and the selector evaluates to true on the item's effective labels. -/
theorem index_eq_eval (ops : List Op) (sel item : Nat) :
    (sel, item) ∈ (run ops).1.matched ↔
      ∃ n it, lookup sel (run ops).1.sels = some n ∧ lookup item (run ops).1.items = some it ∧
        n.eval (effLabels (run ops).1 it) = true :=
  (runFrom_inv ops inv_empty).sound (sel, item)

/-- Effective labels: own labels override the parents', the first parent that has
the label wins, parents without labels (or unknown) contribute nothing. -/
theorem effLabels_spec (st : Idx) (it : Item) (k : Str) :
    effLabels st it k =
      match lookup k it.labels with
      | some v => some v
      | none => (it.parents.findSome? (fun p => lookup k ((lookup p st.parents).getD []))) := by
  unfold effLabels
  cases lookup k it.labels with
  | some v => rfl
  | none =>
    simp only []
    induction it.parents with
    | nil => rfl
    | cons p ps ih =>
      simp only [firstParent, parentLabels, List.findSome?_cons]
      cases lookup k ((lookup p st.parents).getD []) with
      | some v => rfl
      | none => exact ih

theorem apply_replay {st : Idx} (h : Inv st) (op : Op) :
    Replay st.matched (op.apply st).2 (op.apply st).1.matched := by
  cases op with
  | updateLabels id l ps => exact scanSelectors_replay _ _ _ _ _
  | deleteLabels id => exact dropMatches_replay _ _ h.matchedNodup
  | updateParentLabels p l => exact flushItems_replay _ _ _
  | deleteParentLabels p => exact flushItems_replay _ _ _
  | updateSelector id n =>
    simp only [Op.apply, C07.updateSelector]
    split
    · split
      · exact .nil _
      · exact scanItems_replay _ _ _ _ _
    · exact scanItems_replay _ _ _ _ _
  | deleteSelector id => exact dropMatches_replay _ _ h.matchedNodup

theorem runFrom_replay : ∀ (ops : List Op) {st : Idx}, Inv st →
    Replay st.matched (runFrom st ops).2 (runFrom st ops).1.matched
  | [], _, _ => .nil _
  | op :: ops, st, h => by
    simp only [runFrom]
    exact (apply_replay h op).append (runFrom_replay ops (apply_inv h op))

/-- FULL (histories): the callbacks emitted along ANY history alternate per pair —
`OnMatchStarted` is only ever called for a pair that is not matching,
`OnMatchStopped` only for a pair that is (never two starts, never a stop without
a start) — and replaying them from the empty set yields the final match set. -/
theorem callbacks_alternate (ops : List Op) : Replay [] (run ops).2 (run ops).1.matched :=
  runFrom_replay ops inv_empty

/-! ### the tables `index_eq_eval` reads are the last values written -/

/-- the index's INPUT tables: per item its labels and ordered parent ids, per parent its labels, per selector
id the canonical text of the stored selector (`UpdateSelector` keeps the old object when the texts are equal) -/
structure Tables where
  items : Nat → Option (List (Str × Str) × List Str)
  parents : Str → Option (List (Str × Str))
  sels : Nat → Option Str

/-- "last writer wins": an update stores what was written under its key, a deletion removes the key, nothing
else changes -/
def Tables.apply (t : Tables) : Op → Tables
  | .updateLabels id l ps => { t with items := fun k => if k = id then some (l, ps) else t.items k }
  | .deleteLabels id => { t with items := fun k => if k = id then none else t.items k }
  | .updateParentLabels p l => { t with parents := fun k => if k = p then some l else t.parents k }
  | .deleteParentLabels p => { t with parents := fun k => if k = p then none else t.parents k }
  | .updateSelector id n => { t with sels := fun k => if k = id then some n.text else t.sels k }
  | .deleteSelector id => { t with sels := fun k => if k = id then none else t.sels k }

def tablesOf (st : Idx) : Tables :=
  { items := fun k => (lookup k st.items).map (fun it => (it.labels, it.parents))
    parents := fun k => lookup k st.parents
    sels := fun k => (lookup k st.sels).map (·.text) }

theorem apply_tables (st : Idx) (op : Op) : tablesOf (op.apply st).1 = (tablesOf st).apply op := by
  cases op with
  | updateLabels id l ps =>
    show Tables.mk _ _ _ = Tables.mk _ _ _
    congr 1
    funext k
    show (lookup k (insert id ⟨l, ps⟩ st.items)).map _ = _
    rw [lookup_insert]
    by_cases hk : k = id
    · subst hk; simp
    · have : ¬ id = k := fun e => hk e.symm
      simp [hk, this]; rfl
  | deleteLabels id =>
    show Tables.mk _ _ _ = Tables.mk _ _ _
    congr 1
    funext k
    show (lookup k (erase id st.items)).map _ = _
    rw [lookup_erase]
    by_cases hk : k = id
    · simp [hk]
    · simp [hk]; rfl
  | updateParentLabels p l =>
    show Tables.mk _ _ _ = Tables.mk _ _ _
    congr 1
    funext k
    show lookup k (insert p l st.parents) = _
    rw [lookup_insert]
    by_cases hk : k = p
    · subst hk; simp
    · have : ¬ p = k := fun e => hk e.symm
      simp [hk, this]; rfl
  | deleteParentLabels p =>
    show Tables.mk _ _ _ = Tables.mk _ _ _
    congr 1
    funext k
    show lookup k (erase p st.parents) = _
    rw [lookup_erase]
    by_cases hk : k = p
    · simp [hk]
    · simp [hk]; rfl
  | updateSelector id n =>
    simp only [Op.apply, C07.updateSelector]
    cases ho : lookup id st.sels with
    | none =>
      show Tables.mk _ _ _ = Tables.mk _ _ _
      congr 1
      funext k
      show (lookup k (insert id n st.sels)).map _ = _
      rw [lookup_insert]
      by_cases hk : k = id
      · subst hk; simp
      · have : ¬ id = k := fun e => hk e.symm
        simp [hk, this]; rfl
    | some old =>
      simp only []
      by_cases ht : old.text = n.text
      · simp only [ht, if_true]
        show Tables.mk _ _ _ = Tables.mk _ _ _
        congr 1
        funext k
        by_cases hk : k = id
        · subst hk; simp [ho, ht]
        · simp [hk]; rfl
      · simp only [ht, if_false]
        show Tables.mk _ _ _ = Tables.mk _ _ _
        congr 1
        funext k
        show (lookup k (insert id n st.sels)).map _ = _
        rw [lookup_insert]
        by_cases hk : k = id
        · subst hk; simp
        · have : ¬ id = k := fun e => hk e.symm
          simp [hk, this]; rfl
  | deleteSelector id =>
    show Tables.mk _ _ _ = Tables.mk _ _ _
    congr 1
    funext k
    show (lookup k (erase id st.sels)).map _ = _
    rw [lookup_erase]
    by_cases hk : k = id
    · simp [hk]
    · simp [hk]; rfl

theorem tables_runFrom : ∀ (ops : List Op) (st : Idx), tablesOf (runFrom st ops).1 = ops.foldl Tables.apply (tablesOf st)
  | [], _ => rfl
  | op :: ops, st => by
    simp only [runFrom, List.foldl_cons]
    rw [tables_runFrom ops, apply_tables]

/-- **The tables `index_eq_eval` reads are the last values written.**  `index_eq_eval` is stated over the
index's item, parent-label and selector tables; along every history from a fresh index these tables are exactly
"last writer wins" (`Tables.apply`).  Together with `index_eq_eval` this makes the match set a function of the
current inputs only. -/
theorem input_tables_last_writer_wins (ops : List Op) :
    tablesOf (run ops).1 = ops.foldl Tables.apply ⟨fun _ => none, fun _ => none, fun _ => none⟩ :=
  tables_runFrom ops {}

/-- FULL (all selectors, all label maps): a label map that the selector matches
satisfies every restriction `LabelRestrictions()` derives (must-be-present,
must-be-absent, must-have-one-of-values), so pruning on them is safe. -/
theorem restrictions_sound (t : Node) (ls : Labels) (h : t.eval ls = true) :
    ∀ l r, (l, r) ∈ restrictions t →
      (r.mustBePresent = true → ls l ≠ none) ∧ (r.mustBeAbsent = true → ls l = none) ∧
      (∀ vs, r.values = some vs → ∃ x, ls l = some x ∧ x ∈ vs) :=
  restrictions_sound_aux ls t h

/-- FULL: a selector that matches an item (given by its effective label list) is
always among the restriction index's candidates for that item. -/
theorem candidates_complete (ri : RIdx) (id : Nat) (n : Node) (kvs : List (Str × Str))
    (hmem : (id, n) ∈ ri) (h : n.eval (Labels.ofList kvs) = true) : id ∈ ri.candidates kvs := by
  unfold RIdx.candidates
  exact List.mem_map.mpr ⟨(id, n), List.mem_filter.mpr ⟨hmem, candidates_complete_aux n kvs h⟩, rfl⟩

/-! ### the restriction index, structurally -/

/-- The operations of `LabelRestrictionIndex`. -/
inductive ROp
  | add (id : Nat) (sel : Node)
  | delete (id : Nat)

def ROp.apply (st : RIdxS) : ROp → RIdxS
  | .add id n => st.addSelector id n
  | .delete id => st.deleteSelector id

/-- Run a history on a fresh index (`labelrestrictionindex.New`). -/
def runR (ops : List ROp) : RIdxS := ops.foldl ROp.apply {}

theorem runR_rinv (ops : List ROp) : RInv (runR ops) := by
  unfold runR
  suffices h : ∀ (ops : List ROp) (st : RIdxS), RInv st → RInv (ops.foldl ROp.apply st) from h ops {} rinv_empty
  intro ops
  induction ops with
  | nil => intro st h; exact h
  | cons op ops ih =>
    intro st h
    simp only [List.foldl_cons]
    apply ih
    cases op with
    | add id n => exact addSelector_rinv h id n
    | delete id => exact deleteSelector_rinv h id

/-- FULL (histories, refinement): after ANY sequence of AddSelector / DeleteSelector,
the set of ids `AllPotentialMatches(item)` emits is exactly the set of stored
selectors that the specification `isCandidate` keeps for the item. -/
theorem ridx_refines_spec (ops : List ROp) (kvs : List (Str × Str)) (id : Nat) :
    id ∈ (runR ops).potentialMatches kvs ↔ id ∈ RIdx.candidates (runR ops).sels kvs :=
  potentialMatches_eq_candidates (runR_rinv ops) kvs id

/-- FULL (histories): a stored selector that matches the item is always emitted. -/
theorem ridx_complete (ops : List ROp) (kvs : List (Str × Str)) (id : Nat) (n : Node)
    (hst : lookup id (runR ops).sels = some n) (h : n.eval (Labels.ofList kvs) = true) :
    id ∈ (runR ops).potentialMatches kvs :=
  (ridx_refines_spec ops kvs id).mpr (candidates_complete _ id n kvs (mem_of_lookup hst) h)

/-- The stored selectors are what the history says: the last `add` of an id that
was not deleted since. -/
theorem ridx_lookup_add (st : RIdxS) (id : Nat) (n : Node) (x : Nat) :
    lookup x (st.addSelector id n).sels = if id = x then some n else lookup x st.sels := by
  rw [addSelector_eq, sels_file]
  simp only [lookup_insert]
  by_cases h : id = x
  · simp [h]
  · simp only [h, if_false]
    unfold RIdxS.deleteSelector
    cases hl : lookup id st.sels with
    | none => rfl
    | some m =>
      simp only [sels_unfile, lookup_erase]
      have : ¬ x = id := fun e => h e.symm
      simp [this]

theorem ridx_lookup_delete (st : RIdxS) (id : Nat) (x : Nat) :
    lookup x (st.deleteSelector id).sels = if x = id then none else lookup x st.sels := by
  unfold RIdxS.deleteSelector
  cases hl : lookup id st.sels with
  | none =>
    by_cases h : x = id
    · subst h; simp [hl]
    · simp [h]
  | some m => simp only [sels_unfile, lookup_erase]

/-- For parser-built (well-formed) selectors, equal canonical text means equal
selector — so the model's text comparison in `updateSelector` is the comparison
`Selector.Equal` makes (up to hash collisions). -/
theorem selector_equal_iff {a b : Node} (ha : WF a) (hb : WF b) : a.text = b.text ↔ a = b := by
  constructor
  · intro h
    have e1 := parse_text a ha
    have e2 := parse_text b hb
    rw [h, e2] at e1
    injection e1 with e1
    exact e1.symm
  · rintro rfl; rfl

/-! ### non-vacuity -/

/-- a history exercising replacement and clean-up of the nested maps. -/
def rhistory : List ROp :=
  [.add 1 (.eq ['a'] ['x']), .add 2 (.has ['a']), .add 3 (.ne ['b'] ['y']), .add 1 (.inSet ['a'] [['y'], ['z']]),
   .delete 2]
example : (runR rhistory).potentialMatches [(['a'], ['y'])] = [1, 3] := by decide
example : (runR rhistory).potentialMatches [(['a'], ['x'])] = [3] := by decide
example : (runR (rhistory ++ [.delete 1])).byLabel.length = 0 := by decide

/-- `a == "x" && has(b)`: both labels restricted; pruned for an item without `a=x`. -/
def selAB : Node := .and [.eq ['a'] ['x'], .has ['b']]
example : restrictions selAB =
    [(['b'], { mustBePresent := true }), (['a'], { mustBePresent := true, values := some [['x']] })] := by decide
example : isCandidate selAB [(['a'], ['y']), (['b'], ['z'])] = false := by decide
example : isCandidate selAB [(['a'], ['x'])] = true := by decide
/-- an unsatisfiable selector is never a candidate. -/
example : isCandidate (.and [.eq ['a'] ['x'], .eq ['a'] ['y']]) [(['a'], ['x'])] = false := by decide


def selA : Node := .eq ['a'] ['x']
def history : List Op :=
  [.updateSelector 0 selA, .updateLabels 7 [] [['p']], .updateParentLabels ['p'] [(['a'], ['x'])],
   .updateLabels 7 [(['a'], ['y'])] [['p']], .deleteParentLabels ['p']]

/-- the item inherits `a=x` from profile `p` (start), then its own `a=y` overrides it (stop). -/
example : (run history).2 = [.started 0 7, .stopped 0 7] := by decide
example : (run history).1.matched = [] := by decide
example : (run (history.take 3)).1.matched = [(0, 7)] := by decide

end CalicoVerif.C07
