import CalicoVerif.Model.C07
/-!
C07 — Indexed selector matching equals direct selector evaluation.
-/
namespace CalicoVerif.C07
open CalicoVerif.C06

/-- `storeMatch` emits a start exactly when the pair was not matching. -/
theorem storeMatch_events (ms : List (Nat × Nat)) (s i : Nat) :
    (storeMatch ms s i).2 = if hasMatch ms s i then [] else [Event.started s i] := by
  unfold storeMatch; split <;> rfl

end CalicoVerif.C07
