import CalicoVerif.Model.C04
namespace CalicoVerif.C04
end CalicoVerif.C04
