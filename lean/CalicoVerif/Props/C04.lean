import CalicoVerif.Proofs.C04
/-!
C04 — IP set contents equal the addresses selected by the rule.

Property theorems over the model `CalicoVerif/Model/C04.lean` of
`felix/labelindex/named_port_index.go` (+ ipsetmember, overlap suppressor).

What is proved here (for ALL states reachable by ANY sequence of the refcount
transitions the index performs — `incref`, `decref`, whole `scanEndpointAgainstIPSets`
passes — from any well-formed state, in both suppressor modes):

* callbacks alternate and each member is held once (`members_once_and_alternate`);
* without suppression the consumer holds exactly the members with a positive reference
  count (`noop_members_eq_refcounted`);
* with suppression the consumer holds an antichain (`suppressed_antichain`) that covers
  exactly the addresses of the reference-counted CIDRs (`suppressed_cover_eq`), and the
  suppressor's trie holds exactly the reference-counted CIDRs.

What is NOT proved (and therefore carries the `_partial` suffix on the history theorem):
that the reference counts equal the number of contributions of the endpoints whose labels
match (`refcount = Σ contrib`), and that the composite operations (`UpdateIPSet`, …) only
issue transitions whose guards hold.  Both are tied to the real code by the correspondence
harness (refcount maps, match caches and trie contents compared line by line) and by the
from-scratch oracle on the real index.

Also recorded: a history on which the real index PANICS (`dup_profile_id_panics`).
-/
namespace CalicoVerif.C04

set_option linter.unusedSectionVars false
variable {Sel : Type} [DecidableEq Sel]

/-! ### what a well-formed state guarantees -/

theorem replayFrom_nodup {d d' : Down} {es : List Event} (h : replayFrom d es = some d') (nd : d.Nodup) :
    d'.Nodup := by
  induction es generalizing d with
  | nil => simp [replayFrom] at h; subst h; exact nd
  | cons e es ih =>
    simp only [replayFrom] at h
    cases he : applyEvent d e with
    | none => rw [he] at h; cases h
    | some d1 =>
      rw [he] at h
      apply ih h
      cases e with
      | added s m =>
        simp only [applyEvent] at he
        split at he
        · cases he
        · cases he; exact List.nodup_cons.2 ⟨by assumption, nd⟩
      | removed s m =>
        simp only [applyEvent] at he
        split at he
        · cases he; exact nd.filter _
        · cases he
      | cleared s =>
        simp only [applyEvent] at he
        cases he; exact nd.filter _

/-- **Callbacks alternate, each member once.**  The strict replay of every callback made so
far succeeds (no add of a member the consumer holds, no removal of one it lacks), the
consumer holds each member once, and what it holds is exactly the visible members. -/
theorem members_once_and_alternate {st : Idx Sel} (h : WF st) :
    ∃ D, replay st.out = some D ∧ D.Nodup ∧ ∀ s m, (s, m) ∈ D ↔ visible st s m := by
  obtain ⟨D, hD, hm⟩ := h.e.down
  exact ⟨D, hD, replayFrom_nodup hD List.nodup_nil, hm⟩

/-- Without overlap suppression: the consumer holds exactly the members whose reference
count is positive (named-port members included). -/
theorem noop_members_eq_refcounted {st : Idx Sel} (h : WF st) (hs : st.suppress = false) :
    ∃ D, replay st.out = some D ∧ ∀ s m, (s, m) ∈ D ↔ 0 < refCount st s m := by
  obtain ⟨D, hD, hm⟩ := h.e.down
  exact ⟨D, hD, fun s m => by rw [hm, visible_noop hs]⟩

/-- Named-port (address, protocol, port) members are never suppressed, in either mode. -/
theorem named_port_members_eq_refcounted {st : Idx Sel} (h : WF st) :
    ∃ D, replay st.out = some D ∧
      ∀ s v a po pr, (s, Member.ipp v a po pr) ∈ D ↔ 0 < refCount st s (.ipp v a po pr) := by
  obtain ⟨D, hD, hm⟩ := h.e.down
  exact ⟨D, hD, fun s v a po pr => by rw [hm, visible_ipp]⟩

/-- With suppression no emitted member lies inside another emitted member. -/
theorem suppressed_antichain {st : Idx Sel} (h : WF st) (hs : st.suppress = true) :
    ∃ D, replay st.out = some D ∧
      ∀ s a b, (s, Member.cidr a) ∈ D → (s, Member.cidr b) ∈ D → a.sc b = false := by
  obtain ⟨D, hD, hm⟩ := h.e.down
  refine ⟨D, hD, fun s a b ha hb => ?_⟩
  exact ((hm s _).1 hb).2 hs b rfl a ((hm s _).1 ha).1

/-- every reference-counted CIDR is equal to or inside an emitted one -/
theorem refcounted_covered {st : Idx Sel} (s : String) :
    ∀ (n : Nat) (c : Cidr), c.len = n → 0 < refCount st s (.cidr c) →
      ∃ c', visible st s (.cidr c') ∧ (c' = c ∨ c'.sc c = true) := by
  intro n
  induction n using Nat.strongRecOn with
  | _ n ih =>
    intro c hn hc
    by_cases hv : visible st s (.cidr c)
    · exact ⟨c, hv, Or.inl rfl⟩
    · unfold visible at hv
      simp only [hc, true_and] at hv
      have : ∃ c', 0 < refCount st s (.cidr c') ∧ c'.sc c = true := by
        apply Classical.byContradiction
        intro hne
        apply hv
        intro _ c0 hc0 c' hc'
        cases hc0
        cases hsc : c'.sc c
        · rfl
        · exact absurd ⟨c', hc', hsc⟩ hne
      obtain ⟨c', hc', hsc⟩ := this
      have hlt : c'.len < n := by rw [← hn]; exact (Cidr.sc_iff.1 hsc).2.1
      obtain ⟨c'', hv'', hor⟩ := ih c'.len hlt c' rfl hc'
      refine ⟨c'', hv'', Or.inr ?_⟩
      rcases hor with rfl | h
      · exact hsc
      · exact Cidr.sc_trans h hsc

/-- With suppression the emitted members cover exactly the addresses covered by the
reference-counted CIDRs of the set. -/
theorem suppressed_cover_eq {st : Idx Sel} (h : WF st) :
    ∃ D, replay st.out = some D ∧
      ∀ s (v6 : Bool) (x : Nat),
        (∃ c, (s, Member.cidr c) ∈ D ∧ c.v6 = v6 ∧ c.hasAddr x) ↔
        (∃ c, 0 < refCount st s (.cidr c) ∧ c.v6 = v6 ∧ c.hasAddr x) := by
  obtain ⟨D, hD, hm⟩ := h.e.down
  refine ⟨D, hD, fun s v6 x => ?_⟩
  constructor
  · rintro ⟨c, hc, hv, hx⟩
    exact ⟨c, ((hm s _).1 hc).1, hv, hx⟩
  · rintro ⟨c, hc, hv, hx⟩
    obtain ⟨c', hv', hor⟩ := refcounted_covered (st := st) s c.len c rfl hc
    refine ⟨c', (hm s _).2 hv', ?_⟩
    rcases hor with rfl | hsc
    · exact ⟨hv, hx⟩
    · exact ⟨(Cidr.sc_iff.1 hsc).1.trans hv, Cidr.hasAddr_of_sc hsc hx⟩

/-- With suppression the trie holds exactly the reference-counted CIDRs, so the suppressor is
only ever asked to add absent and remove present CIDRs. -/
theorem suppressor_trie_eq_refcounted {st : Idx Sel} (h : WF st) (hs : st.suppress = true) (s : String)
    (c : Cidr) : c ∈ trieOf st s ↔ 0 < refCount st s (.cidr c) := h.e.trie hs s c

/-! ### every refcount transition keeps the invariants -/

/-- The refcount transitions the index performs. `scan` is a whole
`scanEndpointAgainstIPSets(epData, oldContributions)` pass. -/
inductive Prim where
  | inc (s : String) (m : Member)
  | dec (s : String) (m : Member)
  | scan (e : EpData) (old : List (String × List Member))

/-- CIDRs entering the index are canonical (they come from `ip.CIDRFrom…`). -/
def Prim.canon : Prim → Prop
  | .inc _ m => ∀ c, m = .cidr c → c.canon
  | .dec _ _ => True
  | .scan e _ => ∀ c ∈ e.nets, c.canon

def stepPrim (matchSel : Sel → Labels → Bool) (st : Idx Sel) : Prim → Idx Sel
  | .inc s m => incref s m st
  | .dec s m => decref s m st
  | .scan e old => (scanEp matchSel e old st).1

/-- For every sequence of refcount transitions (any order, any members, including
decrements that hit zero, re-adds, nested and duplicate CIDRs) from a well-formed state:
either a flag went up (Go panic on a missing set / uint64 refcount wrap — both are
bookkeeping errors of the CALLER of these transitions) or every invariant above still
holds.  `_partial`: see the file header for what is not proved. -/
theorem refcount_transitions_keep_invariants_partial (matchSel : Sel → Labels → Bool)
    (ops : List Prim) (st : Idx Sel) (hg : Good st) (hc : ∀ op ∈ ops, op.canon) :
    Good (ops.foldl (stepPrim matchSel) st) := by
  induction ops generalizing st with
  | nil => exact hg
  | cons op ops ih =>
    rw [List.foldl_cons]
    apply ih _ _ (fun o ho => hc o (List.mem_cons_of_mem _ ho))
    have hop := hc op (List.mem_cons_self ..)
    cases op with
    | inc s m => exact incref_good hg hop
    | dec s m => exact decref_good hg
    | scan e old => exact (scanEp_good matchSel hg hop).1

/-- A raised flag is never lowered by a transition. -/
theorem flags_sticky (matchSel : Sel → Labels → Bool) (ops : List Prim) (st : Idx Sel)
    (hb : bad st = true) : bad (ops.foldl (stepPrim matchSel) st) = true := by
  induction ops generalizing st with
  | nil => exact hb
  | cons op ops ih =>
    rw [List.foldl_cons]
    apply ih
    cases op with
    | inc s m => exact (incref_frame s m st).badMono hb
    | dec s m => exact (decref_frame s m st).badMono hb
    | scan e old => exact (scanEp_frame matchSel e old st).badMono hb

/-! ### non-vacuity -/

theorem refCount_nil_refc (st : Idx Sel) (h : ∀ p ∈ st.ipsets, p.2.refc = []) (s : String) (m : Member) :
    refCount st s m = 0 := by
  unfold refCount
  cases hg : alGet s st.ipsets with
  | none => rfl
  | some d =>
    have := h _ (alGet_some_mem hg)
    simp only at this
    simp [refOf, this]

/-- A state with empty refcount maps, no callbacks yet and empty tries is well-formed (in
particular the fresh index, and a fresh index with any IP sets registered). -/
theorem wf_of_empty (st : Idx Sel) (h : ∀ p ∈ st.ipsets, p.2.refc = []) (ho : st.out = [])
    (ht : st.tries = []) (he : st.eps = []) (hk : (st.ipsets.map (·.1)).Nodup) : WF st := by
  have hz := refCount_nil_refc st h
  refine ⟨⟨⟨[], by rw [ho]; rfl, fun s m => ?_⟩, ?_, ?_, ?_⟩, ?_, hk, ?_⟩
  · simp [visible, hz]
  · intro _ s c; simp [trieOf, ht, hz]
  · intro s; simp [trieOf, ht]
  · intro s c hc; rw [hz] at hc; cases hc
  · intro p hp; rw [he] at hp; cases hp
  · intro p hp; rw [h p hp]; simp

theorem wf_new (b : Bool) : WF (Idx.new Sel b) :=
  wf_of_empty _ (fun p hp => by cases hp) rfl rfl rfl List.nodup_nil

/-- a fresh suppressing index with one selector IP set `s` -/
def exIdx : Idx Nat :=
  { Idx.new Nat true with ipsets := [("s", { sel := 0, proto := 0, port := "", refc := [] })] }

example : WF exIdx :=
  wf_of_empty _ (fun p hp => by simp [exIdx] at hp; subst hp; rfl) rfl rfl rfl (by simp [exIdx])

def ex24 : Member := .cidr { v6 := false, addr := 167772160, len := 24 }   -- 10.0.0.0/24
def ex32 : Member := .cidr { v6 := false, addr := 167772161, len := 32 }   -- 10.0.0.1/32

/-- hypotheses of the history theorem are satisfiable by a non-trivial history: add the /32,
then the /24 that masks it, then remove the /24 again. -/
example : ∀ op ∈ [Prim.inc "s" ex32, .inc "s" ex24, .inc "s" ex24, .dec "s" ex24, .dec "s" ex24], op.canon := by
  intro op hop
  simp only [List.mem_cons, List.not_mem_nil, or_false] at hop
  rcases hop with rfl | rfl | rfl | rfl | rfl <;>
    first
      | trivial
      | (intro c hc; simp only [ex32, ex24, Member.cidr.injEq] at hc; subst hc; decide)

/-- … and on it the model emits: add /32; add /24 and remove the now-masked /32; nothing for
the duplicate add and the first decrement; then remove /24 and re-add /32. -/
example :
    ([Prim.inc "s" ex32, .inc "s" ex24, .inc "s" ex24, .dec "s" ex24, .dec "s" ex24].foldl
      (stepPrim (fun _ _ => true)) exIdx).out =
    [.added "s" ex32, .added "s" ex24, .removed "s" ex32, .removed "s" ex24, .added "s" ex32] := by
  decide

/-! ### a history on which the real index panics -/

/-- **Finding.** An endpoint that lists the same profile id twice makes `DeleteEndpoint` (and any
`UpdateEndpointOrSet` that drops that profile) panic with "discard of unknown ID" when no other
endpoint uses the profile: the clean-up loop discards the endpoint id once per occurrence.
Reproduced on the real index by the harness (oracle signature `panic-dup-profile-id`). -/
theorem dup_profile_id_panics :
    (run (fun (_ : Nat) _ => true) (Idx.new Nat false)
      [.updateEndpoint "w1" [] [] [] ["p1", "p1"], .deleteEndpoint "w1"]).panicked = true := by
  decide

/-- With duplicate-free profile lists the same history does not panic. -/
example :
    (run (fun (_ : Nat) _ => true) (Idx.new Nat false)
      [.updateEndpoint "w1" [] [] [] ["p1", "p2"], .deleteEndpoint "w1"]).panicked = false := by
  decide

end CalicoVerif.C04
