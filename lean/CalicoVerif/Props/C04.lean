import CalicoVerif.Proofs.C04Tables
/-!
C04 — IP set contents equal the addresses selected by the rule.

Property theorems over the model `CalicoVerif/Model/C04.lean` of
`felix/labelindex/named_port_index.go` (+ ipsetmember, overlap suppressor).

Full statement (`ipset_members_eq_spec`): for EVERY history of index operations from a fresh
index — IP sets added / changed in place / removed, endpoints and network sets added / updated /
deleted, profile labels set / deleted, in any order, with shared IPs, nested and duplicate CIDRs,
named ports, and any Go map iteration order (`perm…` ops) — in both suppressor modes, every
callback alternates, the consumer holds each member once, and holds exactly the members
contributed by the endpoints whose effective labels match the set's selector (with suppression:
minus CIDRs strictly inside another contributed CIDR).  `refcount_eq_card`: reference counts
count contributions.  `suppressed_cover_eq_spec`: antichain + same covered addresses.
Hypothesis `Op.ok`: CIDRs canonical (true of every `ip.CIDRFrom…`).  Profile-id lists may repeat ids
(`UpdateEndpointOrSet` lists each parent once since /repo c40ff03: `dup_profile_id_no_panic`,
`repeated_profile_ids_same_as_deduplicated`).

The emission-layer theorems (`members_once_and_alternate` … `suppressor_trie_eq_refcounted`,
`refcount_transitions_keep_invariants_partial`) are the layer the full statement is built on.
Selector evaluation is the parameter `matchSel`; scan strategies and the trie are abstracted as
described in the model header.
-/
namespace CalicoVerif.C04

set_option linter.unusedSectionVars false
variable {Sel : Type} [DecidableEq Sel]

/-! ### what a well-formed state guarantees -/

theorem replayFrom_nodup {d d' : Down} {es : List Event} (h : replayFrom d es = some d') (nd : d.Nodup) :
    d'.Nodup := by
  induction es generalizing d with
  | nil => simp [replayFrom] at h; subst h; exact nd
  | cons e es ih =>
    simp only [replayFrom] at h
    cases he : applyEvent d e with
    | none => rw [he] at h; cases h
    | some d1 =>
      rw [he] at h
      apply ih h
      cases e with
      | added s m =>
        simp only [applyEvent] at he
        split at he
        · cases he
        · cases he; exact List.nodup_cons.2 ⟨by assumption, nd⟩
      | removed s m =>
        simp only [applyEvent] at he
        split at he
        · cases he; exact nd.filter _
        · cases he
      | cleared s =>
        simp only [applyEvent] at he
        cases he; exact nd.filter _

/-- **Callbacks alternate, each member once.**  The strict replay of every callback made so
far succeeds (no add of a member the consumer holds, no removal of one it lacks), the
consumer holds each member once, and what it holds is exactly the visible members. -/
theorem members_once_and_alternate {st : Idx Sel} (h : WF st) :
    ∃ D, replay st.out = some D ∧ D.Nodup ∧ ∀ s m, (s, m) ∈ D ↔ visible st s m := by
  obtain ⟨D, hD, hm⟩ := h.e.down
  exact ⟨D, hD, replayFrom_nodup hD List.nodup_nil, hm⟩

/-- Without overlap suppression: the consumer holds exactly the members whose reference
count is positive (named-port members included). -/
theorem noop_members_eq_refcounted {st : Idx Sel} (h : WF st) (hs : st.suppress = false) :
    ∃ D, replay st.out = some D ∧ ∀ s m, (s, m) ∈ D ↔ 0 < refCount st s m := by
  obtain ⟨D, hD, hm⟩ := h.e.down
  exact ⟨D, hD, fun s m => by rw [hm, visible_noop hs]⟩

/-- Named-port (address, protocol, port) members are never suppressed, in either mode. -/
theorem named_port_members_eq_refcounted {st : Idx Sel} (h : WF st) :
    ∃ D, replay st.out = some D ∧
      ∀ s v a po pr, (s, Member.ipp v a po pr) ∈ D ↔ 0 < refCount st s (.ipp v a po pr) := by
  obtain ⟨D, hD, hm⟩ := h.e.down
  exact ⟨D, hD, fun s v a po pr => by rw [hm, visible_ipp]⟩

/-- With suppression no emitted member lies inside another emitted member. -/
theorem suppressed_antichain {st : Idx Sel} (h : WF st) (hs : st.suppress = true) :
    ∃ D, replay st.out = some D ∧
      ∀ s a b, (s, Member.cidr a) ∈ D → (s, Member.cidr b) ∈ D → a.sc b = false := by
  obtain ⟨D, hD, hm⟩ := h.e.down
  refine ⟨D, hD, fun s a b ha hb => ?_⟩
  exact ((hm s _).1 hb).2 hs b rfl a ((hm s _).1 ha).1

/-- every reference-counted CIDR is equal to or inside an emitted one -/
theorem refcounted_covered {st : Idx Sel} (s : String) :
    ∀ (n : Nat) (c : Cidr), c.len = n → 0 < refCount st s (.cidr c) →
      ∃ c', visible st s (.cidr c') ∧ (c' = c ∨ c'.sc c = true) := by
  intro n
  induction n using Nat.strongRecOn with
  | _ n ih =>
    intro c hn hc
    by_cases hv : visible st s (.cidr c)
    · exact ⟨c, hv, Or.inl rfl⟩
    · unfold visible at hv
      simp only [hc, true_and] at hv
      have : ∃ c', 0 < refCount st s (.cidr c') ∧ c'.sc c = true := by
        apply Classical.byContradiction
        intro hne
        apply hv
        intro _ c0 hc0 c' hc'
        cases hc0
        cases hsc : c'.sc c
        · rfl
        · exact absurd ⟨c', hc', hsc⟩ hne
      obtain ⟨c', hc', hsc⟩ := this
      have hlt : c'.len < n := by rw [← hn]; exact (Cidr.sc_iff.1 hsc).2.1
      obtain ⟨c'', hv'', hor⟩ := ih c'.len hlt c' rfl hc'
      refine ⟨c'', hv'', Or.inr ?_⟩
      rcases hor with rfl | h
      · exact hsc
      · exact Cidr.sc_trans h hsc

/-- With suppression the emitted members cover exactly the addresses covered by the
reference-counted CIDRs of the set. -/
theorem suppressed_cover_eq {st : Idx Sel} (h : WF st) :
    ∃ D, replay st.out = some D ∧
      ∀ s (v6 : Bool) (x : Nat),
        (∃ c, (s, Member.cidr c) ∈ D ∧ c.v6 = v6 ∧ c.hasAddr x) ↔
        (∃ c, 0 < refCount st s (.cidr c) ∧ c.v6 = v6 ∧ c.hasAddr x) := by
  obtain ⟨D, hD, hm⟩ := h.e.down
  refine ⟨D, hD, fun s v6 x => ?_⟩
  constructor
  · rintro ⟨c, hc, hv, hx⟩
    exact ⟨c, ((hm s _).1 hc).1, hv, hx⟩
  · rintro ⟨c, hc, hv, hx⟩
    obtain ⟨c', hv', hor⟩ := refcounted_covered (st := st) s c.len c rfl hc
    refine ⟨c', (hm s _).2 hv', ?_⟩
    rcases hor with rfl | hsc
    · exact ⟨hv, hx⟩
    · exact ⟨(Cidr.sc_iff.1 hsc).1.trans hv, Cidr.hasAddr_of_sc hsc hx⟩

/-- With suppression the trie holds exactly the reference-counted CIDRs, so the suppressor is
only ever asked to add absent and remove present CIDRs. -/
theorem suppressor_trie_eq_refcounted {st : Idx Sel} (h : WF st) (hs : st.suppress = true) (s : String)
    (c : Cidr) : c ∈ trieOf st s ↔ 0 < refCount st s (.cidr c) := h.e.trie hs s c

/-! ### every refcount transition keeps the invariants -/

/-- The refcount transitions the index performs. `scan` is a whole
`scanEndpointAgainstIPSets(epData, oldContributions)` pass. -/
inductive Prim where
  | inc (s : String) (m : Member)
  | dec (s : String) (m : Member)
  | scan (e : EpData) (old : List (String × List Member))

/-- CIDRs entering the index are canonical (they come from `ip.CIDRFrom…`). -/
def Prim.canon : Prim → Prop
  | .inc _ m => ∀ c, m = .cidr c → c.canon
  | .dec _ _ => True
  | .scan e _ => ∀ c ∈ e.nets, c.canon

def stepPrim (matchSel : Sel → Labels → Bool) (st : Idx Sel) : Prim → Idx Sel
  | .inc s m => incref s m st
  | .dec s m => decref s m st
  | .scan e old => (scanEp matchSel e old st).1

/-- For every sequence of refcount transitions (any order, any members, including
decrements that hit zero, re-adds, nested and duplicate CIDRs) from a well-formed state:
either a flag went up (Go panic on a missing set / uint64 refcount wrap — both are
bookkeeping errors of the CALLER of these transitions) or every invariant above still
holds.  `_partial`: see the file header for what is not proved. -/
theorem refcount_transitions_keep_invariants_partial (matchSel : Sel → Labels → Bool)
    (ops : List Prim) (st : Idx Sel) (hg : Good st) (hc : ∀ op ∈ ops, op.canon) :
    Good (ops.foldl (stepPrim matchSel) st) := by
  induction ops generalizing st with
  | nil => exact hg
  | cons op ops ih =>
    rw [List.foldl_cons]
    apply ih _ _ (fun o ho => hc o (List.mem_cons_of_mem _ ho))
    have hop := hc op (List.mem_cons_self ..)
    cases op with
    | inc s m => exact incref_good hg hop
    | dec s m => exact decref_good hg
    | scan e old => exact (scanEp_good matchSel hg hop).1

/-- A raised flag is never lowered by a transition. -/
theorem flags_sticky (matchSel : Sel → Labels → Bool) (ops : List Prim) (st : Idx Sel)
    (hb : bad st = true) : bad (ops.foldl (stepPrim matchSel) st) = true := by
  induction ops generalizing st with
  | nil => exact hb
  | cons op ops ih =>
    rw [List.foldl_cons]
    apply ih
    cases op with
    | inc s m => exact (incref_frame s m st).badMono hb
    | dec s m => exact (decref_frame s m st).badMono hb
    | scan e old => exact (scanEp_frame matchSel e old st).badMono hb

/-! ### non-vacuity -/

theorem refCount_nil_refc (st : Idx Sel) (h : ∀ p ∈ st.ipsets, p.2.refc = []) (s : String) (m : Member) :
    refCount st s m = 0 := by
  unfold refCount
  cases hg : alGet s st.ipsets with
  | none => rfl
  | some d =>
    have := h _ (alGet_some_mem hg)
    simp only at this
    simp [refOf, this]

/-- A state with empty refcount maps, no callbacks yet and empty tries is well-formed (in
particular the fresh index, and a fresh index with any IP sets registered). -/
theorem wf_of_empty (st : Idx Sel) (h : ∀ p ∈ st.ipsets, p.2.refc = []) (ho : st.out = [])
    (ht : st.tries = []) (he : st.eps = []) (hk : (st.ipsets.map (·.1)).Nodup) : WF st := by
  have hz := refCount_nil_refc st h
  refine ⟨⟨⟨[], by rw [ho]; rfl, fun s m => ?_⟩, ?_, ?_, ?_⟩, ?_, hk, ?_⟩
  · simp [visible, hz]
  · intro _ s c; simp [trieOf, ht, hz]
  · intro s; simp [trieOf, ht]
  · intro s c hc; rw [hz] at hc; cases hc
  · intro p hp; rw [he] at hp; cases hp
  · intro p hp; rw [h p hp]; simp

theorem wf_new (b : Bool) : WF (Idx.new Sel b) :=
  wf_of_empty _ (fun p hp => by cases hp) rfl rfl rfl List.nodup_nil

/-- a fresh suppressing index with one selector IP set `s` -/
def exIdx : Idx Nat :=
  { Idx.new Nat true with ipsets := [("s", { sel := 0, proto := 0, port := "", refc := [] })] }

example : WF exIdx :=
  wf_of_empty _ (fun p hp => by simp [exIdx] at hp; subst hp; rfl) rfl rfl rfl (by simp [exIdx])

def ex24 : Member := .cidr { v6 := false, addr := 167772160, len := 24 }   -- 10.0.0.0/24
def ex32 : Member := .cidr { v6 := false, addr := 167772161, len := 32 }   -- 10.0.0.1/32

/-- hypotheses of the history theorem are satisfiable by a non-trivial history: add the /32,
then the /24 that masks it, then remove the /24 again. -/
example : ∀ op ∈ [Prim.inc "s" ex32, .inc "s" ex24, .inc "s" ex24, .dec "s" ex24, .dec "s" ex24], op.canon := by
  intro op hop
  simp only [List.mem_cons, List.not_mem_nil, or_false] at hop
  rcases hop with rfl | rfl | rfl | rfl | rfl <;>
    first
      | trivial
      | (intro c hc; simp only [ex32, ex24, Member.cidr.injEq] at hc; subst hc; decide)

/-- … and on it the model emits: add /32; add /24 and remove the now-masked /32; nothing for
the duplicate add and the first decrement; then remove /24 and re-add /32. -/
example :
    ([Prim.inc "s" ex32, .inc "s" ex24, .inc "s" ex24, .dec "s" ex24, .dec "s" ex24].foldl
      (stepPrim (fun _ _ => true)) exIdx).out =
    [.added "s" ex32, .added "s" ex24, .removed "s" ex32, .removed "s" ex24, .added "s" ex32] := by
  decide

/-! ### what `contrib` is, stated independently of `CalculateEndpointContribution`'s code -/

theorem protoFrom_cases (p : PortProto) : protoFrom p = protoUDP ∨ protoFrom p = protoSCTP ∨ protoFrom p = protoTCP := by
  unfold protoFrom
  split
  · exact Or.inl rfl
  · split
    · exact Or.inr (Or.inl rfl)
    · exact Or.inr (Or.inr rfl)

/-- **Characterisation of an endpoint's contribution.**  For a plain selector set (no named port)
the members are exactly the endpoint's / network set's CIDRs.  For a named-port set with protocol
`P` and port name `N` they are exactly the triples (address of one of its nets, L4 protocol, port
number) for each of its named ports whose name is `N` and whose protocol is accepted for `P`
(`protoMatches`: TCP/UDP/SCTP by number or case-insensitive name; an unspecified numeric protocol
only for `Any`); the member's protocol is `protoFrom` of the port's protocol (UDP, SCTP, else TCP). -/
theorem mem_contrib_iff (e : EpData) (d : IpSetData Sel) (m : Member) :
    m ∈ contrib e d ↔
      if d.proto = protoNone then ∃ c ∈ e.nets, m = .cidr c
      else ∃ p ∈ e.ports, p.name = d.port ∧ protoMatches d.proto p.proto = true ∧
        ∃ c ∈ e.nets, m = .ipp c.v6 c.addr p.port (protoFrom p.proto) := by
  unfold contrib lookupNamedPorts
  by_cases hp : d.proto = protoNone
  · simp only [hp, ne_eq, not_true_eq_false, if_false, if_true, List.mem_map]
    constructor
    · rintro ⟨c, hc, rfl⟩; exact ⟨c, hc, rfl⟩
    · rintro ⟨c, hc, rfl⟩; exact ⟨c, hc, rfl⟩
  · simp only [hp, ne_eq, not_false_eq_true, if_true, if_false, List.mem_flatMap, List.mem_filterMap, List.mem_map]
    have hmk : ∀ (c : Cidr) (p : Port), mkIPPortProto c.v6 c.addr p.port (protoFrom p.proto) =
        .ipp c.v6 c.addr p.port (protoFrom p.proto) := by
      intro c p
      unfold mkIPPortProto
      have : ¬ (p.port = 0 ∧ protoFrom p.proto = protoNone) := by
        rintro ⟨_, h⟩
        rcases protoFrom_cases p.proto with h' | h' | h' <;> rw [h'] at h <;> cases h
      simp only [this, if_false]
    constructor
    · rintro ⟨pp, ⟨p, hp1, hp2⟩, c, hc, rfl⟩
      split at hp2
      · rename_i hcond
        cases hp2
        exact ⟨p, hp1, hcond.1, hcond.2, c, hc, hmk c p⟩
      · cases hp2
    · rintro ⟨p, hp1, hn, hm, c, hc, rfl⟩
      refine ⟨(protoFrom p.proto, p.port), ⟨p, hp1, ?_⟩, c, hc, hmk c p⟩
      simp [hn, hm]

/-! ### the full statement over all histories -/

theorem sumBy_pos {α : Type} {f : α → Nat} {l : List α} (h : 0 < sumBy f l) : ∃ p ∈ l, 0 < f p := by
  induction l with
  | nil => simp at h
  | cons a l ih =>
    rw [sumBy_cons] at h
    by_cases ha : 0 < f a
    · exact ⟨a, List.mem_cons_self .., ha⟩
    · obtain ⟨p, hp, hf⟩ := ih (by omega)
      exact ⟨p, List.mem_cons_of_mem _ hp, hf⟩

/-- In a state satisfying the invariant, a member has a positive reference count iff some
matching endpoint contributes it. -/
theorem refcounted_iff_contributed {matchSel : Sel → Labels → Bool} {st : Idx Sel} (h : Inv matchSel st)
    (s : String) (m : Member) : 0 < refCount st s m ↔ contributed matchSel st s m := by
  rw [h.core.refc]
  constructor
  · intro hpos
    obtain ⟨p, hp, hterm⟩ := sumBy_pos hpos
    unfold term at hterm
    by_cases hc : s ∈ p.2.cached
    · simp only [hc, if_true] at hterm
      have hm := (h.lab p hp s).1 hc
      have hmem : m ∈ contribAt st p.2 s := List.count_pos_iff.1 hterm
      unfold matchAt at hm
      unfold contribAt at hmem
      cases hd : alGet s st.ipsets with
      | none => rw [hd] at hm; cases hm
      | some d =>
        rw [hd] at hm hmem
        exact ⟨p, hp, d, hd, hm, hmem⟩
    · simp [hc] at hterm
  · rintro ⟨p, hp, d, hd, hm, hmem⟩
    have hM : matchAt matchSel st p.2 s = true := by unfold matchAt; rw [hd]; exact hm
    have hC : contribAt st p.2 s = contrib p.2 d := by unfold contribAt; rw [hd]
    have hc : s ∈ p.2.cached := (h.lab p hp s).2 hM (by rw [hC]; intro h0; rw [h0] at hmem; cases hmem)
    have : 0 < term st s m p := by
      unfold term; simp only [hc, if_true, hC]; exact List.count_pos_iff.2 hmem
    exact Nat.lt_of_lt_of_le this (le_sumBy _ hp)

theorem inv_new (matchSel : Sel → Labels → Bool) (b : Bool) : Inv matchSel (Idx.new Sel b) :=
  ⟨⟨wf_new b, rfl, List.nodup_nil, fun p hp => (by cases hp), fun p hp => (by cases hp), fun p hp => (by cases hp),
    fun s m => (by simp [Idx.new, refCount])⟩, fun p hp => (by cases hp)⟩

/-- **C04, full statement.**  For EVERY history of index operations from a fresh index (IP sets
added / changed in place / removed, endpoints and network sets added / updated / deleted,
profile labels set / deleted, in any order, with shared IPs, nested and duplicate CIDRs, named
ports, and any Go map iteration order — the `perm…` operations), in both suppressor modes:
every callback alternated (strict replay succeeds), the consumer holds each member once, no Go
panic and no refcount wrap happened, and the consumer holds EXACTLY the members contributed by
the endpoints whose effective labels match the set's selector — with overlap suppression, minus
the CIDRs strictly inside another contributed CIDR. -/
theorem ipset_members_eq_spec (matchSel : Sel → Labels → Bool) (suppress : Bool) (ops : List (Op Sel))
    (hops : ∀ op ∈ ops, op.ok) :
    ∃ D, replay (run matchSel (Idx.new Sel suppress) ops).out = some D ∧ D.Nodup ∧
      (run matchSel (Idx.new Sel suppress) ops).panicked = false ∧
      (run matchSel (Idx.new Sel suppress) ops).underflow = false ∧
      ∀ s m, (s, m) ∈ D ↔ memberSpec matchSel (run matchSel (Idx.new Sel suppress) ops) s m := by
  have hinv := run_inv matchSel ops hops (inv_new matchSel suppress)
  obtain ⟨D, hD, hnd, hmem⟩ := members_once_and_alternate hinv.core.wf
  have hb := hinv.core.nb
  unfold bad at hb
  simp only [Bool.or_eq_false_iff] at hb
  refine ⟨D, hD, hnd, hb.1, hb.2, fun s m => ?_⟩
  rw [hmem]
  unfold visible memberSpec
  rw [refcounted_iff_contributed hinv]
  constructor
  · rintro ⟨h1, h2⟩
    exact ⟨h1, fun hs c hc c' hc' => h2 hs c hc c' ((refcounted_iff_contributed hinv s _).2 hc')⟩
  · rintro ⟨h1, h2⟩
    exact ⟨h1, fun hs c hc c' hc' => h2 hs c hc c' ((refcounted_iff_contributed hinv s _).1 hc')⟩

/-- **The tables the spec reads are the last values written.**  `memberSpec` / `contributed` are
stated over the state's endpoint data, parent labels and IP set configuration; along every history
from a fresh index these three tables are exactly "last writer wins" (`Tables.apply`: an update
stores the written labels / nets / ports / de-duplicated profile ids, resp. profile labels, resp.
selector / protocol / port name under its key, a deletion removes the key, nothing else changes; the
map-order permutations change nothing).  Together with `ipset_members_eq_spec` this makes the
consumer's IP sets a function of the current datastore contents only. -/
theorem input_tables_last_writer_wins (matchSel : Sel → Labels → Bool) (suppress : Bool) (ops : List (Op Sel))
    (hops : ∀ op ∈ ops, op.ok) :
    tablesOf (run matchSel (Idx.new Sel suppress) ops) =
      ops.foldl Tables.apply ⟨fun _ => none, fun _ => [], fun _ => none⟩ := by
  rw [tables_run matchSel ops hops (inv_new matchSel suppress)]
  rfl

/-- **Reference counts count contributions.**  After every history the reference count of a
member is the number of times the matching endpoints contribute it. -/
theorem refcount_eq_card (matchSel : Sel → Labels → Bool) (suppress : Bool) (ops : List (Op Sel))
    (hops : ∀ op ∈ ops, op.ok) (s : String) (m : Member) :
    refCount (run matchSel (Idx.new Sel suppress) ops) s m =
      sumBy (fun p => match alGet s (run matchSel (Idx.new Sel suppress) ops).ipsets with
        | some d => if matchSel d.sel (effLabels (run matchSel (Idx.new Sel suppress) ops) p.2) = true
            then (contrib p.2 d).count m else 0
        | none => 0) (run matchSel (Idx.new Sel suppress) ops).eps := by
  have hinv := run_inv matchSel ops hops (inv_new matchSel suppress)
  generalize run matchSel (Idx.new Sel suppress) ops = st at *
  rw [hinv.core.refc]
  apply sumBy_congr
  intro p hp
  have hok := hinv.lab p hp s
  unfold OK matchAt contribAt at hok
  unfold term contribAt
  cases hd : alGet s st.ipsets with
  | none => simp
  | some d =>
    rw [hd] at hok
    simp only at hok ⊢
    by_cases hc : s ∈ p.2.cached
    · simp [hc, hok.1 hc]
    · simp only [hc, if_false]
      by_cases hm : matchSel d.sel (effLabels st p.2) = true
      · simp only [hm, if_true]
        have : contrib p.2 d = [] := Classical.byContradiction (fun hne => hc (hok.2 hm hne))
        simp [this]
      · simp [hm]

/-- With suppression: no emitted member inside another, and the emitted CIDRs cover exactly the
addresses of the CIDRs contributed by the matching endpoints / network sets. -/
theorem suppressed_cover_eq_spec (matchSel : Sel → Labels → Bool) (ops : List (Op Sel))
    (hops : ∀ op ∈ ops, op.ok) :
    ∃ D, replay (run matchSel (Idx.new Sel true) ops).out = some D ∧
      (∀ s a b, (s, Member.cidr a) ∈ D → (s, Member.cidr b) ∈ D → a.sc b = false) ∧
      ∀ s (v6 : Bool) (x : Nat),
        (∃ c, (s, Member.cidr c) ∈ D ∧ c.v6 = v6 ∧ c.hasAddr x) ↔
        (∃ c, contributed matchSel (run matchSel (Idx.new Sel true) ops) s (.cidr c) ∧ c.v6 = v6 ∧ c.hasAddr x) := by
  have hinv := run_inv matchSel ops hops (inv_new matchSel true)
  have hsup : (run matchSel (Idx.new Sel true) ops).suppress = true := run_suppress matchSel _ ops
  obtain ⟨D, hD, hanti⟩ := suppressed_antichain hinv.core.wf hsup
  obtain ⟨D', hD', hcov⟩ := suppressed_cover_eq hinv.core.wf
  rw [hD] at hD'; cases hD'
  refine ⟨D, hD, hanti, fun s v6 x => ?_⟩
  rw [hcov]
  constructor
  · rintro ⟨c, h1, h2⟩; exact ⟨c, (refcounted_iff_contributed hinv s _).1 h1, h2⟩
  · rintro ⟨c, h1, h2⟩; exact ⟨c, (refcounted_iff_contributed hinv s _).2 h1, h2⟩

/-- non-vacuity of `ipset_members_eq_spec`: a history with an IP set, a network set with nested
CIDRs and a workload sharing one of the addresses satisfies `Op.ok` … -/
def exOps : List (Op Nat) :=
  [ .updateIPSet "s" 0 0 "",
    .updateEndpoint "n1" [] [⟨false, 167772160, 24⟩, ⟨false, 167772161, 32⟩] [] ["p1"],
    .updateEndpoint "w1" [] [⟨false, 167772161, 32⟩] [] [],
    .updateParentLabels "p1" [("a", "x")],
    .deleteEndpoint "n1" ]

example : ∀ op ∈ exOps, op.ok := by
  intro op hop
  simp only [exOps, List.mem_cons, List.not_mem_nil, or_false] at hop
  rcases hop with rfl | rfl | rfl | rfl | rfl
  · trivial
  · intro c hc
    simp only [List.mem_cons, List.not_mem_nil, or_false] at hc
    rcases hc with rfl | rfl <;> decide
  · intro c hc
    simp only [List.mem_cons, List.not_mem_nil, or_false] at hc
    rcases hc with rfl <;> decide
  · trivial
  · trivial

/-- … and with suppression the consumer ends up holding exactly 10.0.0.1/32 (the /24 masked it
while the network set existed, its removal re-exposed it; the refcount of 2 dropped to 1). -/
example : replay (run (fun _ _ => true) (Idx.new Nat true) exOps).out =
    some [("s", .cidr ⟨false, 167772161, 32⟩)] := by decide

/-! ### repeated profile ids (regression for the defect fixed in /repo c40ff03) -/

/-- Before /repo c40ff03 this history made the real index panic ("discard of unknown ID": the
clean-up loop discarded the endpoint from its parent once per occurrence of the profile id).  Now a
repeated profile id is listed once (`dedupParents`): no panic, the stored parents are `["p1"]`, and
deleting the endpoint leaves the index empty. -/
theorem dup_profile_id_no_panic :
    (run (fun (_ : Nat) _ => true) (Idx.new Nat false)
      [.updateEndpoint "w1" [] [] [] ["p1", "p1"]]).eps.map (fun p => (p.1, p.2.parents)) = [("w1", ["p1"])] ∧
    (run (fun (_ : Nat) _ => true) (Idx.new Nat false)
      [.updateEndpoint "w1" [] [] [] ["p1", "p1"], .deleteEndpoint "w1"]).panicked = false ∧
    (run (fun (_ : Nat) _ => true) (Idx.new Nat false)
      [.updateEndpoint "w1" [] [] [] ["p1", "p1"], .deleteEndpoint "w1"]).eps = [] := by
  decide

/-- In general: a profile-id list with repeats behaves exactly like its de-duplicated version. -/
theorem repeated_profile_ids_same_as_deduplicated (matchSel : Sel → Labels → Bool) (id : String) (labels : Labels)
    (nets : List Cidr) (ports : List Port) (parents : List String) (st : Idx Sel) :
    updateEndpoint matchSel id labels nets ports parents st =
      updateEndpoint matchSel id labels nets ports (dedupParents parents) st ∧
    (dedupParents parents).Nodup ∧ ∀ p, p ∈ dedupParents parents ↔ p ∈ parents := by
  refine ⟨?_, dedupParents_nodup parents, mem_dedupParents parents⟩
  unfold updateEndpoint
  congr 1
  -- de-duplicating twice changes nothing
  have : ∀ l : List String, l.Nodup → dedupParents l = l := by
    intro l
    unfold dedupParents
    have : ∀ (l acc : List String), (acc ++ l).Nodup →
        l.foldl (fun acc p => if p ∈ acc then acc else acc ++ [p]) acc = acc ++ l := by
      intro l
      induction l with
      | nil => intro acc _; simp
      | cons a l ih =>
        intro acc h
        rw [List.foldl_cons]
        have ha : a ∉ acc := by
          intro hm
          rw [List.nodup_append] at h
          exact h.2.2 a hm a (List.mem_cons_self ..) rfl
        simp only [ha, if_false]
        rw [ih (acc ++ [a]) (by simpa [List.append_assoc] using h)]
        simp [List.append_assoc]
    intro h
    have := this l [] (by simpa using h)
    simpa using this
  exact (this _ (dedupParents_nodup parents)).symm

end CalicoVerif.C04
