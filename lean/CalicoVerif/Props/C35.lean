import CalicoVerif.Model.C35
/-!
C35 — Mark-bit allocation is collision-free and reversible.
Property theorems only (helper lemmas live in `CalicoVerif.Proofs.C35`).
-/
namespace CalicoVerif.C35

theorem mem_positionsBelow {mask w p : Nat} :
    p ∈ positionsBelow mask w ↔ p < w ∧ mask.testBit p = true := by
  induction w with
  | zero => simp [positionsBelow]
  | succ w ih =>
    simp only [positionsBelow, List.mem_append, ih]
    by_cases h : mask.testBit w = true
    · simp only [h, if_true, List.mem_singleton]
      constructor
      · rintro (⟨h1, h2⟩ | rfl)
        · exact ⟨by omega, h2⟩
        · exact ⟨by omega, h⟩
      · rintro ⟨h1, h2⟩
        by_cases hp : p = w
        · exact Or.inr hp
        · exact Or.inl ⟨by omega, h2⟩
    · have hf : mask.testBit w = false := by simpa using h
      simp only [hf, Bool.false_eq_true, if_false, List.not_mem_nil, or_false]
      constructor
      · rintro ⟨h1, h2⟩; exact ⟨by omega, h2⟩
      · rintro ⟨h1, h2⟩
        have : p ≠ w := by rintro rfl; exact h h2
        exact ⟨by omega, h2⟩

/-- Every mark handed out by `nthMark` is a single bit inside the mask. -/
theorem nthMark_single_bit_in_mask {mask n m : Nat} (h : nthMark mask n = some m) :
    ∃ p, p < 32 ∧ mask.testBit p = true ∧ m = 2 ^ p := by
  unfold nthMark at h
  cases hp : (positions mask)[n]? with
  | none => simp [hp] at h
  | some p =>
    simp [hp] at h
    have hm : p ∈ positions mask := List.mem_of_getElem? hp
    have := (mem_positionsBelow).1 hm
    exact ⟨p, this.1, this.2, h.symm⟩

/-- Allocation succeeds exactly while fewer than popcount(mask) bits were handed out. -/
theorem nthMark_isSome_iff (mask n : Nat) :
    (nthMark mask n).isSome ↔ n < (positions mask).length := by
  unfold nthMark
  simp

example : nthMark 0xf0 1 = some 32 := by decide

end CalicoVerif.C35
