import CalicoVerif.Proofs.C35
/-!
C35 — Mark-bit allocation is collision-free and reversible.

Property theorems only (helper lemmas live in `CalicoVerif.Proofs.C35`).
All theorems hold for EVERY mask (any `Nat`; `NewMarkBitsManager` takes a
`uint32`, `Mgr.new` reduces modulo 2^32), every allocation history
(`List AllocOp`: any interleaving of `NextSingleBitMark` and
`NextBlockBitsMark size`), and every Go `int` number (`Int`).

`popcount mask` is the number of set bits of the mask below bit 32 (what
`NewMarkBitsManager` counts), `e.mark` the bits an allocation call handed out,
`e.count` the number of bits it reports.
-/
namespace CalicoVerif.C35

/-! ### 1. Allocation: distinct single bits inside the mask -/

/-- Over any allocation history starting from a fresh manager:
* every successful `NextSingleBitMark` returns a single bit `2^p`, `p < 32`, inside the mask;
* every `NextBlockBitsMark` returns a mark inside the mask with exactly as many
  bits as the count it reports;
* the marks returned by two different calls never share a bit. -/
theorem marks_distinct_single_bits_in_mask (mask : Nat) (ops : List AllocOp) :
    (∀ b, Event.single (some b) ∈ ((Mgr.new mask).run ops).2 →
        ∃ p, p < 32 ∧ mask.testBit p = true ∧ b = 2 ^ p) ∧
    (∀ k mark n, Event.block k mark n ∈ ((Mgr.new mask).run ops).2 →
        mark &&& (mask % 2 ^ 32) = mark ∧ popcount mark = n) ∧
    (((Mgr.new mask).run ops).2).Pairwise (fun e1 e2 => e1.mark &&& e2.mark = 0) := by
  obtain ⟨hspec, -, -, -⟩ := run_spec ops (Mgr.new mask) (Mgr.new_WF mask)
  rw [Mgr.new_rem] at hspec
  obtain ⟨hsub, hpair⟩ := specRun_disjoint ops (positions mask) (positions_sorted mask)
  rw [hspec]
  refine ⟨?_, ?_, hpair⟩
  · intro b hb
    obtain ⟨t, ht, hm⟩ := hsub _ hb
    -- a `single` event is `evOf .single (take 1 …)`: recover its position from the spec
    have : ∀ (ops : List AllocOp) (rem : List Nat), Event.single (some b) ∈ specRun rem ops →
        ∃ p ∈ rem, b = 2 ^ p := by
      intro ops
      induction ops with
      | nil => intro rem h; simp [specRun] at h
      | cons op ops ih =>
        intro rem h
        simp only [specRun, List.mem_cons] at h
        rcases h with h | h
        · cases op with
          | single =>
            cases rem with
            | nil => simp [evOf, AllocOp.size] at h
            | cons p rest =>
              simp [evOf, AllocOp.size] at h
              exact ⟨p, by simp, h⟩
          | block k => simp [evOf] at h
        · obtain ⟨p, hp, e⟩ := ih _ h
          exact ⟨p, List.mem_of_mem_drop hp, e⟩
    obtain ⟨p, hp, e⟩ := this ops _ hb
    have := mem_positions.1 hp
    exact ⟨p, this.1, this.2, e⟩
  · intro k mark n hb
    have : ∀ (ops : List AllocOp) (rem : List Nat), Event.block k mark n ∈ specRun rem ops →
        ∃ t, t.Sublist rem ∧ mark = orBits t ∧ n = t.length := by
      intro ops
      induction ops with
      | nil => intro rem h; simp [specRun] at h
      | cons op ops ih =>
        intro rem h
        simp only [specRun, List.mem_cons] at h
        rcases h with h | h
        · cases op with
          | single => simp [evOf] at h
          | block k' =>
            simp only [evOf, AllocOp.size, Event.block.injEq] at h
            exact ⟨_, List.take_sublist _ _, h.2.1, h.2.2⟩
        · obtain ⟨t, ht, e⟩ := ih _ h
          exact ⟨t, ht.trans (List.drop_sublist _ _), e⟩
    obtain ⟨t, ht, hmark, hn⟩ := this ops _ hb
    have hmem : ∀ x ∈ t, x < 32 ∧ mask.testBit x = true := fun x hx => mem_positions.1 (ht.subset hx)
    subst hmark hn
    constructor
    · apply orBits_and_mask
      intro x hx
      rw [Nat.testBit_mod_two_pow]
      simp [hmem x hx]
    · unfold popcount
      rw [positions_orBits ((positions_sorted mask).sublist ht) (fun x hx => (hmem x hx).1)]

/-- Corollary: the single-bit marks handed out along a history are pairwise different. -/
theorem single_marks_nodup (mask : Nat) (ops : List AllocOp) :
    ((((Mgr.new mask).run ops).2).filterMap
      (fun e => match e with | .single r => r | _ => none)).Pairwise (· ≠ ·) := by
  obtain ⟨h1, -, h3⟩ := marks_distinct_single_bits_in_mask mask ops
  refine List.Pairwise.filterMap _ ?_ (List.Pairwise.and_mem.1 h3)
  intro e1 e2 hdisj b1 hb1 b2 hb2 heq
  cases e1 with
  | block _ _ _ => simp at hb1
  | single r1 =>
    cases e2 with
    | block _ _ _ => simp at hb2
    | single r2 =>
      simp only at hb1 hb2
      subst hb1 hb2 heq
      obtain ⟨hmem, -, hd⟩ := hdisj
      simp only [Event.mark, Nat.and_self] at hd
      -- a mark handed out is `2^p`, never 0, so it cannot be disjoint from itself
      obtain ⟨p, -, -, e⟩ := h1 _ hmem
      have := Nat.two_pow_pos p
      omega

example : ((Mgr.new 0xf0).run [.single, .block 2, .single, .single]).2 =
    [.single (some 16), .block 2 96 2, .single (some 128), .single none] := by decide

/-! ### 2. Failure exactly at exhaustion -/

/-- After any allocation history: the bits reported as allocated never exceed
`popcount mask`; `AvailableMarkBitCount` is exactly what is left; the next
`NextSingleBitMark` succeeds iff something is left; and the next
`NextBlockBitsMark k` allocates exactly `min k left` bits. -/
theorem exhaustion_fails (mask : Nat) (ops : List AllocOp) :
    let m := ((Mgr.new mask).run ops).1
    let used := ((((Mgr.new mask).run ops).2).map Event.count).sum
    used ≤ popcount mask ∧
    m.numFreeBits = popcount mask - used ∧
    (m.nextSingle.2.isSome ↔ used < popcount mask) ∧
    ∀ k, (m.nextBlock k 0 0).2.2 = min k (popcount mask - used) := by
  intro m used
  obtain ⟨-, hwf, hmask, hcnt⟩ := run_spec ops (Mgr.new mask) (Mgr.new_WF mask)
  have hcnt' : m.numBitsAllocated = used := by
    show ((Mgr.new mask).run ops).1.numBitsAllocated = _
    rw [hcnt]; simp [Mgr.new, used]
  have hpc : popcount m.mask = popcount mask := by
    show popcount ((Mgr.new mask).run ops).1.mask = _
    rw [hmask, Mgr.new_mask]; unfold popcount; rw [positions_mod]
  have hwf' : m.numBitsAllocated + m.numFreeBits = popcount m.mask := hwf
  have hlen := rem_length m hwf
  refine ⟨by omega, by omega, ?_, ?_⟩
  · cases hr : m.rem with
    | nil => rw [hr] at hlen; simp only [List.length_nil] at hlen; simp [nextSingle_nil hr]; omega
    | cons p rest =>
      rw [hr] at hlen; simp only [List.length_cons] at hlen; simp [nextSingle_cons hr]; omega
  · intro k
    obtain ⟨m', e, -⟩ := nextBlock_spec k m 0 0 hwf
    rw [e]
    simp only [List.length_take, Nat.zero_add]
    omega

/-- `k` calls of `NextSingleBitMark` on a fresh manager: the first
`min k (popcount mask)` succeed and return the mask's bits in ascending order,
all the others fail — exactly `popcount mask` successes, ever. -/
theorem singles_exactly_popcount (mask k : Nat) :
    ((Mgr.new mask).run (List.replicate k .single)).2 =
      ((positions mask).take k).map (fun p => Event.single (some (2 ^ p))) ++
        List.replicate (k - popcount mask) (Event.single none) := by
  obtain ⟨hspec, -⟩ := run_spec (List.replicate k .single) (Mgr.new mask) (Mgr.new_WF mask)
  rw [hspec, Mgr.new_rem]
  clear hspec
  unfold popcount
  generalize positions mask = rem
  induction k generalizing rem with
  | zero => simp [specRun]
  | succ k ih =>
    cases rem with
    | nil =>
      have := ih []
      simp only [List.take_nil, List.map_nil, List.nil_append, List.length_nil, Nat.sub_zero] at this
      simp [List.replicate_succ, specRun, evOf, AllocOp.size, this]
    | cons p rest =>
      simp [List.replicate_succ, specRun, evOf, AllocOp.size, ih rest]

example : ((Mgr.new 0x30).run (List.replicate 4 .single)).2 =
    [.single (some 16), .single (some 32), .single none, .single none] := by decide

/-! ### 3. number → mark → number, too-big numbers, `uint32(n)` truncation -/

/-- `MapNumberToMark(n)` starts with `number := uint32(n)`: the Go `int` is
truncated modulo 2^32, so `n`, `n + 2^32`, `n - 2^32` … are indistinguishable
(e.g. `2^32` is accepted and mapped like `0`, `-1` is treated as `2^32 - 1`). -/
theorem uint32_truncation (mask : Nat) (n : Int) :
    mapNumberToMark mask n = mapNumberToMark mask (n % 2 ^ 32) := by
  rw [mapNumberToMark_eq, mapNumberToMark_eq, Int.emod_emod_of_dvd _ (Int.dvd_refl _)]

/-- Every number that fits (`0 ≤ n < 2^popcount mask`) maps to a mark inside
the mask, and `MapMarkToNumber` maps that mark back to `n`. -/
theorem number_mark_roundtrip (mask : Nat) (n : Int) (h0 : 0 ≤ n) (hfit : n < 2 ^ popcount mask) :
    ∃ mark, mapNumberToMark mask n = some mark ∧ mark &&& mask = mark ∧
      mapMarkToNumber mask mark = some n.toNat := by
  have hpc := popcount_le mask
  have hlt : n.toNat < 2 ^ popcount mask := by
    have : ((n.toNat : Nat) : Int) < ((2 ^ popcount mask : Nat) : Int) := by
      rw [Int.toNat_of_nonneg h0]; simpa using hfit
    exact Int.ofNat_lt.1 this
  have h32 : n.toNat < 2 ^ 32 := Nat.lt_of_lt_of_le hlt (Nat.pow_le_pow_right (by omega) hpc)
  have hmod : (n % (2 ^ 32 : Int)).toNat = n.toNat := by
    rw [Int.emod_eq_of_lt h0 (by omega)]
  have hin : markOf (positions mask) n.toNat &&& mask = markOf (positions mask) n.toNat :=
    markOf_and_mask _ (fun x hx => (mem_positions.1 hx).2)
  refine ⟨markOf (positions mask) n.toNat, ?_, hin, ?_⟩
  · rw [mapNumberToMark_eq, hmod]; simp [hlt]
  · simp only [mapMarkToNumber, hin, ne_eq, not_true_eq_false, if_false]
    rw [markToNumLoop_eq, numOf_markOf _ _ (positions_sorted mask)]
    simp only [Nat.pow_zero, Nat.one_mul, Nat.zero_add]
    exact congrArg some (Nat.mod_eq_of_lt hlt)

example : mapNumberToMark 0xf0 5 = some 0x50 ∧ mapMarkToNumber 0xf0 0x50 = some 5 := by decide

/-- `MapNumberToMark` accepts `n` exactly when the truncated number fits in
`popcount mask` bits: in particular every `2^popcount mask ≤ n < 2^32` is rejected. -/
theorem too_big_rejected (mask : Nat) (n : Int) :
    (mapNumberToMark mask n = none ↔ 2 ^ popcount mask ≤ (n % (2 ^ 32 : Int)).toNat) ∧
    (2 ^ popcount mask ≤ n → n < 2 ^ 32 → mapNumberToMark mask n = none) := by
  have h1 : mapNumberToMark mask n = none ↔ 2 ^ popcount mask ≤ (n % (2 ^ 32 : Int)).toNat := by
    rw [mapNumberToMark_eq]
    by_cases hlt : (n % (2 ^ 32 : Int)).toNat < 2 ^ popcount mask
    · simp
    · simp
  refine ⟨h1, ?_⟩
  intro hlo hhi
  rw [h1]
  have h0 : 0 ≤ n := Int.le_trans (Int.pow_nonneg (by omega)) hlo
  rw [Int.emod_eq_of_lt h0 hhi]
  have : ((2 ^ popcount mask : Nat) : Int) ≤ ((n.toNat : Nat) : Int) := by
    rw [Int.toNat_of_nonneg h0]; simpa using hlo
  exact Int.ofNat_le.1 this

example : mapNumberToMark 0xf0 16 = none ∧ mapNumberToMark 0xf0 15 = some 0xf0 := by decide
/-- Truncation witness: `2^32 + 3` does not fit a 2-bit mask but is accepted as `3`. -/
example : mapNumberToMark 0x3 (2 ^ 32 + 3) = some 3 ∧ mapNumberToMark 0x3 (-1) = none := by decide

/-! ### 4. mark → number → mark (the mapping is a bijection) -/

/-- Every mark inside a 32-bit mask maps to a number that fits, and
`MapNumberToMark` maps that number back to the mark; marks not inside the mask
are rejected. -/
theorem mark_number_roundtrip (mask mark : Nat) (hm : mask < 2 ^ 32) :
    (mark &&& mask ≠ mark → mapMarkToNumber mask mark = none) ∧
    (mark &&& mask = mark → ∃ k, mapMarkToNumber mask mark = some k ∧ k < 2 ^ popcount mask ∧
      mapNumberToMark mask (k : Int) = some mark) := by
  constructor
  · intro h; simp [mapMarkToNumber, h]
  · intro h
    have hk : numOf mark (positions mask) < 2 ^ popcount mask := numOf_lt mark _
    have hpc := popcount_le mask
    have hk32 : numOf mark (positions mask) < 2 ^ 32 :=
      Nat.lt_of_lt_of_le hk (Nat.pow_le_pow_right (by omega) hpc)
    refine ⟨numOf mark (positions mask), ?_, hk, ?_⟩
    · simp [mapMarkToNumber, h, markToNumLoop_eq]
    · have hmod : ((numOf mark (positions mask) : Int) % (2 ^ 32 : Int)).toNat =
          numOf mark (positions mask) := by
        rw [Int.emod_eq_of_lt (by omega) (by exact_mod_cast hk32)]; simp
      rw [mapNumberToMark_eq, hmod]
      simp only [hk, if_true, Option.some.injEq]
      apply Nat.eq_of_testBit_eq
      intro x
      rw [testBit_markOf_numOf]
      by_cases hx : mark.testBit x = true
      · have hmx : mask.testBit x = true := by
          have := congrArg (fun v => v.testBit x) h
          simp only [Nat.testBit_and, hx, Bool.true_and] at this
          exact this
        have hx32 : x < 32 := by
          cases Nat.lt_or_ge x 32 with
          | inl h => exact h
          | inr hge =>
            have : mask < 2 ^ x := Nat.lt_of_lt_of_le hm (Nat.pow_le_pow_right (by omega) hge)
            rw [Nat.testBit_lt_two_pow this] at hmx; simp at hmx
        simp [hx, mem_positions.2 ⟨hx32, hmx⟩]
      · have : mark.testBit x = false := by simpa using hx
        simp [this]

example : mapMarkToNumber 0xf0 0x90 = some 9 ∧ mapNumberToMark 0xf0 9 = some 0x90 ∧
    mapMarkToNumber 0xf0 0x11 = none := by decide

/-! ### 5. `nthMark` (the allocation primitive) on its own -/

/-- Every mark handed out by `nthMark` is a single bit inside the mask. -/
theorem nthMark_single_bit_in_mask {mask n m : Nat} (h : nthMark mask n = some m) :
    ∃ p, p < 32 ∧ mask.testBit p = true ∧ m = 2 ^ p := by
  unfold nthMark at h
  cases hp : (positions mask)[n]? with
  | none => simp [hp] at h
  | some p =>
    simp [hp] at h
    have hm : p ∈ positions mask := List.mem_of_getElem? hp
    have := mem_positions.1 hm
    exact ⟨p, this.1, this.2, h.symm⟩

/-- `nthMark n` succeeds exactly for `n < popcount mask`. -/
theorem nthMark_isSome_iff (mask n : Nat) :
    (nthMark mask n).isSome ↔ n < popcount mask := by
  unfold nthMark popcount
  simp

example : nthMark 0xf0 1 = some 32 := by decide

/-! ### 6. Go `int` block sizes -/

/-- `NextBlockBitsMark(size)` with a negative size hands out nothing, leaves the
manager unchanged and returns the size itself; with a non-negative size it is
the `Nat` model the allocation theorems are about. -/
theorem negative_block_allocates_nothing (m : Mgr) (size : Int) :
    (size < 0 → m.nextBlockInt size = (m, 0, size)) ∧
    (0 ≤ size → m.nextBlockInt size =
      ((m.nextBlock size.toNat 0 0).1, (m.nextBlock size.toNat 0 0).2.1,
        ((m.nextBlock size.toNat 0 0).2.2 : Int))) := by
  constructor
  · intro h; simp [Mgr.nextBlockInt, h]
  · intro h
    have : ¬ size < 0 := by omega
    simp [Mgr.nextBlockInt, this]

example : (Mgr.new 0xf0).nextBlockInt (-3) = (Mgr.new 0xf0, 0, -3) := by decide

/-! ### 7. Injectivity corollaries of the two round trips -/

/-- **Collision-free numbering**: two different numbers that both fit never get the same mark
(a direct consequence of the round trip, stated because it is the clause of the property). -/
theorem number_to_mark_injective (mask : Nat) (n1 n2 : Int) (h1 : 0 ≤ n1) (h2 : 0 ≤ n2)
    (f1 : n1 < 2 ^ popcount mask) (f2 : n2 < 2 ^ popcount mask)
    (he : mapNumberToMark mask n1 = mapNumberToMark mask n2) : n1 = n2 := by
  obtain ⟨m1, e1, -, r1⟩ := number_mark_roundtrip mask n1 h1 f1
  obtain ⟨m2, e2, -, r2⟩ := number_mark_roundtrip mask n2 h2 f2
  rw [e1, e2] at he
  have hm : m1 = m2 := Option.some.inj he
  subst hm
  rw [r1] at r2
  have := Option.some.inj r2
  omega

/-- … and two different marks inside the mask never decode to the same number. -/
theorem mark_to_number_injective (mask m1 m2 : Nat) (hm : mask < 2 ^ 32)
    (i1 : m1 &&& mask = m1) (i2 : m2 &&& mask = m2)
    (he : mapMarkToNumber mask m1 = mapMarkToNumber mask m2) : m1 = m2 := by
  obtain ⟨k1, e1, -, r1⟩ := (mark_number_roundtrip mask m1 hm).2 i1
  obtain ⟨k2, e2, -, r2⟩ := (mark_number_roundtrip mask m2 hm).2 i2
  rw [e1, e2] at he
  have hk : k1 = k2 := Option.some.inj he
  subst hk
  rw [r1] at r2
  exact Option.some.inj r2
end CalicoVerif.C35
