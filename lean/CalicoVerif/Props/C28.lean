import CalicoVerif.Model.C28
import CalicoVerif.Gen.C28
/-!
C28 — Exactly one component programs each IP pool's cluster routes.

The decision tables of both halves (`Gen.bgpTable`, `Gen.felixTable`) and the list of supported
pairings (`Gen.supportedPairs`, from the design doc) are regenerated from the source on every run;
the theorems below are re-checked against them.  Settings range over ALL strings (and absent);
the finite part (4 pairings × 4×4 pool modes, 4×4 recognised values) is closed by `decide`.
-/
namespace CalicoVerif.C28
open Gen

/-- The setting the BGP half effectively acts on: one of the switch's case values if the raw
setting is exactly one of them, otherwise the case value the default policy coincides with. -/
def bgpDefaultName (T : BgpTable) : Str :=
  match T.cases.find? (fun c => c.2 == T.dflt) with
  | some c => c.1
  | none => []

def bgpEff (T : BgpTable) : Option Str → Str
  | none => bgpDefaultName T
  | some s => if (T.cases.lookup s).isSome then s else bgpDefaultName T

/-- Exactly one owner for pool modes `(ipip, vxlan)`, and VXLAN pools are Felix's alone. -/
def ExactlyOne (fv : Str) (p : Policy) (ipip vxlan : Mode) : Prop :=
  (felixPrograms felixTable fv ipip vxlan ≠ birdPrograms p ipip vxlan) ∧
  (modeOn vxlan = true → felixPrograms felixTable fv ipip vxlan = true ∧ birdPrograms p ipip vxlan = false)

instance (fv : Str) (p : Policy) (i v : Mode) : Decidable (ExactlyOne fv p i v) := by
  unfold ExactlyOne; exact inferInstance

/-- The policy the BGP half computes depends on the raw setting only through `bgpEff`. -/
theorem bgpPolicy_eq_eff (bv : Option Str) :
    bgpPolicy bgpTable bv = bgpPolicy bgpTable (some (bgpEff bgpTable bv)) := by
  have hd : bgpPolicy bgpTable (some (bgpDefaultName bgpTable)) = bgpTable.dflt := by decide
  cases bv with
  | none => simp only [bgpEff, hd]; rfl
  | some s =>
    unfold bgpEff
    cases h : bgpTable.cases.lookup s with
    | some p => simp [h]
    | none =>
      simp only [h, Option.isSome_none, Bool.false_eq_true, if_false, hd]
      simp [bgpPolicy, h]

/-- Exactly one owner as BIRD's RENDERED IPv4 kernel filter decides it: `hasSubnet` = the node's
`network_v4` key is present (without it `processIPPools` emits no IPv4 statement and the template's
catch-all `accept` applies; the IPv6 filter always behaves as `hasSubnet = true`). -/
def ExactlyOneK (hasSubnet : Bool) (fv : Str) (p : Policy) (ipip vxlan : Mode) : Prop :=
  (felixPrograms felixTable fv ipip vxlan ≠ birdKernelV4 hasSubnet p ipip vxlan) ∧
  (modeOn vxlan = true →
    felixPrograms felixTable fv ipip vxlan = true ∧ birdKernelV4 hasSubnet p ipip vxlan = false)

instance (hs : Bool) (fv : Str) (p : Policy) (i v : Mode) : Decidable (ExactlyOneK hs fv p i v) := by
  unfold ExactlyOneK; exact inferInstance

/-- Statement-level form (one kernel-filter statement per pool), helper for `exactly_one_owner`.
For every raw Felix setting and every raw BGP setting (any string, or
absent; on the BGP side also "no BGPConfiguration"), if the settings the two halves effectively
act on form one of the supported pairings, then for every pool encapsulation mode the pool's
cluster routes are programmed by exactly one of Felix and BIRD, and VXLAN pools by Felix. -/
theorem exactly_one_owner_stmt (fv bv : Option Str)
    (hsup : (felixValue felixTable fv, bgpEff bgpTable bv) ∈ supportedPairs) (ipip vxlan : Mode) :
    ExactlyOne (felixValue felixTable fv) (bgpPolicy bgpTable bv) ipip vxlan := by
  rw [bgpPolicy_eq_eff]
  generalize felixValue felixTable fv = x at hsup ⊢
  generalize bgpEff bgpTable bv = y at hsup ⊢
  have key : ∀ pr ∈ supportedPairs, ∀ i ∈ allModes, ∀ v ∈ allModes,
      ExactlyOne pr.1 (bgpPolicy bgpTable (some pr.2)) i v := by decide
  exact key (x, y) hsup ipip (by cases ipip <;> decide) vxlan (by cases vxlan <;> decide)

/-- **Main theorem.**  HYPOTHESIS `hasSubnet = true`: the node's `network_v4` key is present (IPv4
filter; the IPv6 filter needs no such hypothesis).  Then for every raw Felix setting and every raw
BGP setting (any string, or absent; on the BGP side also "no BGPConfiguration"), if the settings the
two halves effectively act on form one of the supported pairings, for every pool encapsulation mode
the pool's cluster routes are programmed by exactly one of Felix and BIRD's rendered kernel filter,
and VXLAN pools by Felix. -/
theorem exactly_one_owner (hasSubnet : Bool) (hsub : hasSubnet = true) (fv bv : Option Str)
    (hsup : (felixValue felixTable fv, bgpEff bgpTable bv) ∈ supportedPairs) (ipip vxlan : Mode) :
    ExactlyOneK hasSubnet (felixValue felixTable fv) (bgpPolicy bgpTable bv) ipip vxlan := by
  subst hsub
  exact exactly_one_owner_stmt fv bv hsup ipip vxlan

/-- The hypothesis is needed — Lean witness for `hasSubnet = false`, both settings absent (the
default, supported pairing): BIRD's filter accepts a VXLAN pool and an IPIP pool that Felix programs
too.  Reproduced on the real code by `corpus/C28/obs-c-no-network-v4.ops` (`dsub 0`); it is an
OBSERVATION outside the property's quantifier (settings × pool modes), counted in the evidence as
`obs:no-network_v4`, not evaluated by the oracle and not a KNOWN-FINDING. -/
theorem no_network_v4_two_owners :
    (felixValue felixTable none, bgpEff bgpTable none) ∈ supportedPairs ∧
    ¬ ExactlyOneK false (felixValue felixTable none) (bgpPolicy bgpTable none) .never .always ∧
    ¬ ExactlyOneK false (felixValue felixTable none) (bgpPolicy bgpTable none) .always .never := by decide

/-- Not vacuous: the all-defaults configuration (both settings absent) is a supported pairing,
and so is an unrecognised string on both sides. -/
example : (felixValue felixTable none, bgpEff bgpTable none) ∈ supportedPairs := by decide
example : (felixValue felixTable (some [98, 111, 103, 117, 115]), bgpEff bgpTable (some [98, 111, 103, 117, 115])) ∈ supportedPairs := by decide

/-- Absent and unrecognised settings are treated alike, on both sides: as the default. -/
theorem absent_and_unknown_default_alike :
    (∀ s : Str, lower s ≠ noneStr → (∀ o ∈ felixTable.oneof, lower o ≠ lower s) →
        felixValue felixTable (some s) = felixValue felixTable none) ∧
    (∀ s : Str, bgpTable.cases.lookup s = none →
        bgpPolicy bgpTable (some s) = bgpPolicy bgpTable none) := by
  constructor
  · intro s h1 h2
    have hf : felixTable.oneof.find? (fun o => lower o == lower s) = none := by
      rw [List.find?_eq_none]
      intro o ho
      simpa using h2 o ho
    simp [felixValue, h1, hf]
  · intro s h
    simp [bgpPolicy, h]

/-- The defaults are the documented ones: Felix `EnabledIPIPOnly` ↔ BGP behaves as `EnabledNoEncapOnly`,
and they are complementary. -/
theorem defaults_are_a_supported_pairing :
    (felixTable.dflt, bgpDefaultName bgpTable) ∈ supportedPairs := by decide

/-- The supported pairings are exactly the right ones: among the recognised values of the two
settings, every pool mode has exactly one owner **iff** the pairing is a supported one. -/
theorem exactly_one_iff_supported :
    ∀ f ∈ felixTable.oneof, ∀ b ∈ bgpTable.cases.map (·.1),
      ((∀ i ∈ allModes, ∀ v ∈ allModes, ExactlyOneK true f (bgpPolicy bgpTable (some b)) i v) ↔
        (f, b) ∈ supportedPairs) := by decide

/-- Felix recognises its setting case-insensitively and stores the canonical spelling
(`enabled` acts as `Enabled`), confd's switch is case-sensitive (`enabled` → default). -/
example : felixValue felixTable (some [101, 110, 97, 98, 108, 101, 100]) = [69, 110, 97, 98, 108, 101, 100] := by decide
example : bgpEff bgpTable (some [101, 110, 97, 98, 108, 101, 100]) = bgpDefaultName bgpTable := by decide

/-! ## pool mode strings outside {Never, Always, CrossSubnet} -/

/-- On the three real modes Felix's own classification (mode ≠ Never) and confd's (mode ∈ {Always,
CrossSubnet}) coincide, so `exactly_one_owner` is a statement about Felix's behaviour there. -/
theorem felix_class_agrees_on_valid_modes (v : Str) (ipip vxlan : Mode)
    (h1 : ipip ≠ .other) (h2 : vxlan ≠ .other) :
    felixProgramsOwnClass felixTable v ipip vxlan = felixPrograms felixTable v ipip vxlan := by
  cases ipip <;> cases vxlan <;> simp_all [felixProgramsOwnClass, felixPrograms, modeOnFelix, modeOn]

/-- The `other` rows of `exactly_one_owner` are confd's classification applied to both sides, NOT
Felix's behaviour: with Felix's own classification an unknown ipip mode string is double-programmed
under the default pairing (Felix counts the pool as IPIP, confd as unencapsulated).  Unreachable: the
v3→v1 conversion only produces the three modes. -/
theorem other_mode_row_refuted :
    felixProgramsOwnClass felixTable (felixValue felixTable none) .other .never = true ∧
    birdPrograms (bgpPolicy bgpTable none) .other .never = true := by decide

/-! ## Felix's dataplane consumers of the two booleans -/

/-- For every stored setting (any string), every combination of pools present and of the unrelated
switches: for a pool class that is present, Felix's dataplane (manager started ∧ routes handed to the
route manager, guards regenerated from ipip_mgr.go / int_dataplane.go) programs the class exactly when
the config-level decision `felixPrograms` says so, and whenever it does the L3 route resolver that
feeds the managers is wired in. -/
theorem felix_consumers_agree (v : Str) (ps : Pools) (vx6 bpf wg wg6 : Bool) (c : PoolClass)
    (hc : ps.has c = true) :
    felixDataplanePrograms guards (felixEnv felixTable v ps vx6 bpf wg wg6) c =
      felixPrograms felixTable v c.modes.1 c.modes.2 ∧
    (felixDataplanePrograms guards (felixEnv felixTable v ps vx6 bpf wg wg6) c = true →
      guards.resolver (felixEnv felixTable v ps vx6 bpf wg wg6) = true) := by
  obtain ⟨pi, pv, pn⟩ := ps
  revert hc
  simp only [felixEnv, felixDataplanePrograms, felixPrograms, guards]
  generalize felixIPIP felixTable v = b1
  generalize felixNoEncap felixTable v = b2
  cases c <;> cases b1 <;> cases b2 <;> cases pi <;> cases pv <;> cases pn <;> cases vx6 <;>
    cases bpf <;> cases wg <;> cases wg6 <;> decide

/-- **End to end.**  `network_v4` present and supported effective pairing ⇒ for every pool class present, exactly one of
Felix's dataplane and BIRD's kernel filter programs its cluster routes; VXLAN is Felix's. -/
theorem exactly_one_owner_dataplane (hasSubnet : Bool) (hsub : hasSubnet = true) (fv bv : Option Str)
    (hsup : (felixValue felixTable fv, bgpEff bgpTable bv) ∈ supportedPairs)
    (ps : Pools) (vx6 bpf wg wg6 : Bool) (c : PoolClass) (hc : ps.has c = true) :
    felixDataplanePrograms guards (felixEnv felixTable (felixValue felixTable fv) ps vx6 bpf wg wg6) c ≠
      birdKernelV4 hasSubnet (bgpPolicy bgpTable bv) c.modes.1 c.modes.2 ∧
    (c = .vxlan → felixDataplanePrograms guards (felixEnv felixTable (felixValue felixTable fv) ps vx6 bpf wg wg6) c = true) := by
  have h1 := (felix_consumers_agree (felixValue felixTable fv) ps vx6 bpf wg wg6 c hc).1
  have h2 := exactly_one_owner hasSubnet hsub fv bv hsup c.modes.1 c.modes.2
  rw [h1]
  refine ⟨h2.1, ?_⟩
  rintro rfl
  exact (h2.2 (by decide)).1

example : felixDataplanePrograms guards (felixEnv felixTable felixTable.dflt ⟨true, false, true⟩ false false false false) .ipip = true ∧
    felixDataplanePrograms guards (felixEnv felixTable felixTable.dflt ⟨true, false, true⟩ false false false false) .noEncap = false := by decide

/-! ## the route managers' bookkeeping -/

theorem rmRun_mem_iff (ty : PoolClass) (d : Nat) : ∀ (hist : List RMsg) (st : List Nat) (acc : Option RMsg),
    (d ∈ st ↔ ∃ m, acc = some m ∧ m.poolType = ty ∧ m.qualifies = true) →
    (d ∈ rmRun ty st hist ↔ ∃ m, lastFor d acc hist = some m ∧ m.poolType = ty ∧ m.qualifies = true) := by
  intro hist
  induction hist with
  | nil => intro st acc h; simpa [rmRun, lastFor] using h
  | cons m t ih =>
    intro st acc h
    simp only [rmRun, List.foldl_cons, lastFor]
    apply ih
    by_cases hd : m.dst = d
    · simp only [hd, if_true, Option.some.injEq, exists_eq_left']
      unfold rmUpdate
      by_cases hok : m.poolType = ty ∧ m.qualifies = true
      · simp [hok, hd]
      · simp only [hok, if_false, List.mem_filter, hd]
        simp only [bne_self_eq_false, Bool.false_eq_true, and_false, false_iff]
    · simp only [hd, if_false]
      rw [← h]
      unfold rmUpdate
      have hne : (d != m.dst) = true := by simp [bne_iff_ne]; exact fun e => hd e.symm
      by_cases hok : m.poolType = ty ∧ m.qualifies = true
      · simp only [hok, and_self, if_true, List.mem_cons, List.mem_filter, hne, and_true]
        constructor
        · rintro (e | e)
          · exact absurd e.symm hd
          · exact e
        · exact Or.inr
      · simp [hok, List.mem_filter, hne]

/-- **Bookkeeping theorem.**  After ANY history of route updates, a (fresh) manager of pool type
`ty` programs exactly the destinations whose LAST message is of its own pool type and qualifies;
in particular a destination whose last message has another pool type is not programmed. -/
theorem programmed_iff_last_message (ty : PoolClass) (hist : List RMsg) (d : Nat) :
    d ∈ rmRun ty [] hist ↔ ∃ m, lastFor d none hist = some m ∧ m.poolType = ty ∧ m.qualifies = true :=
  rmRun_mem_iff ty d hist [] none (by simp)

theorem not_programmed_after_type_change (ty : PoolClass) (hist : List RMsg) (d : Nat) (m : RMsg)
    (hl : lastFor d none hist = some m) (hne : m.poolType ≠ ty) : d ∉ rmRun ty [] hist := by
  rw [programmed_iff_last_message]
  rintro ⟨m', h1, h2, _⟩
  rw [hl] at h1
  exact hne ((Option.some.inj h1) ▸ h2)

/-- pool 0 is IPIP, then re-announced as unencapsulated: the IPIP manager forgets both its blocks. -/
example : rmRun .ipip [] (poolMsgs 0 .ipip ++ poolMsgs 1 .ipip ++ poolMsgs 0 .noEncap) = [3, 2] := by decide

/-- The scenario behind the bookkeeping: default pairing, IPIP pools 0 and 1, pool 0 becomes
unencapsulated while pool 1 stays (no restart): Felix stops programming pool 0's blocks. -/
example : let s := (Dyn.setClass felixTable guards felixTable.dflt (Dyn.start felixTable guards felixTable.dflt [.ipip, .ipip, .noEncap]) 0 .noEncap)
    s.2 = false ∧ s.1.programs 0 = false ∧ s.1.programs 1 = false ∧ s.1.programs 2 = true := by decide

/-! ## ownership does not depend on `disabled` -/

/-- Two pool lists that differ only in their `disabled` flags give the same Felix state (same
managers started, same destinations programmed) — and BIRD's verdict is a function of the modes
alone.  DEFINITIONAL in the model (it classifies a pool by its two modes only); what it rests on is
the translator tie that `EncapsulationCalculator.updatePool` takes exactly (cidr, ipipEnabled,
vxlanEnabled) and that confd's `processIPPool`/`programsPool` bodies are the modelled ones, plus
the correspondence run and the exactly-one-owner oracle over histories with disabled pools that
still have blocks. -/
theorem ownership_ignores_disabled (v : Str) (ps qs : List PoolSpec)
    (h : ps.map (·.cls) = qs.map (·.cls)) :
    Dyn.startSpecs felixTable guards v ps = Dyn.startSpecs felixTable guards v qs := by
  unfold Dyn.startSpecs; rw [h]

/-- Felix owns the no-encap routes (Felix Enabled / BGP Disabled) and the only no-encap pool is
disabled: Felix still programs its blocks, BIRD still rejects them — exactly one owner. -/
example : let s := Dyn.startSpecs felixTable guards [69, 110, 97, 98, 108, 101, 100] [⟨.noEncap, true⟩, ⟨.ipip, false⟩]
    s.programs 0 = true ∧ s.programs 1 = true ∧
    birdKernelV4 true (bgpPolicy bgpTable (some [68, 105, 115, 97, 98, 108, 101, 100])) .never .never = false := by decide

/-! ## confd side: the effective policy is a function of the CURRENT resource -/

/-- After any history of syncer events for BGPConfiguration `default`, the cached resource is that
of the LAST event (whatever was cached before).  DEFINITIONAL: `confdStep` ignores the previous
state by construction of the model; the content is the translator tie that `updateBGPConfigCache`
assigns `c.globalBGPConfig = v3res` unconditionally (nil on delete) and the correspondence run of
the real client.  Kept as the statement the model makes, not as a proof of the code. -/
theorem confd_last_event_wins (st : Option (Option Str)) (hist : List BgpEvent) (e : BgpEvent) :
    confdRun st (hist ++ [e]) = confdStep none e := by
  simp only [confdRun, List.foldl_append, List.foldl_cons, List.foldl_nil]
  cases e <;> rfl

/-- … so the policy BIRD's filter is rendered from is that of the last event; after a delete it is
the default, exactly as if the setting were absent. -/
theorem confd_policy_after_history (st : Option (Option Str)) (hist : List BgpEvent) :
    (∀ v, bgpPolicy bgpTable (confdSetting (confdRun st (hist ++ [.set v]))) = bgpPolicy bgpTable v) ∧
    bgpPolicy bgpTable (confdSetting (confdRun st (hist ++ [.del]))) = bgpPolicy bgpTable none ∧
    bgpPolicy bgpTable none = bgpTable.dflt := by
  refine ⟨fun v => ?_, ?_, rfl⟩ <;> rw [confd_last_event_wins] <;> rfl

example : confdSetting (confdRun none [.set (some [69]), .del]) = none := by decide

end CalicoVerif.C28
