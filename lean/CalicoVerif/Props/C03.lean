import CalicoVerif.Model.C03
/-!
C03 — Each local endpoint gets exactly its matching policies, correctly ordered.
-/
namespace CalicoVerif.C03
open CalicoVerif.C02

/-- placeholder first theorem. -/
theorem flush_init : ({} : Resolver).flush = some ({}, []) := by decide

end CalicoVerif.C03
