import CalicoVerif.Proofs.C03Dirty
/-!
C03 — Each local endpoint gets exactly its matching policies, correctly ordered.

Model: `CalicoVerif.Model.C03` (PolicySorter incl. both btrees, TierLess, PolKVLess,
ExtractPolicyMetadata, PolicyResolver incl. pendingPolicyUpdates / dirty set / Flush) and
`Model.C02.tierInfoToProto` (the ingress/egress split done by the EventSequencer).  Which endpoints a
policy matches is an input relation (the real ActiveRulesCalculator supplies it in the harness).

What is PROVED, for ALL histories of resolver inputs with flushes anywhere: `resolver_eq_spec` — after
any history followed by a flush in sync, the last update emitted for every local endpoint (re-emitted
by that flush or not) is the from-scratch list `IsSpec` for the current datastore state, and `IsSpec`
determines the list; `Flush` never hits the `Sorted()` panic; the ingress/egress split follows the
policy's types (`split_by_type`).  The theorems named `_partial` below are the earlier, weaker
statements (per emitted update / sorter content) kept as stepping stones.
The clause "only policies that apply to some local endpoint are sent" is the ActiveRulesCalculator's
(its OnPolicyActive/OnPolicyInactive calls towards the RuleScanner); the ARC is NOT modelled here
(its match relation is an input), so that clause has no Lean theorem: it is established by the
harness only (oracle signatures `inactive-policy-sent` / `active-policy-missing`, and the ARC's active
set is compared on every flush line with the set of policies that have a match in the recorded match
relation).  What Lean does prove on the resolver side: the sorter holds, and endpoints are sent, only
policies with a live match (`sorter_content_exact_partial`, `resolver_eq_spec`).
The exactness part was false of the code before commit c70bf97 (regression example at the end).
-/
namespace CalicoVerif.C03
open CalicoVerif.C02

/-- **`resolver_eq_spec` (the property, full strength).**  For ALL histories of resolver inputs
(datastore updates for endpoints / policies / tiers, status changes, the ActiveRulesCalculator's match
start/stop calls) with flushes at arbitrary points, whose policy keys have pairwise different
tie-break strings (`KeyU`, true of validated Calico names): after the history followed by a flush
with the resolver in sync, the LAST update emitted for EVERY local endpoint — whether that last flush
re-emitted it or not (dirty-set completeness) — carries the endpoint's current data and a tier list
`l` with `IsSpec ds all matched e l`, the from-scratch description w.r.t. the datastore tier resources
`ds = dsHist [] hist`, the policy metadata `all = polHistory [] hist`, the match relation
`matched = matchedHistory [] hist` and the endpoint table `epHistory [] hist` — all four plain folds of the
HISTORY, not fields of the resolver: tiers ascending (existing tiers
first, order, unset last, name) with the datastore tier's order / default action, no empty tier,
policies ascending (order, default last, name/namespace/kind), and a policy is listed — with its
current metadata, in the tier that metadata names — iff it matches the endpoint.  `IsSpec` determines
the list (`isSpec_unique`), so this list equals the one a freshly started resolver fed only the final
state emits.  An endpoint that does not exist has no update or a removal as its last update. -/
theorem resolver_eq_spec (K : PolicyKey → Prop) (hK : KeyU K) (hist : List RStep) (hin : HistIn K hist)
    (r : Resolver) (L : Last) (hr : runL {} (fun _ => none) (hist ++ [.flush]) = some (r, L)) (hsync : r.inSync = true)
    (e : EpKey) :
    match mget (epHistory [] hist) e with
    | none => L e = none ∨ L e = some none
    | some ep => ∃ l, L e = some (some ⟨ep, l⟩) ∧
        IsSpec (dsHist [] hist) (polHistory [] hist) (matchedHistory [] hist) e l := by
  obtain ⟨t1, t2, t3⟩ := runL_tables (hist ++ [.flush]) hr
  obtain ⟨a1, a2, a3⟩ := tables_append_flush hist
  rw [a1] at t1; rw [a2] at t2; rw [a3] at t3
  rw [← t1, ← t2, ← t3]
  obtain ⟨r0, L0, calls, h0, hf, rfl⟩ := runL_append_flush hist hr
  obtain ⟨r0', L0', h0', hinv⟩ := runL_inv hK (DInv.init K) hist hin
  rw [h0] at h0'; simp only [Option.some.injEq, Prod.mk.injEq] at h0'
  obtain ⟨rfl, rfl⟩ := h0'
  have hinv' := hinv.flush hK hf
  have hs0 : r0.inSync = true := by rw [← flush_inSync hf]; exact hsync
  have hd : r.dirty = [] := ((flush_fields hf).2.2.2.1 hs0).1
  have := hinv'.good e (by rw [hd]; simp)
  exact this

/-- Bridging lemma used above, stated on its own: the resolver's internal policy table, match relation
and endpoint table are exactly the folds of the history (`polHistory` = last policy update per key,
`matchedHistory` = started-and-not-stopped matches, `epHistory` = last endpoint update per key), so a
model that dropped or invented an update could not satisfy `resolver_eq_spec`. -/
theorem resolver_tables_are_history_folds (hist : List RStep) (r : Resolver) (L : Last)
    (hr : runL {} (fun _ => none) hist = some (r, L)) :
    r.allPolicies = polHistory [] hist ∧ r.matched = matchedHistory [] hist ∧ r.endpoints = epHistory [] hist :=
  runL_tables hist hr

/-- no panic: the run of `resolver_eq_spec` always succeeds -/
theorem resolver_run_total (K : PolicyKey → Prop) (hK : KeyU K) (hist : List RStep) (hin : HistIn K hist) :
    ∃ r L, runL {} (fun _ => none) hist = some (r, L) := by
  obtain ⟨r, L, h, _⟩ := runL_inv hK (DInv.init K) hist hin
  exact ⟨r, L, h⟩

/-- `IsSpec` is a complete description: two lists satisfying it for the same state are equal. -/
theorem isSpec_determines_list {ds all matched e} {l₁ l₂ : List TierInfo} (h1 : IsSpec ds all matched e l₁)
    (h2 : IsSpec ds all matched e l₂) : l₁ = l₂ := isSpec_unique h1 h2

/-- Main theorem (partial, see header): for every history, no panic and every emitted update is
`GoodUpdate`: ∃ a tier list sorted by `TierLess` whose tiers' policies are sorted by `PolKVLess`, of
which the endpoint's tier list is the `filterTiers` image w.r.t. the match relation at that flush. -/
theorem resolver_output_sorted_matching_partial (hist : List RStep) :
    ∃ r outs, runR {} hist = some (r, outs) ∧ ∀ o ∈ outs, ∀ c ∈ o.2, GoodUpdate o.1 c :=
  runR_spec SInv.init hist

/-- Soundness of the sorter's content, for ALL histories: every policy the PolicySorter holds
(i) currently matches at least one local endpoint, (ii) is stored with exactly the metadata (order,
flags, tier) of the policy as it is in the datastore now, (iii) in the tier that metadata names, and
(iv) in no other tier; and every policy waiting in `pendingPolicyUpdates` still matches an endpoint.
(This is the invariant that the code before /repo commit c70bf97 violated: (i) and (ii) failed for a
policy whose last match stopped while it was pending.)  Not proved: the converse (every matched,
known policy is held after an in-sync flush) and that a tier's btree lists exactly its map. -/
theorem sorter_content_sound_partial (hist : List RStep) (r : Resolver)
    (outs : List (List (PolicyKey × EpKey) × List Call)) (hr : runR {} hist = some (r, outs)) :
    (∀ p n m, holdsIn r.sorter p n m → r.polHasMatch p = true ∧ mget r.allPolicies p = some m ∧ m.tier = n) ∧
    (∀ p n n' m m', holdsIn r.sorter p n m → holdsIn r.sorter p n' m' → n = n') ∧
    (∀ p, p ∈ r.pending → r.polHasMatch p = true) := by
  have := runR_content RInv.init hist hr
  exact ⟨this.held, this.uniq, this.pend⟩

/-- Exactness of the sorter's content after a flush in sync, for ALL histories: right after a `Flush`
executed while in sync, the set of policies held by the PolicySorter is EXACTLY the set of policies that
match some local endpoint and exist in the datastore (each with its current metadata, by
`sorter_content_sound_partial`).  Still `_partial` w.r.t. the property: not proved is that each
tier's btree lists exactly its map, that tier attributes equal the datastore's, and dirty-set
completeness (so that "last emitted list = list from scratch" follows). -/
theorem sorter_content_exact_partial (hist : List RStep) (r : Resolver)
    (outs : List (List (PolicyKey × EpKey) × List Call)) (hr : runR {} (hist ++ [.flush]) = some (r, outs))
    (hsync : ∀ r0 outs0, runR {} hist = some (r0, outs0) → r0.inSync = true) (p : PolicyKey) :
    (∃ n m, holdsIn r.sorter p n m) ↔ (r.polHasMatch p = true ∧ (mget r.allPolicies p).isSome) := by
  constructor
  · rintro ⟨n, m, hx⟩
    obtain ⟨a, b, _⟩ := (runR_content RInv.init _ hr).held p n m hx
    exact ⟨a, by simp [b]⟩
  · rintro ⟨a, b⟩
    exact runR_complete RInv.init Compl.init hist hr hsync p a b

/-- **Exactly the matching policies, with their current metadata, in the tier that metadata names** —
for ALL histories: take any history whose policy keys have pairwise different tie-break strings
(`KeyU`; true of validated Calico names), let the resolver be in sync afterwards and flush.  Then for
every endpoint update `u` that flush emits for an endpoint `e`, and every policy `p` / metadata `m`:
`p` with `m` is listed in a tier of `u` named `m.tier`  ⟺  `p` currently matches `e` and `m` is the
metadata of `p` as it is in the datastore now.  Together with `goodUpdate_meaning` (tiers / policies
sorted, no empty tiers) and `split_by_type` this is the statement of C03 for the endpoints a flush
emits (tier attributes: `emitted_tier_attrs_partial`).  Remaining gap to the full property (hence
`_partial`): dirty-set completeness (an endpoint that is NOT re-emitted by a flush still has an
up-to-date list) is not proved; it is covered by the from-scratch oracle on the real code. -/
theorem emitted_lists_exact_partial (K : PolicyKey → Prop) (hK : KeyU K) (hist : List RStep) (hin : HistIn K hist)
    (r0 : Resolver) (outs0 : List (List (PolicyKey × EpKey) × List Call)) (h0 : runR {} hist = some (r0, outs0))
    (hsync : r0.inSync = true) (r' : Resolver) (calls : List Call) (hf : r0.flush = some (r', calls))
    (e : EpKey) (u : EpUpd) (hu : Call.endpointUpdate e (some u) ∈ calls) (p : PolicyKey) (m : PolMeta) :
    (∃ t' ∈ u.tiers, t'.name = m.tier ∧ ⟨p, m⟩ ∈ t'.policies) ↔
      ((p, e) ∈ r0.matched ∧ mget r0.allPolicies p = some m) := by
  have hfull := runR_full hK (Full.init K) hist hin h0
  have hfull' := hfull.flush hK hf
  obtain ⟨ts, hts, hm, ha, hcalls⟩ := flush_shape hsync hf
  have hcomp := (hfull.compl.flush hfull.rinv hf).2 hsync
  rw [hcalls, List.mem_map] at hu
  obtain ⟨e', _, he'⟩ := hu
  cases hep : mget r0.endpoints e' with
  | none => rw [hep] at he'; simp at he'
  | some ep =>
    rw [hep] at he'
    simp only [Call.endpointUpdate.injEq, Option.some.injEq] at he'
    obtain ⟨rfl, rfl⟩ := he'
    have := emitted_exact hfull'.rinv hfull'.tc hcomp hts e' p m
    rw [hm, ha] at this
    exact this

/-- Tier attributes, for ALL histories: in every endpoint update emitted by a flush executed in sync,
a tier carries the order and default action of the datastore's tier resource of that name
(`dsHist [] hist` = the tier resources after the history); a tier that does not exist in the datastore
(deleted, or only named by a policy) is listed with no order and an empty default action.  With
`goodUpdate_meaning` this gives: existing tiers first, ascending datastore order, unset last, then name. -/
theorem emitted_tier_attrs_partial (hist : List RStep) (r0 : Resolver)
    (outs0 : List (List (PolicyKey × EpKey) × List Call)) (h0 : runR {} hist = some (r0, outs0))
    (hsync : r0.inSync = true) (r' : Resolver) (calls : List Call) (hf : r0.flush = some (r', calls))
    (e : EpKey) (u : EpUpd) (hu : Call.endpointUpdate e (some u) ∈ calls) (t' : TierInfo) (ht' : t' ∈ u.tiers) :
    match mget (dsHist [] hist) t'.name with
    | some (o, a) => t'.order = o ∧ t'.defaultAction = a
    | none => t'.order = none ∧ t'.defaultAction = "" := by
  have hfull := runR_content RInv.init hist h0
  have hta := runR_tiers SInv.init TierAttr.init hist h0
  exact emitted_tier_attrs hfull.sinv hta hsync hf e u hu t' ht'

/-- `only_matching` + `policies_sorted` + `tiers_sorted`, spelled out for one emitted update. -/
theorem goodUpdate_meaning {matched : List (PolicyKey × EpKey)} {e : EpKey} {u : EpUpd}
    (h : GoodUpdate matched (.endpointUpdate e (some u))) :
    -- only policies that match the endpoint are listed, and no listed tier is empty
    (∀ t ∈ u.tiers, t.policies ≠ [] ∧ ∀ kv ∈ t.policies, (kv.key, e) ∈ matched) ∧
    -- inside every tier the policies ascend under PolKVLess (order, unset last, then name/namespace/kind)
    (∀ t ∈ u.tiers, Sorted polKVLess t.policies) ∧
    -- the tiers are a subsequence of a TierLess-ascending tier list (valid first, order, unset last, name)
    (∃ ts : List TierInfo, Sorted tierLess (ts.map TierInfo.key) ∧ (u.tiers.map (·.name)).Sublist (ts.map (·.name)) ∧
      ∀ t' ∈ u.tiers, ∃ t ∈ ts, t'.name = t.name ∧ t'.order = t.order ∧ t'.defaultAction = t.defaultAction ∧
        t'.policies = t.policies.filter (fun kv => decide ((kv.key, e) ∈ matched))) := by
  obtain ⟨ts, h1, h2, h3⟩ := h
  obtain ⟨s1, _, s3⟩ := filterTiers_spec matched e ts
  rw [h3]
  refine ⟨fun t ht => ⟨(s1 t ht).1, (s1 t ht).2.1⟩, ?_, ts, h1, s3, fun t' ht' => (s1 t' ht').2.2⟩
  intro t' ht'
  obtain ⟨t, ht, _, _, _, hp⟩ := (s1 t' ht').2.2
  rw [hp]
  exact List.Pairwise.filter _ (h2 t ht)

/-- What the two comparators mean. `none` order = unset (tier) / default +Inf (policy). -/
theorem tierLess_meaning (a b : TierKey) : tierLess a b = true ↔
    (rlt (tierRank a) (tierRank b) ∨ (tierRank a = tierRank b ∧ a.name < b.name)) := by
  obtain ⟨an, av, ao⟩ := a
  obtain ⟨bn, bv, bo⟩ := b
  cases av <;> cases bv <;> cases ao <;> cases bo <;>
    simp [tierLess, tierRank, rlt, Prod.ext_iff] <;> (try omega)
  all_goals
    rename_i x y
    by_cases hxy : x = y
    · subst hxy; simp
    · simp [hxy]

theorem polKVLess_meaning (a b : PolKV) : polKVLess a b = true ↔
    (orderLt a.val.order b.val.order = true ∨ (a.val.order = b.val.order ∧ tieStr a.key < tieStr b.key)) := by
  unfold polKVLess
  by_cases h : a.val.order = b.val.order
  · simp only [h, if_true, decide_eq_true_eq, true_and]
    constructor
    · exact Or.inr
    · rintro (x | x)
      · cases hb : b.val.order <;> simp [orderLt, hb] at x
      · exact x
  · simp [h]

/-- Both comparators are strict weak orders (what google/btree needs to behave like a sorted set). -/
theorem comparators_strict_weak : SWO tierLess ∧ SWO polKVLess := ⟨swo_tierLess, swo_polKVLess⟩

/-- The PolicySorter keeps both btrees sorted and every key of the tier btree resolvable in the tier
map, whatever sequence of policy / tier updates it sees. -/
theorem sorter_invariant (s : Sorter) (h : SInv s) :
    (∀ k m, SInv (s.updatePolicy k m).1) ∧ (∀ n v, SInv (s.onTierUpdate n v).1) ∧
    ∃ ts, s.sortedOut = some ts ∧ ts.map TierInfo.key = s.sortedTiers ∧ ∀ t ∈ ts, Sorted polKVLess t.policies :=
  ⟨fun k m => h.updatePolicy k m, fun n v => h.onTierUpdate n v, sortedOut_spec h⟩

/-- `tierInfoToProtoTierInfo`: per tier and category (normal / untracked / pre-DNAT / forward) the
ingress list is exactly the category's policies that govern ingress, in order; the egress list those
that govern egress (never for pre-DNAT); a tier is listed in a category iff one list is non-empty. -/
theorem split_by_type (ts : List TierInfo) :
    (tierInfoToProto ts).normal = ts.flatMap (fun t => optTier ⟨t.name, t.defaultAction,
      keysWhere t.policies (fun p => isNormal p && p.val.ingress), keysWhere t.policies (fun p => isNormal p && p.val.egress)⟩) ∧
    (tierInfoToProto ts).untracked = ts.flatMap (fun t => optTier ⟨t.name, "Pass",
      keysWhere t.policies (fun p => isUntracked p && p.val.ingress), keysWhere t.policies (fun p => isUntracked p && p.val.egress)⟩) ∧
    (tierInfoToProto ts).preDNAT = ts.flatMap (fun t => optTier ⟨t.name, "Pass",
      keysWhere t.policies (fun p => isPreDNAT p && p.val.ingress), []⟩) ∧
    (tierInfoToProto ts).forward = ts.flatMap (fun t => optTier ⟨t.name, t.defaultAction,
      keysWhere t.policies (fun p => isForward p && p.val.ingress), keysWhere t.policies (fun p => isForward p && p.val.egress)⟩) :=
  tierInfoToProto_spec ts

/-- `ExtractPolicyMetadata`: no Types = ingress and egress; otherwise exactly the listed ones
(case-insensitively); an empty tier name means the default tier. -/
theorem extract_types (p : PolicyIn) :
    ((extractPolicyMetadata p).ingress = true ↔ (p.types = [] ∨ ∃ t ∈ p.types, equalFoldAscii t "ingress" = true)) ∧
    ((extractPolicyMetadata p).egress = true ↔ (p.types = [] ∨ ∃ t ∈ p.types, equalFoldAscii t "egress" = true)) ∧
    (extractPolicyMetadata p).order = p.order ∧
    (extractPolicyMetadata p).tier = (if p.tier = "" then "default" else p.tier) := by
  simp [extractPolicyMetadata, List.isEmpty_iff]

/-! ### non-vacuity and regression -/

private def P : PolicyKey := ⟨"p", "", "gnp"⟩
private def Q : PolicyKey := ⟨"q", "ns", "np"⟩
private def R : PolicyKey := ⟨"r", "", "gnp"⟩
private def E : EpKey := .wep "e"

/-- three tiers (equal orders, an unset order), three matching policies (an unset order, an untracked
one) and one non-matching policy: the emitted list is t0 (order 1, name before t1), then t1 with q
(order 10) before p (default order); the tier of the non-matching policy is not listed. -/
example : (runR {} [.ev (.status true),
    .ev (.tier "t1" (some (some 1, "Deny"))), .ev (.tier "t2" (some (none, "Pass"))), .ev (.tier "t0" (some (some 1, "Pass"))),
    .ev (.endpoint E (some ⟨"x", []⟩)),
    .ev (.matchStarted P E), .ev (.policy P (some ⟨"t1", none, false, false, false, []⟩)),
    .ev (.matchStarted Q E), .ev (.policy Q (some ⟨"t1", some 10, true, false, false, []⟩)),
    .ev (.matchStarted R E), .ev (.policy R (some ⟨"t0", some 10, false, false, false, []⟩)),
    .ev (.policy ⟨"z", "", "gnp"⟩ (some ⟨"t2", some 1, false, false, false, []⟩)),
    .flush]).map (fun x => x.2.map (·.2)) =
  some [[.endpointUpdate E (some ⟨⟨"x", []⟩,
    [⟨"t0", some 1, "Pass", true, [⟨R, ⟨some 10, false, false, false, true, true, "t0"⟩⟩]⟩,
     ⟨"t1", some 1, "Deny", true, [⟨Q, ⟨some 10, true, false, false, true, true, "t1"⟩⟩,
                                    ⟨P, ⟨none, false, false, false, true, true, "t1"⟩⟩]⟩]⟩)]] := by decide

/-- the key-universe hypothesis of `emitted_lists_exact_partial` is satisfiable: the three keys above
(equal names would need different namespaces/kinds) have pairwise different tie-break strings -/
example : KeyU (fun k => k = P ∨ k = Q ∨ k = R) := by
  constructor
  rintro a b (rfl | rfl | rfl) (rfl | rfl | rfl) h <;> first | rfl | (exfalso; revert h; decide)

/-- `resolver_eq_spec` speaks about endpoints the last flush did NOT re-emit: here the second flush only
re-emits nothing for `e` (an unrelated, non-matching policy changed), and the last update of `e` is still
the one from the first flush. -/
example : (runL {} (fun _ => none) [.ev (.status true), .ev (.tier "t1" (some (some 1, "Deny"))),
    .ev (.endpoint E (some ⟨"x", []⟩)),
    .ev (.matchStarted P E), .ev (.policy P (some ⟨"t1", none, false, false, false, []⟩)), .flush,
    .ev (.policy Q (some ⟨"t1", some 3, false, false, false, []⟩)), .flush]).map (fun x => x.2 E) =
  some (some (some ⟨⟨"x", []⟩, [⟨"t1", some 1, "Deny", true, [⟨P, ⟨none, false, false, false, true, true, "t1"⟩⟩]⟩]⟩)) := by decide

/-- Regression for the defect fixed in /repo commit c70bf97 ("drop pending policy update when the
policy's last match stops"): a policy matches and stops matching before the first flush, is then
changed (other tier, other order, no longer untracked) while unmatched, and matches again.  The model
of the repaired code emits it with its CURRENT metadata (tier t1, order 5).  With the line
`pending := sdel p r.pending` removed from `Resolver.step (.matchStopped …)` — the code before the
fix — the same history emits the STALE metadata (tier t2, order 10, untracked); the harness oracle
reports that on the real code with signature `stale-metadata-unmatched-pending`. -/
example : (runR {} [.ev (.tier "t1" (some (some 1, "Deny"))), .ev (.tier "t2" (some (some 2, "Pass"))),
    .ev (.endpoint E (some ⟨"x", []⟩)),
    .ev (.matchStarted P E), .ev (.policy P (some ⟨"t2", some 10, true, false, false, []⟩)),
    .ev (.matchStopped P E),
    .ev (.status true), .flush,
    .ev (.policy P (some ⟨"t1", some 5, false, false, false, []⟩)),
    .ev (.matchStarted P E), .flush]).map (fun x => x.2.map (·.2)) =
  some [[.endpointUpdate E (some ⟨⟨"x", []⟩, []⟩)],
        [.endpointUpdate E (some ⟨⟨"x", []⟩,
          [⟨"t1", some 1, "Deny", true, [⟨P, ⟨some 5, false, false, false, true, true, "t1"⟩⟩]⟩]⟩)]] := by decide

end CalicoVerif.C03
