import CalicoVerif.Model.C29
/-!
C29 — Kubernetes NetworkPolicy keeps its Kubernetes meaning after conversion.
Property theorems (helper lemmas live in `CalicoVerif.Proofs.C29*`).
-/
namespace CalicoVerif.C29

/-- Masking the address of a CIDR (what `cnet.ParseCIDR(..).String()` does) never changes which
addresses it contains. -/
theorem contains_norm (c : Cidr) (ip : IP) : c.norm.contains ip = c.contains ip := by
  simp only [Cidr.contains, Cidr.norm, Nat.shiftLeft_shiftRight]

example : (Cidr.mk false 167772161 8).norm = Cidr.mk false 167772160 8 := by decide

end CalicoVerif.C29
