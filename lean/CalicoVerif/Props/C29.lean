import CalicoVerif.Proofs.C29Rule
/-!
C29 — Kubernetes NetworkPolicy keeps its Kubernetes meaning after conversion.
Property theorems (helper lemmas live in `CalicoVerif.Proofs.C29*`).

`k8sVerdict`  = what ONE Kubernetes NetworkPolicy says about a connection (spec);
`calicoVerdict ∘ convert` = what the policy produced by the model of `K8sNetworkPolicyToCalico`
says, with selectors evaluated on the labels that the models of `podToDefaultWorkloadEndpoint`,
`NamespaceToProfile` and Felix' label inheritance give the endpoints, and the v3→v1 selector
combination of `updateprocessors` applied.
-/
namespace CalicoVerif.C29

/-- Masking the address of a CIDR (what `cnet.ParseCIDR(..).String()` does) never changes which
addresses it contains. -/
theorem contains_norm (c : Cidr) (ip : IP) : c.norm.contains ip = c.contains ip := contains_norm' c ip

example : (Cidr.mk false 167772161 8).norm = Cidr.mk false 167772160 8 := by decide

/-- SimplifyPorts lemma: the simplified list matches exactly the same destination ports (numeric
ranges of any width, duplicates, overlaps, named ports), for every input list. -/
theorem simplifyPorts_same_ports (ps : List CPort) (conn : Conn) :
    (simplifyPorts ps).any (fun p => cportMatches p conn) = ps.any (fun p => cportMatches p conn) :=
  simplifyPorts_any ps conn

/-- … and it is empty ("all ports") only if the input was. -/
theorem simplifyPorts_nil_iff (ps : List CPort) : simplifyPorts ps = [] ↔ ps = [] := simplifyPorts_eq_nil ps

example : coalesce [80, 80, 81, 82, 84, 85, 90] = [⟨80, 82, ""⟩, ⟨84, 85, ""⟩, ⟨90, 90, ""⟩] := by decide

/-- One Kubernetes rule (any peers of the four kinds, any legal ports with default protocol, named
and ranged ports, ipBlock with exceptions) is converted without error and the generated Calico
rules match exactly the connections the Kubernetes rule matches — both directions. -/
theorem rule_preserves (c : Cluster) (npNs : String) (hns : npNs ≠ "") (r : KRule) (hr : r.valid)
    (ingress : Bool) (conn : Conn) (hs : conn.src.ok) (hd : conn.dst.ok) :
    ∃ crs, k8sRuleToCalico r.peers r.ports ingress = some crs ∧
      crs.any (fun cr => cruleMatches c npNs cr conn) =
        k8sRuleMatches c npNs r (if ingress then conn.src else conn.dst) conn :=
  rule_conv c npNs hns r hr ingress conn hs hd

/-- A well-formed NetworkPolicy never loses a rule in conversion. -/
theorem convert_no_errors (np : NP) (h : np.wf) :
    (convert np).badIngress = 0 ∧ (convert np).badEgress = 0 := by
  obtain ⟨_, _, _, _, hbi, hbe⟩ := convert_pol_fields np
  -- any connection will do to instantiate the rule lemma; take a trivial one
  let conn : Conn := { src := ⟨⟨false, 0⟩, .none⟩, dst := ⟨⟨false, 0⟩, .none⟩, proto := 0, dport := 0 }
  have hok : (⟨⟨false, 0⟩, Endpoint.none⟩ : Party).ok := trivial
  rw [hbi, hbe]
  exact ⟨(convertRules_sound [] np.ns h.ns true conn hok hok np.ingress h.ingress).1,
    (convertRules_sound [] np.ns h.ns false conn hok hok np.egress h.egress).1⟩

/-- MAIN THEOREM (partial: see the hypotheses `h`, `hs`, `hd`).
For every well-formed NetworkPolicy, every cluster labelling, every connection and both
directions, the converted Calico policy gives the same three-valued answer
(no opinion / allow / deny-at-end-of-tier) as the Kubernetes NetworkPolicy.

What keeps this from the full statement: `np.wf` contains `podKeysOK`/`nsKeysOK` (no selector key in
Calico's reserved label space) and `Party.ok` asks that no pod carries a `pcns.`-prefixed label (and
that a NON-pod endpoint does not carry `projectcalico.org/orchestrator=k8s`).  Without these the
statement is false of the current code: `convert_preserves_false_pod_label`,
`convert_preserves_false_selector_key`. -/
theorem convert_preserves_partial (c : Cluster) (np : NP) (h : np.wf) (d : Dir) (conn : Conn)
    (hs : conn.src.ok) (hd : conn.dst.ok) :
    calicoVerdict c (convert np).pol d conn = k8sVerdict c np d conn := by
  obtain ⟨hns, hsel, hin, heg, _, _⟩ := convert_pol_fields np
  have htypes := convert_types np h.types_ne h.types
  have hself : (conn.self d).ok := by cases d <;> assumption
  unfold calicoVerdict k8sVerdict
  unfold Party.ok at hself
  dsimp only
  cases hep : (conn.self d).ep with
  | pod p =>
    have hpsel : (policySelectorV1 (convert np).pol).holds (wepGet c p) =
        (p.ns == np.ns && np.podSel.holds (lget p.labels)) := by
      simp only [policySelectorV1, hns, h.ns, ne_eq, not_false_eq_true, if_true, hsel, CSel.holds,
        List.all_append, List.all_cons, List.all_nil, Bool.and_true]
      have := podSel_holds c p np.podSel h.podOps h.podKeys
      simp only [CSel.holds] at this
      rw [this, Bool.and_comm]
      simp [Term.holds, wepGet_ns]
    rw [hep] at hself
    simp only [Endpoint.calicoGet, hpsel, htypes, hns]
    cases d with
    | ingress =>
      have := (convertRules_sound c np.ns h.ns true conn hs hd np.ingress h.ingress).2
      simp only [hin, this]
      rfl
    | egress =>
      have := (convertRules_sound c np.ns h.ns false conn hs hd np.egress h.egress).2
      simp only [heg, this]
      rfl
  | other l =>
    rw [hep] at hself
    have hfalse : (policySelectorV1 (convert np).pol).holds (lget l) = false := by
      rw [policySelectorV1, hns, hsel, k8sSel_pod_some]
      have : (lget l labelOrchestrator == some "k8s") = false := by simpa using hself
      simp [h.ns, CSel.holds, Term.holds, this]
    simp [Endpoint.calicoGet, hfalse]
  | none => simp [Endpoint.calicoGet]

/-- Several NetworkPolicies together: Kubernetes' "a selected pod may receive/send exactly what
some selecting policy allows" equals the evaluation of the converted policies in one Calico tier
(allow if an applying policy allows, otherwise end-of-tier deny if some policy applies). -/
theorem convert_preserves_list_partial (c : Cluster) (nps : List NP) (h : ∀ np ∈ nps, np.wf) (d : Dir)
    (conn : Conn) (hs : conn.src.ok) (hd : conn.dst.ok) :
    combine (nps.map fun np => calicoVerdict c (convert np).pol d conn) =
      combine (nps.map fun np => k8sVerdict c np d conn) := by
  congr 1
  apply List.map_congr_left
  intro np hnp
  exact convert_preserves_partial c np (h np hnp) d conn hs hd


/-! ## Non-vacuity and the two counterexamples to the unrestricted statement -/

/-- Policy in namespace "default": selects every pod, allows ingress from namespaces labelled team=a. -/
def npW : NP :=
  NP.mk "default" ⟨[], []⟩ [KRule.mk [Peer.mk none (some ⟨[], [⟨"team", .opIn, ["a"]⟩]⟩) none] []] [] ["Ingress"]

def clW : Cluster := [("default", []), ("other", []), ("team-a", [("team", "a")])]
def podA : Pod := Pod.mk "default" [("app", "web")] "" []
def podGood : Pod := Pod.mk "team-a" [] "" []
/-- a pod in namespace "other" (which has NO label team=a) that labels itself `pcns.team=a` -/
def podSpoof : Pod := Pod.mk "other" [("pcns.team", "a")] "" []
def connGood : Conn := Conn.mk (Party.mk ⟨false, 1⟩ (.pod podGood)) (Party.mk ⟨false, 2⟩ (.pod podA)) 6 80
def connSpoof : Conn := Conn.mk (Party.mk ⟨false, 3⟩ (.pod podSpoof)) (Party.mk ⟨false, 2⟩ (.pod podA)) 6 80

def polW : CPolicy :=
  CPolicy.mk "default" [Term.eq labelOrchestrator "k8s"]
    [CRule.mk none (Entity.mk [Term.eq labelOrchestrator "k8s"] [Term.inSet "team" ["a"]] [] [] []) (Entity.mk [] [] [] [] [])]
    [] [Dir.ingress]

theorem convW : (convert npW).pol = polW := by
  simp [convert, npW, polW, convertRules, k8sRuleToCalico, k8sSelectorToCalico, sortByKey, exprTerms, peerFields,
    simplifyPorts, printedValues, List.mergeSort_nil, List.mergeSort_singleton]

theorem npW_wf : npW.wf := by
  refine ⟨by decide, by decide, by decide, ?_, ?_, ?_, ?_⟩
  · intro e he; simp [npW] at he
  · exact ⟨by intro kv h; simp [npW] at h, by intro e h; simp [npW] at h⟩
  · intro r hr
    simp only [npW, List.mem_singleton] at hr
    subst hr
    refine ⟨?_, by intro kp h; simp at h⟩
    intro p hp
    simp only [List.mem_singleton] at hp
    subst hp
    refine ⟨by intro s h; simp at h, ?_⟩
    intro s hs
    simp only [Option.some.injEq] at hs
    subst hs
    refine ⟨?_, by intro kv h; simp at h, ?_⟩
    · intro e he; simp only [List.mem_singleton] at he; subst he; decide
    · intro e he; simp only [List.mem_singleton] at he; subst he; decide
  · intro r hr; simp [npW] at hr

/-- The hypotheses of `convert_preserves_partial` are satisfiable by a non-trivial instance whose
verdict is `allow` (and `deny` for a pod from an unlabelled namespace). -/
example : npW.wf ∧ connGood.src.ok ∧ connGood.dst.ok ∧ k8sVerdict clW npW .ingress connGood = .allow :=
  ⟨npW_wf, by intro kv h; simp [podGood] at h,
    by intro kv h; simp only [podA, List.mem_singleton] at h; subst h; decide, by decide⟩

example : calicoVerdict clW (convert npW).pol .ingress connGood = .allow := by rw [convW]; decide

/-- COUNTEREXAMPLE 1 (pod labelling).  The NetworkPolicy is well formed, but the source pod carries
the label `pcns.team=a`: Kubernetes denies (its namespace "other" has no label team=a), the converted
policy allows, because a WorkloadEndpoint's own labels shadow the labels inherited from the
namespace profile.  So "for every pod labelling" is false of the current code. -/
theorem convert_preserves_false_pod_label :
    ∃ (c : Cluster) (np : NP) (d : Dir) (conn : Conn), np.wf ∧ conn.dst.ok ∧
      calicoVerdict c (convert np).pol d conn = .allow ∧ k8sVerdict c np d conn = .deny :=
  ⟨clW, npW, .ingress, connSpoof, npW_wf,
    by intro kv h; simp only [podA, List.mem_singleton] at h; subst h; decide,
    by rw [convW]; decide, by decide⟩

/-- Policy whose podSelector is `projectcalico.org/namespace Exists`. -/
def npK : NP := NP.mk "default" ⟨[], [⟨labelNamespace, .opExists, []⟩]⟩ [] [] ["Ingress"]

def polK : CPolicy :=
  CPolicy.mk "default" [Term.eq labelOrchestrator "k8s", Term.has labelNamespace] [] [] [Dir.ingress]

theorem convK : (convert npK).pol = polK := by
  simp [convert, npK, polK, convertRules, k8sSelectorToCalico, sortByKey, exprTerms, printedValues, List.mergeSort_nil]

/-- COUNTEREXAMPLE 2 (selector key).  All pods are label-wise well formed, but the policy's
podSelector uses the key `projectcalico.org/namespace`, which no pod carries in Kubernetes and every
WorkloadEndpoint carries in Calico: Kubernetes says the policy does not select pod A (no opinion),
the converted policy selects it and, having no rules, denies. -/
theorem convert_preserves_false_selector_key :
    ∃ (c : Cluster) (np : NP) (d : Dir) (conn : Conn), conn.src.ok ∧ conn.dst.ok ∧ np.podSel.opsOK ∧
      calicoVerdict c (convert np).pol d conn = .deny ∧ k8sVerdict c np d conn = .noOpinion :=
  ⟨clW, npK, .ingress, connGood, by intro kv h; simp [podGood] at h,
    by intro kv h; simp only [podA, List.mem_singleton] at h; subst h; decide,
    by intro e he; simp only [npK, List.mem_singleton] at he; subst he; decide,
    by rw [convK]; decide, by decide⟩

/-- Why `NP.wf` asks for defaulted policyTypes: on an object that did NOT go through API-server
defaulting (policyTypes empty, egress rules present) the converter yields ingress only, whereas
Kubernetes defaulting makes it [Ingress, Egress].  Unreachable through the API server. -/
example : (convert (NP.mk "default" ⟨[], []⟩ [] [KRule.mk [] []] [])).pol.types = [.ingress] ∧
    effTypes (NP.mk "default" ⟨[], []⟩ [] [KRule.mk [] []] []) = [.ingress, .egress] := by
  constructor
  · simp [convert]
  · decide

end CalicoVerif.C29
