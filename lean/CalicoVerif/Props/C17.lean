import CalicoVerif.Proofs.C17g
/-!
C17 — Route sync converges for Felix's routes and leaves other routes alone.
Property theorems over the model `CalicoVerif.Model.C17` (conflict resolution, ownership, full resync,
per-interface rescans, delta application with netlink failures, inline retry of `Apply`).

Proved in full: `class_priority_wins`.
Proved for the FULL-RESYNC path only (hence `_partial`): convergence, stale removal and non-interference for an
`Apply` (including its inline retry) that starts with a full resync pending — the first Apply after start,
any Apply after `QueueResync`, any Apply after a failed resync — after ANY history of operations
(`W.run`: route API calls, interface events, foreign kernel changes, earlier Applies with any failures) from ANY
start state whose kernel table has one route per destination.
What is missing: (1) Applies that only do per-interface rescans (`ifacesToRescan`/`resyncIface`) — for those
the three clauses are evaluated as oracles on the real code and backed by the model correspondence only;
(2) the `Apply`-level theorems assume that the first attempt leaves no interface queued for a rescan
(no RouteReplace failed on an interface that is down in the kernel) — the attempt-level theorem
`attempt_converges_partial` does not need that.
Grace periods, ARP, conntrack tracking and multi-path are outside the model.
-/
namespace CalicoVerif.C17

/-- **class_priority_wins**: for every set of desired targets and interface states, the route Felix wants for a
destination is one of the live targets (interface present and up) and no live target has a lower route class,
or the same class and a higher interface index; and a destination with at least one live target always has a
desired route. -/
theorem class_priority_wins (t : RT) (cidr : String) :
    (∀ r, t.best cidr = some r → r ∈ t.cands cidr ∧ ∀ x ∈ t.cands cidr, better x r = false) ∧
    (∀ x, x ∈ t.cands cidr → (t.desired cidr).isSome = true) := by
  refine ⟨fun r h => best_spec t cidr r h, ?_⟩
  intro x hx
  unfold RT.desired
  have := best_isSome t cidr x hx
  cases h : t.best cidr with
  | none => rw [h] at this; simp at this
  | some v => simp

/-- **One attempt with a full resync** (`attemptApply` when `fullResync` is set; partial: not the per-interface
rescan path).  From any state with one kernel route per destination: if the attempt reports no error and
queues no interface, then every desired route is in the kernel exactly, every kernel route that is Felix's
(`routeIsOurs`) is the desired route of its destination (so stale owned routes are gone), Felix's view of
its own routes is exact, and the resync is no longer pending. -/
theorem attempt_converges_partial (w : W) (hf : w.t.fullResync = true) (hn : w.K.keys.Nodup)
    (hok : w.attempt.2 = false) (hrs : w.attempt.1.t.rescan = []) :
    (∀ c r, w.attempt.1.t.desired c = some r → w.attempt.1.K.get c = some r) ∧
    (∀ c r, w.attempt.1.K.get c = some r → w.attempt.1.t.owns r = true → w.attempt.1.t.desired c = some r) ∧
    ViewExact w.attempt.1 ∧ w.attempt.1.t.fullResync = false := by
  obtain ⟨h1, h2, h3, _⟩ := attempt_converges w hf hn hok hrs
  exact ⟨h1.1, h1.2, h2, h3⟩

/-- **routes_converge** (partial: full-resync Applies; first attempt queues no interface).
After any history `ops` from any start state `w0` (one kernel route per destination), if a full resync is
pending and `Apply` — run with any injected failures `f`, including its inline retry — returns no error, then
the kernel holds exactly the desired route for every destination Felix wants. -/
theorem routes_converge_partial (w0 : W) (hn0 : w0.K.keys.Nodup) (ops : List Op) (f : Fails)
    (hf : (w0.run ops).t.fullResync = true)
    (hq : ({ w0.run ops with f := f } : W).attempt.1.t.rescan = [])
    (hok : ((w0.run ops).stepOp (Op.apply f)).2 = some false) :
    ∀ c r, ((w0.run ops).stepOp (Op.apply f)).1.t.desired c = some r →
      ((w0.run ops).stepOp (Op.apply f)).1.K.get c = some r := by
  have hok' : ({ w0.run ops with f := f } : W).apply.2 = false := by
    simpa [W.stepOp] using hok
  exact (apply_converges_full { w0.run ops with f := f } hf (run_nodup ops w0 hn0) hq hok').1

/-- **stale_owned_removed** (partial: as `routes_converge_partial`).  Under the same conditions every kernel
route that is Felix's is the desired route of its destination: owned routes Felix no longer wants are gone. -/
theorem stale_owned_removed_partial (w0 : W) (hn0 : w0.K.keys.Nodup) (ops : List Op) (f : Fails)
    (hf : (w0.run ops).t.fullResync = true)
    (hq : ({ w0.run ops with f := f } : W).attempt.1.t.rescan = [])
    (hok : ((w0.run ops).stepOp (Op.apply f)).2 = some false) :
    ∀ c r, ((w0.run ops).stepOp (Op.apply f)).1.K.get c = some r →
      ((w0.run ops).stepOp (Op.apply f)).1.t.owns r = true →
      ((w0.run ops).stepOp (Op.apply f)).1.t.desired c = some r := by
  have hok' : ({ w0.run ops with f := f } : W).apply.2 = false := by
    simpa [W.stepOp] using hok
  exact (apply_converges_full { w0.run ops with f := f } hf (run_nodup ops w0 hn0) hq hok').2

/-- **unowned_routes_unchanged** (partial: as above, but WITHOUT assuming that Apply succeeds).  After any
history, an `Apply` with a full resync pending and any injected failures leaves in place every kernel route
that is not Felix's (judged with the interface states Apply ends with) at a destination Felix has no route
for. -/
theorem unowned_routes_unchanged_partial (w0 : W) (hn0 : w0.K.keys.Nodup) (ops : List Op) (f : Fails)
    (hf : (w0.run ops).t.fullResync = true)
    (hq : ({ w0.run ops with f := f } : W).attempt.1.t.rescan = [])
    (c : String) (r : KRoute) (hk : (w0.run ops).K.get c = some r)
    (ho : ((w0.run ops).stepOp (Op.apply f)).1.t.owns r = false)
    (hd : ((w0.run ops).stepOp (Op.apply f)).1.t.desired c = none) :
    ((w0.run ops).stepOp (Op.apply f)).1.K.get c = some r :=
  apply_full_unowned { w0.run ops with f := f } hf (run_nodup ops w0 hn0) hq c r hk ho hd

/-! ### Non-vacuity -/

/-- Two classes and two interfaces compete for one destination: class 0 on the lower index wins. -/
def exT : RT :=
  { pol := { workloadPrefixes := ["cali"], removeNonCalico := true, special := ["vxlan.calico"], allProtos := [80], exclusiveProtos := [80] }
    defProto := 80
    ifaces := [("cali1", ⟨10, true⟩), ("cali2", ⟨11, true⟩), ("vxlan.calico", ⟨20, true⟩), ("cali3", ⟨12, false⟩)]
    wants := [⟨2, "vxlan.calico", "10.65.0.1/32", "10.0.0.2", "vxlan"⟩, ⟨0, "cali1", "10.65.0.1/32", "", "link"⟩,
              ⟨1, "cali2", "10.65.0.1/32", "", "link"⟩, ⟨0, "cali3", "10.65.0.1/32", "", "link"⟩] }

example : (exT.best "10.65.0.1/32").map (fun p => (p.1.iface, p.2)) = some ("cali1", 10) := by decide
example : (exT.cands "10.65.0.1/32").length = 3 := by decide
example : exT.desired "10.99.0.0/16" = none := by decide

/-- A start state with a stale owned route (wrong interface), a stale owned route nobody wants, and a foreign
route on a non-Calico interface. -/
def exW0 : W :=
  { t := { pol := exT.pol, defProto := 80 }
    kif := [("lo", ⟨1, true⟩), ("cali1", ⟨10, true⟩), ("cali2", ⟨11, true⟩), ("eth0", ⟨2, true⟩)]
    K := [("10.65.0.1/32", ⟨11, "", 80, "link"⟩), ("10.65.0.9/32", ⟨10, "", 80, "link"⟩),
          ("192.168.0.0/24", ⟨2, "192.168.0.1", 3, "gw"⟩)] }

/-- A history: route updates, an Apply in which the route listing fails, an interface flap, a foreign route. -/
def exOps : List Op :=
  [Op.upd ⟨0, "cali1", "10.65.0.1/32", "", "link"⟩, Op.upd ⟨1, "cali2", "10.65.0.1/32", "", "link"⟩,
   Op.apply { routeList := true }, Op.iface "cali2" 11 (some false), Op.iface "cali2" 11 (some true),
   Op.kroute "10.1.0.0/16" ⟨2, "192.168.0.1", 3, "gw"⟩, Op.kroute "10.65.7.7/32" ⟨10, "", 80, "link"⟩, Op.resync]

/- The hypotheses of the `_partial` theorems hold for this history (with a RouteDel failure injected into the
final Apply, so that the inline retry runs), and the conclusion is what one expects. -/
#guard exW0.K.keys.Nodup
#guard (exW0.run exOps).t.fullResync
#guard ({ exW0.run exOps with f := { del := true } } : W).attempt.2                       -- first attempt fails
#guard ({ exW0.run exOps with f := { del := true } } : W).attempt.1.t.rescan.isEmpty
#guard ((exW0.run exOps).stepOp (Op.apply { del := true })).2 == some false              -- Apply succeeds
#guard ((exW0.run exOps).stepOp (Op.apply { del := true })).1.K.get "10.65.0.1/32" == some ⟨10, "", 80, "link"⟩
#guard ((exW0.run exOps).stepOp (Op.apply { del := true })).1.K.get "10.65.0.9/32" == none
#guard (exW0.run exOps).K.get "10.65.7.7/32" == some ⟨10, "", 80, "link"⟩
#guard ((exW0.run exOps).stepOp (Op.apply { del := true })).1.K.get "10.65.7.7/32" == none
#guard ((exW0.run exOps).stepOp (Op.apply { del := true })).1.K.get "192.168.0.0/24" == some ⟨2, "192.168.0.1", 3, "gw"⟩
#guard ((exW0.run exOps).stepOp (Op.apply { del := true })).1.K.get "10.1.0.0/16" == some ⟨2, "192.168.0.1", 3, "gw"⟩
#guard ((exW0.run exOps).stepOp (Op.apply { del := true })).1.t.owns ⟨2, "192.168.0.1", 3, "gw"⟩ == false
#guard ((exW0.run exOps).stepOp (Op.apply { del := true })).1.t.owns ⟨10, "", 80, "link"⟩

end CalicoVerif.C17
