import CalicoVerif.Proofs.C17b
/-!
C17 — Route sync converges for Felix's routes and leaves other routes alone.
Property theorems over the model `CalicoVerif.Model.C17` (conflict resolution, ownership, full
resync, delta application with netlink failures, inline retry).

NOT proved in Lean (evaluated as oracles on the real code after every Apply, and backed by the
correspondence): `routes_converge` and `stale_owned_removed` as end-to-end statements over failure
histories.  Per-interface rescans, grace periods, ARP, conntrack tracking and multi-path are outside
the model.
-/
namespace CalicoVerif.C17

/-- **class_priority_wins**: for every desired-route history and interface state, the route Felix
wants for a destination is one of the live targets (interface present and up) and no live target
has a lower route class, or the same class and a higher interface index. -/
theorem class_priority_wins (t : RT) (cidr : String) (r : Want × Nat) (h : t.best cidr = some r) :
    r ∈ t.cands cidr ∧ ∀ x ∈ t.cands cidr, better x r = false :=
  best_spec t cidr r h

/-- A destination with at least one live target always has a desired route. -/
theorem live_target_gets_route (t : RT) (cidr : String) (x : Want × Nat) (hx : x ∈ t.cands cidr) :
    (t.desired cidr).isSome = true := by
  unfold RT.desired
  have := best_isSome t cidr x hx
  cases h : t.best cidr with
  | none => rw [h] at this; simp at this
  | some v => simp

/-- **unowned_routes_unchanged (no resync pending)**: one `attemptApply`, with any injected
RouteReplace/RouteDel failures: a destination that Felix does not want and that is not in Felix's
view of its own routes keeps exactly the kernel route it had. -/
theorem unowned_routes_unchanged_attempt (w : W) (c : String) (hf : w.t.fullResync = false)
    (hdp : c ∉ w.t.dp.keys) (hd : w.t.desired c = none) :
    w.attempt.1.K.get c = w.K.get c := by
  unfold W.attempt
  simp only [hf, Bool.false_eq_true, if_false]
  have h1 := deletePass_other w c hdp
  have hd1 : w.deletePass.1.t.desired c = none := by rw [desired_congr h1.2 c]; exact hd
  have h2 := updatePass_other w.deletePass.1 c hd1
  exact h2.1.trans h1.1

/-- **unowned_routes_unchanged (after a full resync)**: `doFullResync` puts into Felix's view only
routes that pass `routeIsOurs`, so a destination all of whose kernel routes are not Felix's never
enters the view. -/
theorem resync_view_only_owned (w : W) (c : String) (hl : w.f.linkList = false) (hr : w.f.routeList = false)
    (hun : ∀ r, (c, r) ∈ w.K → ({ w.t with ifaces := w.kif } : RT).owns r = false) :
    c ∉ w.fullResync.1.t.dp.keys := by
  unfold W.fullResync
  simp only [hl, hr, Bool.false_eq_true, if_false]
  intro hmem
  simp only [Map.keys, List.mem_map] at hmem
  obtain ⟨p, hp, rfl⟩ := hmem
  have hp' := List.mem_filter.1 hp
  have := hun p.2 hp'.1
  rw [this] at hp'
  exact absurd hp'.2 (by simp)

/-- `doFullResync` does not touch the kernel. -/
theorem resync_kernel_same (w : W) : w.fullResync.1.K = w.K := by
  unfold W.fullResync
  split
  · rfl
  · split <;> rfl

/-! ### Non-vacuity -/

/-- Two classes and two interfaces compete for one destination: class 0 on the lower index wins. -/
def exT : RT :=
  { pol := { workloadPrefixes := ["cali"], removeNonCalico := true, special := ["vxlan.calico"], allProtos := [80], exclusiveProtos := [80] }
    defProto := 80
    ifaces := [("cali1", ⟨10, true⟩), ("cali2", ⟨11, true⟩), ("vxlan.calico", ⟨20, true⟩), ("cali3", ⟨12, false⟩)]
    wants := [⟨2, "vxlan.calico", "10.65.0.1/32", "10.0.0.2", "vxlan"⟩, ⟨0, "cali1", "10.65.0.1/32", "", "link"⟩,
              ⟨1, "cali2", "10.65.0.1/32", "", "link"⟩, ⟨0, "cali3", "10.65.0.1/32", "", "link"⟩] }

example : (exT.best "10.65.0.1/32").map (fun p => (p.1.iface, p.2)) = some ("cali1", 10) := by decide
example : (exT.cands "10.65.0.1/32").length = 3 := by decide
example : exT.desired "10.99.0.0/16" = none := by decide

end CalicoVerif.C17
