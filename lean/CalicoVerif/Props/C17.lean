import CalicoVerif.Proofs.C17g
/-!
C17 — Route sync converges for Felix's routes and leaves other routes alone.
Property theorems over the model `CalicoVerif.Model.C17` (conflict resolution, ownership, full resync,
per-interface rescans, delta application with netlink failures, inline retry of `Apply`).

Proved in full: `class_priority_wins`.
Proved for the FULL-RESYNC path only (hence `_partial`): convergence, stale removal and non-interference for an
`Apply` (including its inline retry) that starts with a full resync pending — the first Apply after start,
any Apply after `QueueResync`, any Apply after a failed resync — after ANY history of operations
(`W.run`: route API calls, interface events with immediate or delayed callbacks, foreign kernel changes, earlier
Applies with any failures) from ANY
start state whose kernel table has one route per destination.
What is missing: (1) Applies that only do per-interface rescans (`ifacesToRescan`/`resyncIface`) — for those
the three clauses are evaluated as oracles on the real code and backed by the model correspondence only;
(2) the `Apply`-level theorems assume that the first attempt leaves no interface queued for a rescan
(no RouteReplace failed on an interface that is down in the kernel) — the attempt-level theorem
`attempt_converges_partial` does not need that.
"Desired" in these theorems is the code's cache of desired routes (`kernelRoutes.Desired()`, recalculated per
destination on the code's triggers); that the cache equals the class-priority winner over the CURRENT targets and
interfaces after interface churn is NOT proved (it is false of the code in a corner case, see the report) — it is
what the convergence oracle checks on the real code.
Grace periods, ARP, conntrack tracking and multi-path are outside the model.
-/
namespace CalicoVerif.C17

theorem recalc_desired (t : RT) (c : String) : (t.recalc c).desired c = t.bestRoute c := by
  unfold RT.recalc RT.desired
  cases h : t.bestRoute c with
  | none => dsimp only; rw [Map.get_erase]; simp
  | some r => dsimp only; rw [Map.get_set]; simp

/-- **class_priority_wins**: for every set of desired targets and interface knowledge, the route that
`recalculateDesiredKernelRoute` picks for a destination comes from one of the live targets (interface name known,
its index recorded as up) and no live target has a lower route class, or the same class and a higher interface
index; a destination with at least one live target always gets a route; that route is what the recalculation
stores as the desired route; and `RouteUpdate` leaves the desired route of its destination equal to the winner
over the updated targets.  (The desired routes are a cache, recalculated per destination on the code's triggers;
that the cache is up to date for every destination after interface events is checked by the oracle, not proved.) -/
theorem class_priority_wins (t : RT) (cidr : String) :
    (∀ r, t.best cidr = some r → r ∈ t.cands cidr ∧ ∀ x ∈ t.cands cidr, better x r = false) ∧
    (∀ x, x ∈ t.cands cidr → (t.bestRoute cidr).isSome = true) ∧
    (t.recalc cidr).desired cidr = t.bestRoute cidr ∧
    (∀ w : Want, (t.routeUpdate w).desired (t.norm w.raw) = (t.routeUpdate w).bestRoute (t.norm w.raw)) := by
  refine ⟨fun r h => best_spec t cidr r h, ?_, recalc_desired t cidr, ?_⟩
  · intro x hx
    unfold RT.bestRoute
    have := best_isSome t cidr x hx
    cases h : t.best cidr with
    | none => rw [h] at this; simp at this
    | some v => simp
  · intro w
    unfold RT.routeUpdate
    rw [recalc_desired]
    rfl

/-- **One attempt with a full resync** (`attemptApply` when `fullResync` is set; partial: not the per-interface
rescan path).  From any state with one kernel route per destination: if the attempt reports no error and
queues no interface, then every desired route is in the kernel exactly, every kernel route that is Felix's
(`routeIsOurs`) is the desired route of its destination (so stale owned routes are gone), Felix's view of
its own routes is exact, and the resync is no longer pending. -/
theorem attempt_converges_partial (w : W) (hf : w.t.fullResync = true) (hn : w.K.keys.Nodup)
    (hok : w.attempt.2 = false) (hrs : w.attempt.1.t.rescan = []) :
    (∀ c r, w.attempt.1.t.desired c = some r → w.attempt.1.K.get c = some r) ∧
    (∀ c r, w.attempt.1.K.get c = some r → w.attempt.1.t.owns r = true → w.attempt.1.t.desired c = some r) ∧
    ViewExact w.attempt.1 ∧ w.attempt.1.t.fullResync = false := by
  obtain ⟨h1, h2, h3, _⟩ := attempt_converges w hf hn hok hrs
  exact ⟨h1.1, h1.2, h2, h3⟩

/-- **routes_converge** (partial: full-resync Applies; first attempt queues no interface).
After any history `ops` from any start state `w0` (one kernel route per destination), if a full resync is
pending and `Apply` — run with any injected failures `f`, including its inline retry — returns no error, then
the kernel holds exactly the desired route for every destination Felix wants. -/
theorem routes_converge_partial (w0 : W) (hn0 : w0.K.keys.Nodup) (ops : List Op) (f : Fails)
    (hf : (w0.run ops).t.fullResync = true)
    (hq : ({ w0.run ops with f := f } : W).attempt.1.t.rescan = [])
    (hok : ((w0.run ops).stepOp (Op.apply f)).2 = some false) :
    ∀ c r, ((w0.run ops).stepOp (Op.apply f)).1.t.desired c = some r →
      ((w0.run ops).stepOp (Op.apply f)).1.K.get c = some r := by
  have hok' : ({ w0.run ops with f := f } : W).apply.2 = false := by
    simpa [W.stepOp] using hok
  exact (apply_converges_full { w0.run ops with f := f } hf (run_nodup ops w0 hn0) hq hok').1

/-- **stale_owned_removed** (partial: as `routes_converge_partial`).  Under the same conditions every kernel
route that is Felix's is the desired route of its destination: owned routes Felix no longer wants are gone. -/
theorem stale_owned_removed_partial (w0 : W) (hn0 : w0.K.keys.Nodup) (ops : List Op) (f : Fails)
    (hf : (w0.run ops).t.fullResync = true)
    (hq : ({ w0.run ops with f := f } : W).attempt.1.t.rescan = [])
    (hok : ((w0.run ops).stepOp (Op.apply f)).2 = some false) :
    ∀ c r, ((w0.run ops).stepOp (Op.apply f)).1.K.get c = some r →
      ((w0.run ops).stepOp (Op.apply f)).1.t.owns r = true →
      ((w0.run ops).stepOp (Op.apply f)).1.t.desired c = some r := by
  have hok' : ({ w0.run ops with f := f } : W).apply.2 = false := by
    simpa [W.stepOp] using hok
  exact (apply_converges_full { w0.run ops with f := f } hf (run_nodup ops w0 hn0) hq hok').2

/-- **unowned_routes_unchanged** (partial: as above, but WITHOUT assuming that Apply succeeds).  After any
history, an `Apply` with a full resync pending and any injected failures leaves in place every kernel route
that is not Felix's (judged with the interface states Apply ends with) at a destination Felix has no route
for. -/
theorem unowned_routes_unchanged_partial (w0 : W) (hn0 : w0.K.keys.Nodup) (ops : List Op) (f : Fails)
    (hf : (w0.run ops).t.fullResync = true)
    (hq : ({ w0.run ops with f := f } : W).attempt.1.t.rescan = [])
    (c : String) (r : KRoute) (hk : (w0.run ops).K.get c = some r)
    (ho : ((w0.run ops).stepOp (Op.apply f)).1.t.owns r = false)
    (hd : ((w0.run ops).stepOp (Op.apply f)).1.t.desired c = none) :
    ((w0.run ops).stepOp (Op.apply f)).1.K.get c = some r :=
  apply_full_unowned { w0.run ops with f := f } hf (run_nodup ops w0 hn0) hq c r hk ho hd

/-! ### Non-vacuity -/

/-- Two classes and two interfaces compete for one destination: class 0 on the lower index wins. -/
def exT : RT :=
  { pol := { workloadPrefixes := ["cali"], removeNonCalico := true, special := ["vxlan.calico"], allProtos := [80], exclusiveProtos := [80] }
    defProto := 80
    n2i := [("cali1", 10), ("cali2", 11), ("vxlan.calico", 20), ("cali3", 12)]
    i2n := [(10, "cali1"), (11, "cali2"), (20, "vxlan.calico"), (12, "cali3")]
    i2s := [(10, true), (11, true), (20, true), (12, false)]
    wants := [⟨2, "vxlan.calico", "10.65.0.1/32", "10.0.0.2", "vxlan", "10.65.0.1/32"⟩, ⟨0, "cali1", "10.65.0.1/32", "", "link", "10.65.0.1/32"⟩,
              ⟨1, "cali2", "10.65.0.1/32", "", "link", "10.65.0.1/32"⟩, ⟨0, "cali3", "10.65.0.1/32", "", "link", "10.65.0.1/32"⟩] }

example : (exT.best "10.65.0.1/32").map (fun p => (p.1.iface, p.2)) = some ("cali1", 10) := by decide
example : (exT.cands "10.65.0.1/32").length = 3 := by decide
example : exT.bestRoute "10.99.0.0/16" = none := by decide
example : (exT.recalc "10.65.0.1/32").desired "10.65.0.1/32" = some ⟨10, "", 80, "link"⟩ := by decide

/- `normalizeRouteKey`: on an IPv6 table a target given with priority 0 is filed, desired and looked for under
priority 1024; an explicit priority and IPv4 keys are left alone. -/
def exT6 : RT := { exT with v6 := true, wants := [], des := [] }
example : exT6.norm "fd00:65::1/128" = "fd00:65::1/128@1024" ∧ exT6.norm "fd00:7::/64@512" = "fd00:7::/64@512" ∧
    exT.norm "10.65.0.1/32" = "10.65.0.1/32" := by decide
example : (exT6.routeUpdate ⟨0, "cali1", "", "", "link", "fd00:65::1/128"⟩).desired "fd00:65::1/128@1024" = some ⟨10, "", 80, "link"⟩ ∧
    (exT6.routeUpdate ⟨0, "cali1", "", "", "link", "fd00:65::1/128"⟩).desired "fd00:65::1/128" = none := by decide

/-- A start state with a stale owned route (wrong interface), a stale owned route nobody wants, and a foreign
route on a non-Calico interface. -/
def exW0 : W :=
  { t := { pol := exT.pol, defProto := 80 }
    kif := [("lo", ⟨1, true⟩), ("cali1", ⟨10, true⟩), ("cali2", ⟨11, true⟩), ("eth0", ⟨2, true⟩)]
    K := [("10.65.0.1/32", ⟨11, "", 80, "link"⟩), ("10.65.0.9/32", ⟨10, "", 80, "link"⟩),
          ("192.168.0.0/24", ⟨2, "192.168.0.1", 3, "gw"⟩)] }

/-- A history: route updates, an Apply in which the route listing fails, an interface flap, a foreign route. -/
def exOps : List Op :=
  [Op.upd ⟨0, "cali1", "10.65.0.1/32", "", "link", "10.65.0.1/32"⟩, Op.upd ⟨1, "cali2", "10.65.0.1/32", "", "link", "10.65.0.1/32"⟩,
   Op.apply { routeList := true }, Op.iface "cali2" 11 (some false), Op.iface "cali2" 11 (some true),
   Op.kroute "10.1.0.0/16" ⟨2, "192.168.0.1", 3, "gw"⟩, Op.kroute "10.65.7.7/32" ⟨10, "", 80, "link"⟩, Op.resync]

/- The hypotheses of the `_partial` theorems hold for this history (with a RouteDel failure injected into the
final Apply, so that the inline retry runs), and the conclusion is what one expects. -/
#guard exW0.K.keys.Nodup
#guard (exW0.run exOps).t.fullResync
#guard ({ exW0.run exOps with f := { del := true } } : W).attempt.2                       -- first attempt fails
#guard ({ exW0.run exOps with f := { del := true } } : W).attempt.1.t.rescan.isEmpty
#guard ((exW0.run exOps).stepOp (Op.apply { del := true })).2 == some false              -- Apply succeeds
#guard ((exW0.run exOps).stepOp (Op.apply { del := true })).1.K.get "10.65.0.1/32" == some ⟨10, "", 80, "link"⟩
#guard ((exW0.run exOps).stepOp (Op.apply { del := true })).1.K.get "10.65.0.9/32" == none
#guard (exW0.run exOps).K.get "10.65.7.7/32" == some ⟨10, "", 80, "link"⟩
#guard ((exW0.run exOps).stepOp (Op.apply { del := true })).1.K.get "10.65.7.7/32" == none
#guard ((exW0.run exOps).stepOp (Op.apply { del := true })).1.K.get "192.168.0.0/24" == some ⟨2, "192.168.0.1", 3, "gw"⟩
#guard ((exW0.run exOps).stepOp (Op.apply { del := true })).1.K.get "10.1.0.0/16" == some ⟨2, "192.168.0.1", 3, "gw"⟩
#guard ((exW0.run exOps).stepOp (Op.apply { del := true })).1.t.owns ⟨2, "192.168.0.1", 3, "gw"⟩ == false
#guard ((exW0.run exOps).stepOp (Op.apply { del := true })).1.t.owns ⟨10, "", 80, "link"⟩

/-! ### What the code believes versus what is true: the guard, and the known finding that violates it

The theorems above speak about the code's CACHE of desired routes and its own interface maps.  The property is
about the routes that SHOULD be there: the class-priority winner over the targets and the KERNEL's interfaces.
`W.truth` is the table state with exact interface knowledge; `W.CacheTrue` (decidable: a finite check over the
wanted destinations) says that the cached desired routes are the true winners. -/

/-- Exact interface knowledge: what `refreshAllIfaceStates` is meant to learn from the kernel's links. -/
def W.truth (w : W) : RT :=
  { w.t with n2i := w.kif.map (fun p => (p.1, p.2.idx)), i2n := w.kif.map (fun p => (p.2.idx, p.1)),
             i2s := w.kif.map (fun p => (p.2.idx, p.2.up)) }

/-- The guard: for every wanted destination the cached desired route is the true class-priority winner, and
nothing else is cached. -/
def W.CacheTrue (w : W) : Bool :=
  (w.t.wants.all (fun x => w.t.desired x.cidr == w.truth.bestRoute x.cidr)) &&
  (w.t.des.all (fun p => w.t.wants.any (fun x => x.cidr == p.1)))

theorem get_none_of_not_key {α : Type} (m : Map α) (c : String) (h : ∀ p ∈ m, p.1 ≠ c) : m.get c = none := by
  induction m with
  | nil => rfl
  | cons p m ih =>
    have hp : (c == p.1) = false := by simp [Ne.symm (h p List.mem_cons_self)]
    simp only [Map.get, List.lookup, hp]
    exact ih (fun q hq => h q (List.mem_cons_of_mem _ hq))

theorem bestRoute_none_of_unwanted (t : RT) (c : String) (h : ∀ x ∈ t.wants, x.cidr ≠ c) : t.bestRoute c = none := by
  have : t.cands c = [] := by
    unfold RT.cands
    apply List.filterMap_eq_nil_iff.2
    intro x hx
    have : (x.cidr == c) = false := by simp [h x hx]
    simp [this]
  unfold RT.bestRoute
  rw [best_eq, this]; rfl

theorem cacheTrue_spec (w : W) (h : w.CacheTrue = true) (c : String) : w.t.desired c = w.truth.bestRoute c := by
  unfold W.CacheTrue at h
  simp only [Bool.and_eq_true, List.all_eq_true, List.any_eq_true, beq_iff_eq] at h
  by_cases hc : ∃ x ∈ w.t.wants, x.cidr = c
  · obtain ⟨x, hx, rfl⟩ := hc
    exact h.1 x hx
  · have hnw : ∀ x ∈ w.t.wants, x.cidr ≠ c := fun x hx e => hc ⟨x, hx, e⟩
    rw [bestRoute_none_of_unwanted w.truth c hnw]
    apply get_none_of_not_key
    intro p hp e
    obtain ⟨x, hx, hxe⟩ := h.2 p hp
    exact hnw x hx (hxe.trans e)

/-- **routes_converge / stale_owned_removed against the truth** (partial: full-resync Applies, first attempt queues
no interface, AND the explicit guard `CacheTrue` on the resulting state).  Under the guard, a successful Apply
leaves the kernel holding exactly the true class-priority winner for every destination some target wants on a
link that is up in the kernel, and every kernel route that is Felix's is such a winner.  The guard is NOT
implied by the other hypotheses: see `ifindex_reuse_rescan_witness` below (known finding). -/
theorem routes_converge_truth_partial (w0 : W) (hn0 : w0.K.keys.Nodup) (ops : List Op) (f : Fails)
    (hf : (w0.run ops).t.fullResync = true)
    (hq : ({ w0.run ops with f := f } : W).attempt.1.t.rescan = [])
    (hok : ((w0.run ops).stepOp (Op.apply f)).2 = some false)
    (hg : ((w0.run ops).stepOp (Op.apply f)).1.CacheTrue = true) :
    (∀ c r, ((w0.run ops).stepOp (Op.apply f)).1.truth.bestRoute c = some r →
      ((w0.run ops).stepOp (Op.apply f)).1.K.get c = some r) ∧
    (∀ c r, ((w0.run ops).stepOp (Op.apply f)).1.K.get c = some r →
      ((w0.run ops).stepOp (Op.apply f)).1.t.owns r = true →
      ((w0.run ops).stepOp (Op.apply f)).1.truth.bestRoute c = some r) := by
  refine ⟨?_, ?_⟩
  · intro c r h
    rw [← cacheTrue_spec _ hg c] at h
    exact routes_converge_partial w0 hn0 ops f hf hq hok c r h
  · intro c r hk ho
    rw [← cacheTrue_spec _ hg c]
    exact stale_owned_removed_partial w0 hn0 ops f hf hq hok c r hk ho

/-- **Known finding (Lean witness)**: a stale name->index entry makes the third pass of `refreshAllIfaceStates`
wipe a LIVE interface.  `exAlias` is the interface knowledge after `resyncIface` has refreshed `cali3`, which was
re-created with the index `vxlan.calico` used to have, through `OnIfaceStateChanged(cali3, 20, up)` directly: index
20 now names `cali3`, but `ifaceNameToIndex["vxlan.calico"] = 20` is still there.  The next full resync finds
`vxlan.calico` missing and reports it NotPresent — which deletes the name and state of index 20, i.e. of `cali3`:
its routes are no longer desired although the link is up. -/
def exAlias : RT :=
  { pol := exT.pol, defProto := 80
    n2i := [("cali3", 20), ("vxlan.calico", 20)], i2n := [(20, "cali3")], i2s := [(20, true), (12, true)]
    wants := [⟨3, "cali3", "10.65.1.0/26", "", "link", "10.65.1.0/26"⟩]
    des := [("10.65.1.0/26", ⟨20, "", 80, "link"⟩)] }

theorem ifindex_reuse_rescan_witness :
    exAlias.bestRoute "10.65.1.0/26" = some ⟨20, "", 80, "link"⟩ ∧
    (exAlias.onIface "vxlan.calico" 0 none).i2n.get 20 = none ∧
    (exAlias.onIface "vxlan.calico" 0 none).i2s.get 20 = none ∧
    (exAlias.onIface "vxlan.calico" 0 none).bestRoute "10.65.1.0/26" = none ∧
    ((exAlias.onIface "vxlan.calico" 0 none).routeUpdate ⟨3, "cali3", "10.65.1.0/26", "", "link", "10.65.1.0/26"⟩).desired "10.65.1.0/26" = none := by
  decide

/-- The whole history of the known finding, on the model (executable): all hypotheses of
`routes_converge_truth_partial` except the guard hold for the last Apply-with-resync, the guard fails after the
following `RouteUpdate` + Apply, and the wanted route on the live link is missing. -/
def exW1 : W := { t := { pol := exT.pol, defProto := 80 }, kif := [("lo", ⟨1, true⟩)] }
def exFinding : List Op :=
  [Op.iface "vxlan.calico" 20 (some true), Op.iface "cali3" 12 (some true), Op.apply {},
   Op.iface "cali3" 12 (some false), Op.iface "cali3" 12 (some true), Op.link "cali3" 20 (some true),
   Op.apply {}, Op.resync]
#guard (exW1.run exFinding).t.fullResync
#guard ((exW1.run exFinding).stepOp (Op.apply {})).2 == some false
#guard ({ exW1.run exFinding with f := {} } : W).attempt.1.t.rescan.isEmpty
#guard (exW1.run (exFinding ++ [Op.apply {}])).kif.get "cali3" == some ⟨20, true⟩
#guard (exW1.run (exFinding ++ [Op.apply {}])).t.n2i.get "cali3" == some 20 && (exW1.run (exFinding ++ [Op.apply {}])).t.i2s.get 20 == none
#guard ((exW1.run (exFinding ++ [Op.apply {}, Op.upd ⟨3, "cali3", "10.65.1.0/26", "", "link", "10.65.1.0/26"⟩])).stepOp (Op.apply {})).2 == some false
#guard !((exW1.run (exFinding ++ [Op.apply {}, Op.upd ⟨3, "cali3", "10.65.1.0/26", "", "link", "10.65.1.0/26"⟩])).stepOp (Op.apply {})).1.CacheTrue
#guard ((exW1.run (exFinding ++ [Op.apply {}, Op.upd ⟨3, "cali3", "10.65.1.0/26", "", "link", "10.65.1.0/26"⟩])).stepOp (Op.apply {})).1.truth.bestRoute "10.65.1.0/26" == some ⟨20, "", 80, "link"⟩
#guard ((exW1.run (exFinding ++ [Op.apply {}, Op.upd ⟨3, "cali3", "10.65.1.0/26", "", "link", "10.65.1.0/26"⟩])).stepOp (Op.apply {})).1.K.get "10.65.1.0/26" == none
/- ... and once the delayed callbacks arrive the interface is known again and the next Apply programs the route. -/
#guard ((exW1.run (exFinding ++ [Op.apply {}, Op.upd ⟨3, "cali3", "10.65.1.0/26", "", "link", "10.65.1.0/26"⟩, Op.apply {}, Op.flush])).stepOp (Op.apply {})).1.K.get "10.65.1.0/26" == some ⟨20, "", 80, "link"⟩

/- Ordinary histories satisfy the guard: `exOps` above (route updates, a failing listing, an interface flap, foreign
routes, QueueResync) followed by an Apply with a RouteDel failure; and a history in which links change with delayed
callbacks and an index is re-used, as long as no per-interface rescan runs in the window. -/
#guard ((exW0.run exOps).stepOp (Op.apply { del := true })).1.CacheTrue
def exOps2 : List Op :=
  [Op.iface "cali1" 10 (some true), Op.upd ⟨0, "cali1", "10.65.0.1/32", "", "link", "10.65.0.1/32"⟩, Op.apply {},
   Op.iface "cali1" 10 none, Op.link "cali2" 10 (some true), Op.upd ⟨0, "cali2", "10.65.0.2/32", "", "link", "10.65.0.2/32"⟩, Op.resync]
#guard (exW1.run exOps2).t.fullResync
#guard ((exW1.run exOps2).stepOp (Op.apply {})).2 == some false
#guard ((exW1.run exOps2).stepOp (Op.apply {})).1.CacheTrue
#guard ((exW1.run exOps2).stepOp (Op.apply {})).1.K.get "10.65.0.2/32" == some ⟨10, "", 80, "link"⟩
#guard ((exW1.run exOps2).stepOp (Op.apply {})).1.K.get "10.65.0.1/32" == none

end CalicoVerif.C17
