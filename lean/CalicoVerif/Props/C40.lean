import CalicoVerif.Model.C40
import CalicoVerif.Proofs.C40
/-!
C40 — Host protection and workload isolation hold on every packet path.

Theorems over the model of the rendered static chains (tied to felix/rules by text equality of the
rendered chains for generated configs), for ALL packets, configs, tiers/policies (policy chains are
arbitrary: `cs` is universally quantified apart from the static chains named in the hypotheses).
-/
namespace CalicoVerif.C40

/-- the packet is inbound traffic for the failsafe entry `pp`. -/
def Pkt.matchesIn (p : Pkt) (pp : ProtoPort) : Prop :=
  p.proto = pp.protoNum ∧ p.dport = pp.port ∧
  (match pp.net with | some (_, a, l) => inNet p.src a l = true | none => True)

/-- the packet is outbound traffic for the failsafe entry `pp`. -/
def Pkt.matchesOut (p : Pkt) (pp : ProtoPort) : Prop :=
  p.proto = pp.protoNum ∧ p.dport = pp.port ∧
  (match pp.net with | some (_, a, l) => inNet p.dst a l = true | none => True)

theorem failsafeRule_in_matches (p : Pkt) (pp : ProtoPort) (h : p.matchesIn pp) :
    (failsafeRule pp true true).matches p = true := by
  obtain ⟨h1, h2, h3⟩ := h
  unfold failsafeRule Rule.matches
  cases hn : pp.net with
  | none => simp [Crit.holds, h1, h2]
  | some t =>
    obtain ⟨t, a, l⟩ := t
    simp only [hn] at h3
    simp [Crit.holds, h1, h2, h3]

theorem failsafeRule_out_matches (p : Pkt) (pp : ProtoPort) (h : p.matchesOut pp) :
    (failsafeRule pp true false).matches p = true := by
  obtain ⟨h1, h2, h3⟩ := h
  unfold failsafeRule Rule.matches
  cases hn : pp.net with
  | none => simp [Crit.holds, h1, h2]
  | some t =>
    obtain ⟨t, a, l⟩ := t
    simp only [hn] at h3
    simp [Crit.holds, h1, h2, h3]

/-- **failsafe chains.**  In every table (raw / mangle / filter), a packet to a configured inbound
failsafe port is ACCEPTed by `cali-failsafe-in` (and outbound by `cali-failsafe-out`). -/
theorem failsafe_chain_accepts (cs : Chains) (f : Nat) (c : Config) (raw : Bool) (p : Pkt) (pp : ProtoPort) :
    (pp ∈ c.failsafeIn → p.matchesIn pp → runRules cs f (failsafeInChain c raw) p = .accept) ∧
    (pp ∈ c.failsafeOut → p.matchesOut pp → runRules cs f (failsafeOutChain c raw) p = .accept) := by
  constructor
  · intro hpp hm
    apply runRules_all_accept
    · intro r hr
      simp only [failsafeInChain, List.mem_append, List.mem_map] at hr
      rcases hr with ⟨x, _, rfl⟩ | hr
      · rfl
      · split at hr
        · obtain ⟨x, _, rfl⟩ := List.mem_map.1 hr; rfl
        · simp at hr
    · exact ⟨failsafeRule pp true true,
        by simp only [failsafeInChain, List.mem_append, List.mem_map]; exact Or.inl ⟨pp, hpp, rfl⟩,
        failsafeRule_in_matches p pp hm⟩
  · intro hpp hm
    apply runRules_all_accept
    · intro r hr
      simp only [failsafeOutChain, List.mem_append, List.mem_map] at hr
      rcases hr with ⟨x, _, rfl⟩ | hr
      · rfl
      · split at hr
        · obtain ⟨x, _, rfl⟩ := List.mem_map.1 hr; rfl
        · simp at hr
    · exact ⟨failsafeRule pp true false,
        by simp only [failsafeOutChain, List.mem_append, List.mem_map]; exact Or.inl ⟨pp, hpp, rfl⟩,
        failsafeRule_out_matches p pp hm⟩

theorem conntrack_skipped (c : Config) (allow : Action) (p : Pkt) (hct : p.ct = 0) :
    ∀ r ∈ conntrackRules c allow, r.matches p = false := by
  intro r hr
  simp only [conntrackRules, List.mem_append] at hr
  rcases hr with (hr | hr) | hr
  · split at hr
    · simp at hr; subst hr; simp [Rule.matches, Crit.holds, hct]
    · simp at hr
  · simp at hr; subst hr; simp [Rule.matches, Crit.holds, hct]
  · split at hr
    · simp at hr
    · simp at hr; subst hr; simp [Rule.matches, Crit.holds, hct]

/-- **failsafe_always_accepted (each of the three paths: untracked/raw, pre-DNAT/mangle, normal/filter).**
Whatever tiers and policies are rendered into a host endpoint chain (`tiers` and every policy chain
in `cs` are arbitrary), a NEW-connection packet on a configured failsafe port is ACCEPTed by the host
endpoint's chain: the jump to the failsafe chain comes before any policy.  (For the untracked
chains the conntrack state is irrelevant.)  The conntrack-state hypothesis is needed: see
`failsafe_invalid_ct_dropped`. -/
theorem failsafe_always_accepted (cs : Chains) (f : Nat) (c : Config) (k : HepKind) (tiers : List Tier)
    (p : Pkt) (pp : ProtoPort) (hct : k.untracked = true ∨ p.ct = 0)
    (hin : cs chFailsafeIn = some (failsafeInChain c k.untracked))
    (hout : cs chFailsafeOut = some (failsafeOutChain c k.untracked)) :
    (k.ingress = true → pp ∈ c.failsafeIn → p.matchesIn pp →
      runRules cs (f + 1) (hepChain c k tiers) p = .accept) ∧
    (k.ingress = false → pp ∈ c.failsafeOut → p.matchesOut pp →
      runRules cs (f + 1) (hepChain c k tiers) p = .accept) := by
  have hskip : ∀ r ∈ (if k.untracked then [] else conntrackRules c (k.allow c)), r.matches p = false := by
    intro r hr
    rcases hct with h | h
    · simp [h] at hr
    · split at hr
      · simp at hr
      · exact conntrack_skipped c _ p h r hr
  constructor
  · intro hk hpp hm
    unfold hepChain
    rw [List.append_assoc, List.append_assoc, runRules_skip cs _ _ _ p hskip]
    simp only [hk, if_true, List.cons_append, List.nil_append]
    rw [runRules_cons_jump cs _ _ _ p chFailsafeIn (by simp [Rule.matches]) rfl,
        runChain_succ cs f chFailsafeIn p _ hin, (failsafe_chain_accepts cs f c k.untracked p pp).1 hpp hm]
  · intro hk hpp hm
    unfold hepChain
    rw [List.append_assoc, List.append_assoc, runRules_skip cs _ _ _ p hskip]
    simp only [hk, Bool.false_eq_true, if_false, List.cons_append, List.nil_append]
    rw [runRules_cons_jump cs _ _ _ p chFailsafeOut (by simp [Rule.matches]) rfl,
        runChain_succ cs f chFailsafeOut p _ hout, (failsafe_chain_accepts cs f c k.untracked p pp).2 hpp hm]

def exCfg : Config :=
  { ipip := true, vxlan := false, vxlanPort := 4789, toHost := .drop, filterAllow := .accept,
    mangleAllow := .accept, disableCtInvalid := false, prefixes := ["cali"],
    failsafeIn := [{ protoName := "tcp", protoNum := 6, port := 22 }], failsafeOut := [] }

def exChains : Chains := fun n =>
  if n = chFailsafeIn then some (failsafeInChain exCfg false)
  else if n = "cali-pi-gnp/deny-all" then some [{ action := .drop }]
  else if n = chWlToHost then some (wlToHostChain exCfg)
  else if n = chFromWlDispatch then some (wlDispatchChain true ["cali1234"])
  else none

def exPkt : Pkt :=
  { proto := 6, sport := 40000, dport := 22, src := 1, dst := 2, inIf := "eth0", outIf := "", ct := 0,
    mark := 0, dstLocal := true, srcSets := [] }

def exTiers : List Tier := [{ name := "t", defaultPass := false, pols := [("deny-all", false)] }]

/-- non-vacuity + a concrete run: ssh to a host endpoint with a deny-all tier is accepted, telnet is
dropped by the policy. -/
example :
    runRules exChains 3 (hepChain exCfg .filterIn exTiers) exPkt = .accept ∧
    runRules exChains 3 (hepChain exCfg .filterIn exTiers) { exPkt with dport := 23 } = .drop := by
  decide

/-- The conntrack hypothesis of `failsafe_always_accepted` cannot be dropped for the tracked chains:
in the filter (and mangle) host endpoint chain the `--ctstate INVALID` drop precedes the failsafe
jump, so a failsafe-port packet that conntrack classifies INVALID is dropped (unless
`DisableConntrackInvalidCheck` is set).  By design in the code; recorded here as the exact limit of
the guarantee. -/
theorem failsafe_invalid_ct_dropped :
    runRules exChains 3 (hepChain exCfg .filterIn []) { exPkt with ct := 2 } = .drop := by
  decide

/-- **wl_to_host_after_egress.**  In `cali-wl-to-host` the configured endpoint-to-host action is
applied only to packets that the workload's egress dispatch (its egress policy) returned, i.e. did
not drop or accept by itself. -/
theorem wl_to_host_after_egress (cs : Chains) (f : Nat) (c : Config) (p : Pkt) :
    runRules cs f (wlToHostChain c) p =
      (match runChain cs f chFromWlDispatch p with
       | .fall p' => (match c.toHost with
          | .accept => .accept
          | .drop => .drop
          | _ => runRules cs f [{ comment := some "Configured DefaultEndpointToHostAction", action := c.toHost }] p')
       | v => v) := by
  unfold wlToHostChain
  rw [runRules_cons_jump cs f _ _ p chFromWlDispatch (by simp [Rule.matches]) rfl]
  cases runChain cs f chFromWlDispatch p with
  | accept => rfl
  | drop => rfl
  | fall p' =>
    simp only []
    cases h : c.toHost with
    | accept => exact runRules_cons_accept cs f _ _ p' (by simp [Rule.matches]) rfl
    | drop => exact runRules_cons_drop cs f _ _ p' (by simp [Rule.matches]) rfl
    | _ => rfl

/-- the workload dispatch chain drops what matches none of its endpoints. -/
theorem wlDispatch_unknown_dropped (cs : Chains) (f : Nat) (ifaces : List String) (p : Pkt)
    (hunk : ∀ n ∈ ifaces, ifaceMatches n p.inIf = false) :
    runRules cs f (wlDispatchChain true ifaces) p = .drop := by
  unfold wlDispatchChain
  rw [runRules_skip]
  · exact runRules_cons_drop cs f _ _ p (by simp [Rule.matches]) rfl
  · intro r hr
    obtain ⟨n, hn, rfl⟩ := List.mem_map.1 hr
    simp [Rule.matches, Crit.holds, hunk n hn]

/-- a run of `goto cali-wl-to-host` rules, one per workload prefix. -/
theorem prefix_gotos (cs : Chains) (f : Nat) (prefixes : List String) (rest : List Rule) (p : Pkt)
    (hm : ∃ pfx ∈ prefixes, ifaceMatches (pfx ++ "+") p.inIf = true) :
    runRules cs f (prefixes.map inputPrefixRule ++ rest) p = runChain cs f chWlToHost p := by
  induction prefixes with
  | nil => obtain ⟨x, hx, _⟩ := hm; simp at hx
  | cons a as ih =>
    simp only [List.map_cons, List.cons_append]
    by_cases ha : ifaceMatches (a ++ "+") p.inIf = true
    · exact runRules_cons_goto cs f _ _ p chWlToHost (by simp [inputPrefixRule, Rule.matches, Crit.holds, ha]) rfl
    · have ha' : ifaceMatches (a ++ "+") p.inIf = false := by simpa using ha
      rw [runRules_cons_nomatch cs f _ _ p (by simp [inputPrefixRule, Rule.matches, Crit.holds, ha'])]
      apply ih
      obtain ⟨x, hx, hxm⟩ := hm
      rcases List.mem_cons.1 hx with h | h
      · subst h; rw [hxm] at ha'; cases ha'
      · exact ⟨x, h, hxm⟩

/-- the tunnel-filter rules at the top of `cali-INPUT` do not fire for a packet that is neither IPIP
nor UDP. -/
theorem input_tunnel_rules_skipped (c : Config) (p : Pkt) (h4 : p.proto ≠ 4) (h17 : p.proto ≠ 17) :
    ∀ r ∈ inputTunnelRules c, r.matches p = false := by
  intro r hr
  unfold inputTunnelRules at hr
  rcases List.mem_append.1 hr with hr | hr
  · split at hr
    · simp at hr; rcases hr with rfl | rfl <;> simp [Rule.matches, Crit.holds, h4]
    · simp at hr
  · split at hr
    · simp at hr; rcases hr with rfl | rfl <;> simp [Rule.matches, Crit.holds, h17]
    · simp at hr

/-- **unknown_workload_iface_dropped (INPUT path).**  A packet (not IPIP/UDP tunnel traffic) arriving
on an interface that matches a workload prefix but none of the endpoints Felix knows is dropped on
the input path, whatever else is configured: `cali-INPUT` → `cali-wl-to-host` →
`cali-from-wl-dispatch` → "Unknown interface" DROP. -/
theorem unknown_workload_iface_dropped_input (cs : Chains) (f : Nat) (c : Config) (ifaces : List String) (p : Pkt)
    (h4 : p.proto ≠ 4) (h17 : p.proto ≠ 17)
    (hwl : ∃ pfx ∈ c.prefixes, ifaceMatches (pfx ++ "+") p.inIf = true)
    (hunk : ∀ n ∈ ifaces, ifaceMatches n p.inIf = false)
    (h1 : cs chWlToHost = some (wlToHostChain c))
    (h2 : cs chFromWlDispatch = some (wlDispatchChain true ifaces)) :
    runRules cs (f + 2) (filterInputChain c) p = .drop := by
  unfold filterInputChain
  rw [runRules_skip cs _ _ _ p (input_tunnel_rules_skipped c p h4 h17),
      prefix_gotos cs _ c.prefixes _ p hwl, runChain_succ cs (f + 1) chWlToHost p _ h1,
      wl_to_host_after_egress, runChain_succ cs f chFromWlDispatch p _ h2,
      wlDispatch_unknown_dropped cs f ifaces p hunk]

/-- **foreign_tunnel_dropped.**  With IPIP enabled, an IPIP packet whose source is not in the
all-Calico-hosts IP set (or that is not addressed to the host) is dropped by `cali-INPUT`; with VXLAN
enabled, a UDP packet to the VXLAN port of the host from a source outside the allowed-VTEP IP set
is dropped. -/
theorem foreign_tunnel_dropped (cs : Chains) (f : Nat) (c : Config) (p : Pkt) :
    (c.ipip = true → p.proto = 4 → (p.srcSets.contains ipsetAllHosts && p.dstLocal) = false →
      runRules cs f (filterInputChain c) p = .drop) ∧
    (c.vxlan = true → p.proto = 17 → p.dport = c.vxlanPort → p.dstLocal = true →
      p.srcSets.contains ipsetVXLAN = false → runRules cs f (filterInputChain c) p = .drop) := by
  constructor
  · intro hi hp hs
    unfold filterInputChain inputTunnelRules
    simp only [hi, if_true, List.cons_append, List.append_assoc]
    rw [runRules_cons_nomatch cs f _ _ p (by
      simp only [Rule.matches, List.all_cons, List.all_nil, Crit.holds, hp, Bool.and_true, beq_self_eq_true, Bool.true_and]
      exact hs)]
    exact runRules_cons_drop cs f _ _ p (by simp [Rule.matches, Crit.holds, hp]) rfl
  · intro hv hp hd hl hs
    unfold filterInputChain inputTunnelRules
    have hskip : ∀ r ∈ (if c.ipip = true then
        [({ comment := some "Allow IPIP packets from Calico hosts",
            crits := [.protoNum 4, .srcSet ipsetAllHosts, .dstLocal], action := c.filterAllow } : Rule),
         { comment := some "Drop IPIP packets from non-Calico hosts", crits := [.protoNum 4], action := .drop }]
        else []), r.matches p = false := by
      intro r hr
      split at hr
      · simp at hr; rcases hr with rfl | rfl <;> simp [Rule.matches, Crit.holds, hp]
      · simp at hr
    simp only [hv, if_true, List.append_assoc]
    rw [runRules_skip cs f _ _ p hskip]
    simp only [List.cons_append]
    have hs' : ¬ ipsetVXLAN ∈ p.srcSets := by simpa using hs
    rw [runRules_cons_nomatch cs f _ _ p (by simp [Rule.matches, Crit.holds, hp, hd, hl, hs'])]
    exact runRules_cons_drop cs f _ _ p (by simp [Rule.matches, Crit.holds, hp, hd, hl]) rfl

example : runRules exChains 4 (filterInputChain exCfg) { exPkt with proto := 4 } = .drop := by decide

/-- **unknown_workload_iface_dropped (FORWARD path), partial.**  On the forward path the packet
visits `cali-from-hep-forward` and, for every workload prefix listed before the one its interface
matches, possibly `cali-to-wl-dispatch` (when it leaves through a workload interface of that
prefix).  PROVIDED those chains do not terminally ACCEPT it (they drop it or hand it back with the
same in-interface — true for NEW connections, whose allow verdicts are "mark + RETURN"; an
ESTABLISHED flow can be accepted there by a conntrack rule), the packet from an unknown workload
interface is dropped.  What is missing for the full statement: models of the host endpoint forward
chains and of the to-workload chains (C09/C10's business). -/
theorem unknown_workload_iface_dropped_forward_partial (cs : Chains) (f : Nat) (c : Config)
    (ifaces : List String) (p : Pkt)
    (hnoacc : ∀ ch, ch = chFromHepFwd ∨ ch = chToWlDispatch → ∀ q : Pkt, q.inIf = p.inIf →
      runChain cs (f + 1) ch q = .drop ∨ ∃ q', runChain cs (f + 1) ch q = .fall q' ∧ q'.inIf = p.inIf)
    (hwl : ∃ pfx ∈ c.prefixes, ifaceMatches (pfx ++ "+") p.inIf = true)
    (hunk : ∀ n ∈ ifaces, ifaceMatches n p.inIf = false)
    (h2 : cs chFromWlDispatch = some (wlDispatchChain true ifaces)) :
    runRules cs (f + 1) (filterForwardChain c) p = .drop := by
  have hpfx : ∀ (ps : List String) (q : Pkt), q.inIf = p.inIf →
      (∃ pfx ∈ ps, ifaceMatches (pfx ++ "+") p.inIf = true) →
      runRules cs (f + 1) (fwdPrefixRules ps ++ fwdTail) q = .drop := by
    intro ps
    induction ps with
    | nil => intro q _ h; obtain ⟨x, hx, _⟩ := h; simp at hx
    | cons a as ih =>
      intro q hq hex
      simp only [fwdPrefixRules, List.cons_append]
      by_cases ha : ifaceMatches (a ++ "+") q.inIf = true
      · rw [runRules_cons_jump cs _ _ _ q chFromWlDispatch (by simp [fwdInRule, Rule.matches, Crit.holds, ha]) rfl,
            runChain_succ cs f chFromWlDispatch q _ h2,
            wlDispatch_unknown_dropped cs f ifaces q (by rw [hq]; exact hunk)]
      · have ha' : ifaceMatches (a ++ "+") q.inIf = false := by simpa using ha
        rw [runRules_cons_nomatch cs _ _ _ q (by simp [fwdInRule, Rule.matches, Crit.holds, ha'])]
        have hex' : ∃ pfx ∈ as, ifaceMatches (pfx ++ "+") p.inIf = true := by
          obtain ⟨x, hx, hxm⟩ := hex
          rcases List.mem_cons.1 hx with h | h
          · subst h; rw [hq, hxm] at ha'; cases ha'
          · exact ⟨x, h, hxm⟩
        by_cases hb : (fwdOutRule a).matches q = true
        · rw [runRules_cons_jump cs _ _ _ q chToWlDispatch hb rfl]
          rcases hnoacc chToWlDispatch (Or.inr rfl) q hq with h | ⟨q', h, hq'⟩
          · rw [h]
          · rw [h]; exact ih q' hq' hex'
        · have hb' : (fwdOutRule a).matches q = false := by simpa using hb
          rw [runRules_cons_nomatch cs _ _ _ q hb']
          exact ih q hq hex'
  unfold filterForwardChain
  rw [runRules_cons_clear cs _ _ _ p _ (by simp [Rule.matches]) rfl]
  by_cases hm : (({ crits := [.markClear markAccept], action := .jump chFromHepFwd } : Rule).matches
      { p with mark := clearBits p.mark (markAll - markAccept) }) = true
  · rw [runRules_cons_jump cs _ _ _ _ chFromHepFwd hm rfl]
    rcases hnoacc chFromHepFwd (Or.inl rfl) { p with mark := clearBits p.mark (markAll - markAccept) } rfl with h | ⟨q', h, hq'⟩
    · rw [h]
    · rw [h]; exact hpfx c.prefixes q' hq' hwl
  · have hm' : (({ crits := [.markClear markAccept], action := .jump chFromHepFwd } : Rule).matches
      { p with mark := clearBits p.mark (markAll - markAccept) }) = false := by simpa using hm
    rw [runRules_cons_nomatch cs _ _ _ _ hm']
    exact hpfx c.prefixes _ rfl hwl

end CalicoVerif.C40
