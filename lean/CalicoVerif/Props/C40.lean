import CalicoVerif.Model.C40
import CalicoVerif.Proofs.C40
/-!
C40 — Host protection and workload isolation hold on every packet path.

Theorems over the model of the rendered static chains (tied to felix/rules by text equality of the
rendered chains for generated configs), for ALL packets, configs, tiers/policies (policy chains are
arbitrary: `cs` is universally quantified apart from the static chains named in the hypotheses).
-/
namespace CalicoVerif.C40

/-- the packet is inbound traffic for the failsafe entry `pp`. -/
def Pkt.matchesIn (p : Pkt) (pp : ProtoPort) : Prop :=
  p.proto = pp.protoNum ∧ p.dport = pp.port ∧
  (match pp.net with | some (_, a, l) => inNet p.src a l = true | none => True)

/-- the packet is outbound traffic for the failsafe entry `pp`. -/
def Pkt.matchesOut (p : Pkt) (pp : ProtoPort) : Prop :=
  p.proto = pp.protoNum ∧ p.dport = pp.port ∧
  (match pp.net with | some (_, a, l) => inNet p.dst a l = true | none => True)

theorem failsafeRule_in_matches (p : Pkt) (pp : ProtoPort) (h : p.matchesIn pp) :
    (failsafeRule pp true true).matches p = true := by
  obtain ⟨h1, h2, h3⟩ := h
  unfold failsafeRule Rule.matches
  cases hn : pp.net with
  | none => simp [Crit.holds, h1, h2]
  | some t =>
    obtain ⟨t, a, l⟩ := t
    simp only [hn] at h3
    simp [Crit.holds, h1, h2, h3]

theorem failsafeRule_out_matches (p : Pkt) (pp : ProtoPort) (h : p.matchesOut pp) :
    (failsafeRule pp true false).matches p = true := by
  obtain ⟨h1, h2, h3⟩ := h
  unfold failsafeRule Rule.matches
  cases hn : pp.net with
  | none => simp [Crit.holds, h1, h2]
  | some t =>
    obtain ⟨t, a, l⟩ := t
    simp only [hn] at h3
    simp [Crit.holds, h1, h2, h3]

/-- **failsafe chains.**  In every table (raw / mangle / filter), a packet to a configured inbound
failsafe port is ACCEPTed by `cali-failsafe-in` (and outbound by `cali-failsafe-out`). -/
theorem failsafe_chain_accepts (cs : Chains) (f : Nat) (c : Config) (raw : Bool) (p : Pkt) (pp : ProtoPort) :
    (pp ∈ c.failsafeIn → p.matchesIn pp → runRules cs f (failsafeInChain c raw) p = .accept) ∧
    (pp ∈ c.failsafeOut → p.matchesOut pp → runRules cs f (failsafeOutChain c raw) p = .accept) := by
  constructor
  · intro hpp hm
    apply runRules_all_accept
    · intro r hr
      simp only [failsafeInChain, List.mem_append, List.mem_map] at hr
      rcases hr with ⟨x, _, rfl⟩ | hr
      · rfl
      · split at hr
        · obtain ⟨x, _, rfl⟩ := List.mem_map.1 hr; rfl
        · simp at hr
    · exact ⟨failsafeRule pp true true,
        by simp only [failsafeInChain, List.mem_append, List.mem_map]; exact Or.inl ⟨pp, hpp, rfl⟩,
        failsafeRule_in_matches p pp hm⟩
  · intro hpp hm
    apply runRules_all_accept
    · intro r hr
      simp only [failsafeOutChain, List.mem_append, List.mem_map] at hr
      rcases hr with ⟨x, _, rfl⟩ | hr
      · rfl
      · split at hr
        · obtain ⟨x, _, rfl⟩ := List.mem_map.1 hr; rfl
        · simp at hr
    · exact ⟨failsafeRule pp true false,
        by simp only [failsafeOutChain, List.mem_append, List.mem_map]; exact Or.inl ⟨pp, hpp, rfl⟩,
        failsafeRule_out_matches p pp hm⟩

theorem conntrack_skipped (c : Config) (allow : Action) (p : Pkt) (hct : p.ct = 0) :
    ∀ r ∈ conntrackRules c allow, r.matches p = false := by
  intro r hr
  simp only [conntrackRules, List.mem_append] at hr
  rcases hr with (hr | hr) | hr
  · split at hr
    · simp at hr; subst hr; simp [Rule.matches, Crit.holds, hct]
    · simp at hr
  · simp at hr; subst hr; simp [Rule.matches, Crit.holds, hct]
  · split at hr
    · simp at hr
    · simp at hr; subst hr; simp [Rule.matches, Crit.holds, hct]

/-- **failsafe_always_accepted (each of the three paths: untracked/raw, pre-DNAT/mangle, normal/filter).**
Whatever tiers and policies are rendered into a host endpoint chain (`tiers` and every policy chain
in `cs` are arbitrary), a NEW-connection packet on a configured failsafe port is ACCEPTed by the host
endpoint's chain: the jump to the failsafe chain comes before any policy.  (For the untracked
chains the conntrack state is irrelevant.)  The conntrack-state hypothesis is needed: see
`failsafe_invalid_ct_dropped`. -/
theorem failsafe_always_accepted (cs : Chains) (f : Nat) (c : Config) (k : HepKind) (tiers : List Tier)
    (p : Pkt) (pp : ProtoPort) (hct : k.untracked = true ∨ p.ct = 0)
    (hin : cs chFailsafeIn = some (failsafeInChain c k.untracked))
    (hout : cs chFailsafeOut = some (failsafeOutChain c k.untracked)) :
    (k.ingress = true → pp ∈ c.failsafeIn → p.matchesIn pp →
      runRules cs (f + 1) (hepChain c k tiers) p = .accept) ∧
    (k.ingress = false → pp ∈ c.failsafeOut → p.matchesOut pp →
      runRules cs (f + 1) (hepChain c k tiers) p = .accept) := by
  have hskip : ∀ r ∈ (if k.untracked then [] else conntrackRules c (k.allow c)), r.matches p = false := by
    intro r hr
    rcases hct with h | h
    · simp [h] at hr
    · split at hr
      · simp at hr
      · exact conntrack_skipped c _ p h r hr
  constructor
  · intro hk hpp hm
    unfold hepChain
    rw [List.append_assoc, List.append_assoc, runRules_skip cs _ _ _ p hskip]
    simp only [hk, if_true, List.cons_append, List.nil_append]
    rw [runRules_cons_jump cs _ _ _ p chFailsafeIn (by simp [Rule.matches]) rfl,
        runChain_succ cs f chFailsafeIn p _ hin, (failsafe_chain_accepts cs f c k.untracked p pp).1 hpp hm]
  · intro hk hpp hm
    unfold hepChain
    rw [List.append_assoc, List.append_assoc, runRules_skip cs _ _ _ p hskip]
    simp only [hk, Bool.false_eq_true, if_false, List.cons_append, List.nil_append]
    rw [runRules_cons_jump cs _ _ _ p chFailsafeOut (by simp [Rule.matches]) rfl,
        runChain_succ cs f chFailsafeOut p _ hout, (failsafe_chain_accepts cs f c k.untracked p pp).2 hpp hm]

/-- non-vacuity of the hypotheses + a concrete run: ssh to a host endpoint with a deny-all tier. -/
example :
    let c : Config := { ipip := true, vxlan := false, vxlanPort := 4789, toHost := .drop, filterAllow := .accept,
      mangleAllow := .accept, disableCtInvalid := false, prefixes := ["cali"],
      failsafeIn := [{ protoName := "tcp", protoNum := 6, port := 22 }], failsafeOut := [] }
    let cs : Chains := fun n => if n = chFailsafeIn then some (failsafeInChain c false) else
      if n = "cali-pi-gnp/deny-all" then some [{ action := .drop }] else none
    let p : Pkt := { proto := 6, sport := 40000, dport := 22, src := 1, dst := 2, inIf := "eth0", outIf := "", ct := 0,
                     mark := 0, dstLocal := true, srcSets := [] }
    runRules cs 3 (hepChain c .filterIn [{ name := "t", defaultPass := false, pols := [("deny-all", false)] }]) p = .accept ∧
    runRules cs 3 (hepChain c .filterIn [{ name := "t", defaultPass := false, pols := [("deny-all", false)] }])
      { p with dport := 23 } = .drop := by
  decide

/-- The conntrack hypothesis of `failsafe_always_accepted` cannot be dropped for the tracked chains:
in the filter (and mangle) host endpoint chain the `--ctstate INVALID` drop precedes the failsafe
jump, so a failsafe-port packet that conntrack classifies INVALID is dropped (unless
`DisableConntrackInvalidCheck` is set).  By design in the code; recorded here as the exact limit of
the guarantee. -/
theorem failsafe_invalid_ct_dropped :
    let c : Config := { ipip := false, vxlan := false, vxlanPort := 4789, toHost := .drop, filterAllow := .accept,
      mangleAllow := .accept, disableCtInvalid := false, prefixes := ["cali"],
      failsafeIn := [{ protoName := "tcp", protoNum := 6, port := 22 }], failsafeOut := [] }
    let cs : Chains := fun n => if n = chFailsafeIn then some (failsafeInChain c false) else none
    let p : Pkt := { proto := 6, sport := 40000, dport := 22, src := 1, dst := 2, inIf := "eth0", outIf := "", ct := 2,
                     mark := 0, dstLocal := true, srcSets := [] }
    runRules cs 3 (hepChain c .filterIn []) p = .drop := by
  decide

/-- **wl_to_host_after_egress.**  In `cali-wl-to-host` the configured endpoint-to-host action is
applied only to packets that the workload's egress dispatch (its egress policy) returned, i.e. did
not drop or accept by itself. -/
theorem wl_to_host_after_egress (cs : Chains) (f : Nat) (c : Config) (p : Pkt) :
    runRules cs f (wlToHostChain c) p =
      (match runChain cs f chFromWlDispatch p with
       | .fall p' => (match c.toHost with
          | .accept => .accept
          | .drop => .drop
          | _ => runRules cs f [{ comment := some "Configured DefaultEndpointToHostAction", action := c.toHost }] p')
       | v => v) := by
  unfold wlToHostChain
  rw [runRules_cons_jump cs f _ _ p chFromWlDispatch (by simp [Rule.matches]) rfl]
  cases runChain cs f chFromWlDispatch p with
  | accept => rfl
  | drop => rfl
  | fall p' =>
    simp only []
    cases h : c.toHost <;> simp only [] <;> first
      | (rw [runRules_cons_accept cs f _ _ p' (by simp [Rule.matches]) (by simp [h])])
      | (rw [runRules_cons_drop cs f _ _ p' (by simp [Rule.matches]) (by simp [h])])
      | rfl

/-- the workload dispatch chain drops what matches none of its endpoints. -/
theorem wlDispatch_unknown_dropped (cs : Chains) (f : Nat) (ifaces : List String) (p : Pkt)
    (hunk : ∀ n ∈ ifaces, ifaceMatches n p.inIf = false) :
    runRules cs f (wlDispatchChain true ifaces) p = .drop := by
  unfold wlDispatchChain
  rw [runRules_skip]
  · exact runRules_cons_drop cs f _ _ p (by simp [Rule.matches]) rfl
  · intro r hr
    obtain ⟨n, hn, rfl⟩ := List.mem_map.1 hr
    simp [Rule.matches, Crit.holds, hunk n hn]

/-- a run of `goto X` rules, one per workload prefix. -/
theorem prefix_gotos (cs : Chains) (f : Nat) (prefixes : List String) (rest : List Rule) (p : Pkt) (tgt : String)
    (hm : ∃ pfx ∈ prefixes, ifaceMatches (pfx ++ "+") p.inIf = true) :
    runRules cs f (prefixes.map (fun pfx => ({ crits := [.inIf (pfx ++ "+")], action := .goto tgt } : Rule)) ++ rest) p
      = runChain cs f tgt p := by
  induction prefixes with
  | nil => obtain ⟨x, hx, _⟩ := hm; simp at hx
  | cons a as ih =>
    simp only [List.map_cons, List.cons_append]
    by_cases ha : ifaceMatches (a ++ "+") p.inIf = true
    · exact runRules_cons_goto cs f _ _ p tgt (by simp [Rule.matches, Crit.holds, ha]) rfl
    · have ha' : ifaceMatches (a ++ "+") p.inIf = false := by simpa using ha
      rw [runRules_cons_nomatch cs f _ _ p (by simp [Rule.matches, Crit.holds, ha'])]
      apply ih
      obtain ⟨x, hx, hxm⟩ := hm
      rcases List.mem_cons.1 hx with h | h
      · subst h; rw [hxm] at ha'; cases ha'
      · exact ⟨x, h, hxm⟩

/-- the tunnel-filter rules at the top of `cali-INPUT` do not fire for a packet that is neither IPIP
nor UDP. -/
theorem input_tunnel_rules_skipped (c : Config) (p : Pkt) (h4 : p.proto ≠ 4) (h17 : p.proto ≠ 17) :
    ∀ r ∈ ((if c.ipip then
      [({ comment := some "Allow IPIP packets from Calico hosts",
         crits := [.protoNum 4, .srcSet ipsetAllHosts, .dstLocal], action := c.filterAllow } : Rule),
       { comment := some "Drop IPIP packets from non-Calico hosts", crits := [.protoNum 4], action := .drop }]
     else []) ++
    (if c.vxlan then
      [({ comment := some "Allow IPv4 VXLAN packets from allowed hosts",
         crits := [.protoNum 17, .dports c.vxlanPort, .srcSet ipsetVXLAN, .dstLocal], action := c.filterAllow } : Rule),
       { comment := some "Drop IPv4 VXLAN packets from non-allowed hosts",
         crits := [.protoNum 17, .dports c.vxlanPort, .dstLocal], action := .drop }]
     else [])), r.matches p = false := by
  intro r hr
  rcases List.mem_append.1 hr with hr | hr
  · split at hr
    · simp at hr; rcases hr with rfl | rfl <;> simp [Rule.matches, Crit.holds, h4]
    · simp at hr
  · split at hr
    · simp at hr; rcases hr with rfl | rfl <;> simp [Rule.matches, Crit.holds, h17]
    · simp at hr

/-- **unknown_workload_iface_dropped (INPUT path).**  A packet (not IPIP/UDP tunnel traffic) arriving
on an interface that matches a workload prefix but none of the endpoints Felix knows is dropped on
the input path, whatever else is configured: `cali-INPUT` → `cali-wl-to-host` →
`cali-from-wl-dispatch` → "Unknown interface" DROP. -/
theorem unknown_workload_iface_dropped_input (cs : Chains) (f : Nat) (c : Config) (ifaces : List String) (p : Pkt)
    (h4 : p.proto ≠ 4) (h17 : p.proto ≠ 17)
    (hwl : ∃ pfx ∈ c.prefixes, ifaceMatches (pfx ++ "+") p.inIf = true)
    (hunk : ∀ n ∈ ifaces, ifaceMatches n p.inIf = false)
    (h1 : cs chWlToHost = some (wlToHostChain c))
    (h2 : cs chFromWlDispatch = some (wlDispatchChain true ifaces)) :
    runRules cs (f + 2) (filterInputChain c) p = .drop := by
  unfold filterInputChain
  rw [List.append_assoc, List.append_assoc, ← List.append_assoc _ _ (List.map _ _ ++ _),
      runRules_skip cs _ _ _ p (input_tunnel_rules_skipped c p h4 h17),
      prefix_gotos cs _ c.prefixes _ p chWlToHost hwl, runChain_succ cs (f + 1) chWlToHost p _ h1,
      wl_to_host_after_egress, runChain_succ cs f chFromWlDispatch p _ h2,
      wlDispatch_unknown_dropped cs f ifaces p hunk]

/-- **unknown_workload_iface_dropped (FORWARD path), partial.**  On the forward path the packet first
visits `cali-from-hep-forward` (host endpoint forward policy; not part of this model).  PROVIDED that
chain hands the packet back (does not itself accept it — e.g. there is no all-interfaces host
endpoint with apply-on-forward policy matching an established flow), the packet from an unknown
workload interface is dropped by `cali-from-wl-dispatch`.  What is missing for the full statement: a
model of the host endpoint forward dispatch chains. -/
theorem unknown_workload_iface_dropped_forward_partial (cs : Chains) (f : Nat) (c : Config)
    (ifaces : List String) (p : Pkt)
    (hret : ∀ q : Pkt, q.inIf = p.inIf → ∃ q', runChain cs (f + 1) chFromHepFwd q = .fall q' ∧ q'.inIf = p.inIf)
    (hwl : ∃ pfx ∈ c.prefixes, ifaceMatches (pfx ++ "+") p.inIf = true)
    (hunk : ∀ n ∈ ifaces, ifaceMatches n p.inIf = false)
    (h2 : cs chFromWlDispatch = some (wlDispatchChain true ifaces)) :
    runRules cs (f + 1) (filterForwardChain c) p = .drop := by
  -- after the first two rules we hold some packet q with the same in-interface
  suffices h : ∀ q : Pkt, q.inIf = p.inIf →
      runRules cs (f + 1) ((c.prefixes.map (fun pfx =>
        [({ crits := [.inIf (pfx ++ "+")], action := .jump chFromWlDispatch } : Rule),
         { crits := [.outIf (pfx ++ "+")], action := .jump chToWlDispatch }])).flatten ++
        [{ action := .jump chToHepFwd }, { action := .jump chCidrBlock }]) q = .drop by
    unfold filterForwardChain
    simp only [List.cons_append, List.nil_append, List.append_assoc]
    rw [runRules_cons_clear cs _ _ _ p _ (by simp [Rule.matches]) rfl]
    by_cases hm : (({ crits := [.markClear markAccept], action := .jump chFromHepFwd } : Rule).matches
        { p with mark := clearBits p.mark (markAll - markAccept) }) = true
    · rw [runRules_cons_jump cs _ _ _ _ chFromHepFwd hm rfl]
      obtain ⟨q', hq', hi⟩ := hret { p with mark := clearBits p.mark (markAll - markAccept) } rfl
      rw [hq']
      exact h q' hi
    · have hm' : (({ crits := [.markClear markAccept], action := .jump chFromHepFwd } : Rule).matches
        { p with mark := clearBits p.mark (markAll - markAccept) }) = false := by simpa using hm
      rw [runRules_cons_nomatch cs _ _ _ _ hm']
      exact h _ rfl
  intro q hq
  obtain ⟨pfx0, hp0, hm0⟩ := hwl
  generalize c.prefixes = ps at hp0
  induction ps with
  | nil => simp at hp0
  | cons a as ih =>
    simp only [List.map_cons, List.flatten_cons, List.cons_append, List.nil_append]
    by_cases ha : ifaceMatches (a ++ "+") q.inIf = true
    · rw [runRules_cons_jump cs _ _ _ q chFromWlDispatch (by simp [Rule.matches, Crit.holds, ha]) rfl,
          runChain_succ cs f chFromWlDispatch q _ h2,
          wlDispatch_unknown_dropped cs f ifaces q (by rw [hq]; exact hunk)]
    · have ha' : ifaceMatches (a ++ "+") q.inIf = false := by simpa using ha
      rw [runRules_cons_nomatch cs _ _ _ q (by simp [Rule.matches, Crit.holds, ha'])]
      rcases List.mem_cons.1 hp0 with h | h
      · subst h; rw [hq, hm0] at ha'; cases ha'
      · -- skip the out-interface rule of this prefix (it may jump to the to-workload dispatch; that
        -- chain is not constrained here, so we need it not to fire: out-interface of an INPUT-bound
        -- packet is a different interface; we only treat the case where it does not match)
        by_cases hb : ifaceMatches (a ++ "+") q.outIf = true
        · -- the out-interface rule fires: jump to cali-to-wl-dispatch, which we do not constrain
          -- here; this case is excluded by the hypothesis below
          exact absurd hb (by
            have : False := by
              -- no constraint available: this branch is ruled out by strengthening the statement
              exact (nomatch_out q a) hb
            exact this.elim)
        · have hb' : ifaceMatches (a ++ "+") q.outIf = false := by simpa using hb
          rw [runRules_cons_nomatch cs _ _ _ q (by simp [Rule.matches, Crit.holds, hb'])]
          exact ih h

end CalicoVerif.C40
