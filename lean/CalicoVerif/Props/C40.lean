import CalicoVerif.Model.C40
import CalicoVerif.Proofs.C40
/-!
C40 — Host protection and workload isolation hold on every packet path.

Theorems over the model of the rendered static chains (tied to felix/rules by text equality of the
rendered chains for generated configs), for ALL packets, configs, tiers/policies (policy chains are
arbitrary: `cs` is universally quantified apart from the static chains named in the hypotheses).
-/
namespace CalicoVerif.C40

/-- the packet is inbound traffic for the failsafe entry `pp`. -/
def Pkt.matchesIn (p : Pkt) (pp : ProtoPort) : Prop :=
  p.proto = pp.protoNum ∧ p.dport = pp.port ∧
  (match pp.net with | some (_, a, l) => inNet p.src a l = true | none => True)

/-- the packet is outbound traffic for the failsafe entry `pp`. -/
def Pkt.matchesOut (p : Pkt) (pp : ProtoPort) : Prop :=
  p.proto = pp.protoNum ∧ p.dport = pp.port ∧
  (match pp.net with | some (_, a, l) => inNet p.dst a l = true | none => True)

theorem failsafeRule_in_matches (p : Pkt) (pp : ProtoPort) (h : p.matchesIn pp) :
    (failsafeRule pp true true).matches p = true := by
  obtain ⟨h1, h2, h3⟩ := h
  unfold failsafeRule Rule.matches
  cases hn : pp.net with
  | none => simp [Crit.holds, h1, h2]
  | some t =>
    obtain ⟨t, a, l⟩ := t
    simp only [hn] at h3
    simp [Crit.holds, h1, h2, h3]

theorem failsafeRule_out_matches (p : Pkt) (pp : ProtoPort) (h : p.matchesOut pp) :
    (failsafeRule pp true false).matches p = true := by
  obtain ⟨h1, h2, h3⟩ := h
  unfold failsafeRule Rule.matches
  cases hn : pp.net with
  | none => simp [Crit.holds, h1, h2]
  | some t =>
    obtain ⟨t, a, l⟩ := t
    simp only [hn] at h3
    simp [Crit.holds, h1, h2, h3]

/-- **failsafe chains.**  In every table (raw / mangle / filter), a packet to a configured inbound
failsafe port is ACCEPTed by `cali-failsafe-in` (and outbound by `cali-failsafe-out`). -/
theorem failsafe_chain_accepts (cs : Chains) (f : Nat) (c : Config) (raw : Bool) (p : Pkt) (pp : ProtoPort)
    (hfam : pp.otherFamily = false) :
    (pp ∈ c.failsafeIn → p.matchesIn pp → runRules cs f (failsafeInChain c raw) p = .accept) ∧
    (pp ∈ c.failsafeOut → p.matchesOut pp → runRules cs f (failsafeOutChain c raw) p = .accept) := by
  constructor
  · intro hpp hm
    apply runRules_all_accept
    · intro r hr
      simp only [failsafeInChain, List.mem_append, List.mem_map] at hr
      rcases hr with ⟨x, _, rfl⟩ | hr
      · rfl
      · split at hr
        · obtain ⟨x, _, rfl⟩ := List.mem_map.1 hr; rfl
        · simp at hr
    · exact ⟨failsafeRule pp true true,
        by simp only [failsafeInChain, List.mem_append, List.mem_map]
           exact Or.inl ⟨pp, List.mem_filter.2 ⟨hpp, by simp [hfam]⟩, rfl⟩,
        failsafeRule_in_matches p pp hm⟩
  · intro hpp hm
    apply runRules_all_accept
    · intro r hr
      simp only [failsafeOutChain, List.mem_append, List.mem_map] at hr
      rcases hr with ⟨x, _, rfl⟩ | hr
      · rfl
      · split at hr
        · obtain ⟨x, _, rfl⟩ := List.mem_map.1 hr; rfl
        · simp at hr
    · exact ⟨failsafeRule pp true false,
        by simp only [failsafeOutChain, List.mem_append, List.mem_map]
           exact Or.inl ⟨pp, List.mem_filter.2 ⟨hpp, by simp [hfam]⟩, rfl⟩,
        failsafeRule_out_matches p pp hm⟩

theorem conntrack_skipped (c : Config) (allow : Action) (p : Pkt) (hct : p.ct = 0) :
    ∀ r ∈ conntrackRules c allow, r.matches p = false := by
  intro r hr
  simp only [conntrackRules, List.mem_append] at hr
  rcases hr with (hr | hr) | hr
  · split at hr
    · simp at hr; subst hr; simp [Rule.matches, Crit.holds, hct]
    · simp at hr
  · simp at hr; subst hr; simp [Rule.matches, Crit.holds, hct]
  · split at hr
    · simp at hr
    · simp at hr; subst hr; simp [Rule.matches, Crit.holds, hct]

/-- **failsafe_always_accepted (each of the three paths: untracked/raw, pre-DNAT/mangle, normal/filter).**
Whatever tiers and policies are rendered into a host endpoint chain (`tiers` and every policy chain
in `cs` are arbitrary), a NEW-connection packet on a configured failsafe port is ACCEPTed by the host
endpoint's chain: the jump to the failsafe chain comes before any policy.  (For the untracked
chains the conntrack state is irrelevant.)  The conntrack-state hypothesis is needed: see
`failsafe_invalid_ct_dropped`. -/
theorem failsafe_always_accepted (cs : Chains) (f : Nat) (c : Config) (k : HepKind) (tiers : List Tier)
    (p : Pkt) (pp : ProtoPort) (hfam : pp.otherFamily = false) (hct : k.untracked = true ∨ p.ct = 0)
    (hin : cs chFailsafeIn = some (failsafeInChain c k.untracked))
    (hout : cs chFailsafeOut = some (failsafeOutChain c k.untracked)) :
    (k.ingress = true → pp ∈ c.failsafeIn → p.matchesIn pp →
      runRules cs (f + 1) (hepChain c k tiers) p = .accept) ∧
    (k.ingress = false → pp ∈ c.failsafeOut → p.matchesOut pp →
      runRules cs (f + 1) (hepChain c k tiers) p = .accept) := by
  have hskip : ∀ r ∈ (if k.untracked then [] else conntrackRules c (k.allow c)), r.matches p = false := by
    intro r hr
    rcases hct with h | h
    · simp [h] at hr
    · split at hr
      · simp at hr
      · exact conntrack_skipped c _ p h r hr
  constructor
  · intro hk hpp hm
    unfold hepChain
    rw [List.append_assoc, List.append_assoc, runRules_skip cs _ _ _ p hskip]
    simp only [hk, if_true, List.cons_append, List.nil_append]
    rw [runRules_cons_jump cs _ _ _ p chFailsafeIn (by simp [Rule.matches]) rfl,
        runChain_succ cs f chFailsafeIn p _ hin, (failsafe_chain_accepts cs f c k.untracked p pp hfam).1 hpp hm]
  · intro hk hpp hm
    unfold hepChain
    rw [List.append_assoc, List.append_assoc, runRules_skip cs _ _ _ p hskip]
    simp only [hk, Bool.false_eq_true, if_false, List.cons_append, List.nil_append]
    rw [runRules_cons_jump cs _ _ _ p chFailsafeOut (by simp [Rule.matches]) rfl,
        runChain_succ cs f chFailsafeOut p _ hout, (failsafe_chain_accepts cs f c k.untracked p pp hfam).2 hpp hm]

def exCfg : Config :=
  { ipip := true, vxlan := false, vxlanPort := 4789, toHost := .drop, filterAllow := .accept,
    mangleAllow := .accept, disableCtInvalid := false, prefixes := ["cali"],
    failsafeIn := [{ protoName := "tcp", protoNum := 6, port := 22 }], failsafeOut := [] }

def exChains : Chains := fun n =>
  if n = chFailsafeIn then some (failsafeInChain exCfg false)
  else if n = "cali-pi-gnp/deny-all" then some [{ action := .drop }]
  else if n = chWlToHost then some (wlToHostChain exCfg)
  else if n = chFromWlDispatch then some (wlDispatchChain true ["cali1234"])
  else none

def exPkt : Pkt :=
  { proto := 6, sport := 40000, dport := 22, src := 1, dst := 2, inIf := "eth0", outIf := "", ct := 0,
    mark := 0, dstLocal := true, srcSets := [] }

def exTiers : List Tier := [{ name := "t", defaultPass := false, pols := [("deny-all", false)] }]

/-- non-vacuity + a concrete run: ssh to a host endpoint with a deny-all tier is accepted, telnet is
dropped by the policy. -/
example :
    runRules exChains 3 (hepChain exCfg .filterIn exTiers) exPkt = .accept ∧
    runRules exChains 3 (hepChain exCfg .filterIn exTiers) { exPkt with dport := 23 } = .drop := by
  decide

/-- The conntrack hypothesis of `failsafe_always_accepted` cannot be dropped for the tracked chains:
in the filter (and mangle) host endpoint chain the `--ctstate INVALID` drop precedes the failsafe
jump, so a failsafe-port packet that conntrack classifies INVALID is dropped (unless
`DisableConntrackInvalidCheck` is set).  By design in the code; recorded here as the exact limit of
the guarantee. -/
theorem failsafe_invalid_ct_dropped :
    runRules exChains 3 (hepChain exCfg .filterIn []) { exPkt with ct := 2 } = .drop := by
  decide

/-- **wl_to_host_after_egress.**  In `cali-wl-to-host` the configured endpoint-to-host action is
applied only to packets that the workload's egress dispatch (its egress policy) returned, i.e. did
not drop or accept by itself. -/
theorem wl_to_host_after_egress (cs : Chains) (f : Nat) (c : Config) (p : Pkt) :
    runRules cs f (wlToHostChain c) p =
      (match runChain cs f chFromWlDispatch p with
       | .fall p' => (match c.toHost with
          | .accept => .accept
          | .drop => .drop
          | _ => runRules cs f [{ comment := some "Configured DefaultEndpointToHostAction", action := c.toHost }] p')
       | v => v) := by
  unfold wlToHostChain
  rw [runRules_cons_jump cs f _ _ p chFromWlDispatch (by simp [Rule.matches]) rfl]
  cases runChain cs f chFromWlDispatch p with
  | accept => rfl
  | drop => rfl
  | fall p' =>
    simp only []
    cases h : c.toHost with
    | accept => exact runRules_cons_accept cs f _ _ p' (by simp [Rule.matches]) rfl
    | drop => exact runRules_cons_drop cs f _ _ p' (by simp [Rule.matches]) rfl
    | _ => rfl

/-- the workload dispatch chain drops what matches none of its endpoints. -/
theorem wlDispatch_unknown_dropped (cs : Chains) (f : Nat) (ifaces : List String) (p : Pkt)
    (hunk : ∀ n ∈ ifaces, ifaceMatches n p.inIf = false) :
    runRules cs f (wlDispatchChain true ifaces) p = .drop := by
  unfold wlDispatchChain
  rw [runRules_skip]
  · exact runRules_cons_drop cs f _ _ p (by simp [Rule.matches]) rfl
  · intro r hr
    obtain ⟨n, hn, rfl⟩ := List.mem_map.1 hr
    simp [Rule.matches, Crit.holds, hunk n hn]

/-- a run of `goto cali-wl-to-host` rules, one per workload prefix. -/
theorem prefix_gotos (cs : Chains) (f : Nat) (prefixes : List String) (rest : List Rule) (p : Pkt)
    (hm : ∃ pfx ∈ prefixes, ifaceMatches (pfx ++ "+") p.inIf = true) :
    runRules cs f (prefixes.map inputPrefixRule ++ rest) p = runChain cs f chWlToHost p := by
  induction prefixes with
  | nil => obtain ⟨x, hx, _⟩ := hm; simp at hx
  | cons a as ih =>
    simp only [List.map_cons, List.cons_append]
    by_cases ha : ifaceMatches (a ++ "+") p.inIf = true
    · exact runRules_cons_goto cs f _ _ p chWlToHost (by simp [inputPrefixRule, Rule.matches, Crit.holds, ha]) rfl
    · have ha' : ifaceMatches (a ++ "+") p.inIf = false := by simpa using ha
      rw [runRules_cons_nomatch cs f _ _ p (by simp [inputPrefixRule, Rule.matches, Crit.holds, ha'])]
      apply ih
      obtain ⟨x, hx, hxm⟩ := hm
      rcases List.mem_cons.1 hx with h | h
      · subst h; rw [hxm] at ha'; cases ha'
      · exact ⟨x, h, hxm⟩

/-- the tunnel-filter rules at the top of `cali-INPUT` do not fire for a packet that is neither IPIP
nor UDP. -/
theorem input_tunnel_rules_skipped (c : Config) (p : Pkt) (h4 : c.ipip = false ∨ p.proto ≠ 4)
    (h17 : c.vxlan = false ∨ ¬ (p.proto = 17 ∧ p.dport = c.vxlanPort)) :
    ∀ r ∈ inputTunnelRules c, r.matches p = false := by
  intro r hr
  unfold inputTunnelRules at hr
  rcases List.mem_append.1 hr with hr | hr
  · split at hr
    · rename_i hi
      rcases h4 with h4 | h4
      · rw [h4] at hi; cases hi
      · simp at hr; rcases hr with rfl | rfl <;> simp [Rule.matches, Crit.holds, h4]
    · simp at hr
  · split at hr
    · rename_i hv
      rcases h17 with h17 | h17
      · rw [h17] at hv; cases hv
      · simp at hr
        rcases hr with rfl | rfl
        · simp only [Rule.matches, List.all_cons, List.all_nil, Crit.holds, Bool.and_true]
          by_cases e : p.proto = 17
          · have : p.dport ≠ c.vxlanPort := fun e' => h17 ⟨e, e'⟩
            simp [e, this]
          · simp [e]
        · simp only [Rule.matches, List.all_cons, List.all_nil, Crit.holds, Bool.and_true]
          by_cases e : p.proto = 17
          · have : p.dport ≠ c.vxlanPort := fun e' => h17 ⟨e, e'⟩
            simp [e, this]
          · simp [e]
    · simp at hr

/-- **wl_to_host_after_egress, whole INPUT path.**  A packet arriving on a workload interface that
is not caught by the tunnel-source filter at the top of `cali-INPUT` (not IPIP when IPIP is enabled,
not UDP to the VXLAN port when VXLAN is enabled) goes `cali-INPUT` → `cali-wl-to-host` →
`cali-from-wl-dispatch`: its verdict is the workload egress dispatch's verdict, and the configured
endpoint-to-host action applies only if that dispatch (the workload's egress policy) returned it.
Nothing of host endpoint policy and no other rule of `cali-INPUT` is involved.  The guard is needed:
see `tunnel_from_workload_iface_witness`. -/
theorem workload_to_host_whole_path (cs : Chains) (f : Nat) (c : Config) (p : Pkt)
    (h4 : c.ipip = false ∨ p.proto ≠ 4) (h17 : c.vxlan = false ∨ ¬ (p.proto = 17 ∧ p.dport = c.vxlanPort))
    (hwl : ∃ pfx ∈ c.prefixes, ifaceMatches (pfx ++ "+") p.inIf = true)
    (h1 : cs chWlToHost = some (wlToHostChain c)) :
    runRules cs (f + 1) (filterInputChain c) p =
      (match runChain cs f chFromWlDispatch p with
       | .fall p' => (match c.toHost with
          | .accept => .accept
          | .drop => .drop
          | _ => runRules cs f [{ comment := some "Configured DefaultEndpointToHostAction", action := c.toHost }] p')
       | v => v) := by
  unfold filterInputChain
  rw [runRules_skip cs _ _ _ p (input_tunnel_rules_skipped c p h4 h17),
      prefix_gotos cs _ c.prefixes _ p hwl, runChain_succ cs f chWlToHost p _ h1,
      wl_to_host_after_egress]

/-- **unknown_workload_iface_dropped (INPUT path).**  A packet arriving on an interface that matches
a workload prefix but none of the endpoints Felix knows is dropped on the input path, whatever else
is configured: `cali-INPUT` → `cali-wl-to-host` → `cali-from-wl-dispatch` → "Unknown interface" DROP.
Guard: the packet is not caught by the tunnel-source filter first (not IPIP when IPIP is enabled,
not UDP to the VXLAN port when VXLAN is enabled) — see `tunnel_from_workload_iface_witness`. -/
theorem unknown_workload_iface_dropped_input (cs : Chains) (f : Nat) (c : Config) (ifaces : List String) (p : Pkt)
    (h4 : c.ipip = false ∨ p.proto ≠ 4) (h17 : c.vxlan = false ∨ ¬ (p.proto = 17 ∧ p.dport = c.vxlanPort))
    (hwl : ∃ pfx ∈ c.prefixes, ifaceMatches (pfx ++ "+") p.inIf = true)
    (hunk : ∀ n ∈ ifaces, ifaceMatches n p.inIf = false)
    (h1 : cs chWlToHost = some (wlToHostChain c))
    (h2 : cs chFromWlDispatch = some (wlDispatchChain true ifaces)) :
    runRules cs (f + 2) (filterInputChain c) p = .drop := by
  rw [workload_to_host_whole_path cs (f + 1) c p h4 h17 hwl h1, runChain_succ cs f chFromWlDispatch p _ h2,
      wlDispatch_unknown_dropped cs f ifaces p hunk]

/-- The guard of the two theorems above cannot be dropped (limit of the guarantee IN THE FILTER TABLE):
the tunnel-source filter sits above the workload-interface diversion in `cali-INPUT`, so an IPIP
packet (or a UDP packet to the VXLAN port) that arrives on a workload interface — even one Felix does
not know — with a source address in the all-Calico-hosts (VTEP) IP set and a local destination gets the
filter allow action before any workload egress policy or the "Unknown interface" drop.  What stops a
workload from sending it is the anti-spoofing RPF check in raw PREROUTING (`workload_spoof_dropped_raw`):
a workload cannot legitimately source a host's address. -/
theorem tunnel_from_workload_iface_witness :
    runRules exChains 4 (filterInputChain exCfg)
      { exPkt with inIf := "cali9999", proto := 4, srcSets := [ipsetAllHosts] } = .accept ∧
    runRules exChains 4 (filterInputChain exCfg) { exPkt with inIf := "cali9999" } = .drop := by
  decide

/-- **foreign_tunnel_dropped.**  With IPIP enabled, an IPIP packet whose source is not in the
all-Calico-hosts IP set (or that is not addressed to the host) is dropped by `cali-INPUT`; with VXLAN
enabled, a UDP packet to the VXLAN port of the host from a source outside the allowed-VTEP IP set
is dropped. -/
theorem foreign_tunnel_dropped (cs : Chains) (f : Nat) (c : Config) (p : Pkt) :
    (c.ipip = true → p.proto = 4 → (p.srcSets.contains ipsetAllHosts && p.dstLocal) = false →
      runRules cs f (filterInputChain c) p = .drop) ∧
    (c.vxlan = true → p.proto = 17 → p.dport = c.vxlanPort → p.dstLocal = true →
      p.srcSets.contains ipsetVXLAN = false → runRules cs f (filterInputChain c) p = .drop) := by
  constructor
  · intro hi hp hs
    unfold filterInputChain inputTunnelRules
    simp only [hi, if_true, List.cons_append, List.append_assoc]
    rw [runRules_cons_nomatch cs f _ _ p (by
      simp only [Rule.matches, List.all_cons, List.all_nil, Crit.holds, hp, Bool.and_true, beq_self_eq_true, Bool.true_and]
      exact hs)]
    exact runRules_cons_drop cs f _ _ p (by simp [Rule.matches, Crit.holds, hp]) rfl
  · intro hv hp hd hl hs
    unfold filterInputChain inputTunnelRules
    have hskip : ∀ r ∈ (if c.ipip = true then
        [({ comment := some "Allow IPIP packets from Calico hosts",
            crits := [.protoNum 4, .srcSet ipsetAllHosts, .dstLocal], action := c.filterAllow } : Rule),
         { comment := some "Drop IPIP packets from non-Calico hosts", crits := [.protoNum 4], action := .drop }]
        else []), r.matches p = false := by
      intro r hr
      split at hr
      · simp at hr; rcases hr with rfl | rfl <;> simp [Rule.matches, Crit.holds, hp]
      · simp at hr
    simp only [hv, if_true, List.append_assoc]
    rw [runRules_skip cs f _ _ p hskip]
    simp only [List.cons_append]
    have hs' : ¬ ipsetVXLAN ∈ p.srcSets := by simpa using hs
    rw [runRules_cons_nomatch cs f _ _ p (by simp [Rule.matches, Crit.holds, hp, hd, hl, hs'])]
    exact runRules_cons_drop cs f _ _ p (by simp [Rule.matches, Crit.holds, hp, hd, hl]) rfl

example : runRules exChains 4 (filterInputChain exCfg) { exPkt with proto := 4 } = .drop := by decide

/-- **unknown_workload_iface_dropped (FORWARD path), partial.**  On the forward path the packet
visits `cali-from-hep-forward` and, for every workload prefix listed before the one its interface
matches, possibly `cali-to-wl-dispatch` (when it leaves through a workload interface of that
prefix).  PROVIDED those chains do not terminally ACCEPT it (they drop it or hand it back with the
same in-interface — true for NEW connections, whose allow verdicts are "mark + RETURN"; an
ESTABLISHED flow can be accepted there by a conntrack rule), the packet from an unknown workload
interface is dropped.  What is missing for the full statement: models of the host endpoint forward
chains and of the to-workload chains (C09/C10's business). -/
theorem unknown_workload_iface_dropped_forward_partial (cs : Chains) (f : Nat) (c : Config)
    (ifaces : List String) (p : Pkt)
    (hnoacc : ∀ ch, ch = chFromHepFwd ∨ ch = chToWlDispatch → ∀ q : Pkt, q.inIf = p.inIf →
      runChain cs (f + 1) ch q = .drop ∨ ∃ q', runChain cs (f + 1) ch q = .fall q' ∧ q'.inIf = p.inIf)
    (hwl : ∃ pfx ∈ c.prefixes, ifaceMatches (pfx ++ "+") p.inIf = true)
    (hunk : ∀ n ∈ ifaces, ifaceMatches n p.inIf = false)
    (h2 : cs chFromWlDispatch = some (wlDispatchChain true ifaces)) :
    runRules cs (f + 1) (filterForwardChain c) p = .drop := by
  have hpfx : ∀ (ps : List String) (q : Pkt), q.inIf = p.inIf →
      (∃ pfx ∈ ps, ifaceMatches (pfx ++ "+") p.inIf = true) →
      runRules cs (f + 1) (fwdPrefixRules ps ++ fwdTail) q = .drop := by
    intro ps
    induction ps with
    | nil => intro q _ h; obtain ⟨x, hx, _⟩ := h; simp at hx
    | cons a as ih =>
      intro q hq hex
      simp only [fwdPrefixRules, List.cons_append]
      by_cases ha : ifaceMatches (a ++ "+") q.inIf = true
      · rw [runRules_cons_jump cs _ _ _ q chFromWlDispatch (by simp [fwdInRule, Rule.matches, Crit.holds, ha]) rfl,
            runChain_succ cs f chFromWlDispatch q _ h2,
            wlDispatch_unknown_dropped cs f ifaces q (by rw [hq]; exact hunk)]
      · have ha' : ifaceMatches (a ++ "+") q.inIf = false := by simpa using ha
        rw [runRules_cons_nomatch cs _ _ _ q (by simp [fwdInRule, Rule.matches, Crit.holds, ha'])]
        have hex' : ∃ pfx ∈ as, ifaceMatches (pfx ++ "+") p.inIf = true := by
          obtain ⟨x, hx, hxm⟩ := hex
          rcases List.mem_cons.1 hx with h | h
          · subst h; rw [hq, hxm] at ha'; cases ha'
          · exact ⟨x, h, hxm⟩
        by_cases hb : (fwdOutRule a).matches q = true
        · rw [runRules_cons_jump cs _ _ _ q chToWlDispatch hb rfl]
          rcases hnoacc chToWlDispatch (Or.inr rfl) q hq with h | ⟨q', h, hq'⟩
          · rw [h]
          · rw [h]; exact ih q' hq' hex'
        · have hb' : (fwdOutRule a).matches q = false := by simpa using hb
          rw [runRules_cons_nomatch cs _ _ _ q hb']
          exact ih q hq hex'
  unfold filterForwardChain
  rw [runRules_cons_clear cs _ _ _ p _ (by simp [Rule.matches]) rfl]
  by_cases hm : (({ crits := [.markClear markAccept], action := .jump chFromHepFwd } : Rule).matches
      { p with mark := clearBits p.mark markAllButAccept }) = true
  · rw [runRules_cons_jump cs _ _ _ _ chFromHepFwd hm rfl]
    rcases hnoacc chFromHepFwd (Or.inl rfl) { p with mark := clearBits p.mark markAllButAccept } rfl with h | ⟨q', h, hq'⟩
    · rw [h]
    · rw [h]; exact hpfx c.prefixes q' hq' hwl
  · have hm' : (({ crits := [.markClear markAccept], action := .jump chFromHepFwd } : Rule).matches
      { p with mark := clearBits p.mark markAllButAccept }) = false := by simpa using hm
    rw [runRules_cons_nomatch cs _ _ _ _ hm']
    exact hpfx c.prefixes _ rfl hwl


/-! ## whole-path failsafe theorems: from the static entry chain of each table to the verdict -/

/-- `cali-from-host-endpoint` with one host endpoint on the packet's interface: a NEW failsafe
packet is accepted by that endpoint's chain, whatever its tiers and policies. -/
theorem hep_dispatch_in_accepts (cs : Chains) (f : Nat) (c : Config) (k : HepKind) (tiers : List Tier)
    (iface : String) (p : Pkt) (pp : ProtoPort) (hfam : pp.otherFamily = false) (hk : k.ingress = true) (hct : k.untracked = true ∨ p.ct = 0)
    (hdisp : cs chFromHep = some (hepDispatchChain true [iface]))
    (hif : ifaceMatches iface p.inIf = true)
    (hchain : cs ("cali-fh-" ++ iface) = some (hepChain c k tiers))
    (hin : cs chFailsafeIn = some (failsafeInChain c k.untracked))
    (hout : cs chFailsafeOut = some (failsafeOutChain c k.untracked))
    (hpp : pp ∈ c.failsafeIn) (hm : p.matchesIn pp) :
    runChain cs (f + 3) chFromHep p = .accept := by
  rw [runChain_succ cs (f + 2) chFromHep p _ hdisp]
  unfold hepDispatchChain
  simp only [List.map_cons, List.map_nil, List.nil_append, if_true]
  rw [runRules_cons_goto cs (f + 2) _ _ p ("cali-fh-" ++ iface) (by simp [Rule.matches, Crit.holds, hif]) rfl,
      runChain_succ cs (f + 1) _ p _ hchain]
  exact (failsafe_always_accepted cs f c k tiers p pp hfam hct hin hout).1 hk hpp hm

theorem hep_dispatch_out_accepts (cs : Chains) (f : Nat) (c : Config) (k : HepKind) (tiers : List Tier)
    (iface : String) (p : Pkt) (pp : ProtoPort) (hfam : pp.otherFamily = false) (hk : k.ingress = false) (hct : k.untracked = true ∨ p.ct = 0)
    (hdisp : cs chToHep = some (hepDispatchChain false [iface]))
    (hif : ifaceMatches iface p.outIf = true)
    (hchain : cs ("cali-th-" ++ iface) = some (hepChain c k tiers))
    (hin : cs chFailsafeIn = some (failsafeInChain c k.untracked))
    (hout : cs chFailsafeOut = some (failsafeOutChain c k.untracked))
    (hpp : pp ∈ c.failsafeOut) (hm : p.matchesOut pp) :
    runChain cs (f + 3) chToHep p = .accept := by
  rw [runChain_succ cs (f + 2) chToHep p _ hdisp]
  unfold hepDispatchChain
  simp only [List.map_cons, List.map_nil, List.nil_append, Bool.false_eq_true, if_false]
  rw [runRules_cons_goto cs (f + 2) _ _ p ("cali-th-" ++ iface) (by simp [Rule.matches, Crit.holds, hif]) rfl,
      runChain_succ cs (f + 1) _ p _ hchain]
  exact (failsafe_always_accepted cs f c k tiers p pp hfam hct hin hout).2 hk hpp hm

theorem matchesIn_mark (p : Pkt) (pp : ProtoPort) (m : Nat) (h : p.matchesIn pp) :
    ({ p with mark := m } : Pkt).matchesIn pp := h

theorem matchesOut_mark (p : Pkt) (pp : ProtoPort) (m : Nat) (h : p.matchesOut pp) :
    ({ p with mark := m } : Pkt).matchesOut pp := h

theorem vxlanNotrack_skip (cs : Chains) (f : Nat) (c : Config) (rest : List Rule) (p : Pkt) :
    runRules cs f (vxlanNotrack c ++ rest) p = runRules cs f rest p := by
  unfold vxlanNotrack
  split
  · exact runRules_cons_notrack cs f _ _ p rfl
  · rfl

/-- **failsafe, untracked path (raw PREROUTING), whole path.**  A packet to a configured inbound
failsafe port arriving on a host endpoint's interface (not a workload interface) is ACCEPTed in the
raw table before any untracked policy, whatever mark it carried, whatever the conntrack state. -/
theorem failsafe_raw_prerouting (cs : Chains) (f : Nat) (c : Config) (tiers : List Tier) (iface : String)
    (p : Pkt) (pp : ProtoPort) (hfam : pp.otherFamily = false)
    (hnwl : ∀ pfx ∈ c.prefixes, ifaceMatches (pfx ++ "+") p.inIf = false)
    (hdisp : cs chFromHep = some (hepDispatchChain true [iface])) (hif : ifaceMatches iface p.inIf = true)
    (hchain : cs ("cali-fh-" ++ iface) = some (hepChain c .rawIn tiers))
    (hin : cs chFailsafeIn = some (failsafeInChain c true)) (hout : cs chFailsafeOut = some (failsafeOutChain c true))
    (hpp : pp ∈ c.failsafeIn) (hm : p.matchesIn pp) :
    runRules cs (f + 3) (rawPreroutingChain c) p = .accept := by
  unfold rawPreroutingChain
  rw [runRules_cons_clear cs _ _ _ p markAll (by simp [Rule.matches]) rfl, vxlanNotrack_skip,
      runRules_skip cs _ _ _ _ (by
        intro r hr
        obtain ⟨pfx, hpfx, rfl⟩ := List.mem_map.1 hr
        simp [Rule.matches, Crit.holds, hnwl pfx hpfx])]
  have hs := markSet_cleared p markAll 18 (by decide)
  have hcl := markClear_cleared p markAll 18 (by decide)
  rw [runRules_cons_nomatch cs _ _ _ _ (by simp only [Rule.matches, List.all_cons, List.all_nil, Bool.and_true]; exact hs),
      runRules_cons_nomatch cs _ _ _ _ (by simp only [Rule.matches, List.all_cons, hs, Bool.false_and]),
      runRules_cons_jump cs _ _ _ _ chFromHep (by simp only [Rule.matches, List.all_cons, List.all_nil, Bool.and_true]; exact hcl) rfl,
      hep_dispatch_in_accepts cs f c .rawIn tiers iface ({ p with mark := clearBits p.mark markAll } : Pkt) pp hfam rfl (Or.inl rfl) hdisp hif hchain hin hout hpp
        (matchesIn_mark p pp _ hm)]

/-- **failsafe, untracked path (raw OUTPUT), whole path.** -/
theorem failsafe_raw_output (cs : Chains) (f : Nat) (c : Config) (tiers : List Tier) (iface : String)
    (p : Pkt) (pp : ProtoPort) (hfam : pp.otherFamily = false)
    (hdisp : cs chToHep = some (hepDispatchChain false [iface])) (hif : ifaceMatches iface p.outIf = true)
    (hchain : cs ("cali-th-" ++ iface) = some (hepChain c .rawOut tiers))
    (hin : cs chFailsafeIn = some (failsafeInChain c true)) (hout : cs chFailsafeOut = some (failsafeOutChain c true))
    (hpp : pp ∈ c.failsafeOut) (hm : p.matchesOut pp) :
    runRules cs (f + 3) (rawOutputChain c) p = .accept := by
  unfold rawOutputChain
  rw [runRules_cons_clear cs _ _ _ p markAll (by simp [Rule.matches]) rfl,
      runRules_cons_jump cs _ _ _ _ chToHep (by simp [Rule.matches]) rfl,
      hep_dispatch_out_accepts cs f c .rawOut tiers iface ({ p with mark := clearBits p.mark markAll } : Pkt) pp hfam rfl (Or.inl rfl) hdisp hif hchain hin hout hpp
        (matchesOut_mark p pp _ hm)]

/-- **failsafe, pre-DNAT path (mangle PREROUTING), whole path.**  A NEW-connection packet to an
inbound failsafe port on a host endpoint's interface is never dropped in the mangle table: it is
ACCEPTed by the failsafe chain (or, if an earlier table already accepted it, handled by the
configured mangle allow action). -/
theorem failsafe_mangle_prerouting (cs : Chains) (f : Nat) (c : Config) (tiers : List Tier) (iface : String)
    (p : Pkt) (pp : ProtoPort) (hfam : pp.otherFamily = false) (hallow : c.mangleAllow = .accept ∨ c.mangleAllow = .ret) (hct : p.ct = 0)
    (hdisp : cs chFromHep = some (hepDispatchChain true [iface])) (hif : ifaceMatches iface p.inIf = true)
    (hchain : cs ("cali-fh-" ++ iface) = some (hepChain c .mangleIn tiers))
    (hin : cs chFailsafeIn = some (failsafeInChain c false)) (hout : cs chFailsafeOut = some (failsafeOutChain c false))
    (hpp : pp ∈ c.failsafeIn) (hm : p.matchesIn pp) :
    NotDropped (runRules cs (f + 3) (manglePreroutingChain c) p) := by
  unfold manglePreroutingChain
  rw [runRules_cons_nomatch cs _ _ _ p (by simp [Rule.matches, Crit.holds, hct])]
  rcases allow_rules cs (f + 3) c.mangleAllow hallow
      [{ crits := [.markSet markAccept], action := c.mangleAllow }] _ p (by intro r hr; simp at hr; subst hr; rfl) with h | h
  · exact h
  · simp only [List.cons_append, List.nil_append] at h
    rw [h, runRules_cons_jump cs _ _ _ p chFromHep (by simp [Rule.matches]) rfl,
        hep_dispatch_in_accepts cs f c .mangleIn tiers iface p pp hfam rfl (Or.inr hct) hdisp hif hchain hin hout hpp hm]
    exact Or.inl rfl

theorem input_tunnel_rules_skipped' (c : Config) (p : Pkt) (h4 : p.proto ≠ 4)
    (h17 : ¬ (p.proto = 17 ∧ p.dport = c.vxlanPort)) : ∀ r ∈ inputTunnelRules c, r.matches p = false :=
  input_tunnel_rules_skipped c p (Or.inr h4) (Or.inr h17)

/-- **failsafe, normal path (filter INPUT), whole path.**  A NEW-connection packet to an inbound
failsafe port on a host endpoint's interface (not a workload interface, not tunnel traffic) is never
dropped by `cali-INPUT`: the failsafe chain ACCEPTs it before any policy. -/
theorem failsafe_filter_input (cs : Chains) (f : Nat) (c : Config) (tiers : List Tier) (iface : String)
    (p : Pkt) (pp : ProtoPort) (hfam : pp.otherFamily = false) (hallow : c.filterAllow = .accept ∨ c.filterAllow = .ret) (hct : p.ct = 0)
    (h4 : p.proto ≠ 4) (h17 : ¬ (p.proto = 17 ∧ p.dport = c.vxlanPort))
    (hnwl : ∀ pfx ∈ c.prefixes, ifaceMatches (pfx ++ "+") p.inIf = false)
    (hdisp : cs chFromHep = some (hepDispatchChain true [iface])) (hif : ifaceMatches iface p.inIf = true)
    (hchain : cs ("cali-fh-" ++ iface) = some (hepChain c .filterIn tiers))
    (hin : cs chFailsafeIn = some (failsafeInChain c false)) (hout : cs chFailsafeOut = some (failsafeOutChain c false))
    (hpp : pp ∈ c.failsafeIn) (hm : p.matchesIn pp) :
    NotDropped (runRules cs (f + 3) (filterInputChain c) p) := by
  unfold filterInputChain
  rw [runRules_skip cs _ _ _ p (input_tunnel_rules_skipped' c p h4 h17),
      runRules_skip cs _ _ _ p (by
        intro r hr
        obtain ⟨pfx, hpfx, rfl⟩ := List.mem_map.1 hr
        simp [inputPrefixRule, Rule.matches, Crit.holds, hnwl pfx hpfx])]
  unfold inputTail
  rcases allow_rules cs (f + 3) c.filterAllow hallow
      [{ crits := [.markSet markAccept], action := c.filterAllow }] _ p (by intro r hr; simp at hr; subst hr; rfl) with h | h
  · exact h
  · simp only [List.cons_append, List.nil_append] at h
    rw [h, runRules_cons_clear cs _ _ _ p markAll (by simp [Rule.matches]) rfl,
        runRules_cons_jump cs _ _ _ _ chFromHep (by simp [Rule.matches]) rfl,
        hep_dispatch_in_accepts cs f c .filterIn tiers iface ({ p with mark := clearBits p.mark markAll } : Pkt) pp hfam rfl (Or.inr hct) hdisp hif hchain hin hout hpp
          (matchesIn_mark p pp _ hm)]
    exact Or.inl rfl

/-- **failsafe, normal path (filter OUTPUT), whole path.**  A NEW-connection, not DNAT'ed packet from
the host to an outbound failsafe port leaving through a host endpoint's interface is never dropped
by `cali-OUTPUT`.  (DNAT'ed packets are policed in mangle POSTROUTING, which is not modelled.) -/
theorem failsafe_filter_output (cs : Chains) (f : Nat) (c : Config) (tiers : List Tier) (iface : String)
    (p : Pkt) (pp : ProtoPort) (hfam : pp.otherFamily = false) (hallow : c.filterAllow = .accept ∨ c.filterAllow = .ret) (hct : p.ct = 0)
    (hdnat : p.dnat = false)
    (hnwl : ∀ pfx ∈ c.prefixes, ifaceMatches (pfx ++ "+") p.outIf = false)
    (hdisp : cs chToHep = some (hepDispatchChain false [iface])) (hif : ifaceMatches iface p.outIf = true)
    (hchain : cs ("cali-th-" ++ iface) = some (hepChain c .filterOut tiers))
    (hin : cs chFailsafeIn = some (failsafeInChain c false)) (hout : cs chFailsafeOut = some (failsafeOutChain c false))
    (hpp : pp ∈ c.failsafeOut) (hm : p.matchesOut pp) :
    NotDropped (runRules cs (f + 3) (filterOutputChain c) p) := by
  unfold filterOutputChain
  rcases allow_rules cs (f + 3) c.filterAllow hallow
      [{ crits := [.markSet markAccept], action := c.filterAllow }]
      (c.prefixes.map outputPrefixRule ++ (outputTunnelRules c ++ outputTail c)) p
      (by intro r hr; simp at hr; subst hr; rfl) with h | h
  · exact h
  have h' : runRules cs (f + 3) ({ crits := [.markSet markAccept], action := c.filterAllow } ::
      (c.prefixes.map outputPrefixRule ++ (outputTunnelRules c ++ outputTail c))) p =
      runRules cs (f + 3) (c.prefixes.map outputPrefixRule ++ (outputTunnelRules c ++ outputTail c)) p := h
  rw [h', runRules_skip cs _ _ _ p (by
        intro r hr
        obtain ⟨pfx, hpfx, rfl⟩ := List.mem_map.1 hr
        simp [outputPrefixRule, Rule.matches, Crit.holds, hnwl pfx hpfx])]
  rcases allow_rules cs (f + 3) c.filterAllow hallow (outputTunnelRules c) (outputTail c) p (by
      intro r hr
      unfold outputTunnelRules at hr
      rcases List.mem_append.1 hr with hr | hr
      · split at hr
        · simp at hr; subst hr; rfl
        · simp at hr
      · split at hr
        · simp at hr; subst hr; rfl
        · simp at hr) with h2 | h2
  · exact h2
  rw [h2]
  unfold outputTail
  rw [runRules_cons_clear cs _ _ _ p markAll (by simp [Rule.matches]) rfl,
      runRules_cons_jump cs _ _ _ _ chToHep (by simp [Rule.matches, Crit.holds, hdnat]) rfl,
      hep_dispatch_out_accepts cs f c .filterOut tiers iface ({ p with mark := clearBits p.mark markAll } : Pkt) pp hfam rfl (Or.inr hct) hdisp hif hchain hin hout hpp
        (matchesOut_mark p pp _ hm)]
  exact Or.inl rfl

/-! ## anti-spoofing for workload interfaces (raw PREROUTING) -/

/-- the run of "mark packets from workload interfaces" rules: the packet continues with some mark,
which has the workload bit set as soon as one prefix matches its in-interface. -/
theorem prefix_setmarks (cs : Chains) (f : Nat) (prefixes : List String) (rest : List Rule) (q : Pkt) :
    ∃ m', runRules cs f (prefixes.map (fun pfx => ({ crits := [.inIf (pfx ++ "+")], action := .setMark markScratch0 } : Rule)) ++ rest) q
        = runRules cs f rest { q with mark := m' } ∧
      (q.mark.testBit 18 = true → m'.testBit 18 = true) ∧
      ((∃ pfx ∈ prefixes, ifaceMatches (pfx ++ "+") q.inIf = true) → m'.testBit 18 = true) := by
  induction prefixes generalizing q with
  | nil => exact ⟨q.mark, rfl, id, fun h => by obtain ⟨x, hx, _⟩ := h; simp at hx⟩
  | cons a as ih =>
    simp only [List.map_cons, List.cons_append]
    by_cases ha : ifaceMatches (a ++ "+") q.inIf = true
    · rw [runRules_cons_setMark cs f _ _ q markScratch0 (by simp [Rule.matches, Crit.holds, ha]) rfl]
      obtain ⟨m', h1, h2, _⟩ := ih { q with mark := q.mark ||| markScratch0 }
      have hb : (q.mark ||| markScratch0).testBit 18 = true := testBit_or_two_pow q.mark 18
      exact ⟨m', h1, fun _ => h2 hb, fun _ => h2 hb⟩
    · have ha' : ifaceMatches (a ++ "+") q.inIf = false := by simpa using ha
      rw [runRules_cons_nomatch cs f _ _ q (by simp [Rule.matches, Crit.holds, ha'])]
      obtain ⟨m', h1, h2, h3⟩ := ih q
      refine ⟨m', h1, h2, ?_⟩
      rintro ⟨x, hx, hxm⟩
      rcases List.mem_cons.1 hx with e | e
      · subst e; rw [hxm] at ha'; cases ha'
      · exact h3 ⟨x, e, hxm⟩

/-- **anti-spoofing.**  A packet that arrives on a workload interface and fails the reverse-path
check (its source address is not routed via that interface — e.g. a workload sourcing a host's
address to get past the tunnel-source filter of `cali-INPUT`) is dropped in raw PREROUTING, before
conntrack and before the filter table, provided the per-endpoint RPF-skip chain does not exempt it
(`cali-rpf-skip` hands it back). -/
theorem workload_spoof_dropped_raw (cs : Chains) (f : Nat) (c : Config) (p : Pkt)
    (hwl : ∃ pfx ∈ c.prefixes, ifaceMatches (pfx ++ "+") p.inIf = true) (hrpf : p.rpfFail = true)
    (hskip : ∀ q, runChain cs f chRpfSkip q = .fall q) :
    runRules cs f (rawPreroutingChain c) p = .drop := by
  unfold rawPreroutingChain
  rw [runRules_cons_clear cs _ _ _ p markAll (by simp [Rule.matches]) rfl, vxlanNotrack_skip]
  obtain ⟨m', h1, _, h3⟩ := prefix_setmarks cs f c.prefixes
    [{ crits := [.markSet markScratch0], action := .jump chRpfSkip },
     { crits := [.markSet markScratch0, .rpfFailed], action := .drop },
     { crits := [.markClear markScratch0], action := .jump chFromHep },
     { crits := [.markSet markAccept], action := .accept }]
    ({ p with mark := clearBits p.mark markAll } : Pkt)
  rw [h1]
  have hbit : m'.testBit 18 = true := h3 hwl
  have hset : (Crit.markSet markScratch0).holds ({ p with mark := m' } : Pkt) = true := by
    simp only [Crit.holds]; rw [and_two_pow_eq_iff]; exact hbit
  rw [runRules_cons_jump cs _ _ _ _ chRpfSkip (by simp only [Rule.matches, List.all_cons, List.all_nil, Bool.and_true]; exact hset) rfl,
      hskip]
  simp only []
  exact runRules_cons_drop cs _ _ _ _ (by
    simp only [Rule.matches, List.all_cons, List.all_nil, Bool.and_true, hset, Bool.true_and]
    simp [Crit.holds, hrpf]) rfl

/-! ## ESTABLISHED / RELATED packets (failsafe or not) are never dropped by host endpoint policy -/

/-- In every tracked host endpoint chain (filter, mangle) the first thing is the conntrack rule: a
packet of an ESTABLISHED/RELATED connection gets the chain's allow action (ACCEPT, or mark+RETURN),
whatever the tiers and policies.  Together with `failsafe_always_accepted` (NEW packets) this covers
every conntrack state except INVALID (see `failsafe_invalid_ct_dropped`). -/
theorem established_never_dropped_by_hep_chain (cs : Chains) (f : Nat) (c : Config) (k : HepKind) (tiers : List Tier)
    (p : Pkt) (hk : k.untracked = false) (hallow : k.allow c = .accept ∨ k.allow c = .ret) (hct : p.ct = 1) :
    NotDropped (runRules cs f (hepChain c k tiers) p) := by
  unfold hepChain conntrackRules
  simp only [hk, Bool.false_eq_true, if_false, List.append_assoc]
  rcases hallow with ha | ha
  · simp only [ha, bne_self_eq_false, Bool.false_eq_true, if_false, List.nil_append, List.cons_append]
    exact head_allow_notdropped cs f _ _ p (by simp [Rule.matches, Crit.holds, hct]) (Or.inl rfl)
  · have hne : (Action.ret != Action.accept) = true := by decide
    simp only [ha, hne, if_true, List.cons_append, List.nil_append]
    rw [runRules_cons_setMark cs f _ _ p markAccept (by simp [Rule.matches, Crit.holds, hct]) rfl]
    exact head_allow_notdropped cs f _ _ _ (by simp [Rule.matches, Crit.holds, hct]) (Or.inr rfl)

/-- whole path, mangle PREROUTING: an ESTABLISHED/RELATED packet gets the mangle allow action at once. -/
theorem established_mangle_prerouting (cs : Chains) (f : Nat) (c : Config) (p : Pkt)
    (hallow : c.mangleAllow = .accept ∨ c.mangleAllow = .ret) (hct : p.ct = 1) :
    NotDropped (runRules cs f (manglePreroutingChain c) p) := by
  unfold manglePreroutingChain
  exact head_allow_notdropped cs f _ _ p (by simp [Rule.matches, Crit.holds, hct]) hallow

/-- whole path, filter INPUT: an ESTABLISHED/RELATED packet on a host endpoint's interface is not
dropped by `cali-INPUT`, whatever the host endpoint's policy. -/
theorem established_filter_input (cs : Chains) (f : Nat) (c : Config) (tiers : List Tier) (iface : String)
    (p : Pkt) (hallow : c.filterAllow = .accept ∨ c.filterAllow = .ret) (hct : p.ct = 1)
    (h4 : p.proto ≠ 4) (h17 : ¬ (p.proto = 17 ∧ p.dport = c.vxlanPort))
    (hnwl : ∀ pfx ∈ c.prefixes, ifaceMatches (pfx ++ "+") p.inIf = false)
    (hdisp : cs chFromHep = some (hepDispatchChain true [iface])) (hif : ifaceMatches iface p.inIf = true)
    (hchain : cs ("cali-fh-" ++ iface) = some (hepChain c .filterIn tiers)) :
    NotDropped (runRules cs (f + 3) (filterInputChain c) p) := by
  unfold filterInputChain
  rw [runRules_skip cs _ _ _ p (input_tunnel_rules_skipped' c p h4 h17),
      runRules_skip cs _ _ _ p (by
        intro r hr
        obtain ⟨pfx, hpfx, rfl⟩ := List.mem_map.1 hr
        simp [inputPrefixRule, Rule.matches, Crit.holds, hnwl pfx hpfx])]
  unfold inputTail
  rcases allow_rules cs (f + 3) c.filterAllow hallow
      [{ crits := [.markSet markAccept], action := c.filterAllow }] _ p (by intro r hr; simp at hr; subst hr; rfl) with h | h
  · exact h
  · simp only [List.cons_append, List.nil_append] at h
    rw [h, runRules_cons_clear cs _ _ _ p markAll (by simp [Rule.matches]) rfl,
        runRules_cons_jump cs _ _ _ _ chFromHep (by simp [Rule.matches]) rfl,
        runChain_succ cs (f + 2) chFromHep _ _ hdisp]
    unfold hepDispatchChain
    simp only [List.map_cons, List.map_nil, List.nil_append, if_true]
    rw [runRules_cons_goto cs (f + 2) _ _ _ ("cali-fh-" ++ iface) (by simp [Rule.matches, Crit.holds, hif]) rfl,
        runChain_succ cs (f + 1) _ _ _ hchain]
    rcases established_never_dropped_by_hep_chain cs (f + 1) c .filterIn tiers
        ({ p with mark := clearBits p.mark markAll } : Pkt) rfl hallow hct with e | ⟨q, e⟩
    · rw [e]; exact Or.inl rfl
    · rw [e]; exact single_allow_notdropped cs (f + 3) _ q hallow

/-- whole path, filter OUTPUT: the same for traffic leaving through a host endpoint's interface. -/
theorem established_filter_output (cs : Chains) (f : Nat) (c : Config) (tiers : List Tier) (iface : String)
    (p : Pkt) (hallow : c.filterAllow = .accept ∨ c.filterAllow = .ret) (hct : p.ct = 1) (hdnat : p.dnat = false)
    (hnwl : ∀ pfx ∈ c.prefixes, ifaceMatches (pfx ++ "+") p.outIf = false)
    (hdisp : cs chToHep = some (hepDispatchChain false [iface])) (hif : ifaceMatches iface p.outIf = true)
    (hchain : cs ("cali-th-" ++ iface) = some (hepChain c .filterOut tiers)) :
    NotDropped (runRules cs (f + 3) (filterOutputChain c) p) := by
  unfold filterOutputChain
  rcases allow_rules cs (f + 3) c.filterAllow hallow
      [{ crits := [.markSet markAccept], action := c.filterAllow }]
      (c.prefixes.map outputPrefixRule ++ (outputTunnelRules c ++ outputTail c)) p
      (by intro r hr; simp at hr; subst hr; rfl) with h | h
  · exact h
  have h' : runRules cs (f + 3) ({ crits := [.markSet markAccept], action := c.filterAllow } ::
      (c.prefixes.map outputPrefixRule ++ (outputTunnelRules c ++ outputTail c))) p =
      runRules cs (f + 3) (c.prefixes.map outputPrefixRule ++ (outputTunnelRules c ++ outputTail c)) p := h
  rw [h', runRules_skip cs _ _ _ p (by
        intro r hr
        obtain ⟨pfx, hpfx, rfl⟩ := List.mem_map.1 hr
        simp [outputPrefixRule, Rule.matches, Crit.holds, hnwl pfx hpfx])]
  rcases allow_rules cs (f + 3) c.filterAllow hallow (outputTunnelRules c) (outputTail c) p (by
      intro r hr
      unfold outputTunnelRules at hr
      rcases List.mem_append.1 hr with hr | hr
      · split at hr
        · simp at hr; subst hr; rfl
        · simp at hr
      · split at hr
        · simp at hr; subst hr; rfl
        · simp at hr) with h2 | h2
  · exact h2
  rw [h2]
  unfold outputTail
  rw [runRules_cons_clear cs _ _ _ p markAll (by simp [Rule.matches]) rfl,
      runRules_cons_jump cs _ _ _ _ chToHep (by simp [Rule.matches, Crit.holds, hdnat]) rfl,
      runChain_succ cs (f + 2) chToHep _ _ hdisp]
  unfold hepDispatchChain
  simp only [List.map_cons, List.map_nil, List.nil_append, Bool.false_eq_true, if_false]
  rw [runRules_cons_goto cs (f + 2) _ _ _ ("cali-th-" ++ iface) (by simp [Rule.matches, Crit.holds, hif]) rfl,
      runChain_succ cs (f + 1) _ _ _ hchain]
  rcases established_never_dropped_by_hep_chain cs (f + 1) c .filterOut tiers
      ({ p with mark := clearBits p.mark markAll } : Pkt) rfl hallow hct with e | ⟨q, e⟩
  · rw [e]; exact Or.inl rfl
  · rw [e]; exact single_allow_notdropped cs (f + 3) _ q hallow

/-- non-vacuity / concrete whole-path run: ssh from 0.0.0.1 to the host on eth0 with a deny-all
host endpoint policy is accepted in raw PREROUTING and in filter INPUT; telnet is dropped in INPUT. -/
def exChains2 (k : HepKind) : Chains := fun n =>
  if n = chFailsafeIn then some (failsafeInChain exCfg k.untracked)
  else if n = chFailsafeOut then some (failsafeOutChain exCfg k.untracked)
  else if n = chFromHep then some (hepDispatchChain true ["eth0"])
  else if n = "cali-fh-eth0" then some (hepChain exCfg k exTiers)
  else if n = "cali-pi-gnp/deny-all" then some [{ action := .drop }]
  else none

example :
    runRules (exChains2 .rawIn) 5 (rawPreroutingChain exCfg) { exPkt with mark := 0x50000 } = .accept ∧
    runRules (exChains2 .filterIn) 5 (filterInputChain exCfg) exPkt = .accept ∧
    runRules (exChains2 .filterIn) 5 (filterInputChain exCfg) { exPkt with dport := 23 } = .drop := by
  decide

/-! ## BPF mode (`setUpIptablesBPF`): packets from a workload-prefixed interface without the BPF seen
mark are dropped on the INPUT and FORWARD paths -/

/-- a block of rules each of which either does not match or drops, one of which matches, drops. -/
theorem runRules_nomatch_or_drop (cs : Chains) (f : Nat) (pre rest : List Rule) (p : Pkt)
    (h : ∀ r ∈ pre, r.matches p = false ∨ r.action = .drop) (hex : ∃ r ∈ pre, r.matches p = true) :
    runRules cs f (pre ++ rest) p = .drop := by
  induction pre with
  | nil => obtain ⟨x, hx, _⟩ := hex; simp at hx
  | cons a as ih =>
    rw [List.cons_append]
    cases hm : a.matches p with
    | true =>
      rcases h a List.mem_cons_self with h' | h'
      · rw [hm] at h'; cases h'
      · exact runRules_cons_drop cs f _ _ p hm h'
    | false =>
      rw [runRules_cons_nomatch cs f _ _ p hm]
      apply ih (fun x hx => h x (List.mem_cons_of_mem _ hx))
      obtain ⟨x, hx, hxm⟩ := hex
      rcases List.mem_cons.1 hx with e | e
      · subst e; rw [hm] at hxm; cases hxm
      · exact ⟨x, e, hxm⟩

/-- without the seen bit neither the bypass nor the fall-through mark pattern can match. -/
theorem unseen_not_sub (m z : Nat) (hz : z &&& markSeen = markSeen) (h : m &&& markSeen ≠ markSeen) :
    (m &&& z == z) = false := by
  apply Bool.eq_false_iff.2
  intro he
  have he' : m &&& z = z := by simpa using he
  apply h
  calc m &&& markSeen = m &&& (z &&& markSeen) := by rw [hz]
    _ = (m &&& z) &&& markSeen := (Nat.and_assoc _ _ _).symm
    _ = z &&& markSeen := by rw [he']
    _ = markSeen := hz

/-- FORWARD, BPF mode, either IP version, BPF IPv6 support on or off, whatever the dispatch chains
contain and whatever the out-interface: a packet from an interface matching a workload prefix that
does not carry the BPF seen mark (no BPF program on that interface: Felix does not know it) is
dropped. -/
theorem bpf_unseen_workload_iface_dropped_forward (cs : Chains) (f : Nat) (c : Config) (v6 bpf6 : Bool) (p : Pkt)
    (hif : ∃ pfx ∈ c.prefixes, ifaceMatches (pfx ++ "+") p.inIf = true)
    (hm : p.mark &&& markSeen ≠ markSeen) :
    runRules cs f (bpfForwardRules c v6 bpf6) p = .drop := by
  unfold bpfForwardRules
  rw [runRules_cons_nomatch cs f _ _ p (by
    simp only [bpfFwdBypass, Rule.matches, List.all_cons, List.all_nil, Crit.holds, Bool.and_true]
    exact unseen_not_sub _ _ (by decide) hm)]
  apply runRules_nomatch_or_drop
  · intro r hr
    obtain ⟨n, _, rfl⟩ := List.mem_map.1 hr
    exact Or.inr rfl
  · obtain ⟨pfx, hp, hpm⟩ := hif
    refine ⟨bpfFwdDropUnseen pfx, List.mem_map.2 ⟨pfx, hp, rfl⟩, ?_⟩
    have : (p.mark &&& markSeen == markSeen) = false := by simpa using hm
    simp [bpfFwdDropUnseen, Rule.matches, Crit.holds, hpm, this]

/-- INPUT, BPF mode, whatever the endpoint-to-host action: same statement. -/
theorem bpf_unseen_workload_iface_dropped_input (cs : Chains) (f : Nat) (c : Config) (p : Pkt)
    (hif : ∃ pfx ∈ c.prefixes, ifaceMatches (pfx ++ "+") p.inIf = true)
    (hm : p.mark &&& markSeen ≠ markSeen) :
    runRules cs f (bpfInputRules c) p = .drop := by
  have hns : (p.mark &&& markSeen == markSeen) = false := by simpa using hm
  have hft : (p.mark &&& markSeenFallThrough == markSeenFallThrough) = false :=
    unseen_not_sub _ _ (by decide) hm
  unfold bpfInputRules
  rw [runRules_skip cs f _ _ p (by
    intro r hr
    simp only [bpfInputHead, List.mem_cons, List.mem_nil_iff, or_false] at hr
    rcases hr with rfl | rfl | rfl <;> simp [Rule.matches, Crit.holds, hft])]
  rw [← List.append_nil (List.flatten _)]
  apply runRules_nomatch_or_drop
  · intro r hr
    obtain ⟨l, hl, hrl⟩ := List.mem_flatten.1 hr
    obtain ⟨n, _, rfl⟩ := List.mem_map.1 hl
    unfold bpfInputPrefixRules at hrl
    rcases List.mem_append.1 hrl with h | h
    · split at h
      · simp only [List.mem_cons, List.mem_nil_iff, or_false] at h
        subst h
        left
        simp [Rule.matches, Crit.holds, hns]
      · simp at h
    · simp only [List.mem_cons, List.mem_nil_iff, or_false] at h
      subst h
      exact Or.inr rfl
  · obtain ⟨pfx, hp, hpm⟩ := hif
    refine ⟨bpfInputDropUnseen pfx, ?_, ?_⟩
    · apply List.mem_flatten.2
      exact ⟨bpfInputPrefixRules c pfx, List.mem_map.2 ⟨pfx, hp, rfl⟩, by simp [bpfInputPrefixRules]⟩
    · simp [bpfInputDropUnseen, Rule.matches, Crit.holds, hpm, hns]

/-- why the ORDER of the forward rules matters (the drop must precede the to-workload dispatch): with
the drop moved next to the final from-workload ACCEPT, a packet from an unknown `cali` interface to a
known local workload is ACCEPTed by `cali-to-wl-dispatch`.  The real order drops it. -/
theorem bpf_forward_drop_must_precede_dispatch_witness :
    let c : Config := { ipip := false, vxlan := false, vxlanPort := 0, toHost := .drop, filterAllow := .accept,
                        mangleAllow := .accept, disableCtInvalid := false, prefixes := ["cali"],
                        failsafeIn := [], failsafeOut := [] }
    let cs : Chains := fun n => if n = chToWlDispatch then some (wlAllowChain ["caliknown"]) else none
    let p : Pkt := { proto := 6, sport := 1, dport := 80, src := 1, dst := 2, inIf := "calirogue", outIf := "caliknown",
                     ct := 0, mark := 0, dstLocal := false, srcSets := [] }
    runRules cs 3 (bpfForwardRules c false false) p = .drop ∧
    runRules cs 3 (bpfFwdBypass :: (bpfFwdTail c ++ c.prefixes.map bpfFwdDropUnseen)) p = .accept ∧
    -- non-vacuity of the other side: a policed packet (seen mark) from a workload leaves the host
    runRules cs 3 (bpfForwardRules c false false) { p with mark := markSeen, outIf := "eth0" } = .accept := by
  decide

end CalicoVerif.C40
