import CalicoVerif.Proofs.C06Parse
/-!
C04, rule level — `combineMatchesIfPossible` (felix/calc/rule_scanner.go) folds a rule's selector
`pos` and notSelector `neg` into ONE IP-set selector, the text `"(" pos ") && (!(" neg "))"`, which is
then parsed by the selector parser (model: a5's `C06`, imported read-only).

Proved here, at the level of the parser's token stream (`C06.parseOrExpression`), precedence included:
* `combined_parses_to_and_not`: if `pos` and `neg` are token sequences that the parser reads as `P`
  resp. `N` up to a closing parenthesis, the combined token sequence `( pos ) && ( ! ( neg ) )`
  parses to exactly `and [P, not N]`;
* `combined_eval`: that selector evaluates to `P ∧ ¬N` on every label map;
* `canonical_operand`: every canonical selector text satisfies the operand hypothesis (a5's
  `opFrom_toks`), so the two theorems apply to all canonical `pos` / `neg`;
* `unparenthesised_is_wrong`: WITHOUT the parentheses around `pos` the text `a || b && !(c)` parses to
  `or [a, and [b, not c]]`, which accepts a label map that `(a || b) ∧ ¬c` rejects — the parentheses
  are necessary, not cosmetic.
Not proved: the tokenizer step for arbitrary (non-canonical) operand TEXTS, i.e. that the tokens of the
concatenated string are the concatenation of the operands' tokens; the real tokenizer + parser run in
the harness (`rule` ops through the real RuleScanner, oracle `rule-ipset-mismatch`).
-/
namespace CalicoVerif.C04
open CalicoVerif.C06

/-- "the parser reads these tokens as node `n` and stops at a closing parenthesis", for every
sufficiently large fuel -/
def ReadsAs (ts : List Token) (n : Node) (bound : Nat) : Prop :=
  ∀ F, bound ≤ F → ∀ r, parseOrWith (parseOperation F) F (ts ++ Token.rParen :: r) = .ok (n, Token.rParen :: r)

/-- the token sequence of `"(" pos ") && (!(" neg "))"` -/
def combinedToks (tp tn : List Token) : List Token :=
  Token.lParen :: (tp ++ Token.rParen :: Token.and :: Token.lParen :: Token.not :: Token.lParen ::
    (tn ++ [Token.rParen, Token.rParen, Token.eof]))

theorem opFrom_lParen (f : Nat) (b : Bool) (rest : List Token) :
    opFrom f b (Token.lParen :: rest) =
      match parseOrWith (parseOperation f) f rest with
      | .error e => .error e
      | .ok (n, rem) =>
        match rem with
        | Token.rParen :: rem' => .ok (wrapNot b n, rem')
        | _ => .error .expectedRParen := by
  simp only [opFrom, stripNots, opCore]
  cases parseOrWith (parseOperation f) f rest with
  | error e => rfl
  | ok p =>
    obtain ⟨n, rem⟩ := p
    cases rem with
    | nil => rfl
    | cons t ts => cases t <;> rfl

/-- **`(pos) && (!(neg))` parses to `and [P, not N]`.** -/
theorem combined_parses_to_and_not {tp tn : List Token} {P N : Node} {bP bN : Nat}
    (hP : ReadsAs tp P bP) (hN : ReadsAs tn N bN) (F : Nat) (hF : bP + bN + 3 ≤ F) :
    parseOrExpression F (combinedToks tp tn) = .ok (.and [P, .not N], [Token.eof]) := by
  obtain ⟨f, rfl⟩ : ∃ f, F = f + 1 := ⟨F - 1, by omega⟩
  obtain ⟨g, rfl⟩ : ∃ g, f = g + 1 := ⟨f - 1, by omega⟩
  -- innermost: `! ( neg )` followed by `) eof`
  have hneg : parseOperation (g + 1) (Token.not :: Token.lParen :: (tn ++ [Token.rParen, Token.rParen, Token.eof])) =
      .ok (.not N, [Token.rParen, Token.eof]) := by
    rw [parseOperation_succ, opFrom_not, opFrom_lParen]
    have := hN g (by omega) [Token.rParen, Token.eof]
    rw [show tn ++ [Token.rParen, Token.rParen, Token.eof] = tn ++ Token.rParen :: [Token.rParen, Token.eof] from rfl, this]
    simp [wrapNot]
  -- `( ! ( neg ) )` followed by `eof`
  have hnegP : parseOperation (g + 2) (Token.lParen :: Token.not :: Token.lParen :: (tn ++ [Token.rParen, Token.rParen, Token.eof])) =
      .ok (.not N, [Token.eof]) := by
    rw [parseOperation_succ, opFrom_lParen]
    have h1 : parseOrWith (parseOperation (g + 1)) (g + 1)
        (Token.not :: Token.lParen :: (tn ++ [Token.rParen, Token.rParen, Token.eof])) = .ok (.not N, [Token.rParen, Token.eof]) := by
      unfold parseOrWith parseAndWith
      rw [hneg]
      simp only []
      rw [andRest_stop _ _ (by intro r h; cases h)]
      simp only [mkAnd]
      rw [orRest_stop _ _ _ (by intro r h; cases h)]
      simp [mkOr]
    rw [h1]
    simp [wrapNot]
  -- `( pos )` followed by the rest
  have hpos : ∀ R, parseOperation (g + 2) (Token.lParen :: (tp ++ Token.rParen :: R)) = .ok (P, R) := by
    intro R
    rw [parseOperation_succ, opFrom_lParen, hP (g + 1) (by omega) R]
    simp [wrapNot]
  unfold parseOrExpression parseOrWith parseAndWith combinedToks
  rw [hpos]
  simp only []
  rw [show andRest (parseOperation (g + 1 + 1)) (g + 1 + 1)
      (Token.and :: Token.lParen :: Token.not :: Token.lParen :: (tn ++ [Token.rParen, Token.rParen, Token.eof])) =
      .ok ([.not N], [Token.eof]) from by
    rw [andRest]
    rw [hnegP]
    simp only []
    rw [andRest_stop _ _ (by intro r h; cases h)]]
  simp only [mkAnd]
  rw [orRest_stop _ _ _ (by intro r h; cases h)]
  simp [mkOr]

/-- **The combined selector means `pos ∧ ¬neg`** on every label map. -/
theorem combined_eval (P N : Node) (labels : Labels) :
    (Node.and [P, .not N]).eval labels = (P.eval labels && !N.eval labels) := by
  simp [Node.eval, Node.evalAll]

/-- Every canonical selector text (tokens `toks t` of a well-formed node) satisfies the operand
hypothesis. -/
theorem canonical_operand (t : Node) (h : WF t) : ReadsAs (toks t) t ((toks t).length + 1) := by
  intro F hF r
  have hop : ∀ r', parseOperation F (toks t ++ r') = .ok (t, r') := by
    intro r'
    rw [parseOperation_of_opFrom (by omega)]
    exact opFrom_toks t h _ r' (by omega)
  unfold parseOrWith
  rw [parseAndWith_single _ _ t (by intro r' h'; cases h') hop]
  simp only []
  rw [orRest_stop _ _ _ (by intro r' h'; cases h')]
  simp [mkOr]

/-! ### the parentheses are necessary -/

def aX : Node := .eq ['a'] ['x']
def bX : Node := .eq ['b'] ['x']
def cX : Node := .eq ['c'] ['x']

/-- tokens of `a == 'x' || b == 'x' && !(c == 'x')` (what the text becomes without the parentheses
around the positive selector) -/
def unparenthesised : List Token :=
  toks aX ++ [Token.or] ++ toks bX ++ [Token.and, Token.not, Token.lParen] ++ toks cX ++ [Token.rParen, Token.eof]

/-- the raw operand `a == 'x' || b == 'x'` (top-level `||`, no parentheses of its own) is read as
`or [a, b]` up to a closing parenthesis -/
theorem raw_or_operand : ReadsAs (toks aX ++ [Token.or] ++ toks bX) (.or [aX, bX]) 8 := by
  intro F hF r
  obtain ⟨f, rfl⟩ : ∃ f, F = f + 1 := ⟨F - 1, by omega⟩
  simp only [toks, aX, bX, List.cons_append, List.nil_append, parseOrWith, parseAndWith, parseOperation, stripNots,
    parseLabelOp]
  rw [andRest_stop _ _ (by intro r' h'; cases h')]
  simp only [mkAnd]
  obtain ⟨g, rfl⟩ : ∃ g, f = g + 1 := ⟨f - 1, by omega⟩
  simp only [orRest, parseAndWith, parseOperation, stripNots, parseLabelOp]
  rw [andRest_stop _ _ (by intro r' h'; cases h')]
  simp only [mkAnd]
  rw [orRest_stop _ _ _ (by intro r' h'; cases h')]
  simp [mkOr]

/-- non-vacuity + the correct result for that rule: `(a || b) && (!(c))` parses to
`and [or [a, b], not c]`, which rejects `{a = x, c = x}` -/
example : parseOrExpression 20 (combinedToks (toks aX ++ [Token.or] ++ toks bX) (toks cX)) =
    .ok (.and [.or [aX, bX], .not cX], [Token.eof]) :=
  combined_parses_to_and_not raw_or_operand (canonical_operand cX (by simp [cX, WF, ValidLabel, QuoteSafe, maxLabelLength, identifierChar])) 20 (by simp [toks, cX])

/-- **Without the parentheses the selector is a different one**: it parses to
`or [a, and [b, not c]]`, and on the labels `{a = x, c = x}` that evaluates to true, whereas the
rule (`a || b`, not `c`) does not select them. -/
theorem unparenthesised_is_wrong :
    parseOrExpression unparenthesised.length unparenthesised =
      .ok (.or [aX, .and [bX, .not cX]], [Token.eof]) ∧
    (Node.or [aX, .and [bX, .not cX]]).eval (Labels.ofList [(['a'], ['x']), (['c'], ['x'])]) = true ∧
    (Node.and [.or [aX, bX], .not cX]).eval (Labels.ofList [(['a'], ['x']), (['c'], ['x'])]) = false := by
  refine ⟨by rfl, by decide, by decide⟩

end CalicoVerif.C04
