import CalicoVerif.Proofs.C27
/-!
C27 — Felix configuration resolves by source priority, deterministically.

Property theorems only (vocabulary and helper lemmas: `CalicoVerif.Proofs.C27`; model:
`CalicoVerif.Model.C27`, of the code after commits be6f163 and f0ff295). All theorems quantify over
EVERY context `c : Ctx` (any parameter table, any parse function, any lower-casing function, any
total order on key names — `OrderOK`) and every assignment `srcs : Sources` of key lists (in any
order) to the six sources; `KeysNodup` says that a source is a Go map (exact keys distinct).

Both statements that were false of the code before those commits (DESIGN §5: a shadowed fatal value
set `Err`; two keys of one source differing only in case resolved in map order) are now proved at
FULL strength: `shadowed_irrelevant`, `order_independent`.
-/
namespace CalicoVerif.C27

/-! ## `Err` -/

/-- `resolve` fails (sets `Err`) iff some known parameter has a fatal value (`none` on a non-zero
parameter, or an invalid value of a die-on-parse-failure parameter) among the keys of ITS deciding
source — the highest-priority source that sets it, datastore sources not counting for local-only
parameters. (If that source spells the parameter several ways, each spelling counts.) Keys of lower
sources never matter. -/
theorem resolve_fatal_iff (c : Ctx) (srcs : Sources) : resolve c srcs = none ↔ FatalTop c srcs :=
  resolve_none_iff c srcs

/-- The executable `resolveP` used by the `Config` object model (it also yields the state left behind
by a failed run) agrees with `resolve`. -/
theorem resolveP_spec (c : Ctx) (srcs : Sources) :
    resolve c srcs = if (resolveP c srcs).2 then none else some (resolveP c srcs).1 :=
  foldl_stepP c (flat c srcs) St.empty

/-! ## Resolution by priority -/

/-- For every known parameter, when `resolve` succeeds, the field holds exactly what the DECIDING key
says: its parsed value, the zero value for `none`, the default if it is invalid and not fatal
(`valOf`); it is left at what `applyDefaults` wrote (`lookup = none`) when no source sets it. -/
theorem resolve_by_priority (c : Ctx) (srcs : Sources) (st : St)
    (h : resolve c srcs = some st) (l : String) (m : Meta) (hk : c.known l = some m) :
    st.fields.lookup l = (winner c srcs l m).bind (fun t => valOf c m t.2.2) := by
  have hp := congrArg Prod.fst (resolve_proj c srcs st h l m hk)
  simp only [proj] at hp
  rw [hp]
  cases hw : winner c srcs l m with
  | none => rfl
  | some t =>
    simp only [Option.bind_some]
    cases hv : valOf c m t.2.2 with
    | some v => rfl
    | none =>
      exfalso
      -- the winner's value is parsed, so a fatal one would have failed `resolve`
      have hnone : resolve c srcs = none := by
        rw [resolve_none_iff]
        unfold winner at hw
        obtain ⟨s, _, hws, hall⟩ := (findSome?_sorted _ _ descending_sorted t).1 hw
        obtain ⟨h1, ha⟩ := winnerIn_fst hws
        subst h1
        have hl : lastMatch c l (sortKeys c (srcs t.1)) = some t.2 := by
          unfold winnerIn at hws
          simp only [ha, if_true, Option.map_eq_some_iff] at hws
          obtain ⟨kv, hkv, e⟩ := hws
          rw [← e]; exact hkv
        have hm := lastMatch_some hl
        refine ⟨l, m, t.1, t.2, hk, ⟨⟨ha, t.2, mem_sortKeys.1 hm.1, hm.2⟩, ?_⟩, mem_sortKeys.1 hm.1, hm.2, hv⟩
        intro s' hlt
        exact winnerIn_none_iff.1 (hall s' (mem_descending s') hlt)
      rw [h] at hnone; cases hnone

/-- Who the deciding key is, without reference to sorting: it sits in the highest-priority source
holding an admissible key for the parameter, and among that source's spellings of the parameter it
is the greatest one in the key order. It is unique. -/
theorem deciding_key_spec (c : Ctx) (ho : OrderOK c) (srcs : Sources) (hn : KeysNodup srcs)
    (l : String) (m : Meta) (t : Src × KV) :
    winner c srcs l m = some t ↔ IsWinner c srcs l m t :=
  winner_eq_some_iff c ho srcs hn l m t

/-- … and no source sets the parameter iff there is no deciding key. -/
theorem no_deciding_key_iff (c : Ctx) (srcs : Sources) (l : String) (m : Meta) :
    winner c srcs l m = none ↔ ∀ s, ¬ HasKey c srcs l m s :=
  winner_none_iff c srcs l m

/-- The source recorded in `nameToSource` for a parameter is the deciding one. -/
theorem resolve_source_by_priority (c : Ctx) (srcs : Sources) (st : St)
    (h : resolve c srcs = some st) (l : String) (m : Meta) (hk : c.known l = some m) :
    st.cur l = ((winner c srcs l m).map (fun t => t.1.prio)).getD 0 := by
  have hp := congrArg Prod.snd (resolve_proj c srcs st h l m hk)
  simp only [proj] at hp
  rw [hp]
  cases winner c srcs l m <;> rfl

/-! ## Shadowed values (full strength) -/

/-- Deleting every shadowed key — every key of a known parameter that sits in a source below the one
that decides the parameter — changes neither `Err` nor any field, WHATEVER the shadowed values are
(invalid and fatal ones included). -/
theorem shadowed_irrelevant (c : Ctx) (ho : OrderOK c) (srcs : Sources) (hn : KeysNodup srcs) :
    SameResult c (resolve c srcs) (resolve c (pruneShadowed c srcs)) := by
  have hn' : KeysNodup (pruneShadowed c srcs) := keysNodup_filter hn _
  cases hr : resolve c srcs with
  | none =>
    have : resolve c (pruneShadowed c srcs) = none := by
      rw [resolve_none_iff, fatalTop_prune, ← resolve_none_iff]; exact hr
    rw [this]; trivial
  | some st =>
    cases hr' : resolve c (pruneShadowed c srcs) with
    | none =>
      rw [resolve_none_iff, fatalTop_prune, ← resolve_none_iff, hr] at hr'; cases hr'
    | some st' =>
      intro l m hk
      rw [resolve_by_priority c srcs st hr l m hk, resolve_by_priority c _ st' hr' l m hk]
      have : winner c (pruneShadowed c srcs) l m = winner c srcs l m := by
        cases hw : winner c srcs l m with
        | none =>
          rw [winner_none_iff] at hw ⊢
          intro s hh
          exact hw s ((hasKey_prune hk s).1 hh).1
        | some t =>
          rw [winner_eq_some_iff c ho _ hn', isWinner_prune c srcs l m hk,
            ← winner_eq_some_iff c ho srcs hn]
          exact hw
      rw [this]

/-- The pre-fix witness (env `p=1`, global `p=bogus` on a die-on-parse-failure parameter; the
DESIGN §5 `MetadataPort` example) now resolves. -/
def wCtx (die nonZero : Bool) : Ctx :=
  { lower := fun s => if s = "P" then "p" else s
    known := fun l => if l = "p" then some ⟨"P", false, die, nonZero⟩ else none
    parse := fun _ raw => if raw = "1" then some "one" else if raw = "2" then some "two" else none
    keyLe := fun a b => decide (a ≤ b) }

theorem wCtx_orderOK (d z : Bool) : OrderOK (wCtx d z) where
  total a b := by
    simp only [wCtx, Bool.or_eq_true, decide_eq_true_eq]
    exact String.le_total a b
  trans a b d' h1 h2 := by
    simp only [wCtx, decide_eq_true_eq] at *
    exact String.le_trans h1 h2
  antisymm a b h1 h2 := by
    simp only [wCtx, decide_eq_true_eq] at *
    exact String.le_antisymm h1 h2

def wShadowed : Sources := fun s => match s with
  | .env => [("p", "1")] | .global => [("p", "bogus")] | _ => []
def wShadowedNone : Sources := fun s => match s with
  | .env => [("p", "1")] | .global => [("p", "none")] | _ => []

def wFatalTop : Sources := fun s => match s with | .env => [("p", "bogus")] | _ => []

theorem wSorted1 (d z : Bool) (w : Sources) (hw : ∀ s, (w s).length ≤ 1) (s : Src) :
    (w s).Pairwise (fun a b => (wCtx d z).keyLe a.1 b.1 = true) := by
  have := hw s
  match h : w s with
  | [] => exact List.Pairwise.nil
  | [_] => exact List.pairwise_singleton _ _
  | _ :: _ :: _ => rw [h] at this; simp at this

theorem shadowed_fatal_regression :
    (resolve (wCtx true false) wShadowed).map (fun st => st.fields.lookup "p") = some (some (.parsed "one")) ∧
    (resolve (wCtx false true) wShadowedNone).map (fun st => st.fields.lookup "p") = some (some (.parsed "one")) ∧
    -- the same fatal value in the DECIDING source is still fatal
    resolve (wCtx true false) wFatalTop = none := by
  rw [resolve_eq_resolveSorted _ _ (wSorted1 _ _ _ (by intro s; cases s <;> simp [wShadowed])),
    resolve_eq_resolveSorted _ _ (wSorted1 _ _ _ (by intro s; cases s <;> simp [wShadowedNone])),
    resolve_eq_resolveSorted _ _ (wSorted1 _ _ _ (by intro s; cases s <;> simp [wFatalTop]))]
  refine ⟨by decide, by decide, by decide⟩

/-! ## Order in which keys are read (full strength) -/

/-- The sources are Go maps: whatever order each source's keys are listed (iterated) in, `resolve`
gives the identical result — every field, the raw values, the recorded sources, and `Err` —
because it sorts the keys. -/
theorem order_independent (c : Ctx) (ho : OrderOK c) (srcs srcs' : Sources) (hn : KeysNodup srcs)
    (hp : ∀ s, (srcs' s).Perm (srcs s)) : resolve c srcs' = resolve c srcs := by
  have : flat c srcs' = flat c srcs := by
    unfold flat
    congr 1
    funext s
    rw [sortKeys_eq_of_perm c ho (hp s).symm (hn s)]
  unfold resolve
  rw [this]

/-- The pre-fix witness: one source with keys `P=1` and `p=2`; both listing orders now give the
value of the greater spelling `p`. -/
def wOrderA : Sources := fun s => match s with | .file => [("P", "1"), ("p", "2")] | _ => []
def wOrderB : Sources := fun s => match s with | .file => [("p", "2"), ("P", "1")] | _ => []

theorem wOrderA_sorted (s : Src) :
    (wOrderA s).Pairwise (fun a b => (wCtx false false).keyLe a.1 b.1 = true) := by
  cases s <;> simp [wOrderA, wCtx] <;> decide

theorem case_variant_order_regression :
    (resolve (wCtx false false) wOrderA).map (fun st => st.fields.lookup "p") = some (some (.parsed "two")) ∧
    (resolve (wCtx false false) wOrderB).map (fun st => st.fields.lookup "p") = some (some (.parsed "two")) := by
  have hB : resolve (wCtx false false) wOrderB = resolve (wCtx false false) wOrderA :=
    order_independent _ (wCtx_orderOK _ _) _ _ (by intro s; cases s <;> simp [wOrderA])
      (by
        intro s
        cases s <;> simp only [wOrderA, wOrderB, List.Perm.refl]
        exact List.Perm.swap _ _ _)
  rw [hB, resolve_eq_resolveSorted _ _ wOrderA_sorted]
  refine ⟨by decide, by decide⟩

/-! ## Datastore values of local-only parameters are ignored (full strength) -/

/-- Removing every datastore (non-local source) key of every local-only parameter changes NOTHING:
fields, raw values, recorded sources and `Err` are identical, whatever those keys' values are. -/
theorem nonlocal_ignored_for_local_params (c : Ctx) (ho : OrderOK c) (srcs : Sources) (hn : KeysNodup srcs) :
    resolve c (dropNonLocal c srcs) = resolve c srcs := by
  unfold resolve dropNonLocal
  rw [flat_filter c ho srcs hn (fun s kv => !nonLocalOfLocal c s kv)]
  exact foldlM_filter_ident c _ (fun st t ht => step_nonLocal c st t ht) _ _

/-- Hence two assignments that differ only in such keys resolve identically. -/
theorem nonlocal_ignored_for_local_params' (c : Ctx) (ho : OrderOK c) (srcs srcs' : Sources)
    (hn : KeysNodup srcs) (hn' : KeysNodup srcs')
    (h : dropNonLocal c srcs = dropNonLocal c srcs') : resolve c srcs = resolve c srcs' := by
  rw [← nonlocal_ignored_for_local_params c ho srcs hn, ← nonlocal_ignored_for_local_params c ho srcs' hn', h]

/-! ## Non-vacuity -/

def wOk : Sources := fun s => match s with
  | .env => [("P", "1")] | .global => [("p", "2")] | _ => []

example : KeysNodup wOk := by intro s; cases s <;> simp [wOk]
example : KeysNodup wOrderA := by intro s; cases s <;> simp [wOrderA]
example : (resolve (wCtx true true) wOk).map (fun st => st.fields.lookup "p") = some (some (.parsed "one")) := by
  rw [resolve_eq_resolveSorted _ _ (wSorted1 _ _ _ (by intro s; cases s <;> simp [wOk]))]; decide
example : IsWinner (wCtx true true) wOk "p" ⟨"P", false, true, true⟩ (.env, ("P", "1")) := by
  refine ⟨⟨⟨by decide, ("P", "1"), by simp [wOk], by decide⟩, ?_⟩, by simp [wOk], by decide, ?_⟩
  · intro s' hlt; cases s' <;> simp [Src.prio] at hlt <;> simp [HasKey, wOk]
  · intro kv' hkv' _; simp [wOk] at hkv'; subst hkv'; decide
example : (pruneShadowed (wCtx true true) wOk) .global = [] := by decide
example : (pruneShadowed (wCtx true false) wShadowed) .global = [] := by decide
/-- local-only parameter set from the datastore: ignored, even though the value is fatal. -/
def wLocalCtx : Ctx := { wCtx true true with known := fun l => if l = "p" then some ⟨"P", true, true, true⟩ else none }
example : (dropNonLocal wLocalCtx wShadowed) .global = [] := by decide

end CalicoVerif.C27
