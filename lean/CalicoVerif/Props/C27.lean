import CalicoVerif.Proofs.C27
/-!
C27 — Felix configuration resolves by source priority, deterministically.

Property theorems only (vocabulary and helper lemmas: `CalicoVerif.Proofs.C27`; model:
`CalicoVerif.Model.C27`). All theorems quantify over EVERY context `c : Ctx` (any parameter table,
any parse function, any lower-casing function) and every assignment `srcs : Sources` of ordered key
lists to the six sources.

Two parts of the property are FALSE of the current code (DESIGN §5); they are kept visible as the
full-strength propositions `ShadowedIrrelevant` / `OrderIndependent`, refuted by concrete witnesses
(`…_false`), and proved in the strongest form that holds (`…_partial`).
-/
namespace CalicoVerif.C27

/-! ## What the current code does about `Err` -/

/-- `resolve` fails (sets `Err`) iff ANY key of ANY source — shadowed or not — that is not a datastore
value of a local-only parameter carries a fatal value (`none` on a non-zero parameter, or an invalid
value of a die-on-parse-failure parameter). Independent of every order. -/
theorem resolve_fatal_iff (c : Ctx) (srcs : Sources) :
    resolve c srcs = none ↔ ∃ s kv, kv ∈ srcs s ∧ fatalKey c (s, kv) := by
  unfold resolve
  rw [foldlM_step_none_iff]
  constructor
  · rintro ⟨t, ht, hf⟩; exact ⟨t.1, t.2, mem_flat.1 ht, hf⟩
  · rintro ⟨s, kv, hm, hf⟩; exact ⟨(s, kv), mem_flat.2 hm, hf⟩

/-! ## Resolution by priority -/

/-- For every known parameter, when `resolve` succeeds on sources whose keys are distinct up to case,
the field holds exactly what the DECIDING key (the key for it in the highest-priority source that sets
it, datastore sources not counting for local-only parameters) says: its parsed value, the zero value
for `none`, the default if it is invalid and not fatal (`valOf`); and it is left at what
`applyDefaults` wrote (`lookup = none`) when no source sets it. -/
theorem resolve_by_priority (c : Ctx) (srcs : Sources) (hd : DistinctLower c srcs) (st : St)
    (h : resolve c srcs = some st) (l : String) (m : Meta) (hk : c.known l = some m) :
    st.fields.lookup l = (deciding c srcs l m).bind (fun t => valOf c m t.2.2) := by
  have hp := congrArg Prod.fst (resolve_proj c srcs hd st h l m hk)
  simp only [proj] at hp
  rw [hp]
  cases hdec : deciding c srcs l m with
  | none => rfl
  | some t =>
    obtain ⟨v, hv⟩ := deciding_not_fatal c srcs (by rw [h]; simp) l m hk t hdec
    simp [hv]

/-- The same statement for `nameToSource`: the source recorded for a parameter is the deciding one. -/
theorem resolve_source_by_priority (c : Ctx) (srcs : Sources) (hd : DistinctLower c srcs) (st : St)
    (h : resolve c srcs = some st) (l : String) (m : Meta) (hk : c.known l = some m) :
    st.cur l = ((deciding c srcs l m).map (fun t => t.1.prio)).getD 0 := by
  have hp := congrArg Prod.snd (resolve_proj c srcs hd st h l m hk)
  simp only [proj] at hp
  rw [hp]
  cases deciding c srcs l m <;> rfl

/-! ## Datastore values of local-only parameters are ignored (full strength) -/

/-- Removing every datastore (non-local source) key of every local-only parameter changes NOTHING:
the whole loop result (fields, raw values, sources, and whether `Err` is set) is identical — whatever
those keys' values are (invalid and fatal ones included), with no assumption on the sources. -/
theorem nonlocal_ignored_for_local_params (c : Ctx) (srcs : Sources) :
    resolve c (dropNonLocal c srcs) = resolve c srcs := by
  unfold resolve dropNonLocal
  rw [flat_filter srcs (fun s kv => !nonLocalOfLocal c s kv)]
  exact foldlM_filter_ident c _ (fun st t ht => step_nonLocal c st t ht) _ _

/-- Hence two assignments that differ only in such keys resolve identically. -/
theorem nonlocal_ignored_for_local_params' (c : Ctx) (srcs srcs' : Sources)
    (h : dropNonLocal c srcs = dropNonLocal c srcs') : resolve c srcs = resolve c srcs' := by
  rw [← nonlocal_ignored_for_local_params c srcs, ← nonlocal_ignored_for_local_params c srcs', h]

/-! ## Shadowed values -/

/-- FULL-STRENGTH statement (property text: "values from lower-priority sources that are shadowed …
never affect the result"): deleting every shadowed key leaves the result (`Err`, every field) as it was. -/
def ShadowedIrrelevant : Prop :=
  ∀ (c : Ctx) (srcs : Sources), DistinctLower c srcs →
    SameResult c (resolve c srcs) (resolve c (pruneShadowed c srcs))

/-- Witness context: one parameter `p`, die-on-parse-failure; the only valid raw value is `"1"`. -/
def wCtx (die nonZero : Bool) : Ctx :=
  { lower := fun s => if s = "P" then "p" else s
    known := fun l => if l = "p" then some ⟨"P", false, die, nonZero⟩ else none
    parse := fun _ raw => if raw = "1" then some "one" else if raw = "2" then some "two" else none }

/-- env `p=1`, global `p=bogus` (the DESIGN §5 witness `MetadataPort`). -/
def wShadowed : Sources := fun s => match s with
  | .env => [("p", "1")] | .global => [("p", "bogus")] | _ => []

/-- env `p=1`, global `p=none` on a non-zero parameter. -/
def wShadowedNone : Sources := fun s => match s with
  | .env => [("p", "1")] | .global => [("p", "none")] | _ => []

theorem wShadowed_distinct (d z : Bool) (w : Sources)
    (hw : ∀ s, (w s).length ≤ 1) : DistinctLower (wCtx d z) w := by
  intro s
  have := hw s
  match h : w s with
  | [] => exact List.Pairwise.nil
  | [_] => exact List.pairwise_singleton _ _
  | _ :: _ :: _ => rw [h] at this; simp at this

/-- The shadowed global value is fatal for the whole resolution … -/
theorem shadowed_fatal_witness :
    resolve (wCtx true false) wShadowed = none ∧
    (resolve (wCtx true false) (pruneShadowed (wCtx true false) wShadowed)).isSome = true ∧
    resolve (wCtx false true) wShadowedNone = none ∧
    (resolve (wCtx false true) (pruneShadowed (wCtx false true) wShadowedNone)).isSome = true := by
  refine ⟨by decide, by decide, by decide, by decide⟩

/-- … so the full-strength statement is FALSE of the current code. -/
theorem shadowed_irrelevant_false : ¬ ShadowedIrrelevant := by
  intro h
  have h1 := h (wCtx true false) wShadowed
    (wShadowed_distinct _ _ _ (by intro s; cases s <;> simp [wShadowed]))
  have h2 := shadowed_fatal_witness
  rw [h2.1] at h1
  cases hr : resolve (wCtx true false) (pruneShadowed (wCtx true false) wShadowed) with
  | none => rw [hr] at h2; simp at h2
  | some st => rw [hr] at h1; exact h1

/-- What holds: if no key anywhere is fatal (i.e. `resolve` succeeds), deleting every shadowed key
changes neither `Err` nor any field. Missing for full strength: a shadowed key with a FATAL value
(invalid for a die-on-parse-failure parameter, or `none` for a non-zero one) still sets `Err`, because
`resolve` parses before it tests `source < currentSource`. -/
theorem shadowed_irrelevant_partial (c : Ctx) (srcs : Sources) (hd : DistinctLower c srcs)
    (hok : resolve c srcs ≠ none) :
    SameResult c (resolve c srcs) (resolve c (pruneShadowed c srcs)) := by
  have hd' : DistinctLower c (pruneShadowed c srcs) :=
    distinctLower_filter hd (fun s kv => !shadowed c srcs s kv)
  have hok' : resolve c (pruneShadowed c srcs) ≠ none := by
    intro hn
    apply hok
    rw [resolve_fatal_iff] at hn ⊢
    obtain ⟨s, kv, hm, hf⟩ := hn
    exact ⟨s, kv, (List.mem_filter.1 hm).1, hf⟩
  cases hr : resolve c srcs with
  | none => exact absurd hr hok
  | some st =>
    cases hr' : resolve c (pruneShadowed c srcs) with
    | none => exact absurd hr' hok'
    | some st' =>
      intro l m hk
      rw [resolve_by_priority c srcs hd st hr l m hk,
        resolve_by_priority c _ hd' st' hr' l m hk, deciding_prune c srcs hd l m hk]

/-! ## Order in which keys are read -/

/-- FULL-STRENGTH statement: the sources are Go maps (exact keys distinct); whatever order each
source's keys are read in, the result is the same. -/
def OrderIndependent : Prop :=
  ∀ (c : Ctx) (srcs srcs' : Sources), (∀ s, ((srcs s).map (·.1)).Nodup) →
    (∀ s, (srcs' s).Perm (srcs s)) → SameResult c (resolve c srcs) (resolve c srcs')

/-- One source (config file) with keys `P=1` and `p=2` (cf. `{LogSeverityScreen:INFO,
logseverityscreen:DEBUG}`), read in the two possible orders. -/
def wOrderA : Sources := fun s => match s with | .file => [("P", "1"), ("p", "2")] | _ => []
def wOrderB : Sources := fun s => match s with | .file => [("p", "2"), ("P", "1")] | _ => []

/-- The key read last wins: the two orders give different values. -/
theorem case_variant_order_witness :
    (resolve (wCtx false false) wOrderA).map (fun st => st.fields.lookup "p") = some (some (.parsed "two")) ∧
    (resolve (wCtx false false) wOrderB).map (fun st => st.fields.lookup "p") = some (some (.parsed "one")) := by
  refine ⟨by decide, by decide⟩

theorem order_independent_false : ¬ OrderIndependent := by
  intro h
  have h1 := h (wCtx false false) wOrderA wOrderB
    (by intro s; cases s <;> simp [wOrderA])
    (by
      intro s
      cases s <;> simp only [wOrderA, wOrderB, List.Perm.refl]
      exact List.Perm.swap _ _ _)
  have ⟨ha, hb⟩ := case_variant_order_witness
  cases hra : resolve (wCtx false false) wOrderA with
  | none => rw [hra] at ha; simp at ha
  | some sa =>
    cases hrb : resolve (wCtx false false) wOrderB with
    | none => rw [hrb] at hb; simp at hb
    | some sb =>
      rw [hra, hrb] at h1
      rw [hra] at ha; rw [hrb] at hb
      have := h1 "p" ⟨"P", false, false, false⟩ (by simp [wCtx])
      simp only [Option.map_some, Option.some.injEq] at ha hb
      rw [ha, hb] at this
      simp at this

/-- What holds: if no two keys of one source differ only in case, every order of reading the keys
gives the same `Err` and the same value in every field. Missing for full strength: two keys of one
source that differ only in case are both applied, and the one read last wins. -/
theorem order_independent_partial (c : Ctx) (srcs srcs' : Sources) (hd : DistinctLower c srcs)
    (hp : ∀ s, (srcs' s).Perm (srcs s)) : SameResult c (resolve c srcs) (resolve c srcs') := by
  have hd' : DistinctLower c srcs' := fun s => pairwise_perm (hp s).symm (hd s)
  have hnone : resolve c srcs = none ↔ resolve c srcs' = none := by
    rw [resolve_fatal_iff, resolve_fatal_iff]
    constructor
    · rintro ⟨s, kv, hm, hf⟩; exact ⟨s, kv, (hp s).mem_iff.2 hm, hf⟩
    · rintro ⟨s, kv, hm, hf⟩; exact ⟨s, kv, (hp s).mem_iff.1 hm, hf⟩
  cases hr : resolve c srcs with
  | none => rw [hnone.1 hr]; trivial
  | some st =>
    cases hr' : resolve c srcs' with
    | none => rw [hnone.2 hr'] at hr; cases hr
    | some st' =>
      intro l m hk
      rw [resolve_by_priority c srcs hd st hr l m hk, resolve_by_priority c srcs' hd' st' hr' l m hk]
      have : deciding c srcs' l m = deciding c srcs l m := by
        unfold deciding
        congr 1
        funext s
        unfold decidingIn
        rw [find?_keyFor_perm c l (hp s) (hd' s)]
      rw [this]

/-! ## Non-vacuity -/

/-- A three-source assignment with distinct keys that resolves: env decides `p`, the shadowed global
value is valid; the field is the env value. -/
def wOk : Sources := fun s => match s with
  | .env => [("P", "1")] | .global => [("p", "2")] | _ => []

example : DistinctLower (wCtx true true) wOk :=
  wShadowed_distinct _ _ _ (by intro s; cases s <;> simp [wOk])
example : (resolve (wCtx true true) wOk).map (fun st => st.fields.lookup "p") = some (some (.parsed "one")) := by
  decide
example : deciding (wCtx true true) wOk "p" ⟨"P", false, true, true⟩ = some (.env, ("P", "1")) := by decide
example : (pruneShadowed (wCtx true true) wOk) .global = [] := by decide
example : resolve (wCtx true true) wOk ≠ none := by decide
/-- local-only parameter set from the datastore: ignored, even though the value is fatal. -/
def wLocalCtx : Ctx := { wCtx true true with known := fun l => if l = "p" then some ⟨"P", true, true, true⟩ else none }
example : (dropNonLocal wLocalCtx wShadowed) .global = [] ∧ (resolve wLocalCtx wShadowed).isSome = true := by
  decide

end CalicoVerif.C27
