import CalicoVerif.Proofs.C18Len
/-!
C18 (continued) — `Len()` of the four views and `InSync()`.

`IsCard n S` = "a duplicate-free list of length `n` enumerates exactly the keys satisfying `S`",
i.e. `n` is the cardinality of `S`.
-/
namespace CalicoVerif.C18
variable {K V : Type} [DecidableEq K]

/-- **Len() of every view is a cardinality, InSync() means "no difference", after ANY history.**
`univ` is any duplicate-free list containing every key the history passes to `Desired().Set`
(e.g. those keys de-duplicated); it only serves to count. -/
theorem lens_exact (eqv : V → V → Bool) (hs : Sym eqv) (hr : Refl eqv) (ops : List (Op K V))
    (hw : ∀ op ∈ ops, op.WF) (univ : List K) (hu : univ.Nodup) (hk : ∀ op ∈ ops, op.keysIn univ) :
    let t := run eqv ops
    let s := specRun eqv ops
    (0 ≤ t.desiredLen ∧ IsCard t.desiredLen.toNat (fun k => (s.des k).isSome = true)) ∧
    IsCard t.dataplaneLen (fun k => (s.dp k).isSome = true) ∧
    IsCard t.pendingUpdatesLen (fun k => pendU eqv (s.des k, s.dp k) = true) ∧
    IsCard t.pendingDeletionsLen (fun k => pendX (s.des k, s.dp k) = true) ∧
    (t.inSync = true ↔ ∀ k, pendU eqv (s.des k, s.dp k) = false ∧ pendX (s.des k, s.dp k) = false) := by
  obtain ⟨hi, hw3, hj⟩ := g_run eqv hs hr univ hu ops hw hk
  have ha := (tracker_refines eqv hs hr ops hw).2.2
  have hd : ∀ k, desiredGet (run eqv ops) k = (specRun eqv ops).des k := fun k => congrFun (congrArg Spec.des ha) k
  have hp : ∀ k, dataplaneGet (run eqv ops) k = (specRun eqv ops).dp k := fun k => congrFun (congrArg Spec.dp ha) k
  have c1 := card_desired univ hu _ hj
  have c2 := card_dataplane eqv _ hi hw3
  have c3 := card_pendingUpdates eqv hr _ hi hw3
  have c4 := card_pendingDeletions eqv _ hi hw3
  have c5 := inSync_iff eqv hr _ hi
  simp only [hd, hp] at c1 c2 c3 c4 c5
  exact ⟨c1, c2, c3, c4, c5⟩

/-- When `valuesEqual` is equality, "no pending update and no pending deletion at `k`" is
literally `desired[k] = dataplane[k]` — so `InSync()` ⇔ the two maps are equal. -/
theorem no_pending_iff_equal (eqv : V → V → Bool) (hl : Lawful eqv) (d q : Option V) :
    (pendU eqv (d, q) = false ∧ pendX (d, q) = false) ↔ d = q := by
  unfold pendU pendX
  cases d with
  | none => cases q <;> simp
  | some v =>
    cases q with
    | none => simp
    | some w =>
      have := hl v w
      by_cases h : eqv v w = true
      · have e := this.1 h
        subst e
        simp [h]
      · have hne : v ≠ w := fun e => h (this.2 e)
        simp [h, hne]

/-- Non-vacuity: the example history of `Props.C18` with universe [1,2,3]. -/
example : (∀ op ∈ exOps, op.keysIn [1, 2, 3]) ∧ (run natEq exOps).desiredLen = 2 ∧
    (run natEq exOps).dataplaneLen = 3 ∧ (run natEq exOps).pendingUpdatesLen = 1 ∧
    (run natEq exOps).pendingDeletionsLen = 1 ∧ (run natEq exOps).inSync = false := by
  refine ⟨?_, by decide, by decide, by decide, by decide, by decide⟩
  intro op h
  simp only [exOps, List.mem_cons, List.not_mem_nil, or_false] at h
  rcases h with rfl | rfl | rfl | rfl | rfl <;> simp [Op.keysIn]

/-! ### Convergence: applying everything pending reaches InSync -/

theorem specRun_append (eqv : V → V → Bool) (a b : List (Op K V)) :
    specRun eqv (a ++ b) = b.foldl (specStep eqv) (specRun eqv a) := by
  simp [specRun, List.foldl_append]

/-- **Convergence of the tracker itself.**  After ANY history, one `PendingUpdates().Iter`
whose callback applies every item followed by one `PendingDeletions().Iter` that applies
every item leaves `InSync()` true, the desired map untouched, and the dataplane map equal to
the desired map up to `valuesEqual` (exactly equal when `valuesEqual` is equality, see
`no_pending_iff_equal`). -/
theorem apply_all_converges (eqv : V → V → Bool) (hs : Sym eqv) (hr : Refl eqv) (ops : List (Op K V))
    (hw : ∀ op ∈ ops, op.WF) :
    let ops' := ops ++ [.uIter (fun _ => Act.update), .xIter (fun _ => Act.update)]
    (run eqv ops').inSync = true ∧
    (∀ k, (specRun eqv ops').des k = (specRun eqv ops).des k) ∧
    (∀ k, pendU eqv ((specRun eqv ops).des k, (specRun eqv ops').dp k) = false ∧
          pendX ((specRun eqv ops).des k, (specRun eqv ops').dp k) = false) := by
  intro ops'
  have hw' : ∀ op ∈ ops', op.WF := by
    intro op h
    simp only [ops', List.mem_append, List.mem_cons, List.not_mem_nil, or_false] at h
    rcases h with h | rfl | rfl
    · exact hw op h
    · trivial
    · trivial
  obtain ⟨hi, -, ha⟩ := tracker_refines eqv hs hr ops' hw'
  have hd : ∀ k, desiredGet (run eqv ops') k = (specRun eqv ops').des k := fun k => congrFun (congrArg Spec.des ha) k
  have hp : ∀ k, dataplaneGet (run eqv ops') k = (specRun eqv ops').dp k := fun k => congrFun (congrArg Spec.dp ha) k
  have key : ∀ k, (specRun eqv ops').des k = (specRun eqv ops).des k ∧
      pendU eqv ((specRun eqv ops).des k, (specRun eqv ops').dp k) = false ∧
      pendX ((specRun eqv ops).des k, (specRun eqv ops').dp k) = false := by
    intro k
    simp only [ops', specRun_append, List.foldl_cons, List.foldl_nil, specStep, specAt, decide_true]
    generalize (specRun eqv ops).des k = d
    generalize (specRun eqv ops).dp k = q
    have hrr := hr
    unfold Refl at hrr
    cases d <;> cases q <;> simp [sUIter, sXIter, pendU, pendX, hrr]
    rename_i v w
    by_cases h : eqv v w = true <;> simp [h, hrr]
  refine ⟨?_, fun k => (key k).1, fun k => (key k).2⟩
  rw [inSync_iff eqv hr _ hi]
  intro k
  rw [hd, hp, (key k).1]
  exact (key k).2

/-- Non-vacuity on the example history: it is out of sync before and in sync after. -/
example : (run natEq exOps).inSync = false ∧
    (run natEq (exOps ++ [.uIter (fun _ => Act.update), .xIter (fun _ => Act.update)])).inSync = true := by
  decide
end CalicoVerif.C18
