import CalicoVerif.Proofs.C45
/-!
C45 — Every node elects the same owner for a load-balancer address.

Property theorems only (helper lemmas live in `CalicoVerif.Proofs.C45`).
All theorems hold for EVERY byte-slice hasher `H` (a parameter: XXH3 or any
other deterministic function, including ones full of collisions), every
`replicas ≥ 1`, `probes ≥ 1`, every value type `V` and every history `ops` of
`Insert` / `Remove` / `Lookup` calls on a ring created by `New` (`Lookup`s are
part of the history because they sweep and sort the internal table).

`memberMap ops` is the specification of "the current member set" after a
history (independent of the ring's internals: inserts set, removes delete).
-/
namespace CalicoVerif.C45

variable {V : Type}

/-- The ring's live member map IS the specified member set after any history. -/
theorem live_eq_memberMap (H : List Nat → Nat) {R P : Int} {r0 : Ring V}
    (h0 : Ring.new R P = some r0) (ops : List (Op V)) (k : Key) :
    (r0.run H ops).live k = memberMap ops k := by
  rw [live_run]
  have : r0.live = fun _ => none := funext (inv_new H h0).2.2.2
  rw [this]; rfl

/-- **History independence.** Two arbitrary histories (any interleaving of
inserts, removes — swept or still pending — and lookups) that end with the same
member set give the same `Lookup` answer for every key. -/
theorem lookup_history_independent (H : List Nat → Nat) {R P : Int} {r0 : Ring V}
    (h0 : Ring.new R P = some r0) (ops1 ops2 : List (Op V))
    (hm : ∀ k, memberMap ops1 k = memberMap ops2 k) (q : Key) :
    ((r0.run H ops1).lookup H q).2 = ((r0.run H ops2).lookup H q).2 := by
  obtain ⟨hi0, -, -, -⟩ := inv_new (V := V) H h0
  obtain ⟨hi1, hR1, hP1⟩ := inv_run H ops1 hi0
  obtain ⟨hi2, hR2, hP2⟩ := inv_run H ops2 hi0
  have hl : ∀ k, (r0.run H ops1).live k = (r0.run H ops2).live k := by
    intro k; rw [live_eq_memberMap H h0, live_eq_memberMap H h0, hm]
  rw [lookup_eq, lookup_eq]
  have hz : (r0.run H ops1).len = 0 ↔ (r0.run H ops2).len = 0 := by
    rw [len_zero_iff H hi1, len_zero_iff H hi2]
    constructor
    · intro h k; rw [← hl]; exact h k
    · intro h k; rw [hl]; exact h k
  by_cases h1 : (r0.run H ops1).len = 0
  · simp [h1, hz.1 h1]
  · have h2 : ¬ (r0.run H ops2).len = 0 := fun h => h1 (hz.2 h)
    simp only [h1, h2, if_false]
    obtain ⟨si1, sd1, ss1, sR1, sP1, sl1⟩ := swept H hi1
    obtain ⟨si2, sd2, ss2, sR2, sP2, sl2⟩ := swept H hi2
    obtain ⟨hE, hmg⟩ := canon H si1 si2 sd1 sd2 ss1 ss2 (by rw [sR1, sR2, hR1, hR2])
      (fun k => by rw [sl1, sl2, hl])
    rw [hE, sP1, sP2, hP1, hP2, funext hmg]

/-- The form used by the correspondence oracle: a ring built FRESH from the
current members, inserted in any order (`kvs` is any duplicate-free listing of
the member set), answers every `Lookup` like the ring with the history. -/
theorem lookup_fresh_build (H : List Nat → Nat) {R P : Int} {r0 : Ring V}
    (h0 : Ring.new R P = some r0) (ops : List (Op V)) (kvs : List (Key × V))
    (hn : (kvs.map (·.1)).Nodup) (hk : ∀ k, mget kvs k = memberMap ops k) (q : Key) :
    ((r0.run H (insertAll kvs)).lookup H q).2 = ((r0.run H ops).lookup H q).2 := by
  apply lookup_history_independent H h0
  intro k
  rw [← live_eq_memberMap H h0, ← hk, live_insertAll H kvs r0 k hn, (inv_new H h0).2.2.2 k]
  by_cases hmem : k ∈ keys kvs
  · simp [hmem]
  · simp [hmem, (mget_none_iff kvs k).2 hmem]

/-- **The owner is a current member** (and `Lookup` never indexes out of
range): the answer is either "no owner" or the value of some current member. -/
theorem owner_is_member (H : List Nat → Nat) {R P : Int} {r0 : Ring V}
    (h0 : Ring.new R P = some r0) (ops : List (Op V)) (q : Key) :
    ((r0.run H ops).lookup H q).2 = .absent ∨
      ∃ k v, memberMap ops k = some v ∧ ((r0.run H ops).lookup H q).2 = .owner (some v) := by
  obtain ⟨hi0, -, -, -⟩ := inv_new (V := V) H h0
  obtain ⟨hi, -, -⟩ := inv_run H ops hi0
  rw [lookup_eq]
  by_cases hz : (r0.run H ops).len = 0
  · exact Or.inl (by simp [hz])
  · right
    simp only [hz, if_false]
    obtain ⟨si, sd, ss, sR, sP, sl⟩ := swept H hi
    -- some member is live, so the swept entry table is not empty
    have hne : (r0.run H ops).sweep.sort.entries ≠ [] := by
      intro hnil
      have hv : vnodes H (r0.run H ops).sweep.sort.replicas
          (keys (r0.run H ops).sweep.sort.members) = [] := by
        have := si.perm; rw [hnil] at this; exact List.Perm.eq_nil this.symm
      have hk : keys (r0.run H ops).sweep.sort.members = [] := by
        cases hks : keys (r0.run H ops).sweep.sort.members with
        | nil => rfl
        | cons a l => exact absurd hv (vnodes_ne_nil si.pos.1 (by rw [hks]; simp))
      apply hz
      rw [len_zero_iff H hi]
      intro k
      rw [← sl k]
      simp only [Ring.live, sd, List.not_mem_nil, if_false]
      rw [mget_none_iff, hk]; simp
    obtain ⟨e, he, hres⟩ := lookupRes_owner H hne (r0.run H ops).sweep.sort.probes
      (mget (r0.run H ops).sweep.sort.members) q
    have hkey : e.key ∈ keys (r0.run H ops).sweep.sort.members := mem_vnodes (si.perm.mem_iff.1 he)
    have hsome := (mget_isSome_iff _ _).2 hkey
    cases hv : mget (r0.run H ops).sweep.sort.members e.key with
    | none => rw [hv] at hsome; simp at hsome
    | some v =>
      refine ⟨e.key, v, ?_, by rw [hres, hv]⟩
      rw [← live_eq_memberMap H h0, ← sl e.key]
      simp only [Ring.live, sd, List.not_mem_nil, if_false, hv]

theorem lookup_never_panics (H : List Nat → Nat) {R P : Int} {r0 : Ring V}
    (h0 : Ring.new R P = some r0) (ops : List (Op V)) (q : Key) :
    ((r0.run H ops).lookup H q).2 ≠ .panic := by
  rcases owner_is_member H h0 ops q with h | ⟨k, v, -, h⟩ <;> rw [h] <;> simp

/-- **No owner iff no members.** -/
theorem none_iff_empty (H : List Nat → Nat) {R P : Int} {r0 : Ring V}
    (h0 : Ring.new R P = some r0) (ops : List (Op V)) (q : Key) :
    ((r0.run H ops).lookup H q).2 = .absent ↔ ∀ k, memberMap ops k = none := by
  obtain ⟨hi0, -, -, -⟩ := inv_new (V := V) H h0
  obtain ⟨hi, -, -⟩ := inv_run H ops hi0
  have hz := len_zero_iff H hi
  simp only [live_eq_memberMap H h0] at hz
  rw [← hz, lookup_eq]
  by_cases hl : (r0.run H ops).len = 0
  · simp [hl]
  · simp [hl, lookupRes_ne_absent]

/-- `Len()` is the number of current members. -/
theorem len_is_member_count (H : List Nat → Nat) {R P : Int} {r0 : Ring V}
    (h0 : Ring.new R P = some r0) (ops : List (Op V)) :
    ∃ ks : List Key, ks.Nodup ∧ (∀ k, k ∈ ks ↔ (memberMap ops k).isSome = true) ∧
      (r0.run H ops).len = (ks.length : Int) := by
  obtain ⟨hi0, -, -, -⟩ := inv_new (V := V) H h0
  obtain ⟨hi, -, -⟩ := inv_run H ops hi0
  refine ⟨liveKeys (r0.run H ops), List.Pairwise.filter _ hi.nodupKeys, ?_, len_eq H hi⟩
  intro k
  rw [mem_liveKeys, live_eq_memberMap H h0]

/-! ### `uint32(i)` in `saltedHash` -/

/-- `saltedHash(key, i)` encodes `uint32(i)`: indices that differ by a multiple
of 2^32 hash identically (replica / probe `i` and `i + 2^32` would share a ring
position). The model carries this truncation (`le32`), so every theorem above
holds for ALL replica and probe counts, not only those below 2^32. -/
theorem saltedHash_uint32_truncation (H : List Nat → Nat) (key : Key) (i : Nat) :
    saltedHash H key i = saltedHash H key (i % 2 ^ 32) := by
  have : le32 (i % 2 ^ 32) = le32 i := by
    simp only [le32, List.cons.injEq, and_true]
    refine ⟨by omega, by omega, by omega, by omega⟩
  simp only [saltedHash, this]

example : saltedHash (fun b => b.sum) [97] (2 ^ 32 + 5) = saltedHash (fun b => b.sum) [97] 5 := by
  decide

/-! ### Non-vacuity -/


/-- `New` succeeds for replicas, probes ≥ 1 (and only then). -/
example : ∃ r0 : Ring Nat, Ring.new 100 1 = some r0 := ⟨_, rfl⟩
example : (Ring.new 0 1 : Option (Ring Nat)) = none := rfl

/-- Two different histories with the same final member set: one removes and
re-inserts before any sweep, looks up in between, and updates a value. -/
example : ∀ k, memberMap (V := Nat) [.insert [1] 10, .insert [2] 20, .remove [1], .lookup [9],
      .insert [1] 11, .remove [2], .insert [2] 21] k =
    memberMap [.insert [2] 21, .insert [1] 11] k := by
  intro k
  simp only [memberMap, List.foldl_cons, List.foldl_nil, Op.apply]
  by_cases h1 : k = [1] <;> by_cases h2 : k = [2] <;> simp [h1, h2]

/-- A concrete history with a pending (unswept) remove: for EVERY hasher the
lookup has an owner and it is one of the two remaining members. -/
example (H : List Nat → Nat) {r0 : Ring Nat} (h0 : Ring.new 2 2 = some r0) :
    ∃ v, (v = 20 ∨ v = 30) ∧ ((r0.run H [.insert [1] 10, .insert [2] 20, .insert [3] 30,
      .remove [1]]).lookup H [7]).2 = .owner (some v) := by
  rcases owner_is_member H h0 [.insert [1] 10, .insert [2] 20, .insert [3] 30, .remove [1]] [7]
    with h | ⟨k, v, hk, hr⟩
  · have := (none_iff_empty H h0 _ [7]).1 h [2]
    simp [memberMap, Op.apply] at this
  · refine ⟨v, ?_, hr⟩
    simp only [memberMap, List.foldl_cons, List.foldl_nil, Op.apply] at hk
    by_cases h1 : k = [1] <;> by_cases h2 : k = [2] <;> by_cases h3 : k = [3] <;>
      simp [h1, h2, h3] at hk <;> omega


/-! ### Corollaries: the ways "order or history of insertions and removals" can differ

Each is the history-independence theorem instantiated at one kind of difference
between two nodes' views; stated separately so that each reading of the property
is a named, audited theorem. -/

/-- **Every node elects the same owner.** Two nodes create their rings separately (same
configuration) and see arbitrary, different histories of the same final membership. -/
theorem nodes_agree (H : List Nat → Nat) {R P : Int} {rA rB : Ring V}
    (hA : Ring.new R P = some rA) (hB : Ring.new R P = some rB) (opsA opsB : List (Op V))
    (hm : ∀ k, memberMap opsA k = memberMap opsB k) (q : Key) :
    ((rA.run H opsA).lookup H q).2 = ((rB.run H opsB).lookup H q).2 := by
  have : rA = rB := by rw [hA] at hB; exact Option.some.inj hB
  subst this
  exact lookup_history_independent H hA opsA opsB hm q

theorem memberMap_append (a b : List (Op V)) :
    memberMap (a ++ b) = b.foldl Op.apply (memberMap a) := by
  simp [memberMap, List.foldl_append]

/-- Insertion order does not matter. -/
theorem insert_order_irrelevant (H : List Nat → Nat) {R P : Int} {r0 : Ring V}
    (h0 : Ring.new R P = some r0) (ops : List (Op V)) (k1 k2 : Key) (v1 v2 : V) (hne : k1 ≠ k2) (q : Key) :
    ((r0.run H (ops ++ [.insert k1 v1, .insert k2 v2])).lookup H q).2 =
      ((r0.run H (ops ++ [.insert k2 v2, .insert k1 v1])).lookup H q).2 := by
  apply lookup_history_independent H h0
  intro k
  simp only [memberMap_append, List.foldl_cons, List.foldl_nil, Op.apply]
  by_cases h1 : k = k1 <;> by_cases h2 : k = k2 <;> simp_all

/-- A member that joins and leaves again (swept or not, with any lookups in between that do
not change membership) leaves no trace in later answers. -/
theorem insert_remove_no_trace (H : List Nat → Nat) {R P : Int} {r0 : Ring V}
    (h0 : Ring.new R P = some r0) (ops : List (Op V)) (k : Key) (v : V) (qs : List Key)
    (hk : memberMap ops k = none) (q : Key) :
    ((r0.run H (ops ++ [.insert k v] ++ qs.map .lookup ++ [.remove k])).lookup H q).2 =
      ((r0.run H ops).lookup H q).2 := by
  apply lookup_history_independent H h0
  intro k'
  have hl : ∀ (m : Key → Option V), (qs.map Op.lookup).foldl Op.apply m = m := by
    intro m; induction qs with
    | nil => rfl
    | cons a l ih => simpa [Op.apply] using ih
  simp only [memberMap_append, List.foldl_cons, List.foldl_nil, hl, Op.apply]
  by_cases h1 : k' = k <;> simp_all

/-- Lookups (which sweep and sort the internal table) never change later answers. -/
theorem lookups_transparent (H : List Nat → Nat) {R P : Int} {r0 : Ring V}
    (h0 : Ring.new R P = some r0) (ops1 ops2 : List (Op V)) (qs : List Key) (q : Key) :
    ((r0.run H (ops1 ++ qs.map .lookup ++ ops2)).lookup H q).2 =
      ((r0.run H (ops1 ++ ops2)).lookup H q).2 := by
  apply lookup_history_independent H h0
  intro k'
  have hl : ∀ (m : Key → Option V), (qs.map Op.lookup).foldl Op.apply m = m := by
    intro m; induction qs with
    | nil => rfl
    | cons a l ih => simpa [Op.apply] using ih
  simp only [memberMap_append, hl]

/-- Re-inserting a member with the value it already has changes nothing. -/
theorem reinsert_idempotent (H : List Nat → Nat) {R P : Int} {r0 : Ring V}
    (h0 : Ring.new R P = some r0) (ops : List (Op V)) (k : Key) (v : V)
    (hk : memberMap ops k = some v) (q : Key) :
    ((r0.run H (ops ++ [.insert k v])).lookup H q).2 = ((r0.run H ops).lookup H q).2 := by
  apply lookup_history_independent H h0
  intro k'
  simp only [memberMap_append, List.foldl_cons, List.foldl_nil, Op.apply]
  by_cases h1 : k' = k <;> simp_all

/-- Removing a non-member changes nothing. -/
theorem remove_absent_noop (H : List Nat → Nat) {R P : Int} {r0 : Ring V}
    (h0 : Ring.new R P = some r0) (ops : List (Op V)) (k : Key)
    (hk : memberMap ops k = none) (q : Key) :
    ((r0.run H (ops ++ [.remove k])).lookup H q).2 = ((r0.run H ops).lookup H q).2 := by
  apply lookup_history_independent H h0
  intro k'
  simp only [memberMap_append, List.foldl_cons, List.foldl_nil, Op.apply]
  by_cases h1 : k' = k <;> simp_all
end CalicoVerif.C45
