import CalicoVerif.Model.C20
import CalicoVerif.Proofs.C19b
/-!
C20 — IPAM allocations respect pools, uses, reservations and affinity limits.
Theorems over the decision logic (`allowedPools`, `takeFree`, `claimLoop`,
`ownOk`) for ALL pool layouts, requests, reservation sets, block contents and
loop histories.
-/
namespace CalicoVerif.C20
open CalicoVerif.Cas

theorem mem_mapM_find {en : List Pool} : ∀ (req : List Nat) (m : List Pool),
    req.mapM (fun r => en.find? (fun p => p.id == r)) = some m →
    ∀ p ∈ m, p ∈ en ∧ p.id ∈ req
  | [], m, h => by simp at h; subst h; intro p hp; cases hp
  | r :: req, m, h => by
    simp only [List.mapM_cons] at h
    cases hf : en.find? (fun p => p.id == r) with
    | none => simp [hf] at h
    | some q =>
      cases hr : req.mapM (fun r => en.find? (fun p => p.id == r)) with
      | none => simp [hf, hr] at h
      | some m' =>
        simp [hf, hr] at h
        subst h
        intro p hp
        rcases List.mem_cons.1 hp with rfl | hp
        · have := List.find?_some hf
          exact ⟨List.mem_of_find?_eq_some hf, by simp at this; simp [this]⟩
        · have := mem_mapM_find req m' hr p hp
          exact ⟨this.1, List.mem_cons_of_mem _ this.2⟩

/-- Every pool a request may draw from is enabled and allowed for the request's use;
without explicitly requested pools it is automatic and selects the node and the
namespace; with requested pools it is one of them. -/
theorem assigned_in_allowed_pool (pools : List Pool) (req : List Nat) (zone team : Nat) (use : Use)
    (l : List Nat) (h : allowedPools pools req zone team use = some l) :
    ∀ i ∈ l, ∃ p ∈ pools, p.id = i ∧ p.enabled = true ∧ use ∈ p.uses ∧
      (req = [] → p.auto = true ∧ selOk p.nodeSel zone = true ∧ selOk p.nsSel team = true) ∧
      (req ≠ [] → i ∈ req) := by
  unfold allowedPools at h
  simp only at h
  split at h
  · cases h
  · split at h
    · cases h
    · rename_i m hm
      split at h
      · cases h
      · split at h
        · cases h
        · injection h with h; subst h
          intro i hi
          obtain ⟨p, hp, rfl⟩ := List.mem_map.1 hi
          obtain ⟨hpm, hu⟩ := List.mem_filter.1 hp
          have hu' : use ∈ p.uses := by simpa using hu
          split at hm
          · rename_i hreq
            injection hm with hm; subst hm
            obtain ⟨hpe, hc⟩ := List.mem_filter.1 hpm
            obtain ⟨hpp, hen⟩ := List.mem_filter.1 hpe
            simp only [Bool.and_eq_true] at hc
            have hreq' : req = [] := by simpa using hreq
            exact ⟨p, hpp, rfl, hen, hu', fun _ => ⟨hc.1.1, hc.1.2, hc.2⟩, fun hne => absurd hreq' hne⟩
          · rename_i hreq
            have := mem_mapM_find req m hm p hpm
            obtain ⟨hpp, hen⟩ := List.mem_filter.1 this.1
            exact ⟨p, hpp, rfl, hen, hu', fun he => by simp [he] at hreq, fun _ => this.2⟩

/-- Requests fail rather than violate: a successful pool selection is never empty. -/
theorem fail_rather_than_violate (pools : List Pool) (req : List Nat) (zone team : Nat) (use : Use)
    (l : List Nat) (h : allowedPools pools req zone team use = some l) : l ≠ [] := by
  unfold allowedPools at h
  simp only at h
  split at h
  · cases h
  · split at h
    · cases h
    · split at h
      · cases h
      · split at h
        · cases h
        · rename_i hne
          injection h with h; subst h
          intro hc
          apply hne
          simpa using hc

theorem takeFree_not_reserved (rv : List Nat) (k : Nat) (u : List Nat) :
    ∀ o ∈ (takeFree rv k u).1, o ∉ rv := by
  fun_induction takeFree rv k u with
  | case1 u => simp
  | case2 k => simp
  | case3 k x u hx r ih => exact ih
  | case4 k x u hx r ih =>
    intro o ho
    rcases List.mem_cons.1 ho with rfl | ho
    · simpa using hx
    · exact ih o ho

/-- No automatically assigned address is inside a reservation: the scan of `autoAssign`
never picks a reserved ordinal, whatever the block and the reservation set. -/
theorem never_reserved (k h : Nat) (rv : List Nat) (b : Blk) :
    ∀ o ∈ (autoAssign k h rv b).2, o ∉ rv := by
  simp only [autoAssign]
  exact takeFree_not_reserved rv k b.unalloc

/-- Strict affinity: an allocation made with the affinity check by host `x` is a
compare-and-swap against a stored block that records `x` as its affinity. -/
theorem strict_affinity_respected (s s' : St) (c : Call) (x b : Nat)
    (h : Cas.step s (.call c) = some s') (hown : c.own = some x) (hk : c.key = Key.blk b)
    (hw : c.verb.isWrite = true)
    (hok : casOutcome (s.curRev c.key) c.verb c.rev c.fault = Outcome.ok) :
    ∃ r v, s.blk b = some (r, v) ∧ v.aff = some x := by
  simp only [Cas.step, hok, hw, if_true] at h
  split at h
  · rename_i ho
    unfold ownOk at ho
    rw [hown, hk] at ho
    simp only at ho
    split at ho
    · rename_i r v hb; exact ⟨r, v, hb, by simpa using ho⟩
    · cases ho
  · cases h

theorem effCap_pos (c r : Nat) : 1 ≤ effCap c r := by
  unfold effCap
  generalize (if c > 0 ∧ r > 0 ∧ r > c then c else if r = 0 then c else r) = m
  by_cases h : m = 0
  · simp [h]
  · simp [h]; omega

/-- The block cap as the code enforces it: over any allocation loop, the number of
blocks the host owns INSIDE THE POOLS USABLE FOR THE REQUEST never grows beyond
max(what it owned there, cap). -/
theorem blocks_per_host_le_cap_partial (cap : Nat) (hc : 1 ≤ cap) :
    ∀ (wants : List Bool) (owned : Nat), claimLoop cap owned wants ≤ max owned cap
  | [], owned => by simp [claimLoop]; omega
  | w :: ws, owned => by
    simp only [claimLoop]
    split
    · split
      · rename_i ha
        have ih := blocks_per_host_le_cap_partial cap hc ws (owned + 1)
        simp only [allowNewClaim, Bool.not_eq_true', Bool.and_eq_false_iff, decide_eq_false_iff_not] at ha
        omega
      · omega
    · exact blocks_per_host_le_cap_partial cap hc ws owned

/-- Full-strength statement "a host never holds more affine blocks than the cap" counts
ALL blocks of the host; the code counts only those inside the pools usable for the
request, so with one block elsewhere the total exceeds the cap. (Reproduced on the
real client: oracle `block-cap-exceeded`, known_findings.txt.) -/
theorem blocks_per_host_le_cap_false :
    ¬ (∀ cap ownedInPools elsewhere wants, 1 ≤ cap →
        claimLoop cap ownedInPools wants + elsewhere ≤ max (ownedInPools + elsewhere) cap) := by
  intro H
  have := H 1 0 1 [true] (by decide)
  revert this
  decide

/-- non-vacuity: a layout where a request is served from exactly one of three pools. -/
example : allowedPools
    [{ id := 0, enabled := true, uses := [.workload], nodeSel := 1, nsSel := 0, auto := true },
     { id := 1, enabled := false, uses := [.workload], nodeSel := 0, nsSel := 0, auto := true },
     { id := 2, enabled := true, uses := [.tunnel], nodeSel := 0, nsSel := 0, auto := true }]
    [] 1 0 .workload = some [0] := by decide

example : (autoAssign 2 1 [0, 2] { aff := some 0, slots := List.replicate 4 .free, unalloc := [0, 1, 2, 3] }).2 = [1, 3] := by
  decide

end CalicoVerif.C20
