import CalicoVerif.Model.C20
import CalicoVerif.Proofs.C19b
/-!
C20 — IPAM allocations respect pools, uses, reservations and affinity limits.

* Decision functions only (named `_partial`): `allowedPools` (determinePools +
  filterPoolsByUse), the scan of `autoAssign`, the block-cap loop — for ALL pool
  layouts, requests, reservation sets, block contents and loop histories.
* Run level: `assigned_respects_limits_guarded_partial` — over ALL runs of `Cas.step` whose events
  pass `guard20` (what the real client hands to `autoAssign`: a block of a pool
  selected for the request, the block's reserved ordinals, the affinity check under
  strict affinity — the driver checks every real event against it), every address a
  request records lies in a block of a pool selected for it, is outside every
  reservation, and under strict affinity comes from a block recording the requesting
  host.
* NOT modelled: the returned prefix length ("comes back as its block's CIDR") — checked on
  the real code by the harness oracle only; which block / pool order AutoAssign tries.
-/
namespace CalicoVerif.C20
open CalicoVerif.Cas

theorem mem_mapM_find {en : List Pool} : ∀ (req : List Nat) (m : List Pool),
    req.mapM (fun r => en.find? (fun p => p.id == r)) = some m →
    ∀ p ∈ m, p ∈ en ∧ p.id ∈ req
  | [], m, h => by simp at h; subst h; intro p hp; cases hp
  | r :: req, m, h => by
    simp only [List.mapM_cons] at h
    cases hf : en.find? (fun p => p.id == r) with
    | none => simp [hf] at h
    | some q =>
      cases hr : req.mapM (fun r => en.find? (fun p => p.id == r)) with
      | none => simp [hf, hr] at h
      | some m' =>
        simp [hf, hr] at h
        subst h
        intro p hp
        rcases List.mem_cons.1 hp with rfl | hp
        · have := List.find?_some hf
          exact ⟨List.mem_of_find?_eq_some hf, by simp at this; simp [this]⟩
        · have := mem_mapM_find req m' hr p hp
          exact ⟨this.1, List.mem_cons_of_mem _ this.2⟩

/-- (Decision function only.)  Every pool a request may draw from is enabled and allowed for the request's use;
without explicitly requested pools it is automatic and selects the node and the
namespace; with requested pools it is one of them. -/
theorem allowed_pools_sound_partial (pools : List Pool) (req : List Nat) (zone team : Nat) (use : Use)
    (l : List Nat) (h : allowedPools pools req zone team use = some l) :
    ∀ i ∈ l, ∃ p ∈ pools, p.id = i ∧ p.enabled = true ∧ use ∈ p.uses ∧
      (req = [] → p.auto = true ∧ selOk p.nodeSel zone = true ∧ selOk p.nsSel team = true) ∧
      (req ≠ [] → i ∈ req) := by
  unfold allowedPools at h
  simp only at h
  split at h
  · cases h
  · split at h
    · cases h
    · rename_i m hm
      split at h
      · cases h
      · split at h
        · cases h
        · injection h with h; subst h
          intro i hi
          obtain ⟨p, hp, rfl⟩ := List.mem_map.1 hi
          obtain ⟨hpm, hu⟩ := List.mem_filter.1 hp
          have hu' : use ∈ p.uses := by simpa using hu
          split at hm
          · rename_i hreq
            injection hm with hm; subst hm
            obtain ⟨hpe, hc⟩ := List.mem_filter.1 hpm
            obtain ⟨hpp, hen⟩ := List.mem_filter.1 hpe
            simp only [Bool.and_eq_true] at hc
            have hreq' : req = [] := by simpa using hreq
            exact ⟨p, hpp, rfl, hen, hu', fun _ => ⟨hc.1.1, hc.1.2, hc.2⟩, fun hne => absurd hreq' hne⟩
          · rename_i hreq
            have := mem_mapM_find req m hm p hpm
            obtain ⟨hpp, hen⟩ := List.mem_filter.1 this.1
            exact ⟨p, hpp, rfl, hen, hu', fun he => by simp [he] at hreq, fun _ => this.2⟩

/-- (Decision function only.)  Requests fail rather than violate: the selection either fails or
is non-empty — there is no "fall back to any pool". -/
theorem fail_rather_than_violate_partial (pools : List Pool) (req : List Nat) (zone team : Nat) (use : Use)
    (l : List Nat) (h : allowedPools pools req zone team use = some l) : l ≠ [] := by
  unfold allowedPools at h
  simp only at h
  split at h
  · cases h
  · split at h
    · cases h
    · split at h
      · cases h
      · split at h
        · cases h
        · rename_i hne
          injection h with h; subst h
          intro hc
          apply hne
          simpa using hc

theorem takeFree_not_reserved (rv : List Nat) (k : Nat) (u : List Nat) :
    ∀ o ∈ (takeFree rv k u).1, o ∉ rv := by
  fun_induction takeFree rv k u with
  | case1 u => simp
  | case2 k => simp
  | case3 k x u hx r ih => exact ih
  | case4 k x u hx r ih =>
    intro o ho
    rcases List.mem_cons.1 ho with rfl | ho
    · simpa using hx
    · exact ih o ho

/-- No automatically assigned address is inside a reservation: the scan of `autoAssign`
never picks a reserved ordinal, whatever the block and the reservation set. -/
theorem scan_never_picks_reserved_partial (k h : Nat) (rv : List Nat) (b : Blk) :
    ∀ o ∈ (autoAssign k h rv b).2, o ∉ rv := by
  simp only [autoAssign]
  exact takeFree_not_reserved rv k b.unalloc

theorem effCap_pos (c r : Nat) : 1 ≤ effCap c r := by
  unfold effCap
  generalize (if c > 0 ∧ r > 0 ∧ r > c then c else if r = 0 then c else r) = m
  by_cases h : m = 0
  · simp [h]
  · simp [h]; omega

/-- The block cap as the code enforces it: over any allocation loop, the number of
blocks the host owns INSIDE THE POOLS USABLE FOR THE REQUEST never grows beyond
max(what it owned there, cap). -/
theorem blocks_per_host_le_cap_partial (cap : Nat) (hc : 1 ≤ cap) :
    ∀ (wants : List Bool) (owned : Nat), claimLoop cap owned wants ≤ max owned cap
  | [], owned => by simp [claimLoop]; omega
  | w :: ws, owned => by
    simp only [claimLoop]
    split
    · split
      · rename_i ha
        have ih := blocks_per_host_le_cap_partial cap hc ws (owned + 1)
        simp only [allowNewClaim, Bool.not_eq_true', Bool.and_eq_false_iff, decide_eq_false_iff_not] at ha
        omega
      · omega
    · exact blocks_per_host_le_cap_partial cap hc ws owned

/-- Full-strength statement "a host never holds more affine blocks than the cap" counts
ALL blocks of the host; the code counts only those inside the pools usable for the
request, so with one block elsewhere the total exceeds the cap. (Reproduced on the
real client: oracle `block-cap-exceeded`, known_findings.txt.) -/
theorem blocks_per_host_le_cap_false :
    ¬ (∀ cap ownedInPools elsewhere wants, 1 ≤ cap →
        claimLoop cap ownedInPools wants + elsewhere ≤ max (ownedInPools + elsewhere) cap) := by
  intro H
  have := H 1 0 1 [true] (by decide)
  revert this
  decide

theorem mem_resvOrds (ranges : List (Nat × Nat)) (base size o : Nat) :
    o ∈ resvOrds ranges base size ↔ o < size ∧ inRanges ranges (base + o) = true := by
  simp [resvOrds, List.mem_filter, List.mem_range]

/-- (`_guarded_partial`: the pool clause is the first conjunct of `guard20` restated and the
strict-affinity clause is its `own` conjunct plus the `ownOk` guard of `Cas.step`; `r.allowed` is
an arbitrary list here — its link to `allowedPools` and the link "real client ⇒ guard20" exist
only in the driver / correspondence run.  The reservation clause has content: the CIDR →
ordinal arithmetic `resvOrds` and the scan of `autoAssign`.)
Run level.  Take ANY run of the model from the empty store whose events pass `guard20`,
and any step of it by which thread `t` — executing an AutoAssign request `r` — records a new
address (block `b`, ordinal `o`) through the scan of `autoAssign`.  Then `b` lies in a pool
selected for the request, the address `base b + o` is in no reservation, and under strict
affinity the block it was taken from records the requesting host as its affinity. -/
theorem assigned_respects_limits_guarded_partial (env : Env20) (req : Nat → Option Req)
    (r0 nb : Nat) (evs : List Ev) (s s' : St) (e : Ev)
    (hr : run (St.init r0 nb) evs = some s) (hg : guard20 env req e = true) (hs : Cas.step s e = some s')
    (t b o : Nat) (hin : (b, o) ∈ s'.got t) (hnot : (b, o) ∉ s.got t)
    (r : Req) (hreq : req t = some r) :
    ∀ c g1 h k rv g2, e = Ev.call c → c.pl = Payload.blkRmw g1 (.assign h k rv) g2 →
      env.poolOf b ∈ r.allowed ∧
      (o < env.size b → inRanges env.ranges (env.base b + o) = false) ∧
      (r.strict = true → ∃ rv0 v0, s.blk b = some (rv0, v0) ∧ v0.aff = some r.host) := by
  intro c g1 h k rv g2 he hpl
  obtain ⟨c', he', ht, hk, hok, g1', op, g2', rvn, vn, hpl', _, _, hv, rv0, v0, res, hb, hrmw, hog⟩ :=
    C19.got_grows_only_by_own_cas (C19.allWF_run (C19.allWF_init r0 nb) hr) hs hin hnot
  subst he
  injection he' with he'
  subst he'
  rw [hpl] at hpl'
  injection hpl' with e1 e2 e3
  subst e1; subst e2; subst e3
  simp only [guard20, hk, hpl, ht, hreq] at hg
  simp only [Bool.and_eq_true, List.contains_eq_mem, decide_eq_true_eq, beq_iff_eq, Bool.or_eq_true,
    Bool.not_eq_true'] at hg
  obtain ⟨⟨hpool, hrv⟩, hstrict⟩ := hg
  refine ⟨hpool, ?_, ?_⟩
  · intro hlt
    have hn := C19.rmw_assign_not_reserved hrmw hog
    rw [hrv, mem_resvOrds] at hn
    cases hx : inRanges env.ranges (env.base b + o) with
    | false => rfl
    | true => exact absurd ⟨hlt, hx⟩ hn
  · intro hst
    rcases hstrict with h1 | h1
    · rw [hst] at h1; cases h1
    · exact C19.own_guard hs h1 hk (by rw [hv]; rfl) hok

/-- non-vacuity: a layout where a request is served from exactly one of three pools. -/
example : allowedPools
    [{ id := 0, enabled := true, uses := [.workload], nodeSel := 1, nsSel := 0, auto := true },
     { id := 1, enabled := false, uses := [.workload], nodeSel := 0, nsSel := 0, auto := true },
     { id := 2, enabled := true, uses := [.tunnel], nodeSel := 0, nsSel := 0, auto := true }]
    [] 1 0 .workload = some [0] := by decide

example : (autoAssign 2 1 [0, 2] { aff := some 0, slots := List.replicate 4 .free, unalloc := [0, 1, 2, 3] }).2 = [1, 3] := by
  decide

end CalicoVerif.C20
