import CalicoVerif.Proofs.C15v
/-!
C15 — iptables sync converges and leaves other software's rules alone (legacy iptables backend).
Property theorems over the model `CalicoVerif.Model.C15` of felix/iptables/table.go and of
iptables-save and iptables-restore (atomic transactions).  Rule hashes are uninterpreted (supplied by the real
renderer on every correspondence run).

Convergence for Felix's own chains is proved end to end (`apply_converges_owned_chains_partial`; partial because
"desired" is the code's reference-count notion): after ANY history of
API calls, restarts, foreign edits of the table and Applies with any failures, from any start table, an `Apply`
that returns — over its whole retry loop, with any iptables-save or iptables-restore failures — leaves every Felix-owned chain
name holding exactly the desired rules in order, or absent.  The invariant behind it (`TInv`: the cache of
programmed hashes equals the desired hashes for clean chains, ...) is proved inductive over every operation
(`invariant_always`).  Explicit assumptions: the Apply re-reads the table (cache marked invalid — as after every
API change, refresh, restart or failed Apply); nobody edits the table between that read and the write; hash
soundness (`HashSound`: a kernel rule carrying a desired rule's hash IS that rule); hook rules are only put into
chains outside Felix's name space.
"Desired" is the code's notion (present + positive reference count); that the reference counts equal reachability
from hooks and force-programmed chains is NOT proved in Lean (it was false before /repo e60ddc3, see
`unforced_update_releases_children`); the harness checks it on the real code after every operation (oracle
`refcount-not-reachability`) and checks reachability of every Felix chain left in the table after every Apply.
Convergence for hook rules in shared chains is proved only for one iteration and only when the hooks are out of
sync (`apply_converges_hooks_partial`): NOT lifted over the retry loop/histories.  The nftables backend is not
modelled.
-/
namespace CalicoVerif.C15

/-- **The invariant** holds after every history from a new `Table`: well-formed API calls (hook rules go to
chains outside Felix's name space), restarts, foreign edits of the table, and `Apply` with any iptables-save /
iptables-restore failures and out-of-band edits, whether it returns or panics. -/
theorem invariant_always (P : List String) (hk : ∀ c ∈ kernelChains, oursP P c = false) (mode : Bool) (K0 : Kernel)
    (ops : List Op) (hwf : ∀ o ∈ ops, o.wf P) : TInv (({ t := T.new P mode, K := K0 } : W).run ops).t :=
  (run_pinv hk ops { t := T.new P mode, K := K0 } hwf ⟨TInv.new P mode hk, rfl, DInv.new _ P mode⟩).1

/-- **apply_converges, owned chains** (partial: "desired" is the code's notion — present in Felix's state with a
positive reference count; that the reference counts equal reachability from hook rules and force-programmed chains
is not proved in Lean, only checked exhaustively on small universes (`allOK`) and on the real code by an oracle; the
Apply must start with the cache out of date and `HashSound` is assumed).  From ANY start table `K0`, after ANY history `ops` (API calls, restarts,
foreign edits of the table, earlier Applies with any failures), if `Apply` — begun with the cache marked out of
date, run with any iptables-save failures `sf` and iptables-restore failures `rf` over its whole retry loop,
with nobody editing the table between Felix's read and its write — returns, then every Felix-owned chain name
holds exactly the desired rules in the desired order if the chain is desired (present in Felix's state and
referenced), and does not exist otherwise: stale Felix chains, including ones with historic prefixes, are gone. -/
theorem apply_converges_owned_chains_partial (P : List String) (hk : ∀ c ∈ kernelChains, oursP P c = false) (mode : Bool)
    (K0 : Kernel) (ops : List Op) (hwf : ∀ o ∈ ops, o.wf P) (sf rf : List Bool) :
    let w : W := { ({ t := T.new P mode, K := K0 } : W).run ops with saveFails := sf, restoreFails := rf, pre := none, trace := [] }
    w.t.inSync = false → HashSound w.t w.K → w.apply.2 = true →
    ∀ c, oursP P c = true → c ≠ "" →
      w.apply.1.K.get c = (w.t.desiredChain c).map (fun ch => ch.rules.map DRule.k) := by
  intro w hns hs hok c ho hne
  obtain ⟨hinv, hp, _⟩ := run_pinv hk ops { t := T.new P mode, K := K0 } hwf ⟨TInv.new P mode hk, rfl, DInv.new _ P mode⟩
  have hinv' : TInv w.t := hinv
  have hp' : w.t.prefixes = P := hp
  exact (apply_converges_loop w hinv' hs hns rfl hok).conv c (by rw [ours_eq, hp']; exact ho) hne

/-- One iteration, as a stand-alone statement (the step the theorem above iterates): from ANY kernel table, one
`Apply` iteration that re-reads the table and whose transaction succeeds. -/
theorem apply_iteration_owned_chains (t : T) (K K' : Kernel) {lines newH newFull}
    (hinv : TInv t)
    (hsound : ∀ c ch rs, t.ours c = true → t.desiredChain c = some ch → K.get c = some rs → Sound rs ch.rules)
    (hplan : (t.load K).plan = some (lines, newH, newFull)) (hres : krestore K lines = some K')
    (c : String) (hours : t.ours c = true) (hne : c ≠ "") :
    K'.get c = (t.desiredChain c).map (fun ch => ch.rules.map DRule.k) :=
  apply_converges_owned t K K' hinv.cache hinv.nodup hinv.iaForeign hsound hplan hres c hours hne

/-- **Rules and chains that are not Felix's are left alone** by a whole `Apply`: from ANY start table, after ANY
history of well-formed calls (Felix-prefixed chain names, hook rules only in chains outside the prefixes, jumps only
to Felix chains: `Op.wf`), an `Apply` begun with the cache out of date and with nobody editing the table between
Felix's read and its write — for any save/restore failure plan, whether it returns or panics — leaves in every chain
outside Felix's name space the rules of other software unchanged and in the same order, and neither creates nor
deletes such a chain.  (`dirtyChains` only ever holds Felix names: part of the invariant.) -/
theorem non_felix_rules_unchanged (P : List String) (hk : ∀ c ∈ kernelChains, oursP P c = false) (mode : Bool)
    (K0 : Kernel) (ops : List Op) (hwf : ∀ o ∈ ops, o.wf P) (sf rf : List Bool) :
    let w : W := { ({ t := T.new P mode, K := K0 } : W).run ops with saveFails := sf, restoreFails := rf, pre := none, trace := [] }
    w.t.inSync = false → ∀ x, oursP P x = false → x ≠ "" →
      (w.apply.1.K.get x).map foreignSub = (w.K.get x).map foreignSub := by
  intro w hns x hx hne
  have hinv := run_pinv hk ops { t := T.new P mode, K := K0 } hwf ⟨TInv.new P mode hk, rfl, DInv.new _ P mode⟩
  have hinv' : PInv P w.t := hinv
  exact apply_foreign w hinv' hns rfl x hx hne

/-- **The model's fuel bound is never reached** on ranked histories: if every `UpdateChain` only jumps to chains of
strictly lower rank (so the reference graph is acyclic; the real `decrefChain` does not terminate on a cycle) then
after any history the graph is still ranked, and every incref/decref cascade started at a chain of rank below the
model's fuel (64) computes the same state with any larger amount of fuel — the cut-off that makes the model total
plays no role.  (The other theorems do not assume rankedness; outside it they speak about the model only.) -/
theorem fuel_never_exhausted (rk : String → Nat) (P : List String) (mode : Bool) (K0 : Kernel) (ops : List Op)
    (hr : ∀ o ∈ ops, o.ranked rk) :
    let t := (({ t := T.new P mode, K := K0 } : W).run ops).t
    Ranked rk t ∧ ∀ n, rk n < fuel → ∀ k, T.incref (fuel + k) t n = T.incref fuel t n ∧ T.decref (fuel + k) t n = T.decref fuel t n := by
  intro t
  have h : Ranked rk t := run_ranked rk ops { t := T.new P mode, K := K0 } hr
    (by intro c ch hc; simp [T.new, Map.get] at hc)
  exact ⟨h, fun n hn k => ⟨incref_fuel_enough rk t n h hn k, decref_fuel_enough rk t n h hn k⟩⟩

/-- **apply_converges, hook rules** (partial: ONE iteration that re-reads the table and whose transaction
succeeds, and only when the chain's hooks are out of sync (`hnot`); not lifted over the retry loop or over
histories; the hypotheses on `dirtyChains`/`dirtyInsertAppend` are not proved invariant).  For a shared (kernel) chain `c` whose hooks are out of
sync: afterwards it holds Felix's insert rules at the configured end (top in insert mode, after the other
software's rules in append mode) in the configured order, then the append rules last, and the other software's
rules exactly as they were and in the same order; every stale Felix rule (unknown hash, old-style insert) is gone. -/
theorem apply_converges_hooks_partial (t : T) (K K' : Kernel) {lines newH newFull} (c : String) (rs : List KRule)
    (hkeys : K.keys.Nodup) (hno : t.ours c = false) (hne : c ≠ "")
    (hdirtyOurs : ∀ x ∈ t.dirty, t.ours x = true) (hnodupIA : t.dirtyIA.Nodup)
    (hK : K.get c = some rs) (hhash : HashNonEmpty rs)
    (hplan : (t.load K).plan = some (lines, newH, newFull)) (hres : krestore K lines = some K')
    (hcIA : c ∈ (t.load K).dirtyIA)
    (hnot : (some (rs.map KRule.hash) == some (t.expectedIA c (numEmpty (rs.map KRule.hash)))) = false) :
    K'.get c = some
      (if t.insertMode then ((t.ins.get c).getD []).map DRule.k ++ foreignSub rs ++ ((t.app.get c).getD []).map DRule.k
       else foreignSub rs ++ ((t.ins.get c).getD []).map DRule.k ++ ((t.app.get c).getD []).map DRule.k) :=
  hooks_rewritten t K K' c rs hkeys hno hne hdirtyOurs hnodupIA hK hhash hplan hres hcIA hnot

/-- **The diff lemma**: the per-position replace / delete-from-the-end / append lines turn a chain whose hashes
are `ps` into exactly the desired rules, in order, always succeed, and touch no other chain. -/
theorem diff_lemma (c : String) (ps : List String) (rs : List DRule) (L : List KRule) (K : Kernel)
    (hm : L.map KRule.hash = ps) (hs : Sound L rs) (hk : K.get c = some L) :
    ∃ K', krestore K (diffLines c rs.length 0 ps rs) = some K' ∧
      K'.get c = some (rs.map DRule.k) ∧ ∀ x, x ≠ c → K'.get x = K.get x := by
  have := diff_converges c ps rs L [] K hm hs (by simpa using hk)
  simpa using this

/-- **unowned_unchanged** (one successful `applyUpdates` transaction, from ANY kernel table, for any
desired state and any cached state read by `loadDataplaneState`): for every chain `x` that is not in
`dirtyChains` — in particular every chain that is not Felix's — the rules of other software in `x`
are unchanged and in the same relative order, and `x` is neither created nor deleted. -/
theorem unowned_rules_unchanged {t : T} (hf : FullOK t) {lines newH newFull}
    (h : t.plan = some (lines, newH, newFull)) (K K' : Kernel) (hr : krestore K lines = some K')
    (x : String) (hx : x ∉ t.dirty) (hne : x ≠ "") :
    (K'.get x).map foreignSub = (K.get x).map foreignSub :=
  unowned_unchanged hf h K K' hr x hx hne

/-- The hypothesis `FullOK` of `unowned_rules_unchanged` holds after every `loadDataplaneState`
(and `Apply` always re-reads the table before it writes hook rules: every path that makes
`dirtyInsertAppend` non-empty also invalidates the cache). -/
theorem fullOK_after_load (t : T) (K : Kernel) : FullOK (t.load K) := load_FullOK t K

/-- Chains that no line of a transaction names are bit-for-bit unchanged by it. -/
theorem untouched_chains_identical (x : String) (ls : List RLine) (K K' : Kernel)
    (h : ∀ l ∈ ls, l.chain ≠ x) (hr : krestore K ls = some K') : K'.get x = K.get x :=
  krestore_other x ls K K' h hr

/-- What the transaction may contain: every line names a chain in `dirtyChains`, or is a tagged
hook line (insert/append of a Felix rule, delete-by-value of a Felix rule), or is malformed
(and then the whole transaction fails atomically). -/
theorem transaction_lines {t : T} (hf : FullOK t) {lines newH newFull}
    (h : t.plan = some (lines, newH, newFull)) :
    ∀ l ∈ lines, l.chain ∈ t.dirty ∨ l.tagged = true ∨ l.chain = "" :=
  plan_lines hf h

/-- **no_rewrite_if_equal**: the per-position diff of a chain whose dataplane hash list equals the
desired hash list is empty — no line is written for it, so its rules and counters are untouched. -/
theorem no_rewrite_if_equal (c : String) (n : Nat) (rs : List DRule) (i : Nat) :
    diffLines c n i (rs.map (·.hash)) rs = [] :=
  diffLines_nil_of_eq c n rs i

/-! ### Non-vacuity -/

example : FullOK (T.new [] true) := by
  intro c frs h; simp [T.new, Map.get] at h

/-- A shared chain with a foreign rule, an old-style Felix insert and a stale hashed rule: deleting
Felix's two rules by value and inserting a new hook keeps the foreign rule. -/
example :
    (krestore [("FORWARD", [KRule.old "-j felix-FORWARD", KRule.foreign "-j DOCKER", KRule.felix "OLDHASH" "--jump DROP"])]
      [RLine.delVal "FORWARD" (KRule.old "-j felix-FORWARD"), RLine.delVal "FORWARD" (KRule.felix "OLDHASH" "--jump DROP"),
       RLine.insert "FORWARD" (KRule.felix "NEWHASH" "--jump cali-FORWARD")]).map (fun K => K.get "FORWARD")
    = some (some [KRule.felix "NEWHASH" "--jump cali-FORWARD", KRule.foreign "-j DOCKER"]) := by decide

example : diffLines "cali-a" 1 0 ["h1", "h2"] [⟨"h1", "--jump DROP", none⟩]
    = [RLine.delIdx "cali-a" 2] := by simp [diffLines]

/-- `CacheOK`, `Sound` and the other hypotheses of the convergence theorems hold for a fresh table with one
force-programmed chain and an out-of-date copy of it in the kernel. -/
def exT : T := (T.new ["cali-"] true).updateChain "cali-a" ⟨[⟨"h1", "--jump DROP", none⟩, ⟨"h2", "--jump ACCEPT", none⟩], true⟩
def exK : Kernel := [("cali-a", [KRule.felix "h1" "--jump DROP", KRule.felix "old" "--jump RETURN", KRule.felix "x" "--jump RETURN"]),
  ("FORWARD", [KRule.foreign "-j DOCKER"]), ("INPUT", []), ("OUTPUT", [])]

example : exT.ours "cali-a" = true ∧ exT.dirty.Nodup ∧ "cali-a" ∈ exT.dirty := by decide
example : Sound [KRule.felix "h1" "--jump DROP", KRule.felix "old" "--jump RETURN", KRule.felix "x" "--jump RETURN"]
    [⟨"h1", "--jump DROP", none⟩, ⟨"h2", "--jump ACCEPT", none⟩] := by
  simp [Sound, KRule.hash, DRule.k]
example : (krestore exK (diffLines "cali-a" 2 0 ["h1", "old", "x"]
    [⟨"h1", "--jump DROP", none⟩, ⟨"h2", "--jump ACCEPT", none⟩])).map (fun K => K.get "cali-a") =
    some (some [KRule.felix "h1" "--jump DROP", KRule.felix "h2" "--jump ACCEPT"]) := by
  simp [diffLines, krestore, kline, exK, Map.get, Map.set, Map.erase, List.lookup, DRule.k]
/-- `CacheOK exT`: the only owned chain with a desired state is dirty; nothing is cached for the others. -/
example : CacheOK exT := by
  intro c _ hnd
  have hd : exT.dirty = ["cali-a"] := by decide
  have hc : exT.chains = [("cali-a", ⟨[⟨"h1", "--jump DROP", none⟩, ⟨"h2", "--jump ACCEPT", none⟩], true⟩)] := by decide
  have hp : exT.dpHashes = [] := by decide
  rw [hd] at hnd
  have hne : c ≠ "cali-a" := by simpa using hnd
  have hg : exT.chains.get c = none := by
    have hb : (c == "cali-a") = false := by simp [hne]
    rw [hc]; simp only [Map.get, List.lookup, hb]
  have hg' : List.lookup c exT.chains = none := hg
  simp only [T.desiredChain, hp, Map.get, List.lookup, hg']
  split <;> rfl
/- The iteration the convergence theorems talk about exists for `exT`/`exK`: the plan after re-reading the table
is defined, its transaction succeeds, and the owned chain ends up as desired while the foreign rule stays. -/
#guard ((exT.load exK).plan).isSome
#guard (((exT.load exK).plan).bind (fun p => krestore exK p.1)).isSome
#guard (((exT.load exK).plan).bind (fun p => krestore exK p.1)).map (fun K => (K.get "cali-a", K.get "FORWARD")) ==
  some (some [KRule.felix "h1" "--jump DROP", KRule.felix "h2" "--jump ACCEPT"], some [KRule.foreign "-j DOCKER"])
example : HashNonEmpty [KRule.old "-j felix-FORWARD", KRule.foreign "-j DOCKER", KRule.felix "OLDHASH" "--jump DROP"] := by
  intro r hr
  simp only [List.mem_cons, List.not_mem_nil, or_false] at hr
  rcases hr with rfl | rfl | rfl <;> simp [KRule.hash, KRule.isForeign]

/-! Non-vacuity of `apply_converges_owned_chains_partial`: the real prefixes, a start table with a stale copy of a Felix
chain, a stale Felix chain nobody wants and a foreign rule; a history with an API call, an Apply whose first save and first transaction fail,
a foreign edit of the Felix chain, a stale Felix chain appearing, and a refresh; then an Apply with failures. -/
def exP : List String := ["cali-", "califw-", "calitw-", "califh-", "calith-", "calipi-", "calipo-", "felix-"]
def exOps : List Op :=
  [Op.chain "cali-a" ⟨[⟨"h1", "--jump DROP", none⟩, ⟨"h2", "--jump ACCEPT", none⟩], true⟩,
   Op.apply [true] [true] none,
   Op.kchain "cali-a" [KRule.felix "h1" "--jump DROP", KRule.felix "zz" "--jump RETURN"],
   Op.kchain "cali-stale" [KRule.felix "q" "--jump RETURN"],
   Op.invalidate]
def exW : W := { ({ t := T.new exP true, K := exK } : W).run exOps with saveFails := [true, false], restoreFails := [true, false], pre := none, trace := [] }

example : ∀ c ∈ kernelChains, oursP exP c = false := by decide
example : ∀ o ∈ exOps, o.wf exP := by
  intro o ho
  simp only [exOps, List.mem_cons, List.not_mem_nil, or_false] at ho
  rcases ho with rfl | rfl | rfl | rfl | rfl <;> first | trivial | (constructor <;> decide)
/- the same history is ranked (no jumps at all), and a history with hook rules and a two-level jump is well-formed
and ranked for the rank "position in a-b-c" -/
example : ∀ o ∈ exOps, o.ranked (fun _ => 0) := by
  intro o ho
  simp only [exOps, List.mem_cons, List.not_mem_nil, or_false] at ho
  rcases ho with rfl | rfl | rfl | rfl | rfl <;> first | trivial | (intro x hx; simp [refsOf] at hx)
def exRk (c : String) : Nat := if c == "cali-a" then 2 else if c == "cali-b" then 1 else 0
def exOps3 : List Op :=
  [Op.chain "cali-b" ⟨[⟨"hb", "--jump cali-c", some "cali-c"⟩], false⟩,
   Op.chain "cali-a" ⟨[⟨"ha", "--jump cali-b", some "cali-b"⟩], true⟩,
   Op.ins "FORWARD" [⟨"hf", "--jump cali-a", some "cali-a"⟩], Op.rmchain "cali-a"]
example : (∀ o ∈ exOps3, o.wf exP) ∧ (∀ o ∈ exOps3, o.ranked exRk) := by
  constructor <;> (intro o ho; simp only [exOps3, List.mem_cons, List.not_mem_nil, or_false] at ho;
                   rcases ho with rfl | rfl | rfl | rfl) <;> simp [Op.wf, Op.ranked, refsOf] <;> decide
#guard !exW.dead
#guard !exW.t.inSync
#guard exW.apply.2
#guard exW.K.get "cali-a" == some [KRule.felix "h1" "--jump DROP", KRule.felix "zz" "--jump RETURN"]
#guard exW.apply.1.K.get "cali-a" == some [KRule.felix "h1" "--jump DROP", KRule.felix "h2" "--jump ACCEPT"]
#guard exW.apply.1.K.get "cali-stale" == none
#guard exW.apply.1.K.get "FORWARD" == some [KRule.foreign "-j DOCKER"]
#guard exW.t.refd "cali-a" && exW.t.chains.keys == ["cali-a"]
/-- `HashSound` for a table like `exW`'s: the only kernel rule in `cali-a` that carries the hash of a desired rule
(`h1`) is that rule. -/
example : HashSound exT [("cali-a", [KRule.felix "h1" "--jump DROP", KRule.felix "zz" "--jump RETURN"]),
    ("cali-stale", [KRule.felix "q" "--jump RETURN"])] := by
  intro c ch rs _ hd hk r hr d hdm hh
  have hc : exT.chains = [("cali-a", ⟨[⟨"h1", "--jump DROP", none⟩, ⟨"h2", "--jump ACCEPT", none⟩], true⟩)] := by decide
  by_cases hca : c = "cali-a"
  · subst hca
    have hd' : exT.desiredChain "cali-a" = some ⟨[⟨"h1", "--jump DROP", none⟩, ⟨"h2", "--jump ACCEPT", none⟩], true⟩ := by decide
    rw [hd'] at hd
    simp only [Option.some.injEq] at hd
    subst hd
    simp only [Map.get, List.lookup, beq_self_eq_true, Option.some.injEq] at hk
    subst hk
    simp only [List.mem_cons, List.not_mem_nil, or_false] at hr hdm
    rcases hr with rfl | rfl <;> rcases hdm with rfl | rfl <;> simp [KRule.hash, DRule.k] at hh ⊢
  · exfalso
    have hb : (c == "cali-a") = false := by simp [hca]
    have hg : List.lookup c exT.chains = none := by rw [hc]; simp only [List.lookup, hb]
    simp only [T.desiredChain, Map.get, hg] at hd
    split at hd <;> simp at hd

/-! ### Regression: taking the force flag off an otherwise unreferenced chain releases everything (fixed in /repo e60ddc3)

Before the repair `UpdateChain` took references for the NEW rules while the chain was still referenced by its own
force flag and then dropped that self-reference, whose cascade released the OLD rules' references: the chains named by
the new rules kept a phantom reference.  With the repaired order nothing is left behind, on the same history. -/
def exLeak : T :=
  ((T.new exP true).updateChain "cali-d" ⟨[], true⟩).updateChain "cali-d" ⟨[⟨"h", "--jump cali-fw-x", some "cali-fw-x"⟩], false⟩

theorem unforced_update_releases_children :
    exLeak.refd "cali-d" = false ∧ exLeak.refd "cali-fw-x" = false ∧
    (exLeak.updateChain "cali-fw-x" ⟨[⟨"h2", "--jump DROP", none⟩], false⟩).desiredChain "cali-fw-x" = none := by decide

/- ... and the whole replay corpus/C15/unforced-update-leak.ops on the model: after the Apply neither chain exists. -/
def exLeakOps : List Op :=
  [Op.chain "cali-d" ⟨[], true⟩, Op.apply [] [] none,
   Op.chain "cali-d" ⟨[⟨"h", "--jump cali-fw-x", some "cali-fw-x"⟩], false⟩,
   Op.chain "cali-fw-x" ⟨[⟨"h2", "--jump DROP", none⟩], false⟩, Op.apply [] [] none]
#guard ((({ t := T.new exP true, K := kernelChains.map (fun c => (c, [])) } : W).run exLeakOps).K.get "cali-fw-x") == none
#guard ((({ t := T.new exP true, K := kernelChains.map (fun c => (c, [])) } : W).run exLeakOps).K.get "cali-d") == none
#guard ((({ t := T.new exP true, K := kernelChains.map (fun c => (c, [])) } : W).run (exLeakOps.take 2)).K.get "cali-d") == some []

/-! ### refcount = reachability, checked exhaustively on the model for small universes (NOT a theorem)

`refd` (positive reference count) is the code's notion of "wanted"; the property's notion is reachability from the
hook rules and force-programmed chains through the rules of the chains Felix was given.  The two are compared here
on the model for ALL sequences of up to 4 calls from a 27-call universe over three chains (every force flag, jumps
one and two levels down, duplicates, removal, hook rules with and without jumps), and on the real code after every
operation of every correspondence run (oracle `refcount-not-reachability`).  A kernel-checked proof for all
histories is not attempted: it needs the exact counting invariant through the recursive incref/decref cascades
together with acyclicity and a fuel bound. -/
def T.reachB (t : T) : List String :=
  let roots := (kernelChains.flatMap (fun c => refsOf ((t.ins.get c).getD []) ++ refsOf ((t.app.get c).getD []))) ++
    (t.chains.filter (fun p => p.2.force)).map (·.1)
  let step := fun (S : List String) => (S ++ S.flatMap (fun c => match t.chains.get c with | some ch => refsOf ch.rules | none => [])).eraseDups
  step (step (step (step roots.eraseDups)))

def T.refOK (t : T) (names : List String) : Bool :=
  names.all (fun c => t.refd c == t.reachB.contains c) && kernelChains.all t.refd

def jmp (c : String) : DRule := ⟨"h" ++ c, "--jump " ++ c, some c⟩
def smallOps : List Op :=
  ([true, false].flatMap (fun f =>
    [[], [jmp "cali-b"], [jmp "cali-c"], [jmp "cali-b", jmp "cali-c"], [jmp "cali-b", jmp "cali-b"]].map (fun rs => Op.chain "cali-a" ⟨rs, f⟩) ++
    [[], [jmp "cali-c"], [jmp "cali-c", jmp "cali-c"]].map (fun rs => Op.chain "cali-b" ⟨rs, f⟩) ++
    [Op.chain "cali-c" ⟨[], f⟩])) ++
  [Op.rmchain "cali-a", Op.rmchain "cali-b", Op.rmchain "cali-c"] ++
  [[], [jmp "cali-a"], [jmp "cali-b"], [jmp "cali-a", jmp "cali-c"]].map (Op.ins "FORWARD") ++
  [[], [jmp "cali-b"]].map (Op.app "FORWARD")

/-- All states reachable by at most `n` calls satisfy `refOK` (depth-first, sharing prefixes). -/
def allOK : Nat → W → Bool
  | 0, w => w.t.refOK ["cali-a", "cali-b", "cali-c"]
  | n + 1, w => w.t.refOK ["cali-a", "cali-b", "cali-c"] && smallOps.all (fun o => allOK n (w.stepOp o).1)

#guard smallOps.length == 27
/- the check is not vacuous: a phantom reference (what the pre-e60ddc3 order left behind) is rejected -/
#guard !({ exLeak with refc := exLeak.refc.set "cali-fw-x" 1 } : T).refOK ["cali-a", "cali-b", "cali-c", "cali-d", "cali-fw-x"]
#guard exLeak.refOK ["cali-a", "cali-b", "cali-c", "cali-d", "cali-fw-x"]
#guard allOK 4 { t := T.new exP true, K := [] }

end CalicoVerif.C15
