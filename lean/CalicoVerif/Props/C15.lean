import CalicoVerif.Proofs.C15b
/-!
C15 — iptables sync converges and leaves other software's rules alone (legacy iptables backend).
Property theorems over the model `CalicoVerif.Model.C15` of felix/iptables/table.go and of
iptables-save and iptables-restore (atomic transactions).  Rule hashes are uninterpreted (supplied by the real
renderer on every correspondence run).

NOT proved in Lean (evaluated as an oracle on the real code on every generated history, and backed by
the state-level correspondence): the convergence clause itself (`apply_converges`: owned chains equal
the desired rules in order, hook rules at the configured position, stale Felix chains/rules gone) and
the nftables backend.
-/
namespace CalicoVerif.C15

/-- **unowned_unchanged** (one successful `applyUpdates` transaction, from ANY kernel table, for any
desired state and any cached state read by `loadDataplaneState`): for every chain `x` that is not in
`dirtyChains` — in particular every chain that is not Felix's — the rules of other software in `x`
are unchanged and in the same relative order, and `x` is neither created nor deleted. -/
theorem unowned_rules_unchanged {t : T} (hf : FullOK t) {lines newH newFull}
    (h : t.plan = some (lines, newH, newFull)) (K K' : Kernel) (hr : krestore K lines = some K')
    (x : String) (hx : x ∉ t.dirty) (hne : x ≠ "") :
    (K'.get x).map foreignSub = (K.get x).map foreignSub :=
  unowned_unchanged hf h K K' hr x hx hne

/-- The hypothesis `FullOK` of `unowned_rules_unchanged` holds after every `loadDataplaneState`
(and `Apply` always re-reads the table before it writes hook rules: every path that makes
`dirtyInsertAppend` non-empty also invalidates the cache). -/
theorem fullOK_after_load (t : T) (K : Kernel) : FullOK (t.load K) := load_FullOK t K

/-- Chains that no line of a transaction names are bit-for-bit unchanged by it. -/
theorem untouched_chains_identical (x : String) (ls : List RLine) (K K' : Kernel)
    (h : ∀ l ∈ ls, l.chain ≠ x) (hr : krestore K ls = some K') : K'.get x = K.get x :=
  krestore_other x ls K K' h hr

/-- What the transaction may contain: every line names a chain in `dirtyChains`, or is a tagged
hook line (insert/append of a Felix rule, delete-by-value of a Felix rule), or is malformed
(and then the whole transaction fails atomically). -/
theorem transaction_lines {t : T} (hf : FullOK t) {lines newH newFull}
    (h : t.plan = some (lines, newH, newFull)) :
    ∀ l ∈ lines, l.chain ∈ t.dirty ∨ l.tagged = true ∨ l.chain = "" :=
  plan_lines hf h

/-- **no_rewrite_if_equal**: the per-position diff of a chain whose dataplane hash list equals the
desired hash list is empty — no line is written for it, so its rules and counters are untouched. -/
theorem no_rewrite_if_equal (c : String) (n : Nat) (rs : List DRule) (i : Nat) :
    diffLines c n i (rs.map (·.hash)) rs = [] :=
  diffLines_nil_of_eq c n rs i

/-- A failing transaction changes nothing (atomicity is by construction: `krestore` returns `none`). -/
theorem failed_restore_changes_nothing (w : W) (lines : List RLine) (h : krestore w.K lines = none) :
    (match krestore w.K lines with | some K' => K' | none => w.K) = w.K := by rw [h]

/-! ### Non-vacuity -/

example : FullOK (T.new [] true) := by
  intro c frs h; simp [T.new, Map.get] at h

/-- A shared chain with a foreign rule, an old-style Felix insert and a stale hashed rule: deleting
Felix's two rules by value and inserting a new hook keeps the foreign rule. -/
example :
    (krestore [("FORWARD", [KRule.old "-j felix-FORWARD", KRule.foreign "-j DOCKER", KRule.felix "OLDHASH" "--jump DROP"])]
      [RLine.delVal "FORWARD" (KRule.old "-j felix-FORWARD"), RLine.delVal "FORWARD" (KRule.felix "OLDHASH" "--jump DROP"),
       RLine.insert "FORWARD" (KRule.felix "NEWHASH" "--jump cali-FORWARD")]).map (fun K => K.get "FORWARD")
    = some (some [KRule.felix "NEWHASH" "--jump cali-FORWARD", KRule.foreign "-j DOCKER"]) := by decide

example : diffLines "cali-a" 1 0 ["h1", "h2"] [⟨"h1", "--jump DROP", none⟩]
    = [RLine.delIdx "cali-a" 2] := by simp [diffLines]

end CalicoVerif.C15
