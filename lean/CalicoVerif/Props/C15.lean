import CalicoVerif.Proofs.C15m
/-!
C15 — iptables sync converges and leaves other software's rules alone (legacy iptables backend).
Property theorems over the model `CalicoVerif.Model.C15` of felix/iptables/table.go and of
iptables-save and iptables-restore (atomic transactions).  Rule hashes are uninterpreted (supplied by the real
renderer on every correspondence run).

The convergence clause is proved for one `Apply` iteration that re-reads the table and whose transaction
succeeds (which is how every `Apply` ends: it retries, re-reading after each failure, until a transaction
succeeds): `apply_converges_owned` (owned chains = desired exactly and in order, stale Felix chains gone) and
`apply_converges_hooks` (hook rules at the configured position and order, stale Felix rules gone, other
software's rules unchanged).  Hypotheses, all explicit: hash soundness (a kernel rule carrying the hash of the
desired rule at its position IS that rule: hashes are collision-free, chained tags), `CacheOK` (for clean owned
chains the cache of programmed hashes equals the desired hashes; the harness checks it on the real code after
every operation) and the name-space conventions of the callers.
NOT proved in Lean: `CacheOK` as an inductive invariant of the refcounting API, the case of a shared chain whose
hooks are already in sync, and the nftables backend.
-/
namespace CalicoVerif.C15

/-- **apply_converges, owned chains**: from ANY kernel table, one `Apply` iteration that re-reads the table and
whose transaction succeeds leaves every Felix-owned chain name holding exactly the desired rules in the desired
order if the chain is desired (present in Felix's state and referenced), and not existing otherwise: stale
Felix chains, including ones with historic prefixes, are gone. -/
theorem apply_converges_owned_chains (t : T) (K K' : Kernel) {lines newH newFull}
    (hcache : CacheOK t) (hnodup : t.dirty.Nodup) (hIA : ∀ c, t.ours c = true → c ∉ t.dirtyIA)
    (hsound : ∀ c ch rs, t.ours c = true → t.desiredChain c = some ch → K.get c = some rs → Sound rs ch.rules)
    (hplan : (t.load K).plan = some (lines, newH, newFull)) (hres : krestore K lines = some K')
    (c : String) (hours : t.ours c = true) (hne : c ≠ "") :
    K'.get c = (t.desiredChain c).map (fun ch => ch.rules.map DRule.k) :=
  apply_converges_owned t K K' hcache hnodup hIA hsound hplan hres c hours hne

/-- **apply_converges, hook rules**: the same iteration, for a shared (kernel) chain `c` whose hooks are out of
sync: afterwards it holds Felix's insert rules at the configured end (top in insert mode, after the other
software's rules in append mode) in the configured order, then the append rules last, and the other software's
rules exactly as they were and in the same order; every stale Felix rule (unknown hash, old-style insert) is gone. -/
theorem apply_converges_hooks (t : T) (K K' : Kernel) {lines newH newFull} (c : String) (rs : List KRule)
    (hkeys : K.keys.Nodup) (hno : t.ours c = false) (hne : c ≠ "")
    (hdirtyOurs : ∀ x ∈ t.dirty, t.ours x = true) (hnodupIA : t.dirtyIA.Nodup)
    (hK : K.get c = some rs) (hhash : HashNonEmpty rs)
    (hplan : (t.load K).plan = some (lines, newH, newFull)) (hres : krestore K lines = some K')
    (hcIA : c ∈ (t.load K).dirtyIA)
    (hnot : (some (rs.map KRule.hash) == some (t.expectedIA c (numEmpty (rs.map KRule.hash)))) = false) :
    K'.get c = some
      (if t.insertMode then ((t.ins.get c).getD []).map DRule.k ++ foreignSub rs ++ ((t.app.get c).getD []).map DRule.k
       else foreignSub rs ++ ((t.ins.get c).getD []).map DRule.k ++ ((t.app.get c).getD []).map DRule.k) :=
  hooks_rewritten t K K' c rs hkeys hno hne hdirtyOurs hnodupIA hK hhash hplan hres hcIA hnot

/-- **The diff lemma**: the per-position replace / delete-from-the-end / append lines turn a chain whose hashes
are `ps` into exactly the desired rules, in order, always succeed, and touch no other chain. -/
theorem diff_lemma (c : String) (ps : List String) (rs : List DRule) (L : List KRule) (K : Kernel)
    (hm : L.map KRule.hash = ps) (hs : Sound L rs) (hk : K.get c = some L) :
    ∃ K', krestore K (diffLines c rs.length 0 ps rs) = some K' ∧
      K'.get c = some (rs.map DRule.k) ∧ ∀ x, x ≠ c → K'.get x = K.get x := by
  have := diff_converges c ps rs L [] K hm hs (by simpa using hk)
  simpa using this

/-- **unowned_unchanged** (one successful `applyUpdates` transaction, from ANY kernel table, for any
desired state and any cached state read by `loadDataplaneState`): for every chain `x` that is not in
`dirtyChains` — in particular every chain that is not Felix's — the rules of other software in `x`
are unchanged and in the same relative order, and `x` is neither created nor deleted. -/
theorem unowned_rules_unchanged {t : T} (hf : FullOK t) {lines newH newFull}
    (h : t.plan = some (lines, newH, newFull)) (K K' : Kernel) (hr : krestore K lines = some K')
    (x : String) (hx : x ∉ t.dirty) (hne : x ≠ "") :
    (K'.get x).map foreignSub = (K.get x).map foreignSub :=
  unowned_unchanged hf h K K' hr x hx hne

/-- The hypothesis `FullOK` of `unowned_rules_unchanged` holds after every `loadDataplaneState`
(and `Apply` always re-reads the table before it writes hook rules: every path that makes
`dirtyInsertAppend` non-empty also invalidates the cache). -/
theorem fullOK_after_load (t : T) (K : Kernel) : FullOK (t.load K) := load_FullOK t K

/-- Chains that no line of a transaction names are bit-for-bit unchanged by it. -/
theorem untouched_chains_identical (x : String) (ls : List RLine) (K K' : Kernel)
    (h : ∀ l ∈ ls, l.chain ≠ x) (hr : krestore K ls = some K') : K'.get x = K.get x :=
  krestore_other x ls K K' h hr

/-- What the transaction may contain: every line names a chain in `dirtyChains`, or is a tagged
hook line (insert/append of a Felix rule, delete-by-value of a Felix rule), or is malformed
(and then the whole transaction fails atomically). -/
theorem transaction_lines {t : T} (hf : FullOK t) {lines newH newFull}
    (h : t.plan = some (lines, newH, newFull)) :
    ∀ l ∈ lines, l.chain ∈ t.dirty ∨ l.tagged = true ∨ l.chain = "" :=
  plan_lines hf h

/-- **no_rewrite_if_equal**: the per-position diff of a chain whose dataplane hash list equals the
desired hash list is empty — no line is written for it, so its rules and counters are untouched. -/
theorem no_rewrite_if_equal (c : String) (n : Nat) (rs : List DRule) (i : Nat) :
    diffLines c n i (rs.map (·.hash)) rs = [] :=
  diffLines_nil_of_eq c n rs i

/-- A failing transaction changes nothing (atomicity is by construction: `krestore` returns `none`). -/
theorem failed_restore_changes_nothing (w : W) (lines : List RLine) (h : krestore w.K lines = none) :
    (match krestore w.K lines with | some K' => K' | none => w.K) = w.K := by rw [h]

/-! ### Non-vacuity -/

example : FullOK (T.new [] true) := by
  intro c frs h; simp [T.new, Map.get] at h

/-- A shared chain with a foreign rule, an old-style Felix insert and a stale hashed rule: deleting
Felix's two rules by value and inserting a new hook keeps the foreign rule. -/
example :
    (krestore [("FORWARD", [KRule.old "-j felix-FORWARD", KRule.foreign "-j DOCKER", KRule.felix "OLDHASH" "--jump DROP"])]
      [RLine.delVal "FORWARD" (KRule.old "-j felix-FORWARD"), RLine.delVal "FORWARD" (KRule.felix "OLDHASH" "--jump DROP"),
       RLine.insert "FORWARD" (KRule.felix "NEWHASH" "--jump cali-FORWARD")]).map (fun K => K.get "FORWARD")
    = some (some [KRule.felix "NEWHASH" "--jump cali-FORWARD", KRule.foreign "-j DOCKER"]) := by decide

example : diffLines "cali-a" 1 0 ["h1", "h2"] [⟨"h1", "--jump DROP", none⟩]
    = [RLine.delIdx "cali-a" 2] := by simp [diffLines]

/-- `CacheOK`, `Sound` and the other hypotheses of the convergence theorems hold for a fresh table with one
force-programmed chain and an out-of-date copy of it in the kernel. -/
def exT : T := (T.new ["cali-"] true).updateChain "cali-a" ⟨[⟨"h1", "--jump DROP", none⟩, ⟨"h2", "--jump ACCEPT", none⟩], true⟩
def exK : Kernel := [("cali-a", [KRule.felix "h1" "--jump DROP", KRule.felix "old" "--jump RETURN", KRule.felix "x" "--jump RETURN"]),
  ("FORWARD", [KRule.foreign "-j DOCKER"]), ("INPUT", []), ("OUTPUT", [])]

example : exT.ours "cali-a" = true ∧ exT.dirty.Nodup ∧ "cali-a" ∈ exT.dirty := by decide
example : Sound [KRule.felix "h1" "--jump DROP", KRule.felix "old" "--jump RETURN", KRule.felix "x" "--jump RETURN"]
    [⟨"h1", "--jump DROP", none⟩, ⟨"h2", "--jump ACCEPT", none⟩] := by
  simp [Sound, KRule.hash, DRule.k]
example : (krestore exK (diffLines "cali-a" 2 0 ["h1", "old", "x"]
    [⟨"h1", "--jump DROP", none⟩, ⟨"h2", "--jump ACCEPT", none⟩])).map (fun K => K.get "cali-a") =
    some (some [KRule.felix "h1" "--jump DROP", KRule.felix "h2" "--jump ACCEPT"]) := by
  simp [diffLines, krestore, kline, exK, Map.get, Map.set, Map.erase, List.lookup, DRule.k]
example : HashNonEmpty [KRule.old "-j felix-FORWARD", KRule.foreign "-j DOCKER", KRule.felix "OLDHASH" "--jump DROP"] := by
  intro r hr
  simp only [List.mem_cons, List.not_mem_nil, or_false] at hr
  rcases hr with rfl | rfl | rfl <;> simp [KRule.hash, KRule.isForeign]

end CalicoVerif.C15
