import CalicoVerif.Proofs.C39Fail
/-!
C39 — Overlapping IP pools resolve to one allocatable pool per address.

Every theorem is stated for an ARBITRARY configuration (`pools`: any list of pools with
any conditions, finalizers, deletion marks, creation times; `blocks`: any set of blocks),
which covers every state reachable by any history of creations, disablings, deletions and
block changes (and states left behind by other writers).  `verdicts pools` is the decision
taken for every pool by one `reconcileConditions` pass, `reconcile blocks pools` the pools
after `reconcile()` and the API server's removal of finalizer-less deleted objects.
`overlapP` is plain prefix arithmetic (same family, one CIDR covers the other).
-/
namespace CalicoVerif.C39
open CalicoVerif.C36

theorem pairwise_mem_or {α : Type} {R : α → α → Prop} : ∀ {l : List α}, l.Pairwise R → ∀ {x y}, x ∈ l → y ∈ l →
    x = y ∨ R x y ∨ R y x
  | [], _, _, _, hx, _ => by cases hx
  | a :: l, h, x, y, hx, hy => by
    have h' := List.pairwise_cons.1 h
    rcases List.mem_cons.1 hx with ex | hx <;> rcases List.mem_cons.1 hy with ey | hy
    · exact Or.inl (ex.trans ey.symm)
    · exact Or.inr (Or.inl (ex ▸ h'.1 y hy))
    · exact Or.inr (Or.inr (ey ▸ h'.1 x hx))
    · exact pairwise_mem_or h'.2 hx hy

theorem mem_verdicts_of_mem {pools : List Pool} (hw : ∀ p ∈ pools, p.WF) {p : Pool} (hp : p ∈ pools) :
    ∃ v, (p, v) ∈ verdicts pools := by
  have hm : p ∈ (verdicts pools).map (·.1) := by
    rw [verdicts_eq_spec hw, loopSpec_map_fst]; exact mem_sortPools.2 hp
  obtain ⟨⟨p', v⟩, hpv, e⟩ := List.mem_map.1 hm
  simp only at e; subst e
  exact ⟨v, hpv⟩

theorem verdicts_sorted {pools : List Pool} (hw : ∀ p ∈ pools, p.WF) :
    (verdicts pools).Pairwise (fun a b => a.1.le b.1 = true) := by
  have := sortPools_sorted pools
  rw [← loopSpec_map_fst (sortPools pools) [], ← verdicts_eq_spec hw, List.pairwise_map] at this
  exact this

/-! ### the property -/

/-- **(1) No two allocatable pools overlap.**  After a reconcile of ANY configuration, any
two pools whose `Allocatable` condition is True have disjoint CIDRs. -/
theorem active_pairwise_disjoint (pools : List Pool) (hw : ∀ p ∈ pools, p.WF) (blocks : List (Bool × Pfx)) :
    (reconcile blocks pools).Pairwise
      (fun a b => a.allocTrue = true → b.allocTrue = true → overlapP a b = false) :=
  active_pairwise_disjoint_TD pools hw blocks

/-- **(2) An already-allocatable pool is never displaced by a newer overlapping pool.**
If a pool that was allocatable (Allocatable=True, not being deleted) loses the verdict
`active` to an overlap, the pool it overlaps is itself an already-allocatable pool that
sorts before it (older creation time, or same time and smaller name) and stays active —
never a new, disabled-by-overlap or terminating pool, never a younger one. -/
theorem incumbent_not_displaced (pools : List Pool) (hw : ∀ p ∈ pools, p.WF) (p : Pool)
    (hcat : p.category = 0) (hov : (p, Verdict.overlap) ∈ verdicts pools) :
    ∃ q, (q, Verdict.active) ∈ verdicts pools ∧ q.category = 0 ∧ q.le p = true ∧ overlapP q p = true := by
  rw [verdicts_eq_spec hw] at hov ⊢
  obtain ⟨q, h1, h2, h3⟩ := loopSpec_overlap_witness (sortPools pools) [] (sortPools_sorted pools)
    (fun s hs => by cases hs) (p, .overlap) hov rfl
  have hq0 : q.category = 0 := by
    have := Pool.category_le_of_le h2
    simp only at this
    omega
  rcases h3 with h3 | h3 | h3
  · cases h3
  · exact ⟨q, h3, hq0, h2, h1⟩
  · exfalso
    have := ((loopSpec_verdict _ _ _ h3).2.2.1.1 rfl).2.2
    simp only at this
    unfold Pool.category at hq0
    rw [this] at hq0
    simp at hq0

/-- **(2') In a consistent configuration every incumbent stays allocatable**: if no OTHER
already-allocatable pool overlaps `p`, then `p` is not judged overlapping. -/
theorem incumbent_stays (pools : List Pool) (hw : ∀ p ∈ pools, p.WF) (hnd : pools.Nodup) (p : Pool)
    (hcat : p.category = 0)
    (hcons : ∀ q ∈ pools, q.category = 0 → overlapP q p = true → q = p) :
    (p, Verdict.overlap) ∉ verdicts pools := by
  intro hov
  obtain ⟨q, hq, hq0, _, hqo⟩ := incumbent_not_displaced pools hw p hcat hov
  have hqm : q ∈ pools := by
    have : q ∈ (verdicts pools).map (·.1) := List.mem_map.2 ⟨(q, .active), hq, rfl⟩
    rw [verdicts_eq_spec hw, loopSpec_map_fst] at this
    exact mem_sortPools.1 this
  have e := hcons q hqm hq0 hqo
  subst e
  have hnd' : ((verdicts pools).map (·.1)).Nodup := by
    rw [verdicts_eq_spec hw, loopSpec_map_fst]
    exact (List.mergeSort_perm pools Pool.le).nodup_iff.2 hnd
  rw [List.nodup_iff_pairwise_ne, List.pairwise_map] at hnd'
  rcases pairwise_mem_or hnd' hq hov with e | e | e
  · cases e
  · exact e rfl
  · exact e rfl

/-- **(2'') An allocatable pool stays allocatable.**  In any configuration whose
Allocatable=True pools are pairwise disjoint (which every reconcile establishes, theorem (1),
and every event of a history preserves, `history_keeps_true_disjoint`), a pool that is
allocatable, not being deleted, not administratively disabled and has a valid CIDR is judged
`active` again — whatever other pools (newer, older, overlapping, terminating) exist. -/
theorem allocatable_stays_allocatable (pools : List Pool) (hw : ∀ p ∈ pools, p.WF)
    (hJ : TrueDisjoint pools) (p : Pool) (hp : p ∈ pools) (hcat : p.category = 0)
    (hd : p.disabled = false) (hc : p.cidr ≠ none) : (p, Verdict.active) ∈ verdicts pools := by
  rw [verdicts_eq_spec hw]
  exact loopSpec_incumbents (sortPools pools) [] (sortPools_sorted pools)
    ((List.mergeSort_perm pools Pool.le).symm.pairwise hJ (fun h => TD.symm h))
    (fun s hs => by cases hs) (fun s hs => by cases hs) p (mem_sortPools.2 hp) hcat hd hc

/-- **Histories.**  Starting from any state whose True pools are disjoint (in particular the
empty cluster) every history of pool creations, disablings/enablings, delete requests, block
additions/removals, finalizer edits and reconciles — everything except another writer forging
the `Allocatable` condition — keeps them disjoint (and CIDRs well formed). -/
theorem history_keeps_true_disjoint (es : List Event) (s : State) (hw : ∀ p ∈ s.pools, p.WF)
    (hJ : TrueDisjoint s.pools) (he : ∀ e ∈ es, e.Benign) :
    (∀ p ∈ (runEvents s es).pools, p.WF) ∧ TrueDisjoint (runEvents s es).pools :=
  history_invariant es s hw hJ he

/-- **(2) over histories**: after ANY such history from the empty cluster, at the next
reconcile every allocatable, non-disabled pool that is not being deleted is kept active. -/
theorem never_displaced_over_history (es : List Event) (he : ∀ e ∈ es, e.Benign) (p : Pool)
    (hp : p ∈ (runEvents ⟨[], []⟩ es).pools) (hcat : p.category = 0) (hd : p.disabled = false)
    (hc : p.cidr ≠ none) : (p, Verdict.active) ∈ verdicts (runEvents ⟨[], []⟩ es).pools := by
  have h := history_invariant es ⟨[], []⟩ (fun p hp => by cases hp) List.Pairwise.nil he
  exact allocatable_stays_allocatable _ h.1 h.2 p hp hcat hd hc

/-- **(3) A terminating pool keeps masking overlapping pools until it is gone.**  While a
pool with a deletion timestamp (and not administratively disabled — a disabled pool never
masks, by design) is still present, no overlapping pool that was not already allocatable
(new, or previously disabled by overlap) becomes allocatable. -/
theorem terminating_masks (pools : List Pool) (hw : ∀ p ∈ pools, p.WF) (t p : Pool)
    (ht : t ∈ pools) (htd : t.deleting = true) (htn : t.disabled = false)
    (hpc : 2 ≤ p.category) (hov : overlapP t p = true) :
    (p, Verdict.active) ∉ verdicts pools := by
  intro hp
  obtain ⟨v, hv⟩ := mem_verdicts_of_mem hw ht
  have htc : t.cidr ≠ none := by
    intro e; unfold overlapP at hov; rw [e] at hov; cases hov
  have hvt : v = .terminating := by
    have hv' := hv
    rw [verdicts_eq_spec hw] at hv'
    exact (loopSpec_verdict _ _ _ hv').2.2.1.2 ⟨htc, htn, htd⟩
  subst hvt
  have hpw := loopSpec_pairwise (sortPools pools) []
  rw [← verdicts_eq_spec hw] at hpw
  have hboth := List.Pairwise.and hpw (verdicts_sorted hw)
  have htcat : t.category ≤ 1 := by unfold Pool.category; rw [htd]; simp
  rcases pairwise_mem_or hboth hv hp with e | e | e
  · cases e
  · have := e.1 (Or.inr rfl) rfl
    simp only at this
    rw [this] at hov; cases hov
  · have := Pool.category_le_of_le e.2
    simp only at this
    omega

/-- **(4a) Every allocatable pool carries the finalizer after a reconcile**, so a delete
request cannot remove it at once. -/
theorem allocatable_has_finalizer (pools : List Pool) (blocks : List (Bool × Pfx)) (p : Pool)
    (hp : p ∈ reconcile blocks pools) (ht : p.allocTrue = true) (hd : p.deleting = false) : p.fin = true := by
  unfold reconcile gc at hp
  obtain ⟨x, _, e⟩ := List.mem_map.1 (List.mem_filter.1 hp).1
  subst e
  have k := reconcileFinalizer_keeps blocks x
  have hxd : x.deleting = false := by rw [← k.2.2.2]; exact hd
  have hxt : x.allocTrue = true := by unfold Pool.allocTrue at ht ⊢; rw [← k.2.1]; exact ht
  have hxf : x.allocFalse = false := by
    unfold Pool.allocTrue at hxt; unfold Pool.allocFalse
    cases hc : x.cond with
    | none => rfl
    | some c => rw [hc] at hxt; simp only at hxt ⊢; rw [hxt]; rfl
  unfold reconcileFinalizer
  simp [hxd, hxf]

/-- **(4b) A pool is not deleted while it still has address blocks.**  A pool that is being
deleted, carries the finalizer (as every allocatable pool does, 4a) and has a block whose
base address lies inside its CIDR is still present after the reconcile, finalizer intact. -/
theorem no_delete_with_blocks (pools : List Pool) (hw : ∀ p ∈ pools, p.WF) (blocks : List (Bool × Pfx))
    (p : Pool) (hp : p ∈ pools) (hd : p.deleting = true) (hf : p.fin = true)
    (v6 : Bool) (c : Pfx) (hc : p.cidr = some (v6, c)) (hb : blocksInPool blocks v6 c = true) :
    ∃ p' ∈ reconcile blocks pools, p'.name = p.name ∧ p'.fin = true ∧ p'.deleting = true ∧ p'.cidr = p.cidr := by
  obtain ⟨v, hv⟩ := mem_verdicts_of_mem hw hp
  let x := applyVerdict p v
  have hx : reconcileFinalizer blocks x = x := by
    unfold reconcileFinalizer
    simp [x, applyVerdict_deleting, applyVerdict_fin, applyVerdict_cidr, hd, hf, hc, hb]
  refine ⟨x, ?_, applyVerdict_name .., (applyVerdict_fin ..).trans hf, (applyVerdict_deleting ..).trans hd,
    applyVerdict_cidr ..⟩
  unfold reconcile gc reconcileConditions
  refine List.mem_filter.2 ⟨?_, ?_⟩
  · rw [← hx]
    exact List.mem_map.2 ⟨x, List.mem_map.2 ⟨(p, v), hv, rfl⟩, rfl⟩
  · simp [x, applyVerdict_deleting, applyVerdict_fin, hd, hf]

/-- **(4c) The controller drops its finalizer from a deleting pool only when no block is
left inside it** (contrapositive form of 4b on the single pool). -/
theorem finalizer_removed_only_without_blocks (blocks : List (Bool × Pfx)) (p : Pool)
    (hd : p.deleting = true) (hf : p.fin = true) (hgone : (reconcileFinalizer blocks p).fin = false)
    (v6 : Bool) (c : Pfx) (hc : p.cidr = some (v6, c)) : blocksInPool blocks v6 c = false := by
  cases hb : blocksInPool blocks v6 c with
  | false => rfl
  | true =>
    unfold reconcileFinalizer at hgone
    simp [hd, hf, hc, hb] at hgone

/-! ### passes in which API writes fail

`reconcileF F blocks pools`: one pass in which the `UpdateStatus` of the pools in `F.status`
and the finalizer `Update` of the pools in `F.fin` fail (object unchanged, pass continues, as
the code does).  The conditions in the API are what IPAM reads, so the clauses are stated on
the API objects after the pass, for EVERY failure plan `F`. -/

/-- With no failing write `reconcileF` is `reconcile` (the theorems above are the case `F = none`). -/
theorem reconcileF_none (blocks : List (Bool × Pfx)) (pools : List Pool) :
    reconcileF Fails.none blocks pools = reconcile blocks pools := by
  unfold reconcileF reconcile reconcileConditions
  rw [List.map_map]
  congr 1
  apply List.map_congr_left
  intro pv _
  have k := reconcileFinalizer_keeps blocks (applyVerdict pv.1 pv.2)
  simp only [Function.comp, passPool, Fails.none, Bool.false_eq_true, if_false]
  generalize hx : reconcileFinalizer blocks (applyVerdict pv.1 pv.2) = x at *
  have h1 := k.1.trans (applyVerdict_cidr ..)
  have h3 := k.2.2.1.trans (applyVerdict_name ..)
  have h4 := k.2.2.2.trans (applyVerdict_deleting ..)
  have k2 := reconcileFinalizer_keeps2 blocks (applyVerdict pv.1 pv.2)
  rw [hx] at k2
  have h5 : x.created = pv.1.created ∧ x.disabled = pv.1.disabled :=
    ⟨k2.1.trans (applyVerdict_created ..), k2.2.trans (applyVerdict_disabled ..)⟩
  cases x with
  | mk n c cr di de co fi =>
    simp only at h1 h3 h4 h5 k ⊢
    obtain ⟨h5a, h5b⟩ := h5
    subst h1; subst h3; subst h4; subst h5a; subst h5b
    rw [← k.2.1]

/-- **(1, any failures) A pass never creates an overlap among effectively allocatable pools**
(Allocatable=True, not disabled, not being deleted — what `filterIPPool` lets IPAM use):
if none overlapped before the pass, none overlap after it, whichever writes failed. -/
theorem pass_never_creates_overlap (F : Fails) (blocks : List (Bool × Pfx)) (pools : List Pool)
    (hw : ∀ p ∈ pools, p.WF) (hE : EffDisjoint pools) : EffDisjoint (reconcileF F blocks pools) :=
  effDisjoint_pass F blocks pools hw hE

/-- **(any failures) Only pools judged active are ever turned Allocatable=True.** -/
theorem only_active_turn_true (F : Fails) (blocks : List (Bool × Pfx)) (p : Pool) (v : Verdict)
    (h : (passPool F blocks p v).allocTrue = true) : v = .active ∨ p.allocTrue = true :=
  passPool_allocTrue h

/-- **(3, any failures) A terminating pool keeps masking even when its own status write
fails**: the pool is inserted into the overlap trie whether or not `UpdateStatus` succeeded, so
in EVERY pass, with ANY failure plan, an overlapping pool that was not already allocatable
does not have Allocatable=True afterwards. -/
theorem terminating_masks_any_failures (F : Fails) (blocks : List (Bool × Pfx)) (pools : List Pool)
    (hw : ∀ p ∈ pools, p.WF) (t p : Pool) (ht : t ∈ pools) (htd : t.deleting = true)
    (htn : t.disabled = false) (hpc : 2 ≤ p.category) (hov : overlapP t p = true) (v : Verdict)
    (hv : (p, v) ∈ verdicts pools) : (passPool F blocks p v).allocTrue = false := by
  cases h : (passPool F blocks p v).allocTrue with
  | false => rfl
  | true =>
    exfalso
    rcases passPool_allocTrue h with e | e
    · subst e; exact terminating_masks pools hw t p ht htd htn hpc hov hv
    · unfold Pool.category at hpc
      rw [e] at hpc
      cases hd : p.deleting <;> rw [hd] at hpc <;> simp at hpc

/-- **(4b, any failures) A pool is not deleted while it still has address blocks**, whichever
writes fail. -/
theorem no_delete_with_blocks_any_failures (F : Fails) (pools : List Pool) (hw : ∀ p ∈ pools, p.WF)
    (blocks : List (Bool × Pfx)) (p : Pool) (hp : p ∈ pools) (hd : p.deleting = true) (hf : p.fin = true)
    (v6 : Bool) (c : Pfx) (hc : p.cidr = some (v6, c)) (hb : blocksInPool blocks v6 c = true) :
    ∃ p' ∈ reconcileF F blocks pools, p'.name = p.name ∧ p'.fin = true ∧ p'.deleting = true ∧ p'.cidr = p.cidr := by
  obtain ⟨v, hv⟩ := mem_verdicts_of_mem hw hp
  have hx : (reconcileFinalizer blocks (applyVerdict p v)).fin = true := by
    unfold reconcileFinalizer
    simp [applyVerdict_deleting, applyVerdict_fin, applyVerdict_cidr, hd, hf, hc, hb]
  have hfin : (passPool F blocks p v).fin = true := by
    unfold passPool; simp only; split
    · exact hf
    · exact hx
  refine ⟨passPool F blocks p v, ?_, rfl, hfin, hd, rfl⟩
  unfold reconcileF gc
  refine List.mem_filter.2 ⟨List.mem_map.2 ⟨(p, v), hv, rfl⟩, ?_⟩
  simp [hfin]

/-- **(4a, any failures) An allocatable pool whose own writes went through carries the finalizer.** -/
theorem allocatable_has_finalizer_any_failures (F : Fails) (blocks : List (Bool × Pfx)) (p : Pool) (v : Verdict)
    (hs : F.status p.name = false) (hf : F.fin p.name = false)
    (ht : (passPool F blocks p v).allocTrue = true) (hd : p.deleting = false) :
    (passPool F blocks p v).fin = true := by
  have e1 : (passPool F blocks p v).cond = (applyVerdict p v).cond := by simp [passPool, hs]
  have e2 : (passPool F blocks p v).fin = (reconcileFinalizer blocks (applyVerdict p v)).fin := by simp [passPool, hf]
  rw [e2]
  have hxt : (applyVerdict p v).allocTrue = true := by unfold Pool.allocTrue at ht ⊢; rw [← e1]; exact ht
  have hxf : (applyVerdict p v).allocFalse = false := by
    unfold Pool.allocTrue at hxt; unfold Pool.allocFalse
    cases hc : (applyVerdict p v).cond with
    | none => rfl
    | some c => rw [hc] at hxt; simp only at hxt ⊢; rw [hxt]; rfl
  unfold reconcileFinalizer
  simp [applyVerdict_deleting, hd, hxf]

/-- **Limit under write failures (witness).**  `allocatable_has_finalizer_any_failures` needs
the pool's own writes to go through, and that hypothesis cannot be dropped: with the plan
"status write succeeds, finalizer `Update` fails" a pool is Allocatable=True WITHOUT the
finalizer after the pass; a delete request arriving before the next pass then removes it at
once although a block lies inside it.  Transient (the next successful pass adds the
finalizer) and outside the property's quantifier, which ranges over histories of pool/block
events, not over API fault sequences — recorded here so that the limit is explicit. -/
theorem finalizer_write_failure_witness :
    let pX : Pool := ⟨7, some (false, ⟨0x0a000000, 16⟩), 0, false, false, none, false⟩
    let s0 : State := ⟨[pX], [(false, ⟨0x0a000040, 26⟩)]⟩
    let s1 := s0.step (.reconcileF [] [7])
    let s2 := s1.step (.delete 7)
    s1.pools.map (fun p => (p.name, p.allocTrue, p.fin)) = [(7, true, false)] ∧
    s2.pools = [] ∧ blocksInPool s2.blocks false ⟨0x0a000000, 16⟩ = true := by
  intro pX s0 s1 s2
  simp only [s2, s1, s0, pX, State.step, reconcileF, verdicts, sortPools, List.mergeSort_singleton]
  decide

/-! ### non-vacuity: a configuration exercising every clause -/

def pA : Pool := ⟨0, some (false, ⟨0x0a000000, 16⟩), 1, false, false, some ⟨true, "OK"⟩, true⟩    -- incumbent 10.0.0.0/16
def pB : Pool := ⟨1, some (false, ⟨0x0a000000, 8⟩), 0, false, false, none, false⟩               -- new, older, overlaps A
def pT : Pool := ⟨2, some (false, ⟨0x0b000000, 8⟩), 0, false, true, some ⟨true, "OK"⟩, true⟩     -- terminating 11.0.0.0/8
def pC : Pool := ⟨3, some (false, ⟨0x0b010000, 16⟩), 2, false, false, none, false⟩              -- new inside T
def exPools : List Pool := [pA, pT, pB, pC]   -- already in poolSortFunc order
theorem exSorted : sortPools exPools = exPools := List.mergeSort_of_pairwise (by decide)
def exBlocks : List (Bool × Pfx) := [(false, ⟨0x0b000040, 26⟩)]

example : ∀ p ∈ exPools, p.WF := by decide
example : exPools.Nodup := by decide
example : (verdicts exPools).map (fun pv => (pv.1.name, pv.2)) =
    [(0, .active), (2, .terminating), (1, .overlap), (3, .overlap)] := by
  unfold verdicts; rw [exSorted]; decide
example : pA.category = 0 ∧ 2 ≤ pC.category ∧ overlapP pT pC = true ∧ pT.deleting = true := by decide
example : blocksInPool exBlocks false ⟨0x0b000000, 8⟩ = true := by decide
example : ((reconcile exBlocks exPools).map (fun p => (p.name, p.allocTrue, p.fin))) =
    [(0, true, true), (2, false, true), (1, false, false), (3, false, false)] := by
  unfold reconcile reconcileConditions verdicts; rw [exSorted]; decide
/-- once the block is gone the terminating pool is released and removed -/
example : ((reconcile [] exPools).map (·.name)) = [0, 1, 3] := by
  unfold reconcile reconcileConditions verdicts; rw [exSorted]; decide


/-- the example configuration satisfies the hypothesis of `pass_never_creates_overlap`; a failure plan -/
example : EffDisjoint exPools := by
  unfold EffDisjoint EffD Eff exPools
  decide
def exFails : Fails := ⟨fun n => n == 2, fun n => n == 0⟩   -- T's status write and A's finalizer write fail
example : (verdicts exPools).map (fun pv => ((passPool exFails exBlocks pv.1 pv.2).name,
      (passPool exFails exBlocks pv.1 pv.2).allocTrue)) = [(0, true), (2, true), (1, false), (3, false)] := by
  unfold verdicts; rw [exSorted]; decide

/-- a benign history from the empty cluster: create A, reconcile, create overlapping older B, reconcile -/
def exHist : List Event :=
  [.create 0 (some (false, ⟨0x0a000000, 16⟩)) 5, .reconcile, .create 1 (some (false, ⟨0x0a000000, 8⟩)) 0]
example : ∀ e ∈ exHist, e.Benign := by
  intro e he
  simp only [exHist, List.mem_cons, List.not_mem_nil, or_false] at he
  rcases he with rfl | rfl | rfl
  · show Pfx.WF 32 _; decide
  · trivial
  · show Pfx.WF 32 _; decide

end CalicoVerif.C39
