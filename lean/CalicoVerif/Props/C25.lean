import CalicoVerif.Proofs.C25Inv2
import CalicoVerif.Proofs.C25Conc
/-!
C25 — Reconnecting to Typha converges without stale or lost resources.

Property theorems only.  The system (`Sys`, `Sys.step`, `Op`) is defined in
`Proofs/C25.lean`: the model of the real `DedupeBuffer` (`Model/C25.lean`) driven
by an ARBITRARY list of ops

  `upd us`          upstream `OnUpdates(us)`            (any updates, any keys, sets and deletions)
  `status s order`  upstream `OnStatusUpdated(s)`       (`order` = Go map iteration order, arbitrary)
  `restart`         upstream `OnTyphaConnectionRestarted()`
  `pull n`          the sender pulls one batch of at most `n` elements and the sink consumes it
                    (the real batch size is 100; the theorems hold for every `n`, i.e. any pace)

together with the observers the property speaks about:
  `down`   the downstream consumer's map (fold of everything delivered so far),
  `view`   the latest connection's view (fold of every update since the last `restart`),
  `insync` the latest connection has reported InSync (reset by `restart`),
  `log`    every delivered update paired with "downstream held that key just before",
  `wf`     upstream never deleted a key that was absent from the connection's view.
-/
namespace CalicoVerif.C25

/-- No update is left in the queue (status elements may remain). -/
abbrev Drained (b : Buf) : Prop := ups b.pending = []

/-- **Convergence** (main statement of C25).  After ANY interleaving of upstream updates,
status changes, restarts and downstream pulls of any size: if the latest connection has reported
in-sync and the queue holds no update, then the downstream map equals the latest connection's view,
key by key — keys missing from the new connection have been deleted, keys it did not change are
still there with the connection's value, nothing stale survives. -/
theorem dedupe_converges (ops : List Op) :
    let s := Sys.init.run ops
    s.insync = true → Drained s.buf → ∀ k, s.down k = s.view k := by
  intro s hi hd k
  have h : Inv s := Inv.init.run ops
  have hns := h.insync hi
  apply h.down_eq_view k
  · intro n hn; rw [hns] at hn; cases hn
  · intro x hx; rw [hd] at hx; cases hx

/-- The buffer always drains: `length` single-batch pulls of any positive size empty the queue,
without changing what upstream has said. -/
theorem pulls_drain (s : Sys) (n : Nat) :
    let s' := s.run (List.replicate s.buf.pending.length (.pull (n + 1)))
    s'.buf.pending = [] ∧ s'.view = s.view ∧ s'.insync = s.insync := by
  generalize hlen : s.buf.pending.length = m
  induction m generalizing s with
  | zero =>
    simp only [List.replicate, Sys.run, List.foldl_nil]
    refine ⟨List.length_eq_zero_iff.mp hlen, ?_, ?_⟩ <;> trivial
  | succ m ih =>
    simp only [List.replicate, Sys.run, List.foldl_cons]
    -- after one pull the queue is strictly shorter; pad with pulls on the empty queue
    have hstep : (s.step (.pull (n + 1))).buf.pending = s.buf.pending.drop (n + 1) := rfl
    have hv : (s.step (.pull (n + 1))).view = s.view := rfl
    have hi : (s.step (.pull (n + 1))).insync = s.insync := rfl
    have hl : (s.step (.pull (n + 1))).buf.pending.length ≤ m := by
      rw [hstep, List.length_drop]; omega
    -- extra pulls beyond the queue length are harmless
    have extra : ∀ (j : Nat) (t : Sys), t.buf.pending.length ≤ j →
        (t.run (List.replicate j (.pull (n + 1)))).buf.pending = [] ∧
        (t.run (List.replicate j (.pull (n + 1)))).view = t.view ∧
        (t.run (List.replicate j (.pull (n + 1)))).insync = t.insync := by
      intro j
      induction j with
      | zero =>
        intro t ht
        simp only [List.replicate, Sys.run, List.foldl_nil]
        refine ⟨List.length_eq_zero_iff.mp (by omega), ?_, ?_⟩ <;> trivial
      | succ j ihj =>
        intro t ht
        simp only [List.replicate, Sys.run, List.foldl_cons]
        have ht' : (t.step (.pull (n + 1))).buf.pending.length ≤ j := by
          show (t.buf.pending.drop (n + 1)).length ≤ j
          rw [List.length_drop]; omega
        have := ihj (t.step (.pull (n + 1))) ht'
        simp only [Sys.run] at this
        exact ⟨this.1, this.2.1, this.2.2⟩
    have := extra m (s.step (.pull (n + 1))) hl
    simp only [Sys.run] at this
    exact ⟨this.1, by rw [this.2.1, hv], by rw [this.2.2, hi]⟩

/-- **Convergence, end to end**: whatever happened before, once the latest connection has reported
in-sync, letting the sender run (at any positive batch size) until the queue is empty leaves
downstream with exactly the latest connection's view. -/
theorem dedupe_converges_after_drain (ops : List Op) (n : Nat) :
    let s := Sys.init.run ops
    let s' := s.run (List.replicate s.buf.pending.length (.pull (n + 1)))
    s.insync = true → s'.buf.pending = [] ∧ ∀ k, s'.down k = s.view k := by
  intro s s' hi
  obtain ⟨h1, h2, h3⟩ := pulls_drain s n
  refine ⟨h1, ?_⟩
  intro k
  have hrun : s' = Sys.init.run (ops ++ List.replicate s.buf.pending.length (.pull (n + 1))) := by
    simp [s', s, Sys.run, List.foldl_append]
  have := dedupe_converges (ops ++ List.replicate s.buf.pending.length (.pull (n + 1)))
  simp only at this
  rw [← hrun] at this
  rw [← h2]
  exact this (by rw [h3]; exact hi) (by show ups s'.buf.pending = []; rw [h1]; rfl) k

/-- **New versus updated notifications match what downstream already holds**: every delivered
update that carries a value is typed `Updated` exactly when downstream held the key at the moment
of delivery and `New` otherwise — for every interleaving, including across restarts. -/
theorem update_type_consistent (ops : List Op) :
    ∀ e ∈ (Sys.init.run ops).log, e.1.val.isSome = true →
      e.1.ut = if e.2 = true then utUpdated else utNew :=
  (Inv.init.run ops).logT

/-- **No deletion of an unknown key**: if upstream is well-formed (it only deletes keys that are in
its connection's view — what a Typha server does), every deletion delivered downstream, including the
ones synthesised after a reconnection, is for a key downstream holds. -/
theorem no_delete_of_unknown (ops : List Op) :
    (Sys.init.run ops).wf = true →
      ∀ e ∈ (Sys.init.run ops).log, e.1.val = none → e.2 = true :=
  (Inv.init.run ops).logD

/-- The anchor state `liveResourceKeys` (updated at pull time) is at every moment exactly the set of
keys downstream holds. -/
theorem live_keys_exact (ops : List Op) (k : Key) :
    k ∈ (Sys.init.run ops).buf.live ↔ ((Sys.init.run ops).down k).isSome = true :=
  (Inv.init.run ops).live_iff k

/-- During a resync, keys of the old connection that the new connection has not (yet) mentioned are
kept downstream untouched (not lost, nothing queued for them) until the new connection reports
in-sync. -/
theorem unseen_keys_kept_during_resync (ops : List Op) (n : List Key) (k : Key) :
    (Sys.init.run ops).buf.notSeen = some n → k ∈ n →
      ((Sys.init.run ops).down k).isSome = true ∧ isPending (Sys.init.run ops).buf.pending k = false ∧
        (Sys.init.run ops).view k = none := by
  intro hn hk
  have h := Inv.init.run ops
  obtain ⟨h1, h2, h3⟩ := h.ns n hn k hk
  exact ⟨(h.live_iff k).mp h2, (isPending_false_iff _ _).mpr h1, h3⟩

/-- At most one queued update per key (the dedupe itself), always. -/
theorem one_queued_update_per_key (ops : List Op) :
    ((ups (Sys.init.run ops).buf.pending).map (·.key)).Nodup :=
  (Inv.init.run ops).nodup

/-- Fidelity of the system to the model functions the driver runs: the buffer component of an
`upd` step is exactly `onUpdates` (the other ops use `onStatus`, `onRestart`, `pullNextBatch`
verbatim in `Sys.step`). -/
theorem upd_step_buf (s : Sys) (us : List Upd) : (s.step (.upd us)).buf = onUpdates s.buf us := by
  show (us.foldl Sys.upd1 s).buf = us.foldl onUpdate s.buf
  induction us generalizing s with
  | nil => rfl
  | cons u us ih => simp only [List.foldl_cons]; rw [ih]; rfl

/-- The model's map-iteration order is always a permutation of the not-seen set. -/
theorem synthOrder_perm (n order : List Key) : (synthOrder n order).Perm n := by
  unfold synthOrder
  split
  · rename_i h; exact List.isPerm_iff.mp h
  · exact List.Perm.refl _

/-! ### the lock is released between pulling a batch and delivering it -/

/-- **Pull/deliver commutation (simulation)**: the concurrent system `Sys2` — the sender pulls a batch under the
lock, then hands its elements to the sink one at a time while upstream `OnUpdates` / `OnStatusUpdated` /
`OnTyphaConnectionRestarted` calls interleave — is, after "finishing the in-flight batch", exactly the atomic
system on the corresponding history. -/
theorem concurrent_simulated_by_atomic (ops : List Op2) :
    (Sys2.init.run ops).abs = Sys.init.run (absOps Sys2.init ops) := by
  rw [run_abs, init_abs]

/-- **Convergence with deliveries interleaved**: for ANY interleaving of upstream calls, pulls and individual
deliveries, once the latest connection reported in-sync, the queue holds no update and the in-flight batch has
been handed over, downstream equals the latest connection's view. -/
theorem dedupe_converges_concurrent (ops : List Op2) :
    let s := Sys2.init.run ops
    s.insync = true → Drained s.buf → s.inflight = [] → ∀ k, s.down k = s.view k := by
  intro s hi hd hf k
  have hsim := concurrent_simulated_by_atomic ops
  have hc := dedupe_converges (absOps Sys2.init ops)
  simp only at hc
  rw [← hsim] at hc
  have := hc hi hd k
  have hf' : (Sys2.init.run ops).inflight = [] := hf
  simp only [Sys2.abs, hf', deliver] at this
  exact this

/-- **New/updated consistency with deliveries interleaved**: every update really handed to the sink so far is
typed `Updated` exactly when downstream held the key at that moment. -/
theorem update_type_consistent_concurrent (ops : List Op2) :
    ∀ e ∈ (Sys2.init.run ops).log, e.1.val.isSome = true →
      e.1.ut = if e.2 = true then utUpdated else utNew := by
  intro e he hv
  have hsim := concurrent_simulated_by_atomic ops
  obtain ⟨rest, hp⟩ := deliver_log_prefix (Sys2.init.run ops).down (Sys2.init.run ops).log (Sys2.init.run ops).inflight
  have hmem : e ∈ (Sys2.init.run ops).abs.log := by
    show e ∈ (deliver _ _ _).2
    rw [hp]; exact List.mem_append.mpr (Or.inl he)
  rw [hsim] at hmem
  exact update_type_consistent _ e hmem hv

/-- Likewise for "no deletion of an unknown key" (well-formed upstream). -/
theorem no_delete_of_unknown_concurrent (ops : List Op2) :
    (Sys2.init.run ops).wf = true →
      ∀ e ∈ (Sys2.init.run ops).log, e.1.val = none → e.2 = true := by
  intro hw e he hv
  have hsim := concurrent_simulated_by_atomic ops
  obtain ⟨rest, hp⟩ := deliver_log_prefix (Sys2.init.run ops).down (Sys2.init.run ops).log (Sys2.init.run ops).inflight
  have hmem : e ∈ (Sys2.init.run ops).abs.log := by
    show e ∈ (deliver _ _ _).2
    rw [hp]; exact List.mem_append.mpr (Or.inl he)
  have hw' : (Sys2.init.run ops).abs.wf = true := hw
  rw [hsim] at hmem hw'
  exact no_delete_of_unknown _ hw' e hmem hv

/-- An interleaving in which a restart and the new snapshot arrive while a batch is half delivered. -/
example :
    let s := Sys2.init.run
      [ .upd [⟨1, some 10, 1, 0⟩, ⟨2, some 20, 2, 0⟩], .status inSync [], .pullOnly 100, .deliverOne,
        .restart, .status waitForDatastore [], .upd [⟨2, some 21, 3, 0⟩], .deliverOne, .deliverOne,
        .status inSync [1], .pullOnly 100, .deliverOne, .deliverOne, .deliverOne, .deliverOne ]
    s.inflight = [] ∧ s.insync = true ∧ Drained s.buf ∧ s.down 1 = none ∧ s.down 2 = some (21, 3) ∧
      s.log.map (fun e => (e.1.key, e.1.ut, e.2)) =
        [(1, utNew, false), (2, utNew, false), (2, utUpdated, true), (1, utDeleted, true)] := by
  decide

/-! ### non-vacuity: a concrete history that exercises restart, resend, synthesised deletion -/

/-- Connection 1 sends keys 1,2,3 and is in sync; downstream pulls; restart; connection 2 re-sends 1
(changed) and 2, deletes nothing explicitly, reports in-sync (key 3 must be deleted by synthesis);
then the queue drains two elements at a time. -/
def demoOps : List Op :=
  [ .upd [⟨1, some 10, 1, 0⟩, ⟨2, some 20, 2, 0⟩, ⟨3, some 30, 3, 0⟩], .status inSync [], .pull 100,
    .restart, .status waitForDatastore [], .status resyncInProgress [],
    .upd [⟨1, some 11, 4, 0⟩, ⟨2, some 20, 2, 0⟩], .status inSync [3],
    .pull 2, .pull 2, .pull 2 ]

example : (Sys.init.run demoOps).insync = true ∧ Drained (Sys.init.run demoOps).buf ∧
    (Sys.init.run demoOps).wf = true ∧
    (Sys.init.run demoOps).down 1 = some (11, 4) ∧ (Sys.init.run demoOps).down 2 = some (20, 2) ∧
    (Sys.init.run demoOps).down 3 = none ∧
    (Sys.init.run demoOps).log.map (fun e => (e.1.key, e.1.ut, e.2)) =
      [(1, utNew, false), (2, utNew, false), (3, utNew, false),
       (1, utUpdated, true), (2, utUpdated, true), (3, utDeleted, true)] := by
  decide

/-- Mid-resync state is reachable: not-seen set non-empty. -/
example : (Sys.init.run (demoOps.take 7)).buf.notSeen = some [3] := by decide

/-- Observation outside the C25 statement (status delivery, not the key/value view): on the bare
buffer a queued-but-undelivered InSync is dropped by a restart and the next InSync is then
suppressed as a duplicate, so the sink is never told InSync.  The real sync client always calls
`OnStatusUpdated(WaitForDatastore)` right after `OnTyphaConnectionRestarted()`, which makes this
history unreachable in production. -/
example : (Sys.init.run [.status inSync [], .restart, .status inSync []]).buf.pending = [] ∧
    (Sys.init.run [.status inSync [], .restart, .status inSync []]).buf.mostRecent = inSync := by
  decide

end CalicoVerif.C25
