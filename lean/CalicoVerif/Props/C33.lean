import CalicoVerif.Proofs.C33Table
import CalicoVerif.Gen.C33
/-!
C33 — Maglev lookup tables are complete, balanced and node-independent.

Property theorems over the model `CalicoVerif/Model/C33.lean` of
felix/bpf/consistenthash (hash functions are PARAMETERS: every theorem holds for
all hash functions) and the prime table / constants regenerated from the source
into `CalicoVerif/Gen/C33.lean` on every run.  Helper lemmas: `Proofs/C33*.lean`.
-/
namespace CalicoVerif.C33

/-! ## 1. permutation -/

/-- `permutation` (m prime): never panics, and the preference list it returns
visits every slot of `[0,m)` exactly once (Euclid's lemma: `1 ≤ skip < m`, `m` prime). -/
theorem perm_bijective {m : Nat} (hm : IsPrime m) (e : Endian) (hs : Hashes) (s : List Nat) :
    permutation e hs m s ≠ .panic ∧
    ∀ p, permutation e hs m s = .ok p →
      p.length = m ∧ p.Nodup ∧ (∀ x ∈ p, x < m) ∧ (∀ x, x < m → x ∈ p) := by
  obtain ⟨h1, h2⟩ := permutation_ok_valid hm e hs s
  refine ⟨h1, ?_⟩
  intro p hp
  have hv := h2 p hp
  exact ⟨hv.1, hv.2.1, hv.2.2, fun x hx => hv.mem hx⟩

example : permutation .little fnvHashes 7 [97] = .ok [4, 3, 2, 1, 0, 6, 5] := by decide

/-! ## 2. Generate: in bounds, full, balanced -/

/-- `Generate` on any list of `N ≥ 1` preference lists that are permutations of
`[0,m)`, `m ≥ 1`: the inner `for lut[choice] != nil` loop never indexes past the
end of a preference list (the model returns `some`, i.e. no Go panic), every
slot is filled with a backend index `< N`, and backend `i` owns exactly
`m / N + (1 if i < m % N)` slots. -/
theorem generate_terminates_in_bounds_full_balanced {perms : List (List Nat)} {m : Nat}
    (hvalid : ∀ p ∈ perms, p.length = m ∧ p.Nodup ∧ ∀ x ∈ p, x < m)
    (hN : 0 < perms.length) (hm : 0 < m) :
    ∃ lut, generate perms m = some lut ∧ lut.length = m ∧
      (∀ s, s < m → ∃ b, b < perms.length ∧ lut[s]? = some (some b)) ∧
      (∀ i, i < perms.length →
        lut.count (some i) = m / perms.length + (if i < m % perms.length then 1 else 0)) :=
  generate_spec hvalid hN hm

example : generate [[0, 1, 2], [1, 0, 2]] 3 = some [some 0, some 1, some 0] := by decide
/-- Not vacuous the other way either: on a NON-bijective preference list the loop does run off the end. -/
example : generate [[0, 0, 0], [0, 0, 0]] 3 = none := by decide

/-- The backends `AddBackend` has stored after the arrivals (`none` = a panic). -/
def backends (e : Endian) (hs : Hashes) (m : Nat) (arrivals : List (List Nat)) : Option (List (List Nat)) :=
  addBackends (permutation e hs m) [] arrivals

/-- Complete and balanced, end to end (`New`; `AddBackend`*; `Generate`), for every
prime table size, all hash functions, every arrival sequence (duplicates allowed):
no panic; the stored backends are exactly the distinct arriving names whose hashing
succeeded; with no backend the result is `nil`; otherwise the table has `m` slots,
every slot holds a stored backend, and the shares of any two stored backends differ
by at most one slot and lie in `[⌊m/N⌋, ⌊m/N⌋+1]`. -/
theorem table_full_balanced {m : Nat} (hm : IsPrime m) (e : Endian) (hs : Hashes)
    (arrivals : List (List Nat)) :
    ∃ names t, backends e hs m arrivals = some names ∧ table e hs m arrivals = some t ∧
      names.Nodup ∧
      (∀ x, x ∈ names ↔ (x ∈ arrivals ∧ ∃ p, permutation e hs m x = .ok p)) ∧
      (names = [] → t = []) ∧
      (names ≠ [] →
        t.length = m ∧ (∀ x ∈ t, x ∈ names) ∧
        (∀ a ∈ names, m / names.length ≤ t.count a ∧ t.count a ≤ m / names.length + 1) ∧
        (∀ a ∈ names, ∀ b ∈ names, t.count a ≤ t.count b + 1)) := by
  have hm2 := hm.1
  obtain ⟨s1, s2⟩ := addBackends_spec (permutation e hs m) arrivals [] List.nodup_nil (by simp)
  cases hab : addBackends (permutation e hs m) [] arrivals with
  | none =>
    obtain ⟨n, _, hp⟩ := s1.1 hab
    exact absurd hp (permutation_ok_valid hm e hs n).1
  | some names =>
    obtain ⟨hnd, hmem⟩ := s2 names hab
    have hmem' : ∀ x, x ∈ names ↔ (x ∈ arrivals ∧ ∃ p, permutation e hs m x = .ok p) := by
      intro x; rw [hmem x]; simp
    have hsp : (sortNames names).Perm names := List.mergeSort_perm names _
    have hsnd : (sortNames names).Nodup := hsp.symm.nodup hnd
    have hslen : (sortNames names).length = names.length := hsp.length_eq
    -- permutations of the sorted backends are valid
    have hvalid : ∀ p ∈ permsOf (permutation e hs m) (sortNames names), ValidPerm m p := by
      intro p hp
      simp only [permsOf, List.mem_map] at hp
      obtain ⟨s, hs', rfl⟩ := hp
      obtain ⟨q, hq⟩ := ((hmem' s).1 (hsp.mem_iff.1 hs')).2
      rw [hq]
      exact (permutation_ok_valid hm e hs s).2 q hq
    have hplen : (permsOf (permutation e hs m) (sortNames names)).length = names.length := by
      simp [permsOf, hslen]
    by_cases hne : names = []
    · subst hne
      refine ⟨[], [], by unfold backends; exact hab, ?_, hnd, hmem', fun _ => rfl, fun h => absurd rfl h⟩
      simp [table, tableWith, hab, sortNames, permsOf, generate, namesOfLut]
    · have hNpos : 0 < names.length := List.length_pos_iff.2 hne
      obtain ⟨lut, hgen, hlen, hfull, hown⟩ :=
        generate_spec hvalid (by rw [hplen]; exact hNpos) (by omega)
      rw [hplen] at hfull hown
      refine ⟨names, namesOfLut (sortNames names) lut, by unfold backends; exact hab, ?_, hnd, hmem', fun h => absurd h hne, fun _ => ?_⟩
      · simp [table, tableWith, hab, hgen]
      · have hlutall : ∀ o ∈ lut, ∃ b, o = some b ∧ b < (sortNames names).length := by
          intro o ho
          obtain ⟨s, hs', rfl⟩ := List.getElem_of_mem ho
          obtain ⟨b, hb, hget⟩ := hfull s (by omega)
          rw [List.getElem?_eq_getElem hs'] at hget
          exact ⟨b, Option.some.inj hget, by omega⟩
        have hcount : ∀ a ∈ names, ∃ i, i < names.length ∧
            (namesOfLut (sortNames names) lut).count a = cnt names.length m i := by
          intro a ha
          obtain ⟨i, hi, rfl⟩ := List.getElem_of_mem (hsp.mem_iff.2 ha)
          refine ⟨i, by omega, ?_⟩
          rw [count_namesOfLut hsnd hi lut hlutall]
          exact hown i (by omega)
        refine ⟨by simp [namesOfLut, hlen], ?_, ?_, ?_⟩
        · intro x hx
          simp only [namesOfLut, List.mem_map] at hx
          obtain ⟨o, ho, rfl⟩ := hx
          obtain ⟨b, rfl, hb⟩ := hlutall o ho
          simp only [List.getD_eq_getElem?_getD, List.getElem?_eq_getElem hb, Option.getD_some]
          exact hsp.mem_iff.1 (List.getElem_mem hb)
        · intro a ha
          obtain ⟨i, _, hc⟩ := hcount a ha
          rw [hc]; unfold cnt; split <;> omega
        · intro a ha b hb
          obtain ⟨i, _, hca⟩ := hcount a ha
          obtain ⟨j, _, hcb⟩ := hcount b hb
          rw [hca, hcb]
          exact cnt_balanced _ _ _ _

/-- 7 slots, backends "a","b","c" with FNV-1: shares 2,2,3. -/
example : table .little fnvHashes 7 [[98], [97], [99], [97]] =
    some [[98], [99], [98], [97], [97], [97], [99]] := by
  have h1 : addBackends (permutation .little fnvHashes 7) [] [[98], [97], [99], [97]] = some [[98], [97], [99]] := by decide
  have h2 : sortNames [[98], [97], [99]] = [[97], [98], [99]] := by
    have hp : ([[97], [98], [99]] : List (List Nat)).Perm [[98], [97], [99]] := by decide
    unfold sortNames
    apply List.Perm.eq_of_pairwise (le := fun x y => bytesLe x y = true)
    · intro x y _ _ h1 h2; exact bytesLe_antisymm x y h1 h2
    · exact List.pairwise_mergeSort bytesLe_trans bytesLe_total _
    · decide
    · exact (List.mergeSort_perm _ _).trans hp.symm
  simp only [table, tableWith, h1, h2]
  decide

/-! ## 3. independent of the order in which backends were learned -/

/-- Two arrival sequences with the same SET of names (any order, any multiplicity)
give the same result — the same table or the same panic — for every size and all hashes. -/
theorem order_independent (e : Endian) (hs : Hashes) (m : Nat) {a b : List (List Nat)}
    (hab : ∀ x, x ∈ a ↔ x ∈ b) : table e hs m a = table e hs m b := by
  unfold table
  rw [tableWith_eq, tableWith_eq, sorted_backends_eq _ hab]

example : ∀ x, x ∈ [[1], [2], [1]] ↔ x ∈ ([[2], [1]] : List (List Nat)) := by
  intro x
  simp only [List.mem_cons, List.not_mem_nil, or_false]
  constructor
  · rintro (h | h | h) <;> simp [h]
  · rintro (h | h) <;> simp [h]

/-! ## 4. every configurable table size is prime -/

theorem pr_sorted : Gen.pr.Pairwise (· ≤ ·) := sortedB_sound _ (by decide +kernel)
theorem pr_last : Gen.pr.getLast? = some 65521 := by decide +kernel
/-- Every entry of the table regenerated from primes.go is prime (finite table:
6542 entries checked by the kernel, `gcd p 256! = 1 ∧ p < 257²` or trial division). -/
theorem pr_all_prime : ∀ p ∈ Gen.pr, IsPrime p := by
  have h : Gen.pr.all (primeCertB 256 (fact 256)) = true := by decide +kernel
  intro p hp
  exact primeCertB_sound (List.all_eq_true.1 h p hp)

/-- `NextPrimeUint16 i` for every `i` up to its panic limit (negative too): a
prime from the table, `≥ i`, and the least table entry `≥ i`. -/
theorem nextPrime_prime {i : Int} (hi : i ≤ (Gen.primeLimit : Int)) :
    ∃ p, nextPrimeUint16 Gen.pr Gen.primeLimit i = some p ∧ IsPrime p ∧ i ≤ (p : Int) ∧
      ∀ q ∈ Gen.pr, i ≤ (q : Int) → p ≤ q := by
  obtain ⟨p, h1, h2, h3, h4⟩ := nextPrimeUint16_spec pr_sorted pr_last (by decide) hi
  exact ⟨p, h1, pr_all_prime p h2, h3, h4⟩

/-- `BPFLUTSizeMaglev` for every value the config parser accepts for
BPFMaglevMaxEndpointsPerService (`int(cfgMin:cfgMax)` regenerated from the struct tag):
no panic, prime, and at least `MaglevEndpointLUTFactor` slots per endpoint. -/
theorem sizes_prime {n : Nat} (_h1 : Gen.cfgMin ≤ n) (h2 : n ≤ Gen.cfgMax) :
    ∃ p, bpfLUTSizeMaglev Gen.pr Gen.primeLimit Gen.lutFactor n = some p ∧ IsPrime p ∧
      Gen.lutFactor * n ≤ p ∧ 2 ≤ p := by
  have hb : Gen.cfgMax * Gen.lutFactor ≤ Gen.primeLimit := by decide
  have hle : n * Gen.lutFactor ≤ Gen.primeLimit := Nat.le_trans (Nat.mul_le_mul_right _ h2) hb
  obtain ⟨p, hp1, hp2, hp3, _⟩ := nextPrime_prime (i := ((n * Gen.lutFactor : Nat) : Int)) (by omega)
  refine ⟨p, hp1, hp2, ?_, hp2.1⟩
  rw [Nat.mul_comm]; omega

example : bpfLUTSizeMaglev Gen.pr Gen.primeLimit Gen.lutFactor 100 = some 503 := by decide +kernel
example : Gen.cfgMin ≤ 100 ∧ 100 ≤ Gen.cfgMax := by decide

/-- Composition: with any configurable size the table is complete and balanced. -/
theorem configured_table_full_balanced {n : Nat} (h1 : Gen.cfgMin ≤ n) (h2 : n ≤ Gen.cfgMax)
    (e : Endian) (hs : Hashes) (arrivals : List (List Nat)) :
    ∃ m names t, bpfLUTSizeMaglev Gen.pr Gen.primeLimit Gen.lutFactor n = some m ∧
      backends e hs m arrivals = some names ∧ table e hs m arrivals = some t ∧
      (names ≠ [] → t.length = m ∧ (∀ x ∈ t, x ∈ names) ∧
        ∀ a ∈ names, ∀ b ∈ names, t.count a ≤ t.count b + 1) := by
  obtain ⟨m, hm1, hm2, _, _⟩ := sizes_prime h1 h2
  obtain ⟨names, t, hb, ht, _, _, _, hfull⟩ := table_full_balanced hm2 e hs arrivals
  exact ⟨m, names, t, hm1, hb, ht, fun hne => ⟨(hfull hne).1, (hfull hne).2.1, (hfull hne).2.2.2⟩⟩

/-! ## 5. independent of the CPU's byte order -/

/-- With `binary.NativeEndian` the same three backends get different tables on a
little- and a big-endian CPU (concrete witness, FNV-1 as in newConsistentHash, 7 slots). -/
theorem native_order_arch_dependent :
    table (SrcOrder.nativeEndian.on .little) fnvHashes 7 [[97], [98], [99]] ≠
    table (SrcOrder.nativeEndian.on .big) fnvHashes 7 [[97], [98], [99]] := by
  have hs : sortNames [[97], [98], [99]] = [[97], [98], [99]] :=
    List.mergeSort_of_pairwise (by decide)
  have h1 : addBackends (permutation .little fnvHashes 7) [] [[97], [98], [99]] = some [[97], [98], [99]] := by decide
  have h2 : addBackends (permutation .big fnvHashes 7) [] [[97], [98], [99]] = some [[97], [98], [99]] := by decide
  simp only [SrcOrder.on, table, tableWith, h1, h2, hs]
  decide

/-- The table is the same on every CPU, for all inputs, **iff** the byte order named in
`hashFromString` is a fixed one (not `NativeEndian`). -/
theorem arch_independent_iff (src : SrcOrder) :
    (∀ (cpu1 cpu2 : Endian) (hs : Hashes) (m : Nat) (names : List (List Nat)),
      table (src.on cpu1) hs m names = table (src.on cpu2) hs m names) ↔ src ≠ .nativeEndian := by
  constructor
  · intro h hsrc
    subst hsrc
    exact native_order_arch_dependent (h .little .big fnvHashes 7 [[97], [98], [99]])
  · intro h cpu1 cpu2 hs m names
    cases src with
    | littleEndian => rfl
    | bigEndian => rfl
    | nativeEndian => exact absurd rfl h

/-- Node independence for the byte order the CURRENT source names (regenerated by the
translator from hashFromString): identical tables on little- and big-endian CPUs and for
every arrival order.  Fails to type-check if `binary.NativeEndian` comes back. -/
theorem arch_independent (cpu1 cpu2 : Endian) (hs : Hashes) (m : Nat) {a b : List (List Nat)}
    (hab : ∀ x, x ∈ a ↔ x ∈ b) :
    table (Gen.hashByteOrder.on cpu1) hs m a = table (Gen.hashByteOrder.on cpu2) hs m b := by
  rw [order_independent _ hs m hab]
  exact (arch_independent_iff Gen.hashByteOrder).2 (by decide) cpu1 cpu2 hs m b

end CalicoVerif.C33
