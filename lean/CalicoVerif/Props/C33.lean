import CalicoVerif.Model.C33
import CalicoVerif.Gen.C33
/-! C33 — placeholder while the correspondence is brought up (theorems follow). -/
namespace CalicoVerif.C33

theorem permOf_length (m o s : Nat) : (permOf m o s).length = m := by
  simp [permOf]

end CalicoVerif.C33
