import CalicoVerif.Proofs.C05
/-!
C05 — Missing or invalid references fail closed.

Property theorems over the model `CalicoVerif/Model/C05.lean` of the profile path of
`felix/calc/active_rules_calculator.go` and of `felix/calc/validation_filter.go`.
All theorems quantify over EVERY history of raw datastore updates (endpoints with any
profile-id lists incl. duplicates and empties, profile rules, deletions, invalid values,
repeats) starting from a fresh calculator.  The validators themselves are trusted: an update
carries the bit "passes validation".
-/
namespace CalicoVerif.C05

set_option linter.unusedSectionVars false
variable {R : Type} [DecidableEq R]

theorem isActive_iff_referenced {st : Arc R} (h : RefInv st) (p : String) :
    isActive st p = true ↔ referenced st p := by
  rw [isActive_iff]
  constructor
  · rintro ⟨ep, hep⟩; obtain ⟨ids, h1, h2⟩ := (h p ep).1 hep; exact ⟨ep, ids, h1, h2⟩
  · rintro ⟨ep, ids, h1, h2⟩; exact ⟨ep, (h p ep).2 ⟨ids, h1, h2⟩⟩

/-- **Missing or invalid profile ⇒ deny.**  After any history, a profile that some local endpoint
references but that does not exist (never created, deleted while referenced, or replaced by a
version that fails validation) is active at the rule scanner with the deny stand-in. -/
theorem missing_profile_denies (us : List (RawUpd R)) (p : String)
    (href : referenced (runRaw (Arc.new R) us) p)
    (hmiss : alGet p (runRaw (Arc.new R) us).profiles = none) :
    alGet p (view (runRaw (Arc.new R) us).out) = some .dummyDrop := by
  have hv := run_view (us.map filter) (viewInv_new (R := R))
  have hr := run_ref (us.map filter) (refInv_new (R := R))
  have := hv p
  unfold runRaw at href hmiss ⊢
  rw [(isActive_iff_referenced hr p).2 href] at this
  simpa [outOf, hmiss] using this

/-- **Known profile ⇒ its real rules** (in particular: in the very step in which a missing profile
arrives, the deny stand-in is replaced by the real rules — the invariant holds after every step). -/
theorem known_profile_real_rules (us : List (RawUpd R)) (p : String) (r : R)
    (href : referenced (runRaw (Arc.new R) us) p)
    (hk : alGet p (runRaw (Arc.new R) us).profiles = some r) :
    alGet p (view (runRaw (Arc.new R) us).out) = some (.real r) := by
  have hv := run_view (us.map filter) (viewInv_new (R := R))
  have hr := run_ref (us.map filter) (refInv_new (R := R))
  have := hv p
  unfold runRaw at href hk ⊢
  rw [(isActive_iff_referenced hr p).2 href] at this
  simpa [outOf, hk] using this

/-- A profile no endpoint references is not active at all. -/
theorem unreferenced_profile_inactive (us : List (RawUpd R)) (p : String)
    (href : ¬ referenced (runRaw (Arc.new R) us) p) :
    alGet p (view (runRaw (Arc.new R) us).out) = none := by
  have hv := run_view (us.map filter) (viewInv_new (R := R))
  have hr := run_ref (us.map filter) (refInv_new (R := R))
  have := hv p
  unfold runRaw at href ⊢
  have hna : isActive (run (Arc.new R) (us.map filter)) p = false := by
    cases h : isActive (run (Arc.new R) (us.map filter)) p
    · rfl
    · exact absurd ((isActive_iff_referenced hr p).1 h) href
  rw [hna] at this
  simpa using this

/-- **The rule scanner's table is a function of the current inputs only** (the form used for
composition): after any history, profile `p` maps to `outOf st p` if it is referenced, and is
absent otherwise. -/
theorem view_eq_spec (us : List (RawUpd R)) (p : String) :
    (referenced (runRaw (Arc.new R) us) p →
      alGet p (view (runRaw (Arc.new R) us).out) = some (outOf (runRaw (Arc.new R) us) p)) ∧
    (¬ referenced (runRaw (Arc.new R) us) p → alGet p (view (runRaw (Arc.new R) us).out) = none) := by
  refine ⟨fun href => ?_, unreferenced_profile_inactive us p⟩
  cases hk : alGet p (runRaw (Arc.new R) us).profiles with
  | none => rw [missing_profile_denies us p href hk]; simp [outOf, hk]
  | some r => rw [known_profile_real_rules us p r href hk]; simp [outOf, hk]

/-- The stored profile table is "last valid writer wins": a valid profile update stores the rules,
a deletion or an invalid value removes them. -/
theorem profile_table_after (st : Arc R) (p : String) (v : Option (R × Bool)) :
    alGet p (step st (filter (.profileRules p v))).profiles =
      match v with
      | some (r, true) => some r
      | _ => none := by
  have hsend : ∀ (q : String) (x : Option R) (s : Arc R), (sendProfileUpdate q x s).profiles = s.profiles :=
    fun q x s => (sendProfileUpdate_frame q x s).2.2
  have hdel : alGet p (step st (.profileRules p none)).profiles = none := by
    simp only [step, updateProfileRules]
    split
    · rw [hsend]; simp [alGet_alErase]
    · simp [alGet_alErase]
  match v with
  | none => exact hdel
  | some (r, false) => exact hdel
  | some (r, true) =>
    simp only [filter, if_true, step, updateProfileRules]
    split
    · assumption
    · split
      · rw [hsend]; simp [alGet_alSet]
      · simp [alGet_alSet]

/-- An endpoint's recorded profile list is "last valid writer wins" too. -/
theorem endpoint_table_after (st : Arc R) (ep : String) (v : Option (List String × Bool)) :
    alGet ep (step st (filter (.endpoint ep v))).epProfiles =
      match v with
      | some (ids, true) => if ids.isEmpty then none else some ids
      | _ => none := by
  have key : ∀ ids : List String, alGet ep (updateEndpointProfileIDs ep ids st).epProfiles =
      if ids.isEmpty then none else some ids := by
    intro ids
    unfold updateEndpointProfileIDs
    simp only
    rw [(foldl_removeOne_frame ep _ _).2, (foldl_addOne_frame ep _ _).2]
    by_cases h : ids.isEmpty
    · simp [h, alGet_alErase]
    · simp [h, alGet_alSet]
  match v with
  | none => simpa [filter, step] using key []
  | some (ids, false) => simpa [filter, step] using key []
  | some (ids, true) => simpa [filter, step] using key ids

/-! ### invalid = absent -/

/-- replace every value that fails validation by a deletion -/
def asDelete : RawUpd R → RawUpd R
  | .endpoint ep (some (_, false)) => .endpoint ep none
  | .profileRules p (some (_, false)) => .profileRules p none
  | u => u

theorem filter_asDelete (u : RawUpd R) : filter (asDelete u) = filter u := by
  cases u with
  | endpoint ep v =>
    match v with
    | none => rfl
    | some (ids, true) => rfl
    | some (ids, false) => rfl
  | profileRules p v =>
    match v with
    | none => rfl
    | some (r, true) => rfl
    | some (r, false) => rfl

/-- **Invalid = absent.**  Any history behaves exactly like the same history in which every value
that fails validation has been replaced by a deletion of that key: same stored state, same calls
to the rule scanner, at every position (apply to every prefix). -/
theorem invalid_eq_absent (st : Arc R) (us : List (RawUpd R)) :
    runRaw st us = runRaw st (us.map asDelete) := by
  unfold runRaw
  rw [List.map_map]
  congr 1
  apply List.map_congr_left
  intro u _
  exact (filter_asDelete u).symm

/-- **Never partially applied.**  What an invalid value contains is irrelevant: two histories that
differ only in the contents of values that fail validation behave identically. -/
theorem invalid_content_irrelevant (st : Arc R) (us us' : List (RawUpd R))
    (h : us.map asDelete = us'.map asDelete) : runRaw st us = runRaw st us' := by
  rw [invalid_eq_absent st us, invalid_eq_absent st us', h]

/-- A value that passes validation reaches the calculator unchanged. -/
theorem filter_valid_passthrough (ep p : String) (ids : List String) (r : R) :
    filter (R := R) (.endpoint ep (some (ids, true))) = .endpoint ep (some ids) ∧
    filter (.profileRules p (some (r, true))) = .profileRules p (some r) := ⟨rfl, rfl⟩

/-! ### non-vacuity: late creation, invalid replacement, deletion while referenced -/

def exHist : List (RawUpd Nat) :=
  [ .endpoint "w1" (some (["p1", "p2"], true)),      -- references p1, p2: both missing
    .profileRules "p1" (some (7, true)),              -- p1 arrives late
    .profileRules "p2" (some (8, false)),             -- p2 arrives but is invalid
    .profileRules "p1" (some (9, false)) ]            -- p1 replaced by an invalid version

example : alGet "p1" (view (runRaw (Arc.new Nat) (exHist.take 1)).out) = some .dummyDrop := by decide
example : alGet "p1" (view (runRaw (Arc.new Nat) (exHist.take 2)).out) = some (.real 7) := by decide
example : alGet "p2" (view (runRaw (Arc.new Nat) (exHist.take 3)).out) = some .dummyDrop := by decide
example : alGet "p1" (view (runRaw (Arc.new Nat) exHist).out) = some .dummyDrop := by decide
example : referenced (runRaw (Arc.new Nat) exHist) "p1" := ⟨"w1", ["p1", "p2"], by decide, by decide⟩
example : alGet "p1" (runRaw (Arc.new Nat) exHist).profiles = none := by decide

end CalicoVerif.C05
