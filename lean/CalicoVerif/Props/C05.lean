import CalicoVerif.Proofs.C05
import CalicoVerif.Model.C05Pol
import CalicoVerif.Props.C03
/-!
C05 — Missing or invalid references fail closed.

Kinds covered: workload / host endpoints, profile rules (model `Model/C05.lean`: profile path of
`active_rules_calculator.go` + `validation_filter.go`), policies and tiers (`Model/C05Pol.lean`: the
ValidationFilter in front of acalc1's C03 model of `policy_resolver.go` / `policy_sorter.go`).
All theorems quantify over EVERY history of raw datastore updates from a fresh calculator / resolver.
The validators are trusted: an update carries the bit "passes validation".

* profiles: `view_eq_spec` (= `missing_profile_denies` + `known_profile_real_rules` +
  `unreferenced_profile_inactive`), tables are last-valid-writer-wins.
* tiers: `dangling_tier_fails_closed`, `dangling_same_as_never_existed`, `tier_table_after`.
* policies: `invalid_policy_not_listed_partial`, `pol_table_after`.
* the filter's contract, on the emitted data: `invalid_eq_absent_emitted_partial`,
  `invalid_eq_absent_profiles_partial` (`_partial`: only these kinds are modelled; these follow from
  the definition of `filter` — the content is in the theorems above that say what absence means).
Not modelled: the deny stand-in's content (`DummyDropRules` is checked by the harness on the real
value), the validators, other resource kinds, the ARC's label index (the real one runs in the harness).
-/
namespace CalicoVerif.C05

set_option linter.unusedSectionVars false
variable {R : Type} [DecidableEq R]

theorem isActive_iff_referenced {st : Arc R} (h : RefInv st) (p : String) :
    isActive st p = true ↔ referenced st p := by
  rw [isActive_iff]
  constructor
  · rintro ⟨ep, hep⟩; obtain ⟨ids, h1, h2⟩ := (h p ep).1 hep; exact ⟨ep, ids, h1, h2⟩
  · rintro ⟨ep, ids, h1, h2⟩; exact ⟨ep, (h p ep).2 ⟨ids, h1, h2⟩⟩

/-- **Missing or invalid profile ⇒ deny.**  After any history, a profile that some local endpoint
references but that does not exist (never created, deleted while referenced, or replaced by a
version that fails validation) is active at the rule scanner with the deny stand-in. -/
theorem missing_profile_denies (us : List (RawUpd R)) (p : String)
    (href : referenced (runRaw (Arc.new R) us) p)
    (hmiss : alGet p (runRaw (Arc.new R) us).profiles = none) :
    alGet p (view (runRaw (Arc.new R) us).out) = some .dummyDrop := by
  have hv := run_view (us.map filter) (viewInv_new (R := R))
  have hr := run_ref (us.map filter) (refInv_new (R := R))
  have := hv p
  unfold runRaw at href hmiss ⊢
  rw [(isActive_iff_referenced hr p).2 href] at this
  simpa [outOf, hmiss] using this

/-- **Known profile ⇒ its real rules** (in particular: in the very step in which a missing profile
arrives, the deny stand-in is replaced by the real rules — the invariant holds after every step). -/
theorem known_profile_real_rules (us : List (RawUpd R)) (p : String) (r : R)
    (href : referenced (runRaw (Arc.new R) us) p)
    (hk : alGet p (runRaw (Arc.new R) us).profiles = some r) :
    alGet p (view (runRaw (Arc.new R) us).out) = some (.real r) := by
  have hv := run_view (us.map filter) (viewInv_new (R := R))
  have hr := run_ref (us.map filter) (refInv_new (R := R))
  have := hv p
  unfold runRaw at href hk ⊢
  rw [(isActive_iff_referenced hr p).2 href] at this
  simpa [outOf, hk] using this

/-- A profile no endpoint references is not active at all. -/
theorem unreferenced_profile_inactive (us : List (RawUpd R)) (p : String)
    (href : ¬ referenced (runRaw (Arc.new R) us) p) :
    alGet p (view (runRaw (Arc.new R) us).out) = none := by
  have hv := run_view (us.map filter) (viewInv_new (R := R))
  have hr := run_ref (us.map filter) (refInv_new (R := R))
  have := hv p
  unfold runRaw at href ⊢
  have hna : isActive (run (Arc.new R) (us.map filter)) p = false := by
    cases h : isActive (run (Arc.new R) (us.map filter)) p
    · rfl
    · exact absurd ((isActive_iff_referenced hr p).1 h) href
  rw [hna] at this
  simpa using this

/-- **The rule scanner's table is a function of the current inputs only** (the form used for
composition): after any history, profile `p` maps to `outOf st p` if it is referenced, and is
absent otherwise. -/
theorem view_eq_spec (us : List (RawUpd R)) (p : String) :
    (referenced (runRaw (Arc.new R) us) p →
      alGet p (view (runRaw (Arc.new R) us).out) = some (outOf (runRaw (Arc.new R) us) p)) ∧
    (¬ referenced (runRaw (Arc.new R) us) p → alGet p (view (runRaw (Arc.new R) us).out) = none) := by
  refine ⟨fun href => ?_, unreferenced_profile_inactive us p⟩
  cases hk : alGet p (runRaw (Arc.new R) us).profiles with
  | none => rw [missing_profile_denies us p href hk]; simp [outOf, hk]
  | some r => rw [known_profile_real_rules us p r href hk]; simp [outOf, hk]

/-- The stored profile table is "last valid writer wins": a valid profile update stores the rules,
a deletion or an invalid value removes them. -/
theorem profile_table_after (st : Arc R) (p : String) (v : Option (R × Bool)) :
    alGet p (step st (filter (.profileRules p v))).profiles =
      match v with
      | some (r, true) => some r
      | _ => none := by
  have hsend : ∀ (q : String) (x : Option R) (s : Arc R), (sendProfileUpdate q x s).profiles = s.profiles :=
    fun q x s => (sendProfileUpdate_frame q x s).2.2
  have hdel : alGet p (step st (.profileRules p none)).profiles = none := by
    simp only [step, updateProfileRules]
    split
    · rw [hsend]; simp [alGet_alErase]
    · simp [alGet_alErase]
  match v with
  | none => exact hdel
  | some (r, false) => exact hdel
  | some (r, true) =>
    simp only [filter, if_true, step, updateProfileRules]
    split
    · assumption
    · split
      · rw [hsend]; simp [alGet_alSet]
      · simp [alGet_alSet]

/-- An endpoint's recorded profile list is "last valid writer wins" too. -/
theorem endpoint_table_after (st : Arc R) (ep : String) (v : Option (List String × Bool)) :
    alGet ep (step st (filter (.endpoint ep v))).epProfiles =
      match v with
      | some (ids, true) => if ids.isEmpty then none else some ids
      | _ => none := by
  have key : ∀ ids : List String, alGet ep (updateEndpointProfileIDs ep ids st).epProfiles =
      if ids.isEmpty then none else some ids := by
    intro ids
    unfold updateEndpointProfileIDs
    simp only
    rw [(foldl_removeOne_frame ep _ _).2, (foldl_addOne_frame ep _ _).2]
    by_cases h : ids.isEmpty
    · simp [h, alGet_alErase]
    · simp [h, alGet_alSet]
  match v with
  | none => simpa [filter, step] using key []
  | some (ids, false) => simpa [filter, step] using key []
  | some (ids, true) => simpa [filter, step] using key ids

/-! ### invalid = absent -/

/-- replace every value that fails validation by a deletion -/
def asDelete : RawUpd R → RawUpd R
  | .endpoint ep (some (_, false)) => .endpoint ep none
  | .profileRules p (some (_, false)) => .profileRules p none
  | u => u

theorem filter_asDelete (u : RawUpd R) : filter (asDelete u) = filter u := by
  cases u with
  | endpoint ep v =>
    match v with
    | none => rfl
    | some (ids, true) => rfl
    | some (ids, false) => rfl
  | profileRules p v =>
    match v with
    | none => rfl
    | some (r, true) => rfl
    | some (r, false) => rfl

/-- **Invalid = absent, endpoint / profile-rules kinds** (`_partial`: these two kinds only; policy and
tier kinds: `invalid_eq_absent_emitted_partial` below; other resource kinds are not modelled).  By
itself this only says that the filter replaces a rejected value by nil; what "absent" then MEANS for
the output is `missing_profile_denies` / `unreferenced_profile_inactive`.  Any history behaves exactly like the same history in which every value
that fails validation has been replaced by a deletion of that key: same stored state, same calls
to the rule scanner, at every position (apply to every prefix). -/
theorem invalid_eq_absent_profiles_partial (st : Arc R) (us : List (RawUpd R)) :
    runRaw st us = runRaw st (us.map asDelete) := by
  unfold runRaw
  rw [List.map_map]
  congr 1
  apply List.map_congr_left
  intro u _
  exact (filter_asDelete u).symm

/-- **Never partially applied.**  What an invalid value contains is irrelevant: two histories that
differ only in the contents of values that fail validation behave identically. -/
theorem invalid_content_irrelevant_profiles_partial (st : Arc R) (us us' : List (RawUpd R))
    (h : us.map asDelete = us'.map asDelete) : runRaw st us = runRaw st us' := by
  rw [invalid_eq_absent_profiles_partial st us, invalid_eq_absent_profiles_partial st us', h]

/-- A value that passes validation reaches the calculator unchanged. -/
theorem filter_valid_passthrough (ep p : String) (ids : List String) (r : R) :
    filter (R := R) (.endpoint ep (some (ids, true))) = .endpoint ep (some ids) ∧
    filter (.profileRules p (some (r, true))) = .profileRules p (some r) := ⟨rfl, rfl⟩

/-! ### policy and tier kinds: filter in front of the PolicyResolver / PolicySorter (C03 model) -/

section PolTier
open CalicoVerif.C02 CalicoVerif.C03

/-- a raw history: datastore updates before validation, the ARC's match calls, flushes -/
inductive RawStep where
  | ev (e : RawEvent)
  | flush

def filterStep : RawStep → RStep
  | .ev e => .ev (filterEv e)
  | .flush => .flush

def asDeleteStep : RawStep → RawStep
  | .ev e => .ev (asDeleteEv e)
  | .flush => .flush

/-- ValidationFilter, then resolver, from a fresh resolver; per flush the emitted calls -/
def runPol (h : List RawStep) : Option (Resolver × List (List (PolicyKey × EpKey) × List Call)) :=
  runR {} (h.map filterStep)

/-- the tier resources that exist (and are valid) after a raw history: last valid writer wins -/
def tierTable (h : List RawStep) : TierDS := dsHist [] (h.map filterStep)

theorem dsHist_append (ds : TierDS) (a b : List RStep) : dsHist ds (a ++ b) = dsHist (dsHist ds a) b := by
  induction a generalizing ds with
  | nil => rfl
  | cons x a ih => cases x <;> simp only [List.cons_append, dsHist, ih]

/-- `tierTable` is "last valid writer wins": a valid tier update stores (order, default action); a
deletion or an update that fails validation removes the tier; nothing else touches it. -/
theorem tier_table_after (h : List RawStep) (n : String) (v : Option ((Option Int × String) × Bool)) (n' : String) :
    mget (tierTable (h ++ [.ev (.tier n v)])) n' = if n' = n then validated v else mget (tierTable h) n' := by
  unfold tierTable
  rw [List.map_append, dsHist_append]
  simp only [List.map_cons, List.map_nil, filterStep, filterEv, dsHist, dsEvent, dsTier]
  cases hv : validated v with
  | none => simp only [mget_mdel]
  | some x => simp only [mget_mset]

/-- a tier that no update of the history ever mentioned does not exist -/
theorem tier_never_mentioned (h : List RawStep) (n : String)
    (hn : ∀ n' v, RawStep.ev (.tier n' v) ∈ h → n' ≠ n) : mget (tierTable h) n = none := by
  unfold tierTable
  have : ∀ (hs : List RawStep) (ds : TierDS), (∀ n' v, RawStep.ev (.tier n' v) ∈ hs → n' ≠ n) →
      mget (dsHist ds (hs.map filterStep)) n = mget ds n := by
    intro hs
    induction hs with
    | nil => intro ds _; rfl
    | cons x hs ih =>
      intro ds hx
      have hrest := ih
      cases x with
      | flush => exact ih ds (fun n' v hm => hx n' v (List.mem_cons_of_mem _ hm))
      | ev e =>
        simp only [List.map_cons, filterStep, dsHist]
        rw [ih _ (fun n' v hm => hx n' v (List.mem_cons_of_mem _ hm))]
        cases e with
        | tier n' v =>
          have hne : n' ≠ n := hx n' v (List.mem_cons_self ..)
          have hne' : ¬ n = n' := fun e => hne e.symm
          simp only [filterEv, dsEvent, dsTier]
          cases validated v with
          | none => simp only [mget_mdel, hne', if_false]
          | some x => simp only [mget_mset, hne', if_false]
        | endpoint k v => rfl
        | policy k v => rfl
        | status s => rfl
        | matchStarted p e => rfl
        | matchStopped p e => rfl
  rw [this h [] hn]; rfl

/-- **A missing, deleted-while-referenced or invalid TIER fails closed, for every history.**  Take any
raw history (tier / policy / endpoint updates with any validation verdicts, the ARC's match calls,
flushes anywhere), let the resolver be in sync and flush.  Every tier an endpoint is told about carries
the order and default action of the tier resource that currently exists and is valid; a tier that is
only NAMED by a policy — never created, deleted while policies still reference it, or whose latest
version failed validation — is listed with NO order and the EMPTY default action (= deny at the end of
the tier), whatever order / default action (e.g. Pass) it had before.  Its position in the tier list:
after all existing tiers (C03: tiers ascend under `TierLess`, `Valid` first). -/
theorem dangling_tier_fails_closed (h : List RawStep) (r0 : Resolver)
    (outs0 : List (List (PolicyKey × EpKey) × List Call)) (h0 : runPol h = some (r0, outs0))
    (hsync : r0.inSync = true) (r' : Resolver) (calls : List Call) (hf : r0.flush = some (r', calls))
    (e : EpKey) (u : EpUpd) (hu : Call.endpointUpdate e (some u) ∈ calls) (t' : TierInfo) (ht' : t' ∈ u.tiers) :
    match mget (tierTable h) t'.name with
    | some (o, a) => t'.order = o ∧ t'.defaultAction = a
    | none => t'.order = none ∧ t'.defaultAction = "" := by
  have hfull := runR_content RInv.init (h.map filterStep) h0
  have hta := runR_tiers SInv.init TierAttr.init (h.map filterStep) h0
  exact emitted_tier_attrs hfull.sinv hta hsync hf e u hu t' ht'

/-- **… exactly as if the tier had never existed.**  The three ways a tier reference can dangle —
(a) no update ever mentioned the tier, (b) the history ends with its deletion, (c) the history ends
with a version of it that fails validation — give the same tier table entry (none), hence by
`dangling_tier_fails_closed` the same emitted attributes. -/
theorem dangling_same_as_never_existed (h : List RawStep) (n : String) (x : (Option Int × String)) :
    mget (tierTable (h ++ [.ev (.tier n none)])) n = none ∧
    mget (tierTable (h ++ [.ev (.tier n (some (x, false)))])) n = none ∧
    ((∀ n' v, RawStep.ev (.tier n' v) ∈ h → n' ≠ n) → mget (tierTable h) n = none) := by
  refine ⟨?_, ?_, tier_never_mentioned h n⟩
  · rw [tier_table_after]; simp [validated]
  · rw [tier_table_after]; simp [validated]

/-- **Invalid = absent at the level of the emitted endpoint / tier data** (`_partial`: endpoint, policy
and tier kinds, profile rules above; other resource kinds are not modelled): every flush of a raw
history emits exactly the calls it emits when each value that fails validation is replaced by a
deletion of its key.  (This is the filter's contract; what absence then means for the output is
`dangling_tier_fails_closed` and `invalid_policy_not_listed_partial`.) -/
theorem invalid_eq_absent_emitted_partial (h : List RawStep) : runPol h = runPol (h.map asDeleteStep) := by
  unfold runPol
  rw [List.map_map]
  congr 1
  apply List.map_congr_left
  intro s _
  cases s with
  | flush => rfl
  | ev e =>
    simp only [Function.comp, asDeleteStep, filterStep]
    congr 1
    cases e with
    | endpoint k v => match v with
      | none => rfl
      | some (_, true) => rfl
      | some (_, false) => rfl
    | policy k v => match v with
      | none => rfl
      | some (_, true) => rfl
      | some (_, false) => rfl
    | tier n v => match v with
      | none => rfl
      | some (_, true) => rfl
      | some (_, false) => rfl
    | status s => rfl
    | matchStarted p e => rfl
    | matchStopped p e => rfl

/-- the resolver's policy table after a history is "last valid writer wins" -/
def polHist (ps : List (PolicyKey × PolMeta)) : List RStep → List (PolicyKey × PolMeta)
  | [] => ps
  | .ev (.policy k (some p)) :: t => polHist (mset k (extractPolicyMetadata p) ps) t
  | .ev (.policy k none) :: t => polHist (mdel k ps) t
  | _ :: t => polHist ps t

theorem flush_allPolicies {r r' : Resolver} {calls : List Call} (hf : r.flush = some (r', calls)) :
    r'.allPolicies = r.allPolicies := by
  unfold Resolver.flush at hf
  split at hf
  · simp only [Option.some.injEq, Prod.mk.injEq] at hf; rw [← hf.1]
  · dsimp only at hf
    split at hf
    · cases hf
    · simp only [Option.some.injEq, Prod.mk.injEq] at hf; rw [← hf.1]

theorem allPolicies_ite {c : Prop} [Decidable c] (a b : Resolver) :
    (if c then a else b).allPolicies = if c then a.allPolicies else b.allPolicies := by
  split <;> rfl

theorem applyPolicy_allPolicies (r : Resolver) (k : PolicyKey) (m : Option PolMeta) :
    (r.applyPolicy k m).allPolicies = r.allPolicies := by
  unfold Resolver.applyPolicy
  split
  · rfl
  · dsimp only
    split <;> rfl

theorem step_allPolicies (r : Resolver) (e : C03.Event) :
    (r.step e).allPolicies = match e with
      | .policy k (some p) => mset k (extractPolicyMetadata p) r.allPolicies
      | .policy k none => mdel k r.allPolicies
      | _ => r.allPolicies := by
  cases e with
  | endpoint k v => cases v <;> rfl
  | policy k v =>
    cases v with
    | none =>
      show ((r.recordPolicy k none).applyPolicy k _).allPolicies = _
      rw [applyPolicy_allPolicies]; rfl
    | some p =>
      show ((r.recordPolicy k (some p)).applyPolicy k _).allPolicies = _
      rw [applyPolicy_allPolicies]; rfl
  | tier n v => rfl
  | status s => simp only [Resolver.step]; split <;> rfl
  | matchStarted p e => simp only [Resolver.step]; split <;> rfl
  | matchStopped p e => simp only [Resolver.step]; split <;> rfl

theorem runR_allPolicies (hist : List RStep) (r r0 : Resolver)
    (outs : List (List (PolicyKey × EpKey) × List Call)) (hr : runR r hist = some (r0, outs)) :
    r0.allPolicies = polHist r.allPolicies hist := by
  induction hist generalizing r outs with
  | nil => simp only [runR, Option.some.injEq, Prod.mk.injEq] at hr; rw [← hr.1]; rfl
  | cons x hist ih =>
    cases x with
    | ev e =>
      simp only [runR] at hr
      rw [ih _ _ hr, step_allPolicies]
      cases e with
      | policy k v => cases v <;> rfl
      | endpoint k v => rfl
      | tier n v => rfl
      | status s => rfl
      | matchStarted p e => rfl
      | matchStopped p e => rfl
    | flush =>
      simp only [runR] at hr
      cases hf : r.flush with
      | none => rw [hf] at hr; cases hr
      | some rc =>
        obtain ⟨r1, calls⟩ := rc
        rw [hf] at hr
        simp only at hr
        cases h2 : runR r1 hist with
        | none => rw [h2] at hr; cases hr
        | some ro =>
          obtain ⟨r2, outs2⟩ := ro
          rw [h2] at hr
          simp only [Option.some.injEq, Prod.mk.injEq] at hr
          obtain ⟨rfl, _⟩ := hr
          rw [ih _ _ h2, flush_allPolicies hf]
          rfl

/-- the policies that exist (and are valid) after a raw history -/
def polTable (h : List RawStep) : List (PolicyKey × PolMeta) := polHist [] (h.map filterStep)

/-- **A missing / deleted / invalid POLICY is not applied** (`_partial`: for the endpoints a flush
emits, inherited from C03's `emitted_lists_exact_partial`; which endpoints a policy matches is the
ARC's input — that the real ARC stops the matches of a deleted policy is checked by the harness).
After any raw history, in sync, a flush lists policy `p` with metadata `m` in its tier for endpoint
`e` iff `p` currently matches `e` AND `m` is the metadata of the latest VALID version of `p`; in
particular a policy that was deleted, or whose latest version failed validation, is listed nowhere
with any metadata — the endpoint falls through to the tier's default action as if the policy had
never existed. -/
theorem invalid_policy_not_listed_partial (K : PolicyKey → Prop) (hK : KeyU K) (h : List RawStep)
    (hin : HistIn K (h.map filterStep)) (r0 : Resolver)
    (outs0 : List (List (PolicyKey × EpKey) × List Call)) (h0 : runPol h = some (r0, outs0))
    (hsync : r0.inSync = true) (r' : Resolver) (calls : List Call) (hf : r0.flush = some (r', calls))
    (e : EpKey) (u : EpUpd) (hu : Call.endpointUpdate e (some u) ∈ calls) (p : PolicyKey) (m : PolMeta) :
    (∃ t' ∈ u.tiers, t'.name = m.tier ∧ ⟨p, m⟩ ∈ t'.policies) ↔
      ((p, e) ∈ r0.matched ∧ mget (polTable h) p = some m) := by
  have := emitted_lists_exact_partial K hK (h.map filterStep) hin r0 outs0 h0 hsync r' calls hf e u hu p m
  rw [this, runR_allPolicies _ _ _ _ h0]
  rfl

/-- `polTable` is "last valid writer wins" -/
theorem pol_table_after (h : List RawStep) (k : PolicyKey) (v : Option (PolicyIn × Bool)) (k' : PolicyKey) :
    mget (polTable (h ++ [.ev (.policy k v)])) k' =
      if k' = k then (validated v).map extractPolicyMetadata else mget (polTable h) k' := by
  have happ : ∀ (a b : List RStep) (ps : List (PolicyKey × PolMeta)), polHist ps (a ++ b) = polHist (polHist ps a) b := by
    intro a
    induction a with
    | nil => intro b ps; rfl
    | cons x a ih =>
      intro b ps
      cases x with
      | flush => simp only [List.cons_append, polHist, ih]
      | ev e =>
        cases e with
        | policy k v => cases v <;> simp only [List.cons_append, polHist, ih]
        | endpoint k v => simp only [List.cons_append, polHist, ih]
        | tier n v => simp only [List.cons_append, polHist, ih]
        | status s => simp only [List.cons_append, polHist, ih]
        | matchStarted p e => simp only [List.cons_append, polHist, ih]
        | matchStopped p e => simp only [List.cons_append, polHist, ih]
  unfold polTable
  rw [List.map_append, happ]
  simp only [List.map_cons, List.map_nil, filterStep, filterEv]
  cases hv : validated v with
  | none => simp only [polHist, mget_mdel, Option.map_none]
  | some x => simp only [polHist, mget_mset, Option.map_some]

/-! non-vacuity: tier `t1` with default action Pass, a matching policy in it, flush; then the tier is
deleted while the policy still names it, flush: the endpoint is told `t1` with no order and the empty
default action. -/
def exPol : List RawStep :=
  [ .ev (.status true),
    .ev (.tier "t1" (some ((some 100, "Pass"), true))),
    .ev (.endpoint (.wep "1") (some (⟨"cali1", []⟩, true))),
    .ev (.policy ⟨"p1", "", "GlobalNetworkPolicy"⟩ (some (⟨"t1", some 100, false, false, false, []⟩, true))),
    .ev (.matchStarted ⟨"p1", "", "GlobalNetworkPolicy"⟩ (.wep "1")),
    .flush,
    .ev (.tier "t1" none) ]

example : mget (tierTable exPol) "t1" = none := by decide

/-- the (name, order, default action) of the tiers the final flush tells endpoint `e` -/
def finalTiers (h : List RawStep) (e : EpKey) : Option (List (String × Option Int × String)) :=
  match runPol h with
  | some (r0, _) =>
    match r0.flush with
    | some (_, calls) => calls.findSome? (fun c => match c with
        | .endpointUpdate e' (some u) =>
          if e' = e then some (u.tiers.map (fun t => (t.name, t.order, t.defaultAction))) else none
        | _ => none)
    | none => none
  | none => none

example : finalTiers (exPol.take 5) (.wep "1") = some [("t1", some 100, "Pass")] := by decide
example : finalTiers exPol (.wep "1") = some [("t1", none, "")] := by decide

end PolTier

/-! ### non-vacuity: late creation, invalid replacement, deletion while referenced -/

def exHist : List (RawUpd Nat) :=
  [ .endpoint "w1" (some (["p1", "p2"], true)),      -- references p1, p2: both missing
    .profileRules "p1" (some (7, true)),              -- p1 arrives late
    .profileRules "p2" (some (8, false)),             -- p2 arrives but is invalid
    .profileRules "p1" (some (9, false)) ]            -- p1 replaced by an invalid version

example : alGet "p1" (view (runRaw (Arc.new Nat) (exHist.take 1)).out) = some .dummyDrop := by decide
example : alGet "p1" (view (runRaw (Arc.new Nat) (exHist.take 2)).out) = some (.real 7) := by decide
example : alGet "p2" (view (runRaw (Arc.new Nat) (exHist.take 3)).out) = some .dummyDrop := by decide
example : alGet "p1" (view (runRaw (Arc.new Nat) exHist).out) = some .dummyDrop := by decide
example : referenced (runRaw (Arc.new Nat) exHist) "p1" := ⟨"w1", ["p1", "p2"], by decide, by decide⟩
example : alGet "p1" (runRaw (Arc.new Nat) exHist).profiles = none := by decide

end CalicoVerif.C05
