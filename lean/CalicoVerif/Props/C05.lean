import CalicoVerif.Model.C05
namespace CalicoVerif.C05
end CalicoVerif.C05
