import CalicoVerif.Proofs.C24End
import CalicoVerif.Proofs.C24Status
/-!
C24 — Typha clients converge to the datastore view from any join point.

Property theorems only.  Model: `Model/C24.lean` (snapshot cache: `push`, `loopOnce` =
`fillBatchFromInputQueue` + `publishBreadcrumbs`; per-connection sender: `snapshotMsgs`,
`sendDeltas`).  Quantification:
  * `ops : List CacheOp` — ANY stream of syncer updates / status changes pushed to the cache and any
    points at which the cache's loop runs (that fixes how the input is batched into breadcrumbs), with any
    timestamps;
  * `start` — ANY join point (the crumb whose snapshot the client is sent);
  * `cfg`, `lags` — ANY message size, batching-age threshold, fall-behind limit, grace-period state and ANY
    script of how far ahead the cache's newest crumb is each time the sender looks (= any read speed);
  * `m` — any snapshot message size.
A client applies every `kvs` message in order to an initially empty map (`applyDs emptyView …`).
-/
namespace CalicoVerif.C24

inductive CacheOp where
  | push (o : In)
  | loop (ts : Nat)

/-- `loop` with an empty input channel blocks in the real code: no step. -/
def Cache.stepOp (c : Cache) : CacheOp → Cache
  | .push o => push c o
  | .loop ts => if c.inputQ.isEmpty then c else loopOnce c ts

def Cache.run (c : Cache) (ops : List CacheOp) : Cache := ops.foldl Cache.stepOp c

theorem CacheInv.run {c : Cache} (h : CacheInv c) (ops : List CacheOp) : CacheInv (c.run ops) := by
  induction ops generalizing c with
  | nil => exact h
  | cons op ops ih =>
    apply ih
    cases op with
    | push o => exact h.push o
    | loop ts =>
      simp only [Cache.stepOp]
      split
      · exact h
      · exact h.loopOnce ts

/-- The map a client holds after applying a message stream to `m0`. -/
def clientView (m0 : View) (msgs : List Msg) : View := applyDs m0 (kvsConcat msgs)

/-- **Breadcrumb chain invariant**: in every reachable cache, each crumb's snapshot is exactly the
previous crumb's snapshot with the crumb's own deltas applied (skipped no-op updates change neither),
and sequence numbers count up by one. -/
theorem crumb_chain_inv (b : Nat) (ops : List CacheOp) (i : Nat) (x y : Crumb) :
    let chain := ((Cache.new b).run ops).chain
    chain[i]? = some x → chain[i + 1]? = some y →
      asMap y.kvs = applyDs (asMap x.kvs) y.deltas ∧ y.seq = x.seq + 1 := by
  intro chain hx hy
  exact chainOK_link chain ((CacheInv.new b).run ops).chain i x y hx hy

/-- The snapshot a joining client is sent reproduces the crumb's view, whatever the message size. -/
theorem snapshot_gives_crumb_view (b : Nat) (ops : List CacheOp) (start m : Nat) (c : Crumb) :
    ((Cache.new b).run ops).chain[start]? = some c →
      clientView emptyView (snapshotMsgs c m) = asMap c.kvs := by
  intro hc
  have hs : Sorted c.kvs := ((CacheInv.new b).run ops).crumbs_sorted c (List.mem_of_getElem? hc)
  simp only [clientView, snapshot_concat]
  exact applyDs_snapshot c.kvs hs

/-- **No loss, no duplication, no reordering under any batching**: the KVs of the delta messages of a
connection are exactly the deltas of the crumbs `start+1 … p` in order, for some `p` up to the sender's
final position; and if the sender was not disconnected they are (with anything still held) the deltas
up to its final position.  In particular a key's updates reach the client in the order the server
applied them — an older value never follows a newer one. -/
theorem delta_stream_exact (chain : List Crumb) (cfg : SrvCfg) (start : Nat) (lags : List Nat) :
    let r := sendDeltas chain cfg start lags
    (∃ p, start ≤ p ∧ p ≤ r.pos ∧ kvsConcat r.msgs = dB chain start p) ∧
    (r.disconnected = false → kvsConcat r.msgs ++ r.held = dB chain start r.pos) :=
  ⟨(sendDeltas_spec chain cfg start lags).prefix_exact, (sendDeltas_spec chain cfg start lags).exact⟩

/-- **Convergence from any join point**: a client that joined at crumb `start` (snapshot in messages of
any size) and read the delta stream until the sender had nothing more (not disconnected, nothing held
back) holds exactly the view of the crumb the sender reached — for every update history, join point,
batching configuration and read speed. -/
theorem client_converges (b : Nat) (ops : List CacheOp) (start m : Nat) (cfg : SrvCfg) (lags : List Nat)
    (c : Crumb) :
    let chain := ((Cache.new b).run ops).chain
    let r := sendDeltas chain cfg start lags
    chain[start]? = some c → r.disconnected = false → r.held = [] →
      clientView (clientView emptyView (snapshotMsgs c m)) r.msgs = viewAt chain r.pos := by
  intro chain r hc hd hh
  have inv := (CacheInv.new b).run ops
  have hlt : start < chain.length := by
    rcases Nat.lt_or_ge start chain.length with h | h
    · exact h
    · rw [List.getElem?_eq_none h] at hc; cases hc
  have hspec := sendDeltas_spec chain cfg start lags
  have hex := hspec.exact hd
  rw [hh, List.append_nil] at hex
  have hpos : r.pos < chain.length := sendDeltas_pos_lt chain cfg start lags hlt
  obtain ⟨p, hp1, hp2, _⟩ := hspec.prefix_exact
  have hsp : start ≤ r.pos := Nat.le_trans hp1 hp2
  rw [snapshot_gives_crumb_view b ops start m c hc]
  simp only [clientView]
  rw [hex, chain_telescope chain inv.chain start r.pos hsp hpos]
  simp [viewAt, hc]
  rfl

/-- **Consistency at every moment, even for a client that is later disconnected**: what the client holds
after the delta messages is always the exact view of SOME crumb between its join point and the sender's
position — never a mixture. -/
theorem client_view_is_a_crumb_view (b : Nat) (ops : List CacheOp) (start m : Nat) (cfg : SrvCfg)
    (lags : List Nat) (c : Crumb) :
    let chain := ((Cache.new b).run ops).chain
    let r := sendDeltas chain cfg start lags
    chain[start]? = some c →
      ∃ p, start ≤ p ∧ p ≤ r.pos ∧
        clientView (clientView emptyView (snapshotMsgs c m)) r.msgs = viewAt chain p := by
  intro chain r hc
  have inv := (CacheInv.new b).run ops
  have hlt : start < chain.length := by
    rcases Nat.lt_or_ge start chain.length with h | h
    · exact h
    · rw [List.getElem?_eq_none h] at hc; cases hc
  have hpos : (sendDeltas chain cfg start lags).pos < chain.length :=
    sendDeltas_pos_lt chain cfg start lags hlt
  obtain ⟨p, hp1, hp2, hk⟩ := (sendDeltas_spec chain cfg start lags).prefix_exact
  refine ⟨p, hp1, hp2, ?_⟩
  rw [snapshot_gives_crumb_view b ops start m c hc]
  simp only [clientView]
  rw [hk, chain_telescope chain inv.chain start p hp1 (by omega)]
  simp [viewAt, hc]

/-- **In-sync is never announced early**: at every status message `s` of a connection's delta stream, the
client (snapshot + all KV messages before that status) holds exactly the view of a crumb `p ≥ start`
whose status is `s`.  For `s = InSync`: the client is told in-sync only when it holds the snapshot of a
crumb at which the server was in sync. -/
theorem insync_sound (b : Nat) (ops : List CacheOp) (start : Nat) (cfg : SrvCfg) (lags : List Nat) (c : Crumb) :
    let chain := ((Cache.new b).run ops).chain
    let r := sendDeltas chain cfg start lags
    chain[start]? = some c →
      statusesOK (fun acc s => ∃ p, start ≤ p ∧ applyDs (asMap c.kvs) acc = viewAt chain p ∧
        (chain[p]?).map (·.status) = some s) [] r.msgs := by
  intro chain r hc
  have inv := (CacheInv.new b).run ops
  apply statusesOK_mono _ [] r.msgs (sendDeltas_spec chain cfg start lags).statuses
  intro acc s ⟨p, hp, hacc, hst⟩
  refine ⟨p, hp, ?_, hst⟩
  have hpl : p < chain.length := by
    rcases Nat.lt_or_ge p chain.length with h | h
    · exact h
    · rw [List.getElem?_eq_none h] at hst; cases hst
  rw [hacc, chain_telescope chain inv.chain start p hp hpl]
  simp [viewAt, hc]

/-- The status a crumb carries is only ever changed on the LAST chunk of a batch (`publishBreadcrumb`):
a crumb minted while more updates of the same batch are still pending keeps the previous status. -/
theorem status_only_on_last_chunk (c : Cache) (ts : Nat)
    (h : c.pendingUpdates.length > c.maxBatch) :
    (publishBreadcrumb c ts).cur.status = c.cur.status := by
  unfold publishBreadcrumb
  simp only [h, decide_true, Bool.not_true, Bool.false_and, Bool.false_or, if_true]
  split <;> simp

/-- **A client that is not cut off reads to the end**: with MaxMessageSize > 0 and MinBatchingAgeThreshold > 0
(what `Config.ApplyDefaults` enforces), for every chain, join point and "how far behind" script, a sender that
does not disconnect its client walks to the LAST crumb and holds nothing back — no fairness assumption is needed
beyond "the sender keeps running" (the model runs it until `Next` would block). -/
theorem reads_to_end (chain : List Crumb) (cfg : SrvCfg) (start : Nat) (lags : List Nat)
    (hmsg : 0 < cfg.maxMsg) (hage : 0 < cfg.minBatchAge) (hs : start < chain.length) :
    (sendDeltas chain cfg start lags).disconnected = false →
      (sendDeltas chain cfg start lags).pos + 1 = chain.length ∧ (sendDeltas chain cfg start lags).held = [] :=
  sendDeltas_reads_to_end chain cfg start lags hmsg hage hs

/-- **Convergence to the server's CURRENT view**: a client that joined at any crumb and is not disconnected ends
up with exactly the snapshot of the cache's current breadcrumb — unconditionally (no "nothing held" premise). -/
theorem client_converges_to_current (b : Nat) (ops : List CacheOp) (start m : Nat) (cfg : SrvCfg) (lags : List Nat)
    (c : Crumb) (hmsg : 0 < cfg.maxMsg) (hage : 0 < cfg.minBatchAge) :
    let cache := (Cache.new b).run ops
    let r := sendDeltas cache.chain cfg start lags
    cache.chain[start]? = some c → r.disconnected = false →
      clientView (clientView emptyView (snapshotMsgs c m)) r.msgs = asMap cache.cur.kvs := by
  intro cache r hc hd
  have hlt : start < cache.chain.length := by
    rcases Nat.lt_or_ge start cache.chain.length with h | h
    · exact h
    · rw [List.getElem?_eq_none h] at hc; cases hc
  obtain ⟨hpos, hheld⟩ := sendDeltas_reads_to_end cache.chain cfg start lags hmsg hage hlt hd
  have hlen : cache.chain.length = cache.older.length + 1 := by simp [Cache.chain]
  have hlast : (sendDeltas cache.chain cfg start lags).pos = cache.older.length := by omega
  have hcv := client_converges b ops start m cfg lags c hc hd hheld
  refine hcv.trans ?_
  show viewAt cache.chain (sendDeltas cache.chain cfg start lags).pos = _
  rw [hlast]
  simp [viewAt, Cache.chain]

/-! ### cache side: status never precedes its updates -/

theorem storePending_maxBatch (c : Cache) (o : In) : (storePending c o).1.maxBatch = c.maxBatch := by
  cases o <;> rfl

theorem batchLoop_maxBatch (c : Cache) (n : Nat) (q : List In) : (batchLoop c n q).1.maxBatch = c.maxBatch := by
  induction q generalizing c n with
  | nil => rfl
  | cons o q ih =>
    unfold batchLoop
    split
    · rw [ih, storePending_maxBatch]
    · rfl

theorem fillBatch_maxBatch (c : Cache) : (fillBatch c).maxBatch = c.maxBatch := by
  unfold fillBatch
  split
  · rfl
  · show (batchLoop _ _ _).1.maxBatch = _
    rw [batchLoop_maxBatch, storePending_maxBatch]

/-- **In-sync is never attached too early by the cache**: one iteration of `Cache.loop` on any cache satisfying the
invariant.  `b = fillBatch c` holds the updates (`b.pendingUpdates`) and the last status (`b.pendingStatus`)
consumed from the syncer in this iteration.  After publishing:
nothing is left pending; the current crumb's snapshot is (value-wise) the previous tree with EVERY consumed
update applied; every other crumb minted in this iteration still carries the status from before the iteration;
so a status change (e.g. to InSync) is only ever announced on a crumb that already contains all updates the
syncer sent before that status. -/
theorem status_never_precedes_updates (c : Cache) (h : CacheInv c) (hmb : 0 < c.maxBatch) (ts : Nat) :
    let b := fillBatch c
    let c' := loopOnce c ts
    c'.pendingUpdates = [] ∧
    vmap c'.cur.kvs = vfold (vmap b.kvs) b.pendingUpdates ∧
    (∀ x ∈ c'.older, x ∈ b.older ∨ x.status = b.cur.status) ∧
    (c'.cur.status ≠ b.cur.status → c'.cur.status = b.pendingStatus) :=
  publishBreadcrumbs_status h.fillBatch (by rw [fillBatch_maxBatch]; exact hmb) ts

theorem publishBreadcrumb_maxBatch (c : Cache) (ts : Nat) : (publishBreadcrumb c ts).maxBatch = c.maxBatch := by
  unfold publishBreadcrumb
  simp only
  repeat' split
  all_goals rfl

/-- Every reachable cache satisfies the hypotheses of `status_never_precedes_updates`. -/
theorem reachable_cache_ok (bsz : Nat) (ops : List CacheOp) :
    CacheInv ((Cache.new bsz).run ops) ∧ 0 < ((Cache.new bsz).run ops).maxBatch := by
  refine ⟨(CacheInv.new bsz).run ops, ?_⟩
  have h0 : 0 < (Cache.new bsz).maxBatch := by
    simp only [Cache.new]; split <;> omega
  have : ∀ (ops : List CacheOp) (c : Cache), 0 < c.maxBatch → 0 < (c.run ops).maxBatch := by
    intro ops
    induction ops with
    | nil => intro c h; exact h
    | cons op ops ih =>
      intro c h
      apply ih
      cases op with
      | push o =>
        simp only [Cache.stepOp, push]
        split <;> exact h
      | loop ts =>
        simp only [Cache.stepOp]
        split
        · exact h
        · -- publishBreadcrumbs keeps maxBatch
          have hb : 0 < (fillBatch c).maxBatch := by rw [fillBatch_maxBatch]; exact h
          have : (loopOnce c ts).maxBatch = (fillBatch c).maxBatch := by
            unfold loopOnce publishBreadcrumbs
            have key : ∀ (fuel : Nat) (x : Cache) (t : Nat), (publishRest x t fuel).maxBatch = x.maxBatch := by
              intro fuel
              induction fuel with
              | zero => intro x t; rfl
              | succ n ihn =>
                intro x t
                unfold publishRest
                split
                · rfl
                · rw [ihn, publishBreadcrumb_maxBatch]
            rw [key, publishBreadcrumb_maxBatch]
          rw [this]; exact hb
  exact this ops _ h0

/-! ### the current snapshot is the datastore view of everything consumed -/

theorem loopOnce_maxBatch (c : Cache) (ts : Nat) : (loopOnce c ts).maxBatch = c.maxBatch := by
  unfold loopOnce publishBreadcrumbs
  have key : ∀ (fuel : Nat) (x : Cache) (t : Nat), (publishRest x t fuel).maxBatch = x.maxBatch := by
    intro fuel
    induction fuel with
    | zero => intro x t; rfl
    | succ n ihn =>
      intro x t
      unfold publishRest
      split
      · rfl
      · rw [ihn, publishBreadcrumb_maxBatch]
  rw [key, publishBreadcrumb_maxBatch, fillBatch_maxBatch]

theorem storePending_fixed (c : Cache) (o : In) :
    (storePending c o).1.kvs = c.kvs ∧ (storePending c o).1.older = c.older ∧ (storePending c o).1.cur = c.cur := by
  cases o <;> exact ⟨rfl, rfl, rfl⟩

theorem batchLoop_fixed (c : Cache) (n : Nat) (q : List In) :
    (batchLoop c n q).1.kvs = c.kvs ∧ (batchLoop c n q).1.older = c.older ∧ (batchLoop c n q).1.cur = c.cur := by
  induction q generalizing c n with
  | nil => exact ⟨rfl, rfl, rfl⟩
  | cons o q ih =>
    unfold batchLoop
    split
    · obtain ⟨a, b, d⟩ := ih (storePending c o).1 (n + (storePending c o).2)
      obtain ⟨a', b', d'⟩ := storePending_fixed c o
      exact ⟨a.trans a', b.trans b', d.trans d'⟩
    · exact ⟨rfl, rfl, rfl⟩

theorem fillBatch_fixed (c : Cache) :
    (fillBatch c).kvs = c.kvs ∧ (fillBatch c).older = c.older ∧ (fillBatch c).cur = c.cur := by
  unfold fillBatch
  split
  · exact ⟨rfl, rfl, rfl⟩
  · rename_i o q _
    obtain ⟨a, b, d⟩ := batchLoop_fixed (storePending c o).1 (storePending c o).2 q
    obtain ⟨a', b', d'⟩ := storePending_fixed c o
    exact ⟨a.trans a', b.trans b', d.trans d'⟩

/-- The updates the cache takes off its input channel over a run (in order). -/
def consumedBy : Cache → List CacheOp → List SU
  | _, [] => []
  | c, .push o :: ops => consumedBy (push c o) ops
  | c, .loop ts :: ops =>
    if c.inputQ.isEmpty then consumedBy c ops
    else (fillBatch c).pendingUpdates ++ consumedBy (loopOnce c ts) ops

theorem run_current_view (ops : List CacheOp) (c : Cache) (h : CacheInv c) (hmb : 0 < c.maxBatch)
    (hp : c.pendingUpdates = []) :
    vmap (c.run ops).cur.kvs = vfold (vmap c.cur.kvs) (consumedBy c ops) ∧ (c.run ops).pendingUpdates = [] := by
  induction ops generalizing c with
  | nil => exact ⟨rfl, hp⟩
  | cons op ops ih =>
    cases op with
    | push o =>
      have hpush : (push c o).pendingUpdates = [] ∧ (push c o).cur = c.cur ∧ (push c o).maxBatch = c.maxBatch := by
        unfold push; split <;> exact ⟨hp, rfl, rfl⟩
      have := ih (push c o) (h.push o) (by rw [hpush.2.2]; exact hmb) hpush.1
      simp only [Cache.run, List.foldl_cons, Cache.stepOp, consumedBy] at this ⊢
      rw [hpush.2.1] at this
      exact this
    | loop ts =>
      simp only [Cache.run, List.foldl_cons, Cache.stepOp, consumedBy]
      split
      · exact ih c h hmb hp
      · obtain ⟨s1, s2, _, _⟩ := status_never_precedes_updates c h hmb ts
        have := ih (loopOnce c ts) (h.loopOnce ts) (by rw [loopOnce_maxBatch]; exact hmb) s1
        simp only [Cache.run] at this
        refine ⟨?_, this.2⟩
        rw [this.1, s2, vfold_append, (fillBatch_fixed c).1, vmap_of_asMap _ _ h.cur_view]

/-- **The current snapshot is the datastore view**: over any run, the cache's current breadcrumb holds
(value-wise; a skipped no-op keeps the older revision) exactly the fold of EVERY update the cache has taken off its
input channel, and nothing is left pending between loop iterations.  With `client_converges_to_current`: a client
that is not cut off ends with the datastore view of everything Typha has consumed. -/
theorem current_snapshot_is_datastore (bsz : Nat) (ops : List CacheOp) :
    vmap ((Cache.new bsz).run ops).cur.kvs = vfold (fun _ => none) (consumedBy (Cache.new bsz) ops) ∧
      ((Cache.new bsz).run ops).pendingUpdates = [] := by
  have h0 : 0 < (Cache.new bsz).maxBatch := by
    simp only [Cache.new]; split <;> omega
  exact run_current_view ops (Cache.new bsz) (CacheInv.new bsz) h0 rfl

/-! ### per key, the client sees a contiguous segment of what the cache applied -/

/-- The updates of a list that concern key `k`, in order. -/
def keySeq (k : Nat) (l : List SU) : List SU := l.filter (fun u => u.key == k)

theorem keySeq_append (k : Nat) (a b : List SU) : keySeq k (a ++ b) = keySeq k a ++ keySeq k b := by
  simp [keySeq]

/-- The first crumb of every reachable chain is the empty start-of-day crumb. -/
theorem chain_head_empty (bsz : Nat) (ops : List CacheOp) :
    ∃ c0, ((Cache.new bsz).run ops).chain[0]? = some c0 ∧ c0.kvs = [] := by
  have key : ∀ (ops : List CacheOp) (c : Cache), (∃ c0, c.chain[0]? = some c0 ∧ c0.kvs = []) →
      ∃ c0, (c.run ops).chain[0]? = some c0 ∧ c0.kvs = [] := by
    intro ops
    induction ops with
    | nil => intro c h; exact h
    | cons op ops ih =>
      intro c h
      apply ih
      -- one op keeps the head of the chain
      have hpb : ∀ (x : Cache) (t : Nat), (∃ c0, x.chain[0]? = some c0 ∧ c0.kvs = []) →
          ∃ c0, (publishBreadcrumb x t).chain[0]? = some c0 ∧ c0.kvs = [] := by
        intro x t ⟨c0, h0, hk⟩
        refine ⟨c0, ?_, hk⟩
        have hmint : ∀ n : Crumb, ((x.older ++ [x.cur]) ++ [n])[0]? = some c0 := by
          intro n
          rw [List.getElem?_append_left (by simp)]
          exact h0
        unfold publishBreadcrumb
        simp only
        repeat' split
        all_goals first
          | exact h0
          | exact hmint _
      have hrest : ∀ (fuel : Nat) (x : Cache) (t : Nat), (∃ c0, x.chain[0]? = some c0 ∧ c0.kvs = []) →
          ∃ c0, (publishRest x t fuel).chain[0]? = some c0 ∧ c0.kvs = [] := by
        intro fuel
        induction fuel with
        | zero => intro x t hx; exact hx
        | succ n ihn =>
          intro x t hx
          unfold publishRest
          split
          · exact hx
          · exact ihn _ _ (hpb x t hx)
      cases op with
      | push o =>
        simp only [Cache.stepOp, push]
        split <;> exact h
      | loop ts =>
        simp only [Cache.stepOp]
        split
        · exact h
        · unfold loopOnce publishBreadcrumbs
          apply hrest
          apply hpb
          obtain ⟨c0, h0, hk⟩ := h
          refine ⟨c0, ?_, hk⟩
          simp only [Cache.chain, (fillBatch_fixed c).2.1, (fillBatch_fixed c).2.2]
          exact h0
  exact key ops _ ⟨(Cache.new bsz).cur, by simp [Cache.chain, Cache.new], rfl⟩

/-- **Per key, never an older value after a newer one**: let `all` be every delta the cache ever applied, in order.
For each key `k`, what the client receives for `k` is: the snapshot entry, which is the result of applying the
prefix `keySeq k (deltas up to the join point)`, followed by `keySeq k` of its delta messages, which is exactly the
NEXT contiguous stretch of `keySeq k all` (everything up to some crumb `p`; up to the end if it is not cut off).
So the client's per-key sequence is a contiguous continuation of the cache's applied sequence: no older value can
follow a newer one, and none is skipped in between. -/
theorem per_key_order (bsz : Nat) (ops : List CacheOp) (start : Nat) (cfg : SrvCfg) (lags : List Nat) (c : Crumb)
    (k : Nat) :
    let chain := ((Cache.new bsz).run ops).chain
    let r := sendDeltas chain cfg start lags
    chain[start]? = some c →
      ∃ p, start ≤ p ∧ p ≤ r.pos ∧ p < chain.length ∧
        keySeq k (dB chain 0 (chain.length - 1)) =
          keySeq k (dB chain 0 start) ++ keySeq k (kvsConcat r.msgs) ++ keySeq k (dB chain p (chain.length - 1)) ∧
        asMap c.kvs k = applyDs emptyView (dB chain 0 start) k := by
  intro chain r hc
  have inv := (CacheInv.new bsz).run ops
  have hlt : start < chain.length := by
    rcases Nat.lt_or_ge start chain.length with h | h
    · exact h
    · rw [List.getElem?_eq_none h] at hc; cases hc
  have hpos : (sendDeltas chain cfg start lags).pos < chain.length := sendDeltas_pos_lt chain cfg start lags hlt
  obtain ⟨p, hp1, hp2, hk⟩ := (sendDeltas_spec chain cfg start lags).prefix_exact
  refine ⟨p, hp1, hp2, by omega, ?_, ?_⟩
  · show _ = keySeq k (dB chain 0 start) ++ keySeq k (kvsConcat (sendDeltas chain cfg start lags).msgs) ++ _
    rw [hk, ← keySeq_append, ← keySeq_append, dB_split chain 0 start p (Nat.zero_le _) hp1,
      dB_split chain 0 p (chain.length - 1) (Nat.zero_le _) (by omega)]
  · obtain ⟨c0, h0, hk0⟩ := chain_head_empty bsz ops
    have ht := chain_telescope chain inv.chain 0 start (Nat.zero_le _) hlt
    have hv0 : viewAt chain 0 = emptyView := by
      funext x
      simp only [viewAt]
      rw [show chain[0]? = some c0 from h0]
      simp [hk0, asMap, kvsGet, emptyView]
    have hvs : viewAt chain start = asMap c.kvs := by simp [viewAt, hc]
    rw [← hvs, ht, hv0]

/-! ### non-vacuity -/

/-- A history with a no-op skip, a deletion, a batch split over two crumbs and a late InSync. -/
def demoOps : List CacheOp :=
  [ .push (.ups [⟨1, some 10, 1, 1⟩, ⟨2, some 20, 2, 1⟩, ⟨3, some 30, 3, 1⟩]), .loop 10,
    .push (.ups [⟨2, some 20, 4, 2⟩, ⟨1, none, 5, 3⟩]), .push (.st stInSync), .loop 500,
    .push (.ups [⟨4, some 40, 6, 1⟩]), .loop 1000 ]

def demoChain : List Crumb := ((Cache.new 2).run demoOps).chain

example : demoChain.map (fun c => (c.seq, c.status, c.deltas.length, c.kvs.length)) =
    [(0, 0, 0, 0), (1, 0, 2, 2), (2, 0, 1, 3), (3, 0, 1, 2), (4, 2, 1, 3)] := by decide

/-- A client joining at crumb 1 with a sender that coalesces (always 3 crumbs behind) reads to the end:
hypotheses of `client_converges` hold, in-sync is announced after the deletion reached it. -/
example :
    let r := sendDeltas demoChain ⟨100, 100, 100000, false⟩ 1 [3, 3, 3]
    r.disconnected = false ∧ r.held = [] ∧ r.pos = 4 ∧
      r.msgs = [.kvs [⟨3, some 30, 3, 1⟩, ⟨1, none, 5, 3⟩, ⟨4, some 40, 6, 1⟩], .status stInSync] := by
  decide

/-- A slow client past the grace period is disconnected (the `disconnected` branch is reachable). -/
example : (sendDeltas demoChain ⟨100, 100, 50, true⟩ 0 [4]).disconnected = true := by decide

end CalicoVerif.C24
