import CalicoVerif.Proofs.C36Hist
import CalicoVerif.Proofs.C36V6
/-!
C36 — CIDR trie lookups agree with plain prefix arithmetic.

Property theorems only (lemmas: `CalicoVerif.Proofs.C36Arith/Pfx/Trie/Query`).
`W` is the address width (32 / 128); `run W ops` is the trie after the history
`ops` of `Update`/`Delete` calls on `NewCIDRTrie()`; `(run W ops).toList` are the
stored prefixes; `specRun ops` is the plain association-list map after the same
history.  `Pfx.covers` is plain prefix arithmetic (length and top bits).
-/
namespace CalicoVerif.C36
variable {W : Nat} {α : Type}
open Node

/-- **Representation invariant**: after ANY history of masked-CIDR updates and
deletes the trie is well formed (children refine the parent by the next bit;
no data-less node with fewer than two children). -/
theorem trie_inv_reachable (ops : List (Op α)) (h : ∀ o ∈ ops, Op.WF W o) : (run W ops).Inv W :=
  (foldl_refines ops .nil [] h trivial (fun q w => by simp [toList, SMap.find])).1

/-- **Contents**: after any history the stored prefixes are exactly the plain map. -/
theorem contents_eq_spec (ops : List (Op α)) (h : ∀ o ∈ ops, Op.WF W o) (q : Pfx) (w : α) :
    (q, w) ∈ (run W ops).toList ↔ (specRun ops).find q = some w :=
  (foldl_refines ops .nil [] h trivial (fun q w => by simp [toList, SMap.find])).2 q w

/-- **Exact lookup** (`Get`) after any history = lookup in the plain map. -/
theorem get_eq_spec (ops : List (Op α)) (h : ∀ o ∈ ops, Op.WF W o) (q : Pfx) (hq : q.WF W) :
    (run W ops).get W q = (specRun ops).find q := by
  apply Option.ext
  intro w
  rw [get_iff (trie_inv_reachable ops h) hq, contents_eq_spec ops h]

/-! ### queries on any reachable trie (`t.Inv W` holds for every history by `trie_inv_reachable`) -/

/-- **Covers** = some stored prefix contains the query CIDR. -/
theorem covers_eq_spec {t : Node α} (hi : t.Inv W) {q : Pfx} (hq : q.WF W) :
    t.covers W q = SMap.covers W t.toList q := by
  rw [Bool.eq_iff_iff, tcovers_iff hi hq]
  simp [SMap.covers, List.any_eq_true]

/-- **Intersects** = some stored prefix lies inside the query CIDR (that is what
the Go code computes; it is one half of "overlaps", see `overlap_eq_spec`). -/
theorem intersects_eq_spec {t : Node α} (hi : t.Inv W) {q : Pfx} (hq : q.WF W) :
    t.intersects W q = SMap.within W t.toList q := by
  rw [Bool.eq_iff_iff, tintersects_iff hi hq]
  simp [SMap.within, List.any_eq_true]

/-- **Overlap** as the IP-pool controller composes it (`Get != nil || Intersects || Covers`)
= some stored prefix shares an address with the query CIDR. -/
theorem overlap_eq_spec {t : Node α} (hi : t.Inv W) {q : Pfx} (hq : q.WF W) :
    ((t.get W q).isSome || t.intersects W q || t.covers W q) = SMap.overlaps W t.toList q := by
  rw [Bool.eq_iff_iff]
  simp only [Bool.or_eq_true, tintersects_iff hi hq, tcovers_iff hi hq, SMap.overlaps, List.any_eq_true,
    Pfx.overlaps, Option.isSome_iff_exists, get_iff hi hq]
  constructor
  · rintro ((⟨v, h⟩ | ⟨p, v, h1, h2⟩) | ⟨p, v, h1, h2⟩)
    · exact ⟨(q, v), h, Or.inl (covers_refl hq)⟩
    · exact ⟨(p, v), h1, Or.inr h2⟩
    · exact ⟨(p, v), h1, Or.inl h2⟩
  · rintro ⟨⟨p, v⟩, h1, h2 | h2⟩
    · exact Or.inr ⟨p, v, h1, h2⟩
    · exact Or.inl (Or.inr ⟨p, v, h1, h2⟩)

/-- **CoveredBy** = every stored prefix lies inside the query CIDR; on the empty
trie the Go code dereferences a nil root (`none`). -/
theorem coveredBy_eq_spec {t : Node α} (hi : t.Inv W) {q : Pfx} (hq : q.WF W) :
    t.coveredBy W q = if t.isNil then none else some (SMap.coveredBy W t.toList q) := by
  cases t with
  | nil => rfl
  | node c d l r =>
    simp only [Node.coveredBy, isNil, Bool.false_eq_true, if_false, Option.some.injEq]
    rw [Bool.eq_iff_iff, decide_eq_true_eq, commonPrefix_eq_right_iff hi.1 hq, root_covered_iff hi hq]
    simp [SMap.coveredBy, List.all_eq_true]

/-- **LPM, proved part (most general form)**: whenever the walk of `LPM(q)` meets no node
longer than `q` (`WalkOk`), `LPM` returns exactly the longest stored prefix containing the
query, and nothing iff no stored prefix contains it.  (Without a guard the statement is false
of the code: `lpm_cidr_counterexample`.) -/
theorem lpm_walk_eq_spec_partial {t : Node α} (hi : t.Inv W) {q : Pfx} (hq : q.WF W) (hs : WalkOk W t q) :
    (∀ p v, t.lpm W q = some (p, v) → IsLpm W t.toList q p v) ∧
    (t.lpm W q = none ↔ ∀ p v, (p, v) ∈ t.toList → ¬ p.covers W q = true) ∧
    (∀ p v, IsLpm W t.toList q p v → t.lpm W q = some (p, v)) := by
  have key := lpmGo_spec hi hq hs none
  have uniq : ∀ p v p' v', IsLpm W t.toList q p v → IsLpm W t.toList q p' v' → (p, v) = (p', v') := by
    intro p v p' v' h1 h2
    have a := h1.2.2 p' v' h2.1 h2.2.1
    have b := h2.2.2 p v h1.1 h1.2.1
    have hp := Inv.mem_wf hi h1.1
    have hp' := Inv.mem_wf hi h2.1
    have e : p = p' := covers_antisymm hp hp' (covers_linear hp hp' hq h1.2.1 h2.2.1 b)
      (covers_linear hp' hp hq h2.2.1 h1.2.1 a)
    subst e
    rw [toList_functional hi h1.1 h2.1]
  unfold Node.lpm
  rcases key with ⟨p, v, h1, h2⟩ | ⟨h1, h2⟩
  · refine ⟨fun p' v' h => ?_, ?_, fun p' v' h => ?_⟩
    · rw [h1] at h; cases h; exact h2
    · rw [h1]; simp only [reduceCtorEq, false_iff]
      intro h; exact h p v h2.1 h2.2.1
    · rw [h1, uniq p v p' v' h2 h]
  · refine ⟨fun p' v' h => ?_, ?_, fun p' v' h => ?_⟩
    · rw [h1] at h; cases h
    · rw [h1]; simp only [true_iff]; exact h2
    · exact absurd h.2.1 (h2 p' v' h.1)

/-- **LPM when no longer node contains the query's base address** (`LpmSafe`). -/
theorem lpm_safe_eq_spec_partial {t : Node α} (hi : t.Inv W) {q : Pfx} (hq : q.WF W) (hs : LpmSafe W t q) :
    (∀ p v, t.lpm W q = some (p, v) → IsLpm W t.toList q p v) ∧
    (t.lpm W q = none ↔ ∀ p v, (p, v) ∈ t.toList → ¬ p.covers W q = true) ∧
    (∀ p v, IsLpm W t.toList q p v → t.lpm W q = some (p, v)) :=
  lpm_walk_eq_spec_partial hi hq (walkOk_of_lpmSafe hs)

/-- **LPM for single addresses** (`/32`, `/128` — every production caller): the guard always holds. -/
theorem lpm_host_eq_spec_partial {t : Node α} (hi : t.Inv W) {q : Pfx} (hq : q.WF W) (hh : q.len = W) :
    (∀ p v, t.lpm W q = some (p, v) → IsLpm W t.toList q p v) ∧
    (t.lpm W q = none ↔ ∀ p v, (p, v) ∈ t.toList → ¬ p.covers W q = true) ∧
    (∀ p v, IsLpm W t.toList q p v → t.lpm W q = some (p, v)) :=
  lpm_safe_eq_spec_partial hi hq (lpmSafe_of_host hi hh)

/-- **LPM for a query that is a node of the trie** (a stored CIDR, or the CIDR of a data-less
intermediate node): the walk stops at that node, so the answer is again exactly the longest
stored prefix containing the query.  Together with `lpm_host_eq_spec_partial` this delimits
the defect: `LPM` can only be wrong for a non-single-address query that is NOT a node. -/
theorem lpm_node_eq_spec_partial {t : Node α} (hi : t.Inv W) {q : Pfx} (hq : q.WF W) {c' d' l' r'}
    (hn : t.getNode W q = .node c' d' l' r') :
    (∀ p v, t.lpm W q = some (p, v) → IsLpm W t.toList q p v) ∧
    (t.lpm W q = none ↔ ∀ p v, (p, v) ∈ t.toList → ¬ p.covers W q = true) ∧
    (∀ p v, IsLpm W t.toList q p v → t.lpm W q = some (p, v)) :=
  lpm_walk_eq_spec_partial hi hq (walkOk_of_getNode hi hn)

/-- In particular for every STORED query CIDR. -/
theorem lpm_stored_eq_spec_partial {t : Node α} (hi : t.Inv W) {q : Pfx} (hq : q.WF W) {v : α}
    (hs : (q, v) ∈ t.toList) : t.lpm W q = some (q, v) := by
  obtain ⟨c', d', l', r', hn⟩ := getNode_of_mem hi hq hs
  refine (lpm_node_eq_spec_partial hi hq hn).2.2 q v ⟨hs, covers_refl hq, fun p' v' hm hx => ?_⟩
  exact covers_len (Inv.mem_wf hi hm) hq hx

/-- **LPM is wrong for non-single-address queries** (Lean witness of the negation
of the full statement; reproduced on the real code by the harness oracle,
signature `lpm-cidr-not-covering`): with only 10.0.0.0/14 stored,
`LPM(10.0.0.0/7)` returns 10.0.0.0/14, which does not contain 10.0.0.0/7. -/
theorem lpm_cidr_counterexample :
    let t := run 32 [Op.upd ⟨0x0a000000, 14⟩ (1 : Nat)]
    let q : Pfx := ⟨0x0a000000, 7⟩
    q.WF 32 ∧ t.lpm 32 q = some (⟨0x0a000000, 14⟩, 1) ∧ (⟨0x0a000000, 14⟩ : Pfx).covers 32 q = false := by
  decide

/-- **ClosestDescendants of a stored CIDR** (the documented precondition "the given CIDR in
the trie") lists exactly the stored prefixes strictly inside it that have no other stored
prefix strictly in between — `SMap.closest` computed directly over the stored prefixes. -/
theorem closestDescendants_eq_spec {t : Node α} (hi : t.Inv W) {q : Pfx} (hq : q.WF W) {v : α}
    (hs : (q, v) ∈ t.toList) (p : Pfx) :
    p ∈ t.closestDescendants W q ↔ p ∈ SMap.closest W t.toList q := by
  obtain ⟨c', d', l', r', hg⟩ := getNode_of_mem hi hq hs
  rw [closestDescendants_iff hi hq hg]
  simp only [SMap.closest, List.mem_map, List.mem_filter, Bool.and_eq_true, decide_eq_true_eq,
    Bool.not_eq_true', List.any_eq_false, Prod.exists, exists_and_right, exists_eq_right]
  constructor
  · rintro ⟨hm, h1, h2, h3⟩
    refine ⟨hm, ⟨h1, h2⟩, fun x hx hc => ?_⟩
    exact hc.1.1.2 (h3 x.1 x.2 hx hc.1.2 hc.1.1.1 hc.2)
  · rintro ⟨hm, ⟨h1, h2⟩, h3⟩
    refine ⟨hm, h1, h2, fun r w hr hqr hne hrp => ?_⟩
    by_cases e : r = p
    · exact e
    · exact absurd ⟨⟨⟨hne, e⟩, hqr⟩, hrp⟩ (h3 (r, w) hr)

/-- **ClosestDescendants of a CIDR that is not a node of the trie** is empty (Go: `getNode`
returns nil) — even if stored prefixes lie inside it; see `closestDescendants_unstored_example`. -/
theorem closestDescendants_not_node {t : Node α} {q : Pfx} (h : t.getNode W q = .nil) :
    t.closestDescendants W q = [] := by
  unfold closestDescendants; rw [h]

/-- The Go recursion `t.ClosestDescendants(buf, child.cidr)` (a fresh walk from the root)
gives what the model's structural recursion `closestOf child` gives, for every data-less node. -/
theorem closestDescendants_recursion_justified {t : Node α} (hi : t.Inv W) {c' : Pfx} {l' r' : Node α}
    (hs : Subtree (node c' none l' r') t) :
    t.closestDescendants W c' = (node c' none l' r').closestOf := by
  unfold closestDescendants
  rw [getNode_subtree hs hi rfl]
  rfl

/-- **LookupPath** of a stored CIDR = the stored prefixes enclosing it, outermost first
(the order of `ToSlice`); of a CIDR that is not stored = empty. -/
theorem lookupPath_eq_spec {t : Node α} (hi : t.Inv W) {q : Pfx} (hq : q.WF W) :
    t.lookupPath W q = if (t.get W q).isSome then SMap.path W t.toList q else [] := by
  unfold lookupPath
  rw [lookupPathGo_spec hi hq]
  simp [SMap.path]

/-! ### every query, composed over histories: the answer after ANY history of updates and
deletes is the direct computation over the plain map `specRun ops` after the same history -/

/-- The stored prefixes of the trie after a history ARE the plain map after that history. -/
theorem stored_iff_spec (ops : List (Op α)) (h : ∀ o ∈ ops, Op.WF W o) (x : Pfx × α) :
    x ∈ (run W ops).toList ↔ x ∈ specRun ops := by
  obtain ⟨q, w⟩ := x
  rw [contents_eq_spec ops h, SMap.find_iff_mem (specRun_keysNodup ops)]

theorem covers_history (ops : List (Op α)) (h : ∀ o ∈ ops, Op.WF W o) {q : Pfx} (hq : q.WF W) :
    (run W ops).covers W q = SMap.covers W (specRun ops) q := by
  rw [covers_eq_spec (trie_inv_reachable ops h) hq]
  exact any_congr_mem _ (stored_iff_spec ops h)

theorem intersects_history (ops : List (Op α)) (h : ∀ o ∈ ops, Op.WF W o) {q : Pfx} (hq : q.WF W) :
    (run W ops).intersects W q = SMap.within W (specRun ops) q := by
  rw [intersects_eq_spec (trie_inv_reachable ops h) hq]
  exact any_congr_mem _ (stored_iff_spec ops h)

theorem overlap_history (ops : List (Op α)) (h : ∀ o ∈ ops, Op.WF W o) {q : Pfx} (hq : q.WF W) :
    (((run W ops).get W q).isSome || (run W ops).intersects W q || (run W ops).covers W q)
      = SMap.overlaps W (specRun ops) q := by
  rw [overlap_eq_spec (trie_inv_reachable ops h) hq]
  exact any_congr_mem _ (stored_iff_spec ops h)

theorem coveredBy_history (ops : List (Op α)) (h : ∀ o ∈ ops, Op.WF W o) {q : Pfx} (hq : q.WF W) :
    (run W ops).coveredBy W q =
      if (specRun ops).isEmpty then none else some (SMap.coveredBy W (specRun ops) q) := by
  have hi := trie_inv_reachable ops h
  rw [coveredBy_eq_spec hi hq]
  have hnil : (run W ops).isNil = (specRun ops).isEmpty := by
    cases ht : (run W ops).isNil with
    | true =>
      have : (run W ops) = .nil := by cases hr : run W ops <;> simp_all [Node.isNil]
      symm
      rw [List.isEmpty_iff, List.eq_nil_iff_forall_not_mem]
      intro x hx
      have := (stored_iff_spec ops h x).2 hx
      simp_all [Node.toList]
    | false =>
      obtain ⟨p, v, hm⟩ := Inv.exists_mem hi ht
      have := (stored_iff_spec ops h (p, v)).1 hm
      symm
      cases hs : specRun ops with
      | nil => rw [hs] at this; cases this
      | cons _ _ => rfl
  rw [hnil]
  split
  · rfl
  · unfold SMap.coveredBy; rw [all_congr_mem _ (stored_iff_spec ops h)]

/-- LPM of a single address after any history = the longest prefix of the plain map containing it. -/
theorem lpm_host_history_partial (ops : List (Op α)) (h : ∀ o ∈ ops, Op.WF W o) {q : Pfx} (hq : q.WF W)
    (hh : q.len = W) :
    (∀ p v, (run W ops).lpm W q = some (p, v) ↔ IsLpm W (specRun ops) q p v) ∧
    ((run W ops).lpm W q = none ↔ ∀ p v, (p, v) ∈ specRun ops → ¬ p.covers W q = true) := by
  have k := lpm_host_eq_spec_partial (trie_inv_reachable ops h) hq hh
  have tr : ∀ p v, IsLpm W (run W ops).toList q p v ↔ IsLpm W (specRun ops) q p v := by
    intro p v
    unfold IsLpm
    rw [stored_iff_spec ops h (p, v)]
    constructor
    · rintro ⟨a, b, c⟩; exact ⟨a, b, fun p' v' hm => c p' v' ((stored_iff_spec ops h (p', v')).2 hm)⟩
    · rintro ⟨a, b, c⟩; exact ⟨a, b, fun p' v' hm => c p' v' ((stored_iff_spec ops h (p', v')).1 hm)⟩
  refine ⟨fun p v => ⟨fun e => (tr p v).1 (k.1 p v e), fun e => k.2.2 p v ((tr p v).2 e)⟩, ?_⟩
  rw [k.2.1]
  constructor
  · intro H p v hm; exact H p v ((stored_iff_spec ops h (p, v)).2 hm)
  · intro H p v hm; exact H p v ((stored_iff_spec ops h (p, v)).1 hm)

theorem closestDescendants_history (ops : List (Op α)) (h : ∀ o ∈ ops, Op.WF W o) {q : Pfx} (hq : q.WF W)
    {v : α} (hs : (q, v) ∈ specRun ops) (p : Pfx) :
    p ∈ (run W ops).closestDescendants W q ↔ p ∈ SMap.closest W (specRun ops) q := by
  rw [closestDescendants_eq_spec (trie_inv_reachable ops h) hq ((stored_iff_spec ops h (q, v)).2 hs)]
  exact closest_congr_mem (stored_iff_spec ops h) q p

theorem lookupPath_history (ops : List (Op α)) (h : ∀ o ∈ ops, Op.WF W o) {q : Pfx} (hq : q.WF W)
    (e : Pfx × α) :
    e ∈ (run W ops).lookupPath W q ↔ ((specRun ops).find q).isSome = true ∧ e ∈ SMap.path W (specRun ops) q := by
  rw [lookupPath_eq_spec (trie_inv_reachable ops h) hq, get_eq_spec ops h q hq]
  split
  · rename_i hsome
    simp only [hsome, true_and, SMap.path, List.mem_filter, stored_iff_spec ops h e]
  · rename_i hnone
    simp [hnone]

/-- **IPv6 arithmetic**: `V6CommonPrefix` as written (two `uint64` halves, shifts by ≥ 64
giving 0, unmasked high half when the prefix is short) equals the width-128 common prefix
that the trie theorems are about, for all masked CIDRs. -/
theorem v6CommonPrefix_eq_generic {a b : Pfx} (ha : a.WF 128) (hb : b.WF 128) :
    v6CommonPrefix a b = commonPrefix 128 a b := v6CommonPrefix_eq ha hb

/-- **IPv6 arithmetic**: `ContainsV6` as written (two halves) equals the width-128 `Contains`. -/
theorem v6Contains_eq_generic {c : Pfx} {a : Nat} (hc : c.addr < 2 ^ 128) (ha : a < 2 ^ 128) :
    v6Contains c a = c.contains 128 a := v6Contains_eq hc ha

/-- **IPv6 arithmetic**: `V6Addr.NthBit` as written (two halves) equals the width-128 `NthBit`. -/
theorem v6NthBit_eq_generic (a n : Nat) : v6NthBit a n = nthBit 128 a n := v6NthBit_eq a n

/-! ### non-vacuity -/

/-- A three-prefix history producing an intermediate node satisfies every hypothesis above. -/
def exOps : List (Op Nat) :=
  [.upd ⟨0x0a000100, 24⟩ 1, .upd ⟨0x0a000201, 32⟩ 2, .upd ⟨0x0a000000, 16⟩ 3, .del ⟨0x0a000000, 16⟩]

example : ∀ o ∈ exOps, Op.WF 32 o := by decide
example : (run 32 exOps).toList = [(⟨0x0a000100, 24⟩, 1), (⟨0x0a000201, 32⟩, 2)] := by decide
example : (run 32 exOps).covers 32 ⟨0x0a000105, 32⟩ = true := by decide
example : (run 32 exOps).intersects 32 ⟨0x0a000000, 8⟩ = true := by decide
example : (run 32 exOps).lpm 32 ⟨0x0a000105, 32⟩ = some (⟨0x0a000100, 24⟩, 1) := by decide
example : (run 32 exOps).coveredBy 32 ⟨0x0a000000, 22⟩ = some true := by decide
example : (⟨0x0a000105, 32⟩ : Pfx).WF 32 ∧ (⟨0x0a000105, 32⟩ : Pfx).len = 32 := by decide

end CalicoVerif.C36

namespace CalicoVerif.C36
/-- Limit of `closestDescendants_eq_spec`: for a query that is not a node of the trie the
listing is empty although two stored prefixes lie inside it (10.0.0.0/8 over
{10.0.1.0/24, 10.0.2.1/32}).  The Go doc comment restricts the function to CIDRs in the trie. -/
theorem closestDescendants_unstored_example :
    (run 32 exOps).closestDescendants 32 ⟨0x0a000000, 8⟩ = [] ∧
    SMap.closest 32 (run 32 exOps).toList ⟨0x0a000000, 8⟩ = [⟨0x0a000100, 24⟩, ⟨0x0a000201, 32⟩] := by
  decide

example : (run 32 (exOps ++ [.upd ⟨0x0a000000, 16⟩ 4])).closestDescendants 32 ⟨0x0a000000, 16⟩
    = [⟨0x0a000100, 24⟩, ⟨0x0a000201, 32⟩] := by decide
example : (run 32 exOps).lpm 32 ⟨0x0a000100, 24⟩ = some (⟨0x0a000100, 24⟩, 1) := by decide
example : (run 32 exOps).lookupPath 32 ⟨0x0a000201, 32⟩ = [(⟨0x0a000201, 32⟩, 2)] := by decide
example : LpmSafe 32 (run 32 exOps) ⟨0x0a000105, 32⟩ := lpmSafe_of_host (trie_inv_reachable _ (by decide)) rfl
end CalicoVerif.C36
