import CalicoVerif.Proofs.C36Hist
/-!
C36 — CIDR trie lookups agree with plain prefix arithmetic.

Property theorems only (lemmas: `CalicoVerif.Proofs.C36Arith/Pfx/Trie/Query`).
`W` is the address width (32 / 128); `run W ops` is the trie after the history
`ops` of `Update`/`Delete` calls on `NewCIDRTrie()`; `(run W ops).toList` are the
stored prefixes; `specRun ops` is the plain association-list map after the same
history.  `Pfx.covers` is plain prefix arithmetic (length and top bits).
-/
namespace CalicoVerif.C36
variable {W : Nat} {α : Type}
open Node

/-- **Representation invariant**: after ANY history of masked-CIDR updates and
deletes the trie is well formed (children refine the parent by the next bit;
no data-less node with fewer than two children). -/
theorem trie_inv_reachable (ops : List (Op α)) (h : ∀ o ∈ ops, Op.WF W o) : (run W ops).Inv W :=
  (foldl_refines ops .nil [] h trivial (fun q w => by simp [toList, SMap.find])).1

/-- **Contents**: after any history the stored prefixes are exactly the plain map. -/
theorem contents_eq_spec (ops : List (Op α)) (h : ∀ o ∈ ops, Op.WF W o) (q : Pfx) (w : α) :
    (q, w) ∈ (run W ops).toList ↔ (specRun ops).find q = some w :=
  (foldl_refines ops .nil [] h trivial (fun q w => by simp [toList, SMap.find])).2 q w

/-- **Exact lookup** (`Get`) after any history = lookup in the plain map. -/
theorem get_eq_spec (ops : List (Op α)) (h : ∀ o ∈ ops, Op.WF W o) (q : Pfx) (hq : q.WF W) :
    (run W ops).get W q = (specRun ops).find q := by
  apply Option.ext
  intro w
  rw [get_iff (trie_inv_reachable ops h) hq, contents_eq_spec ops h]

/-! ### queries on any reachable trie (`t.Inv W` holds for every history by `trie_inv_reachable`) -/

/-- **Covers** = some stored prefix contains the query CIDR. -/
theorem covers_eq_spec {t : Node α} (hi : t.Inv W) {q : Pfx} (hq : q.WF W) :
    t.covers W q = SMap.covers W t.toList q := by
  rw [Bool.eq_iff_iff, tcovers_iff hi hq]
  simp [SMap.covers, List.any_eq_true]

/-- **Intersects** = some stored prefix lies inside the query CIDR (that is what
the Go code computes; it is one half of "overlaps", see `overlap_eq_spec`). -/
theorem intersects_eq_spec {t : Node α} (hi : t.Inv W) {q : Pfx} (hq : q.WF W) :
    t.intersects W q = SMap.within W t.toList q := by
  rw [Bool.eq_iff_iff, tintersects_iff hi hq]
  simp [SMap.within, List.any_eq_true]

/-- **Overlap** as the IP-pool controller composes it (`Get != nil || Intersects || Covers`)
= some stored prefix shares an address with the query CIDR. -/
theorem overlap_eq_spec {t : Node α} (hi : t.Inv W) {q : Pfx} (hq : q.WF W) :
    ((t.get W q).isSome || t.intersects W q || t.covers W q) = SMap.overlaps W t.toList q := by
  rw [Bool.eq_iff_iff]
  simp only [Bool.or_eq_true, tintersects_iff hi hq, tcovers_iff hi hq, SMap.overlaps, List.any_eq_true,
    Pfx.overlaps, Option.isSome_iff_exists, get_iff hi hq]
  constructor
  · rintro ((⟨v, h⟩ | ⟨p, v, h1, h2⟩) | ⟨p, v, h1, h2⟩)
    · exact ⟨(q, v), h, Or.inl (covers_refl hq)⟩
    · exact ⟨(p, v), h1, Or.inr h2⟩
    · exact ⟨(p, v), h1, Or.inl h2⟩
  · rintro ⟨⟨p, v⟩, h1, h2 | h2⟩
    · exact Or.inr ⟨p, v, h1, h2⟩
    · exact Or.inl (Or.inr ⟨p, v, h1, h2⟩)

/-- **CoveredBy** = every stored prefix lies inside the query CIDR; on the empty
trie the Go code dereferences a nil root (`none`). -/
theorem coveredBy_eq_spec {t : Node α} (hi : t.Inv W) {q : Pfx} (hq : q.WF W) :
    t.coveredBy W q = if t.isNil then none else some (SMap.coveredBy W t.toList q) := by
  cases t with
  | nil => rfl
  | node c d l r =>
    simp only [Node.coveredBy, isNil, Bool.false_eq_true, if_false, Option.some.injEq]
    rw [Bool.eq_iff_iff, decide_eq_true_eq, commonPrefix_eq_right_iff hi.1 hq, root_covered_iff hi hq]
    simp [SMap.coveredBy, List.all_eq_true]

/-- **LPM, proved part**: for a single-address query (`/32`, `/128` — every
production caller) `LPM` returns exactly the longest stored prefix containing
it, and nothing iff no stored prefix contains it.  (The statement for arbitrary
query CIDRs is false of the code: `lpm_cidr_counterexample`.) -/
theorem lpm_host_eq_spec_partial {t : Node α} (hi : t.Inv W) {q : Pfx} (hq : q.WF W) (hh : q.len = W) :
    (∀ p v, t.lpm W q = some (p, v) → IsLpm W t.toList q p v) ∧
    (t.lpm W q = none ↔ ∀ p v, (p, v) ∈ t.toList → ¬ p.covers W q = true) ∧
    (∀ p v, IsLpm W t.toList q p v → t.lpm W q = some (p, v)) := by
  have key := lpmGo_spec hi hq (lpmSafe_of_host hi hh) none
  have uniq : ∀ p v p' v', IsLpm W t.toList q p v → IsLpm W t.toList q p' v' → (p, v) = (p', v') := by
    intro p v p' v' h1 h2
    have a := h1.2.2 p' v' h2.1 h2.2.1
    have b := h2.2.2 p v h1.1 h1.2.1
    have hp := Inv.mem_wf hi h1.1
    have hp' := Inv.mem_wf hi h2.1
    have e : p = p' := covers_antisymm hp hp' (covers_linear hp hp' hq h1.2.1 h2.2.1 b)
      (covers_linear hp' hp hq h2.2.1 h1.2.1 a)
    subst e
    rw [toList_functional hi h1.1 h2.1]
  unfold Node.lpm
  rcases key with ⟨p, v, h1, h2⟩ | ⟨h1, h2⟩
  · refine ⟨fun p' v' h => ?_, ?_, fun p' v' h => ?_⟩
    · rw [h1] at h; cases h; exact h2
    · rw [h1]; simp only [reduceCtorEq, false_iff]
      intro h; exact h p v h2.1 h2.2.1
    · rw [h1, uniq p v p' v' h2 h]
  · refine ⟨fun p' v' h => ?_, ?_, fun p' v' h => ?_⟩
    · rw [h1] at h; cases h
    · rw [h1]; simp only [true_iff]; exact h2
    · exact absurd h.2.1 (h2 p' v' h.1)

/-- **LPM is wrong for non-single-address queries** (Lean witness of the negation
of the full statement; reproduced on the real code by the harness oracle,
signature `lpm-cidr-not-covering`): with only 10.0.0.0/14 stored,
`LPM(10.0.0.0/7)` returns 10.0.0.0/14, which does not contain 10.0.0.0/7. -/
theorem lpm_cidr_counterexample :
    let t := run 32 [Op.upd ⟨0x0a000000, 14⟩ (1 : Nat)]
    let q : Pfx := ⟨0x0a000000, 7⟩
    q.WF 32 ∧ t.lpm 32 q = some (⟨0x0a000000, 14⟩, 1) ∧ (⟨0x0a000000, 14⟩ : Pfx).covers 32 q = false := by
  decide

/-! ### non-vacuity -/

/-- A three-prefix history producing an intermediate node satisfies every hypothesis above. -/
def exOps : List (Op Nat) :=
  [.upd ⟨0x0a000100, 24⟩ 1, .upd ⟨0x0a000201, 32⟩ 2, .upd ⟨0x0a000000, 16⟩ 3, .del ⟨0x0a000000, 16⟩]

example : ∀ o ∈ exOps, Op.WF 32 o := by decide
example : (run 32 exOps).toList = [(⟨0x0a000100, 24⟩, 1), (⟨0x0a000201, 32⟩, 2)] := by decide
example : (run 32 exOps).covers 32 ⟨0x0a000105, 32⟩ = true := by decide
example : (run 32 exOps).intersects 32 ⟨0x0a000000, 8⟩ = true := by decide
example : (run 32 exOps).lpm 32 ⟨0x0a000105, 32⟩ = some (⟨0x0a000100, 24⟩, 1) := by decide
example : (run 32 exOps).coveredBy 32 ⟨0x0a000000, 22⟩ = some true := by decide
example : (⟨0x0a000105, 32⟩ : Pfx).WF 32 ∧ (⟨0x0a000105, 32⟩ : Pfx).len = 32 := by decide

end CalicoVerif.C36
