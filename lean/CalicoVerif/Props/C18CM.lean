import CalicoVerif.Model.C18CM
import CalicoVerif.Props.C18Len
/-!
C18 (continued) — cachingmap's Apply* glue over the proved tracker.

`CInv` = the tracker invariants + "once the cache is loaded, the tracker's dataplane view IS the
backing map" (nothing else writes the backing map).  It holds after every history of desired-state
changes, loads (ok or failing) and Apply* calls with arbitrary failing writes (`cm_invariant`), so
after a FAILED apply the tracker still reports the exact difference to the real map
(`pending_*_exact` apply to it); after a SUCCESSFUL `ApplyAllChanges` the real map equals the desired
map and nothing is pending (`applyAll_success`).
-/
namespace CalicoVerif.C18
variable {K V : Type} [DecidableEq K]

structure CInv (eqv : V → V → Bool) (c : CM K V) : Prop where
  inv : Inv eqv c.t
  wf : WF3 c.t
  nr : NodupKeys c.real
  sync : c.loaded = true → ∀ k, dataplaneGet c.t k = get c.real k

/-! #### helper lemmas about the backing map -/

theorem get_filter_key (m : GoMap K V) (q : K → Bool) (k : K) :
    get (m.filter (fun kv => q kv.1)) k = if q k then get m k else none := by
  induction m with
  | nil => simp [get]
  | cons p r ih =>
    obtain ⟨a, b⟩ := p
    by_cases ha : q a = true
    · simp only [List.filter, ha, get]
      by_cases e : a = k
      · subst e; simp [ha]
      · simp [e, ih]
    · have ha' : q a = false := by simpa using ha
      simp only [List.filter, ha', get, ih]
      by_cases e : a = k
      · subst e; simp [ha']
      · simp [e]

theorem nodupKeys_filter (m : GoMap K V) (q : K × V → Bool) (h : NodupKeys m) : NodupKeys (m.filter q) := by
  unfold NodupKeys keys at *
  exact h.sublist ((List.filter_sublist).map _)

theorem get_fold_del (ks : List K) (r : GoMap K V) (k : K) :
    get (ks.foldl (fun r k => del r k) r) k = if k ∈ ks then none else get r k := by
  induction ks generalizing r with
  | nil => simp
  | cons x xs ih =>
    simp only [List.foldl_cons, ih, get_del, List.mem_cons]
    by_cases h1 : k ∈ xs
    · simp [h1]
    · by_cases h2 : x = k
      · subst h2; simp
      · have : ¬ k = x := fun e => h2 e.symm
        simp [h1, h2, this]

theorem get_realAfterUpdates (real du : GoMap K V) (F : K → Bool) (hn : NodupKeys du) (k : K) :
    get (realAfterUpdates real du F) k = if F k then get real k else
      (match get du k with
       | some v => some v
       | none => get real k) := by
  have h := get_copyInto real (du.filter (fun kv => !F kv.1)) (nodupKeys_filter _ _ hn) k
  unfold copyInto at h
  unfold realAfterUpdates
  rw [h, get_filter_key du (fun x => !F x) k]
  cases F k <;> first | rfl | simp

theorem get_realAfterDeletes (real : GoMap K V) (ks : List K) (F : K → Bool) (k : K) :
    get (realAfterDeletes real ks F) k = if k ∈ ks ∧ F k = false then none else get real k := by
  unfold realAfterDeletes
  rw [get_fold_del]
  simp only [List.mem_filter, Bool.not_eq_true']

theorem nodup_realAfterUpdates (real du : GoMap K V) (F : K → Bool) (h : NodupKeys real) :
    NodupKeys (realAfterUpdates real du F) :=
  foldl_preserves NodupKeys _ (fun s x hs => nodupKeys_set _ _ _ hs) _ _ h

theorem nodup_realAfterDeletes (real : GoMap K V) (ks : List K) (F : K → Bool) (h : NodupKeys real) :
    NodupKeys (realAfterDeletes real ks F) :=
  foldl_preserves NodupKeys _ (fun s x hs => nodupKeys_del _ _ hs) _ _ h

/-! #### the operations -/

theorem step_keeps (eqv : V → V → Bool) (hs : Sym eqv) (hr : Refl eqv) (t : Tracker K V) (op : Op K V)
    (hi : Inv eqv t) (hw : WF3 t) (hop : op.WF) : Inv eqv (step eqv t op) ∧ WF3 (step eqv t op) :=
  ⟨fun k => (step_at eqv hs hr t op hi hw.2.2 hop k).1, wf3_step eqv t op hw⟩

theorem abs_step (eqv : V → V → Bool) (hs : Sym eqv) (hr : Refl eqv) (t : Tracker K V) (op : Op K V)
    (hi : Inv eqv t) (hw : WF3 t) (hop : op.WF) (k : K) :
    (desiredGet (step eqv t op) k, dataplaneGet (step eqv t op) k) =
      specAt eqv op k (desiredGet t k, dataplaneGet t k) :=
  (step_at eqv hs hr t op hi hw.2.2 hop k).2

theorem cinv_load (eqv : V → V → Bool) (hs : Sym eqv) (hr : Refl eqv) (c : CM K V) (f : Bool) (h : CInv eqv c) :
    CInv eqv (c.load eqv f).1 ∧ ((c.load eqv f).2 = false → (c.load eqv f).1.loaded = true) ∧
    ∀ k, desiredGet (c.load eqv f).1.t k = (sRepl eqv false (desiredGet c.t k, dataplaneGet c.t k)
      (if f then (match dataplaneGet c.t k with | some v => some v | none => none) else get c.real k)).1 ∨
      (f = true ∧ (c.load eqv f).1 = c) := by
  unfold CM.load
  cases f
  · simp only [Bool.false_eq_true, if_false]
    have hk := step_keeps eqv hs hr c.t (.repl c.real false) h.inv h.wf h.nr
    have ha := abs_step eqv hs hr c.t (.repl c.real false) h.inv h.wf h.nr
    refine ⟨⟨hk.1, hk.2, h.nr, fun _ k => ?_⟩, by simp, fun k => Or.inl ?_⟩
    · have := congrArg Prod.snd (ha k)
      simp only [step, specAt, sRepl] at this
      rw [this]; cases get c.real k <;> rfl
    · exact congrArg Prod.fst (ha k)
  · simp only [if_true]
    exact ⟨h, by simp, fun k => Or.inr (by simp)⟩

theorem cinv_maybeLoad (eqv : V → V → Bool) (hs : Sym eqv) (hr : Refl eqv) (c : CM K V) (f : Bool) (h : CInv eqv c) :
    CInv eqv (c.maybeLoad eqv f).1 ∧ ((c.maybeLoad eqv f).2 = false → (c.maybeLoad eqv f).1.loaded = true) := by
  unfold CM.maybeLoad
  cases hl : c.loaded
  · simp only [Bool.false_eq_true, if_false]
    exact ⟨(cinv_load eqv hs hr c f h).1, (cinv_load eqv hs hr c f h).2.1⟩
  · simp only [if_true]; exact ⟨h, fun _ => hl⟩

/-- Exact description of `ApplyUpdatesOnly` on a loaded cache: at every key the (desired, dataplane)
pair moves as `sUIter` with "update unless the write fails", the backing map follows the tracker,
and an error is returned iff some pending update's write failed. -/
theorem applyUpdates_loaded (eqv : V → V → Bool) (hs : Sym eqv) (hr : Refl eqv) (c : CM K V) (f : Bool)
    (F : K → Bool) (h : CInv eqv c) (hl : c.loaded = true) :
    let r := c.applyUpdates eqv f F
    CInv eqv r.1 ∧ r.1.loaded = true ∧
    (∀ k, (desiredGet r.1.t k, dataplaneGet r.1.t k) = sUIter eqv (!F k) (desiredGet c.t k, dataplaneGet c.t k)) ∧
    (r.2 = true ↔ ∃ k, (get c.t.du k).isSome = true ∧ F k = true) := by
  have hml : c.maybeLoad eqv f = (c, false) := by unfold CM.maybeLoad; simp [hl]
  unfold CM.applyUpdates
  rw [hml]
  simp only
  have ht : (if c.batched = true then uBatched c.t batchSize F 0 c.t.du else uIter c.t c.t.du (batchAct F)) =
      step eqv c.t (.uIter (batchAct F)) := by
    simp only [step]; split
    · exact uBatched_eq_uIter _ _ _ _ _
    · rfl
  rw [ht]
  have hk := step_keeps eqv hs hr c.t (.uIter (batchAct F)) h.inv h.wf trivial
  have ha := abs_step eqv hs hr c.t (.uIter (batchAct F)) h.inv h.wf trivial
  have habs : ∀ k, (desiredGet (step eqv c.t (.uIter (batchAct F))) k, dataplaneGet (step eqv c.t (.uIter (batchAct F))) k) =
      sUIter eqv (!F k) (desiredGet c.t k, dataplaneGet c.t k) := by
    intro k; rw [ha k]; simp only [specAt, batchAct_update]
  refine ⟨⟨hk.1, hk.2, nodup_realAfterUpdates _ _ _ h.nr, fun _ k => ?_⟩, hl, habs, ?_⟩
  · have e1 := congrArg Prod.snd (habs k)
    simp only at e1
    rw [e1, get_realAfterUpdates _ _ _ h.wf.2.2 k, pending_updates_exact eqv hr c.t h.inv k, ← h.sync hl k]
    unfold sUIter
    cases hF : F k <;> cases hp : pendU eqv (desiredGet c.t k, dataplaneGet c.t k) <;> simp
    have := pendU_isSome eqv _ _ hp
    cases hd : desiredGet c.t k with
    | none => rw [hd] at this; cases this
    | some v => rfl
  · simp only [List.any_eq_true]
    constructor
    · rintro ⟨kv, hm, hF⟩
      exact ⟨kv.1, by rw [(get_eq_some_iff c.t.du h.wf.2.2 kv.1 kv.2).2 hm]; rfl, hF⟩
    · rintro ⟨k, hsome, hF⟩
      cases hg : get c.t.du k with
      | none => rw [hg] at hsome; cases hsome
      | some v => exact ⟨(k, v), (get_eq_some_iff c.t.du h.wf.2.2 k v).1 hg, hF⟩

theorem applyDeletions_loaded (eqv : V → V → Bool) (hs : Sym eqv) (hr : Refl eqv) (c : CM K V) (f : Bool)
    (F : K → Bool) (h : CInv eqv c) (hl : c.loaded = true) :
    let r := c.applyDeletions eqv f F
    CInv eqv r.1 ∧ r.1.loaded = true ∧
    (∀ k, (desiredGet r.1.t k, dataplaneGet r.1.t k) = sXIter (!F k) (desiredGet c.t k, dataplaneGet c.t k)) ∧
    (r.2 = true ↔ ∃ k, (get c.t.dn k).isSome = true ∧ F k = true) := by
  have hml : c.maybeLoad eqv f = (c, false) := by unfold CM.maybeLoad; simp [hl]
  unfold CM.applyDeletions
  rw [hml]
  simp only
  have ht : (if c.batched = true then xBatched c.t batchSize F 0 (keys c.t.dn) else xIter c.t (keys c.t.dn) (batchAct F)) =
      step eqv c.t (.xIter (batchAct F)) := by
    simp only [step]; split
    · exact xBatched_eq_xIter _ _ _ _ _
    · rfl
  rw [ht]
  have hk := step_keeps eqv hs hr c.t (.xIter (batchAct F)) h.inv h.wf trivial
  have ha := abs_step eqv hs hr c.t (.xIter (batchAct F)) h.inv h.wf trivial
  have habs : ∀ k, (desiredGet (step eqv c.t (.xIter (batchAct F))) k, dataplaneGet (step eqv c.t (.xIter (batchAct F))) k) =
      sXIter (!F k) (desiredGet c.t k, dataplaneGet c.t k) := by
    intro k; rw [ha k]; simp only [specAt, batchAct_update]
  refine ⟨⟨hk.1, hk.2, nodup_realAfterDeletes _ _ _ h.nr, fun _ k => ?_⟩, hl, habs, ?_⟩
  · have e1 := congrArg Prod.snd (habs k)
    simp only at e1
    rw [e1, get_realAfterDeletes]
    have hmem := mem_keys_iff c.t.dn k
    have hx := pending_deletions_exact eqv c.t h.inv k
    have hsy := h.sync hl k
    unfold sXIter
    cases hF : F k <;> cases hp : pendX (desiredGet c.t k, dataplaneGet c.t k) <;> simp_all
  · simp only [List.any_eq_true]
    constructor
    · rintro ⟨k, hm, hF⟩
      exact ⟨k, (mem_keys_iff _ _).1 hm, hF⟩
    · rintro ⟨k, hsome, hF⟩
      exact ⟨k, (mem_keys_iff _ _).2 hsome, hF⟩


theorem cinv_applyUpdates (eqv : V → V → Bool) (hs : Sym eqv) (hr : Refl eqv) (c : CM K V) (f : Bool)
    (F : K → Bool) (h : CInv eqv c) : CInv eqv (c.applyUpdates eqv f F).1 := by
  have hm := cinv_maybeLoad eqv hs hr c f h
  cases hml : c.maybeLoad eqv f with
  | mk c1 e =>
    rw [hml] at hm
    cases e
    · have hl1 : c1.loaded = true := hm.2 rfl
      have h1 := applyUpdates_loaded eqv hs hr c1 f F hm.1 hl1
      have hml1 : c1.maybeLoad eqv f = (c1, false) := by simp [CM.maybeLoad, hl1]
      have : c.applyUpdates eqv f F = c1.applyUpdates eqv f F := by
        unfold CM.applyUpdates; rw [hml, hml1]
      rw [this]; exact h1.1
    · unfold CM.applyUpdates; rw [hml]; exact hm.1

theorem cinv_applyDeletions (eqv : V → V → Bool) (hs : Sym eqv) (hr : Refl eqv) (c : CM K V) (f : Bool)
    (F : K → Bool) (h : CInv eqv c) : CInv eqv (c.applyDeletions eqv f F).1 := by
  have hm := cinv_maybeLoad eqv hs hr c f h
  cases hml : c.maybeLoad eqv f with
  | mk c1 e =>
    rw [hml] at hm
    cases e
    · have hl1 : c1.loaded = true := hm.2 rfl
      have h1 := applyDeletions_loaded eqv hs hr c1 f F hm.1 hl1
      have hml1 : c1.maybeLoad eqv f = (c1, false) := by simp [CM.maybeLoad, hl1]
      have : c.applyDeletions eqv f F = c1.applyDeletions eqv f F := by
        unfold CM.applyDeletions; rw [hml, hml1]
      rw [this]; exact h1.1
    · unfold CM.applyDeletions; rw [hml]; exact hm.1

theorem cinv_step (eqv : V → V → Bool) (hs : Sym eqv) (hr : Refl eqv) (c : CM K V) (op : CMOp K V)
    (h : CInv eqv c) : CInv eqv (c.step eqv op).1 := by
  cases op with
  | dSet k v =>
    have hk := step_keeps eqv hs hr c.t (.dSet k v) h.inv h.wf trivial
    have ha := abs_step eqv hs hr c.t (.dSet k v) h.inv h.wf trivial
    refine ⟨hk.1, hk.2, h.nr, fun hl k' => ?_⟩
    have := congrArg Prod.snd (ha k')
    simp only [step, specAt] at this
    show dataplaneGet (dSet eqv c.t k v) k' = get c.real k'
    rw [this, ← h.sync hl k']; split <;> rfl
  | dDel k =>
    have hk := step_keeps eqv hs hr c.t (.dDel k) h.inv h.wf trivial
    have ha := abs_step eqv hs hr c.t (.dDel k) h.inv h.wf trivial
    refine ⟨hk.1, hk.2, h.nr, fun hl k' => ?_⟩
    have := congrArg Prod.snd (ha k')
    simp only [step, specAt] at this
    show dataplaneGet (dDel c.t k) k' = get c.real k'
    rw [this, ← h.sync hl k']; split <;> rfl
  | dDelAll =>
    have hk := step_keeps eqv hs hr c.t .dDelAll h.inv h.wf trivial
    have ha := abs_step eqv hs hr c.t .dDelAll h.inv h.wf trivial
    refine ⟨hk.1, hk.2, h.nr, fun hl k' => ?_⟩
    have := congrArg Prod.snd (ha k')
    simp only [step, specAt] at this
    show dataplaneGet (dDelAll c.t) k' = get c.real k'
    rw [this, ← h.sync hl k']; rfl
  | load f => exact (cinv_load eqv hs hr c f h).1
  | applyUpdates lf F => exact cinv_applyUpdates eqv hs hr c lf F h
  | applyDeletions lf F => exact cinv_applyDeletions eqv hs hr c lf F h
  | applyAll lf Fd Fu =>
    show CInv eqv (c.applyAll eqv lf Fd Fu).1
    unfold CM.applyAll
    exact cinv_applyUpdates eqv hs hr _ lf Fu (cinv_applyDeletions eqv hs hr c lf Fd h)

/-- **After ANY history** of desired-state changes, cache loads (successful or failing) and
Apply* calls with arbitrary failing map writes, the tracker invariants hold and (once loaded) the
tracker's dataplane view is exactly the backing map — so `pending_updates_exact` /
`pending_deletions_exact` say that the tracker still reports the exact difference between the desired
state and the REAL map, whatever failed. -/
theorem cm_invariant (eqv : V → V → Bool) (hs : Sym eqv) (hr : Refl eqv) (batched : Bool) (ops : List (CMOp K V)) :
    CInv eqv (cmRun eqv batched ops) := by
  unfold cmRun
  suffices h : ∀ c : CM K V, CInv eqv c → CInv eqv (ops.foldl (fun c op => (c.step eqv op).1) c) by
    apply h
    refine ⟨fun k => by simp [proj, CM.new, Tracker.new, P.Inv], ⟨nodupKeys_nil, nodupKeys_nil, nodupKeys_nil⟩,
      nodupKeys_nil, fun hl => by simp [CM.new] at hl⟩
  induction ops with
  | nil => intro c h; exact h
  | cons op r ih => intro c h; exact ih _ (cinv_step eqv hs hr c op h)

/-- The exact difference after a (possibly failed) apply, spelled out against the real map. -/
theorem cm_exact_difference (eqv : V → V → Bool) (hr : Refl eqv) (c : CM K V) (h : CInv eqv c)
    (hl : c.loaded = true) (k : K) :
    get c.t.du k = (if pendU eqv (desiredGet c.t k, get c.real k) then desiredGet c.t k else none) ∧
    get c.t.dn k = (if pendX (desiredGet c.t k, get c.real k) then get c.real k else none) := by
  rw [← h.sync hl k]
  exact ⟨pending_updates_exact eqv hr c.t h.inv k, pending_deletions_exact eqv c.t h.inv k⟩

theorem two_phase_clean (eqv : V → V → Bool) (hr : Refl eqv) (x : S1 V) :
    let y := sUIter eqv true (sXIter true x)
    pendU eqv y = false ∧ pendX y = false ∧ y.1 = x.1 ∧ y.2 = x.1 ∨
    (pendU eqv x = false ∧ pendX x = false ∧ sUIter eqv true (sXIter true x) = x) := by
  obtain ⟨d, q⟩ := x
  have := hr
  unfold Refl at this
  unfold sUIter sXIter pendU pendX
  cases d <;> cases q <;> simp_all
  rename_i v w
  by_cases h : eqv v w = true <;> simp_all

/-- **A successful `ApplyAllChanges`** (no error returned: the cache could be loaded and no write of a
pending deletion or update failed) leaves nothing pending, `InSync()` true, the desired map untouched,
and the REAL map equal to the desired map up to `valuesEqual` (equal, when `valuesEqual` is equality:
`no_pending_iff_equal`). -/
theorem applyAll_success (eqv : V → V → Bool) (hs : Sym eqv) (hr : Refl eqv) (c : CM K V) (lf : Bool)
    (Fd Fu : K → Bool) (h : CInv eqv c) (hok : (c.applyAll eqv lf Fd Fu).2 = false) :
    let c' := (c.applyAll eqv lf Fd Fu).1
    c'.loaded = true ∧ c'.t.inSync = true ∧
    ∀ k, pendU eqv (desiredGet c'.t k, get c'.real k) = false ∧ pendX (desiredGet c'.t k, get c'.real k) = false := by
  have hcinv : CInv eqv (c.applyAll eqv lf Fd Fu).1 := cinv_step eqv hs hr c (.applyAll lf Fd Fu) h
  -- the cache is loaded: otherwise the first phase already reported an error
  have hm := cinv_maybeLoad eqv hs hr c lf h
  unfold CM.applyAll at hok hcinv ⊢
  cases hml : c.maybeLoad eqv lf with
  | mk c1 e =>
    rw [hml] at hm
    cases e
    · have hl1 : c1.loaded = true := hm.2 rfl
      have hml1 : c1.maybeLoad eqv lf = (c1, false) := by simp [CM.maybeLoad, hl1]
      have hd : c.applyDeletions eqv lf Fd = c1.applyDeletions eqv lf Fd := by
        unfold CM.applyDeletions; rw [hml, hml1]
      rw [hd] at hok hcinv ⊢
      obtain ⟨hc2, hl2, habs2, herr2⟩ := applyDeletions_loaded eqv hs hr c1 lf Fd hm.1 hl1
      obtain ⟨hc3, hl3, habs3, herr3⟩ := applyUpdates_loaded eqv hs hr (c1.applyDeletions eqv lf Fd).1 lf Fu hc2 hl2
      simp only [Bool.or_eq_false_iff] at hok
      have hnd : ∀ k, (get c1.t.dn k).isSome = true → Fd k = false := by
        intro k hk
        cases hF : Fd k with
        | false => rfl
        | true => have := herr2.2 ⟨k, hk, hF⟩; rw [hok.1] at this; cases this
      have hnu : ∀ k, (get (c1.applyDeletions eqv lf Fd).1.t.du k).isSome = true → Fu k = false := by
        intro k hk
        cases hF : Fu k with
        | false => rfl
        | true => have := herr3.2 ⟨k, hk, hF⟩; rw [hok.2] at this; cases this
      have key : ∀ k, pendU eqv (desiredGet (((c1.applyDeletions eqv lf Fd).1.applyUpdates eqv lf Fu).1).t k,
            dataplaneGet (((c1.applyDeletions eqv lf Fd).1.applyUpdates eqv lf Fu).1).t k) = false ∧
          pendX (desiredGet (((c1.applyDeletions eqv lf Fd).1.applyUpdates eqv lf Fu).1).t k,
            dataplaneGet (((c1.applyDeletions eqv lf Fd).1.applyUpdates eqv lf Fu).1).t k) = false := by
        intro k
        rw [habs3 k, habs2 k]
        -- a pending deletion / update at k has a non-failing write
        have e2 := pending_deletions_exact eqv c1.t hm.1.inv k
        have hdes : desiredGet (c1.applyDeletions eqv lf Fd).1.t k =
            (sXIter (!Fd k) (desiredGet c1.t k, dataplaneGet c1.t k)).1 := congrArg Prod.fst (habs2 k)
        have hFd : pendX (desiredGet c1.t k, dataplaneGet c1.t k) = true → Fd k = false := by
          intro hp; apply hnd; rw [e2, if_pos hp]; exact pendX_isSome _ _ hp
        have hFu : pendU eqv (sXIter (!Fd k) (desiredGet c1.t k, dataplaneGet c1.t k)) = true → Fu k = false := by
          intro hp; apply hnu
          have e3' := pending_updates_exact eqv hr (c1.applyDeletions eqv lf Fd).1.t hc2.inv k
          rw [habs2 k, if_pos hp] at e3'
          rw [e3', hdes]
          exact pendU_isSome eqv _ _ hp
        clear e2 hdes
        revert hFd hFu
        generalize desiredGet c1.t k = d
        generalize dataplaneGet c1.t k = q
        intro hFd hFu
        have := hr
        unfold Refl at this
        unfold sUIter sXIter pendU pendX at *
        cases d <;> cases q <;> cases hA : Fd k <;> cases hB : Fu k <;> simp_all
        all_goals (rename_i v w; by_cases he : eqv v w = true <;> simp_all)
      refine ⟨hl3, (inSync_iff eqv hr _ hc3.inv).2 key, fun k => ?_⟩
      rw [← hc3.sync hl3 k]; exact key k
    · exfalso
      have hd : (c.applyDeletions eqv lf Fd).2 = true := by unfold CM.applyDeletions; rw [hml]
      simp only [Bool.or_eq_false_iff] at hok
      rw [hd] at hok; cases hok.1

end CalicoVerif.C18
