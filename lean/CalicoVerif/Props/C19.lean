import CalicoVerif.Proofs.C19b
/-!
C19 — IPAM never gives one address to two live allocations.

The theorems quantify over ALL event sequences `evs` of the model's transition
function `Cas.step` started from the empty store: any number of client threads,
any interleaving of their datastore calls, any injected CAS conflict / datastore
error, and crashes at any call (a crashed thread contributes no further events;
its ghost tokens are simply never spent).  The correspondence run checks that
every write the REAL ipamClient issues is an instance of `Cas.step` (same
outcome, same abstract value after).
-/
namespace CalicoVerif.C19
open CalicoVerif.Cas

/-- Every block ever stored is well formed: `Unallocated` has no duplicates and is
exactly the set of free ordinals.  (This is what `autoAssign`, which does not
look at `Allocations`, relies on.) -/
theorem wf_invariant (r0 nb : Nat) (evs : List Ev) (s : St)
    (h : run (St.init r0 nb) evs = some s) : AllWF s :=
  allWF_run (allWF_init r0 nb) h

/-- No double allocation: in every reachable state, an allocating write to a block
(one `autoAssign`/`assign` read-modify-write, whatever garbage collection it
performs) only takes ordinals that are NOT live in the stored value it replaces —
so an address recorded for one live owner is never recorded for a second one. -/
theorem no_double_alloc (r0 nb : Nat) (evs : List Ev) (s : St)
    (h : run (St.init r0 nb) evs = some s)
    (b rv : Nat) (v : Blk) (hb : s.blk b = some (rv, v))
    (g1 g2 : List Nat) (op : BOp) (res : BRes) (hr : rmw g1 op g2 v = some res)
    (o : Nat) (ho : o ∈ res.got) : ∀ h', v.slots[o]? ≠ some (Slot.live h') := by
  intro h' hc
  rcases rmw_got_unowned (wf_invariant r0 nb evs s h b rv v hb) hr ho with h1 | h1 <;>
    (rw [h1] at hc; cases hc)

/-- non-vacuity: a reachable state with a block and an allocating write on it. -/
example : ∃ s, run (St.init 100 2)
    [.call { t := 1, fault := .none, verb := .create, key := .blk 0, rev := none, pl := .blkCreate 0 4 },
     .call { t := 1, fault := .none, verb := .create, key := .hdl 1, rev := none, pl := .hInc 0 2 },
     .call { t := 1, fault := .none, verb := .update, key := .blk 0, rev := some 101,
             pl := .blkRmw [] (.assign 1 2 []) [] }] = some s ∧
    (s.blk 0).map (·.2.slots) = some [.live 1, .live 1, .free, .free] := by
  refine ⟨_, rfl, ?_⟩
  decide


/-- Handle records never under-count (the part of "handle records agree with block
records" that IS true of the code): in every reachable state, for every real
handle and block, the count in the handle object is at least the number of the
block's addresses live for that handle plus all outstanding tokens — increments
whose block write has not happened (yet, or ever: crash), and releases whose
decrement has not happened.  Strict equality is false, see below. -/
theorem handle_ge_block_partial (r0 nb : Nat) (evs : List Ev) (s : St)
    (h : run (St.init r0 nb) evs = some s) : HInv s :=
  hinv_run (hinv_init r0 nb) h

/-- The full-strength statement: with no token outstanding (nothing in flight, nothing
abandoned by a crash) handle counts EQUAL block records. -/
def HandleBlockAgree (s : St) : Prop :=
  s.creds = [] → ∀ h b, h ≠ 0 → hcount s h b = liveAt s b h

/-- The event sequence of ONE fault-free `AutoAssign(num=2, handle 1)` that finds a
block with a single free address: `incrementHandle(h, b, num = 2)` followed by the
block write that can only take 1 address (ipam.go assignFromExistingBlock
increments by `num`, not by `len(ips)`). -/
def overcountTrace : List Ev :=
  [.call { t := 1, fault := .none, verb := .create, key := .blk 0, rev := none, pl := .blkCreate 0 1 },
   .call { t := 1, fault := .none, verb := .create, key := .hdl 1, rev := none, pl := .hInc 0 2 },
   .call { t := 1, fault := .none, verb := .update, key := .blk 0, rev := some 101,
           pl := .blkRmw [] (.assign 1 1 []) [] },
   .endOp 1 [(0, 0)]]

/-- …is false of the current code: the handle records 2 addresses for a block that
records 1, with nothing in flight.  (Reproduced on the real ipamClient by the
harness oracle `handle-ne-block-quiescent`; recorded in known_findings.txt.) -/
theorem handle_block_agree_false :
    ¬ (∀ evs s, run (St.init 100 2) evs = some s → HandleBlockAgree s) := by
  intro H
  have h := H overcountTrace _ rfl rfl 1 0 (by decide)
  revert h
  decide

/-- Every address returned to a caller (`endOp` is admissible only then) is in the
caller's `got` list … -/
theorem returned_is_recorded (s s' : St) (t : Nat) (addrs : List (Nat × Nat))
    (h : step s (.endOp t addrs) = some s') : ∀ a ∈ addrs, a ∈ s.got t := by
  simp only [step] at h
  split at h
  · rename_i hc
    simp only [List.all_eq_true, List.contains_eq_mem, decide_eq_true_eq] at hc
    exact hc
  · cases h

/-- … and `got` grows only by the caller's own successful compare-and-swap on that
block, which stored the address as live: "an address is returned only after the
CAS that records it succeeded", at every step of every reachable execution. -/
theorem recorded_by_own_cas (r0 nb : Nat) (evs : List Ev) (s s' : St) (e : Ev)
    (hr : run (St.init r0 nb) evs = some s) (h : step s e = some s')
    (t b o : Nat) (hin : (b, o) ∈ s'.got t) (hnot : (b, o) ∉ s.got t) :
    ∃ c, e = Ev.call c ∧ c.t = t ∧ c.key = Key.blk b ∧
      casOutcome (s.curRev c.key) c.verb c.rev c.fault = Outcome.ok ∧
      ∃ rv v h', s'.blk b = some (rv, v) ∧ v.slots[o]? = some (Slot.live h') :=
  got_grows_only_by_own_cas (wf_invariant r0 nb evs s hr) h hin hnot

/-- non-vacuity of the invariants: the over-count trace is a run of the model. -/
example : ∃ s, run (St.init 100 2) overcountTrace = some s ∧ hcount s 1 0 = 2 ∧ liveAt s 0 1 = 1 :=
  ⟨_, rfl, by decide, by decide⟩

end CalicoVerif.C19
