import CalicoVerif.Proofs.C19c
/-!
C19 — IPAM never gives one address to two live allocations.

The theorems quantify over ALL event sequences `evs` of the model's transition
function `Cas.step` started from the empty store: any number of client threads,
any interleaving of their datastore calls, any injected CAS conflict / datastore
error, and crashes at any call (a crashed thread contributes no further events;
its ghost tokens are simply never spent).  The correspondence run checks that
every write the REAL ipamClient issues is an instance of `Cas.step` (same
outcome, same abstract value after).
-/
namespace CalicoVerif.C19
open CalicoVerif.Cas

/-- Every block ever stored is well formed: `Unallocated` has no duplicates and is
exactly the set of free ordinals.  (This is what `autoAssign`, which does not
look at `Allocations`, relies on.) -/
theorem wf_invariant (r0 nb : Nat) (evs : List Ev) (s : St)
    (h : run (St.init r0 nb) evs = some s) : AllWF s :=
  allWF_run (allWF_init r0 nb) h

/-- No double allocation: in every reachable state, an allocating write to a block
(one `autoAssign`/`assign` read-modify-write, whatever garbage collection it
performs) only takes ordinals that are NOT live in the stored value it replaces —
so an address recorded for one live owner is never recorded for a second one. -/
theorem no_double_alloc (r0 nb : Nat) (evs : List Ev) (s : St)
    (h : run (St.init r0 nb) evs = some s)
    (b rv : Nat) (v : Blk) (hb : s.blk b = some (rv, v))
    (g1 g2 : List Nat) (op : BOp) (res : BRes) (hr : rmw g1 op g2 v = some res)
    (o : Nat) (ho : o ∈ res.got) : ∀ h', v.slots[o]? ≠ some (Slot.live h') := by
  intro h' hc
  rcases rmw_got_unowned (wf_invariant r0 nb evs s h b rv v hb) hr ho with h1 | h1 <;>
    (rw [h1] at hc; cases hc)

/-- non-vacuity: a reachable state with a block and an allocating write on it. -/
example : ∃ s, run (St.init 100 2)
    [.call { t := 1, fault := .none, verb := .create, key := .blk 0, rev := none, pl := .blkCreate 0 4 },
     .call { t := 1, fault := .none, verb := .create, key := .hdl 1, rev := none, pl := .hInc 0 2 },
     .call { t := 1, fault := .none, verb := .update, key := .blk 0, rev := some 101,
             pl := .blkRmw [] (.assign 1 2 []) [] }] = some s ∧
    (s.blk 0).map (·.2.slots) = some [.live 1, .live 1, .free, .free] := by
  refine ⟨_, rfl, ?_⟩
  decide


/-- Handle records agree with block records (code after repair 9cd85f1): in every
reachable state in which no "stale delete" decrement happened (`stale = 0`, see
below), for every real handle and block the handle's count EQUALS the number of the
block's addresses live for that handle plus the outstanding tokens — increments
whose block write has not happened (yet, or ever: crash) and releases whose
decrement has not happened. -/
theorem handle_block_agree (r0 nb : Nat) (evs : List Ev) (s : St)
    (h : run (St.init r0 nb) evs = some s) (hst : s.stale = 0) : HEq s :=
  (inv_run (inv_init r0 nb) h).2 hst

/-- Quiescent agreement at full strength: with no token outstanding (nothing in flight,
nothing abandoned) the handle count of every block equals the block's records. -/
theorem handle_block_agree_quiescent (r0 nb : Nat) (evs : List Ev) (s : St)
    (h : run (St.init r0 nb) evs = some s) (hst : s.stale = 0) (hq : s.creds = []) :
    ∀ h' b, h' ≠ 0 → hcount s h' b = liveAt s b h' := by
  intro h' b hh
  have := handle_block_agree r0 nb evs s h hst h' b hh
  rw [hq] at this
  simpa [credTot] using this

/-- Mid-operation statement: at every point of every execution (operations in flight,
crashed threads) handle counts never under-count block records. -/
theorem handle_ge_block_partial (r0 nb : Nat) (evs : List Ev) (s : St)
    (h : run (St.init r0 nb) evs = some s) (hst : s.stale = 0) :
    ∀ h' b, h' ≠ 0 → liveAt s b h' + credTot h' b s.creds ≤ hcount s h' b := by
  intro h' b hh
  have := handle_block_agree r0 nb evs s h hst h' b hh
  omega

def w (t : Nat) (verb : Verb) (key : Key) (rev : Option Nat) (pl : Payload) : Ev :=
  .call { t := t, fault := .none, verb := verb, key := key, rev := rev, pl := pl }

/-- FALSE without `stale = 0`: the log of the real client (fault free; replay
corpus/C19/stale-delete.ops).  Threads 3 and 4 = `ReleaseByHandle(h1)`, thread 5 =
`AssignIP(h1)`.  4 deletes the now empty, unaffine block; 3's compare-and-delete is
answered NotFound, which `releaseByHandle` treats as success and goes on to
`decrementHandle` for the address that 4 released (and 4 decrements too); in
between 5 re-creates the block and allocates under the same handle: the handle
object is deleted while an address is live for it. -/
def staleTrace : List Ev :=
  [w 1 .create (.aff 0 0) none (.affSt .pending),
   w 1 .create (.blk 0) none (.blkCreate 0 2),
   w 1 .update (.aff 0 0) (some 104) (.affSt .confirmed),
   w 1 .create (.hdl 1) none (.hInc 0 1),
   w 1 .update (.blk 0) (some 105) (.blkRmw [] (.assignIP 1 0) []),
   .endOp 1 [(0, 0)],
   w 2 .update (.aff 0 0) (some 106) (.affSt .pendingDeletion),
   w 2 .update (.blk 0) (some 108) (.blkRmw [] .clearAff []),
   w 2 .delete (.aff 0 0) (some 109) .affDel,
   .endOp 2 [],
   w 4 .delete (.blk 0) (some 110) (.blkDelete [] (some (.relh 1)) [0]),
   w 3 .delete (.blk 0) (some 110) (.staleDel 1 1),
   w 5 .create (.aff 1 0) none (.affSt .pending),
   w 5 .create (.blk 0) none (.blkCreate 1 2),
   w 5 .update (.aff 1 0) (some 113) (.affSt .confirmed),
   w 5 .update (.hdl 1) (some 107) (.hInc 0 1),
   w 5 .update (.blk 0) (some 114) (.blkRmw [] (.assignIP 1 1) []),
   .endOp 5 [(0, 1)],
   w 3 .update (.hdl 1) (some 116) (.hDec 0 1),
   .endOp 3 [],
   w 4 .delete (.hdl 1) (some 118) (.hDec 0 1),
   .endOp 4 []]

def staleEnd : St := (run (St.init 103 2) staleTrace).getD (St.init 0 0)
theorem run_stale : run (St.init 103 2) staleTrace = some staleEnd := by rfl

/-- Unconditional agreement — even the ≥ direction — is false of the current code. -/
theorem handle_block_agree_unconditional_false :
    ¬ (∀ evs s, run (St.init 103 2) evs = some s →
        ∀ h b, h ≠ 0 → liveAt s b h + credTot h b s.creds ≤ hcount s h b) := by
  intro H
  have := H staleTrace staleEnd run_stale 1 0 (by decide)
  revert this
  decide

/-- "No token outstanding" is NOT the same as "every operation has returned": the log of
a fault-free `AssignIP(h3)` (thread 2) whose block write met a CAS conflict
(thread 1 wrote the block in between).  AssignIP retries WITHOUT taking back the
handle increment it had made, increments again, and returns: its first token is
never spent and the handle over-counts the block (2 vs 1) forever. -/
def assignRetryTrace : List Ev :=
  [w 2 .create (.aff 0 1) none (.affSt .pending),
   w 2 .create (.blk 1) none (.blkCreate 0 8),
   w 1 .update (.aff 0 1) (some 105) (.affSt .pending),
   w 1 .update (.blk 1) (some 106) (.blkRmw [] .bump []),
   w 1 .update (.aff 0 1) (some 107) (.affSt .confirmed),
   w 2 .update (.aff 0 1) (some 105) .noev,
   w 1 .create (.hdl 1) none (.hInc 1 1),
   w 1 .update (.blk 1) (some 108) (.blkRmw [] (.assign 1 1 []) []),
   .endOp 1 [(1, 0)],
   w 2 .create (.hdl 3) none (.hInc 1 1),
   w 2 .update (.blk 1) (some 106) .noev,
   w 2 .update (.hdl 3) (some 112) (.hInc 1 1),
   w 2 .update (.blk 1) (some 111) (.blkRmw [] (.assignIP 3 1) []),
   .endOp 2 [(1, 1)]]

theorem assignip_retry_overcounts :
    ∃ s, run (St.init 104 2) assignRetryTrace = some s ∧ s.stale = 0 ∧
      hcount s 3 1 = 2 ∧ liveAt s 1 3 = 1 ∧ credTot 3 1 s.creds = 1 :=
  ⟨_, rfl, by decide, by decide, by decide, by decide⟩

/-- Every address returned to a caller (`endOp` is admissible only then) is in the
caller's `got` list … -/
theorem returned_is_recorded (s s' : St) (t : Nat) (addrs : List (Nat × Nat))
    (h : step s (.endOp t addrs) = some s') : ∀ a ∈ addrs, a ∈ s.got t := by
  simp only [step] at h
  split at h
  · rename_i hc
    simp only [List.all_eq_true, List.contains_eq_mem, decide_eq_true_eq] at hc
    exact hc
  · cases h

/-- … and `got` grows only by the caller's own successful compare-and-swap on that
block, which stored the address as live: "an address is returned only after the
CAS that records it succeeded", at every step of every reachable execution. -/
theorem recorded_by_own_cas (r0 nb : Nat) (evs : List Ev) (s s' : St) (e : Ev)
    (hr : run (St.init r0 nb) evs = some s) (h : step s e = some s')
    (t b o : Nat) (hin : (b, o) ∈ s'.got t) (hnot : (b, o) ∉ s.got t) :
    ∃ c, e = Ev.call c ∧ c.t = t ∧ c.key = Key.blk b ∧
      casOutcome (s.curRev c.key) c.verb c.rev c.fault = Outcome.ok ∧
      ∃ rv v h', s'.blk b = some (rv, v) ∧ v.slots[o]? = some (Slot.live h') :=
  got_grows_only_by_own_cas (wf_invariant r0 nb evs s hr) h hin hnot

/-- non-vacuity of the invariants: both logs are runs of the model. -/
example : staleEnd.stale = 1 ∧ hcount staleEnd 1 0 = 0 ∧ liveAt staleEnd 0 1 = 1 := by decide

end CalicoVerif.C19
