import CalicoVerif.Proofs.C19c
/-!
C19 — IPAM never gives one address to two live allocations.

The theorems quantify over ALL event sequences `evs` of the model's transition
function `Cas.step` started from the empty store: any number of client threads,
any interleaving of their datastore calls, any injected CAS conflict / datastore
error, and crashes at any call (a crashed thread contributes no further events;
its ghost tokens are simply never spent).  The correspondence run checks that
every write the REAL ipamClient issues is an instance of `Cas.step` (same
outcome, same abstract value after).
-/
namespace CalicoVerif.C19
open CalicoVerif.Cas

/-- Every block ever stored is well formed: `Unallocated` has no duplicates and is
exactly the set of free ordinals.  (This is what `autoAssign`, which does not
look at `Allocations`, relies on.) -/
theorem wf_invariant (r0 nb : Nat) (evs : List Ev) (s : St)
    (h : run (St.init r0 nb) evs = some s) : AllWF s :=
  allWF_run (allWF_init r0 nb) h

/-- No double allocation: in every reachable state, an allocating write to a block
(one `autoAssign`/`assign` read-modify-write, whatever garbage collection it
performs) only takes ordinals that are NOT live in the stored value it replaces —
so an address recorded for one live owner is never recorded for a second one. -/
theorem no_double_alloc (r0 nb : Nat) (evs : List Ev) (s : St)
    (h : run (St.init r0 nb) evs = some s)
    (b rv : Nat) (v : Blk) (hb : s.blk b = some (rv, v))
    (g1 g2 : List Nat) (op : BOp) (res : BRes) (hr : rmw g1 op g2 v = some res)
    (o : Nat) (ho : o ∈ res.got) : ∀ h', v.slots[o]? ≠ some (Slot.live h') := by
  intro h' hc
  rcases rmw_got_unowned (wf_invariant r0 nb evs s h b rv v hb) hr ho with h1 | h1 <;>
    (rw [h1] at hc; cases hc)

/-- non-vacuity: a reachable state with a block and an allocating write on it. -/
example : ∃ s, run (St.init 100 2)
    [.call { t := 1, fault := .none, verb := .create, key := .blk 0, rev := none, pl := .blkCreate 0 4 },
     .call { t := 1, fault := .none, verb := .create, key := .hdl 1, rev := none, pl := .hInc 0 2 },
     .call { t := 1, fault := .none, verb := .update, key := .blk 0, rev := some 101,
             pl := .blkRmw [] (.assign 1 2 []) [] }] = some s ∧
    (s.blk 0).map (·.2.slots) = some [.live 1, .live 1, .free, .free] := by
  refine ⟨_, rfl, ?_⟩
  decide


/-- Handle records agree with block records (code after repairs 9cd85f1, 2a2a7ee, e889066):
in EVERY reachable state, for every real handle and block, the handle's count EQUALS the
number of the block's addresses live for that handle plus the outstanding tokens —
increments whose block write has not happened (yet, or ever: crash) and releases whose
decrement has not happened. -/
theorem handle_block_agree (r0 nb : Nat) (evs : List Ev) (s : St)
    (h : run (St.init r0 nb) evs = some s) : HEq s :=
  (inv_run (inv_init r0 nb) h).2

/-- Quiescent agreement at full strength: with no token outstanding (nothing in flight,
nothing abandoned by a crash) the handle count of every block equals the block's records. -/
theorem handle_block_agree_quiescent (r0 nb : Nat) (evs : List Ev) (s : St)
    (h : run (St.init r0 nb) evs = some s) (hq : s.creds = []) :
    ∀ h' b, h' ≠ 0 → hcount s h' b = liveAt s b h' := by
  intro h' b hh
  have := handle_block_agree r0 nb evs s h h' b hh
  rw [hq] at this
  simpa [credTot] using this

/-- Mid-operation statement: at every point of every execution (operations in flight,
crashed threads) handle counts never under-count block records. -/
theorem handle_ge_block (r0 nb : Nat) (evs : List Ev) (s : St)
    (h : run (St.init r0 nb) evs = some s) :
    ∀ h' b, h' ≠ 0 → liveAt s b h' + credTot h' b s.creds ≤ hcount s h' b := by
  intro h' b hh
  have := handle_block_agree r0 nb evs s h h' b hh
  omega

def w (t : Nat) (verb : Verb) (key : Key) (rev : Option Nat) (pl : Payload) : Ev :=
  .call { t := t, fault := .none, verb := verb, key := key, rev := rev, pl := pl }

/-- Why `handle_block_agree_quiescent` needs "no token outstanding": a client that stops
between `incrementHandle` and its block write (crash) leaves its token unspent and the
handle over-counting the block forever.  (Until repair 2a2a7ee the real AssignIP did the
same on every CAS-conflict retry, and until e889066 releaseByHandle decremented without a
token; `corpus/C19/assignip-retry.ops` and `stale-delete.ops` are the regression guards.) -/
def abandonedTrace : List Ev :=
  [w 1 .create (.blk 0) none (.blkCreate 0 2),
   .call { t := 2, fault := .crashAfter, verb := .create, key := .hdl 3, rev := none, pl := .hInc 0 1 }]

theorem abandoned_increment_overcounts :
    ∃ s, run (St.init 100 1) abandonedTrace = some s ∧
      hcount s 3 0 = 1 ∧ liveAt s 0 3 = 0 ∧ credTot 3 0 s.creds = 1 :=
  ⟨_, rfl, by decide, by decide, by decide⟩

/-- (The admissibility guard of the model's `endOp` event unfolded: the driver accepts the
addresses a real operation returns only if they are in the caller's `got` list.)  Every
address returned to a caller is in the caller's `got` list … -/
theorem returned_is_recorded_partial (s s' : St) (t : Nat) (addrs : List (Nat × Nat))
    (h : step s (.endOp t addrs) = some s') : ∀ a ∈ addrs, a ∈ s.got t := by
  simp only [step] at h
  split at h
  · rename_i hc
    simp only [List.all_eq_true, List.contains_eq_mem, decide_eq_true_eq] at hc
    exact hc
  · cases h

/-- … and `got` grows only by the caller's own successful compare-and-swap on that block —
an allocating read-modify-write `op` carrying the caller's handle `opHandle op` — which
stored the address as live FOR THAT HANDLE: "an address is returned only after the CAS
that records it for the caller's handle succeeded", at every step of every reachable
execution. -/
theorem recorded_by_own_cas (r0 nb : Nat) (evs : List Ev) (s s' : St) (e : Ev)
    (hr : run (St.init r0 nb) evs = some s) (h : step s e = some s')
    (t b o : Nat) (hin : (b, o) ∈ s'.got t) (hnot : (b, o) ∉ s.got t) :
    ∃ c, e = Ev.call c ∧ c.t = t ∧ c.key = Key.blk b ∧
      casOutcome (s.curRev c.key) c.verb c.rev c.fault = Outcome.ok ∧
      ∃ g1 op g2 rv v, c.pl = Payload.blkRmw g1 op g2 ∧ s'.blk b = some (rv, v) ∧
        v.slots[o]? = some (Slot.live (opHandle op)) := by
  obtain ⟨c, h1, h2, h3, h4, g1, op, g2, rv, v, h5, h6, h7, _⟩ :=
    got_grows_only_by_own_cas (wf_invariant r0 nb evs s hr) h hin hnot
  exact ⟨c, h1, h2, h3, h4, g1, op, g2, rv, v, h5, h6, h7⟩

end CalicoVerif.C19
