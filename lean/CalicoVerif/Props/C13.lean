import CalicoVerif.Proofs.C13
import CalicoVerif.Gen.C13Thm
/-!
C13 — Go and kernel-program views of shared BPF data structures agree.

Two layers:
* theorems about the layout ALGORITHM (`Model/C13.lean`), for every record description: what it
  computes is a C layout (members of a struct in order and disjoint, naturally aligned unless packed,
  inside the structure, size a multiple of the alignment, union members at 0);
* the generated finite-table theorems (`Gen/C13.lean`, regenerated from the headers and the Go code
  on every run; the quantifier "every shared structure and every field, IPv4 and IPv6" is a finite
  table, so `decide` over the whole table is a proof): `Gen.V4/V6.layout_eq_clang` (the algorithm
  reproduces clang's own record layouts of the real headers) and `Gen.V4/V6.go_matches_c` (every
  offset/size the Go code uses equals the C member's).  They are re-stated here as the property.
-/
namespace CalicoVerif.C13

/-- Every field of the record has a positive alignment. -/
def Rec.wf (r : Rec) : Prop := ∀ f ∈ r.fields, f.wf

/-- Members of a struct are laid out in declaration order without overlap (bit granularity, so
bit-fields included). -/
theorem struct_members_disjoint (r : Rec) (hs : r.isUnion = false) (hwf : r.wf) :
    r.layout.Pairwise (fun a b => a.off + a.size ≤ b.off) := by
  unfold Rec.layout; simp only [hs, Bool.false_eq_true, if_false]
  exact layoutStruct_pairwise r.packed r.fields 0 hwf

/-- Every non-bit-field member of a struct sits at a multiple of its alignment (1 if packed). -/
theorem struct_members_aligned (r : Rec) (hs : r.isUnion = false) :
    ∀ p ∈ r.fields.zip r.layout, p.1.bits = none → p.2.off % (8 * p.1.effAlign r.packed) = 0 := by
  unfold Rec.layout; simp only [hs, Bool.false_eq_true, if_false]
  exact layoutStruct_aligned r.packed r.fields 0

/-- Union members all start at offset 0. -/
theorem union_members_at_zero (r : Rec) (hu : r.isUnion = true) : ∀ s ∈ r.layout, s.off = 0 := by
  unfold Rec.layout; simp only [hu, if_true]
  exact fun s hs => (layoutUnion_zero r.fields s hs).1

/-- Every member lies inside the record: `offset + size ≤ sizeof`. -/
theorem members_within_size (r : Rec) (hwf : r.wf) : ∀ s ∈ r.layout, s.off + s.size ≤ 8 * r.size := by
  intro s hs
  have hd : s.off + s.size ≤ r.dataBits := by
    unfold Rec.layout at hs; unfold Rec.dataBits
    cases hu : r.isUnion with
    | true =>
      simp only [hu, if_true] at hs ⊢
      have := layoutUnion_zero r.fields s hs; omega
    | false =>
      simp only [hu, Bool.false_eq_true, if_false] at hs ⊢
      exact ((layoutStruct_bounds r.packed r.fields 0 hwf).2 s hs).2
  have h1 : (r.dataBits + 7) / 8 ≤ r.size := roundUp_ge _ _ r.align_pos
  have h2 := Nat.div_add_mod (r.dataBits + 7) 8
  have h3 := Nat.mod_lt (r.dataBits + 7) (by decide : 0 < 8)
  omega

/-- `sizeof` is a multiple of `alignof`, and `alignof` is at least every member's alignment. -/
theorem size_multiple_of_align (r : Rec) : r.size % r.align = 0 := roundUp_mod _ _

theorem align_ge_member (r : Rec) (f : Field) (hf : f ∈ r.fields) : f.effAlign r.packed ≤ r.align :=
  foldl_max_ge_mem (fun f => f.effAlign r.packed) r.fields 1 f hf

/-- The layout lists exactly the declared members, in order. -/
theorem layout_names (r : Rec) (hs : r.isUnion = false) : r.layout.map (·.name) = r.fields.map (·.name) := by
  unfold Rec.layout; simp only [hs, Bool.false_eq_true, if_false]
  exact layoutStruct_names _ _ _

/-! ## The property over the current tree (finite tables regenerated on every run) -/

/-- IPv4 build, FULL strength for the rows it lists (`Gen.V4.goRows`: every Go-side fact for which the
Go code has an offset AND a size — policy-program loads/stores that cover a whole member, the
`state.State` mirror fields, conntrack / NAT / IP-set / route / ifstate / ARP / failsafe /
cleanup-queue encoders and accessors, the conntrack-leg bit-fields, total sizes): same offset and
same size as the C member. -/
theorem go_matches_c_v4 : Gen.V4.goRows.all (rowOk Gen.V4.structs) = true := Gen.V4.go_matches_c
/-- IPv6 build. -/
theorem go_matches_c_v6 : Gen.V6.goRows.all (rowOk Gen.V6.structs) = true := Gen.V6.go_matches_c

/-- The remaining rows (`goWeakRows`) hold only in a WEAKER sense than "same offset and same size",
which is all that is meaningful or observable for them — hence `_partial`:
`within` — the Go access starts at the member but is shorter (low byte of the u32 `rules_hit`; a
uint8 protocol / prefix length kept in a `__u32`; 15 of the 16 `name` bytes; an ifindex in the first
4 bytes of an IPv6 `next_hop`); `inside` — a chunk of a wider member (64-bit halves of an IPv6
address, 32-bit halves of the packed 64-bit `set_id`, one element of `rule_ids[]`); `offset` — a
`stateOff*` constant that is defined but never used in an access; `atmost` — one 512-byte map value
serves the 464-byte IPv4 and the 512-byte IPv6 `cali_tc_state`; `mirror-size` (see below). -/
theorem go_weak_rows_v4_partial : Gen.V4.goWeakRows.all (rowOk Gen.V4.structs) = true := Gen.V4.go_weak_rows_ok
theorem go_weak_rows_v6_partial : Gen.V6.goWeakRows.all (rowOk Gen.V6.structs) = true := Gen.V6.go_weak_rows_ok

/-- The policy-program builder's view of `struct cali_tc_state`, taken from REAL programs (the real
`polprog.Builder` run on single-match rules: Src/Dst/NotSrc/NotDst CIDRs of every prefix-length class
— IPv6: /0 … /128 around every 32-bit boundary —, IP sets, ports, protocol; workload tier and host
pre-DNAT tier; both IP versions; instructions decoded, every access relative to the state pointer
collected): every access lies inside the member the builder annotates it with … -/
theorem builder_accesses_inside_v4 : Gen.V4.builderAccesses.all (accessInside Gen.V4.structs) = true :=
  Gen.V4.builder_accesses_inside
theorem builder_accesses_inside_v6 : Gen.V6.builderAccesses.all (accessInside Gen.V6.structs) = true :=
  Gen.V6.builder_accesses_inside

/-- … and every match reads exactly the bytes of the member its leg denotes: word `k` of an address at
`field + 4k` for exactly the words the prefix covers, the whole address + port + protocol for an IP
set, the member itself for a port / protocol match (`expectedMatch`). -/
theorem builder_matches_ok_v4 : Gen.V4.builderMatches.all (matchOk false Gen.V4.structs) = true :=
  Gen.V4.builder_matches_ok
theorem builder_matches_ok_v6 : Gen.V6.builderMatches.all (matchOk true Gen.V6.structs) = true :=
  Gen.V6.builder_matches_ok

/-- The layout algorithm agrees with clang 14 (`-target bpf -fdump-record-layouts`) on every record
of the real headers, both builds: member offsets (bits), sizeof, alignof. -/
theorem layout_eq_clang_v4 : Gen.V4.clangLayouts.all (fun e =>
    e.1.layout.map (·.off) == e.2.1 && e.1.size == e.2.2.1 && e.1.align == e.2.2.2) = true :=
  Gen.V4.layout_eq_clang
theorem layout_eq_clang_v6 : Gen.V6.clangLayouts.all (fun e =>
    e.1.layout.map (·.off) == e.2.1 && e.1.size == e.2.2.1 && e.1.align == e.2.2.2) = true :=
  Gen.V6.layout_eq_clang

/-! ## Total size of the Go mirror struct (FALSE of the current code) -/

/-- FULL-STRENGTH statement for the one Go mirror struct: `state.State` has the size of the C
structure it mirrors. -/
def StateMirrorSameSize : Prop := Gen.V4.stateMirrorSize = Gen.V4.cali_tc_state.size

/-- It does not: 496 bytes against 464 (IPv4 build; the IPv6 build has 512). The mirror is only used
by the BPF unit tests; the fields Go uses are covered by `go_matches_c_v4`, and the map value
(`go_matches_c_v6`, row `cali_tc_state` `exact` 512 / `go_matches_c_v4` `atmost`) holds both. -/
theorem state_mirror_size_witness :
    ¬ StateMirrorSameSize ∧ Gen.V4.stateMirrorSize ≠ Gen.V6.cali_tc_state.size := by
  unfold StateMirrorSameSize; decide +kernel

/-- What holds instead (`_partial`): the mirror is at least as large as the IPv4 structure and not
larger than the map value; the missing part is equality. -/
theorem state_mirror_size_partial :
    Gen.V4.cali_tc_state.size ≤ Gen.V4.stateMirrorSize ∧
    Gen.V4.stateMirrorSize ≤ Gen.V6.cali_tc_state.size := by decide +kernel

/-! ## Non-vacuity -/
example : Gen.V4.calico_ct_value.wf := by
  intro f hf
  simp only [Gen.V4.calico_ct_value, List.mem_cons, List.mem_nil_iff, or_false] at hf
  rcases hf with rfl | rfl | rfl | rfl | rfl | rfl <;> (unfold Field.wf; decide)
example : Gen.V4.calico_ct_value.size = 88 ∧ Gen.V6.calico_ct_value.size = 128 := by decide
example : Gen.V6.cali_tc_state.size = 512 ∧ Gen.V4.cali_tc_state.size = 464 := by decide +kernel
example : findPath Gen.V4.structs "cali_tc_state" "pol_rc" = some (8 * 92, 32) := by decide +kernel
example : findPath Gen.V6.structs "calico_ct_leg" "workload" = some (134, 1) := by decide +kernel
example : Gen.V6.builderMatches.length > 40 ∧ Gen.V6.builderAccesses.length > 20 := by decide +kernel
example : expectedMatch true Gen.V6.structs ⟨"cidr", "ip_src", 128, []⟩ = some [(8, 32), (12, 32), (16, 32), (20, 32)] := by
  decide +kernel
/-- the seeded defect's access pattern (words at +0,+4,+12,+24) is rejected -/
example : matchOk true Gen.V6.structs ⟨"cidr", "ip_src", 128, [(8, 32), (12, 32), (20, 32), (32, 32)]⟩ = false ∧
    accessInside Gen.V6.structs ("ip_src", 32, 32) = false := by decide +kernel
example : Gen.V4.goRows.length > 100 ∧ Gen.V6.goRows.length > 60 ∧ Gen.V4.goWeakRows.length < 30 := by decide +kernel
/-- a packed record really is laid out without padding: `saddr` of `calico_nat_key` at byte 11. -/
example : findPath Gen.V4.structs "calico_nat_key" "saddr" = some (88, 32) := by decide +kernel

end CalicoVerif.C13
