import CalicoVerif.Proofs.C21
/-!
C21 — IPAM release is safe against stale requests and honours cooldown
(block level: `allocationBlock` of libcalico-go/lib/ipam/ipam_block.go).

Property theorems only; the model is `CalicoVerif.Model.C21`, the lemmas are in
`CalicoVerif.Proofs.C21`. `WF` is the well-formedness of blocks produced by the modelled
operations (`newBlock_WF`, `run_WF`); `LiveAt b o a` = ordinal `o` is allocated with attribute `a`
and not in cooldown; `CoolingAt b o r` = `o` is in cooldown since `r`.
-/
namespace CalicoVerif.C21

/-! ## 1. a stale sequence number never frees -/

/-- `release`: if the (last) option given for some address names a sequence number different from
the one stored for that address, the whole request is refused and the block is unchanged. -/
theorem stale_seq_never_frees (b : Block) (cd : Int) (now : Nat) (opts : List ROpt) (x : ROpt) (s : Nat)
    (hx : x ∈ dedupe opts) (hs : x.seq = some s) (hne : s ≠ b.getSeq x.ord) :
    (b.release cd now opts).1 = b ∧ ∃ e, (b.release cd now opts).2 = .err e := by
  have herr : (b.verdict x).isErr = true := by
    unfold Block.verdict
    by_cases hlt : x.ord ≥ b.n
    · simp [hlt, OptVerdict.isErr]
    · have : (s != b.getSeq x.ord) = true := by simpa using hne
      simp [hlt, hs, this, OptVerdict.isErr]
  have hmem : (x, b.verdict x) ∈ b.verdicts opts := by
    unfold Block.verdicts; exact List.mem_map.2 ⟨x, hx, rfl⟩
  rcases release_cases b cd now opts with ⟨_, _, _, hb, he⟩ | ⟨hno, _, _⟩ | ⟨hno, _, _⟩
  · exact ⟨hb, he⟩
  · have := hno _ hmem; rw [herr] at this; cases this
  · have := hno _ hmem; rw [herr] at this; cases this

/-- `releaseByHandle` with a sequence number: an address of that handle whose stored sequence
number differs stays allocated, with exactly the same attribute. -/
theorem stale_seq_never_frees_by_handle {b : Block} (hw : WF b) (cd : Int) (now : Nat) (h : Handle) (s : Nat)
    (o : Nat) (a : Attr) (hl : b.LiveAt o a) (hne : s ≠ b.getSeq o) :
    (b.releaseByHandle cd now h (some s)).1.LiveAt o a := by
  have hnot : o ∉ b.relhOrds h (some s) := fun hm => hne ((mem_relhOrds.1 hm).2.2 s rfl)
  rcases relh_cases b cd now h (some s) with ⟨_, hc⟩ | ⟨_, hc⟩ | ⟨_, hc⟩
  · rw [hc]; exact hl
  · rw [hc]; exact gc_live hw.alen hl cd now
  · rw [hc]
    have hwm := mc_WF hw now (b.relhOrds h (some s)) false relhOrds_allocated
    apply gc_live hwm.alen
    refine ⟨?_, hl.2⟩
    rw [mc_attrAt hw _ _ _ relhOrds_allocated]; simp [hnot, hl.1]

/-! ## 2. a different handle never frees -/

/-- `release`: if the option for a live address names a (non-empty) handle different from the
(sanitised) handle stored for it, the whole request is refused and the block is unchanged. -/
theorem wrong_handle_never_frees (b : Block) (cd : Int) (now : Nat) (opts : List ROpt) (x : ROpt) (a : Attr)
    (hx : x ∈ dedupe opts) (hl : b.LiveAt x.ord a) (hh : x.handle ≠ []) (hne : a.hid ≠ x.handle) :
    (b.release cd now opts).1 = b ∧ ∃ e, (b.release cd now opts).2 = .err e := by
  have h2 : (b.verdict2 x).isErr = true := by
    have : (x.handle != [] && a.hid != x.handle) = true := by simp [hh, hne]
    simp [Block.verdict2, hl.1, hl.2, this, OptVerdict.isErr]
  have herr : (b.verdict x).isErr = true := by
    unfold Block.verdict
    by_cases hlt : x.ord ≥ b.n
    · simp [hlt, OptVerdict.isErr]
    · simp only [hlt, if_false]
      cases hs : x.seq with
      | none => exact h2
      | some s =>
        simp only []
        by_cases hq : (s != b.getSeq x.ord) = true
        · simp [hq, OptVerdict.isErr]
        · simp only [hq, if_false]; exact h2
  have hmem : (x, b.verdict x) ∈ b.verdicts opts := by
    unfold Block.verdicts; exact List.mem_map.2 ⟨x, hx, rfl⟩
  rcases release_cases b cd now opts with ⟨_, _, _, hb, he⟩ | ⟨hno, _, _⟩ | ⟨hno, _, _⟩
  · exact ⟨hb, he⟩
  · have := hno _ hmem; rw [herr] at this; cases this
  · have := hno _ hmem; rw [herr] at this; cases this

/-! ## 3. releasing an already released address is a harmless no-op -/

/-- If every named address is inside the block, passes the sequence check, and is not live
(free or in cooldown), `release` succeeds, reports all of them as skipped, releases nothing and
leaves the block unchanged (not even a garbage collection). -/
theorem double_release_noop (b : Block) (cd : Int) (now : Nat) (opts : List ROpt)
    (hall : ∀ x ∈ dedupe opts, x.ord < b.n ∧ (∀ s, x.seq = some s → s = b.getSeq x.ord) ∧ ¬ ∃ a, b.LiveAt x.ord a) :
    (b.release cd now opts).1 = b ∧
    ∃ sk, (b.release cd now opts).2 = .ok sk [] ∧ ∀ x ∈ dedupe opts, x.ord ∈ sk := by
  have hskip : ∀ x ∈ dedupe opts, b.verdict x = .skip := by
    intro x hx
    obtain ⟨hlt, hsq, hnl⟩ := hall x hx
    have h2 : b.verdict2 x = .skip := by
      unfold Block.verdict2
      cases ha : b.attrAt x.ord with
      | none => rfl
      | some a =>
        cases hr : a.releasedAt with
        | none => exact absurd ⟨a, ha, hr⟩ hnl
        | some r => simp [hr]
    unfold Block.verdict
    have : ¬ x.ord ≥ b.n := by omega
    simp only [this, if_false]
    cases hs : x.seq with
    | none => exact h2
    | some s => simp [hsq s hs, h2]
  have hmem : ∀ x ∈ dedupe opts, (x, OptVerdict.skip) ∈ b.verdicts opts := by
    intro x hx; unfold Block.verdicts; exact List.mem_map.2 ⟨x, hx, by rw [hskip x hx]⟩
  have hnorel : b.relOrds opts = [] := by
    cases hr : b.relOrds opts with
    | nil => rfl
    | cons o os =>
      have : o ∈ b.relOrds opts := by rw [hr]; exact List.mem_cons_self ..
      obtain ⟨x, hx, _, h, hv⟩ := mem_relOrds.1 this
      rw [hskip x hx] at hv; cases hv
  rcases release_cases b cd now opts with ⟨p, hp, he, _⟩ | ⟨_, _, hc⟩ | ⟨_, hne, _⟩
  · unfold Block.verdicts at hp
    obtain ⟨x, hx, rfl⟩ := List.mem_map.1 hp
    rw [hskip x hx] at he; cases he
  · rw [hc]
    refine ⟨rfl, skippedOf (b.verdicts opts), ?_, ?_⟩
    · have : relsOf (b.verdicts opts) = [] := by
        unfold Block.relOrds at hnorel; exact List.map_eq_nil_iff.1 hnorel
      rw [this]
    · intro x hx
      unfold skippedOf
      exact List.mem_filterMap.2 ⟨(x, .skip), hmem x hx, rfl⟩
  · exact absurd hnorel hne

/-- After a successful `release` of an address, that address is no longer live (it is in cooldown
since `now`, or already deallocated when the cooldown is not positive) — so releasing it again is
covered by `double_release_noop`. -/
theorem released_not_live {b : Block} (hw : WF b) (cd : Int) (now : Nat) (opts : List ROpt) (o : Nat)
    (hok : ∀ p ∈ b.verdicts opts, p.2.isErr = false) (ho : o ∈ b.relOrds opts) :
    (b.release cd now opts).1.attrAt o = none ∨ (b.release cd now opts).1.CoolingAt o now := by
  rcases release_cases b cd now opts with ⟨p, hp, he, _⟩ | ⟨_, hnil, _⟩ | ⟨_, _, hc⟩
  · rw [hok p hp] at he; cases he
  · rw [hnil] at ho; cases ho
  · rw [hc]
    have hwm := mc_WF hw now (b.relOrds opts) true relOrds_allocated
    have hat : (b.markCooldown now (b.relOrds opts) true).attrAt o = some (coolAttr now) := by
      rw [mc_attrAt hw _ _ _ relOrds_allocated]; simp [ho]
    rw [Block.CoolingAt, gc_attrAt _ cd now hwm.alen]
    by_cases hex : (b.markCooldown now (b.relOrds opts) true).expired cd now o = true
    · left; simp [hex]
    · right; exact ⟨coolAttr now, by simp [hex, hat], rfl⟩

/-! ## 4. cooldown -/

/-- Over every history (any interleaving of assign / auto-assign / release / release-by-handle /
garbage collection / sequence bumps / time advance) in which all cooldown-taking operations use
the same cooldown `c ≥ 0`: an address that is in cooldown since `r` (or whose cooldown already
passed) can only be live again at a time `≥ r + c`. -/
theorem cooldown_respected {s : St} (hw : WF s.blk) {c : Int} (hc0 : 0 ≤ c) (ops : List Op)
    (hops : ∀ op ∈ ops, op.usesCd c) (o r : Nat) (hcool : s.blk.CoolingAt o r)
    (a : Attr) (hlive : (run s ops).blk.LiveAt o a) :
    (r : Int) + c ≤ (run s ops).now := by
  rcases cooling_run hw hc0 ops hops (Or.inl hcool) with ⟨a', ha', hr'⟩ | h
  · rw [hlive.1] at ha'; cases ha'; rw [hlive.2] at hr'; cases hr'
  · exact h

/-- End to end: an address released by `release` at time `t` with cooldown `c ≥ 0` is not live
again (handed out by `autoAssign` or `assign`) before time `t + c`, whatever happens in between. -/
theorem cooldown_respected_after_release {s : St} (hw : WF s.blk) {c : Int} (hc0 : 0 ≤ c) (opts : List ROpt)
    (ops : List Op) (hops : ∀ op ∈ ops, op.usesCd c) (o : Nat)
    (hok : ∀ p ∈ s.blk.verdicts opts, p.2.isErr = false) (ho : o ∈ s.blk.relOrds opts)
    (a : Attr) (hlive : (run (step s (.release c opts)) ops).blk.LiveAt o a) :
    (s.now : Int) + c ≤ (run (step s (.release c opts)) ops).now := by
  have hw1 : WF (step s (.release c opts)).blk := step_WF hw _
  have hstart : (step s (.release c opts)).blk.CoolingAt o s.now ∨ (s.now : Int) + c ≤ (step s (.release c opts)).now := by
    simp only [step]
    rcases release_cases s.blk c s.now opts with ⟨p, hp, he, _⟩ | ⟨_, hnil, _⟩ | ⟨_, _, hcs⟩
    · rw [hok p hp] at he; cases he
    · rw [hnil] at ho; cases ho
    · rw [hcs]
      have hwm := mc_WF hw s.now (s.blk.relOrds opts) true relOrds_allocated
      apply gc_cooling hwm.alen _ c hc0 s.now
      exact ⟨coolAttr s.now, by rw [mc_attrAt hw _ _ _ relOrds_allocated]; simp [ho], rfl⟩
  rcases cooling_run hw1 hc0 ops hops hstart with ⟨a', ha', hr'⟩ | h
  · rw [hlive.1] at ha'; cases ha'; rw [hlive.2] at hr'; cases hr'
  · exact h

/-! ## 5. freed addresses are reused longest-free first -/

/-- Along every history that starts from a freshly created block, the free queue `Unallocated`
is ordered by the step at which each address entered it (deallocation order; addresses that were
deallocated by the same garbage-collection pass, or never allocated, are in ordinal order). -/
theorem fifo_queue_is_deallocation_order (n seq0 t : Nat) (ops : List Op) :
    GInv (grun (ginit { blk := newBlock n seq0 none, now := t }) ops) :=
  grun_inv (ginit_inv n seq0 t) ops

/-- `autoAssign` reuses longest-free first: in every reachable state, every address it hands out
has been in the free queue longer (`G.before`: earlier step, ties by ordinal) than every address it
leaves in the queue, except addresses excluded by the caller's reservations. -/
theorem fifo_reuse (n seq0 t : Nat) (ops : List Op) (num : Nat) (h : Option Handle) (owner : Nat) (rsv : List Nat)
    (y x : Nat) :
    let g := grun (ginit { blk := newBlock n seq0 none, now := t }) ops
    y ∈ (g.st.blk.autoAssign num h owner rsv).2 →
    x ∈ (g.st.blk.autoAssign num h owner rsv).1.unalloc → rsv.contains x = false →
    g.before y x := by
  intro g hy hx hr
  have hi : GInv g := grun_inv (ginit_inv n seq0 t) ops
  rw [aa_result] at hy
  rw [aa_unalloc] at hx
  exact autoLoop_fifo g.before rsv num _ hi.sorted y hy x hx hr

/-- … and it hands out only addresses of the free queue that are not reserved, as many as asked
for while there are any (`autoLoop_perm`: taken ++ kept is a permutation of the queue). -/
theorem auto_assign_from_queue (b : Block) (num : Nat) (h : Option Handle) (owner : Nat) (rsv : List Nat) :
    ((b.autoAssign num h owner rsv).2 ++ (b.autoAssign num h owner rsv).1.unalloc).Perm b.unalloc ∧
    ∀ y ∈ (b.autoAssign num h owner rsv).2, rsv.contains y = false := by
  rw [aa_result, aa_unalloc]
  exact ⟨autoLoop_perm rsv num b.unalloc, autoLoop_taken_not_reserved rsv num b.unalloc⟩

/-! ## 6. release by handle frees exactly that handle's addresses -/

/-- Which ordinals `releaseByHandle` selects: exactly the allocated ordinals whose attribute
carries a handle that sanitises to `h` (and, if a sequence number is given, whose stored sequence
number equals it). -/
theorem release_by_handle_selects {b : Block} {h : Handle} {seq : Option Nat} {o : Nat} :
    o ∈ b.relhOrds h seq ↔ o < b.n ∧ (∃ a x, b.attrAt o = some a ∧ a.handle = some x ∧ sanitize x = h) ∧
      (∀ s, seq = some s → s = b.getSeq o) := mem_relhOrds

/-- `releaseByHandle` frees exactly the selected addresses: a selected address is no longer live
(in cooldown since `now`, or deallocated), every other live address stays live with exactly the
same attribute, and the returned count is the number of selected addresses. -/
theorem release_by_handle_exact {b : Block} (hw : WF b) (cd : Int) (now : Nat) (h : Handle) (seq : Option Nat) :
    (∀ o ∈ b.relhOrds h seq, (b.releaseByHandle cd now h seq).1.attrAt o = none ∨
        (b.releaseByHandle cd now h seq).1.CoolingAt o now) ∧
    (∀ o a, o ∉ b.relhOrds h seq → b.LiveAt o a → (b.releaseByHandle cd now h seq).1.LiveAt o a) ∧
    (b.releaseByHandle cd now h seq).2 = (b.relhOrds h seq).length := by
  rcases relh_cases b cd now h seq with ⟨hi, hc⟩ | ⟨hn, hc⟩ | ⟨hne, hc⟩
  · have hn := relhOrds_nil_of_idxs_nil (seq := seq) hi
    rw [hc, hn]; exact ⟨by simp, fun o a _ hl => hl, rfl⟩
  · rw [hc, hn]; exact ⟨by simp, fun o a _ hl => gc_live hw.alen hl cd now, rfl⟩
  · rw [hc]
    have hwm := mc_WF hw now (b.relhOrds h seq) false relhOrds_allocated
    refine ⟨?_, ?_, rfl⟩
    · intro o ho
      have hat : (b.markCooldown now (b.relhOrds h seq) false).attrAt o = some (coolAttr now) := by
        rw [mc_attrAt hw _ _ _ relhOrds_allocated]; simp [ho]
      rw [Block.CoolingAt, gc_attrAt _ cd now hwm.alen]
      by_cases hex : (b.markCooldown now (b.relhOrds h seq) false).expired cd now o = true
      · left; simp [hex]
      · right; exact ⟨coolAttr now, by simp [hex, hat], rfl⟩
    · intro o a hno hl
      apply gc_live hwm.alen
      refine ⟨?_, hl.2⟩
      rw [mc_attrAt hw _ _ _ relhOrds_allocated]; simp [hno, hl.1]

/-! ## 7. ABA: a sequence number captured from an earlier allocation never matches a later one -/

/-- `SeqLt` (every stored per-address sequence number is below the block's) and `WF` are invariants
of every history in which clients follow the code's discipline: read + garbage collect, operate,
`SequenceNumber++`, write — or drop the in-memory copy (`cstep`); the block's sequence number never
decreases. -/
theorem client_discipline_invariant {s : St} (hw : WF s.blk) (h : s.blk.SeqLt) (cs : List (Int × Op × Bool)) :
    WF (crun s cs).blk ∧ (crun s cs).blk.SeqLt ∧ s.blk.seq ≤ (crun s cs).blk.seq :=
  crun_inv hw h cs

/-- ABA safety, auto-assign: take a sequence number `v1` stored for address `o` at some point,
let ANY client-discipline history happen (release of `o`, cooldown, garbage collection, …), and let
`o` then be handed out again by `autoAssign`. The new allocation carries a strictly larger sequence
number, so a release request still naming `v1` is refused and changes nothing. -/
theorem aba_stale_release_refused {s1 : St} (hw : WF s1.blk) (hlt : s1.blk.SeqLt) (o v1 : Nat)
    (htok : s1.blk.seqFor[o]? = some (some v1)) (cs : List (Int × Op × Bool)) (cd : Int) (now : Nat)
    (num : Nat) (h : Option Handle) (owner : Nat) (rsv : List Nat)
    (ho : o ∈ ((((crun s1 cs).blk.gc cd now).1).autoAssign num h owner rsv).2) :
    let b' := ((((crun s1 cs).blk.gc cd now).1).autoAssign num h owner rsv).1
    v1 < b'.getSeq o ∧
    ∀ (cd' : Int) (now' : Nat) (hd : Handle),
      (b'.release cd' now' [⟨o, some v1, hd⟩]).1 = b' ∧ ∃ e, (b'.release cd' now' [⟨o, some v1, hd⟩]).2 = .err e := by
  intro b'
  obtain ⟨hw2, _, hge⟩ := crun_inv hw hlt cs
  have hwg := gc_WF cd now hw2
  have hseq : b'.getSeq o = (crun s1 cs).blk.seq := by
    show ((((crun s1 cs).blk.gc cd now).1).autoAssign num h owner rsv).1.getSeq o = _
    rw [aa_getSeq hwg num h owner rsv o ho, gc_seq]
  have hv : v1 < b'.getSeq o := by
    rw [hseq]; exact Nat.lt_of_lt_of_le (hlt o v1 htok) hge
  refine ⟨hv, fun cd' now' hd => ?_⟩
  exact stale_seq_never_frees b' cd' now' _ ⟨o, some v1, hd⟩ v1 (by simp [dedupe]) rfl (by simp only []; omega)

/-- ABA safety, `assign` of a specific address. -/
theorem aba_stale_release_refused_assign {s1 : St} (hw : WF s1.blk) (hlt : s1.blk.SeqLt) (o v1 : Nat)
    (htok : s1.blk.seqFor[o]? = some (some v1)) (cs : List (Int × Op × Bool)) (cd : Int) (now : Nat)
    (h : Option Handle) (owner : Nat)
    (hok : ((((crun s1 cs).blk.gc cd now).1).assign o h owner).2 = .ok) :
    let b' := ((((crun s1 cs).blk.gc cd now).1).assign o h owner).1
    v1 < b'.getSeq o ∧
    ∀ (cd' : Int) (now' : Nat) (hd : Handle),
      (b'.release cd' now' [⟨o, some v1, hd⟩]).1 = b' ∧ ∃ e, (b'.release cd' now' [⟨o, some v1, hd⟩]).2 = .err e := by
  intro b'
  obtain ⟨hw2, _, hge⟩ := crun_inv hw hlt cs
  have hwg := gc_WF cd now hw2
  have hseq : b'.getSeq o = (crun s1 cs).blk.seq := by
    show ((((crun s1 cs).blk.gc cd now).1).assign o h owner).1.getSeq o = _
    rw [assign_ok_getSeq hwg o h owner hok, gc_seq]
  have hv : v1 < b'.getSeq o := by
    rw [hseq]; exact Nat.lt_of_lt_of_le (hlt o v1 htok) hge
  refine ⟨hv, fun cd' now' hd => ?_⟩
  exact stale_seq_never_frees b' cd' now' _ ⟨o, some v1, hd⟩ v1 (by simp [dedupe]) rfl (by simp only []; omega)

/-- a freshly created block satisfies `SeqLt` (no sequence number is stored yet) -/
theorem newBlock_seqLt (n seq0 : Nat) : (newBlock n seq0 none).SeqLt := by
  intro o v h
  simp only [newBlock, List.getElem?_replicate] at h
  split at h <;> cases h

/-! ## 8. block deletion (`empty()`) must not discard a cooldown -/

/-- `empty()` gates every deletion of a block (releaseBlockAffinity, ReleaseIPs / ReleaseByHandle on a block
without affinity). A block it calls empty holds NO address in cooldown (in every reachable block a cooldown
attribute has no handle, `WF.cool`), so deleting it cannot discard a `ReleasedAt` stamp and let the address be
handed out again inside its cooldown by whoever claims the CIDR next. -/
theorem empty_has_no_cooling_address {b : Block} (hw : WF b) (he : b.isEmpty = true) (o r : Nat) : ¬ b.CoolingAt o r := by
  rintro ⟨a, ha, hr⟩
  obtain ⟨hd, hh, _⟩ := isEmpty_attr he o a ha
  have hmem : a ∈ b.attrs := by
    unfold Block.attrAt at ha
    split at ha
    · exact List.mem_of_getElem? ha
    · cases ha
  have := hw.cool a hmem (by simp [hr])
  rw [this] at hh; cases hh

/-- … and every live address of an "empty" block belongs to the Windows reserved handle. -/
theorem empty_only_reserved_live {b : Block} (he : b.isEmpty = true) (o : Nat) (a : Attr) (hl : b.LiveAt o a) :
    ∃ hd, a.handle = some hd ∧ lowerH hd = windowsReservedHandle := isEmpty_attr he o a hl.1

-- non-vacuity: a fresh block is empty; a block with a cooling address is not (cooldown 5, released at t=0)
example : (newBlock 4 7 none).isEmpty = true := by decide
example : (run { blk := newBlock 4 7 none, now := 0 } [.auto 2 (some [97]) 2 [], .bump, .release 5 [⟨0, none, []⟩], .release 5 [⟨1, none, []⟩]]).blk.isEmpty = false := by decide

/-- Well-formedness is an invariant of every history from a freshly created block (so the
hypothesis `WF` of the theorems above is satisfied by every reachable block). -/
theorem reachable_WF (n seq0 t : Nat) (ops : List Op) : WF (run { blk := newBlock n seq0 none, now := t } ops).blk :=
  run_WF (newBlock_WF n seq0) ops

/-! ## Non-vacuity: concrete histories exercising the hypotheses -/

/-- a /30 block, two addresses auto-assigned to handle "a" (bytes [97]), sequence bumped -/
def exS : St := run { blk := newBlock 4 7 none, now := 0 } [.auto 2 (some [97]) 2 [], .bump]

example : exS.blk.LiveAt 0 ⟨some [97], 2, none⟩ := ⟨by decide, rfl⟩
example : exS.blk.getSeq 0 = 7 := by decide
-- stale sequence number (8 ≠ 7) is refused, right one accepted
example : (exS.blk.release 5 0 [⟨0, some 8, []⟩]).2 = .err (some .seq) := by decide
example : (exS.blk.release 5 0 [⟨0, some 7, [97]⟩]).2 = .ok [] [(0, [97])] := by decide
-- wrong handle refused
example : (exS.blk.release 5 0 [⟨0, none, [98]⟩]).2 = .err (some .handle) := by decide
-- double release: second one skips
example : ((exS.blk.release 5 0 [⟨0, none, []⟩]).1.release 5 1 [⟨0, none, []⟩]).2 = .ok [0] [] := by decide
-- cooldown: released at t=0 with cooldown 5; at t=4 address 0 is still unavailable, at t=5 it is back in the queue
example : (run exS [.release 5 [⟨0, none, []⟩], .tick 4, .gc 5]).blk.CoolingAt 0 0 := ⟨⟨none, 0, some 0⟩, by decide, rfl⟩
example : (run exS [.release 5 [⟨0, none, []⟩], .tick 5, .gc 5]).blk.unalloc = [2, 3, 0] := by decide
-- FIFO: 0 re-enters the queue behind 2 and 3
example : ((run exS [.release 5 [⟨0, none, []⟩], .tick 5, .gc 5]).blk.autoAssign 1 none 0 []).2 = [2] := by decide
-- release by handle selects both addresses of "a"
example : exS.blk.relhOrds [97] none = [0, 1] := by decide
example : (exS.blk.releaseByHandle 5 0 [97] none).2 = 2 := by decide

/-- DESIGN §5 note, made precise: inside ONE garbage-collection pass the queue order is by ordinal,
not by `ReleasedAt`. Address 1 is released at t=0, address 0 at t=1; one pass at t=10 deallocates
both and queues 0 before 1, although 1 has been released (not: deallocated) for longer. Under
`fifo_reuse`'s notion (time of entering the free queue) the two are tied, and ties go by ordinal. -/
example : (run exS [.release 5 [⟨1, none, []⟩], .tick 1, .release 5 [⟨0, none, []⟩], .tick 9, .gc 5]).blk.unalloc
    = [2, 3, 0, 1] := by decide

-- ABA: address 0 allocated at seq 7, released, cooled down, re-allocated at seq 9; the old token 7 is refused
def exABA : St := crun { blk := newBlock 4 7 none, now := 0 }
  [(0, .auto 1 (some [97]) 2 [], true), (0, .release 0 [⟨0, some 7, []⟩], true), (0, .auto 4 (some [98]) 2 [], true)]
example : exABA.blk.getSeq 0 = 9 := by decide
example : (exABA.blk.release 0 0 [⟨0, some 7, []⟩]).2 = .err (some .seq) := by decide

end CalicoVerif.C21
