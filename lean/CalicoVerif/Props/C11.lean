import CalicoVerif.Proofs.C11Asm
import CalicoVerif.Proofs.C11Split
import CalicoVerif.Proofs.C11Eval
/-!
C11 — BPF policy programs reach the same verdict as the policy semantics.

Staged as DESIGN §6 says.  What is proved here (all for EVERY input of the
stated shape, no sampling):

* `assemble_sound_all` — the assembler model (`asm.Block`: dead-code dropping,
  eager forward label resolution, int16 range check) preserves the label-level
  semantics of ANY event list: running the assembled instructions with the
  instruction-level interpreter equals the label-level run.
* `expand_noSplit_all` — without `WithPolicyMapIndexAndStride` and below the
  trampoline stride, the builder produces ONE block containing exactly its plain
  events (no split, no trampolines).
* `tiers_verdict_partial`, `profiles_verdict_partial` — the compositional proof
  rule → policy → tier (and → profiles): the events `writeTiers`/`writeProfiles`
  emit, run from any state satisfying the builder's register invariant, continue
  at the allow label / the deny label / fall through exactly as the REFERENCE
  (`evalTiers`, `evalProfiles`) says — for every tier/policy/profile layout, all
  rule ids, both destination legs, actions allow/deny/pass/next-tier.

`_partial` because: (1) the per-rule match fragments enter through the
hypothesis `RuleGuarded` (each fragment is a guard for the reference
`ruleMatch`), discharged here only for rules without criteria (end-of-tier
rule); (2) `log` actions and flow-log rule-hit recording (`record`) are
excluded; (3) header/footer/host-flag straight-line code, program splitting and
IPv6 are not yet covered by theorems (they ARE covered by the instruction-exact
tie and by the interpreter-vs-reference oracle on every generated packet).

Two places where the full statement is FALSE of the current code are recorded
with witnesses: `profile_log_panics` and `proto_name_mismatch`.
-/
namespace CalicoVerif.C11

/-- Assembler soundness, for all event lists and machine states. -/
theorem assemble_sound_all (env : Env) (evs : List Ev) (prog : List Insn) (m : Mach)
    (ha : assemble evs = some prog) (hnf : (lrun env evs m).isFault = false) :
    execL env prog m = lrun env evs m :=
  assemble_sound env evs prog m ha hnf

-- non-vacuity: a two-instruction program with a forward jump over dead code assembles and runs
example : assemble [jump .exit, movImm64 R0 7, .label .exit, movImm64 R0 2, exitI] =
    some [⟨opJumpA, 0, 0, 0, 0⟩, ⟨opMovImm64, 0, 0, 0, 2⟩, ⟨opExit, 0, 0, 0, 0⟩] := by decide

/-- No splitting, no trampolines: one block with exactly the plain events. -/
theorem expand_noSplit_all (c : Cfg) (xdp : Bool) (bevs : List BEv) (h : c.policyMapStride = 0)
    (hlen : (flat bevs).length < c.trampolineStride) : expand c xdp bevs = [flat bevs] :=
  expand_noSplit c xdp bevs h hlen

/-- Every rule of the tiers has a plain action and a guarded match part. -/
def TiersPlain (env : Env) (st : List Byte) (p : Pkt) (ts : List Tier) : Prop :=
  ∀ t ∈ ts, ∀ pol ∈ t.policies, ∀ r ∈ pol.rules, r.plainAction = true ∧ RuleGuarded env st p r

def ProfilesPlain (env : Env) (st : List Byte) (p : Pkt) (ps : List Policy) : Prop :=
  ∀ pol ∈ ps, ∀ r ∈ pol.rules, r.plainAction = true ∧ RuleGuarded env st p r

/-- The two allow labels the builder uses. -/
def isAllowLabel (l : Label) : Prop := l = .allow ∨ l = .allowedByHostPolicy

theorem tierLabel_props {al : Label} (hal : isAllowLabel al) (tid : Nat) (r : Rule) (h : r.plainAction = true) :
    tierActionLabel al tid r.action ≠ .log ∧ (tierActionLabel al tid r.action).isRule = false := by
  rw [tierActionLabel_actOf]
  unfold Rule.plainAction at h
  rcases hal with rfl | rfl <;> cases ha : actOf r.action <;> simp [ha, Label.isRule] at h ⊢

theorem profileLabel_props {al : Label} (hal : isAllowLabel al) (r : Rule) (h : r.plainAction = true) :
    profileActionLabel al r.action ≠ .log ∧ (profileActionLabel al r.action).isRule = false := by
  unfold Rule.plainAction at h
  have hl : actOf r.action ≠ .log := by intro e; simp [e] at h
  rw [profileActionLabel_actOf al r.action hl]
  rcases hal with rfl | rfl <;> cases ha : actOf r.action <;> simp [ha, Label.isRule] at h ⊢

/-- **rule → policy → tier.**  The events of `writeTiers`, from any state
satisfying the builder's invariant, continue at the allow label, at `deny`, or
fall through, exactly as the reference `evalTiers` decides. -/
theorem tiers_verdict_partial (env : Env) (st : List Byte) (p : Pkt) (leg : Leg) (al : Label)
    (ts : List Tier) (rid tid : Nat)
    (hrec : env.c.record = false) (hal : isAllowLabel al) (hts : TiersPlain env st p ts) :
    Decides env st (flat (writeTiers env.c leg al ts rid tid).1) (tiersDec al (evalTiers env p leg ts)) := by
  have hr : al.isRule = false := by rcases hal with rfl | rfl <;> rfl
  have ht : al.isTierEnd = false := by rcases hal with rfl | rfl <;> rfl
  have hok : TiersOK env st p al ts := by
    intro t htm tid' pol hp r hr'
    obtain ⟨h1, h2⟩ := hts t htm pol hp r hr'
    obtain ⟨a, b⟩ := tierLabel_props hal tid' r h1
    exact ⟨a, b, h2⟩
  have := (writeTiers_decides (env := env) (st := st) (p := p) leg al hrec hr ht ts rid tid hok).1
  rw [tiersTarget_eval env p leg al ht ts tid (fun t htm pol hp r hr' => (hts t htm pol hp r hr').1)] at this
  exact this

/-- **profiles.**  The events of `writeProfiles` continue at the allow label or
at `deny` as the reference `evalProfiles` (with `pass` ⇒ deny) decides; they
never fall through. -/
theorem profiles_verdict_partial (env : Env) (st : List Byte) (p : Pkt) (al : Label)
    (ps : List Policy) (noMatchID rid : Nat)
    (hrec : env.c.record = false) (hal : isAllowLabel al) (hps : ProfilesPlain env st p ps) :
    Decides env st (flat (writeProfiles env.c al ps noMatchID rid).1) (profDec al (evalProfiles true env p ps)) := by
  have hok : PoliciesOK env st p (profileActionLabel al) ps := by
    intro pol hp r hr'
    obtain ⟨h1, h2⟩ := hps pol hp r hr'
    obtain ⟨a, b⟩ := profileLabel_props hal r h1
    exact ⟨a, b, h2⟩
  have hP := writePolicies_decides (env := env) (st := st) (p := p) (profileActionLabel al) .dest hrec ps rid hok
  have hE := writeRule_decides (env := env) (st := st) (p := p)
    (writePolicies env.c (profileActionLabel al) .dest ps rid).2
    { action := "", matchID := noMatchID } .deny .dest hrec (by simp) rfl (emptyRule_guarded env st p noMatchID)
  have hElab := writeRule_labels (env := env) (st := st) (p := p)
    (writePolicies env.c (profileActionLabel al) .dest ps rid).2
    { action := "", matchID := noMatchID } .deny .dest hrec (by simp) (emptyRule_guarded env st p noMatchID)
  have hEt : ruleTarget env p .dest { action := "", matchID := noMatchID } .deny = some .deny := by
    simp [ruleTarget, filterRule, filterNets, ruleMatch, icmpIs]
  rw [hEt] at hE
  have := Decides.seq hP.1 hE (by
    intro l hl hmem
    have hr := hElab l hmem
    have := policiesTarget_not_rule (env := env) (p := p) (leg := .dest) ps
      (fun pol hp r hr' => (hok pol hp r hr').2.1) l hl
    rw [this] at hr; cases hr)
  rw [profilesTarget_eval env p al ps (fun pol hp r hr' => (hps pol hp r hr').1)] at this
  simpa only [writeProfiles, flat_append] using this

-- non-vacuity of the hypotheses: a tier whose only policy has no rules (so the end-of-tier rule decides)
example (env : Env) (st : List Byte) (p : Pkt) :
    TiersPlain env st p [{ endAction := .pass, endRuleID := 1, policies := [⟨[]⟩] }] := by
  intro t ht pol hp r hr
  simp at ht; subst ht
  simp at hp; subst hp
  simp at hr

/-! ### Where the full statement is false of the current code -/

/-- `compile_total` is false: a PROFILE rule with action `log` (valid in the
Calico API) makes `Builder.Instructions` panic (`writeProfile`'s action-label map
has no "log" entry ⇒ empty label ⇒ `log.Panic("empty action label")`). -/
theorem profile_log_panics :
    instructions {} { profiles := [⟨[{ action := "log" }]⟩] } = none := by decide

/-- A tier policy with the same rule compiles. -/
example : (instructions {} { tiers := [{ endAction := .deny, endRuleID := 0, policies := [⟨[{ action := "log" }]⟩] }] }).isSome = true := by
  decide

/-- `polprog_verdict` is false for the protocol NAMES `icmpv6` and `udplite`
(valid in the Calico API, passed through by the calculation graph):
`protocolToNumber` knows only tcp/udp/icmp/sctp and compiles every other name to
protocol number 0, so `protocol: ICMPv6` matches IP protocol 0 instead of 58. -/
theorem proto_name_mismatch :
    protocolToNumber (.name "icmpv6") = 0 ∧ protoNumberRef (.name "icmpv6") = some 58 ∧
    protocolToNumber (.name "udplite") = 0 ∧ protoNumberRef (.name "udplite") = some 136 := by
  decide

end CalicoVerif.C11
