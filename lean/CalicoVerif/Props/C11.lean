import CalicoVerif.Proofs.C11Whole
import CalicoVerif.Proofs.C11Range
import CalicoVerif.Proofs.C11Total
import CalicoVerif.Proofs.C11Long
import CalicoVerif.Proofs.C11ChainTop
import CalicoVerif.Proofs.C11SplitTotal
/-!
C11 — BPF policy programs reach the same verdict as the policy semantics.

Everything below is proved for ALL inputs of the stated shape (no sampling), about the Lean model of
`polprog.Builder` + `asm.Block` that the correspondence run compares INSTRUCTION BY INSTRUCTION with
the real builder's output, executed by the eBPF-subset interpreter of `Model/C11Interp`, against the
reference verdict of `Model/C11Ref`.

Main theorems (the property), each with what it does NOT cover:

* `polprog_verdict_partial` — ONE program (IPv4 or IPv6) below the trampoline stride, not split
  (`NoSplit`: splitting disabled or fewer jump-class instructions than the per-program limit):
  for every `Rules` configuration whose policy and profile rules have allow/deny/pass/next-tier/log
  actions and API-valid criteria (`ProgOK`), with or without rule-hit recording, every packet state
  and IP-set environment, the instructions `Builder.Instructions` returns, run from the entry, end
  exactly as the reference verdict demands: tail call through the static jump map to the allow /
  deny index with `pol_rc` = 1 / 2, or (failed tail call) exit TC_ACT_SHOT / XDP_DROP with
  `pol_rc` = 10 / 2, or XDP_PASS for untracked policy that neither allows nor denies.  Covers all
  match criteria and negations (protocol; CIDRs — IPv4 one masked word, IPv6 up to four sections
  with the early exit to the per-CIDR end label; IP sets incl. the byte-exact 20- or 32-byte LPM key;
  numeric and named ports; ICMP type/code), `log` rules, rule-hit recording, tiers, pass,
  end-of-tier actions, profiles, pre-DNAT / apply-on-forward / normal host policy, host flags, XDP.
  NOT covered (`_partial`): programs beyond the stride and split builds (the next two theorems);
  the successful build `hi` and the successful state lookup `hs` are hypotheses here
  (`compile_total_partial` / `polprog_state_lookup_fails`).
* `polprog_verdict_long_partial` — ONE program of ANY length (splitting disabled): the long-jump
  trampolines of `asm.Block` are included.  NOT covered: the build succeeding beyond the stride
  (hypothesis `hi`); splitting enabled with trampolines.
* `polprog_chain_partial` — builds SPLIT into a chain of programs at any `maybeSplitProgram` call
  site (before a rule, a CIDR, a named-port set, after a port range): landing pads, `next-program`
  block, header + dispatch + reload of the continuation program; the chain of assembled programs
  (`runChain`) ends as the reference verdict demands.  NOT covered: trampolines INSIDE the programs
  of a split build (`ShortBlocks`), a failing policy-jump tail call and slot arithmetic beyond 32
  bits (`ChainEnv`); the build succeeding is a hypothesis here (`hi`) and proved in
  `compile_total_split_partial` / `polprog_chain_built_partial`.
* `compile_total_partial`, `polprog_built_verdict_partial` — `Builder.Instructions` neither panics
  nor does `Assemble` fail on valid input (`Buildable`), so the whole-program statement holds
  without a build hypothesis.  NOT covered: programs beyond the stride (split builds: next item).
* `compile_total_split_partial`, `polprog_chain_built_partial` — the same for SPLIT builds: every
  program of the chain assembles (each block ends with an empty fix-up table), so the chain theorem
  holds without a build hypothesis.  NOT covered: programs that reach the trampoline stride.
* `polprog_state_lookup_fails` — a failing state-map lookup drops the packet, state untouched
  (unsplit programs of any length).

Component theorems (about the models of `asm.Block`, for ALL event lists): `assemble_sound_all`
(assembling preserves the label-level semantics), `asm_jumps_in_range` (every resolved jump is
forward, ≤ 32767 and inside the program), `trampolines_sound_all` (inserting trampoline blocks
preserves the semantics), `assemble_total_all`.

Lemmas kept here for the reader but NOT in the theorem list of `checks/C11.json` (the listed theorems
are proved from them): shape of `expand` — `expand_noSplit_all`, `expand_relayed_all`,
`expand_cont_all`; intermediate layer (rule → policy → tier / profiles on the label-level
semantics) — `rule_guard`, `tiers_verdict`, `profiles_verdict`, `lrun_program_partial` (the whole
program before assembly).

Former findings, fixed in the code: `profile_log_label` (a PROFILE `log` rule logs and continues —
profile log rules are inside `ProgOK`/`Buildable` now) and `proto_names_agree` (the builder's
protocol table equals the API's for every known protocol).
-/
namespace CalicoVerif.C11

/-- Assembler soundness, for all event lists and machine states. -/
theorem assemble_sound_all (env : Env) (evs : List Ev) (prog : List Insn) (m : Mach)
    (ha : assemble evs = some prog) (hnf : (lrun env evs m).isFault = false) :
    execL env prog m = lrun env evs m :=
  assemble_sound env evs prog m ha hnf

-- non-vacuity: a program with a forward jump over dead code assembles (and the dead code is dropped)
example : assemble [jump .exit, movImm64 R0 7, .label .exit, movImm64 R0 2, exitI] =
    some [⟨opJumpA, 0, 0, 0, 0⟩, ⟨opMovImm64, 0, 0, 0, 2⟩, ⟨opExit, 0, 0, 0, 0⟩] := by decide

/-- Every jump the assembler resolves is forward, in int16 range and inside the program. -/
theorem asm_jumps_in_range (evs : List Ev) (prog : List Insn) (hp : InsPlain evs) (ha : assemble evs = some prog) :
    JumpsOK prog :=
  asm_jumps_ok evs none [] [] prog hp ha

-- non-vacuity: the example program above satisfies the hypothesis
example : InsPlain [jump .exit, movImm64 R0 7, .label .exit, movImm64 R0 2, exitI] := by
  intro i hi; simp [movImm64, exitI, mk, jump, mkJ] at hi; rcases hi with rfl | rfl | rfl <;> decide

/-- No splitting, no trampolines: one block with exactly the plain events. -/
theorem expand_noSplit_all (c : Cfg) (xdp : Bool) (bevs : List BEv) (h : c.policyMapStride = 0)
    (hlen : (flat bevs).length < c.trampolineStride) : expand c xdp bevs = [flat bevs] :=
  expand_noSplit c xdp bevs h hlen

/-- The match part of any API-valid rule is a guard for the reference `ruleMatch`
(IPv4 and IPv6 programs; `SetCtx`: full-size state value, IP-set map FD ≠ state map FD). -/
theorem rule_guard (env : Env) (st : List Byte) (hc : SetCtx env st) (rid : Nat) (r : Rule) (destLeg : Leg)
    (hok : RuleOK r) :
    Guard env st (.ruleNoMatch rid) (flat (ruleMatches env.c rid r destLeg)) (ruleMatch env (pktOfD st) destLeg r) :=
  (ruleMatches_guard env st hc rid r destLeg hok).1

/-- rule → policy → tier: `writeTiers` decides what the reference `evalTiers` decides. -/
theorem tiers_verdict (env : Env) (st : List Byte) (hc : SetCtx env st) (leg : Leg) (al : Label)
    (ts : List Tier) (rid tid : Nat) (hal : isAllowLabel al) (hts : TiersGood ts) :
    Decides env st (flat (writeTiers env.c leg al ts rid tid).1) (tiersDec al (evalTiers env (pktOfD st) leg ts)) :=
  (tiers_block env st (pktOfD st) leg al ts rid tid hal (hts.plain hc)).1

/-- profiles: `writeProfiles` decides what the reference `evalProfiles` (pass ⇒ deny) decides. -/
theorem profiles_verdict (env : Env) (st : List Byte) (hc : SetCtx env st) (al : Label)
    (ps : List Policy) (noMatchID rid : Nat) (hal : isAllowLabel al)
    (hps : ProfsGood ps) :
    Decides env st (flat (writeProfiles env.c al ps noMatchID rid).1)
      (profDec al (evalProfiles true env (pktOfD st) ps)) :=
  (profiles_block env st (pktOfD st) al ps noMatchID rid hal (hps.plain hc)).1

/-- Whole program on the label-level semantics (`_partial`: the plain event list of ONE program, before
assembly, trampolines and splitting — those are `polprog_verdict_partial` / `_long_partial` / `polprog_chain_partial`). -/
theorem lrun_program_partial (env : Env) (st : List Byte) (r : Rules) (hok : ProgOK env st r)
    (hs : env.stateOK = true) :
    ∃ o, (lrun env (flat (compile env.c r)) (Mach.init st)).obs = some o ∧
      (expectedObs env r.forXDP (verdict env r (pktOfD st))).agrees o = true :=
  lrun_program env st r hok hs

/-- **Whole program, assembled instructions** (IPv4 or IPv6 program, not split — `NoSplit`: splitting
disabled, or fewer jump-class instructions than the per-program limit — and shorter than the
trampoline stride): running the instructions `Builder.Instructions` returns ends as the reference
verdict demands. -/
theorem polprog_verdict_partial (env : Env) (st : List Byte) (r : Rules) (hok : ProgOK env st r)
    (hs : env.stateOK = true) (hnosplit : NoSplit env.c (flat (compile env.c r)))
    (hshort : (flat (compile env.c r)).length < env.c.trampolineStride)
    (prog : List Insn) (hi : instructions env.c r = some (some [prog])) :
    ∃ o, (execL env prog (Mach.init st)).obs = some o ∧
      (expectedObs env r.forXDP (verdict env r (pktOfD st))).agrees o = true := by
  have hasm : assemble (flat (compile env.c r)) = some prog := by
    unfold instructions at hi
    split at hi
    · cases hi
    · rw [expand_one env.c r.forXDP (compile env.c r) hnosplit hshort] at hi
      simp only [List.mapM_cons, List.mapM_nil, Option.some.injEq] at hi
      cases ha : assemble (flat (compile env.c r)) with
      | none => simp [ha] at hi
      | some p => simp [ha] at hi; rw [hi]
  obtain ⟨o, ho, hag⟩ := lrun_program env st r hok hs
  have hnf : (lrun env (flat (compile env.c r)) (Mach.init st)).isFault = false := by
    cases hl : lrun env (flat (compile env.c r)) (Mach.init st) with
    | fault => rw [hl] at ho; simp [Outcome.obs] at ho
    | «exit» _ _ => rfl
    | tail _ _ _ => rfl
  rw [assemble_sound env _ prog _ hasm hnf]
  exact ⟨o, ho, hag⟩

-- non-vacuity of `ProgOK`: a workload endpoint with one tier (allow TCP from 10.0.0.0/8 to port 80 in set 7) and a profile
def exRule1 : Rule :=
  { action := "allow", protocol := some (Proto.name "tcp"), srcNet := [{ v6 := false, addr := 167772160, pfx := 8 }],
    dstPorts := [{ first := 80, last := 80 }], dstIpSetIds := [7] }
def exRule2 : Rule := { action := "deny" }
def exRules : Rules :=
  { tiers := [{ endAction := EndAction.deny, endRuleID := 1, policies := [{ rules := [exRule1] }] }],
    profiles := [{ rules := [exRule2] }] }

theorem exRules_progOK (env : Env) (st : List Byte) (hc : SetCtx env st) : ProgOK env st exRules := by
  have hr1 : RuleOK exRule1 := by
    refine ⟨?_, ?_, ?_, ?_⟩
    · intro pr h
      simp [exRule1] at h
      subst h
      exact ⟨6, by decide, by decide, by decide⟩
    · intro pr h; simp [exRule1] at h
    · intro id h; simp [Rule.ipSetIDs, exRule1] at h; subst h; decide
    · intro pr h; simp [exRule1] at h; subst h; exact ⟨by decide, by decide, by decide⟩
  have hr2 : RuleOK exRule2 := by
    refine ⟨?_, ?_, ?_, ?_⟩
    · intro pr h; simp [exRule2] at h
    · intro pr h; simp [exRule2] at h
    · intro id h; simp [Rule.ipSetIDs, exRule2] at h
    · intro pr h; simp [exRule2] at h
  refine ⟨hc, ?_, ?_, ?_, ?_, ?_, ?_⟩
  · intro t ht pol hp rule hr
    simp [exRules] at ht; subst ht; simp at hp; subst hp; simp at hr; subst hr
    exact ⟨by decide, hr1⟩
  · intro t ht; simp [exRules] at ht
  · intro t ht; simp [exRules] at ht
  · intro t ht; simp [exRules] at ht
  · intro pol hp rule hr
    simp [exRules] at hp; subst hp; simp at hr; subst hr
    exact ⟨by decide, hr2⟩
  · intro pol hp; simp [exRules] at hp

-- `SetCtx` is inhabited (distinct map FDs, a full-size state value)
def exCfg : Cfg := { ipSetMapFD := 11, stateMapFD := 12, staticJumpMapFD := 13, policyJumpMapFD := 14,
                     useJmps := true, allowJmp := 5, denyJmp := 9 }
example : SetCtx { c := exCfg } (List.replicate 512 0) :=
  ⟨List.length_replicate, by decide⟩
example : SetCtx { c := { exCfg with v6 := true } } (List.replicate 512 0) :=
  ⟨List.length_replicate, by decide⟩

-- the build hypothesis of `polprog_verdict_partial` is satisfiable: `exRules` compiles to ONE program
example : (match instructions exCfg exRules with
    | some (some [_]) => true
    | _ => false) = true := by decide +kernel

-- IPv6: a program with a /40 source CIDR (two sections, early exit) and a /128 (four sections) and an IP set
def exRule6 : Rule :=
  { action := "allow", protocol := some (Proto.name "udp"),
    srcNet := [{ v6 := true, addr := 0x20010db8ff0000000000000000000000, pfx := 40 }],
    notDstNet := [{ v6 := true, addr := 0x20010db8000000000000000000000001, pfx := 128 }], srcIpSetIds := [9] }
def exRules6 : Rules :=
  { tiers := [{ endAction := EndAction.pass, endRuleID := 1, policies := [{ rules := [exRule6] }] }],
    profiles := [{ rules := [exRule2] }] }
example : (match instructions { exCfg with v6 := true } exRules6 with
    | some (some [p]) => decide (0 < p.length)
    | _ => false) = true := by decide +kernel

example (env : Env) (st : List Byte) (hc : SetCtx env st) : ProgOK env st exRules6 := by
  have hr1 : RuleOK exRule6 := by
    refine ⟨?_, ?_, ?_, ?_⟩
    · intro pr h
      simp [exRule6] at h
      subst h
      exact ⟨17, by decide, by decide, by decide⟩
    · intro pr h; simp [exRule6] at h
    · intro id h; simp [Rule.ipSetIDs, exRule6] at h; subst h; decide
    · intro pr h; simp [exRule6] at h
  have hr2 : RuleOK exRule2 := by
    refine ⟨?_, ?_, ?_, ?_⟩
    · intro pr h; simp [exRule2] at h
    · intro pr h; simp [exRule2] at h
    · intro id h; simp [Rule.ipSetIDs, exRule2] at h
    · intro pr h; simp [exRule2] at h
  refine ⟨hc, ?_, ?_, ?_, ?_, ?_, ?_⟩
  · intro t ht pol hp rule hr
    simp [exRules6] at ht; subst ht; simp at hp; subst hp; simp at hr; subst hr
    exact ⟨by decide, hr1⟩
  · intro t ht; simp [exRules6] at ht
  · intro t ht; simp [exRules6] at ht
  · intro t ht; simp [exRules6] at ht
  · intro pol hp rule hr
    simp [exRules6] at hp; subst hp; simp at hr; subst hr
    exact ⟨by decide, hr2⟩
  · intro pol hp; simp [exRules6] at hp

-- ... short of the trampoline stride and without splitting
example : exCfg.policyMapStride = 0 ∧ (flat (compile exCfg exRules)).length < exCfg.trampolineStride := by
  decide +kernel

/-! ### `Builder.Instructions` is total on valid input (IPv4 or IPv6, one unsplit program) -/

/-- **compile_total (IPv4 or IPv6, not split)**: for every configuration whose policy rules have an
allow/deny/pass/next-tier/log action, whose profile rules have an allow/deny/pass/next-tier/log action,
and whose rules carry non-zero IP-set ids and at most one destination IP set (`Buildable` — what
the calculation graph hands to the builder), the builder neither panics nor does `Assemble` fail:
every jump it emits targets a label defined LATER in the program, at most 32767 instructions
ahead.  `hshort`/`hstride`: the program fits one block below the trampoline stride
(`SetTrampolineStride` caps the stride at 32667).  `_partial`: NOT covered are split builds and programs
beyond the trampoline stride (there `Assemble` succeeding is checked by the instruction-exact run only). -/
theorem compile_total_partial (c : Cfg) (r : Rules) (hb : Buildable r)
    (hnosplit : NoSplit c (flat (compile c r))) (hshort : (flat (compile c r)).length < c.trampolineStride)
    (hstride : c.trampolineStride ≤ 32768) :
    ∃ prog, instructions c r = some (some [prog]) :=
  instructions_total c r hb hnosplit hshort hstride

/-- `Assemble` succeeds on ANY event list whose jumps all target later labels and that has at most
32767 events (the assembler model that is compared with the real `Block.Assemble`). -/
theorem assemble_total_all (evs : List Ev) (hc : closedIn [] evs = true) (hlen : evs.length ≤ 32767) :
    ∃ prog, assemble evs = some prog := by
  have h := asm_total evs none [] [] hc hlen
  unfold assemble
  cases h' : asmGo evs none [] [] with
  | none => rw [h'] at h; cases h
  | some p => exact ⟨p, rfl⟩

/-- The whole-program theorem without a build hypothesis: the program EXISTS and decides as the
reference demands (`_partial`: one unsplit program below the stride, like `compile_total_partial`). -/
theorem polprog_built_verdict_partial (env : Env) (st : List Byte) (r : Rules) (hok : ProgOK env st r)
    (hb : Buildable r) (hs : env.stateOK = true) (hnosplit : NoSplit env.c (flat (compile env.c r)))
    (hshort : (flat (compile env.c r)).length < env.c.trampolineStride)
    (hstride : env.c.trampolineStride ≤ 32768) :
    ∃ prog, instructions env.c r = some (some [prog]) ∧
      ∃ o, (execL env prog (Mach.init st)).obs = some o ∧
        (expectedObs env r.forXDP (verdict env r (pktOfD st))).agrees o = true := by
  obtain ⟨prog, hi⟩ := instructions_total env.c r hb hnosplit hshort hstride
  exact ⟨prog, hi, polprog_verdict_partial env st r hok hs hnosplit hshort prog hi⟩

-- non-vacuity: the example configuration is buildable, the stride bound holds for the default stride
example : Buildable exRules := by
  have i1 : RuleIds exRule1 := ⟨by decide, by intro id h; simp [Rule.ipSetIDs, exRule1] at h; subst h; decide⟩
  have i2 : RuleIds exRule2 := ⟨by decide, by intro id h; simp [Rule.ipSetIDs, exRule2] at h⟩
  refine ⟨?_, ?_, ?_, ?_, ?_, ?_⟩
  · intro t ht pol hp rule hr
    simp [exRules] at ht; subst ht; simp at hp; subst hp; simp at hr; subst hr
    exact ⟨by decide, i1⟩
  · intro t ht; simp [exRules] at ht
  · intro t ht; simp [exRules] at ht
  · intro t ht; simp [exRules] at ht
  · intro pol hp rule hr
    simp [exRules] at hp; subst hp; simp at hr; subst hr
    exact ⟨by decide, i2⟩
  · intro pol hp; simp [exRules] at hp
example : exCfg.trampolineStride ≤ 32768 := by decide

-- `assemble_total_all`: a closed list, and why closedness is needed (a jump to an undefined label does not assemble)
example : closedIn [] [jump .exit, movImm64 R0 7, .label .exit, movImm64 R0 2, exitI] = true := by decide
example : assemble [jump .deny] = none := by decide

/-! ### Unsplit programs of any length: trampolines -/

/-- **Whole program, unsplit, ANY length** (`policyMapStride = 0`): when the program is longer than the
trampoline stride the block inserts long-jump trampolines (`JumpA skip; (t: JumpA t)*; skip:`) for the
still unresolved jump targets; the instructions `Builder.Instructions` returns still end as the
reference verdict demands.  `_partial`: NOT covered are builds with splitting enabled, and the build
succeeding is a hypothesis (`hi`; `compile_total_partial` proves it only for programs below the stride). -/
theorem polprog_verdict_long_partial (env : Env) (st : List Byte) (r : Rules) (hok : ProgOK env st r)
    (hs : env.stateOK = true) (hnosplit : env.c.policyMapStride = 0)
    (prog : List Insn) (hi : instructions env.c r = some (some [prog])) :
    ∃ o, (execL env prog (Mach.init st)).obs = some o ∧
      (expectedObs env r.forXDP (verdict env r (pktOfD st))).agrees o = true :=
  polprog_verdict_long env st r hok hs hnosplit prog hi

/-- Inserting trampoline blocks anywhere (not before the second slot of a `LoadImm64`, not for skip
labels) into ANY event list whose jumps do not target skip labels preserves its semantics. -/
theorem trampolines_sound_all (env : Env) (o n : List Ev) (h : Relayed o n) (hn : NoSkipJ o) (m : Mach) :
    lrun env n m = lrun env o m :=
  (relayed_sound env n.length o n (Nat.le_refl _) h hn).1 m

/-- With splitting disabled the builder's single block is the plain event list with trampolines. -/
theorem expand_relayed_all (c : Cfg) (xdp : Bool) (bevs : List BEv) (hns : c.policyMapStride = 0)
    (hn : NoSkipJ (flat bevs)) : ∃ n, expand c xdp bevs = [n] ∧ Relayed (flat bevs) n :=
  expand_relayed c xdp bevs hns hn

-- `expand_relayed_all`: no jump of the builder's output targets a trampoline-skip label
example (env : Env) (st : List Byte) (hc : SetCtx env st) : NoSkipJ (flat (compile env.c exRules)) :=
  compile_noSkipJ env st exRules (exRules_progOK env st hc)

-- non-vacuity: with a trampoline stride of 20 the example program really gets trampolines
-- (the block is longer than the plain event list) and still builds to one program
example : (match expand { exCfg with trampolineStride := 20 } false (compile { exCfg with trampolineStride := 20 } exRules) with
    | [n] => decide ((flat (compile { exCfg with trampolineStride := 20 } exRules)).length < n.length)
    | _ => false) = true := by decide +kernel
example : (match instructions { exCfg with trampolineStride := 20 } exRules with
    | some (some [_]) => true
    | _ => false) = true := by decide +kernel

-- `NoSplit` also covers the production setting: splitting enabled, fewer jumps than the limit
example : NoSplit { exCfg with policyMapStride := 1000 } (flat (compile { exCfg with policyMapStride := 1000 } exRules)) :=
  Or.inr (by decide +kernel)

-- `trampolines_sound_all`: a list with one trampoline block (for `deny`) in front of its second instruction
example : Relayed [movImm64 R0 1, jump .deny, .label .deny, exitI]
    (movImm64 R0 1 :: (trampBlock 0 [.deny] ++ jump .deny :: [.label .deny, exitI])) :=
  .cons _ (.tramp 0 [.deny] _ (by intro t ht; simp at ht; subst ht; rfl) (by intro j hj; simp [jump, mkJ] at hj)
    (Relayed.refl _))
example : NoSkipJ [movImm64 R0 1, jump .deny, .label .deny, exitI] := by
  intro i l h; simp [movImm64, exitI, mk, jump, mkJ] at h; rw [h.2]; rfl

-- `polprog_state_lookup_fails`: an environment whose state lookup fails
example : ({ c := exCfg, stateOK := false } : Env).stateOK = false := rfl

/-- **The state-map lookup of the header fails** (no `cali_tc_state` entry): the program (unsplit, any
length) exits with TC_ACT_SHOT (XDP: XDP_DROP) and leaves the state value, hence `pol_rc`, untouched. -/
theorem polprog_state_lookup_fails (env : Env) (st : List Byte) (r : Rules) (hok : ProgOK env st r)
    (hs : env.stateOK = false) (hnosplit : env.c.policyMapStride = 0)
    (prog : List Insn) (hi : instructions env.c r = some (some [prog])) :
    ∃ m, m.st = st ∧ execL env prog (Mach.init st) = .exit (sext32 (if r.forXDP then 1 else 2)) m :=
  polprog_stateFail env st r hok hs hnosplit prog hi

/-! ### Builds split into a chain of programs -/

/-- **Split builds** (`maybeSplitProgram`): when the per-program jump limit is reached at one of the
builder's call sites (before every rule, every CIDR, every named-port set, after every port range) the
current program is finished with `mov r0, 0; goto next-program`, a copy of the footer, a landing pad per
still unresolved jump target (`t_i: mov r0, i+1; goto next-program`) and the `next-program` block (stash
R0 in `pol_rc`, tail-call the next program through the policy jump map); the next program starts with
the header, reads R0 back from `pol_rc`, clears it, dispatches `if r0 == i+1 goto t_i`, and re-executes
the reload instructions of the call site (the port loop reloads the port into R1).

The theorem: for every configuration as in `polprog_verdict_partial`, the programs
`Builder.Instructions` returns, run as a CHAIN from the first one (a successful policy-jump tail call
continues in the addressed later program with fresh registers and stack and the state as it is), end
as the reference verdict demands.  `ChainEnv`: state lookups and policy-jump tail calls succeed, the
slots `policyMapIndex + k * stride` of the `nmax + 1` programs fit 32 bits, the two jump maps differ.
`ShortBlocks`: no program reaches the trampoline stride (so no trampoline is written inside a
split program).  `_partial`: NOT covered are trampolines inside the programs of a split build
(`ShortBlocks`), a FAILING policy-jump tail call (`ChainEnv` assumes success; the code then falls through
to the `exit` after the call with the drop code), slot arithmetic beyond 32 bits; the build succeeding is a
hypothesis here (`hi`), discharged in `polprog_chain_built_partial`. -/
theorem polprog_chain_partial (env : Env) (st : List Byte) (r : Rules) (hok : ProgOK env st r) (nmax : Nat)
    (he : ChainEnv env nmax) (hsb : ShortBlocks env.c r.forXDP (compile env.c r) {})
    (hnb : (cont env.c r.forXDP (compile env.c r) {}).2.length ≤ nmax)
    (progs : List (List Insn)) (hi : instructions env.c r = some (some progs)) :
    ∃ o, (runChain env progs 0 st).obs = some o ∧
      (expectedObs env r.forXDP (verdict env r (pktOfD st))).agrees o = true :=
  polprog_chain env st r hok nmax he hsb hnb progs hi

/-- The programs `expand` produces when no block reaches the trampoline stride: the split fold
`cont` (bookkeeping with `raw` only). -/
theorem expand_cont_all (c : Cfg) (xdp : Bool) (bevs : List BEv) (hs : ShortBlocks c xdp bevs {}) :
    expand c xdp bevs = (cont c xdp bevs {}).1 :: (cont c xdp bevs {}).2 :=
  expand_cont c xdp bevs hs

-- non-vacuity: with a jump limit of 6 the example configuration is really split (4 programs),
-- the hypotheses of `polprog_chain_partial` hold for it, and the chain is what `Instructions` returns
def exCfgSplit : Cfg := { exCfg with maxJumps := 6, policyMapStride := 1000, policyMapIndex := 3 }
example : (cont exCfgSplit false (compile exCfgSplit exRules) {}).2.length = 3 := by decide +kernel
example : (match instructions exCfgSplit exRules with
    | some (some [_, _, _, _]) => true
    | _ => false) = true := by decide +kernel
example : ShortBlocks exCfgSplit false (compile exCfgSplit exRules) {} := by
  unfold ShortBlocks; decide +kernel
example : ChainEnv { c := exCfgSplit } 3 :=
  ⟨rfl, rfl, by decide, by decide, by decide, by decide, by decide, by decide⟩
example : ProgOK { c := exCfgSplit } (List.replicate 512 0) exRules :=
  exRules_progOK _ _ ⟨List.length_replicate, by decide⟩

/-- **`Builder.Instructions` is total on SPLIT builds**: for a buildable configuration (`Buildable`, as in
`compile_total_partial`) whose programs all stay below the trampoline stride, the builder neither panics nor
does `Assemble` fail for ANY program of the chain: at every split each still unresolved jump target gets a
landing pad, `next-program` is defined by the glue, the dispatch jumps of the continuation program are
resolved later or get landing pads again, so every block ends with an empty fix-up table (`cont_fix`), and a
block with an empty fix-up table of at most 32767 events assembles (`asm_of_fix`).  `_partial`: NOT covered
are programs that reach the trampoline stride (`ShortBlocks`). -/
theorem compile_total_split_partial (c : Cfg) (r : Rules) (hb : Buildable r)
    (hsb : ShortBlocks c r.forXDP (compile c r) {}) (hstride : c.trampolineStride ≤ 32767) :
    ∃ progs, instructions c r = some (some progs) :=
  instructions_total_split c r hb hsb hstride

/-- `polprog_chain_partial` without a build hypothesis: the chain of programs EXISTS and decides as the
reference demands.  `_partial`: NOT covered are trampolines inside the programs of a split build
(`ShortBlocks`), a failing policy-jump tail call and slot arithmetic beyond 32 bits (`ChainEnv`). -/
theorem polprog_chain_built_partial (env : Env) (st : List Byte) (r : Rules) (hok : ProgOK env st r)
    (hb : Buildable r) (nmax : Nat) (he : ChainEnv env nmax)
    (hsb : ShortBlocks env.c r.forXDP (compile env.c r) {})
    (hnb : (cont env.c r.forXDP (compile env.c r) {}).2.length ≤ nmax) (hstride : env.c.trampolineStride ≤ 32767) :
    ∃ progs, instructions env.c r = some (some progs) ∧
      ∃ o, (runChain env progs 0 st).obs = some o ∧
        (expectedObs env r.forXDP (verdict env r (pktOfD st))).agrees o = true :=
  polprog_chain_built env st r hok hb nmax he hsb hnb hstride

-- non-vacuity: the split example configuration satisfies the extra hypotheses (`Buildable exRules` and
-- `ShortBlocks exCfgSplit …` are shown above)
example : exCfgSplit.trampolineStride ≤ 32767 := by decide
-- every call site's reload sequence is jump-free (the hypothesis `cont_fix` needs, proved for all inputs)
example : (compile exCfgSplit exRules).all mOK = true := by decide +kernel

/-! ### Former findings, fixed in the code (de590aa, c209e06): now positive statements -/

/-- A PROFILE rule with action `log` (valid in the Calico API) used to make `Builder.Instructions`
panic ("empty action label"); `writeProfile`'s action-label map now sends `log` to the log label, so
the rule sets the log flag and evaluation continues — exactly what `polprog_verdict_partial` /
`compile_total_partial` now state for ALL valid profile actions (`ProfsGood`/`Buildable` ask for
allow/deny/pass/next-tier/log, like for policy rules). -/
theorem profile_log_label (al : Label) : profileActionLabel al "log" = .log ∧ profileActionLabel al "Log" = .log := by
  constructor <;> (rw [profileActionLabel_actOf]; rfl)

-- the former counterexample builds (and so does a tier policy with the same rule)
example : (instructions {} { profiles := [⟨[{ action := "log" }]⟩] }).isSome = true := by decide
example : (instructions {} { tiers := [{ endAction := .deny, endRuleID := 0, policies := [⟨[{ action := "log" }]⟩] }] }).isSome = true := by
  decide
-- ... and it is inside the hypotheses of the whole-program theorems
example : Buildable { profiles := [⟨[{ action := "log" }, { action := "allow" }]⟩] } := by
  refine ⟨?_, ?_, ?_, ?_, ?_, ?_⟩
  · intro t ht; simp at ht
  · intro t ht; simp at ht
  · intro t ht; simp at ht
  · intro t ht; simp at ht
  · intro pol hp r hr
    simp at hp; subst hp
    simp at hr
    rcases hr with rfl | rfl <;> exact ⟨by decide, by decide, by intro id h; simp [Rule.ipSetIDs] at h⟩
  · intro pol hp; simp at hp

/-- **The builder's protocol-name table agrees with the API** (it used to know tcp/udp/icmp/sctp only
and compiled `icmpv6` / `udplite` to protocol 0): every protocol the reference semantics knows is
compiled to its IANA number, so the `ProtoOK` side condition of `ProgOK` holds for every API-valid
protocol. -/
theorem proto_names_agree (pr : Proto) (k : Nat) (h : protoNumberRef pr = some k) :
    protocolToNumber pr = (k : Int) ∧ ProtoOK pr := by
  obtain ⟨k', hk', h1, h2⟩ := protoOK_of_ref pr k h
  rw [h] at h1; cases h1
  exact ⟨h2, protoOK_of_ref pr k h⟩

example : protocolToNumber (.name "ICMPv6") = 58 ∧ protocolToNumber (.name "udplite") = 136 := by decide

end CalicoVerif.C11
