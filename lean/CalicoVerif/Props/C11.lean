import CalicoVerif.Model.C11Ref
/-!
C11 — BPF policy programs reach the same verdict as the policy semantics.
-/
namespace CalicoVerif.C11

end CalicoVerif.C11
