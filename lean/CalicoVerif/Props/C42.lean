import CalicoVerif.Proofs.C42
/-!
C42 — BPF service load balancing state is never inconsistent mid-update.

Property theorems (helper lemmas: `CalicoVerif.Proofs.C42`, model: `CalicoVerif.Model.C42`).

* `Consistent d`: every frontend's backend count refers only to backend entries that exist.
* `Reach n d0 σ`: `σ` is reachable from the maps `d0` by single map writes of one `apply` whose
  desired state is `n` — in ANY order inside a phase, with ANY writes failing, stopping ANYWHERE.
-/
namespace CalicoVerif.C42

/-- **After every individual map write** of one sync — whatever the order inside a phase, whichever
writes fail, wherever the process stops — the maps stay consistent, provided they were consistent
before and the desired state is consistent. -/
theorem prefix_consistent {n d0 : DP} (hn : Consistent n) (h0 : Consistent d0) {σ : St}
    (r : Reach n d0 σ) : Consistent σ.dp :=
  (r.inv hn h0).consistent hn

/-- The desired maps `apply` computes are consistent for every syncer state (also a stale or
half-initialised one), every service/endpoint state, every service order and every ID choice. -/
theorem desired_consistent (s : Syncer) (st : KState) (hint : AMap SvcKey Nat) :
    Consistent (buildDesired s st hint).des :=
  (buildDesired_ok s st hint).cons

/-- One sync by any syncer from consistent maps: consistent after every single write. -/
theorem apply_any_order_consistent (s : Syncer) (st : KState) (hint : AMap SvcKey Nat) {d : DP}
    (h0 : Consistent d) {σ : St} (r : Reach (buildDesired s st hint).des d σ) : Consistent σ.dp :=
  prefix_consistent (desired_consistent s st hint) h0 r

/-- Map states reachable from empty maps by ANY history of syncs: each sync by a syncer in an
arbitrary internal state (this covers restarts, failed and half-done earlier syncs), for an
arbitrary service/endpoint state, executed up to an arbitrary point (crash = stop). -/
inductive DPReach : DP → Prop
  | empty : DPReach ⟨[], []⟩
  | sync {d : DP} (s : Syncer) (st : KState) (hint : AMap SvcKey Nat) {σ : St} :
      DPReach d → Reach (buildDesired s st hint).des d σ → DPReach σ.dp

/-- **All histories, all crash points**: every map state ever observable is consistent. -/
theorem history_consistent {d : DP} (h : DPReach d) : Consistent d := by
  induction h with
  | empty => exact consistent_empty
  | sync s st hint _ r ih => exact apply_any_order_consistent s st hint ih r

/-! ### The executable model (what the correspondence harness compares with the real Syncer) -/

theorem startupBuildPrev_dp (s : Syncer) (st : KState) : (startupBuildPrev s st).dp = s.dp := rfl

/-- the syncer state `Syncer.apply` builds the desired maps from. -/
def prepared (s : Syncer) (st : KState) : Syncer :=
  if s.synced then { s with prevSvc := s.newSvc, prevEps := s.newEps } else startupBuildPrev s st

theorem prepared_dp (s : Syncer) (st : KState) : (prepared s st).dp = s.dp := by
  unfold prepared; split <;> rfl

theorem apply_phases (s : Syncer) (st : KState) (hint : AMap SvcKey Nat) (fp : Nat) :
    (s.apply st hint fp).phases = (schedule s.dp (buildDesired (prepared s st) st hint).des fp).1 := by
  unfold Syncer.apply prepared
  split <;> rfl

theorem apply_ok (s : Syncer) (st : KState) (hint : AMap SvcKey Nat) (fp : Nat) :
    (s.apply st hint fp).ok = (schedule s.dp (buildDesired (prepared s st) st hint).des fp).2 := by
  unfold Syncer.apply prepared
  split <;> rfl

theorem apply_dp (s : Syncer) (st : KState) (hint : AMap SvcKey Nat) (fp : Nat) :
    (s.apply st hint fp).syncer.dp = runWrites s.dp (s.apply st hint fp).phases.flatten := by
  unfold Syncer.apply
  split <;> rfl

/-- The model's `Apply`: after every prefix of the writes it performs (phase `fp` failing or not)
the maps are consistent. -/
theorem apply_every_write_consistent (s : Syncer) (st : KState) (hint : AMap SvcKey Nat) (fp : Nat)
    (h0 : Consistent s.dp) {ws : List Write} (h : ws <+: (s.apply st hint fp).phases.flatten) :
    Consistent (runWrites s.dp ws) := by
  rw [apply_phases] at h
  obtain ⟨ph, r⟩ := fullWrites_reach s.dp _ (h.trans (schedule_prefix _ _ fp))
  exact apply_any_order_consistent _ st hint h0 r

/-- histories of the executable model: syncs (with an optional failing phase) and restarts. -/
inductive Op where
  | sync (st : KState) (hint : AMap SvcKey Nat) (failPhase : Nat)
  | restart (npIPs : List Nat) (routes : AMap Nat Route)

def runOp (s : Syncer) : Op → Syncer
  | .sync st hint fp => (s.apply st hint fp).syncer
  | .restart np rts => Syncer.new np rts s.dp

def runOps (s : Syncer) (ops : List Op) : Syncer := ops.foldl runOp s

theorem runOps_dpReach (s : Syncer) (hs : DPReach s.dp) (ops : List Op) : DPReach (runOps s ops).dp := by
  induction ops generalizing s with
  | nil => exact hs
  | cons op ops ih =>
    apply ih
    cases op with
    | restart np rts => exact hs
    | sync st hint fp =>
      simp only [runOp]
      rw [apply_dp, apply_phases]
      obtain ⟨ph, r⟩ := fullWrites_reach s.dp _ (schedule_prefix s.dp (buildDesired (prepared s st) st hint).des fp)
      exact DPReach.sync _ st hint hs r

/-- every history of the model from empty maps: consistent after every single write of every sync. -/
theorem model_history_every_write (np : List Nat) (rts : AMap Nat Route) (ops : List Op)
    (st : KState) (hint : AMap SvcKey Nat) (fp : Nat) {ws : List Write}
    (h : ws <+: ((runOps (Syncer.new np rts ⟨[], []⟩) ops).apply st hint fp).phases.flatten) :
    Consistent (runWrites (runOps (Syncer.new np rts ⟨[], []⟩) ops).dp ws) :=
  apply_every_write_consistent _ st hint fp
    (history_consistent (runOps_dpReach _ DPReach.empty ops)) h

/-! ### Once a sync completes -/

theorem schedule_ok (d n : DP) (fp : Nat) (h : (schedule d n fp).2 = true) :
    (schedule d n fp).1.flatten = fullWrites d n := by
  simp only [schedule] at h ⊢
  split at h; · simp at h
  split at h; · simp at h
  split at h; · simp at h
  split at h; · simp at h
  rename_i h1 h2 h3 h4
  simp only [h1, h2, h3, h4, fullWrites]
  simp

/-- **Final exactness / stale entries removed**: when `Apply` succeeds, the frontend and backend maps
are exactly the desired maps: every desired entry is present with its value and nothing else is. -/
theorem apply_final_exact (s : Syncer) (st : KState) (hint : AMap SvcKey Nat) (fp : Nat)
    (hok : (s.apply st hint fp).ok = true) :
    (∀ k, (s.apply st hint fp).syncer.dp.F.get k = (buildDesired (prepared s st) st hint).des.F.get k) ∧
    (∀ k, (s.apply st hint fp).syncer.dp.B.get k = (buildDesired (prepared s st) st hint).des.B.get k) := by
  have hok' : (schedule s.dp (buildDesired (prepared s st) st hint).des fp).2 = true := by
    rw [← apply_ok]; exact hok
  rw [apply_dp, apply_phases, schedule_ok _ _ _ hok']
  exact fullWrites_exact _ _

/-! ### `readyOrdered`: exactly the ready endpoints, local ones first -/

theorem mem_readyOrdered (eps : List Ep) (e : Ep) : e ∈ readyOrdered eps ↔ e ∈ eps ∧ e.ready = true := by
  simp only [readyOrdered, List.mem_append, List.mem_filter, Bool.and_eq_true, Bool.not_eq_true']
  constructor
  · rintro (⟨h, _, h2⟩ | ⟨h, _, h2⟩) <;> exact ⟨h, h2⟩
  · rintro ⟨h, h2⟩
    cases hl : e.isLocal
    · exact Or.inr ⟨h, rfl, h2⟩
    · exact Or.inl ⟨h, rfl, h2⟩

theorem readyOrdered_local_first (eps : List Ep) (i : Nat) (hi : i < (readyOrdered eps).length) :
    (readyOrdered eps)[i].isLocal = decide (i < localReady eps) := by
  unfold readyOrdered localReady at *
  by_cases h : i < (eps.filter (fun e => e.isLocal && e.ready)).length
  · rw [List.getElem_append_left h]
    have := List.getElem_mem h
    simp only [List.mem_filter, Bool.and_eq_true] at this
    simp [h, this.2.1]
  · rw [List.getElem_append_right (by omega)]
    have hm := List.getElem_mem (l := eps.filter (fun e => !e.isLocal && e.ready))
      (n := i - (eps.filter (fun e => e.isLocal && e.ready)).length) (by simp at hi; omega)
    simp only [List.mem_filter, Bool.and_eq_true, Bool.not_eq_true'] at hm
    simp [h, hm.2.1]
/-! ### What the cluster-IP frontend lists after a sync (full, under the code's own no-duplicates assumption)

`calls` / `fwrites` are ghost traces of the builder: every `updateService(skey, id, eps)` call and every
`bpfSvcs.Desired().Set(key, val)`.  Hypotheses: no NAT service ID is used by two `updateService` calls of
the sync (monitored on the real code by the harness oracle `id-shared`) and no frontend key is `Set`
twice ("we assume that k8s provide us with no duplicities", syncer.go). -/

theorem buildDesired_pres {P : Bld → Prop} (hp : Pres P) (s : Syncer) (st : KState) (hint : AMap SvcKey Nat)
    (h0 : P { des := ⟨[], []⟩, newSvc := [], newEps := [], nextId := s.nextId, fresh := [], calls := [], fwrites := [] }) :
    P (buildDesired s st hint) := by
  unfold buildDesired
  exact foldl_pres (P := P) (fun b p => applyService s st hint b p.1 p.2)
    (fun b p hb => hp.applyService hb s st hint p.1 p.2) st.svcs _ h0

/-- every service of the state is recorded: one `updateService` call with its (filtered) endpoints and
one frontend `Set` for `clusterIP:port` carrying that call's ID, the number of ready endpoints and the
number of local ready endpoints. -/
theorem service_recorded (s : Syncer) (st : KState) (hint : AMap SvcKey Nat) (sname : String) (svc : Svc)
    (hm : (sname, svc) ∈ st.svcs) :
    ∃ id v, (⟨sname, .prim⟩, id, epsFor s st sname svc) ∈ (buildDesired s st hint).calls ∧
      (zeroKey svc, v) ∈ (buildDesired s st hint).fwrites ∧ v.id = id ∧
      v.count = (readyOrdered (epsFor s st sname svc)).length ∧ v.lcl = localReady (epsFor s st sname svc) ∧
      v.aff = affOf svc := by
  unfold buildDesired
  have key : ∀ (l : List (String × Svc)) (b0 : Bld), (sname, svc) ∈ l →
      ∃ id v, (⟨sname, .prim⟩, id, epsFor s st sname svc) ∈ (l.foldl (fun b p => applyService s st hint b p.1 p.2) b0).calls ∧
        (zeroKey svc, v) ∈ (l.foldl (fun b p => applyService s st hint b p.1 p.2) b0).fwrites ∧ v.id = id ∧
        v.count = (readyOrdered (epsFor s st sname svc)).length ∧ v.lcl = localReady (epsFor s st sname svc) ∧
        v.aff = affOf svc := by
    intro l
    induction l with
    | nil => intro b0 h; simp at h
    | cons p rest ih =>
      intro b0 hm'
      simp only [List.foldl_cons]
      rcases List.mem_cons.1 hm' with h | h
      · subst h
        obtain ⟨id, v, h1, h2, h3⟩ := applySvc_records s.prevSvc hint b0 ⟨sname, .prim⟩ svc (epsFor s st sname svc)
        refine ⟨id, v, ?_⟩
        have hp := mem_pres (⟨sname, .prim⟩, id, epsFor s st sname svc) (zeroKey svc, v)
        have hstep : (⟨sname, .prim⟩, id, epsFor s st sname svc) ∈ (applyService s st hint b0 sname svc).calls ∧
            (zeroKey svc, v) ∈ (applyService s st hint b0 sname svc).fwrites := by
          unfold applyService
          exact hp.applyRest ⟨h1, h2⟩ _ _ _ _ _
        have := foldl_pres (P := fun b => (⟨sname, .prim⟩, id, epsFor s st sname svc) ∈ b.calls ∧ (zeroKey svc, v) ∈ b.fwrites)
          (fun b p => applyService s st hint b p.1 p.2) (fun b p hb => hp.applyService hb s st hint p.1 p.2) rest _ hstep
        exact ⟨this.1, this.2, h3⟩
      · exact ih _ h
  exact key st.svcs _ hm

/-- **Exactness of the cluster-IP frontend**: in the desired maps of a sync, the service's
`clusterIP:port` frontend carries the number of its ready endpoints and of its local ready endpoints, and
its backend `i` is the `i`-th ready endpoint in the order local first (`readyOrdered`,
`mem_readyOrdered`, `readyOrdered_local_first`). -/
theorem cluster_ip_frontend_exact (s : Syncer) (st : KState) (hint : AMap SvcKey Nat) (sname : String) (svc : Svc)
    (hm : (sname, svc) ∈ st.svcs)
    (hF : ((buildDesired s st hint).fwrites.map (·.1)).Nodup)
    (hI : ((buildDesired s st hint).calls.map (·.2.1)).Nodup) :
    ∃ v, (buildDesired s st hint).des.F.get (zeroKey svc) = some v ∧
      v.count = (readyOrdered (epsFor s st sname svc)).length ∧ v.lcl = localReady (epsFor s st sname svc) ∧
      v.aff = affOf svc ∧
      ∀ i (hi : i < (readyOrdered (epsFor s st sname svc)).length),
        (buildDesired s st hint).des.B.get ⟨v.id, i⟩ =
          some ⟨(readyOrdered (epsFor s st sname svc))[i].ip, (readyOrdered (epsFor s st sname svc))[i].port⟩ := by
  obtain ⟨id, v, hc, hw, hid, hcnt, hl, ha⟩ := service_recorded s st hint sname svc hm
  have hf : FOK (buildDesired s st hint) := buildDesired_pres FOK_pres s st hint (fun _ kv h => by simp at h)
  have hb : BOK (buildDesired s st hint) := buildDesired_pres BOK_pres s st hint (fun _ c h => by simp at h)
  refine ⟨v, hf hF _ hw, hcnt, hl, ha, ?_⟩
  intro i hi
  rw [hid]
  exact hb hI _ hc i hi

/-- … and therefore in the kernel maps once the sync completed. -/
theorem synced_cluster_ip_frontend_exact (s : Syncer) (st : KState) (hint : AMap SvcKey Nat) (fp : Nat)
    (hok : (s.apply st hint fp).ok = true) (sname : String) (svc : Svc) (hm : (sname, svc) ∈ st.svcs)
    (hF : ((buildDesired (prepared s st) st hint).fwrites.map (·.1)).Nodup)
    (hI : ((buildDesired (prepared s st) st hint).calls.map (·.2.1)).Nodup) :
    ∃ v, (s.apply st hint fp).syncer.dp.F.get (zeroKey svc) = some v ∧
      v.count = (readyOrdered (epsFor (prepared s st) st sname svc)).length ∧
      v.lcl = localReady (epsFor (prepared s st) st sname svc) ∧
      ∀ i (hi : i < (readyOrdered (epsFor (prepared s st) st sname svc)).length),
        (s.apply st hint fp).syncer.dp.B.get ⟨v.id, i⟩ =
          some ⟨(readyOrdered (epsFor (prepared s st) st sname svc))[i].ip,
                (readyOrdered (epsFor (prepared s st) st sname svc))[i].port⟩ := by
  obtain ⟨v, h1, h2, h3, _, h5⟩ := cluster_ip_frontend_exact (prepared s st) st hint sname svc hm hF hI
  obtain ⟨eF, eB⟩ := apply_final_exact s st hint fp hok
  exact ⟨v, by rw [eF]; exact h1, h2, h3, fun i hi => by rw [eB]; exact h5 i hi⟩

/-! ### Derived frontends list the same block; the ID hypothesis follows from the bookkeeping -/

/-- every service of the state: its cluster-IP frontend `Set` and, for every derived key, a `Set`
carrying the same ID, count and local count. -/
theorem service_derived_recorded (s : Syncer) (st : KState) (hint : AMap SvcKey Nat) (sname : String) (svc : Svc)
    (hm : (sname, svc) ∈ st.svcs) :
    ∃ v, (zeroKey svc, v) ∈ (buildDesired s st hint).fwrites ∧
      v.count = (readyOrdered (epsFor s st sname svc)).length ∧ v.lcl = localReady (epsFor s st sname svc) ∧
      ∀ k ∈ derivedKeys s svc, ∃ v', (k, v') ∈ (buildDesired s st hint).fwrites ∧
        v'.id = v.id ∧ v'.count = v.count ∧ v'.lcl = v.lcl := by
  unfold buildDesired
  have key : ∀ (l : List (String × Svc)) (b0 : Bld), (sname, svc) ∈ l →
      ∃ v, (zeroKey svc, v) ∈ (l.foldl (fun b p => applyService s st hint b p.1 p.2) b0).fwrites ∧
        v.count = (readyOrdered (epsFor s st sname svc)).length ∧ v.lcl = localReady (epsFor s st sname svc) ∧
        ∀ k ∈ derivedKeys s svc, ∃ v', (k, v') ∈ (l.foldl (fun b p => applyService s st hint b p.1 p.2) b0).fwrites ∧
          v'.id = v.id ∧ v'.count = v.count ∧ v'.lcl = v.lcl := by
    intro l
    induction l with
    | nil => intro b0 h; simp at h
    | cons p rest ih =>
      intro b0 hm'
      simp only [List.foldl_cons]
      rcases List.mem_cons.1 hm' with h | h
      · subst h
        obtain ⟨id, v, _, h2, hid, hcnt, hl, _, hns⟩ :=
          applySvc_records3 s.prevSvc hint b0 ⟨sname, .prim⟩ svc (epsFor s st sname svc)
        have later : ∀ w : FKey × FVal, w ∈ (applyService s st hint b0 sname svc).fwrites →
            w ∈ (rest.foldl (fun b p => applyService s st hint b p.1 p.2) (applyService s st hint b0 sname svc)).fwrites :=
          fun w hw => foldl_mono_w _ (fun w b p h => (memw_pres w).applyService h s st hint p.1 p.2) w rest _ hw
        refine ⟨v, later _ ?_, hcnt, hl, ?_⟩
        · unfold applyService
          exact (memw_pres _).applyRest h2 _ _ _ _ _
        · intro k hk
          obtain ⟨v', hm1, hs1, hs2, hs3⟩ := applyRest_records s hint _ sname svc (epsFor s st sname svc) _ hns k hk
          refine ⟨v', later _ (by unfold applyService; exact hm1), ?_, ?_, ?_⟩
          · rw [hs1, hid]
          · rw [hs2, hcnt]
          · rw [hs3, hl]
      · exact ih _ h
  exact key st.svcs _ hm

/-- **Exactness of the derived frontends**: in the desired maps of a sync every external-IP,
LoadBalancer (per source range, if configured) and node-port frontend of a service carries the same
ID, count and local count as its cluster-IP frontend — i.e. lists the same backend block. -/
theorem derived_frontends_exact (s : Syncer) (st : KState) (hint : AMap SvcKey Nat) (sname : String) (svc : Svc)
    (hm : (sname, svc) ∈ st.svcs)
    (hF : ((buildDesired s st hint).fwrites.map (·.1)).Nodup) :
    ∃ v, (buildDesired s st hint).des.F.get (zeroKey svc) = some v ∧
      ∀ k ∈ derivedKeys s svc, ∃ v', (buildDesired s st hint).des.F.get k = some v' ∧
        v'.id = v.id ∧ v'.count = v.count ∧ v'.lcl = v.lcl := by
  obtain ⟨v, hw, _, _, hd⟩ := service_derived_recorded s st hint sname svc hm
  have hf : FOK (buildDesired s st hint) := buildDesired_pres FOK_pres s st hint (fun _ kv h => by simp at h)
  refine ⟨v, hf hF _ hw, fun k hk => ?_⟩
  obtain ⟨v', hm', h1, h2, h3⟩ := hd k hk
  exact ⟨v', hf hF _ hm', h1, h2, h3⟩

/-- **the IDs of one sync are pairwise distinct**: if the previous-sync bookkeeping is well formed, the
services have distinct names (keys of a Go map) and the fresh IDs are a legal outcome of `newSvcID`
(distinct, not below `nextSvcID`; the driver's `bad-hint` check), no NAT ID is used by two
`updateService` calls. -/
theorem calls_ids_nodup (s : Syncer) (wf : WFPrev s.prevSvc s.nextId) (st : KState) (hint : AMap SvcKey Nat)
    (hnames : (st.svcs.map (·.1)).Nodup)
    (hfresh : (buildDesired s st hint).fresh.Nodup ∧ ∀ i ∈ (buildDesired s st hint).fresh, s.nextId ≤ i) :
    ((buildDesired s st hint).calls.map (·.2.1)).Nodup :=
  (buildDesired_idInv s wf st hint hnames).ids hfresh

/-- **the next sync inherits a well-formed bookkeeping** (steady state: `prevSvcMap = newSvcMap`). -/
theorem wfPrev_next (s : Syncer) (wf : WFPrev s.prevSvc s.nextId) (st : KState) (hint : AMap SvcKey Nat)
    (hnames : (st.svcs.map (·.1)).Nodup) (hfr : freshOk s.nextId (buildDesired s st hint).fresh = true) :
    WFPrev (buildDesired s st hint).newSvc (buildDesired s st hint).nextId := by
  obtain ⟨hnd, hrange⟩ := freshGood_of_freshOk hfr
  have hids := calls_ids_nodup s wf st hint hnames ⟨hnd, fun i hi => (hrange i hi).1⟩
  have nx := NextInv.buildDesired s st hint
  have inv := buildDesired_idInv s wf st hint hnames
  constructor
  · intro sk info ho hg
    obtain ⟨eps, hc⟩ := nx.own sk info ho hg
    rw [nx.nid]
    rcases inv.cls _ hc with ⟨info', hi', hid'⟩ | hfrm
    · have := wf.lt sk info' ho hi'
      simp only at hid'; omega
    · exact (hrange _ hfrm).2
  · intro sk1 sk2 i1 i2 ho1 ho2 h1 h2 hne hid
    obtain ⟨e1, hc1⟩ := nx.own sk1 i1 ho1 h1
    obtain ⟨e2, hc2⟩ := nx.own sk2 i2 ho2 h2
    have := nodup_map_inj hids hc1 hc2 hid
    exact hne (congrArg Prod.fst this)

/-- a syncer that starts on empty bookkeeping is well formed. -/
theorem wfPrev_empty (n : Nat) : WFPrev [] n :=
  ⟨fun _ _ _ h => by simp [AMap.get] at h, fun _ _ _ _ _ _ h => by simp [AMap.get] at h⟩

/-- steady state: a synced syncer whose bookkeeping is well formed stays so after any further `Apply`
(successful or not) on a state with distinct service names and a legal ID hint. -/
theorem apply_preserves_wf (s : Syncer) (hs : s.synced = true) (wf : WFPrev s.newSvc s.nextId)
    (st : KState) (hint : AMap SvcKey Nat) (fp : Nat) (hnames : (st.svcs.map (·.1)).Nodup)
    (hh : (s.apply st hint fp).hintOk = true) :
    WFPrev (s.apply st hint fp).syncer.newSvc (s.apply st hint fp).syncer.nextId := by
  unfold Syncer.apply at hh ⊢
  simp only [hs, if_true] at hh ⊢
  exact wfPrev_next { s with prevSvc := s.newSvc, prevEps := s.newEps } wf st hint hnames hh

/-- **Exactness without the ID hypothesis**: for a syncer with well-formed bookkeeping, distinct
service names and a legal ID hint, the cluster-IP frontend of every service lists exactly its ready
endpoints, local ones first — provided only that no frontend key is `Set` twice (the code's
"no duplicities" assumption). -/
theorem cluster_ip_frontend_exact' (s : Syncer) (wf : WFPrev s.prevSvc s.nextId) (st : KState) (hint : AMap SvcKey Nat)
    (hnames : (st.svcs.map (·.1)).Nodup) (hfr : freshOk s.nextId (buildDesired s st hint).fresh = true)
    (sname : String) (svc : Svc) (hm : (sname, svc) ∈ st.svcs)
    (hF : ((buildDesired s st hint).fwrites.map (·.1)).Nodup) :
    ∃ v, (buildDesired s st hint).des.F.get (zeroKey svc) = some v ∧
      v.count = (readyOrdered (epsFor s st sname svc)).length ∧ v.lcl = localReady (epsFor s st sname svc) ∧
      ∀ i (hi : i < (readyOrdered (epsFor s st sname svc)).length),
        (buildDesired s st hint).des.B.get ⟨v.id, i⟩ =
          some ⟨(readyOrdered (epsFor s st sname svc))[i].ip, (readyOrdered (epsFor s st sname svc))[i].port⟩ := by
  obtain ⟨hnd, hrange⟩ := freshGood_of_freshOk hfr
  obtain ⟨v, h1, h2, h3, _, h5⟩ := cluster_ip_frontend_exact s st hint sname svc hm hF
    (calls_ids_nodup s wf st hint hnames ⟨hnd, fun i hi => (hrange i hi).1⟩)
  exact ⟨v, h1, h2, h3, h5⟩

/-! ### Restart: the adopted bookkeeping is well formed; exactness for every good syncer -/

/-- **restart**: the bookkeeping a fresh syncer adopts from whatever is in the maps is well formed —
IDs found twice under different services are not adopted (`duplicateIDs`), `nextSvcID` is above
every matched ID. -/
theorem wfPrev_startup (s : Syncer) (hs : s.prevSvc = []) (st : KState) :
    WFPrev (startupBuildPrev s st).prevSvc (startupBuildPrev s st).nextId := by
  unfold startupBuildPrev
  simp only [hs]
  generalize hfes : matchedFrontends s.npIPs st.svcs s.dp.F = fes
  have hmax := foldl_max_ge fes s.nextId
  constructor
  · intro sk info _ hg
    rcases adopt_get _ _ _ sk info hg with h | ⟨fe, hfe, _, hid⟩
    · simp [AMap.get] at h
    · rw [hid]; exact hmax.2 fe (List.mem_filter.1 hfe).1
  · intro sk1 sk2 i1 i2 ho1 ho2 h1 h2 hne hid
    rcases adopt_get _ _ _ sk1 i1 h1 with h | ⟨fe1, hfe1, hk1, hid1⟩
    · simp [AMap.get] at h
    rcases adopt_get _ _ _ sk2 i2 h2 with h | ⟨fe2, hfe2, hk2, hid2⟩
    · simp [AMap.get] at h
    obtain ⟨hm1, hnd1⟩ := List.mem_filter.1 hfe1
    obtain ⟨hm2, _⟩ := List.mem_filter.1 hfe2
    -- owner keys adopted at start-up are cluster-IP keys: different keys = different services
    have hs : fe1.1.sname ≠ fe2.1.sname := by
      intro hsn
      apply hne
      rw [← hk1, ← hk2]
      have e1 : fe1.1.extra = .prim := by
        rcases ho1 with h | ⟨n, h⟩
        · rw [← hk1] at h; exact h
        · rw [← hk1] at h; exact absurd h (matched_extra (hfes ▸ hm1) n)
      have e2 : fe2.1.extra = .prim := by
        rcases ho2 with h | ⟨n, h⟩
        · rw [← hk2] at h; exact h
        · rw [← hk2] at h; exact absurd h (matched_extra (hfes ▸ hm2) n)
      cases hh1 : fe1.1 with | mk s1 x1 => cases hh2 : fe2.1 with | mk s2 x2 =>
        rw [hh1] at e1 hsn; rw [hh2] at e2 hsn
        simp only at e1 e2 hsn
        rw [e1, e2, hsn]
    have hdup : isDupId fes fe1.2.id = true := by
      unfold isDupId
      rw [List.any_eq_true]
      refine ⟨fe1, hm1, ?_⟩
      simp only [beq_self_eq_true, Bool.true_and, List.any_eq_true]
      refine ⟨fe2, hm2, ?_⟩
      simp only [Bool.and_eq_true, beq_iff_eq, bne_iff_ne, ne_eq]
      exact ⟨by rw [← hid2, ← hid, hid1], hs⟩
    simp [hdup] at hnd1

/-- a syncer whose ID bookkeeping can be relied on: freshly created (also over non-empty maps), or synced
with a well-formed `newSvcMap`. -/
def GoodSyncer (s : Syncer) : Prop :=
  (s.synced = false ∧ s.prevSvc = []) ∨ (s.synced = true ∧ WFPrev s.newSvc s.nextId)

theorem goodSyncer_new (np : List Nat) (rts : AMap Nat Route) (dp : DP) : GoodSyncer (Syncer.new np rts dp) :=
  Or.inl ⟨rfl, rfl⟩

/-- the bookkeeping the desired maps are built from is well formed — at start-up too. -/
theorem prepared_wf (s : Syncer) (hg : GoodSyncer s) (st : KState) :
    WFPrev (prepared s st).prevSvc (prepared s st).nextId := by
  unfold prepared
  rcases hg with ⟨h1, h2⟩ | ⟨h1, h2⟩
  · simp only [h1, Bool.false_eq_true, if_false]; exact wfPrev_startup s h2 st
  · simp only [h1, if_true]; exact h2

/-- `Apply` keeps the syncer good, unless it is a FIRST sync that fails (then `prevSvcMap` is kept and
`startupBuildPrev` runs again on top of it — not covered). -/
theorem apply_good (s : Syncer) (hg : GoodSyncer s) (st : KState) (hint : AMap SvcKey Nat) (fp : Nat)
    (hnames : (st.svcs.map (·.1)).Nodup) (hh : (s.apply st hint fp).hintOk = true)
    (hok : s.synced = true ∨ (s.apply st hint fp).ok = true) : GoodSyncer (s.apply st hint fp).syncer := by
  have wf := prepared_wf s hg st
  have hsy : (s.apply st hint fp).syncer.synced = true := by
    unfold Syncer.apply at hok ⊢
    rcases hok with h | h
    · simp [h]
    · split at h <;> simp_all
  refine Or.inr ⟨hsy, ?_⟩
  have e1 : (s.apply st hint fp).syncer.newSvc = (buildDesired (prepared s st) st hint).newSvc := by
    unfold Syncer.apply prepared; split <;> rfl
  have e2 : (s.apply st hint fp).syncer.nextId = (buildDesired (prepared s st) st hint).nextId := by
    unfold Syncer.apply prepared; split <;> rfl
  have e3 : (s.apply st hint fp).hintOk = freshOk (prepared s st).nextId (buildDesired (prepared s st) st hint).fresh := by
    unfold Syncer.apply prepared; split <;> rfl
  rw [e1, e2]
  exact wfPrev_next (prepared s st) wf st hint hnames (by rw [← e3]; exact hh)

/-- **Exactness with no ID hypothesis at all**, for every good syncer (fresh after a restart over any map
contents, or in steady state): the cluster-IP frontend of every service lists exactly its ready
endpoints, local ones first, in the kernel maps after a completed sync. -/
theorem synced_cluster_ip_frontend_exact' (s : Syncer) (hg : GoodSyncer s) (st : KState) (hint : AMap SvcKey Nat) (fp : Nat)
    (hnames : (st.svcs.map (·.1)).Nodup) (hh : (s.apply st hint fp).hintOk = true)
    (hok : (s.apply st hint fp).ok = true) (sname : String) (svc : Svc) (hm : (sname, svc) ∈ st.svcs)
    (hF : ((buildDesired (prepared s st) st hint).fwrites.map (·.1)).Nodup) :
    ∃ v, (s.apply st hint fp).syncer.dp.F.get (zeroKey svc) = some v ∧
      v.count = (readyOrdered (epsFor (prepared s st) st sname svc)).length ∧
      v.lcl = localReady (epsFor (prepared s st) st sname svc) ∧
      ∀ i (hi : i < (readyOrdered (epsFor (prepared s st) st sname svc)).length),
        (s.apply st hint fp).syncer.dp.B.get ⟨v.id, i⟩ =
          some ⟨(readyOrdered (epsFor (prepared s st) st sname svc))[i].ip,
                (readyOrdered (epsFor (prepared s st) st sname svc))[i].port⟩ := by
  have e3 : (s.apply st hint fp).hintOk = freshOk (prepared s st).nextId (buildDesired (prepared s st) st hint).fresh := by
    unfold Syncer.apply prepared; split <;> rfl
  obtain ⟨hnd, hrange⟩ := freshGood_of_freshOk (b := buildDesired (prepared s st) st hint) (by rw [← e3]; exact hh)
  exact synced_cluster_ip_frontend_exact s st hint fp hok sname svc hm hF
    (calls_ids_nodup (prepared s st) (prepared_wf s hg st) st hint hnames ⟨hnd, fun i hi => (hrange i hi).1⟩)

/-! ### Nothing stale in the desired maps (the ⊆ direction of "exactly") -/

/-- **no stale frontend in the desired maps**: every frontend key of the maps a sync builds belongs to a
service of the current state (`KeyOf`). -/
theorem desired_frontends_only_current (s : Syncer) (st : KState) (hint : AMap SvcKey Nat) (k : FKey) (v : FVal)
    (h : (buildDesired s st hint).des.F.get k = some v) : ∃ p ∈ st.svcs, KeyOf p.2 k := by
  have fk : FK (buildDesired s st hint) := buildDesired_pres FK_pres s st hint (fun k hk => by simp [AMap.get] at hk)
  obtain ⟨w, hw, he⟩ := fk k (by simp [h])
  exact he ▸ QO.buildDesired s st hint w hw

/-- **no stale backend in the desired maps**: if no frontend key is `Set` twice in the sync, every backend
entry `(id, i)` of the maps it builds is counted by a frontend of those maps (`i < count`). -/
theorem desired_backends_only_current (s : Syncer) (st : KState) (hint : AMap SvcKey Nat)
    (hF : ((buildDesired s st hint).fwrites.map (·.1)).Nodup) (k : BKey) (bv : BVal)
    (h : (buildDesired s st hint).des.B.get k = some bv) :
    ∃ fk v, (buildDesired s st hint).des.F.get fk = some v ∧ v.id = k.id ∧ k.idx < v.count := by
  have bk : BK (buildDesired s st hint) := buildDesired_pres BK_pres s st hint (fun k hk => by simp [AMap.get] at hk)
  have cf : CF (buildDesired s st hint) := Pres2.buildDesired CF_pres2 s st hint (fun _ h => by simp at h)
  have hf : FOK (buildDesired s st hint) := buildDesired_pres FOK_pres s st hint (fun _ kv h => by simp at h)
  obtain ⟨c, hc, h1, h2⟩ := bk k (by simp [h])
  obtain ⟨w, hw, h3, h4⟩ := cf c hc
  exact ⟨w.1, w.2, hf hF w hw, by rw [h3, h1], by rw [h4]; exact h2⟩

/-- **`desired_only_current`**: the maps a sync builds — and hence, by `apply_final_exact`, the kernel maps
after a completed sync — contain only frontends of current services, and (if no frontend key is `Set`
twice) only backends counted by one of those frontends. -/
theorem desired_only_current (s : Syncer) (st : KState) (hint : AMap SvcKey Nat) :
    (∀ k v, (buildDesired s st hint).des.F.get k = some v → ∃ p ∈ st.svcs, KeyOf p.2 k) ∧
    (((buildDesired s st hint).fwrites.map (·.1)).Nodup → ∀ k bv, (buildDesired s st hint).des.B.get k = some bv →
      ∃ fk v, (buildDesired s st hint).des.F.get fk = some v ∧ v.id = k.id ∧ k.idx < v.count) :=
  ⟨fun k v h => desired_frontends_only_current s st hint k v h,
   fun hF k bv h => desired_backends_only_current s st hint hF k bv h⟩

/-! ### Traffic-policy flag of the cluster-IP frontend -/

/-- the flags `updateService` + `writeSvc` put on a cluster-IP frontend: internal traffic policy
Local → `NATFlgInternalLocal` (the kernel then uses only the first `local count` backends), exclude
annotation → `NATFlgExclude`. -/
def primFlags (svc : Svc) : Nat :=
  if svc.exclude then (if svc.intLocal then flgInternalLocal else 0) ||| flgExclude
  else (if svc.intLocal then flgInternalLocal else 0)

theorem applySvc_flag_record (prevSvc : AMap SvcKey SvcInfo) (hint : AMap SvcKey Nat) (b : Bld) (skey : SvcKey) (svc : Svc)
    (eps : List Ep) :
    ∃ v, (zeroKey svc, v) ∈ (applySvc prevSvc hint b skey svc eps).fwrites ∧ v.flags = primFlags svc := by
  have key : ∀ (b : Bld) id, ∃ v, (zeroKey svc, v) ∈ (applySvcWith b skey svc id eps).fwrites ∧ v.flags = primFlags svc := by
    intro b id
    unfold C42.applySvcWith C42.updateService C42.writeSvc primFlags
    cases skey.extra <;> exact ⟨_, List.mem_cons_self .., rfl⟩
  unfold C42.applySvc
  split
  · exact key _ _
  · exact key _ _

/-- **local-only where the (internal) traffic policy requires**: the cluster-IP frontend of a service
with internal traffic policy Local carries `NATFlgInternalLocal` (and no such flag otherwise), next to
the local count proved in `cluster_ip_frontend_exact`. -/
theorem cluster_ip_frontend_flags (s : Syncer) (st : KState) (hint : AMap SvcKey Nat) (sname : String) (svc : Svc)
    (hm : (sname, svc) ∈ st.svcs) (hF : ((buildDesired s st hint).fwrites.map (·.1)).Nodup) :
    ∃ v, (buildDesired s st hint).des.F.get (zeroKey svc) = some v ∧ v.flags = primFlags svc := by
  have key : ∀ (l : List (String × Svc)) (b0 : Bld), (sname, svc) ∈ l →
      ∃ v, (zeroKey svc, v) ∈ (l.foldl (fun b p => applyService s st hint b p.1 p.2) b0).fwrites ∧ v.flags = primFlags svc := by
    intro l
    induction l with
    | nil => intro b0 h; simp at h
    | cons p rest ih =>
      intro b0 hm'
      simp only [List.foldl_cons]
      rcases List.mem_cons.1 hm' with h | h
      · subst h
        obtain ⟨v, h1, h2⟩ := applySvc_flag_record s.prevSvc hint b0 ⟨sname, .prim⟩ svc (epsFor s st sname svc)
        refine ⟨v, ?_, h2⟩
        apply foldl_mono_w _ (fun w b p h => (memw_pres w).applyService h s st hint p.1 p.2)
        unfold applyService
        exact (memw_pres _).applyRest h1 _ _ _ _ _
      · exact ih _ h
  obtain ⟨v, hw, hfl⟩ := key st.svcs _ hm
  have hf : FOK (buildDesired s st hint) := buildDesired_pres FOK_pres s st hint (fun _ kv h => by simp at h)
  exact ⟨v, hf hF _ (by unfold buildDesired; exact hw), hfl⟩

/-! ### Non-vacuity -/

/-- a non-trivial consistent state: one frontend with two backends, one black-hole frontend. -/
def exDP : DP :=
  { F := [(⟨10, 80, 6, 0, 0⟩, ⟨3, 2, 1, 0, 0⟩), (⟨11, 80, 6, 5, 24⟩, ⟨3, blackHole, 0, 0, 0⟩)],
    B := [(⟨3, 0⟩, ⟨100, 8080⟩), (⟨3, 1⟩, ⟨101, 8080⟩)] }

example : Consistent exDP := consistent_of_consistentB (by decide)

/-- the predicate is not trivially true: writing a frontend before its backends breaks it
(this is exactly the order `apply` must not use). -/
example : ¬ Consistent (runWrites ⟨[], []⟩ [.setF ⟨10, 80, 6, 0, 0⟩ ⟨3, 2, 1, 0, 0⟩]) := by
  intro h
  have := h ⟨10, 80, 6, 0, 0⟩ ⟨3, 2, 1, 0, 0⟩ (by decide) (by decide) 0 (by decide)
  revert this; decide

/-- and deleting a backend that a frontend still counts breaks it too. -/
example : ¬ Consistent (Write.run exDP (.delB ⟨3, 1⟩)) := by
  intro h
  have := h ⟨10, 80, 6, 0, 0⟩ ⟨3, 2, 1, 0, 0⟩ (by decide) (by decide) 1 (by decide)
  revert this; decide

def exSvc : Svc :=
  { clusterIP := 10, port := 80, proto := 6, nodePort := 30000, extIPs := [20], lbVIPs := [], srcRanges := [],
    affinity := none, extLocal := false, intLocal := false, hcNodePort := 0, exclude := false, reapUDP := false,
    topoMode := "" }

def exEp (ip : Nat) (loc rdy : Bool) : Ep :=
  { ip, port := 8080, isLocal := loc, ready := rdy, serving := rdy, terminating := false, zoneHints := [], nodeHints := [] }

def exState (eps : List Ep) : KState := { svcs := [("n/s", exSvc)], eps := [("n/s", eps)], host := "h", zone := "z" }

/-- a concrete two-sync history with writes in all four phases (backends shrink, a frontend goes). -/
def exSyncer : Syncer :=
  ((Syncer.new [7] [] ⟨[], []⟩).apply (exState [exEp 100 false true, exEp 101 true true, exEp 102 false false]) [] 0).syncer

example : exSyncer.dp.F.length = 3 ∧ exSyncer.dp.B.length = 2 := by decide +kernel
example : exSyncer.dp.B.get ⟨0, 0⟩ = some ⟨101, 8080⟩ := by decide +kernel  -- the local endpoint comes first

def exSvc2 : Svc := { exSvc with extIPs := [] }
def exState2 : KState := { svcs := [("n/s", exSvc2)], eps := [("n/s", [exEp 100 false true])], host := "h", zone := "z" }

/-- the second sync writes in all four phases: 1 frontend deleted, 1 backend written,
2 frontends updated (the changed service gets a new ID), 2 old backends deleted. -/
example : (exSyncer.apply exState2 [] 0).phases.map List.length = [1, 1, 2, 2] := by decide +kernel

example : readyOrdered [exEp 100 false true, exEp 101 true true, exEp 102 false false] =
    [exEp 101 true true, exEp 100 false true] := by decide

/-- the no-duplicates hypotheses of `cluster_ip_frontend_exact` hold for the example sync
(one service with a node port and an external IP: three frontend keys, one ID). -/
example : ((buildDesired (Syncer.new [7] [] ⟨[], []⟩) (exState [exEp 100 false true, exEp 101 true true]) []).fwrites.map (·.1)).Nodup ∧
    ((buildDesired (Syncer.new [7] [] ⟨[], []⟩) (exState [exEp 100 false true, exEp 101 true true]) []).calls.map (·.2.1)).Nodup ∧
    (buildDesired (Syncer.new [7] [] ⟨[], []⟩) (exState [exEp 100 false true, exEp 101 true true]) []).fwrites.length = 3 := by
  decide +kernel

/-- the derived keys of the example service: its external IP and its node port on the local address. -/
example : derivedKeys (Syncer.new [7] [] ⟨[], []⟩) exSvc = [⟨20, 80, 6, 0, 0⟩, ⟨7, 30000, 6, 0, 0⟩] := by decide

example : primFlags { exSvc with intLocal := true } = 2 ∧ primFlags exSvc = 0 := by decide

/-- a restarted syncer over arbitrary map contents is good. -/
example : GoodSyncer (Syncer.new [7] [] exDP) := goodSyncer_new _ _ _

/-- `KeyOf` is not trivially true: a key with a foreign address does not belong to the example service. -/
example : KeyOf exSvc ⟨20, 80, 6, 0, 0⟩ ∧ ¬ KeyOf exSvc ⟨99, 80, 6, 0, 0⟩ := by
  refine ⟨⟨rfl, Or.inl ⟨rfl, Or.inr (Or.inl (by decide))⟩⟩, ?_⟩
  rintro ⟨_, ⟨_, h | h | h⟩ | ⟨_, h⟩⟩ <;> revert h <;> decide

/-- a reachable mid-update state (one write of phase 1 done). -/
example : ∃ σ, Reach ⟨[], []⟩ exDP σ ∧ σ.dp.F.length = 1 :=
  ⟨_, Reach.init.step (Step.delF exDP ⟨10, 80, 6, 0, 0⟩ rfl), by decide⟩

end CalicoVerif.C42
